(* Lemmas about Model/Resp.v: the decoders never reach Panic / OutOfFuel, consume exactly
   one frame, are stable under extension of the input, request bounded memory, invert
   the encoder, and cut a stream into the same frames however it is fragmented. *)
From Coq Require Import NArith ZArith List Bool Lia Arith.
From RV Require Import Lib.Hex Model.Resp.
Import ListNotations.

(* ------------------------------------------------------------------ lists *)
Lemma skipn_app_le {A} (l x : list A) n : n <= length l -> skipn n (l ++ x) = skipn n l ++ x.
Proof.
  intros H. rewrite skipn_app. replace (n - length l) with 0 by lia. reflexivity.
Qed.

Lemma firstn_app_le {A} (l x : list A) n : n <= length l -> firstn n (l ++ x) = firstn n l.
Proof.
  intros H. rewrite firstn_app. replace (n - length l) with 0 by lia.
  cbn. apply app_nil_r.
Qed.

Lemma firstn_split_le {A} (l : list A) c m : c <= m -> exists y, firstn m l = firstn c l ++ y.
Proof.
  intros H. exists (skipn c (firstn m l)).
  rewrite <- (firstn_skipn c (firstn m l)) at 1. f_equal.
  rewrite firstn_firstn. now rewrite Nat.min_l by lia.
Qed.

(* ------------------------------------------------------------------ find_crlf *)
Lemma find_crlf_cons2 x y t :
  find_crlf (x :: y :: t) =
  if (x =? 13)%N && (y =? 10)%N then Some 0
  else match find_crlf (y :: t) with Some p => Some (S p) | None => None end.
Proof. reflexivity. Qed.

Lemma find_crlf_bound b p : find_crlf b = Some p -> p + 2 <= length b.
Proof.
  revert p. induction b as [|x t IH]; intros p H; [discriminate|].
  destruct t as [|y t']; [discriminate|].
  rewrite find_crlf_cons2 in H.
  destruct ((x =? 13)%N && (y =? 10)%N).
  - inversion H. cbn. lia.
  - destruct (find_crlf (y :: t')) as [q|] eqn:E; [|discriminate].
    inversion H. specialize (IH q eq_refl). cbn in *. lia.
Qed.

Lemma find_crlf_app b x p : find_crlf b = Some p -> find_crlf (b ++ x) = Some p.
Proof.
  revert p. induction b as [|a t IH]; intros p H; [discriminate|].
  destruct t as [|y t']; [discriminate|].
  rewrite find_crlf_cons2 in H. cbn [app]. rewrite find_crlf_cons2.
  destruct ((a =? 13)%N && (y =? 10)%N); [exact H|].
  destruct (find_crlf (y :: t')) as [q|] eqn:E; [|discriminate].
  change (y :: t' ++ x) with ((y :: t') ++ x). rewrite (IH q eq_refl). exact H.
Qed.

Lemma find_crlf_firstn b n p : find_crlf b = Some p -> p + 2 <= n -> find_crlf (firstn n b) = Some p.
Proof.
  revert n p. induction b as [|a t IH]; intros n p H Hn; [discriminate|].
  destruct t as [|y t']; [discriminate|].
  rewrite find_crlf_cons2 in H.
  destruct n as [|[|n]]; try lia.
  cbn [firstn]. rewrite find_crlf_cons2.
  destruct ((a =? 13)%N && (y =? 10)%N); [exact H|].
  destruct (find_crlf (y :: t')) as [q|] eqn:E; [|discriminate].
  inversion H; subst p.
  change (y :: firstn n t') with (firstn (S n) (y :: t')).
  rewrite (IH (S n) q eq_refl) by lia. reflexivity.
Qed.

Lemma find_crlf_head c t : find_crlf (c :: t) = Some 0 -> c = 13%N.
Proof.
  destruct t as [|y t']; [discriminate|]. rewrite find_crlf_cons2.
  destruct ((c =? 13)%N && (y =? 10)%N) eqn:E.
  - intros _. apply andb_prop in E. now apply N.eqb_eq.
  - destruct (find_crlf (y :: t')); discriminate.
Qed.

(* the first CR LF of a line that itself contains no CR *)
Lemma find_crlf_line s x : Forall (fun c => c <> 13%N) s -> find_crlf (s ++ 13%N :: 10%N :: x) = Some (length s).
Proof.
  induction 1 as [|c s Hc Hs IH]; [reflexivity|].
  cbn [app length].
  destruct (s ++ 13%N :: 10%N :: x) as [|y r] eqn:E.
  - destruct s; discriminate.
  - rewrite find_crlf_cons2. replace (c =? 13)%N with false by (symmetry; now apply N.eqb_neq).
    cbn [andb]. rewrite IH. reflexivity.
Qed.

(* ------------------------------------------------------------------ slice *)
Lemma slice_some b a e s : slice b a e = Some s ->
  a <= e /\ e <= length b /\ s = firstn (e - a) (skipn a b) /\ length s = e - a.
Proof.
  unfold slice. destruct (a <=? e) eqn:E1; [|discriminate].
  destruct (e <=? length b) eqn:E2; [|discriminate]. cbn [andb].
  apply Nat.leb_le in E1. apply Nat.leb_le in E2. intros H; inversion H; subst s.
  repeat split; try assumption.
  rewrite firstn_length, skipn_length. lia.
Qed.

Lemma slice_ok b a e : a <= e -> e <= length b -> slice b a e = Some (firstn (e - a) (skipn a b)).
Proof.
  intros H1 H2. unfold slice.
  apply Nat.leb_le in H1. apply Nat.leb_le in H2. now rewrite H1, H2.
Qed.

Lemma slice_app b x a e s : slice b a e = Some s -> slice (b ++ x) a e = Some s.
Proof.
  intros H. destruct (slice_some _ _ _ _ H) as (H1 & H2 & -> & _).
  rewrite slice_ok; [|lia|rewrite app_length; lia].
  rewrite skipn_app_le by lia. rewrite firstn_app_le; [reflexivity|].
  rewrite skipn_length. lia.
Qed.

Lemma slice_firstn b n a e s : slice b a e = Some s -> e <= n -> slice (firstn n b) a e = Some s.
Proof.
  intros H Hn. destruct (slice_some _ _ _ _ H) as (H1 & H2 & -> & _).
  rewrite slice_ok; [|lia|rewrite firstn_length; lia].
  rewrite skipn_firstn_comm. rewrite firstn_firstn. f_equal. f_equal. lia.
Qed.

(* ------------------------------------------------------------------ parse_i64 *)
Lemma parse_i64_range s z : parse_i64 s = Some z -> (- Z.of_N I64_LIM <= z < Z.of_N I64_LIM)%Z.
Proof.
  unfold parse_i64. destruct s as [|c t]; [discriminate|].
  destruct (if (c =? 45)%N || (c =? 43)%N then t else c :: t) as [|d ds]; [discriminate|].
  destruct (digits_val (d :: ds) 0) as [n|]; [|discriminate].
  destruct (c =? 45)%N.
  - destruct (n <=? I64_LIM)%N eqn:E; [|discriminate]. apply N.leb_le in E.
    intros H; inversion H. unfold I64_LIM in *. lia.
  - destruct (n <? I64_LIM)%N eqn:E; [|discriminate]. apply N.ltb_lt in E.
    intros H; inversion H. unfold I64_LIM in *. lia.
Qed.

(* ------------------------------------------------------------------ predicates *)
Definition decided (o : outcome) : Prop :=
  match o with Done _ _ | Err _ => True | _ => False end.

(* Rust slices are at most isize::MAX = 2^63 - 1 bytes long; we assume < 2^62 *)
Definition size_ok (b : bytes) : Prop := (Z.of_nat (length b) < 4611686018427387904)%Z.

Definition Bnd (rec : bytes -> outcome * N) :=
  forall s v c, fst (rec s) = Done v c -> 1 <= c <= length s.
Definition Ext (rec : bytes -> outcome * N) :=
  forall s x o, fst (rec s) = o -> decided o -> fst (rec (s ++ x)) = o.
Definition Exact (rec : bytes -> outcome * N) :=
  forall s v c, fst (rec s) = Done v c -> fst (rec (firstn c s)) = Done v c.
Definition NoOof (rec : bytes -> outcome * N) := forall s, fst (rec s) <> OutOfFuel.
Definition NoPanic (rec : bytes -> outcome * N) := forall s, size_ok s -> fst (rec s) <> Panic.
Definition AllocB (rec : bytes -> outcome * N) :=
  forall s, (snd (rec s) <= ELEM_SIZE * N.of_nat (length s))%N.

Lemma fst_tick a r : fst (tick a r) = fst r.
Proof. reflexivity. Qed.

Lemma size_ok_skipn b n : size_ok b -> size_ok (skipn n b).
Proof. unfold size_ok. rewrite skipn_length. lia. Qed.

Lemma size_ok_app_l b x : size_ok (b ++ x) -> size_ok b.
Proof. unfold size_ok. rewrite app_length. lia. Qed.

(* ------------------------------------------------------------------ parse_line *)
Lemma parse_line_bnd mk : Bnd (parse_line mk).
Proof.
  intros s v c. unfold parse_line.
  destruct (find_crlf s) as [pos|] eqn:Hf; [|discriminate].
  destruct (slice s 1 pos); [|discriminate].
  cbn. intros H; inversion H. apply find_crlf_bound in Hf. lia.
Qed.

Lemma parse_line_ext mk : Ext (parse_line mk).
Proof.
  intros s x o H D. unfold parse_line in *.
  destruct (find_crlf s) as [pos|] eqn:Hf.
  - rewrite (find_crlf_app _ x _ Hf). destruct (slice s 1 pos) as [l|] eqn:Hs.
    + rewrite (slice_app _ x _ _ _ Hs). exact H.
    + cbn in H. subst o. destruct D.
  - cbn in H. subst o. destruct D.
Qed.

Lemma parse_line_exact mk : Exact (parse_line mk).
Proof.
  intros s v c. unfold parse_line.
  destruct (find_crlf s) as [pos|] eqn:Hf; [|discriminate].
  destruct (slice s 1 pos) as [l|] eqn:Hs; [|discriminate].
  cbn. intros H; inversion H; subst.
  rewrite (find_crlf_firstn _ _ _ Hf) by lia.
  rewrite (slice_firstn _ _ _ _ _ Hs) by lia. reflexivity.
Qed.

Lemma parse_line_nooof mk : NoOof (parse_line mk).
Proof.
  intros s. unfold parse_line. destruct (find_crlf s); [|discriminate].
  destruct (slice s 1 n); discriminate.
Qed.

Lemma slice_line c t pos : c <> 13%N -> find_crlf (c :: t) = Some pos ->
  exists l, slice (c :: t) 1 pos = Some l /\ length l = pos - 1.
Proof.
  intros Hc Hf. assert (pos <> 0) by (intros ->; apply Hc; eapply find_crlf_head; eauto).
  pose proof (find_crlf_bound _ _ Hf).
  exists (firstn (pos - 1) (skipn 1 (c :: t))). split.
  - apply slice_ok; lia.
  - rewrite firstn_length, skipn_length. lia.
Qed.

Lemma parse_line_nopanic mk c t : c <> 13%N -> fst (parse_line mk (c :: t)) <> Panic.
Proof.
  intros Hc. unfold parse_line. destruct (find_crlf (c :: t)) as [pos|] eqn:Hf; [|discriminate].
  destruct (slice_line _ _ _ Hc Hf) as (l & -> & _). discriminate.
Qed.

Lemma parse_line_alloc mk : AllocB (parse_line mk).
Proof.
  intros s. unfold parse_line, ELEM_SIZE. destruct (find_crlf s) as [pos|] eqn:Hf; [|cbn [snd]; lia].
  destruct (slice s 1 pos) as [l|] eqn:Hs; [|cbn [snd]; lia].
  cbn [snd]. apply slice_some in Hs. apply find_crlf_bound in Hf. lia.
Qed.

(* ------------------------------------------------------------------ parse_integer *)
Lemma parse_integer_bnd : Bnd parse_integer.
Proof.
  intros s v c. unfold parse_integer.
  destruct (find_crlf s) as [pos|] eqn:Hf; [|discriminate].
  destruct (slice s 1 pos); [|discriminate].
  destruct (parse_i64 l); [|discriminate].
  cbn. intros H; inversion H. apply find_crlf_bound in Hf. lia.
Qed.

Lemma parse_integer_ext : Ext parse_integer.
Proof.
  intros s x o H D. unfold parse_integer in *.
  destruct (find_crlf s) as [pos|] eqn:Hf.
  - rewrite (find_crlf_app _ x _ Hf). destruct (slice s 1 pos) as [l|] eqn:Hs.
    + rewrite (slice_app _ x _ _ _ Hs). exact H.
    + cbn in H. subst o. destruct D.
  - cbn in H. subst o. destruct D.
Qed.

Lemma parse_integer_exact : Exact parse_integer.
Proof.
  intros s v c. unfold parse_integer.
  destruct (find_crlf s) as [pos|] eqn:Hf; [|discriminate].
  destruct (slice s 1 pos) as [l|] eqn:Hs; [|discriminate].
  destruct (parse_i64 l) eqn:Hi; [|discriminate].
  cbn. intros H; inversion H; subst.
  rewrite (find_crlf_firstn _ _ _ Hf) by lia.
  rewrite (slice_firstn _ _ _ _ _ Hs) by lia. rewrite Hi. reflexivity.
Qed.

Lemma parse_integer_nooof : NoOof parse_integer.
Proof.
  intros s. unfold parse_integer. destruct (find_crlf s); [|discriminate].
  destruct (slice s 1 n); [|discriminate]. destruct (parse_i64 l); discriminate.
Qed.

Lemma parse_integer_nopanic c t : c <> 13%N -> fst (parse_integer (c :: t)) <> Panic.
Proof.
  intros Hc. unfold parse_integer. destruct (find_crlf (c :: t)) as [pos|] eqn:Hf; [|discriminate].
  destruct (slice_line _ _ _ Hc Hf) as (l & -> & _). destruct (parse_i64 l); discriminate.
Qed.

Lemma parse_integer_alloc : AllocB parse_integer.
Proof.
  intros s. unfold parse_integer, ELEM_SIZE. destruct (find_crlf s) as [pos|]; [|cbn [snd]; lia].
  destruct (slice s 1 pos) as [l|]; [|cbn [snd]; lia]. destruct (parse_i64 l); cbn [snd]; lia.
Qed.

(* ------------------------------------------------------------------ parse_bulk *)
Lemma parse_bulk_bnd : Bnd parse_bulk.
Proof.
  intros s v c. unfold parse_bulk. cbv zeta.
  destruct (find_crlf s) as [pos|] eqn:Hf; [|discriminate].
  destruct (slice s 1 pos) as [l|]; [|discriminate].
  destruct (parse_i64 l) as [len|]; [|discriminate].
  apply find_crlf_bound in Hf.
  destruct (len =? -1)%Z. { cbn. intros H; inversion H. lia. }
  destruct (len <? 0)%Z eqn:E2; [discriminate|].
  destruct (USIZE_LIM <=? Z.of_nat (pos + 2) + len)%Z; [discriminate|].
  destruct (USIZE_LIM <=? Z.of_nat (pos + 2) + len + 2)%Z; [discriminate|].
  destruct (Z.of_nat (length s) <? Z.of_nat (pos + 2) + len + 2)%Z eqn:E5; [discriminate|].
  destruct (slice s (pos + 2) (pos + 2 + Z.to_nat len)); [|discriminate].
  cbn. intros H; inversion H. apply Z.ltb_ge in E5, E2. lia.
Qed.

Lemma parse_bulk_ext : Ext parse_bulk.
Proof.
  intros s x o H D. unfold parse_bulk in *. cbv zeta in *.
  destruct (find_crlf s) as [pos|] eqn:Hf; [|cbn in H; subst o; destruct D].
  rewrite (find_crlf_app _ x _ Hf).
  destruct (slice s 1 pos) as [l|] eqn:Hs; [|cbn in H; subst o; destruct D].
  rewrite (slice_app _ x _ _ _ Hs).
  destruct (parse_i64 l) as [len|]; [|exact H].
  destruct (len =? -1)%Z; [exact H|].
  destruct (len <? 0)%Z eqn:E2; [exact H|].
  destruct (USIZE_LIM <=? Z.of_nat (pos + 2) + len)%Z; [exact H|].
  destruct (USIZE_LIM <=? Z.of_nat (pos + 2) + len + 2)%Z; [exact H|].
  destruct (Z.of_nat (length s) <? Z.of_nat (pos + 2) + len + 2)%Z eqn:E5;
    [cbn in H; subst o; destruct D|].
  apply Z.ltb_ge in E5.
  replace (Z.of_nat (length (s ++ x)) <? Z.of_nat (pos + 2) + len + 2)%Z with false
    by (symmetry; apply Z.ltb_ge; rewrite app_length; lia).
  destruct (slice s (pos + 2) (pos + 2 + Z.to_nat len)) as [d|] eqn:Hd;
    [|cbn in H; subst o; destruct D].
  rewrite (slice_app _ x _ _ _ Hd). exact H.
Qed.

Lemma parse_bulk_exact : Exact parse_bulk.
Proof.
  intros s v c. unfold parse_bulk. cbv zeta.
  destruct (find_crlf s) as [pos|] eqn:Hf; [|discriminate].
  destruct (slice s 1 pos) as [l|] eqn:Hs; [|discriminate].
  destruct (parse_i64 l) as [len|] eqn:Hi; [|discriminate].
  pose proof (find_crlf_bound _ _ Hf) as Hb.
  destruct (len =? -1)%Z eqn:E1.
  { cbn. intros H; inversion H; subst.
    rewrite (find_crlf_firstn _ _ _ Hf) by lia.
    rewrite (slice_firstn _ _ _ _ _ Hs) by lia. rewrite Hi, E1. reflexivity. }
  destruct (len <? 0)%Z eqn:E2; [discriminate|].
  destruct (USIZE_LIM <=? Z.of_nat (pos + 2) + len)%Z eqn:E3; [discriminate|].
  destruct (USIZE_LIM <=? Z.of_nat (pos + 2) + len + 2)%Z eqn:E4; [discriminate|].
  destruct (Z.of_nat (length s) <? Z.of_nat (pos + 2) + len + 2)%Z eqn:E5; [discriminate|].
  destruct (slice s (pos + 2) (pos + 2 + Z.to_nat len)) as [d|] eqn:Hd; [|discriminate].
  cbn. intros H; inversion H; subst. apply Z.ltb_ge in E5, E2.
  rewrite (find_crlf_firstn _ _ _ Hf) by lia.
  rewrite (slice_firstn _ _ _ _ _ Hs) by lia. rewrite Hi, E1.
  replace (len <? 0)%Z with false by (symmetry; now apply Z.ltb_ge).
  rewrite E3, E4.
  replace (Z.of_nat (length (firstn (pos + 2 + Z.to_nat len + 2) s)) <? Z.of_nat (pos + 2) + len + 2)%Z
    with false by (symmetry; apply Z.ltb_ge; rewrite firstn_length; lia).
  rewrite (slice_firstn _ _ _ _ _ Hd) by lia. reflexivity.
Qed.

Lemma parse_bulk_nooof : NoOof parse_bulk.
Proof.
  intros s. unfold parse_bulk. cbv zeta.
  destruct (find_crlf s) as [pos|]; [|discriminate].
  destruct (slice s 1 pos) as [l|]; [|discriminate].
  destruct (parse_i64 l) as [len|]; [|discriminate].
  destruct (len =? -1)%Z; [discriminate|].
  destruct (len <? 0)%Z; [discriminate|].
  destruct (USIZE_LIM <=? Z.of_nat (pos + 2) + len)%Z; [discriminate|].
  destruct (USIZE_LIM <=? Z.of_nat (pos + 2) + len + 2)%Z; [discriminate|].
  destruct (Z.of_nat (length s) <? Z.of_nat (pos + 2) + len + 2)%Z; [discriminate|].
  destruct (slice s (pos + 2) (pos + 2 + Z.to_nat len)); discriminate.
Qed.

Lemma parse_bulk_nopanic c t : c <> 13%N -> size_ok (c :: t) -> fst (parse_bulk (c :: t)) <> Panic.
Proof.
  intros Hc Hsz. unfold parse_bulk. cbv zeta.
  destruct (find_crlf (c :: t)) as [pos|] eqn:Hf; [|discriminate].
  destruct (slice_line _ _ _ Hc Hf) as (l & -> & _).
  destruct (parse_i64 l) as [len|] eqn:Hi; [|discriminate].
  pose proof (find_crlf_bound _ _ Hf) as Hb.
  pose proof (parse_i64_range _ _ Hi) as Hr. unfold I64_LIM in Hr. unfold size_ok in Hsz.
  destruct (len =? -1)%Z; [discriminate|].
  destruct (len <? 0)%Z eqn:E2; [discriminate|].
  destruct (USIZE_LIM <=? Z.of_nat (pos + 2) + len)%Z eqn:E3.
  { exfalso. apply Z.leb_le in E3. unfold USIZE_LIM in E3. lia. }
  destruct (USIZE_LIM <=? Z.of_nat (pos + 2) + len + 2)%Z eqn:E4.
  { exfalso. apply Z.leb_le in E4. unfold USIZE_LIM in E4. lia. }
  destruct (Z.of_nat (length (c :: t)) <? Z.of_nat (pos + 2) + len + 2)%Z eqn:E5; [discriminate|].
  apply Z.ltb_ge in E5, E2.
  rewrite slice_ok by lia. discriminate.
Qed.

Lemma parse_bulk_alloc : AllocB parse_bulk.
Proof.
  intros s. unfold parse_bulk, ELEM_SIZE. cbv zeta.
  destruct (find_crlf s) as [pos|]; [|cbn [snd]; lia].
  destruct (slice s 1 pos) as [l|]; [|cbn [snd]; lia].
  destruct (parse_i64 l) as [len|]; [|cbn [snd]; lia].
  destruct (len =? -1)%Z; [cbn [snd]; lia|].
  destruct (len <? 0)%Z eqn:E2; [cbn [snd]; lia|].
  destruct (USIZE_LIM <=? Z.of_nat (pos + 2) + len)%Z; [cbn [snd]; lia|].
  destruct (USIZE_LIM <=? Z.of_nat (pos + 2) + len + 2)%Z; [cbn [snd]; lia|].
  destruct (Z.of_nat (length s) <? Z.of_nat (pos + 2) + len + 2)%Z eqn:E5; [cbn [snd]; lia|].
  destruct (slice s (pos + 2) (pos + 2 + Z.to_nat len)); cbn [snd]; [|lia].
  apply Z.ltb_ge in E5, E2. lia.
Qed.

(* ------------------------------------------------------------------ the array loop *)
Lemma arr_loop_zero codec rec lf input cnt off acc : (cnt =? 0)%N = true ->
  arr_loop codec rec lf input cnt off acc = (Done (RArr (rev acc)) off, 0%N).
Proof. intros H. destruct lf; cbn [arr_loop]; now rewrite H. Qed.

Lemma arr_loop_O codec rec input cnt off acc : (cnt =? 0)%N = false ->
  arr_loop codec rec 0 input cnt off acc = (OutOfFuel, 0%N).
Proof. intros H. cbn [arr_loop]. now rewrite H. Qed.

Lemma arr_loop_S codec rec lf input cnt off acc : (cnt =? 0)%N = false ->
  arr_loop codec rec (S lf) input cnt off acc =
  if codec && (length input <=? off) then (Incomplete, 0%N)
  else if (length input <? off) then (Panic, 0%N)
  else let r := rec (skipn off input) in
       match fst r with
       | Done v c => tick (snd r) (arr_loop codec rec lf input (cnt - 1) (off + c) (v :: acc))
       | _ => r
       end.
Proof. intros H. cbn [arr_loop]. now rewrite H. Qed.

Lemma arr_loop_bnd codec rec (Hb : Bnd rec) :
  forall lf input cnt off acc v n,
    off <= length input ->
    fst (arr_loop codec rec lf input cnt off acc) = Done v n -> off <= n <= length input.
Proof.
  induction lf as [|lf IH]; intros input cnt off acc v n Ho H;
    destruct (cnt =? 0)%N eqn:Ec.
  - rewrite arr_loop_zero in H by assumption. inversion H. lia.
  - rewrite arr_loop_O in H by assumption. discriminate.
  - rewrite arr_loop_zero in H by assumption. inversion H. lia.
  - rewrite arr_loop_S in H by assumption.
    destruct (codec && (length input <=? off)); [discriminate|].
    destruct (length input <? off); [discriminate|].
    cbv zeta in H. destruct (rec (skipn off input)) as [o a] eqn:Hr. cbn [fst snd] in H.
    destruct o; try discriminate.
    rewrite fst_tick in H.
    assert (Hc : 1 <= n0 <= length (skipn off input)) by (apply (Hb _ v0); now rewrite Hr).
    rewrite skipn_length in Hc.
    apply IH in H; lia.
Qed.

Lemma arr_loop_ext codec rec x (Hb : Bnd rec) (He : Ext rec) :
  forall lf lf' input cnt off acc o,
    off <= length input -> length (input ++ x) < off + lf' ->
    fst (arr_loop codec rec lf input cnt off acc) = o -> decided o ->
    fst (arr_loop codec rec lf' (input ++ x) cnt off acc) = o.
Proof.
  induction lf as [|lf IH]; intros lf' input cnt off acc o Ho Hl H D;
    destruct (cnt =? 0)%N eqn:Ec.
  - rewrite arr_loop_zero in * by assumption. exact H.
  - rewrite arr_loop_O in H by assumption. subst o. destruct D.
  - rewrite arr_loop_zero in * by assumption. exact H.
  - rewrite app_length in Hl.
    destruct lf' as [|lf']; [lia|].
    rewrite arr_loop_S in * by assumption.
    destruct codec; cbn [andb] in *.
    + destruct (length input <=? off) eqn:E1; [cbn in H; subst o; destruct D|].
      apply Nat.leb_gt in E1.
      replace (length (input ++ x) <=? off) with false
        by (symmetry; apply Nat.leb_gt; rewrite app_length; lia).
      replace (length input <? off) with false in H by (symmetry; apply Nat.ltb_ge; lia).
      replace (length (input ++ x) <? off) with false
        by (symmetry; apply Nat.ltb_ge; rewrite app_length; lia).
      cbv zeta in *. rewrite skipn_app_le by lia.
      destruct (rec (skipn off input)) as [o1 a1] eqn:Hr. cbn [fst snd] in H.
      assert (Hx : forall o', o1 = o' -> decided o' -> fst (rec (skipn off input ++ x)) = o')
        by (intros o' <- D'; apply He; [now rewrite Hr|exact D']).
      destruct o1.
      * rewrite (Hx _ eq_refl I). rewrite fst_tick in *.
        assert (Hc : 1 <= n <= length (skipn off input)) by (apply (Hb _ v); now rewrite Hr).
        rewrite skipn_length in Hc.
        eapply IH; eauto; rewrite ?app_length; lia.
      * subst o. destruct D.
      * subst o. pose proof (Hx _ eq_refl I) as Hy. rewrite Hy. cbn [fst]. exact Hy.
      * subst o. destruct D.
      * subst o. destruct D.
    + destruct (length input <? off) eqn:E1; [cbn in H; subst o; destruct D|].
      apply Nat.ltb_ge in E1.
      replace (length (input ++ x) <? off) with false
        by (symmetry; apply Nat.ltb_ge; rewrite app_length; lia).
      cbv zeta in *. rewrite skipn_app_le by lia.
      destruct (rec (skipn off input)) as [o1 a1] eqn:Hr. cbn [fst snd] in H.
      assert (Hx : forall o', o1 = o' -> decided o' -> fst (rec (skipn off input ++ x)) = o')
        by (intros o' <- D'; apply He; [now rewrite Hr|exact D']).
      destruct o1.
      * rewrite (Hx _ eq_refl I). rewrite fst_tick in *.
        assert (Hc : 1 <= n <= length (skipn off input)) by (apply (Hb _ v); now rewrite Hr).
        rewrite skipn_length in Hc.
        eapply IH; eauto; rewrite ?app_length; lia.
      * subst o. destruct D.
      * subst o. pose proof (Hx _ eq_refl I) as Hy. rewrite Hy. cbn [fst]. exact Hy.
      * subst o. destruct D.
      * subst o. destruct D.
Qed.

Lemma arr_loop_exact codec rec (Hb : Bnd rec) (He : Ext rec) (Hx : Exact rec) :
  forall lf input cnt off acc v n,
    off <= length input ->
    fst (arr_loop codec rec lf input cnt off acc) = Done v n ->
    forall lf', n < off + lf' ->
    fst (arr_loop codec rec lf' (firstn n input) cnt off acc) = Done v n.
Proof.
  induction lf as [|lf IH]; intros input cnt off acc v n Ho H lf' Hl;
    destruct (cnt =? 0)%N eqn:Ec.
  - rewrite arr_loop_zero in * by assumption. exact H.
  - rewrite arr_loop_O in H by assumption. discriminate.
  - rewrite arr_loop_zero in * by assumption. exact H.
  - pose proof (arr_loop_bnd codec rec Hb _ _ _ _ _ _ _ Ho H) as Hn.
    rewrite arr_loop_S in H by assumption.
    destruct (codec && (length input <=? off)) eqn:E0; [discriminate|].
    destruct (length input <? off) eqn:E1; [discriminate|].
    cbv zeta in H. destruct (rec (skipn off input)) as [o a] eqn:Hr. cbn [fst snd] in H.
    destruct o; try discriminate.
    rewrite fst_tick in H.
    assert (Hc : 1 <= n0 <= length (skipn off input)) by (apply (Hb _ v0); now rewrite Hr).
    rewrite skipn_length in Hc.
    assert (Hn2 : off + n0 <= n <= length input)
      by (eapply arr_loop_bnd; [exact Hb| |exact H]; lia).
    destruct lf' as [|lf']; [lia|].
    rewrite arr_loop_S by assumption.
    assert (Hlen : length (firstn n input) = n) by (rewrite firstn_length; lia).
    rewrite Hlen.
    replace (n <=? off) with false by (symmetry; apply Nat.leb_gt; lia).
    rewrite andb_false_r.
    replace (n <? off) with false by (symmetry; apply Nat.ltb_ge; lia).
    cbv zeta. rewrite skipn_firstn_comm.
    assert (Hd : fst (rec (firstn (n - off) (skipn off input))) = Done v0 n0).
    { destruct (firstn_split_le (skipn off input) n0 (n - off)) as [y Hy]; [lia|].
      rewrite Hy. apply He; [|exact I]. apply Hx. now rewrite Hr. }
    rewrite Hd. rewrite fst_tick.
    eapply IH; eauto; lia.
Qed.

Lemma arr_loop_nooof codec rec (Hb : Bnd rec) (Hn : NoOof rec) :
  forall lf input cnt off acc,
    off <= length input -> length input < off + lf ->
    fst (arr_loop codec rec lf input cnt off acc) <> OutOfFuel.
Proof.
  induction lf as [|lf IH]; intros input cnt off acc Ho Hl; [lia|].
  destruct (cnt =? 0)%N eqn:Ec.
  - rewrite arr_loop_zero by assumption. discriminate.
  - rewrite arr_loop_S by assumption.
    destruct (codec && (length input <=? off)); [discriminate|].
    destruct (length input <? off); [discriminate|].
    cbv zeta. destruct (rec (skipn off input)) as [o a] eqn:Hr. cbn [fst snd].
    pose proof (Hn (skipn off input)) as Hno. rewrite Hr in Hno. cbn [fst] in Hno.
    destruct o; try discriminate; try exact Hno.
    rewrite fst_tick.
    assert (Hc : 1 <= n <= length (skipn off input)) by (apply (Hb _ v); now rewrite Hr).
    rewrite skipn_length in Hc. apply IH; lia.
Qed.

Lemma arr_loop_nopanic codec rec (Hb : Bnd rec) (Hn : NoPanic rec) :
  forall lf input cnt off acc,
    size_ok input -> off <= length input ->
    fst (arr_loop codec rec lf input cnt off acc) <> Panic.
Proof.
  induction lf as [|lf IH]; intros input cnt off acc Hs Ho;
    destruct (cnt =? 0)%N eqn:Ec.
  - rewrite arr_loop_zero by assumption. discriminate.
  - rewrite arr_loop_O by assumption. discriminate.
  - rewrite arr_loop_zero by assumption. discriminate.
  - rewrite arr_loop_S by assumption.
    destruct (codec && (length input <=? off)); [discriminate|].
    replace (length input <? off) with false by (symmetry; apply Nat.ltb_ge; lia).
    cbv zeta. destruct (rec (skipn off input)) as [o a] eqn:Hr. cbn [fst snd].
    pose proof (Hn (skipn off input) (size_ok_skipn _ _ Hs)) as Hno.
    rewrite Hr in Hno. cbn [fst] in Hno.
    destruct o; try discriminate; try exact Hno.
    rewrite fst_tick.
    assert (Hc : 1 <= n <= length (skipn off input)) by (apply (Hb _ v); now rewrite Hr).
    rewrite skipn_length in Hc. apply IH; [assumption|lia].
Qed.

Lemma arr_loop_alloc codec rec (Ha : AllocB rec) :
  forall lf input cnt off acc,
    (snd (arr_loop codec rec lf input cnt off acc) <= ELEM_SIZE * N.of_nat (length input))%N.
Proof.
  induction lf as [|lf IH]; intros input cnt off acc;
    destruct (cnt =? 0)%N eqn:Ec.
  - rewrite arr_loop_zero by assumption. cbn [snd]. unfold ELEM_SIZE. lia.
  - rewrite arr_loop_O by assumption. cbn [snd]. unfold ELEM_SIZE. lia.
  - rewrite arr_loop_zero by assumption. cbn [snd]. unfold ELEM_SIZE. lia.
  - rewrite arr_loop_S by assumption.
    destruct (codec && (length input <=? off)); [cbn [snd]; unfold ELEM_SIZE; lia|].
    destruct (length input <? off); [cbn [snd]; unfold ELEM_SIZE; lia|].
    cbv zeta.
    pose proof (Ha (skipn off input)) as Hr. rewrite skipn_length in Hr.
    assert (Hr' : (snd (rec (skipn off input)) <= ELEM_SIZE * N.of_nat (length input))%N)
      by (unfold ELEM_SIZE in *; lia).
    destruct (fst (rec (skipn off input))); try exact Hr'.
    unfold tick. cbn [snd]. specialize (IH input (cnt - 1)%N (off + n) (v :: acc)).
    apply N.max_lub; assumption.
Qed.

(* ------------------------------------------------------------------ parse_array *)
Lemma parse_array_bnd codec rec : Bnd rec -> Bnd (parse_array codec rec).
Proof.
  intros Hb s v c. unfold parse_array. cbv zeta.
  destruct (find_crlf s) as [pos|] eqn:Hf; [|discriminate].
  destruct (slice s 1 pos) as [l|]; [|discriminate].
  destruct (parse_i64 l) as [len|]; [|discriminate].
  apply find_crlf_bound in Hf.
  destruct (len =? -1)%Z. { cbn. intros H; inversion H. lia. }
  destruct (len <? 0)%Z; [discriminate|].
  destruct (length s <? pos + 2); [discriminate|].
  rewrite fst_tick. intros H. apply arr_loop_bnd in H; [lia|assumption|lia].
Qed.

Lemma parse_array_ext codec rec : Bnd rec -> Ext rec -> Ext (parse_array codec rec).
Proof.
  intros Hb He s x o H D. unfold parse_array in *. cbv zeta in *.
  destruct (find_crlf s) as [pos|] eqn:Hf; [|cbn in H; subst o; destruct D].
  rewrite (find_crlf_app _ x _ Hf).
  destruct (slice s 1 pos) as [l|] eqn:Hs; [|cbn in H; subst o; destruct D].
  rewrite (slice_app _ x _ _ _ Hs).
  destruct (parse_i64 l) as [len|]; [|exact H].
  destruct (len =? -1)%Z; [exact H|].
  destruct (len <? 0)%Z; [exact H|].
  apply find_crlf_bound in Hf.
  replace (length s <? pos + 2) with false in H by (symmetry; apply Nat.ltb_ge; lia).
  replace (length (s ++ x) <? pos + 2) with false
    by (symmetry; apply Nat.ltb_ge; rewrite app_length; lia).
  rewrite fst_tick in *.
  eapply arr_loop_ext; eauto; lia.
Qed.

Lemma parse_array_exact codec rec : Bnd rec -> Ext rec -> Exact rec -> Exact (parse_array codec rec).
Proof.
  intros Hb He Hx s v c. unfold parse_array. cbv zeta.
  destruct (find_crlf s) as [pos|] eqn:Hf; [|discriminate].
  destruct (slice s 1 pos) as [l|] eqn:Hs; [|discriminate].
  destruct (parse_i64 l) as [len|] eqn:Hi; [|discriminate].
  pose proof (find_crlf_bound _ _ Hf) as Hfb.
  destruct (len =? -1)%Z eqn:E1.
  { cbn. intros H; inversion H; subst.
    rewrite (find_crlf_firstn _ _ _ Hf) by lia.
    rewrite (slice_firstn _ _ _ _ _ Hs) by lia. rewrite Hi, E1. reflexivity. }
  destruct (len <? 0)%Z eqn:E2; [discriminate|].
  destruct (length s <? pos + 2) eqn:E3; [discriminate|].
  rewrite fst_tick. intros H.
  assert (Hc : pos + 2 <= c <= length s) by (eapply arr_loop_bnd; [exact Hb| |exact H]; lia).
  rewrite (find_crlf_firstn _ _ _ Hf) by lia.
  rewrite (slice_firstn _ _ _ _ _ Hs) by lia. rewrite Hi, E1, E2.
  assert (Hlen : length (firstn c s) = c) by (rewrite firstn_length; lia).
  rewrite Hlen.
  replace (c <? pos + 2) with false by (symmetry; apply Nat.ltb_ge; lia).
  rewrite fst_tick.
  eapply arr_loop_exact; eauto; lia.
Qed.

Lemma parse_array_nooof codec rec : Bnd rec -> NoOof rec -> NoOof (parse_array codec rec).
Proof.
  intros Hb Hn s. unfold parse_array. cbv zeta.
  destruct (find_crlf s) as [pos|] eqn:Hf; [|discriminate].
  destruct (slice s 1 pos) as [l|]; [|discriminate].
  destruct (parse_i64 l) as [len|]; [|discriminate].
  destruct (len =? -1)%Z; [discriminate|].
  destruct (len <? 0)%Z; [discriminate|].
  destruct (length s <? pos + 2); [discriminate|].
  rewrite fst_tick. apply find_crlf_bound in Hf. apply arr_loop_nooof; auto; lia.
Qed.

Lemma parse_array_nopanic codec rec c t : Bnd rec -> NoPanic rec -> c <> 13%N -> size_ok (c :: t) ->
  fst (parse_array codec rec (c :: t)) <> Panic.
Proof.
  intros Hb Hn Hc Hsz. unfold parse_array. cbv zeta.
  destruct (find_crlf (c :: t)) as [pos|] eqn:Hf; [|discriminate].
  destruct (slice_line _ _ _ Hc Hf) as (l & -> & _).
  destruct (parse_i64 l) as [len|]; [|discriminate].
  destruct (len =? -1)%Z; [discriminate|].
  destruct (len <? 0)%Z; [discriminate|].
  apply find_crlf_bound in Hf.
  replace (length (c :: t) <? pos + 2) with false by (symmetry; apply Nat.ltb_ge; lia).
  rewrite fst_tick. apply arr_loop_nopanic; auto.
Qed.

Lemma parse_array_alloc codec rec : AllocB rec -> AllocB (parse_array codec rec).
Proof.
  intros Ha s. unfold parse_array. cbv zeta.
  destruct (find_crlf s) as [pos|] eqn:Hf; [|cbn [snd]; unfold ELEM_SIZE; lia].
  destruct (slice s 1 pos) as [l|]; [|cbn [snd]; unfold ELEM_SIZE; lia].
  destruct (parse_i64 l) as [len|]; [|cbn [snd]; unfold ELEM_SIZE; lia].
  destruct (len =? -1)%Z; [cbn [snd]; unfold ELEM_SIZE; lia|].
  destruct (len <? 0)%Z; [cbn [snd]; unfold ELEM_SIZE; lia|].
  destruct (length s <? pos + 2); [cbn [snd]; unfold ELEM_SIZE; lia|].
  unfold tick. cbn [snd]. apply N.max_lub.
  - apply N.mul_le_mono_l. destruct codec; lia.
  - apply arr_loop_alloc. exact Ha.
Qed.

(* ------------------------------------------------------------------ parse_d *)
Ltac by_head h :=
  destruct (h =? 43)%N eqn:E43; [|
  destruct (h =? 45)%N eqn:E45; [|
  destruct (h =? 58)%N eqn:E58; [|
  destruct (h =? 36)%N eqn:E36; [|
  destruct (h =? 42)%N eqn:E42]]]].

Lemma parse_d_bnd codec : forall d, Bnd (parse_d codec d).
Proof.
  induction d as [|d IH]; intros s v c; (destruct s as [|h t]; [discriminate|]);
    cbn [parse_d]; by_head h;
    try apply parse_line_bnd; try apply parse_integer_bnd; try apply parse_bulk_bnd;
    try discriminate.
  apply parse_array_bnd. exact IH.
Qed.

Lemma parse_d_ext codec : forall d, Ext (parse_d codec d).
Proof.
  induction d as [|d IH]; intros s x o; (destruct s as [|h t]; [intros <- []|]);
    cbn [parse_d app]; by_head h;
    try apply (parse_line_ext _ (h :: t)); try apply (parse_integer_ext (h :: t));
    try apply (parse_bulk_ext (h :: t)); try (intros <- _; reflexivity).
  apply (parse_array_ext codec _ (parse_d_bnd codec d) IH (h :: t)).
Qed.

Lemma parse_d_exact codec : forall d, Exact (parse_d codec d).
Proof.
  induction d as [|d IH]; intros s v c H; (destruct s as [|h t]; [discriminate|]);
    pose proof (parse_d_bnd codec _ _ _ _ H) as Hc;
    (destruct c as [|c]; [lia|]); cbn [firstn]; cbn [parse_d] in *; by_head h;
    try discriminate;
    try (change (h :: firstn c t) with (firstn (S c) (h :: t));
         first [ now apply parse_line_exact | now apply parse_integer_exact
               | now apply parse_bulk_exact ]).
  change (h :: firstn c t) with (firstn (S c) (h :: t)).
  apply parse_array_exact; auto using parse_d_bnd, parse_d_ext.
Qed.

Lemma parse_d_nooof codec : forall d, NoOof (parse_d codec d).
Proof.
  induction d as [|d IH]; intros s; (destruct s as [|h t]; [discriminate|]);
    cbn [parse_d]; by_head h;
    try apply parse_line_nooof; try apply parse_integer_nooof; try apply parse_bulk_nooof;
    try discriminate.
  apply parse_array_nooof; auto using parse_d_bnd.
Qed.

Lemma parse_d_nopanic codec : forall d, NoPanic (parse_d codec d).
Proof.
  induction d as [|d IH]; intros s Hs; (destruct s as [|h t]; [discriminate|]);
    cbn [parse_d]; by_head h;
    try (apply N.eqb_eq in E43; subst h); try (apply N.eqb_eq in E45; subst h);
    try (apply N.eqb_eq in E58; subst h); try (apply N.eqb_eq in E36; subst h);
    try (apply N.eqb_eq in E42; subst h);
    try (apply parse_line_nopanic; discriminate);
    try (apply parse_integer_nopanic; discriminate);
    try (apply parse_bulk_nopanic; [discriminate|assumption]);
    try discriminate.
  apply parse_array_nopanic; auto using parse_d_bnd. discriminate.
Qed.

Lemma parse_d_alloc codec : forall d, AllocB (parse_d codec d).
Proof.
  induction d as [|d IH]; intros s; (destruct s as [|h t]; [cbn; unfold ELEM_SIZE; lia|]);
    cbn [parse_d]; by_head h;
    try apply parse_line_alloc; try apply parse_integer_alloc; try apply parse_bulk_alloc;
    try (cbn [snd]; unfold ELEM_SIZE; lia).
  apply parse_array_alloc. exact IH.
Qed.

(* ------------------------------------------------------------------ decimal output *)
Lemma show_N_aux_app f : forall n acc, show_N_aux f n acc = show_N_aux f n [] ++ acc.
Proof.
  induction f as [|f IH]; intros n acc; [reflexivity|].
  cbn [show_N_aux]. destruct (n <? 10)%N; [reflexivity|].
  rewrite IH. rewrite (IH _ [_]). rewrite <- app_assoc. reflexivity.
Qed.

Lemma digits_val_app l1 : forall l2 a,
  digits_val (l1 ++ l2) a = match digits_val l1 a with Some m => digits_val l2 m | None => None end.
Proof.
  induction l1 as [|c l1 IH]; intros l2 a; [reflexivity|].
  cbn [app digits_val]. destruct (is_digit c); [apply IH|reflexivity].
Qed.

Lemma is_digit_low n : (n < 10)%N -> is_digit (48 + n) = true.
Proof.
  intros H. unfold is_digit. apply andb_true_intro. split; [apply N.leb_le|apply N.leb_le]; lia.
Qed.

Lemma show_N_aux_val : forall f n, (n < 2 ^ N.of_nat f)%N -> digits_val (show_N_aux f n []) 0 = Some n.
Proof.
  induction f as [|f IH]; intros n H.
  - cbn in H. assert (n = 0%N) by lia. subst. reflexivity.
  - cbn [show_N_aux]. pose proof (N.mod_lt n 10 ltac:(lia)) as Hm.
    pose proof (N.div_mod n 10 ltac:(lia)) as Hd.
    destruct (n <? 10)%N eqn:E.
    + apply N.ltb_lt in E. rewrite N.mod_small by assumption.
      cbn [digits_val]. rewrite is_digit_low by assumption. f_equal. lia.
    + apply N.ltb_ge in E. rewrite show_N_aux_app, digits_val_app.
      rewrite IH.
      * cbn [digits_val]. rewrite is_digit_low by assumption. f_equal.
        replace (48 + n mod 10 - 48)%N with (n mod 10)%N by (generalize (n mod 10)%N; intros; lia).
        symmetry. exact Hd.
      * rewrite Nat2N.inj_succ, N.pow_succ_r' in H.
        apply N.div_lt_upper_bound; [lia|]. clear Hd Hm. remember (2 ^ N.of_nat f)%N as p. lia.
Qed.

Lemma show_N_aux_digits : forall f n acc,
  Forall (fun c => is_digit c = true) acc -> Forall (fun c => is_digit c = true) (show_N_aux f n acc).
Proof.
  induction f as [|f IH]; intros n acc H; [exact H|].
  cbn [show_N_aux]. pose proof (N.mod_lt n 10 ltac:(lia)) as Hm.
  assert (Forall (fun c => is_digit c = true) ((48 + n mod 10)%N :: acc))
    by (constructor; [now apply is_digit_low|exact H]).
  destruct (n <? 10)%N; [assumption|]. now apply IH.
Qed.

Lemma show_N_val n : digits_val (show_N n) 0 = Some n.
Proof.
  unfold show_N. apply show_N_aux_val.
  rewrite Nat2N.inj_succ, N2Nat.id.
  destruct n as [|p]; [reflexivity|].
  apply N.log2_spec. reflexivity.
Qed.

Lemma show_N_digits n : Forall (fun c => is_digit c = true) (show_N n).
Proof. apply show_N_aux_digits. constructor. Qed.

Lemma show_N_cons n : exists c t, show_N n = c :: t /\ is_digit c = true.
Proof.
  pose proof (show_N_digits n) as H.
  destruct (show_N n) as [|c t] eqn:E.
  - exfalso. unfold show_N in E. cbn [show_N_aux] in E.
    destruct (n <? 10)%N; [discriminate|].
    rewrite show_N_aux_app in E. destruct (show_N_aux _ _ []); discriminate.
  - exists c, t. split; [reflexivity|]. now inversion H.
Qed.

Lemma is_digit_range c : is_digit c = true -> (48 <= c <= 57)%N.
Proof. unfold is_digit. intros H. apply andb_prop in H. destruct H as [H1 H2]. apply N.leb_le in H1, H2. lia. Qed.

Lemma parse_i64_show_N n : (n < I64_LIM)%N -> parse_i64 (show_N n) = Some (Z.of_N n).
Proof.
  intros H. destruct (show_N_cons n) as (c & t & E & Hc).
  pose proof (show_N_val n) as Hv. rewrite E in *. apply is_digit_range in Hc.
  unfold parse_i64.
  replace (c =? 45)%N with false by (symmetry; apply N.eqb_neq; lia).
  replace (c =? 43)%N with false by (symmetry; apply N.eqb_neq; lia).
  cbn [orb]. rewrite Hv. apply N.ltb_lt in H. now rewrite H.
Qed.

Lemma parse_i64_show_Z z : (- Z.of_N I64_LIM <= z < Z.of_N I64_LIM)%Z -> parse_i64 (show_Z z) = Some z.
Proof.
  intros H. unfold show_Z. destruct (z <? 0)%Z eqn:E.
  - apply Z.ltb_lt in E. destruct (show_N_cons (Z.to_N (- z))) as (c & t & Ec & Hc).
    pose proof (show_N_val (Z.to_N (- z))) as Hv. rewrite Ec in *.
    unfold parse_i64. cbn [N.eqb Pos.eqb orb]. rewrite Hv.
    replace (Z.to_N (- z) <=? I64_LIM)%N with true by (symmetry; apply N.leb_le; lia).
    f_equal. lia.
  - apply Z.ltb_ge in E. rewrite parse_i64_show_N by lia. f_equal. lia.
Qed.

Lemma show_Z_no_cr z : Forall (fun c => c <> 13%N) (show_Z z).
Proof.
  assert (Hd : forall n, Forall (fun c => c <> 13%N) (show_N n)).
  { intros n. eapply Forall_impl; [|apply show_N_digits].
    intros c Hc. apply is_digit_range in Hc. lia. }
  unfold show_Z. destruct (z <? 0)%Z; [constructor; [discriminate|]|]; apply Hd.
Qed.

(* ------------------------------------------------------------------ encode then decode *)
Lemma resp_ind2 (P : resp -> Prop) :
  (forall s, P (RSimple s)) -> (forall s, P (RError s)) -> (forall z, P (RInt z)) ->
  P RNilBulk -> (forall s, P (RBulk s)) -> P RNilArr ->
  (forall l, Forall P l -> P (RArr l)) -> forall v, P v.
Proof.
  intros H1 H2 H3 H4 H5 H6 H7. fix IH 1.
  intros [s|s|z| |s| |l]; [apply H1|apply H2|apply H3|apply H4|apply H5|apply H6|].
  apply H7. induction l as [|a l IHl]; constructor; [apply IH|exact IHl].
Qed.

Lemma encode_nonempty v : 1 <= length (encode v).
Proof. destruct v; cbn; lia. Qed.

Lemma line_ok_no_cr s : line_ok s = true -> Forall (fun c => c <> 13%N) s.
Proof.
  unfold line_ok. rewrite forallb_forall, Forall_forall. intros H c Hc.
  specialize (H c Hc). apply andb_prop in H. destruct H as [H _].
  apply negb_true_iff in H. now apply N.eqb_neq.
Qed.

(* a header line  t :: s ++ CRLF ++ rest  with no CR in t :: s *)
Lemma header_line t s rest : t <> 13%N -> Forall (fun c => c <> 13%N) s ->
  find_crlf (t :: s ++ 13%N :: 10%N :: rest) = Some (S (length s)) /\
  slice (t :: s ++ 13%N :: 10%N :: rest) 1 (S (length s)) = Some s.
Proof.
  intros Ht Hs. split.
  - change (t :: s ++ 13%N :: 10%N :: rest) with ((t :: s) ++ 13%N :: 10%N :: rest).
    rewrite find_crlf_line; [reflexivity|]. now constructor.
  - rewrite slice_ok; [|lia|cbn [length]; rewrite app_length; cbn [length]; lia].
    cbn [skipn]. replace (S (length s) - 1) with (length s) by lia.
    rewrite firstn_app_le by lia. now rewrite firstn_all.
Qed.

Lemma parse_line_encode mk t s rest : t <> 13%N -> line_ok s = true ->
  fst (parse_line mk (t :: s ++ 13%N :: 10%N :: rest)) = Done (mk s) (S (length s) + 2).
Proof.
  intros Ht Hs. unfold parse_line.
  destruct (header_line t s rest Ht (line_ok_no_cr _ Hs)) as [-> ->]. reflexivity.
Qed.

Lemma arr_loop_encode codec rec x :
  forall l,
    Forall (fun v => forall y, size_ok (encode v ++ y) ->
                               fst (rec (encode v ++ y)) = Done v (length (encode v))) l ->
    forall pre acc lf input,
      input = pre ++ flat_map encode l ++ x ->
      size_ok input -> length input < length pre + lf ->
      fst (arr_loop codec rec lf input (N.of_nat (length l)) (length pre) acc)
      = Done (RArr (rev acc ++ l)) (length pre + length (flat_map encode l)).
Proof.
  induction 1 as [|v l Hv Hl IH]; intros pre acc lf input Hin Hs Hlf.
  - rewrite arr_loop_zero by reflexivity. cbn. now rewrite app_nil_r, Nat.add_0_r.
  - assert (Hlen : length input = length pre + length (encode v) + length (flat_map encode l ++ x)).
    { subst input. cbn [flat_map]. rewrite !app_length. lia. }
    pose proof (encode_nonempty v) as Hne.
    destruct lf as [|lf]; [lia|].
    rewrite arr_loop_S by (apply N.eqb_neq; cbn [length]; lia).
    replace (length input <=? length pre) with false by (symmetry; apply Nat.leb_gt; lia).
    rewrite andb_false_r.
    replace (length input <? length pre) with false by (symmetry; apply Nat.ltb_ge; lia).
    cbv zeta.
    assert (Hsk : skipn (length pre) input = encode v ++ (flat_map encode l ++ x)).
    { subst input. rewrite skipn_app, skipn_all, Nat.sub_diag. cbn [flat_map skipn app].
      now rewrite <- app_assoc. }
    rewrite Hsk. rewrite Hv.
    2:{ unfold size_ok in *. rewrite <- Hsk, skipn_length. lia. }
    rewrite fst_tick.
    replace (N.of_nat (length (v :: l)) - 1)%N with (N.of_nat (length l)) by (cbn [length]; lia).
    replace (length pre + length (encode v)) with (length (pre ++ encode v)) by apply app_length.
    rewrite (IH (pre ++ encode v) (v :: acc) lf input).
    + cbn [rev flat_map]. rewrite <- app_assoc. cbn [app]. f_equal. rewrite !app_length. lia.
    + subst input. cbn [flat_map]. now rewrite <- !app_assoc.
    + exact Hs.
    + rewrite app_length. lia.
Qed.

Lemma parse_d_eq codec d b :
  parse_d codec d b =
  match b with
  | [] => (Incomplete, 0%N)
  | c :: _ =>
    if (c =? 43)%N then parse_line RSimple b
    else if (c =? 45)%N then parse_line RError b
    else if (c =? 58)%N then parse_integer b
    else if (c =? 36)%N then parse_bulk b
    else if (c =? 42)%N then
      match d with
      | O => (Err ETooDeep, 0%N)
      | S d' => parse_array codec (parse_d codec d') b
      end
    else (Err EUnknownType, 0%N)
  end.
Proof. destruct d; reflexivity. Qed.

Lemma length_flat_map_encode l : length l <= length (flat_map encode l).
Proof.
  induction l as [|v l IH]; [cbn; lia|].
  cbn [flat_map length]. rewrite app_length. pose proof (encode_nonempty v). lia.
Qed.

Lemma show_N_no_cr n : Forall (fun c => c <> 13%N) (show_N n).
Proof.
  eapply Forall_impl; [|apply show_N_digits].
  intros c Hc. apply is_digit_range in Hc. lia.
Qed.

Lemma encode_decode_d codec : forall v d x,
  wf_resp d v = true -> size_ok (encode v ++ x) ->
  fst (parse_d codec d (encode v ++ x)) = Done v (length (encode v)).
Proof.
  induction v as [s|s|z| |s| |l IHl] using resp_ind2; intros d x Hwf Hs.
  - (* simple string *)
    replace (encode (RSimple s) ++ x) with (43%N :: s ++ 13%N :: 10%N :: x)
      by (cbn [encode CRLF app]; now rewrite <- app_assoc).
    rewrite parse_d_eq. cbn [N.eqb Pos.eqb].
    rewrite parse_line_encode; [|discriminate|exact Hwf].
    f_equal. cbn [encode length]. rewrite app_length. cbn. lia.
  - (* error *)
    replace (encode (RError s) ++ x) with (45%N :: s ++ 13%N :: 10%N :: x)
      by (cbn [encode CRLF app]; now rewrite <- app_assoc).
    rewrite parse_d_eq. cbn [N.eqb Pos.eqb].
    rewrite parse_line_encode; [|discriminate|exact Hwf].
    f_equal. cbn [encode length]. rewrite app_length. cbn. lia.
  - (* integer *)
    replace (encode (RInt z) ++ x) with (58%N :: show_Z z ++ 13%N :: 10%N :: x)
      by (cbn [encode CRLF app]; now rewrite <- app_assoc).
    rewrite parse_d_eq. cbn [N.eqb Pos.eqb]. unfold parse_integer.
    destruct (header_line 58%N (show_Z z) x ltac:(discriminate) (show_Z_no_cr z)) as [-> ->].
    cbn [wf_resp] in Hwf. apply andb_prop in Hwf. destruct Hwf as [H1 H2].
    apply Z.leb_le in H1. apply Z.ltb_lt in H2.
    rewrite parse_i64_show_Z by lia. cbn [fst].
    f_equal. cbn [encode length]. rewrite app_length. cbn. lia.
  - (* nil bulk *)
    change (encode RNilBulk ++ x) with (36%N :: [45%N; 49%N] ++ 13%N :: 10%N :: x).
    rewrite parse_d_eq. cbn [N.eqb Pos.eqb]. unfold parse_bulk.
    destruct (header_line 36%N [45%N; 49%N] x ltac:(discriminate)
                ltac:(repeat constructor; discriminate)) as [-> ->].
    reflexivity.
  - (* bulk *)
    set (hs := show_N (N.of_nat (length s))).
    assert (Hin : encode (RBulk s) ++ x = 36%N :: hs ++ 13%N :: 10%N :: (s ++ 13%N :: 10%N :: x)).
    { cbn [encode CRLF app]. fold hs. rewrite <- !app_assoc. cbn [app].
      rewrite <- !app_assoc. reflexivity. }
    rewrite Hin in *. clear Hin.
    rewrite parse_d_eq. cbn [N.eqb Pos.eqb]. unfold parse_bulk. cbv zeta.
    destruct (header_line 36%N hs (s ++ 13%N :: 10%N :: x) ltac:(discriminate) (show_N_no_cr _)) as [-> ->].
    assert (Hlen : length (36%N :: hs ++ 13%N :: 10%N :: s ++ 13%N :: 10%N :: x)
                   = S (length hs) + 2 + length s + 2 + length x).
    { cbn [length]. rewrite !app_length. cbn [length]. rewrite app_length. cbn [length]. lia. }
    unfold size_ok in Hs. rewrite Hlen in *.
    unfold hs at 1. rewrite parse_i64_show_N by (unfold I64_LIM; lia).
    replace (Z.of_N (N.of_nat (length s)) =? -1)%Z with false by (symmetry; apply Z.eqb_neq; lia).
    replace (Z.of_N (N.of_nat (length s)) <? 0)%Z with false by (symmetry; apply Z.ltb_ge; lia).
    replace (USIZE_LIM <=? Z.of_nat (S (length hs) + 2) + Z.of_N (N.of_nat (length s)))%Z with false
      by (symmetry; apply Z.leb_gt; unfold USIZE_LIM; lia).
    replace (USIZE_LIM <=? Z.of_nat (S (length hs) + 2) + Z.of_N (N.of_nat (length s)) + 2)%Z with false
      by (symmetry; apply Z.leb_gt; unfold USIZE_LIM; lia).
    replace (Z.of_nat (S (length hs) + 2 + length s + 2 + length x)
             <? Z.of_nat (S (length hs) + 2) + Z.of_N (N.of_nat (length s)) + 2)%Z with false
      by (symmetry; apply Z.ltb_ge; lia).
    replace (Z.to_nat (Z.of_N (N.of_nat (length s)))) with (length s) by lia.
    rewrite slice_ok; [|lia|rewrite Hlen; lia].
    assert (Hsk : skipn (S (length hs) + 2) (36%N :: hs ++ 13%N :: 10%N :: s ++ 13%N :: 10%N :: x)
                  = s ++ 13%N :: 10%N :: x).
    { replace (36%N :: hs ++ 13%N :: 10%N :: s ++ 13%N :: 10%N :: x)
        with ((36%N :: hs ++ [13%N; 10%N]) ++ s ++ 13%N :: 10%N :: x)
        by (cbn [app]; rewrite <- app_assoc; reflexivity).
      rewrite skipn_app.
      replace (S (length hs) + 2) with (length (36%N :: hs ++ [13%N; 10%N]))
        by (cbn [length]; rewrite app_length; cbn [length]; lia).
      rewrite skipn_all, Nat.sub_diag. reflexivity. }
    rewrite Hsk. replace (S (length hs) + 2 + length s - (S (length hs) + 2)) with (length s) by lia.
    rewrite firstn_app_le by lia. rewrite firstn_all. cbn [fst].
    f_equal. cbn [encode CRLF length]. fold hs. rewrite !app_length. unfold CRLF. cbn [length]. lia.
  - (* nil array *)
    destruct d as [|d]; [discriminate|].
    change (encode RNilArr ++ x) with (42%N :: [45%N; 49%N] ++ 13%N :: 10%N :: x).
    rewrite parse_d_eq. cbn [N.eqb Pos.eqb]. unfold parse_array.
    destruct (header_line 42%N [45%N; 49%N] x ltac:(discriminate)
                ltac:(repeat constructor; discriminate)) as [-> ->].
    reflexivity.
  - (* array *)
    destruct d as [|d]; [discriminate|]. cbn [wf_resp] in Hwf.
    set (hs := show_N (N.of_nat (length l))).
    set (pre := 42%N :: hs ++ [13%N; 10%N]).
    assert (Hin : encode (RArr l) ++ x = 42%N :: hs ++ 13%N :: 10%N :: (flat_map encode l ++ x)).
    { cbn [encode CRLF app]. fold hs. rewrite <- !app_assoc. reflexivity. }
    assert (Hin2 : 42%N :: hs ++ 13%N :: 10%N :: (flat_map encode l ++ x) = pre ++ flat_map encode l ++ x).
    { unfold pre. cbn [app]. rewrite <- app_assoc. reflexivity. }
    assert (Hpre : length pre = S (length hs) + 2).
    { unfold pre. cbn [length]. rewrite app_length. cbn [length]. lia. }
    assert (Hel : length (encode (RArr l)) = length pre + length (flat_map encode l)).
    { unfold pre. cbn [encode length]. fold hs. rewrite !app_length. unfold CRLF. cbn [length]. lia. }
    rewrite Hel. rewrite Hin in *. clear Hin.
    rewrite parse_d_eq. cbn [N.eqb Pos.eqb].
    unfold parse_array. cbv zeta.
    destruct (header_line 42%N hs (flat_map encode l ++ x) ltac:(discriminate) (show_N_no_cr _)) as [-> ->].
    remember (42%N :: hs ++ 13%N :: 10%N :: flat_map encode l ++ x) as inp eqn:Hinp.
    assert (Hlen : length inp = length pre + length (flat_map encode l) + length x)
      by (rewrite Hin2, !app_length; lia).
    pose proof (length_flat_map_encode l) as Hfl.
    unfold size_ok in Hs. rewrite Hlen in Hs.
    unfold hs at 1. rewrite parse_i64_show_N by (unfold I64_LIM; lia).
    replace (Z.of_N (N.of_nat (length l)) =? -1)%Z with false by (symmetry; apply Z.eqb_neq; lia).
    replace (Z.of_N (N.of_nat (length l)) <? 0)%Z with false by (symmetry; apply Z.ltb_ge; lia).
    replace (length inp <? S (length hs) + 2) with false
      by (symmetry; apply Nat.ltb_ge; lia).
    rewrite fst_tick. rewrite N2Z.id. rewrite <- Hpre.
    rewrite (arr_loop_encode codec (parse_d codec d) x l) with (pre := pre) (acc := []).
    + reflexivity.
    + rewrite Forall_forall in *. rewrite forallb_forall in Hwf.
      intros v Hv y Hy. apply IHl; auto.
    + exact Hin2.
    + unfold size_ok. rewrite Hlen. exact Hs.
    + lia.
Qed.

(* ------------------------------------------------------------------ the decoders *)
Theorem parse_no_panic codec b : size_ok b -> parse codec b <> Panic.
Proof. apply parse_d_nopanic. Qed.

Theorem parse_no_oof codec b : parse codec b <> OutOfFuel.
Proof. apply parse_d_nooof. Qed.

Theorem parse_consumed_exact codec b v n : parse codec b = Done v n ->
  1 <= n <= length b /\ parse codec (firstn n b) = Done v n.
Proof.
  intros H. split; [eapply parse_d_bnd; exact H|]. apply parse_d_exact. exact H.
Qed.

Theorem parse_extension codec b x v n : parse codec b = Done v n -> parse codec (b ++ x) = Done v n.
Proof. intros H. apply parse_d_ext; [exact H|exact I]. Qed.

Theorem parse_error_stable codec b x k : parse codec b = Err k -> parse codec (b ++ x) = Err k.
Proof. intros H. apply parse_d_ext; [exact H|exact I]. Qed.

(* every strict prefix of a frame is answered "need more bytes" *)
Theorem parse_prefix_incomplete codec b v n k : size_ok b ->
  parse codec b = Done v n -> k < n -> parse codec (firstn k b) = Incomplete.
Proof.
  intros Hs H Hk.
  assert (Hb : b = firstn k b ++ skipn k b) by (symmetry; apply firstn_skipn).
  assert (Hsp : size_ok (firstn k b)) by (unfold size_ok in *; rewrite firstn_length; lia).
  destruct (parse codec (firstn k b)) as [v' n'| |e| |] eqn:E; try reflexivity.
  - exfalso. pose proof (parse_extension codec _ (skipn k b) _ _ E) as H2.
    rewrite <- Hb in H2. rewrite H in H2. inversion H2; subst.
    apply parse_consumed_exact in E. rewrite firstn_length in E. lia.
  - exfalso. pose proof (parse_error_stable codec _ (skipn k b) _ E) as H2.
    rewrite <- Hb in H2. rewrite H in H2. discriminate.
  - exfalso. exact (parse_no_panic codec _ Hsp E).
  - exfalso. exact (parse_no_oof codec _ E).
Qed.

Theorem parse_alloc_bounded codec b :
  (alloc_request codec b <= ELEM_SIZE * N.of_nat (length b))%N.
Proof. apply parse_d_alloc. Qed.

Theorem encode_decode codec v : wf_resp MAX_DEPTH v = true -> size_ok (encode v) ->
  parse codec (encode v) = Done v (length (encode v)).
Proof.
  intros Hw Hs. unfold parse, run.
  rewrite <- (app_nil_r (encode v)) at 1. apply encode_decode_d; [exact Hw|].
  now rewrite app_nil_r.
Qed.

(* an encoded value followed by anything decodes to that value: replies can be pipelined *)
Theorem encode_decode_app codec v x : wf_resp MAX_DEPTH v = true -> size_ok (encode v ++ x) ->
  parse codec (encode v ++ x) = Done v (length (encode v)).
Proof. intros Hw Hs. apply encode_decode_d; assumption. Qed.

(* ------------------------------------------------------------------ the two decoders agree *)
Lemma arr_loop_agree rec1 rec2 (Hb : Bnd rec1) (Ha : forall s, fst (rec1 s) = fst (rec2 s))
      (Hnil : fst (rec2 []) = Incomplete) :
  forall lf input cnt off acc, off <= length input ->
    fst (arr_loop true rec1 lf input cnt off acc) = fst (arr_loop false rec2 lf input cnt off acc).
Proof.
  induction lf as [|lf IH]; intros input cnt off acc Ho;
    destruct (cnt =? 0)%N eqn:Ec.
  - now rewrite !arr_loop_zero.
  - now rewrite !arr_loop_O.
  - now rewrite !arr_loop_zero.
  - rewrite !arr_loop_S by assumption. cbn [andb].
    replace (length input <? off) with false by (symmetry; apply Nat.ltb_ge; lia).
    cbv zeta. destruct (length input <=? off) eqn:E.
    + apply Nat.leb_le in E. assert (off = length input) by lia. subst off.
      rewrite skipn_all. rewrite Hnil. cbn [fst]. now rewrite Hnil.
    + apply Nat.leb_gt in E. pose proof (Ha (skipn off input)) as Hs.
      destruct (fst (rec1 (skipn off input))) eqn:E1; rewrite <- Hs;
        try (cbn [fst]; congruence).
      rewrite !fst_tick.
      assert (Hc : 1 <= n <= length (skipn off input)) by (apply (Hb _ v); exact E1).
      rewrite skipn_length in Hc. apply IH. lia.
Qed.

Lemma parse_d_agree : forall d b, fst (parse_d true d b) = fst (parse_d false d b).
Proof.
  induction d as [|d IH]; intros b; (destruct b as [|h t]; [reflexivity|]);
    cbn [parse_d]; by_head h; try reflexivity.
  unfold parse_array. cbv zeta.
  destruct (find_crlf (h :: t)) as [pos|] eqn:Hf; [|reflexivity].
  destruct (slice (h :: t) 1 pos); [|reflexivity].
  destruct (parse_i64 l); [|reflexivity].
  destruct (z =? -1)%Z; [reflexivity|].
  destruct (z <? 0)%Z; [reflexivity|].
  destruct (length (h :: t) <? pos + 2); [reflexivity|].
  rewrite !fst_tick. apply find_crlf_bound in Hf.
  apply arr_loop_agree; auto using parse_d_bnd. destruct d; reflexivity.
Qed.

Theorem decoders_agree b : parse true b = parse false b.
Proof. apply parse_d_agree. Qed.

(* ------------------------------------------------------------------ streams *)
Lemma decode_all_fuel codec : forall f1 f2 buf, length buf < f1 -> length buf < f2 ->
  decode_all codec f1 buf = decode_all codec f2 buf.
Proof.
  induction f1 as [|f1 IH]; intros f2 buf H1 H2; [lia|].
  destruct f2 as [|f2]; [lia|]. cbn [decode_all].
  destruct (parse codec buf) as [v n| |e| |] eqn:E; try reflexivity.
  apply parse_consumed_exact in E. destruct E as [E _].
  rewrite (IH f2 (skipn n buf)); [reflexivity| |]; rewrite skipn_length; lia.
Qed.

Lemma decode_all_rest codec : forall f buf rest,
  snd (decode_all codec f buf) = TMore rest -> length rest <= length buf.
Proof.
  induction f as [|f IH]; intros buf rest; [discriminate|]. cbn [decode_all].
  destruct (parse codec buf) as [v n| |e| |] eqn:E; cbn [snd]; try discriminate.
  - intros H. apply IH in H. rewrite skipn_length in H. lia.
  - intros H; inversion H. lia.
Qed.

Lemma decode_all_app codec : forall f buf x,
  length (buf ++ x) < f -> size_ok (buf ++ x) ->
  decode_all codec f (buf ++ x) =
  match snd (decode_all codec f buf) with
  | TMore rest => (fst (decode_all codec f buf) ++ fst (decode_all codec f (rest ++ x)),
                   snd (decode_all codec f (rest ++ x)))
  | _ => decode_all codec f buf
  end.
Proof.
  induction f as [|f IH]; intros buf x Hl Hs; [lia|].
  cbn [decode_all].
  destruct (parse codec buf) as [v n| |e| |] eqn:E.
  - rewrite (parse_extension codec _ x _ _ E).
    apply parse_consumed_exact in E. destruct E as [E _].
    rewrite skipn_app_le by lia. cbn [fst snd].
    rewrite app_length in Hl.
    rewrite IH.
    2:{ rewrite app_length, skipn_length. lia. }
    2:{ unfold size_ok in *. rewrite app_length in *. rewrite skipn_length. lia. }
    destruct (snd (decode_all codec f (skipn n buf))) as [rest| | |] eqn:Er;
      try (rewrite ?Er; reflexivity).
    pose proof (decode_all_rest codec _ _ _ Er) as Hr. rewrite skipn_length in Hr.
    cbn [fst snd].
    rewrite (decode_all_fuel codec f (S f) (rest ++ x)) by (rewrite app_length; lia).
    reflexivity.
  - cbn [fst snd app]. now destruct (match parse codec (buf ++ x) with Done _ _ => _ | _ => _ end).
  - rewrite (parse_error_stable codec _ x _ E). reflexivity.
  - exfalso. apply (parse_no_panic codec buf); [|exact E]. eapply size_ok_app_l; eauto.
  - exfalso. exact (parse_no_oof codec _ E).
Qed.

Lemma feed_decode codec buf x : size_ok (buf ++ x) ->
  feed codec (decode_stream codec buf) x = decode_stream codec (buf ++ x).
Proof.
  intros Hs. unfold feed, decode_stream.
  rewrite (decode_all_fuel codec (S (length buf)) (S (length (buf ++ x))) buf)
    by (rewrite ?app_length; lia).
  rewrite (decode_all_app codec (S (length (buf ++ x))) buf x) by (auto; lia).
  destruct (snd (decode_all codec (S (length (buf ++ x))) buf)) as [rest| | |] eqn:Er; try reflexivity.
  pose proof (decode_all_rest codec _ _ _ Er) as Hr.
  rewrite (decode_all_fuel codec (S (length (rest ++ x))) (S (length (buf ++ x))) (rest ++ x))
    by (rewrite ?app_length; lia).
  reflexivity.
Qed.

Lemma fold_feed codec : forall frags buf, size_ok (buf ++ concat frags) ->
  fold_left (feed codec) frags (decode_stream codec buf) = decode_stream codec (buf ++ concat frags).
Proof.
  induction frags as [|f frags IH]; intros buf Hs; cbn [fold_left concat].
  - now rewrite app_nil_r.
  - cbn [concat] in Hs. rewrite app_assoc in Hs.
    rewrite feed_decode by (eapply size_ok_app_l; eauto).
    rewrite IH by exact Hs. now rewrite <- app_assoc.
Qed.

(* feeding a stream in arbitrary fragments yields the frames of feeding it whole *)
Theorem fragmentation_independent codec frags : size_ok (concat frags) ->
  feed_all codec frags = decode_stream codec (concat frags).
Proof.
  intros Hs. unfold feed_all.
  change ([], TMore []) with (decode_stream codec []).
  now rewrite fold_feed.
Qed.

Theorem parse_total codec b : size_ok b ->
  (exists v n, parse codec b = Done v n) \/ parse codec b = Incomplete \/ (exists k, parse codec b = Err k).
Proof.
  intros Hs. pose proof (parse_no_panic codec b Hs) as H1. pose proof (parse_no_oof codec b) as H2.
  destruct (parse codec b) as [v n| |k| |]; eauto; contradiction.
Qed.

Theorem nesting_bounded codec inner :
  parse codec (Nat.iter (S MAX_DEPTH) (fun b => 42 :: 49 :: 13 :: 10 :: b)%N inner) = Err ETooDeep.
Proof. destruct codec; vm_compute; reflexivity. Qed.

Lemma nonvacuous_example :
  let get := [42; 50; 13; 10; 36; 51; 13; 10; 71; 69; 84; 13; 10; 36; 51; 13; 10; 102; 111; 111; 13; 10]%N in
  let v := RArr [RBulk [71; 69; 84]%N; RBulk [102; 111; 111]%N] in
  parse true get = Done v 22 /\ encode v = get /\ wf_resp MAX_DEPTH v = true /\
  parse true (firstn 21 get) = Incomplete /\
  wf_resp MAX_DEPTH (RArr [RInt (-9223372036854775808); RSimple [79; 75]%N; RNilArr; RArr []]) = true.
Proof. vm_compute. repeat split; reflexivity. Qed.

Lemma repaired_inputs_example :
  parse true [36; 45; 50; 13; 10]%N = Err ENegLen /\
  parse false [36; 45; 50; 13; 10]%N = Err ENegLen /\
  parse true [42; 45; 50; 13; 10]%N = Err ENegLen /\
  alloc_request true [42; 49; 48; 48; 48; 48; 48; 48; 48; 48; 48; 13; 10]%N = 0%N /\
  parse true [43; 97; 13; 98; 13; 10]%N = Done (RSimple [97; 13; 98]%N) 6 /\
  parse true [36; 49; 13; 88; 13; 10]%N = Err EBadInt.
Proof. vm_compute. repeat split; reflexivity. Qed.

(* ------------------------------------------------------------------ Incomplete is never permanent *)
(* k CR LF pairs: completes a pending line, fills a pending bulk body, and then offers
   CR or LF where the next type byte is expected *)
Fixpoint pad (k : nat) : bytes :=
  match k with O => [] | S k' => 13%N :: 10%N :: pad k' end.

Lemma pad_length k : length (pad k) = 2 * k.
Proof. induction k; cbn [pad length]; lia. Qed.

Lemma pad_add a b : pad (a + b) = pad a ++ pad b.
Proof. induction a; cbn [pad Nat.add app]; [reflexivity|now rewrite IHa]. Qed.

Lemma pad_skipn : forall k j, j < 2 * k ->
  exists t, skipn j (pad k) = 13%N :: t \/ skipn j (pad k) = 10%N :: t.
Proof.
  induction k as [|k IH]; intros j Hj; [lia|].
  destruct j as [|[|j]]; cbn [pad skipn]; eauto.
  apply IH. lia.
Qed.

Lemma find_crlf_pad b : exists p, find_crlf (b ++ pad 1) = Some p.
Proof.
  induction b as [|x t IH]; [exists 0; reflexivity|].
  cbn [app]. destruct IH as [q Hq].
  destruct (t ++ pad 1) as [|y r] eqn:E; [destruct t; discriminate|].
  rewrite find_crlf_cons2. destruct ((x =? 13)%N && (y =? 10)%N); eauto.
  rewrite Hq. eauto.
Qed.

Definition Compl (rec : bytes -> outcome * N) :=
  forall s, fst (rec s) = Incomplete -> exists k, fst (rec (s ++ pad k)) <> Incomplete.

(* a decoder that needs a header line first: complete the line, then the body *)
Lemma two_stage (f : bytes -> outcome * N) :
  (forall s pos, find_crlf s = Some pos -> fst (f s) = Incomplete ->
                 exists k, fst (f (s ++ pad k)) <> Incomplete) ->
  Compl f.
Proof.
  intros HB s H. destruct (find_crlf s) as [pos|] eqn:Hf; [eauto|].
  destruct (find_crlf_pad s) as [p Hp].
  destruct (fst (f (s ++ pad 1))) eqn:E;
    try (exists 1; rewrite E; discriminate).
  destruct (HB _ _ Hp E) as [k Hk]. exists (1 + k).
  now rewrite pad_add, app_assoc.
Qed.

Lemma parse_line_compl mk : Compl (parse_line mk).
Proof.
  apply two_stage. intros s pos Hf. unfold parse_line. rewrite Hf.
  destruct (slice s 1 pos); discriminate.
Qed.

Lemma parse_integer_compl : Compl parse_integer.
Proof.
  apply two_stage. intros s pos Hf. unfold parse_integer. rewrite Hf.
  destruct (slice s 1 pos); [|discriminate]. destruct (parse_i64 l); discriminate.
Qed.

Lemma parse_bulk_compl : Compl parse_bulk.
Proof.
  apply two_stage. intros s pos Hf. unfold parse_bulk. cbv zeta. rewrite Hf.
  destruct (slice s 1 pos) as [l|] eqn:Hs; [|discriminate].
  destruct (parse_i64 l) as [len|] eqn:Hi; [|discriminate].
  destruct (len =? -1)%Z eqn:E1; [discriminate|].
  destruct (len <? 0)%Z eqn:E2; [discriminate|].
  destruct (USIZE_LIM <=? Z.of_nat (pos + 2) + len)%Z eqn:E3; [discriminate|].
  destruct (USIZE_LIM <=? Z.of_nat (pos + 2) + len + 2)%Z eqn:E4; [discriminate|].
  destruct (Z.of_nat (length s) <? Z.of_nat (pos + 2) + len + 2)%Z eqn:E5.
  2:{ destruct (slice s (pos + 2) (pos + 2 + Z.to_nat len)); discriminate. }
  intros _. exists (Z.to_nat (Z.of_nat (pos + 2) + len + 2)).
  rewrite (find_crlf_app _ _ _ Hf), (slice_app _ _ _ _ _ Hs), Hi, E1, E2, E3, E4.
  apply Z.ltb_ge in E2.
  replace (Z.of_nat (length (s ++ pad _)) <? Z.of_nat (pos + 2) + len + 2)%Z with false
    by (symmetry; apply Z.ltb_ge; rewrite app_length, pad_length; lia).
  destruct (slice (s ++ pad _) (pos + 2) (pos + 2 + Z.to_nat len)); discriminate.
Qed.

Lemma arr_loop_compl codec rec (Hb : Bnd rec) (He : Ext rec) (Hx : Exact rec) (Hc : Compl rec)
      (Hcr : forall h t, h = 13%N \/ h = 10%N -> fst (rec (h :: t)) = Err EUnknownType) :
  forall lf input cnt off acc, off <= length input ->
    fst (arr_loop codec rec lf input cnt off acc) = Incomplete ->
    exists k, forall lf', length (input ++ pad k) < off + lf' ->
      fst (arr_loop codec rec lf' (input ++ pad k) cnt off acc) <> Incomplete.
Proof.
  induction lf as [|lf IH]; intros input cnt off acc Ho H;
    destruct (cnt =? 0)%N eqn:Ec;
    try (rewrite arr_loop_zero in H by assumption; discriminate);
    try (rewrite arr_loop_O in H by assumption; discriminate).
  rewrite arr_loop_S in H by assumption.
  destruct (codec && (length input <=? off)) eqn:E0.
  { (* RespCodec: the offset is at the end of the input *)
    apply andb_prop in E0. destruct E0 as [-> E0]. apply Nat.leb_le in E0.
    assert (off = length input) by lia. subst off.
    exists 1. intros lf' Hl. rewrite app_length, pad_length in Hl.
    destruct lf' as [|lf']; [lia|]. rewrite arr_loop_S by assumption.
    replace (length (input ++ pad 1) <=? length input) with false
      by (symmetry; apply Nat.leb_gt; rewrite app_length, pad_length; lia).
    replace (length (input ++ pad 1) <? length input) with false
      by (symmetry; apply Nat.ltb_ge; rewrite app_length; lia).
    cbn [andb]. cbv zeta. rewrite skipn_app, skipn_all, Nat.sub_diag. cbn [skipn app pad].
    rewrite (Hcr 13%N [10%N]) by auto.
    pose proof (Hcr 13%N [10%N] (or_introl eq_refl)) as Hy. rewrite Hy. discriminate. }
  destruct (length input <? off) eqn:E1; [discriminate|]. apply Nat.ltb_ge in E1.
  assert (E0' : forall y, codec && (length (input ++ y) <=? off) = false).
  { intros y. destruct codec; [|reflexivity]. cbn [andb] in *. apply Nat.leb_gt in E0.
    apply Nat.leb_gt. rewrite app_length. lia. }
  assert (E1' : forall y, (length (input ++ y) <? off) = false)
    by (intros y; apply Nat.ltb_ge; rewrite app_length; lia).
  cbv zeta in H. destruct (rec (skipn off input)) as [o a] eqn:Hr. cbn [fst snd] in H.
  destruct o; try discriminate.
  - (* the element at [off] is complete; a later one is pending *)
    rewrite fst_tick in H.
    assert (Hcn : 1 <= n <= length (skipn off input)) by (apply (Hb _ v); now rewrite Hr).
    rewrite skipn_length in Hcn.
    destruct (IH input (cnt - 1)%N (off + n) (v :: acc) ltac:(lia) H) as [k Hk].
    exists k. intros lf' Hl. destruct lf' as [|lf']; [rewrite app_length in Hl; lia|].
    rewrite arr_loop_S by assumption. rewrite E0', E1'. cbv zeta.
    rewrite skipn_app_le by lia.
    assert (Hd : fst (rec (skipn off input ++ pad k)) = Done v n)
      by (apply He; [now rewrite Hr|exact I]).
    rewrite Hd, fst_tick. apply Hk. lia.
  - (* the element at [off] is pending *)
    clear H. assert (Hi : fst (rec (skipn off input)) = Incomplete) by now rewrite Hr.
    destruct (Hc _ Hi) as [k1 Hk1].
    destruct (fst (rec (skipn off input ++ pad k1))) as [v c| |e| |] eqn:E; try contradiction.
    + (* completed: one more CR LF pair makes the next element (if any) an error *)
      assert (Hcb : 1 <= c <= length (skipn off input ++ pad k1)) by (apply (Hb _ v); exact E).
      rewrite app_length, skipn_length, pad_length in Hcb.
      assert (Hgt : length (skipn off input) < c).
      { apply Nat.nle_gt. intros Hle.
        pose proof (Hx _ _ _ E) as Hx1. rewrite firstn_app_le in Hx1 by exact Hle.
        pose proof (He _ (skipn c (skipn off input)) _ Hx1 I) as Hx2.
        rewrite firstn_skipn in Hx2. rewrite Hi in Hx2. discriminate. }
      rewrite skipn_length in Hgt.
      exists (k1 + 1). intros lf' Hl. rewrite app_length, pad_length in Hl.
      destruct lf' as [|lf']; [lia|].
      rewrite arr_loop_S by assumption. rewrite E0', E1'. cbv zeta.
      rewrite skipn_app_le by lia.
      assert (Hd : fst (rec (skipn off input ++ pad (k1 + 1))) = Done v c).
      { rewrite pad_add, app_assoc. apply He; [exact E|exact I]. }
      rewrite Hd, fst_tick.
      destruct (cnt - 1 =? 0)%N eqn:Ec2; [rewrite arr_loop_zero by assumption; discriminate|].
      destruct lf' as [|lf']; [lia|].
      rewrite arr_loop_S by assumption.
      replace (length (input ++ pad (k1 + 1)) <=? off + c) with false
        by (symmetry; apply Nat.leb_gt; rewrite app_length, pad_length; lia).
      rewrite andb_false_r.
      replace (length (input ++ pad (k1 + 1)) <? off + c) with false
        by (symmetry; apply Nat.ltb_ge; rewrite app_length, pad_length; lia).
      cbv zeta. rewrite skipn_app. rewrite (skipn_all2 input) by lia. cbn [app].
      destruct (pad_skipn (k1 + 1) (off + c - length input) ltac:(lia)) as [t [Ht|Ht]];
        rewrite Ht; rewrite Hcr by auto;
        [pose proof (Hcr 13%N t (or_introl eq_refl)) as Hy
        |pose proof (Hcr 10%N t (or_intror eq_refl)) as Hy]; rewrite Hy; discriminate.
    + exists k1. intros lf' Hl. destruct lf' as [|lf']; [rewrite app_length in Hl; lia|].
      rewrite arr_loop_S by assumption. rewrite E0', E1'. cbv zeta.
      rewrite skipn_app_le by lia. rewrite E. rewrite E. discriminate.
    + exists k1. intros lf' Hl. destruct lf' as [|lf']; [rewrite app_length in Hl; lia|].
      rewrite arr_loop_S by assumption. rewrite E0', E1'. cbv zeta.
      rewrite skipn_app_le by lia. rewrite E. rewrite E. discriminate.
    + exists k1. intros lf' Hl. destruct lf' as [|lf']; [rewrite app_length in Hl; lia|].
      rewrite arr_loop_S by assumption. rewrite E0', E1'. cbv zeta.
      rewrite skipn_app_le by lia. rewrite E. rewrite E. discriminate.
Qed.

Lemma parse_array_compl codec rec : Bnd rec -> Ext rec -> Exact rec -> Compl rec ->
  (forall h t, h = 13%N \/ h = 10%N -> fst (rec (h :: t)) = Err EUnknownType) ->
  Compl (parse_array codec rec).
Proof.
  intros Hb He Hx Hc Hcr. apply two_stage. intros s pos Hf. unfold parse_array. cbv zeta. rewrite Hf.
  destruct (slice s 1 pos) as [l|] eqn:Hs; [|discriminate].
  destruct (parse_i64 l) as [len|] eqn:Hi; [|discriminate].
  destruct (len =? -1)%Z eqn:E1; [discriminate|].
  destruct (len <? 0)%Z eqn:E2; [discriminate|].
  destruct (length s <? pos + 2) eqn:E3; [discriminate|]. apply Nat.ltb_ge in E3.
  rewrite fst_tick. intros H.
  destruct (arr_loop_compl codec rec Hb He Hx Hc Hcr _ _ _ _ _ E3 H) as [k Hk].
  exists k.
  rewrite (find_crlf_app _ _ _ Hf), (slice_app _ _ _ _ _ Hs), Hi, E1, E2.
  replace (length (s ++ pad k) <? pos + 2) with false
    by (symmetry; apply Nat.ltb_ge; rewrite app_length; lia).
  rewrite fst_tick. apply Hk. lia.
Qed.

Lemma parse_d_crlf codec d h t : h = 13%N \/ h = 10%N ->
  fst (parse_d codec d (h :: t)) = Err EUnknownType.
Proof. intros [-> | ->]; rewrite parse_d_eq; reflexivity. Qed.

Lemma parse_d_compl codec : forall d, Compl (parse_d codec d).
Proof.
  induction d as [|d IH]; intros s; (destruct s as [|h t];
    [intros _; exists 1; cbn [app pad]; rewrite parse_d_crlf by auto; discriminate|]);
    cbn [parse_d app]; by_head h; try discriminate;
    try apply (parse_line_compl _ (h :: t)); try apply (parse_integer_compl (h :: t));
    try apply (parse_bulk_compl (h :: t)).
  apply (parse_array_compl codec (parse_d codec d)); auto using parse_d_bnd, parse_d_ext, parse_d_exact.
  intros; now apply parse_d_crlf.
Qed.

(* "need more bytes" is never a dead end *)
Theorem incomplete_not_stuck codec b :
  parse codec b = Incomplete -> exists x, parse codec (b ++ x) <> Incomplete.
Proof.
  intros H. destruct (parse_d_compl codec MAX_DEPTH b H) as [k Hk]. exists (pad k). exact Hk.
Qed.

(* Every register stamp is used at most once in a cluster: the registers occurring in the
   deltas ever emitted form a partial function of their stamps.  This discharges, for closed
   runs, the hypothesis "respects U" of C06_sec (and is the cluster-level form of C08: a node's
   stamps strictly increase and carry its id). *)
From stdpp Require Import gmap.
From Coq Require Import NArith Lia.
From RV Require Import Lib.Hex Model.Crdt Proofs.CrdtProofs Model.ShardState
  Proofs.ShardStateProofs Model.Cluster Proofs.ClusterProofs.
Local Open Scope N_scope.

Definition reg_in (r : lww) (v : rvalue) : Prop :=
  match rv_crdt v with
  | CLww r' => r = r'
  | CHash h => ∃ f, h !! f = Some r
  | _ => False
  end.

(* a register created by node [rid] while its clock moved from b to e *)
Definition fresh (rid b e : N) (r : lww) : Prop :=
  st_rid (lw_ts r) = rid ∧ b < st_time (lw_ts r) ≤ e.

Definition hash_fun (h : gmap (list N) lww) : Prop :=
  ∀ f f' r r', h !! f = Some r → h !! f' = Some r' → lw_ts r = lw_ts r' → r = r'.

Lemma hash_fun_insert h f r b :
  hash_fun h → map_Forall (λ _ x, st_time (lw_ts x) ≤ b) h → b < st_time (lw_ts r) →
  hash_fun (<[ f := r ]> h).
Proof.
  intros Hf Hb Hr g g' x x' Hx Hx' E.
  destruct (decide (f = g)) as [<-|Hg]; destruct (decide (f = g')) as [<-|Hg'].
  - rewrite lookup_insert in Hx, Hx'. congruence.
  - rewrite lookup_insert in Hx. rewrite lookup_insert_ne in Hx' by done. injection Hx as <-.
    specialize (Hb g' x' Hx'). simpl in Hb. rewrite E in Hr. lia.
  - rewrite lookup_insert in Hx'. rewrite lookup_insert_ne in Hx by done. injection Hx' as <-.
    specialize (Hb g x Hx). simpl in Hb. rewrite <- E in Hr. lia.
  - rewrite lookup_insert_ne in Hx, Hx' by done. eauto.
Qed.

(* ---------- registers of the value produced by hash_set_all / hash_delete_all ---------- *)
Lemma hash_set_all_regs fs : ∀ s v h b,
  rv_crdt v = CHash h → b ≤ sh_time s →
  map_Forall (λ _ x, st_time (lw_ts x) ≤ sh_time s) h → hash_fun h →
  sh_ovf (hash_set_all s v fs).1 = false →
  ∃ h', rv_crdt (hash_set_all s v fs).2 = CHash h' ∧ hash_fun h' ∧
        map_Forall (λ _ x, st_time (lw_ts x) ≤ sh_time (hash_set_all s v fs).1) h' ∧
        sh_time s ≤ sh_time (hash_set_all s v fs).1 ∧ sh_rid (hash_set_all s v fs).1 = sh_rid s ∧
        ∀ f r, h' !! f = Some r → h !! f = Some r ∨ fresh (sh_rid s) b (sh_time (hash_set_all s v fs).1) r.
Proof.
  induction fs as [|[f x] fs IH]; intros s v h b Hc Hb Hle Hfun Ho.
  - rewrite hash_set_all_nil in *. exists h. split_and!; auto; try lia.
  - rewrite hash_set_all_cons in *. rewrite Hc in *. cbn [as_hash] in *.
    set (v1 := RV _ _ _ _ _) in *.
    assert (Hts : sh_ovf (tick s) = false).
    { apply not_ovf_before. intros Ex. rewrite (hash_set_all_ovf fs _ v1 Ex) in Ho. discriminate. }
    destruct (tick_spec s Hts) as (Ht & _ & Hr & _).
    destruct (IH (tick s) v1 (<[f:=Lww (Some x) (now (tick s)) false]> h) b eq_refl) as (h' & A & B & C & D & E & F); auto.
    + lia.
    + apply map_Forall_insert_2; [simpl; lia|]. eapply map_Forall_impl; [exact Hle|]. simpl. intros. lia.
    + apply (hash_fun_insert _ _ _ (sh_time s)); auto. simpl. lia.
    + exists h'. split_and!; auto; try lia; try congruence.
      intros g r Hg. destruct (F g r Hg) as [Hin|Hfr].
      * destruct (decide (f = g)) as [->|Hne].
        -- rewrite lookup_insert in Hin. injection Hin as <-. right. unfold fresh, now; simpl.
           split; [congruence|]. lia.
        -- rewrite lookup_insert_ne in Hin by done. by left.
      * right. unfold fresh in *. rewrite Hr in Hfr. exact Hfr.
Qed.

Lemma hash_delete_all_regs fs : ∀ s v h b,
  rv_crdt v = CHash h → b ≤ sh_time s →
  map_Forall (λ _ x, st_time (lw_ts x) ≤ sh_time s) h → hash_fun h →
  sh_ovf (hash_delete_all s v fs).1 = false →
  ∃ h', rv_crdt (hash_delete_all s v fs).2 = CHash h' ∧ hash_fun h' ∧
        map_Forall (λ _ x, st_time (lw_ts x) ≤ sh_time (hash_delete_all s v fs).1) h' ∧
        sh_time s ≤ sh_time (hash_delete_all s v fs).1 ∧ sh_rid (hash_delete_all s v fs).1 = sh_rid s ∧
        ∀ f r, h' !! f = Some r → h !! f = Some r ∨ fresh (sh_rid s) b (sh_time (hash_delete_all s v fs).1) r.
Proof.
  induction fs as [|f fs IH]; intros s v h b Hc Hb Hle Hfun Ho.
  - rewrite hash_delete_all_nil in *. exists h. split_and!; auto; try lia.
  - rewrite hash_delete_all_cons in *.
    assert (Ho1 : sh_ovf (rv_hash_delete s v f).1 = false).
    { apply not_ovf_before. intros Ex. rewrite (hash_delete_all_ovf fs _ _ Ex) in Ho. discriminate. }
    unfold rv_hash_delete in *. rewrite Hc in *. destruct (h !! f) as [r0|] eqn:Hf; cbn [fst snd] in *.
    + destruct (tick_spec s Ho1) as (Ht & _ & Hr & _).
      set (v1 := RV _ _ _ _ _) in *.
      destruct (IH (tick s) v1 (<[f:=Lww None (now (tick s)) true]> h) b eq_refl) as (h' & A & B & C & D & E & F); auto.
      * lia.
      * apply map_Forall_insert_2; [simpl; lia|]. eapply map_Forall_impl; [exact Hle|]. simpl. intros. lia.
      * apply (hash_fun_insert _ _ _ (sh_time s)); auto. simpl. lia.
      * exists h'. split_and!; auto; try lia; try congruence.
        intros g r Hg. destruct (F g r Hg) as [Hin|Hfr].
        -- destruct (decide (f = g)) as [->|Hne].
           ++ rewrite lookup_insert in Hin. injection Hin as <-. right. unfold fresh, now; simpl.
              split; [congruence|]. lia.
           ++ rewrite lookup_insert_ne in Hin by done. by left.
        -- right. unfold fresh in *. rewrite Hr in Hfr. exact Hfr.
    + set (v1 := RV _ _ _ _ _) in *.
      destruct (IH s v1 h b eq_refl) as (h' & A & B & C & D & E & F); auto.
      all: try (exists h'; split_and!; auto).
Qed.

(* ---------- one local step ---------- *)
Definition val_fun (v : rvalue) : Prop :=
  match rv_crdt v with CHash h => hash_fun h | _ => True end.

Lemma reg_in_fun v r r' : val_fun v → reg_in r v → reg_in r' v → lw_ts r = lw_ts r' → r = r'.
Proof.
  unfold val_fun, reg_in. destruct (rv_crdt v); try done.
  - intros _ -> ->. done.
  - intros Hf [f Hr] [f' Hr'] E. eauto.
Qed.

(* the registers of the delta a local event emits: registers of the value it replaced, or
   fresh ones; and the delta is functional *)
Lemma step_local_regs s e s1 d :
  Inv s → is_local e = true → step s e = (s1, Some d) → sh_ovf s1 = false →
  (∀ v, sh_keys s !! ev_key e = Some v → val_fun v) →
  val_fun d ∧ sh_rid s1 = sh_rid s ∧ sh_time s ≤ sh_time s1 ∧
  ∀ r, reg_in r d →
    (∃ v, sh_keys s !! ev_key e = Some v ∧ reg_in r v) ∨ fresh (sh_rid s) (sh_time s) (sh_time s1) r.
Proof.
  intros HI Hloc Hstep Ho Hvf.
  assert (Hwf : wf_event e) by (destruct e; try discriminate Hloc; exact I).
  destruct (step_ok s e s1 (Some d) Hstep HI Hwf Ho) as (_ & Hos & Hmono & Hrid & _ & _).
  split_and!; auto.
  - (* functional *)
    destruct e as [k val [x|]|k|k fs|k fs|k v'|k v']; try discriminate Hloc; cbn [step ev_key] in *.
    + unfold rv_set in Hstep. injection Hstep as _ <-. done.
    + destruct (sh_keys s !! k) as [v0|] eqn:Hk; [|discriminate].
      unfold rv_delete in Hstep. specialize (Hvf v0 eq_refl). unfold val_fun in *.
      destruct (rv_crdt v0) eqn:Hc; injection Hstep as _ <-; simpl; try done; by rewrite Hc.
    + set (v0 := match sh_keys s !! k with Some v => v | None => _ end) in *.
      assert (Hh : ∃ h, as_hash (rv_crdt v0) = h ∧ hash_fun h ∧ map_Forall (λ _ x, st_time (lw_ts x) ≤ sh_time s) h).
      { unfold v0. destruct (sh_keys s !! k) as [v|] eqn:Hk.
        - specialize (Hvf v eq_refl). destruct (HI k v Hk) as [_ Hle]. unfold val_fun in Hvf.
          destruct (rv_crdt v) eqn:Hc; simpl in *; try (eexists; split; [reflexivity|]; split; [intros ? ? ? ? H; by rewrite lookup_empty in H|apply map_Forall_empty]).
          eexists; split; [reflexivity|]. split; done.
        - eexists; split; [reflexivity|]. simpl. split; [intros ? ? ? ? H; by rewrite lookup_empty in H|apply map_Forall_empty]. }
      destruct Hh as (h & Hh & Hfun & Hle).
      destruct fs as [|[f x] fs].
      { rewrite hash_set_all_nil in Hstep. injection Hstep as _ <-. unfold v0.
        destruct (sh_keys s !! k) as [v|]; [by apply Hvf|]. unfold val_fun; simpl. intros ? ? ? ? H; by rewrite lookup_empty in H. }
      rewrite hash_set_all_cons in Hstep. rewrite Hh in Hstep.
      set (v1 := RV (CHash (<[f:=Lww (Some x) (now (tick s)) false]> h)) (rv_vc v0) (rv_exp v0) (now (tick s)) (rv_rf v0)) in *.
      destruct (hash_set_all (tick s) v1 fs) as [s' d'] eqn:E. injection Hstep as <- <-.
      change (sh_ovf s' = false) in Ho.
      assert (Hts : sh_ovf (tick s) = false).
      { apply not_ovf_before. intros Ex. pose proof (hash_set_all_ovf fs _ v1 Ex) as Q. rewrite E in Q. simpl in Q. congruence. }
      destruct (tick_spec s Hts) as (Ht & _).
      destruct (hash_set_all_regs fs (tick s) v1 (<[f:=Lww (Some x) (now (tick s)) false]> h) (sh_time s) eq_refl) as (h' & A & B & _); auto.
      * lia.
      * apply map_Forall_insert_2; [simpl; lia|]. eapply map_Forall_impl; [exact Hle|]. simpl. intros. lia.
      * apply (hash_fun_insert _ _ _ (sh_time s)); auto. simpl. lia.
      * by rewrite E.
      * rewrite E in A. simpl in A. unfold val_fun. by rewrite A.
    + destruct (sh_keys s !! k) as [v0|] eqn:Hk; [|discriminate].
      destruct (rv_crdt v0) as [| | | | |h] eqn:Hc; try discriminate.
      specialize (Hvf v0 eq_refl). unfold val_fun in Hvf. rewrite Hc in Hvf.
      destruct (HI k v0 Hk) as [_ Hle]. rewrite Hc in Hle. simpl in Hle.
      destruct (hash_delete_all s v0 fs) as [s' d'] eqn:E. injection Hstep as <- <-.
      change (sh_ovf s' = false) in Ho.
      destruct (hash_delete_all_regs fs s v0 h (sh_time s) Hc) as (h' & A & B & _); auto; try lia.
      * by rewrite E.
      * rewrite E in A. simpl in A. unfold val_fun. by rewrite A.
  - (* provenance *)
    intros r Hr.
    destruct e as [k val [x|]|k|k fs|k fs|k v'|k v']; try discriminate Hloc; cbn [step ev_key] in *.
    + unfold rv_set in Hstep.
      assert (Hs1 : sh_time s1 = sh_time (tick s) ∧ sh_ovf (tick s) = false).
      { injection Hstep as <- _. destruct (sh_causal (tick s)); simpl in *; done. }
      destruct Hs1 as [Hs1 Hts]. destruct (tick_spec s Hts) as (Ht & _ & Hr' & _).
      injection Hstep as _ <-. unfold reg_in in Hr; simpl in Hr. subst r. right.
      unfold fresh, now; simpl. split; [done|]. lia.
    + destruct (sh_keys s !! k) as [v0|] eqn:Hk; [|discriminate].
      unfold rv_delete in Hstep. destruct (rv_crdt v0) eqn:Hc.
      * injection Hstep as <- <-. change (sh_ovf (tick s) = false) in Ho.
        destruct (tick_spec s Ho) as (Ht & _ & Hr' & _).
        unfold reg_in in Hr; simpl in Hr. subst r. right. unfold fresh, now; simpl. split; [done|].
        change (sh_time (put (tick s) k _)) with (sh_time (tick s)). lia.
      * injection Hstep as _ <-. left. eauto.
      * injection Hstep as _ <-. left. eauto.
      * injection Hstep as _ <-. left. eauto.
      * injection Hstep as _ <-. left. eauto.
      * injection Hstep as _ <-. left. eauto.
    + set (v0 := match sh_keys s !! k with Some v => v | None => _ end) in *.
      destruct fs as [|[f x] fs].
      { rewrite hash_set_all_nil in Hstep. injection Hstep as _ <-. unfold v0 in Hr.
        destruct (sh_keys s !! k) as [v|] eqn:Hk; [left; eauto|].
        unfold reg_in in Hr; simpl in Hr. destruct Hr as [g Hg]. by rewrite lookup_empty in Hg. }
      assert (Hh : ∃ h, as_hash (rv_crdt v0) = h ∧ hash_fun h ∧ map_Forall (λ _ x, st_time (lw_ts x) ≤ sh_time s) h ∧
                   ∀ g r0, h !! g = Some r0 → ∃ v, sh_keys s !! k = Some v ∧ reg_in r0 v).
      { unfold v0. destruct (sh_keys s !! k) as [v|] eqn:Hk.
        - specialize (Hvf v eq_refl). destruct (HI k v Hk) as [_ Hle]. unfold val_fun in Hvf.
          destruct (rv_crdt v) as [| | | | |h] eqn:Hc; simpl in *;
            try (exists ∅; split; [reflexivity|]; split; [intros ? ? ? ? H; by rewrite lookup_empty in H|];
                 split; [apply map_Forall_empty|intros ? ? H; by rewrite lookup_empty in H]).
          exists h. split; [reflexivity|]. split; [done|]. split; [done|].
          intros g r0 Hg. exists v. split; [done|]. unfold reg_in. rewrite Hc. eauto.
        - exists ∅. split; [reflexivity|]. split; [intros ? ? ? ? H; by rewrite lookup_empty in H|].
          split; [apply map_Forall_empty|intros ? ? H; by rewrite lookup_empty in H]. }
      destruct Hh as (h & Hh & Hfun & Hle & Hprov).
      rewrite hash_set_all_cons in Hstep. rewrite Hh in Hstep.
      set (v1 := RV (CHash (<[f:=Lww (Some x) (now (tick s)) false]> h)) (rv_vc v0) (rv_exp v0) (now (tick s)) (rv_rf v0)) in *.
      destruct (hash_set_all (tick s) v1 fs) as [s' d'] eqn:E. injection Hstep as <- <-.
      change (sh_ovf s' = false) in Ho.
      assert (Hts : sh_ovf (tick s) = false).
      { apply not_ovf_before. intros Ex. pose proof (hash_set_all_ovf fs _ v1 Ex) as Q. rewrite E in Q. simpl in Q. congruence. }
      destruct (tick_spec s Hts) as (Ht & _ & Hr' & _).
      destruct (hash_set_all_regs fs (tick s) v1 (<[f:=Lww (Some x) (now (tick s)) false]> h) (sh_time s) eq_refl) as (h' & A & _ & _ & D & _ & F); auto.
      * lia.
      * apply map_Forall_insert_2; [simpl; lia|]. eapply map_Forall_impl; [exact Hle|]. simpl. intros. lia.
      * apply (hash_fun_insert _ _ _ (sh_time s)); auto. simpl. lia.
      * by rewrite E.
      * rewrite E in A, D, F. cbn [fst snd] in *. change (sh_time (put s' k d')) with (sh_time s').
        unfold reg_in in Hr. rewrite A in Hr. destruct Hr as [g Hg].
        destruct (F g r Hg) as [Hin|Hfr].
        -- destruct (decide (f = g)) as [->|Hne].
           ++ rewrite lookup_insert in Hin. injection Hin as <-. right. unfold fresh, now; simpl.
              split; [done|]. lia.
           ++ rewrite lookup_insert_ne in Hin by done. left. eauto.
        -- right. unfold fresh in *. rewrite Hr' in Hfr. exact Hfr.
    + destruct (sh_keys s !! k) as [v0|] eqn:Hk; [|discriminate].
      destruct (rv_crdt v0) as [| | | | |h] eqn:Hc; try discriminate.
      specialize (Hvf v0 eq_refl). unfold val_fun in Hvf. rewrite Hc in Hvf.
      destruct (HI k v0 Hk) as [_ Hle]. rewrite Hc in Hle. simpl in Hle.
      destruct (hash_delete_all s v0 fs) as [s' d'] eqn:E. injection Hstep as <- <-.
      change (sh_ovf s' = false) in Ho.
      destruct (hash_delete_all_regs fs s v0 h (sh_time s) Hc) as (h' & A & _ & _ & _ & _ & F); auto; try lia.
      * by rewrite E.
      * rewrite E in A, F. cbn [fst snd] in *. change (sh_time (put s' k d')) with (sh_time s').
        unfold reg_in in Hr. rewrite A in Hr. destruct Hr as [g Hg].
        destruct (F g r Hg) as [Hin|Hfr]; [|by right].
        left. exists v0. split; [done|]. unfold reg_in. rewrite Hc. eauto.
Qed.

(* registers of a merge come from the merged values *)
Lemma reg_in_merge a b r : reg_in r (rv_merge a b) → reg_in r a ∨ reg_in r b.
Proof.
  unfold reg_in, rv_merge, merge_with_ts; simpl.
  destruct (rv_crdt a) as [ra| | | | |ha], (rv_crdt b) as [rb| | | | |hb]; simpl;
    try (destruct (stamp_ltb _ _); simpl; tauto); try tauto.
  - unfold lww_merge. destruct (stamp_ltb _ _); intros ->; auto.
  - intros [f Hf]. unfold hash_merge in Hf.
    apply lookup_union_with_Some in Hf as [[H _]|[[_ H]|(x&y&Hx&Hy&Hxy)]]; eauto.
    injection Hxy as <-. unfold lww_merge. destruct (stamp_ltb _ _); eauto.
Qed.

(* ---------- plainness of locally produced values ---------- *)
Lemma hash_set_all_meta fs : ∀ s v,
  rv_vc (hash_set_all s v fs).2 = rv_vc v ∧ rv_exp (hash_set_all s v fs).2 = rv_exp v ∧
  rv_rf (hash_set_all s v fs).2 = rv_rf v.
Proof.
  induction fs as [|[f x] fs IH]; intros s v; [done|]. rewrite hash_set_all_cons.
  destruct (IH (tick s) (RV (CHash (<[f:=Lww (Some x) (now (tick s)) false]> (as_hash (rv_crdt v)))) (rv_vc v) (rv_exp v) (now (tick s)) (rv_rf v))) as (A & B & C).
  done.
Qed.
Lemma hash_delete_all_meta fs : ∀ s v,
  rv_vc (hash_delete_all s v fs).2 = rv_vc v ∧ rv_exp (hash_delete_all s v fs).2 = rv_exp v ∧
  rv_rf (hash_delete_all s v fs).2 = rv_rf v.
Proof.
  induction fs as [|f fs IH]; intros s v; [done|]. rewrite hash_delete_all_cons.
  destruct (IH (rv_hash_delete s v f).1 (rv_hash_delete s v f).2) as (A & B & C).
  rewrite A, B, C. unfold rv_hash_delete. destruct (rv_crdt v); try done. by destruct (_ !! f).
Qed.

Lemma step_local_plain s e s1 d :
  sh_causal s = false → is_local e = true →
  (∀ v, sh_keys s !! ev_key e = Some v → plain v) →
  step s e = (s1, Some d) → plain d.
Proof.
  intros Hca Hloc Hpl Hstep.
  destruct e as [k val [x|]|k|k fs|k fs|k v'|k v']; try discriminate Hloc; cbn [step ev_key] in *.
  - assert (Hv0 : plain (default (rv_new (sh_rid s)) (sh_keys s !! k))).
    { destruct (sh_keys s !! k) as [v|]; simpl; [by apply Hpl|done]. }
    destruct Hv0 as (P1 & P2 & P3). unfold rv_set in Hstep.
    assert (Hc1 : sh_causal (tick s) = false) by (unfold tick; destruct (_ =? _); done).
    rewrite Hc1 in Hstep. injection Hstep as _ <-. unfold plain, with_exp; simpl. done.
  - destruct (sh_keys s !! k) as [v0|] eqn:Hk; [|discriminate].
    destruct (Hpl v0 eq_refl) as (P1 & P2 & P3).
    unfold rv_delete in Hstep. destruct (rv_crdt v0); injection Hstep as _ <-; unfold plain; simpl; done.
  - set (v0 := match sh_keys s !! k with Some v => v | None => _ end) in *.
    assert (Hv0 : plain v0).
    { unfold v0. destruct (sh_keys s !! k) as [v|]; [by apply Hpl|done]. }
    destruct Hv0 as (P1 & P2 & P3).
    destruct (hash_set_all_meta fs s v0) as (A & B & C).
    destruct (hash_set_all s v0 fs) as [s' d']. injection Hstep as _ <-. cbn [snd] in *.
    unfold plain. by rewrite A, B, C.
  - destruct (sh_keys s !! k) as [v0|] eqn:Hk; [|discriminate].
    destruct (rv_crdt v0) as [| | | | |h] eqn:Hc; try discriminate.
    destruct (Hpl v0 eq_refl) as (P1 & P2 & P3).
    destruct (hash_delete_all_meta fs s v0) as (A & B & C).
    destruct (hash_delete_all s v0 fs) as [s' d']. injection Hstep as _ <-. cbn [snd] in *.
    unfold plain. by rewrite A, B, C.
Qed.

Lemma rv_merge_plain a b : plain a → plain b → plain (rv_merge a b).
Proof. intros (A1 & A2 & A3) (B1 & B2 & B3). unfold plain, rv_merge; simpl. by rewrite A1, A2, A3, B1, B2, B3. Qed.

(* ---------- small facts about the glue and local steps ---------- *)
Lemma record_post_local x c r e : record_post x c r = Some e → is_local e = true.
Proof.
  unfold record_post. intros Hrec.
  destruct c; destruct r; simpl in Hrec; try discriminate Hrec;
    repeat match type of Hrec with
           | (if ?b then _ else _) = _ => destruct b
           | match ?b with _ => _ end = _ => destruct b
           end; try discriminate Hrec; injection Hrec as <-; reflexivity.
Qed.

Lemma step_local_none s e s1 : is_local e = true → step s e = (s1, None) → s1 = s.
Proof.
  intros Hloc Hstep. destruct e; try discriminate Hloc; cbn [step] in Hstep.
  - destruct (rv_set _ _ _). discriminate.
  - destruct (sh_keys s !! k); [destruct (rv_delete _ _); discriminate|by injection Hstep].
  - destruct (hash_set_all _ _ _). discriminate.
  - destruct (sh_keys s !! k) as [r0|]; [|by injection Hstep]. destruct (rv_crdt r0); try (by injection Hstep).
    destruct (hash_delete_all _ _ _). discriminate.
Qed.

Lemma step_local_stored s e s1 d : is_local e = true → step s e = (s1, Some d) → sh_keys s1 !! ev_key e = Some d.
Proof.
  intros Hloc Hstep. destruct e; try discriminate Hloc; cbn [step ev_key] in *.
  - destruct (rv_set _ _ _). injection Hstep as <- <-. unfold put, set_keys; simpl. by rewrite lookup_insert.
  - destruct (sh_keys s !! k); [|discriminate]. destruct (rv_delete _ _). injection Hstep as <- <-.
    unfold put, set_keys; simpl. by rewrite lookup_insert.
  - destruct (hash_set_all _ _ _). injection Hstep as <- <-. unfold put, set_keys; simpl. by rewrite lookup_insert.
  - destruct (sh_keys s !! k) as [r0|]; [|discriminate]. destruct (rv_crdt r0); try discriminate.
    destruct (hash_delete_all _ _ _). injection Hstep as <- <-. unfold put, set_keys; simpl. by rewrite lookup_insert.
Qed.

(* ---------- the global invariant ---------- *)
Definition log_reg (log : list (nat * list N * rvalue)) (r : lww) : Prop :=
  ∃ o k d, In (o, k, d) log ∧ reg_in r d.

Definition node_good (log : list (nat * list N * rvalue)) (i : nat) (n : node) : Prop :=
  sh_rid (n_sh n) = N.of_nat (S i) ∧ sh_causal (n_sh n) = false ∧ Inv (n_sh n) ∧ WfInv (n_sh n) ∧
  (∀ k v, sh_keys (n_sh n) !! k = Some v → plain v) ∧
  (∀ k d, In d (hist_of n k) → ∃ o, In (o, k, d) log) ∧
  (∀ k v r, sh_keys (n_sh n) !! k = Some v → reg_in r v → log_reg log r) ∧
  (∀ r, log_reg log r → st_rid (lw_ts r) = sh_rid (n_sh n) → st_time (lw_ts r) ≤ sh_time (n_sh n)).

Definition GInv (c : list node) (log : list (nat * list N * rvalue)) : Prop :=
  (∀ r r', log_reg log r → log_reg log r' → lw_ts r = lw_ts r' → r = r') ∧
  (∀ i n, c !! i = Some n → node_good log i n) ∧
  (∀ o k d, In (o, k, d) log → wf_value d ∧ plain d).

Lemma log_reg_mono log ext r : log_reg log r → log_reg (log ++ ext) r.
Proof. intros (o & k & d & Hin & Hr). exists o, k, d. split; [apply in_or_app; by left|done]. Qed.

(* a client command at node j *)
Lemma cstep_client_ginv c log j cmd :
  GInv c log →
  (∀ n1, (cstep c log (CClient j cmd)).1 !! j = Some n1 → sh_ovf (n_sh n1) = false) →
  GInv (cstep c log (CClient j cmd)).1 (cstep c log (CClient j cmd)).2.
Proof.
  intros (G1 & G2 & G3) Hno. cbn [cstep] in *.
  destruct (c !! j) as [n|] eqn:Hj; [|by split_and!].
  destruct (G2 j n Hj) as (A & B & C & D & E & F & G & H).
  unfold node_exec in *. destruct (xexec (n_x n) cmd) as [x1 r1].
  destruct (record_post x1 cmd r1) as [e|] eqn:Hrec.
  2:{ cbn [fst snd] in *. split_and!; auto. intros i n' Hi. destruct (decide (i = j)) as [->|Hne].
      - rewrite list_lookup_insert in Hi by (by eapply lookup_lt_Some). injection Hi as <-.
        split_and!; auto.
      - rewrite list_lookup_insert_ne in Hi by done. by apply G2. }
  pose proof (record_post_local _ _ _ _ Hrec) as Hloc.
  destruct (step (n_sh n) e) as [s1 od1] eqn:Hstep. destruct od1 as [d|]; cbn [fst snd] in *.
  2:{ pose proof (step_local_none _ _ _ Hloc Hstep) as ->. split_and!; auto.
      intros i n' Hi. destruct (decide (i = j)) as [->|Hne].
      - rewrite list_lookup_insert in Hi by (by eapply lookup_lt_Some). injection Hi as <-.
        split_and!; auto.
      - rewrite list_lookup_insert_ne in Hi by done. by apply G2. }
  (* a delta d is emitted for key k := ev_key e *)
  set (k := ev_key e) in *.
  assert (Ho : sh_ovf s1 = false).
  { specialize (Hno (Node x1 s1 (hist_push (n_hist n) k d) (n_glue_fail n))).
    rewrite list_lookup_insert in Hno by (by eapply lookup_lt_Some). by apply Hno. }
  assert (Hwf : wf_event e) by (destruct e; try discriminate Hloc; exact I).
  destruct (step_ok _ _ _ _ Hstep C Hwf Ho) as (C1 & _ & Hmono & Hrid & _ & _).
  destruct (step_wf _ _ _ _ Hstep C D Hwf Ho) as (D1 & Hdwf).
  assert (Hvfun : ∀ v, sh_keys (n_sh n) !! k = Some v → val_fun v).
  { intros v Hv. unfold val_fun. destruct (rv_crdt v) as [| | | | |h] eqn:Hc; try done.
    intros f f' r r' Hr Hr' Ets. apply G1; auto; apply (G k v); auto; unfold reg_in; rewrite Hc; eauto. }
  destruct (step_local_regs _ _ _ _ C Hloc Hstep Ho Hvfun) as (Hdfun & _ & _ & Hprov).
  pose proof (step_local_plain _ _ _ _ B Hloc (E k) Hstep) as Hdpl.
  pose proof (step_local_stored _ _ _ _ Hloc Hstep) as Hstored. change (sh_keys s1 !! k = Some d) in Hstored.
  (* registers of the new entry are old registers of the log or fresh ones of node j *)
  assert (Hnewreg : ∀ r, reg_in r d → log_reg log r ∨ fresh (sh_rid (n_sh n)) (sh_time (n_sh n)) (sh_time s1) r).
  { intros r Hr. destruct (Hprov r Hr) as [(v & Hv & Hrv)|Hf]; [left; by apply (G k v)|by right]. }
  assert (Hlr : ∀ r, log_reg (log ++ [(j, k, d)]) r → log_reg log r ∨ (reg_in r d)).
  { intros r (o & k' & d' & Hin & Hr). apply in_app_or in Hin as [Hin|[Hin|[]]].
    - left. exists o, k', d'. done.
    - injection Hin as <- <- <-. by right. }
  split_and!.
  - (* functional *)
    intros r r' Hr Hr' Ets.
    destruct (Hlr r Hr) as [Hold|Hd]; destruct (Hlr r' Hr') as [Hold'|Hd'].
    + by apply G1.
    + destruct (Hnewreg r' Hd') as [Ho'|(Hfr1 & Hfr2)]; [by apply G1|].
      exfalso. pose proof (H r Hold) as Hb. rewrite Ets in Hb. specialize (Hb Hfr1). lia.
    + destruct (Hnewreg r Hd) as [Ho'|(Hfr1 & Hfr2)]; [by apply G1|].
      exfalso. pose proof (H r' Hold') as Hb. rewrite <- Ets in Hb. specialize (Hb Hfr1). lia.
    + by apply (reg_in_fun d).
  - (* nodes *)
    intros i n' Hi. destruct (decide (i = j)) as [->|Hne].
    + rewrite list_lookup_insert in Hi by (by eapply lookup_lt_Some). injection Hi as <-.
      unfold node_good. cbn [n_sh]. split_and!; auto; try congruence.
      * by rewrite (step_causal _ _ _ _ Hstep).
      * intros k' v Hk'. destruct (decide (k' = k)) as [->|Hnk].
        -- rewrite Hstored in Hk'. by injection Hk' as <-.
        -- rewrite (step_other_keys _ _ _ _ k' Hstep) in Hk' by done. by apply (E k').
      * intros k' d' Hd'. rewrite hist_of_push in Hd'. destruct (decide (k = k')) as [<-|Hnk].
        -- apply in_app_or in Hd' as [Hd'|[<-|[]]].
           ++ destruct (F k d' Hd') as [o Ho']. exists o. apply in_or_app. by left.
           ++ exists j. apply in_or_app. right. by left.
        -- destruct (F k' d' Hd') as [o Ho']. exists o. apply in_or_app. by left.
      * intros k' v r Hk' Hr. destruct (decide (k' = k)) as [->|Hnk].
        -- rewrite Hstored in Hk'. injection Hk' as <-. exists j, k, d. split; [apply in_or_app; right; by left|done].
        -- rewrite (step_other_keys _ _ _ _ k' Hstep) in Hk' by done. apply log_reg_mono. by apply (G k' v).
      * intros r Hr Hridr. rewrite Hrid in Hridr. destruct (Hlr r Hr) as [Hold|Hd].
        -- specialize (H r Hold Hridr). lia.
        -- destruct (Hnewreg r Hd) as [Hold|(_ & Hfr2)]; [specialize (H r Hold Hridr); lia|lia].
    + rewrite list_lookup_insert_ne in Hi by done.
      destruct (G2 i n' Hi) as (A' & B' & C' & D' & E' & F' & G' & H').
      unfold node_good. split_and!; auto.
      * intros k' d' Hd'. destruct (F' k' d' Hd') as [o Ho']. exists o. apply in_or_app. by left.
      * intros k' v r Hk' Hr. apply log_reg_mono. eauto.
      * intros r Hr Hridr. destruct (Hlr r Hr) as [Hold|Hd]; [by apply H'|].
        destruct (Hnewreg r Hd) as [Hold|(Hfr1 & _)]; [by apply H'|].
        exfalso. rewrite Hfr1, A, A' in Hridr. lia.
  - (* log entries *)
    intros o k' d' Hin. apply in_app_or in Hin as [Hin|[Hin|[]]]; [by apply (G3 o k' d')|].
    injection Hin as <- <- <-. split; [by apply Hdwf|done].
Qed.

(* a delivery to node j of a delta from the log *)
Lemma cstep_deliver_ginv c log j k d o :
  GInv c log → In (o, k, d) log →
  (∀ n1, (cstep c log (CDeliver j k d)).1 !! j = Some n1 → sh_ovf (n_sh n1) = false) →
  GInv (cstep c log (CDeliver j k d)).1 (cstep c log (CDeliver j k d)).2.
Proof.
  intros (G1 & G2 & G3) Hin Hno. cbn [cstep] in *.
  destruct (c !! j) as [n|] eqn:Hj; [|by split_and!]. cbn [fst snd] in *.
  destruct (G2 j n Hj) as (A & B & C & D & E & F & G & H).
  destruct (G3 o k d Hin) as [Hdwf Hdpl].
  set (n1 := node_deliver n k d) in *.
  assert (Hn1 : ∃ x1 b1, n1 = Node x1 (step (n_sh n) (ERemote k d)).1 (hist_push (n_hist n) k d) b1).
  { unfold n1, node_deliver. destruct (step (n_sh n) (ERemote k d)) as [s1 od] eqn:Hs. cbn [fst].
    destruct (sh_keys s1 !! k); [destruct (materialise _ _ _); eauto|eauto]. }
  destruct Hn1 as (x1 & b1 & Hn1).
  destruct (step (n_sh n) (ERemote k d)) as [s1 od] eqn:Hstep. cbn [fst] in Hn1.
  assert (Ho : sh_ovf s1 = false).
  { specialize (Hno n1). rewrite list_lookup_insert in Hno by (by eapply lookup_lt_Some).
    specialize (Hno eq_refl). by rewrite Hn1 in Hno. }
  assert (Hwf : wf_event (ERemote k d)) by exact Hdwf.
  destruct (step_ok _ _ _ _ Hstep C Hwf Ho) as (C1 & _ & Hmono & Hrid & _ & _).
  destruct (step_wf _ _ _ _ Hstep C D Hwf Ho) as (D1 & _).
  assert (Hmerged : sh_keys s1 !! k = Some (match sh_keys (n_sh n) !! k with Some l => rv_merge l d | None => d end)).
  { cbn [step] in Hstep. injection Hstep as <- _. unfold put, set_keys; simpl. rewrite lookup_insert.
    do 2 f_equal. unfold clock_update. destruct (_ =? _); done. }
  split_and!; auto.
  intros i n' Hi. destruct (decide (i = j)) as [->|Hne].
  - rewrite list_lookup_insert in Hi by (by eapply lookup_lt_Some). injection Hi as <-.
    rewrite Hn1. unfold node_good. cbn [n_sh]. split_and!; auto; try congruence.
    + by rewrite (step_causal _ _ _ _ Hstep).
    + intros k' v Hk'. destruct (decide (k' = k)) as [->|Hnk].
      * rewrite Hmerged in Hk'. injection Hk' as <-. destruct (sh_keys (n_sh n) !! k) as [l|] eqn:Hl; [|done].
        apply rv_merge_plain; [by apply (E k)|done].
      * rewrite (step_other_keys _ _ _ _ k' Hstep) in Hk' by done. by apply (E k').
    + intros k' d' Hd'. rewrite hist_of_push in Hd'. destruct (decide (k = k')) as [<-|Hnk].
      * apply in_app_or in Hd' as [Hd'|[<-|[]]]; [by apply F|eauto].
      * by apply F.
    + intros k' v r Hk' Hr. destruct (decide (k' = k)) as [->|Hnk].
      * rewrite Hmerged in Hk'. injection Hk' as <-. destruct (sh_keys (n_sh n) !! k) as [l|] eqn:Hl.
        -- apply reg_in_merge in Hr as [Hr|Hr]; [by apply (G k l)|]. exists o, k, d. done.
        -- exists o, k, d. done.
      * rewrite (step_other_keys _ _ _ _ k' Hstep) in Hk' by done. by apply (G k' v).
    + intros r Hr Hridr. rewrite Hrid in Hridr. specialize (H r Hr Hridr). lia.
  - rewrite list_lookup_insert_ne in Hi by done. by apply G2.
Qed.

(* ---------- runs ---------- *)
Definition no_ovf (c : list node) : Prop := ∀ i n, c !! i = Some n → sh_ovf (n_sh n) = false.

Fixpoint deliveries_from_log (c : list node) (log : list (nat * list N * rvalue)) (evs : list cev) : Prop :=
  match evs with
  | [] => True
  | e :: r =>
      match e with
      | CClient _ _ => True
      | CDeliver _ k d => ∃ o, In (o, k, d) log
      end ∧ deliveries_from_log (cstep c log e).1 (cstep c log e).2 r
  end.

Lemma GInv_init n : GInv (cluster_init n) [].
Proof.
  split_and!.
  - intros r r' (o & k & d & [] & _).
  - intros i n0 Hi. unfold cluster_init in Hi. rewrite list_lookup_fmap in Hi.
    destruct (seq 0 n !! i) as [m|] eqn:Hs; simpl in Hi; [|done]. injection Hi as <-.
    apply lookup_seq in Hs as [-> _]. unfold node_good, node_init, shard_init, hist_of; simpl.
    split_and!; auto.
    + apply Inv_init.
    + apply WfInv_init.
    + intros k v H. by rewrite lookup_empty in H.
    + intros k d. rewrite lookup_empty. simpl. intros [].
    + intros k v r H. by rewrite lookup_empty in H.
    + intros r (o & k & d & [] & _).
  - intros o k d [].
Qed.

Lemma crun_ginv evs : ∀ c log,
  GInv c log → deliveries_from_log c log evs → no_ovf (crun c log evs).1 →
  GInv (crun c log evs).1 (crun c log evs).2.
Proof.
  induction evs as [|e evs IH]; intros c log HG Hv Hno; simpl in *; [done|].
  destruct Hv as [He Hv].
  destruct (cstep c log e) as [c1 l1] eqn:Hs. cbn [fst snd] in *.
  apply IH; [|done|done].
  (* intermediate nodes did not overflow, since the final ones did not *)
  assert (Hno1 : ∀ i n1, c1 !! i = Some n1 → sh_ovf (n_sh n1) = false).
  { intros i n1 Hi. destruct (crun c1 l1 evs) as [cf lf] eqn:Hr.
    destruct (crun_le _ _ _ _ _ _ _ Hr Hi) as (nf & Hf & [_ Hov]).
    apply not_ovf_before. intros Ex. specialize (Hno i nf Hf). simpl in Hno. rewrite (Hov Ex) in Hno. discriminate. }
  destruct e as [j cmd|j k d].
  - pose proof (cstep_client_ginv c log j cmd HG) as H. rewrite Hs in H. cbn [fst snd] in H. apply H.
    intros n1 Hi. by apply (Hno1 j).
  - destruct He as [o Ho]. pose proof (cstep_deliver_ginv c log j k d o HG Ho) as H. rewrite Hs in H. cbn [fst snd] in H.
    apply H. intros n1 Hi. by apply (Hno1 j).
Qed.

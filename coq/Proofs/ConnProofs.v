(* Lemmas about Model/Conn.v: the GET/SET recognisers accept exactly frames the generic decoder
   accepts, with the same content and length; the handler with fast path and batching answers
   every read exactly like a handler that only uses the generic decoder; consequently its output
   does not depend on how the stream is cut into reads, on the pipeline depth or on the batching
   configuration. *)
From Coq Require Import String Ascii NArith ZArith List Bool Lia Arith.
From RV Require Import Lib.Hex Model.Resp Proofs.RespProofs Model.Conn.
Import ListNotations.

(* ------------------------------------------------------------------ bytes *)
Lemma bytes_eqb_true a b : bytes_eqb a b = true -> a = b.
Proof.
  revert b. induction a as [|x a IH]; intros [|y b] H; try discriminate; [reflexivity|].
  cbn in H. apply andb_prop in H. destruct H as [H1 H2].
  apply N.eqb_eq in H1. subst. f_equal. now apply IH.
Qed.

Lemma starts_with_split p b : starts_with p b = true -> b = p ++ skipn (length p) b.
Proof.
  unfold starts_with. intros H. apply bytes_eqb_true in H.
  rewrite <- H at 1. symmetry. apply firstn_skipn.
Qed.

(* ------------------------------------------------------------------ memchr *)
Lemma memchr_split c t p : memchr c t = Some p ->
  t = firstn p t ++ c :: skipn (S p) t /\ Forall (fun x => x <> c) (firstn p t) /\ p < length t.
Proof.
  revert p. induction t as [|x t IH]; intros p H; [discriminate|].
  cbn [memchr] in H. destruct (x =? c)%N eqn:E.
  - inversion H; subst p. apply N.eqb_eq in E. subst x. cbn. repeat split; [constructor|lia].
  - destruct (memchr c t) as [q|] eqn:Eq; [|discriminate]. inversion H; subst p.
    destruct (IH q eq_refl) as (H1 & H2 & H3).
    change (firstn (S q) (x :: t)) with (x :: firstn q t).
    change (skipn (S (S q)) (x :: t)) with (skipn (S q) t). cbn [app length]. repeat split.
    + f_equal. exact H1.
    + constructor; [now apply N.eqb_neq|exact H2].
    + lia.
Qed.

Lemma memchr_none c t : memchr c t = None -> Forall (fun x => x <> c) t.
Proof.
  induction t as [|x t IH]; intros H; [constructor|].
  cbn [memchr] in H. destruct (x =? c)%N eqn:E; [discriminate|].
  destruct (memchr c t); [discriminate|]. constructor; [now apply N.eqb_neq|auto].
Qed.

Lemma find_crlf_no_cr b : Forall (fun x => x <> 13%N) b -> find_crlf b = None.
Proof.
  induction 1 as [|x t Hx Ht IH]; [reflexivity|].
  destruct t as [|y t']; [reflexivity|]. rewrite find_crlf_cons2.
  replace (x =? 13)%N with false by (symmetry; now apply N.eqb_neq). cbn [andb]. now rewrite IH.
Qed.

Lemma find_crlf_cr_last s : Forall (fun x => x <> 13%N) s -> find_crlf (s ++ [13%N]) = None.
Proof.
  induction 1 as [|x t Hx Ht IH]; [reflexivity|].
  cbn [app]. destruct (t ++ [13%N]) as [|y r] eqn:E; [reflexivity|].
  rewrite find_crlf_cons2. replace (x =? 13)%N with false by (symmetry; now apply N.eqb_neq).
  cbn [andb]. now rewrite IH.
Qed.

Lemma nth_error_skipn {A} (l : list A) n : nth_error l n = hd_error (skipn n l).
Proof.
  revert n. induction l as [|x l IH]; intros [|n]; try reflexivity. cbn. apply IH.
Qed.

(* ------------------------------------------------------------------ length lines *)
Lemma parse_usize_i64 s n : parse_usize s = Some n -> (n < I64_LIM)%N -> parse_i64 s = Some (Z.of_N n).
Proof.
  unfold parse_usize, parse_i64. destruct s as [|c t]; [discriminate|].
  destruct (c =? 43)%N eqn:E43.
  - apply N.eqb_eq in E43. subst c. cbn [N.eqb Pos.eqb orb].
    destruct t as [|d t']; [discriminate|].
    destruct (digits_val (d :: t') 0) as [m|]; [|discriminate].
    destruct (m <? USIZE_LIM_N)%N; [|discriminate]. intros H Hn. inversion H; subst m.
    replace (n <? I64_LIM)%N with true by (symmetry; now apply N.ltb_lt). reflexivity.
  - destruct (c =? 45)%N eqn:E45.
    + apply N.eqb_eq in E45. subst c. cbn [digits_val is_digit N.leb N.compare Pos.compare Pos.compare_cont andb].
      discriminate.
    + cbn [orb].
      destruct (digits_val (c :: t) 0) as [m|]; [|discriminate].
      destruct (m <? USIZE_LIM_N)%N; [|discriminate]. intros H Hn. inversion H; subst m.
      replace (n <? I64_LIM)%N with true by (symmetry; now apply N.ltb_lt). reflexivity.
Qed.

Lemma parse_bulk_len_fast_i64 s n : parse_bulk_len_fast s = Some n ->
  parse_i64 s = Some (Z.of_N n) /\ (n < I64_LIM)%N.
Proof.
  unfold parse_bulk_len_fast. destruct (parse_usize s) as [m|] eqn:E; [|discriminate].
  destruct (m <? I64_LIM)%N eqn:El; [|discriminate]. intros H; inversion H; subst m.
  apply N.ltb_lt in El. split; [now apply parse_usize_i64|exact El].
Qed.

(* a bulk string whose length line is any text parse_i64 reads as the payload length *)
Lemma parse_bulk_shape ds rest n :
  Forall (fun c => c <> 13%N) ds -> parse_i64 ds = Some (Z.of_nat n) ->
  n + 2 <= length rest -> size_ok (36%N :: ds ++ 13%N :: 10%N :: rest) ->
  fst (parse_bulk (36%N :: ds ++ 13%N :: 10%N :: rest)) = Done (RBulk (firstn n rest)) (length ds + 3 + n + 2).
Proof.
  intros Hds Hp Hl Hs. unfold parse_bulk. cbv zeta.
  destruct (header_line 36%N ds rest ltac:(discriminate) Hds) as [-> ->].
  rewrite Hp.
  assert (Hlen : length (36%N :: ds ++ 13%N :: 10%N :: rest) = S (length ds) + 2 + length rest).
  { cbn [length]. rewrite app_length. cbn [length]. lia. }
  unfold size_ok in Hs. rewrite Hlen in *.
  replace (Z.of_nat n =? -1)%Z with false by (symmetry; apply Z.eqb_neq; lia).
  replace (Z.of_nat n <? 0)%Z with false by (symmetry; apply Z.ltb_ge; lia).
  replace (USIZE_LIM <=? Z.of_nat (S (length ds) + 2) + Z.of_nat n)%Z with false
    by (symmetry; apply Z.leb_gt; unfold USIZE_LIM; lia).
  replace (USIZE_LIM <=? Z.of_nat (S (length ds) + 2) + Z.of_nat n + 2)%Z with false
    by (symmetry; apply Z.leb_gt; unfold USIZE_LIM; lia).
  replace (Z.of_nat (S (length ds) + 2 + length rest) <? Z.of_nat (S (length ds) + 2) + Z.of_nat n + 2)%Z
    with false by (symmetry; apply Z.ltb_ge; lia).
  rewrite Nat2Z.id.
  rewrite slice_ok; [|lia|rewrite Hlen; lia].
  assert (Hsk : skipn (S (length ds) + 2) (36%N :: ds ++ 13%N :: 10%N :: rest) = rest).
  { replace (36%N :: ds ++ 13%N :: 10%N :: rest) with ((36%N :: ds ++ [13%N; 10%N]) ++ rest)
      by (cbn [app]; rewrite <- app_assoc; reflexivity).
    rewrite skipn_app.
    replace (S (length ds) + 2) with (length (36%N :: ds ++ [13%N; 10%N]))
      by (cbn [length]; rewrite app_length; cbn [length]; lia).
    rewrite skipn_all, Nat.sub_diag. reflexivity. }
  rewrite Hsk. replace (S (length ds) + 2 + n - (S (length ds) + 2)) with n by lia.
  cbn [fst]. f_equal. lia.
Qed.

Lemma scan_bulk_ok base a key used : size_ok a -> scan_bulk base a = SOk key used ->
  fst (parse_bulk a) = Done (RBulk key) used /\ hd_error a = Some 36%N.
Proof.
  intros Hs. unfold scan_bulk. destruct a as [|c t]; [discriminate|].
  destruct (c =? 36)%N eqn:Ec; cbn [negb]; [|discriminate]. apply N.eqb_eq in Ec. subst c.
  destruct (memchr 13 t) as [p|] eqn:Em; [|discriminate].
  destruct (nth_error t (S p)) as [lf|] eqn:En; [|discriminate].
  destruct (lf =? 10)%N eqn:El; cbn [negb]; [|discriminate]. apply N.eqb_eq in El. subst lf.
  destruct (parse_bulk_len_fast (firstn p t)) as [n|] eqn:Ep; [|discriminate].
  cbv zeta.
  destruct (USIZE_LIM_N <=? N.of_nat (base + (p + 3)) + n + 2)%N; [discriminate|].
  destruct (N.of_nat (length (36%N :: t)) <? N.of_nat (p + 3) + n + 2)%N eqn:Ec2; [discriminate|].
  intros H. inversion H; subst key used. clear H. split; [|reflexivity].
  apply N.ltb_ge in Ec2.
  destruct (memchr_split _ _ _ Em) as (Ht & Hno & Hlt).
  (* the byte after the CR is LF *)
  assert (Hrest : exists rest, skipn (S p) t = 10%N :: rest).
  { rewrite nth_error_skipn in En. destruct (skipn (S p) t) as [|y r]; [discriminate|].
    cbn in En. inversion En. eauto. }
  destruct Hrest as [rest Hr]. rewrite Hr in Ht.
  set (ds := firstn p t) in *.
  assert (Hdl : length ds = p) by (unfold ds; rewrite firstn_length; lia).
  destruct (parse_bulk_len_fast_i64 _ _ Ep) as [Hi Hn].
  assert (Ha : 36%N :: t = 36%N :: ds ++ 13%N :: 10%N :: rest) by (f_equal; exact Ht).
  assert (Hlen : length (36%N :: t) = p + 3 + length rest).
  { rewrite Ha. cbn [length]. rewrite app_length. cbn [length]. lia. }
  rewrite Hlen in Ec2.
  assert (Hsk : skipn (p + 3) (36%N :: t) = rest).
  { rewrite Ha. replace (36%N :: ds ++ 13%N :: 10%N :: rest) with ((36%N :: ds ++ [13%N; 10%N]) ++ rest)
      by (cbn [app]; rewrite <- app_assoc; reflexivity).
    rewrite skipn_app.
    replace (p + 3) with (length (36%N :: ds ++ [13%N; 10%N]))
      by (cbn [length]; rewrite app_length; cbn [length]; lia).
    rewrite skipn_all, Nat.sub_diag. reflexivity. }
  rewrite Hsk. rewrite Ha.
  rewrite (parse_bulk_shape ds rest (N.to_nat n)).
  - f_equal. lia.
  - exact Hno.
  - rewrite Hi. f_equal. lia.
  - lia.
  - rewrite <- Ha. exact Hs.
Qed.

Lemma scan_bulk_need base a : size_ok a -> scan_bulk base a = SNeed ->
  a = [] \/ (fst (parse_bulk a) = Incomplete /\ hd_error a = Some 36%N).
Proof.
  intros Hs. unfold scan_bulk. destruct a as [|c t]; [now left|]. right.
  destruct (c =? 36)%N eqn:Ec; cbn [negb]; [|discriminate]. apply N.eqb_eq in Ec. subst c.
  split; [|reflexivity]. revert H.
  destruct (memchr 13 t) as [p|] eqn:Em.
  2:{ intros _. unfold parse_bulk.
      rewrite find_crlf_no_cr; [reflexivity|]. constructor; [discriminate|]. now apply memchr_none. }
  destruct (memchr_split _ _ _ Em) as (Ht & Hno & Hlt).
  destruct (nth_error t (S p)) as [lf|] eqn:En.
  2:{ intros _. unfold parse_bulk.
      assert (Hsk : skipn (S p) t = []).
      { apply nth_error_None in En. apply skipn_all2. lia. }
      rewrite Hsk in Ht. rewrite Ht.
      change (36%N :: firstn p t ++ [13%N]) with ((36%N :: firstn p t) ++ [13%N]).
      rewrite find_crlf_cr_last; [reflexivity|]. constructor; [discriminate|exact Hno]. }
  destruct (lf =? 10)%N eqn:El; cbn [negb]; [|discriminate]. apply N.eqb_eq in El. subst lf.
  destruct (parse_bulk_len_fast (firstn p t)) as [n|] eqn:Ep; [|discriminate].
  cbv zeta.
  destruct (USIZE_LIM_N <=? N.of_nat (base + (p + 3)) + n + 2)%N eqn:Eo; [discriminate|].
  destruct (N.of_nat (length (36%N :: t)) <? N.of_nat (p + 3) + n + 2)%N eqn:Ec2; [|discriminate].
  intros _. apply N.ltb_lt in Ec2. apply N.leb_gt in Eo.
  assert (Hrest : exists rest, skipn (S p) t = 10%N :: rest).
  { rewrite nth_error_skipn in En. destruct (skipn (S p) t) as [|y r]; [discriminate|].
    cbn in En. inversion En. eauto. }
  destruct Hrest as [rest Hr]. rewrite Hr in Ht.
  set (ds := firstn p t) in *.
  assert (Hdl : length ds = p) by (unfold ds; rewrite firstn_length; lia).
  destruct (parse_bulk_len_fast_i64 _ _ Ep) as [Hi Hn].
  assert (Ha : 36%N :: t = 36%N :: ds ++ 13%N :: 10%N :: rest) by (f_equal; exact Ht).
  assert (Hlen : length (36%N :: t) = p + 3 + length rest).
  { rewrite Ha. cbn [length]. rewrite app_length. cbn [length]. lia. }
  rewrite Hlen in Ec2. rewrite Ha. unfold parse_bulk. cbv zeta.
  destruct (header_line 36%N ds rest ltac:(discriminate) Hno) as [-> ->].
  rewrite Hi.
  assert (Hlen2 : length (36%N :: ds ++ 13%N :: 10%N :: rest) = p + 3 + length rest) by (rewrite <- Ha; exact Hlen).
  rewrite Hlen2. unfold I64_LIM, USIZE_LIM_N in *.
  replace (Z.of_N n =? -1)%Z with false by (symmetry; apply Z.eqb_neq; lia).
  replace (Z.of_N n <? 0)%Z with false by (symmetry; apply Z.ltb_ge; lia).
  replace (USIZE_LIM <=? Z.of_nat (S (length ds) + 2) + Z.of_N n)%Z with false
    by (symmetry; apply Z.leb_gt; unfold USIZE_LIM; lia).
  replace (USIZE_LIM <=? Z.of_nat (S (length ds) + 2) + Z.of_N n + 2)%Z with false
    by (symmetry; apply Z.leb_gt; unfold USIZE_LIM; lia).
  replace (Z.of_nat (p + 3 + length rest) <? Z.of_nat (S (length ds) + 2) + Z.of_N n + 2)%Z
    with true by (symmetry; apply Z.ltb_lt; lia).
  reflexivity.
Qed.

(* ------------------------------------------------------------------ arrays with a known head *)
Lemma arr_loop_next rec lf input cnt off acc : (cnt =? 0)%N = false -> off < length input ->
  arr_loop true rec (S lf) input cnt off acc =
  let r := rec (skipn off input) in
  match fst r with
  | Done v c => tick (snd r) (arr_loop true rec lf input (cnt - 1) (off + c) (v :: acc))
  | _ => r
  end.
Proof.
  intros Hc Ho. rewrite arr_loop_S by exact Hc.
  replace (length input <=? off) with false by (symmetry; apply Nat.leb_gt; lia).
  replace (length input <? off) with false by (symmetry; apply Nat.ltb_ge; lia).
  reflexivity.
Qed.

Lemma arr_loop_end rec lf input cnt off acc : (cnt =? 0)%N = false -> length input <= off ->
  arr_loop true rec (S lf) input cnt off acc = (Incomplete, 0%N).
Proof.
  intros Hc Ho. rewrite arr_loop_S by exact Hc.
  replace (length input <=? off) with true by (symmetry; apply Nat.leb_le; lia). reflexivity.
Qed.

(* the outcome of an array of [cnt] elements whose header is "*<d>\r\n" (one digit d) *)
Lemma parse_arr_hdr d cnt rest :
  parse_i64 [d] = Some (Z.of_N cnt) -> d <> 13%N ->
  fst (parse_d true 32 (42%N :: d :: 13%N :: 10%N :: rest)) =
  fst (arr_loop true (parse_d true 31) (4 + length rest) (42%N :: d :: 13%N :: 10%N :: rest) cnt 4 []).
Proof.
  intros Hp Hd. rewrite parse_d_eq. cbn [N.eqb Pos.eqb]. unfold parse_array. cbv zeta.
  destruct (header_line 42%N [d] rest ltac:(discriminate) ltac:(repeat constructor; exact Hd)) as [H1 H2].
  cbn [app length] in H1, H2. rewrite H1, H2, Hp.
  assert (0 <= Z.of_N cnt)%Z by lia.
  replace (Z.of_N cnt =? -1)%Z with false by (symmetry; apply Z.eqb_neq; lia).
  replace (Z.of_N cnt <? 0)%Z with false by (symmetry; apply Z.ltb_ge; lia).
  cbn [length]. replace (S (S (S (S (length rest)))) <? 2 + 2) with false by (symmetry; apply Nat.ltb_ge; lia).
  rewrite fst_tick. rewrite N2Z.id. reflexivity.
Qed.

Definition on_done (o : outcome) (f : resp -> nat -> outcome) : outcome :=
  match o with Done v c => f v c | _ => o end.

(* "*2\r\n" ++ encode (RBulk nm) ++ a *)
Lemma parse_arr2 nm a e : e = encode (RBulk nm) ->
  size_ok ([42; 50; 13; 10]%N ++ e ++ a) ->
  fst (parse_d true 32 ([42; 50; 13; 10]%N ++ e ++ a)) =
  on_done (fst (parse_d true 31 a)) (fun v c => Done (RArr [RBulk nm; v]) (4 + length e + c)).
Proof.
  intros Hee Hs. change ([42; 50; 13; 10]%N ++ e ++ a) with (42%N :: 50%N :: 13%N :: 10%N :: e ++ a) in *.
  rewrite (parse_arr_hdr 50%N 2%N (e ++ a)) by (reflexivity || discriminate).
  set (b := 42%N :: 50%N :: 13%N :: 10%N :: e ++ a) in *.
  assert (Hlb : length b = 4 + length e + length a) by (unfold b; cbn [length]; rewrite app_length; lia).
  pose proof (encode_nonempty (RBulk nm)) as Hne. rewrite <- Hee in Hne.
  rewrite app_length.
  replace (4 + (length e + length a)) with (S (S (length e + length a + 2))) by lia.
  rewrite arr_loop_next by (reflexivity || lia). cbv zeta.
  assert (Hsk : skipn 4 b = e ++ a) by reflexivity.
  rewrite Hsk.
  assert (He : fst (parse_d true 31 (e ++ a)) = Done (RBulk nm) (length e)).
  { rewrite Hee. apply encode_decode_d; [reflexivity|]. rewrite <- Hee. unfold size_ok in *. rewrite <- Hsk, skipn_length. lia. }
  rewrite He. rewrite fst_tick.
  destruct a as [|x a'].
  - rewrite arr_loop_end by (reflexivity || (rewrite Hlb; cbn [length]; lia)).
    destruct nm; reflexivity.
  - rewrite arr_loop_next by (reflexivity || (rewrite Hlb; cbn [length]; lia)). cbv zeta.
    assert (Hsk2 : skipn (4 + length e) b = x :: a').
    { unfold b. change (42%N :: 50%N :: 13%N :: 10%N :: e ++ x :: a') with (([42; 50; 13; 10]%N ++ e) ++ x :: a').
      rewrite skipn_app. replace (4 + length e) with (length ([42; 50; 13; 10]%N ++ e)) by (rewrite app_length; reflexivity).
      rewrite skipn_all, Nat.sub_diag. reflexivity. }
    rewrite Hsk2.
    destruct (fst (parse_d true 31 (x :: a'))) as [v c| |k| |] eqn:E; cbn [on_done]; try exact E.
    rewrite fst_tick. rewrite arr_loop_zero by reflexivity. reflexivity.
Qed.

Lemma skipn_app_exact {A} (p r : list A) n : n = length p -> skipn n (p ++ r) = r.
Proof. intros ->. rewrite skipn_app, skipn_all, Nat.sub_diag. reflexivity. Qed.

Lemma skipn_plus {A} (l : list A) m n : skipn n (skipn m l) = skipn (m + n) l.
Proof.
  revert l. induction m as [|m IH]; intros l; [reflexivity|].
  destruct l as [|x l]; [now rewrite !skipn_nil|]. cbn [skipn Nat.add]. apply IH.
Qed.

Lemma parse_d_nil codec d : fst (parse_d codec d []) = Incomplete.
Proof. destruct d; reflexivity. Qed.

(* "*3\r\n" ++ encode (RBulk nm) ++ a *)
Lemma parse_arr3 nm a e : e = encode (RBulk nm) ->
  size_ok ([42; 51; 13; 10]%N ++ e ++ a) ->
  fst (parse_d true 32 ([42; 51; 13; 10]%N ++ e ++ a)) =
  on_done (fst (parse_d true 31 a)) (fun v c =>
    on_done (fst (parse_d true 31 (skipn c a))) (fun w c2 =>
      Done (RArr [RBulk nm; v; w]) (4 + length e + c + c2))).
Proof.
  intros Hee Hs. change ([42; 51; 13; 10]%N ++ e ++ a) with (42%N :: 51%N :: 13%N :: 10%N :: e ++ a) in *.
  rewrite (parse_arr_hdr 51%N 3%N (e ++ a)) by (reflexivity || discriminate).
  set (b := 42%N :: 51%N :: 13%N :: 10%N :: e ++ a) in *.
  assert (Hlb : length b = 4 + length e + length a) by (unfold b; cbn [length]; rewrite app_length; lia).
  pose proof (encode_nonempty (RBulk nm)) as Hne. rewrite <- Hee in Hne.
  rewrite app_length.
  replace (4 + (length e + length a)) with (S (S (S (length e + length a + 1)))) by lia.
  rewrite arr_loop_next by (reflexivity || lia). cbv zeta.
  assert (Hsk : skipn 4 b = e ++ a) by reflexivity.
  rewrite Hsk.
  assert (He : fst (parse_d true 31 (e ++ a)) = Done (RBulk nm) (length e)).
  { rewrite Hee. apply encode_decode_d; [reflexivity|]. rewrite <- Hee. unfold size_ok in *. rewrite <- Hsk, skipn_length. lia. }
  rewrite He. rewrite fst_tick.
  destruct a as [|x a'].
  - rewrite arr_loop_end by (reflexivity || (rewrite Hlb; cbn [length]; lia)).
    rewrite parse_d_nil. reflexivity.
  - rewrite arr_loop_next by (reflexivity || (rewrite Hlb; cbn [length]; lia)). cbv zeta.
    assert (Hsk2 : skipn (4 + length e) b = x :: a').
    { unfold b. change (42%N :: 51%N :: 13%N :: 10%N :: e ++ x :: a') with (([42; 51; 13; 10]%N ++ e) ++ x :: a').
      apply skipn_app_exact. rewrite app_length. reflexivity. }
    rewrite Hsk2.
    destruct (fst (parse_d true 31 (x :: a'))) as [v c| |k| |] eqn:E; cbn [on_done]; try exact E.
    rewrite fst_tick.
    pose proof (parse_d_bnd true 31 _ _ _ E) as Hb.
    assert (Hsk3 : skipn (4 + length e + c) b = skipn c (x :: a')).
    { rewrite <- Hsk2. rewrite skipn_plus. reflexivity. }
    destruct (Nat.eq_dec c (length (x :: a'))) as [Hc|Hc].
    + rewrite arr_loop_end by (reflexivity || (rewrite Hlb; lia)).
      rewrite Hc, skipn_all, parse_d_nil. reflexivity.
    + rewrite arr_loop_next by (reflexivity || (rewrite Hlb; lia)). cbv zeta.
      rewrite Hsk3.
      destruct (fst (parse_d true 31 (skipn c (x :: a')))) as [w c2| |k| |] eqn:E2; cbn [on_done]; try exact E2.
      rewrite fst_tick. rewrite arr_loop_zero by reflexivity. reflexivity.
Qed.

(* ------------------------------------------------------------------ the recognisers are sound *)
Lemma parse_d_dollar d a : hd_error a = Some 36%N -> parse_d true d a = parse_bulk a.
Proof. destruct a as [|c t]; [discriminate|]. intros H; inversion H; subst c. now rewrite parse_d_eq. Qed.

Lemma get_hdr_split b : is_get_hdr b = true ->
  exists nm, is_get_name nm /\ b = [42; 50; 13; 10]%N ++ encode (RBulk nm) ++ skipn HEADER_LEN b.
Proof.
  unfold is_get_hdr. intros H. apply orb_prop in H. destruct H as [H|H]; apply starts_with_split in H.
  - exists NAME_GET_U. split; [now left|]. exact H.
  - exists NAME_GET_L. split; [now right|]. exact H.
Qed.

Lemma set_hdr_split b : is_set_hdr b = true ->
  exists nm, is_set_name nm /\ b = [42; 51; 13; 10]%N ++ encode (RBulk nm) ++ skipn HEADER_LEN b.
Proof.
  unfold is_set_hdr. intros H. apply orb_prop in H. destruct H as [H|H]; apply starts_with_split in H.
  - exists NAME_SET_U. split; [now left|]. exact H.
  - exists NAME_SET_L. split; [now right|]. exact H.
Qed.

Lemma name_len9 nm : is_get_name nm \/ is_set_name nm -> length (encode (RBulk nm)) = 9.
Proof. intros [[->| ->]|[->| ->]]; reflexivity. Qed.

Section Recog.
  Variable utf8_ok : bytes -> bool.

  Lemma recog_get_sound b : size_ok b -> is_get_hdr b = true ->
    match recog_get utf8_ok b with
    | FGet key n => exists nm, is_get_name nm /\ parse true b = Done (RArr [RBulk nm; RBulk key]) n
                               /\ utf8_ok key = true
    | FNeed => parse true b = Incomplete
    | FSet _ _ _ => False
    | FNot => True
    end.
  Proof.
    intros Hs Hh. destruct (get_hdr_split b Hh) as (nm & Hnm & Hb).
    set (a := skipn HEADER_LEN b) in *.
    assert (Hsa : size_ok a) by (apply size_ok_skipn; exact Hs).
    assert (Hp : parse true b =
                 on_done (fst (parse_d true 31 a)) (fun v c => Done (RArr [RBulk nm; v]) (4 + 9 + c))).
    { unfold parse, Resp.run, MAX_DEPTH. rewrite Hb at 1.
      rewrite (parse_arr2 nm a (encode (RBulk nm)) eq_refl) by (rewrite <- Hb; exact Hs).
      rewrite name_len9 by (now left). reflexivity. }
    unfold recog_get. fold a.
    destruct (scan_bulk HEADER_LEN a) as [key used| |] eqn:E.
    - destruct (scan_bulk_ok _ _ _ _ Hsa E) as [H1 H2].
      destruct (utf8_ok key) eqn:Eu; [|exact I].
      exists nm. split; [exact Hnm|]. split; [|exact Eu].
      rewrite Hp, (parse_d_dollar _ _ H2), H1. reflexivity.
    - destruct (scan_bulk_need _ _ Hsa E) as [Hn|[H1 H2]].
      + rewrite Hp, Hn, parse_d_nil. reflexivity.
      + rewrite Hp, (parse_d_dollar _ _ H2), H1. reflexivity.
    - exact I.
  Qed.

  Lemma recog_set_sound b : size_ok b -> is_set_hdr b = true ->
    match recog_set utf8_ok b with
    | FSet key val n => exists nm, is_set_name nm /\
                          parse true b = Done (RArr [RBulk nm; RBulk key; RBulk val]) n /\ utf8_ok key = true
    | FNeed => parse true b = Incomplete
    | FGet _ _ => False
    | FNot => True
    end.
  Proof.
    intros Hs Hh. destruct (set_hdr_split b Hh) as (nm & Hnm & Hb).
    set (a := skipn HEADER_LEN b) in *.
    assert (Hsa : size_ok a) by (apply size_ok_skipn; exact Hs).
    assert (Hp : parse true b =
                 on_done (fst (parse_d true 31 a)) (fun v c =>
                   on_done (fst (parse_d true 31 (skipn c a))) (fun w c2 =>
                     Done (RArr [RBulk nm; v; w]) (4 + 9 + c + c2)))).
    { unfold parse, Resp.run, MAX_DEPTH. rewrite Hb at 1.
      rewrite (parse_arr3 nm a (encode (RBulk nm)) eq_refl) by (rewrite <- Hb; exact Hs).
      rewrite name_len9 by (now right). reflexivity. }
    unfold recog_set. fold a.
    destruct (scan_bulk HEADER_LEN a) as [key u1| |] eqn:E.
    - destruct (scan_bulk_ok _ _ _ _ Hsa E) as [H1 H2].
      assert (Hsk : skipn (HEADER_LEN + u1) b = skipn u1 a) by (unfold a; now rewrite skipn_plus).
      rewrite Hsk.
      assert (Hsa2 : size_ok (skipn u1 a)) by (apply size_ok_skipn; exact Hsa).
      destruct (scan_bulk (HEADER_LEN + u1) (skipn u1 a)) as [val u2| |] eqn:E2.
      + destruct (scan_bulk_ok _ _ _ _ Hsa2 E2) as [H3 H4].
        destruct (utf8_ok key) eqn:Eu; [|exact I].
        exists nm. split; [exact Hnm|]. split; [|exact Eu].
        rewrite Hp, (parse_d_dollar _ _ H2), H1. cbn [on_done].
        rewrite (parse_d_dollar _ _ H4), H3. reflexivity.
      + rewrite Hp, (parse_d_dollar _ _ H2), H1. cbn [on_done].
        destruct (scan_bulk_need _ _ Hsa2 E2) as [Hn|[H3 H4]].
        * rewrite Hn, parse_d_nil. reflexivity.
        * rewrite (parse_d_dollar _ _ H4), H3. reflexivity.
      + exact I.
    - destruct (scan_bulk_need _ _ Hsa E) as [Hn|[H1 H2]].
      + rewrite Hp, Hn, parse_d_nil. reflexivity.
      + rewrite Hp, (parse_d_dollar _ _ H2), H1. reflexivity.
    - exact I.
  Qed.

  (* the fast path never disagrees with the generic decoder *)
  Lemma try_fast_path_sound b : size_ok b ->
    match try_fast_path utf8_ok b with
    | FGet key n => exists nm, is_get_name nm /\ parse true b = Done (RArr [RBulk nm; RBulk key]) n
                               /\ utf8_ok key = true
    | FSet key val n => exists nm, is_set_name nm /\
                          parse true b = Done (RArr [RBulk nm; RBulk key; RBulk val]) n /\ utf8_ok key = true
    | FNeed => parse true b = Incomplete
    | FNot => True
    end.
  Proof.
    intros Hs. unfold try_fast_path. destruct (length b <? 12); [exact I|].
    destruct (is_get_hdr b) eqn:Eg.
    - pose proof (recog_get_sound b Hs Eg) as H. destruct (recog_get utf8_ok b); auto. contradiction.
    - destruct (is_set_hdr b) eqn:Es; [|exact I].
      pose proof (recog_set_sound b Hs Es) as H. destruct (recog_set utf8_ok b); auto. contradiction.
  Qed.
End Recog.

(* ------------------------------------------------------------------ streams *)
Lemma decode_stream_done b v n : parse true b = Done v n ->
  decode_stream true b = (v :: fst (decode_stream true (skipn n b)), snd (decode_stream true (skipn n b))).
Proof.
  intros H. unfold decode_stream. cbn [decode_all]. rewrite H.
  apply parse_consumed_exact in H. destruct H as [H _].
  rewrite (decode_all_fuel true (length b) (S (length (skipn n b))) (skipn n b));
    [reflexivity| |]; rewrite skipn_length; lia.
Qed.

Lemma decode_stream_incomplete b : parse true b = Incomplete -> decode_stream true b = ([], TMore b).
Proof. intros H. unfold decode_stream. cbn [decode_all]. now rewrite H. Qed.

Lemma decode_stream_err b k : parse true b = Err k -> decode_stream true b = ([], TErr k).
Proof. intros H. unfold decode_stream. cbn [decode_all]. now rewrite H. Qed.

Lemma decode_all_tail_ok : forall f b, size_ok b ->
  length b < f ->
  match snd (decode_all true f b) with
  | TMore rest => parse true rest = Incomplete /\ length rest <= length b
  | TErr _ => True
  | _ => False
  end.
Proof.
  induction f as [|f IH]; intros b Hs Hl; [lia|]. cbn [decode_all].
  destruct (parse true b) as [v n| |k| |] eqn:E; cbn [snd].
  - pose proof (parse_consumed_exact _ _ _ _ E) as [Hn _].
    specialize (IH (skipn n b) (size_ok_skipn _ _ Hs)). rewrite skipn_length in IH.
    specialize (IH ltac:(lia)).
    destruct (snd (decode_all true f (skipn n b))); auto. destruct IH. split; [assumption|lia].
  - split; [exact E|lia].
  - exact I.
  - exact (parse_no_panic true b Hs E).
  - exact (parse_no_oof true b E).
Qed.

Lemma decode_stream_tail_ok b : size_ok b ->
  match snd (decode_stream true b) with
  | TMore rest => parse true rest = Incomplete /\ length rest <= length b
  | TErr _ => True
  | _ => False
  end.
Proof. intros Hs. apply decode_all_tail_ok; [exact Hs|lia]. Qed.

Section Equiv.
  Variable utf8_ok : bytes -> bool.
  Variable St : Type.
  Variable cmd : Type.
  Variable decode_cmd : resp -> cmd + bytes.
  Variable exec : St -> cmd -> St * resp.
  Variable fast_get : St -> bytes -> St * resp.
  Variable fast_set : St -> bytes -> bytes -> St * resp.
  Variable batch_get : St -> list bytes -> St * list resp.
  Variable batch_set : St -> list (bytes * bytes) -> St * list resp.
  Variable kind : cmd -> ckind.
  Variable cmd_get : bytes -> cmd.
  Variable cmd_set : bytes -> bytes -> cmd.
  Variable stub_reply : cmd -> resp.

  Hypothesis BOK : backend_ok utf8_ok St cmd decode_cmd exec fast_get fast_set batch_get batch_set kind cmd_get cmd_set.

  Notation HF := (handle_frame St cmd decode_cmd exec kind cmd_get stub_reply).
  Notation core := (core St cmd).
  Notation conn := (conn St cmd).
  Notation DRAIN := (drain utf8_ok St cmd decode_cmd exec fast_get fast_set kind cmd_get stub_reply).
  Notation BATCH := (batch_phase utf8_ok St cmd batch_get batch_set).
  Notation ONREAD := (on_read utf8_ok St cmd decode_cmd exec fast_get fast_set batch_get batch_set kind cmd_get stub_reply).
  Notation REFREAD := (ref_read St cmd decode_cmd exec kind cmd_get stub_reply).

  Definition get_frame (nm key : bytes) : resp := RArr [RBulk nm; RBulk key].
  Definition set_frame (nm key val : bytes) : resp := RArr [RBulk nm; RBulk key; RBulk val].

  (* executing through the fast path = handing the frame to the command layer *)
  Lemma fast_get_eq_generic (c : core) nm key :
    in_tx _ (txs _ _ c) = false -> is_get_name nm -> utf8_ok key = true ->
    HF c (get_frame nm key) = do_fast_get St cmd fast_get c key.
  Proof.
    destruct BOK as (Hg & _ & Hkg & _ & Hfg & _).
    intros Ht Hn Hu. unfold handle_frame, get_frame. rewrite (Hg nm key Hn Hu).
    unfold dispatch, do_fast_get. rewrite Ht, Hkg, Hfg. reflexivity.
  Qed.

  Lemma fast_set_eq_generic (c : core) nm key val :
    in_tx _ (txs _ _ c) = false -> is_set_name nm -> utf8_ok key = true ->
    HF c (set_frame nm key val) = do_fast_set St cmd fast_set c key val.
  Proof.
    destruct BOK as (_ & Hs & _ & Hks & _ & Hfs & _).
    intros Ht Hn Hu. unfold handle_frame, set_frame. rewrite (Hs nm key val Hn Hu).
    unfold dispatch, do_fast_set. rewrite Ht, Hks, Hfs. reflexivity.
  Qed.

  (* what a handler that only uses the generic decoder does with a buffer *)
  Definition add_proto (c : core) : core :=
    mkCore _ _ (st _ _ c) (txs _ _ c) (outp _ _ c ++ [R_PROTO]).
  Definition dres_of (c : core) (r : list resp * stail) : dres St cmd :=
    match snd r with
    | TMore rest => DMore _ _ (fold_left HF (fst r) c) rest
    | TErr _ => DErr _ _ (add_proto (fold_left HF (fst r) c))
    | TPanic | TOutOfFuel => DPanic _ _
    end.

  Lemma drain_eq : forall f (c : core) b, size_ok b -> length b < f ->
    DRAIN f c b = dres_of c (decode_all true f b).
  Proof.
    induction f as [|f IH]; intros c b Hs Hl; [lia|].
    cbn [drain decode_all].
    assert (Hstep : forall v n c', parse true b = Done v n -> c' = HF c v ->
              DRAIN f c' (skipn n b) =
              dres_of c (let r := decode_all true f (skipn n b) in (v :: fst r, snd r))).
    { intros v n c' Hp ->. pose proof (parse_consumed_exact _ _ _ _ Hp) as [Hn _].
      rewrite IH; [|apply size_ok_skipn; exact Hs|rewrite skipn_length; lia].
      unfold dres_of. cbn [fst snd fold_left]. reflexivity. }
    destruct (in_tx cmd (txs St cmd c)) eqn:Et.
    - destruct (parse true b) as [v n| |k| |] eqn:E; try reflexivity.
      now apply Hstep.
    - pose proof (try_fast_path_sound utf8_ok b Hs) as Hfp.
      destruct (try_fast_path utf8_ok b) as [key n|key val n| |].
      + destruct Hfp as (nm & Hn & Hp & Hu). rewrite Hp.
        apply Hstep; [exact Hp|]. symmetry. now apply fast_get_eq_generic.
      + destruct Hfp as (nm & Hn & Hp & Hu). rewrite Hp.
        apply Hstep; [exact Hp|]. symmetry. now apply fast_set_eq_generic.
      + rewrite Hfp. reflexivity.
      + destruct (parse true b) as [v n| |k| |] eqn:E; try reflexivity.
        now apply Hstep.
  Qed.

  (* ---------------------------------------------------------------- the collectors *)
  Lemma seq_gets_fold : forall keys frames (c : core),
    in_tx _ (txs _ _ c) = false ->
    Forall2 (fun f k => exists nm, is_get_name nm /\ f = get_frame nm k /\ utf8_ok k = true) frames keys ->
    fold_left HF frames c =
    mkCore _ _ (fst (seq_gets St fast_get (st _ _ c) keys)) (txs _ _ c)
           (outp _ _ c ++ snd (seq_gets St fast_get (st _ _ c) keys)).
  Proof.
    induction keys as [|k keys IH]; intros frames c Ht H; inversion H as [|f0 k0 fr0 ks0 H2 H4]; subst.
    - cbn. rewrite app_nil_r. now destruct c.
    - destruct H2 as (nm & Hn & -> & Hu). cbn [fold_left seq_gets].
      rewrite (fast_get_eq_generic c nm k Ht Hn Hu). unfold do_fast_get.
      destruct (fast_get (st St cmd c) k) as [s1 r] eqn:E1.
      rewrite IH; [|exact Ht|exact H4]. cbn [st txs outp].
      destruct (seq_gets St fast_get s1 keys) as [s2 l]. cbn [fst snd]. now rewrite <- app_assoc.
  Qed.

  Lemma seq_sets_fold : forall pairs frames (c : core),
    in_tx _ (txs _ _ c) = false ->
    Forall2 (fun f p => exists nm, is_set_name nm /\ f = set_frame nm (fst p) (snd p) /\ utf8_ok (fst p) = true)
            frames pairs ->
    fold_left HF frames c =
    mkCore _ _ (fst (seq_sets St fast_set (st _ _ c) pairs)) (txs _ _ c)
           (outp _ _ c ++ snd (seq_sets St fast_set (st _ _ c) pairs)).
  Proof.
    induction pairs as [|[k v] pairs IH]; intros frames c Ht H; inversion H as [|f0 k0 fr0 ks0 H2 H4]; subst.
    - cbn. rewrite app_nil_r. now destruct c.
    - destruct H2 as (nm & Hn & -> & Hu). cbn [fst snd] in *. cbn [fold_left seq_sets].
      rewrite (fast_set_eq_generic c nm k v Ht Hn Hu). unfold do_fast_set.
      destruct (fast_set (st St cmd c) k v) as [s1 r] eqn:E1.
      rewrite IH; [|exact Ht|exact H4]. cbn [st txs outp].
      destruct (seq_sets St fast_set s1 pairs) as [s2 l]. cbn [fst snd]. now rewrite <- app_assoc.
  Qed.

  Lemma collect_gets_frames : forall fuel buf keys used, size_ok buf ->
    collect_gets utf8_ok fuel buf = (keys, used) ->
    exists frames,
      Forall2 (fun f k => exists nm, is_get_name nm /\ f = get_frame nm k /\ utf8_ok k = true) frames keys /\
      decode_stream true buf = (frames ++ fst (decode_stream true (skipn used buf)),
                                snd (decode_stream true (skipn used buf))).
  Proof.
    induction fuel as [|fuel IH]; intros buf keys used Hs H.
    - cbn in H. inversion H; subst. exists []. split; [constructor|]. cbn [skipn app].
      now destruct (decode_stream true buf).
    - cbn [collect_gets] in H.
      destruct ((length buf <? HEADER_LEN + 1) || negb (is_get_hdr buf)) eqn:Eg.
      { inversion H; subst. exists []. split; [constructor|]. cbn [skipn app].
        now destruct (decode_stream true buf). }
      apply orb_false_elim in Eg. destruct Eg as [_ Eg]. apply negb_false_iff in Eg.
      pose proof (recog_get_sound utf8_ok buf Hs Eg) as Hr.
      destruct (recog_get utf8_ok buf) as [key n| | |];
        try (inversion H; subst; exists []; split; [constructor|]; cbn [skipn app];
             now destruct (decode_stream true buf)).
      destruct Hr as (nm & Hn & Hp & Hu).
      destruct (collect_gets utf8_ok fuel (skipn n buf)) as [ks u] eqn:Ec. cbn [fst snd] in H.
      inversion H; subst keys used. clear H.
      destruct (IH _ _ _ (size_ok_skipn _ _ Hs) Ec) as (frames & HF2 & Hd).
      exists (get_frame nm key :: frames). split.
      + constructor; [exists nm; auto|exact HF2].
      + rewrite (decode_stream_done _ _ _ Hp). rewrite Hd. rewrite skipn_plus. reflexivity.
  Qed.

  Lemma collect_sets_frames : forall fuel buf pairs used, size_ok buf ->
    collect_sets utf8_ok fuel buf = (pairs, used) ->
    exists frames,
      Forall2 (fun f p => exists nm, is_set_name nm /\ f = set_frame nm (fst p) (snd p) /\ utf8_ok (fst p) = true)
              frames pairs /\
      decode_stream true buf = (frames ++ fst (decode_stream true (skipn used buf)),
                                snd (decode_stream true (skipn used buf))).
  Proof.
    induction fuel as [|fuel IH]; intros buf pairs used Hs H.
    - cbn in H. inversion H; subst. exists []. split; [constructor|]. cbn [skipn app].
      now destruct (decode_stream true buf).
    - cbn [collect_sets] in H.
      destruct ((length buf <? HEADER_LEN + 1) || negb (is_set_hdr buf)) eqn:Eg.
      { inversion H; subst. exists []. split; [constructor|]. cbn [skipn app].
        now destruct (decode_stream true buf). }
      apply orb_false_elim in Eg. destruct Eg as [_ Eg]. apply negb_false_iff in Eg.
      pose proof (recog_set_sound utf8_ok buf Hs Eg) as Hr.
      destruct (recog_set utf8_ok buf) as [| key val n | |];
        try (inversion H; subst; exists []; split; [constructor|]; cbn [skipn app];
             now destruct (decode_stream true buf)).
      destruct Hr as (nm & Hn & Hp & Hu).
      destruct (collect_sets utf8_ok fuel (skipn n buf)) as [ps u] eqn:Ec. cbn [fst snd] in H.
      inversion H; subst pairs used. clear H.
      destruct (IH _ _ _ (size_ok_skipn _ _ Hs) Ec) as (frames & HF2 & Hd).
      exists (set_frame nm key val :: frames). split.
      + constructor; [exists nm; auto|exact HF2].
      + rewrite (decode_stream_done _ _ _ Hp). rewrite Hd. rewrite skipn_plus. reflexivity.
  Qed.

  (* ---------------------------------------------------------------- one read *)
  Lemma dres_of_app (c : core) frames fs t :
    dres_of c (frames ++ fs, t) = dres_of (fold_left HF frames c) (fs, t).
  Proof. unfold dres_of. cbn [fst snd]. now rewrite fold_left_app. Qed.

  Lemma do_batch_get_fold (c : core) keys frames :
    in_tx _ (txs _ _ c) = false ->
    Forall2 (fun f k => exists nm, is_get_name nm /\ f = get_frame nm k /\ utf8_ok k = true) frames keys ->
    do_batch_get St cmd batch_get c keys = fold_left HF frames c.
  Proof.
    intros Ht H. rewrite (seq_gets_fold keys frames c Ht H).
    destruct BOK as (_ & _ & _ & _ & _ & _ & Hb & _).
    unfold do_batch_get. rewrite Hb. now destruct (seq_gets St fast_get (st St cmd c) keys).
  Qed.

  Lemma do_batch_set_fold (c : core) pairs frames :
    in_tx _ (txs _ _ c) = false ->
    Forall2 (fun f p => exists nm, is_set_name nm /\ f = set_frame nm (fst p) (snd p) /\ utf8_ok (fst p) = true)
            frames pairs ->
    do_batch_set St cmd batch_set c pairs = fold_left HF frames c.
  Proof.
    intros Ht H. rewrite (seq_sets_fold pairs frames c Ht H).
    destruct BOK as (_ & _ & _ & _ & _ & _ & _ & Hb).
    unfold do_batch_set. rewrite Hb. now destruct (seq_sets St fast_set (st St cmd c) pairs).
  Qed.

  Lemma fold_get_frames_tx : forall keys frames (c : core),
    in_tx _ (txs _ _ c) = false ->
    Forall2 (fun f k => exists nm, is_get_name nm /\ f = get_frame nm k /\ utf8_ok k = true) frames keys ->
    in_tx _ (txs _ _ (fold_left HF frames c)) = false.
  Proof.
    intros keys frames c Ht H. rewrite (seq_gets_fold keys frames c Ht H). exact Ht.
  Qed.

  (* the batching prologue followed by the sequential loop = the generic decoder on the whole buffer *)
  Lemma process_eq g (c : core) b : size_ok b ->
    (let '(c1, b1) := BATCH g c b in DRAIN (S (length b1)) c1 b1) = dres_of c (decode_stream true b).
  Proof.
    intros Hs.
    assert (Hplain : forall c' b', size_ok b' -> DRAIN (S (length b')) c' b' = dres_of c' (decode_stream true b')).
    { intros c' b' Hs'. apply drain_eq; [exact Hs'|lia]. }
    unfold batch_phase.
    destruct ((min_pipeline_buffer g <=? N.of_nat (length b))%N && negb (in_tx cmd (txs St cmd c))) eqn:Ec.
    2:{ now apply Hplain. }
    apply andb_prop in Ec. destruct Ec as [_ Ht]. apply negb_true_iff in Ht.
    destruct (collect_gets utf8_ok (S (length b)) b) as [keys used] eqn:Eg.
    destruct (collect_gets_frames _ _ _ _ Hs Eg) as (frames & HF2 & Hd).
    (* after the GET batch *)
    assert (Hmid : forall c1 b1, (c1, b1) =
                     (if (batch_threshold g <=? N.of_nat (length keys))%N
                      then (do_batch_get St cmd batch_get c keys, skipn used b) else (c, b)) ->
                   size_ok b1 /\ in_tx _ (txs _ _ c1) = false /\
                   dres_of c (decode_stream true b) = dres_of c1 (decode_stream true b1)).
    { intros c1 b1 H. destruct (batch_threshold g <=? N.of_nat (length keys))%N; inversion H; subst.
      - split; [apply size_ok_skipn; exact Hs|]. rewrite (do_batch_get_fold c keys frames Ht HF2).
        split; [now apply (fold_get_frames_tx keys)|].
        rewrite Hd. apply dres_of_app.
      - auto. }
    destruct (if (batch_threshold g <=? N.of_nat (length keys))%N
              then (do_batch_get St cmd batch_get c keys, skipn used b) else (c, b)) as [c1 b1] eqn:E1.
    destruct (Hmid c1 b1 eq_refl) as (Hs1 & Ht1 & Heq). rewrite Heq.
    destruct (min_pipeline_buffer g <=? N.of_nat (length b1))%N; [|now apply Hplain].
    destruct (collect_sets utf8_ok (S (length b1)) b1) as [pairs used2] eqn:Es.
    destruct (collect_sets_frames _ _ _ _ Hs1 Es) as (frames2 & HF3 & Hd2).
    destruct (batch_threshold g <=? N.of_nat (length pairs))%N; [|now apply Hplain].
    rewrite Hplain by (apply size_ok_skipn; exact Hs1).
    rewrite (do_batch_set_fold c1 pairs frames2 Ht1 HF3). rewrite Hd2. symmetry. apply dres_of_app.
  Qed.

  (* a read neither EOF nor over the buffer limit is answered exactly as by the generic-only handler *)
  Lemma on_read_eq_ref g (k : conn) chunk :
    chunk <> [] ->
    (N.of_nat (length (cbuf _ _ k)) + N.of_nat (length chunk) <= max_buffer_size g)%N ->
    size_ok (cbuf _ _ k ++ chunk) ->
    ONREAD g k chunk = REFREAD k chunk.
  Proof.
    intros Hne Hfit Hs. unfold on_read, ref_read. destruct (cstat St cmd k); try reflexivity.
    destruct chunk as [|x chunk]; [contradiction|].
    replace (max_buffer_size g <? N.of_nat (length (cbuf St cmd k)) + N.of_nat (length (x :: chunk)))%N
      with false by (symmetry; apply N.ltb_ge; exact Hfit).
    set (b := cbuf St cmd k ++ x :: chunk) in *.
    pose proof (process_eq g (ccore St cmd k) b Hs) as Hp.
    destruct (BATCH g (ccore St cmd k) b) as [c1 b1]. rewrite Hp.
    pose proof (decode_stream_tail_ok b Hs) as Ht.
    unfold dres_of. destruct (snd (decode_stream true b)); try contradiction; reflexivity.
  Qed.

  (* ---------------------------------------------------------------- many reads *)
  Lemma ref_read_buf_len (k : conn) chunk : size_ok (cbuf _ _ k ++ chunk) ->
    length (cbuf _ _ (REFREAD k chunk)) <= length (cbuf _ _ k ++ chunk).
  Proof.
    intros Hs. unfold ref_read. destruct (cstat St cmd k); try (rewrite app_length; lia).
    pose proof (decode_stream_tail_ok _ Hs) as Ht.
    destruct (snd (decode_stream true (cbuf St cmd k ++ chunk))); cbn [cbuf]; try contradiction; [lia|cbn; lia].
  Qed.

  Lemma fold_on_read_eq g : forall reads (k : conn),
    Forall (fun r => r <> []) reads ->
    (N.of_nat (length (cbuf _ _ k) + length (concat reads)) <= max_buffer_size g)%N ->
    size_ok (cbuf _ _ k ++ concat reads) ->
    fold_left (ONREAD g) reads k = fold_left REFREAD reads k.
  Proof.
    induction reads as [|chunk reads IH]; intros k Hne Hfit Hs; [reflexivity|].
    inversion Hne as [|x l Hc Hne']; subst. cbn [fold_left concat] in *.
    assert (Hs1 : size_ok (cbuf St cmd k ++ chunk)).
    { rewrite app_assoc in Hs. eapply size_ok_app_l; exact Hs. }
    rewrite on_read_eq_ref; [|exact Hc| |exact Hs1].
    2:{ rewrite app_length in Hfit. lia. }
    pose proof (ref_read_buf_len k chunk Hs1) as Hl. rewrite app_length in Hl.
    apply IH; [exact Hne'| |].
    - rewrite app_length in Hfit. lia.
    - unfold size_ok in *. rewrite !app_length in *. lia.
  Qed.

  (* the generic-only handler keeps, read after read, exactly what the generic decoder leaves of the
     bytes received so far, and has handed it exactly the frames decoded so far *)
  Definition tracks (c0 : core) (consumed : bytes) (k : conn) : Prop :=
    cstat _ _ k = Open /\
    snd (decode_stream true consumed) = TMore (cbuf _ _ k) /\
    ccore _ _ k = fold_left HF (fst (decode_stream true consumed)) c0.

  Lemma decode_stream_app consumed chunk rest : size_ok (consumed ++ chunk) ->
    snd (decode_stream true consumed) = TMore rest ->
    decode_stream true (consumed ++ chunk) =
    (fst (decode_stream true consumed) ++ fst (decode_stream true (rest ++ chunk)),
     snd (decode_stream true (rest ++ chunk))).
  Proof.
    intros Hs Ht. rewrite <- (feed_decode true consumed chunk Hs). unfold feed. now rewrite Ht.
  Qed.

  Lemma decode_stream_err_stable consumed x e : size_ok (consumed ++ x) ->
    snd (decode_stream true consumed) = TErr e ->
    decode_stream true (consumed ++ x) = decode_stream true consumed.
  Proof.
    intros Hs Ht. rewrite <- (feed_decode true consumed x Hs). unfold feed. now rewrite Ht.
  Qed.

  Lemma ref_read_tracks c0 consumed (k : conn) chunk :
    tracks c0 consumed k -> size_ok (consumed ++ chunk) ->
    let r := decode_stream true (consumed ++ chunk) in
    match snd r with
    | TMore rest => REFREAD k chunk = mkConn _ _ rest (fold_left HF (fst r) c0) Open
    | TErr _ => REFREAD k chunk = mkConn _ _ [] (add_proto (fold_left HF (fst r) c0)) Open
    | _ => False
    end.
  Proof.
    intros (Ho & Ht & Hc) Hs. cbv zeta.
    rewrite (decode_stream_app consumed chunk _ Hs Ht). cbn [fst snd].
    pose proof (decode_stream_tail_ok _ Hs) as Hok.
    rewrite (decode_stream_app consumed chunk _ Hs Ht) in Hok. cbn [snd] in Hok.
    unfold ref_read. rewrite Ho, Hc. rewrite fold_left_app.
    destruct (snd (decode_stream true (cbuf St cmd k ++ chunk))); try contradiction; reflexivity.
  Qed.

  Lemma tracks_init (s : St) : tracks (core_init _ _ s) [] (conn_init _ _ s).
  Proof. repeat split. Qed.

  Lemma fold_ref_wf c0 : forall reads consumed (k : conn) rest,
    tracks c0 consumed k -> size_ok (consumed ++ concat reads) ->
    snd (decode_stream true (consumed ++ concat reads)) = TMore rest ->
    fold_left REFREAD reads k =
    mkConn _ _ rest (fold_left HF (fst (decode_stream true (consumed ++ concat reads))) c0) Open.
  Proof.
    induction reads as [|chunk reads IH]; intros consumed k rest Htr Hs Hm.
    - cbn [concat fold_left] in *. rewrite app_nil_r in *. destruct Htr as (Ho & Ht & Hc).
      rewrite Hm in Ht. inversion Ht. destruct k; cbn in *; subst. reflexivity.
    - cbn [concat fold_left] in *. rewrite app_assoc in *.
      assert (Hs1 : size_ok (consumed ++ chunk)) by (eapply size_ok_app_l; exact Hs).
      pose proof (ref_read_tracks c0 consumed k chunk Htr Hs1) as Hr. cbv zeta in Hr.
      destruct (snd (decode_stream true (consumed ++ chunk))) as [rest1|e| |] eqn:E1; try contradiction.
      + rewrite Hr. apply IH; [|exact Hs|exact Hm]. repeat split; cbn; auto.
      + rewrite (decode_stream_err_stable _ _ _ Hs E1) in Hm. congruence.
  Qed.

  Definition output_of (k : conn) : list resp := outp _ _ (ccore _ _ k).

  Lemma fold_ref_malformed c0 : forall reads consumed (k : conn) e,
    tracks c0 consumed k -> size_ok (consumed ++ concat reads) ->
    snd (decode_stream true (consumed ++ concat reads)) = TErr e ->
    let fs := fst (decode_stream true (consumed ++ concat reads)) in
    exists j, j <= length reads /\
      fold_left REFREAD (firstn j reads) k = mkConn _ _ [] (add_proto (fold_left HF fs c0)) Open /\
      forall i, i < j -> exists m,
        output_of (fold_left REFREAD (firstn i reads) k) = outp _ _ (fold_left HF (firstn m fs) c0).
  Proof.
    induction reads as [|chunk reads IH]; intros consumed k e Htr Hs Hm; cbv zeta.
    - cbn [concat] in *. rewrite app_nil_r in *. destruct Htr as (_ & Ht & _). congruence.
    - cbn [concat] in *. rewrite app_assoc in *.
      assert (Hs1 : size_ok (consumed ++ chunk)) by (eapply size_ok_app_l; exact Hs).
      pose proof (ref_read_tracks c0 consumed k chunk Htr Hs1) as Hr. cbv zeta in Hr.
      assert (Hk : forall fs', fs' = fst (decode_stream true ((consumed ++ chunk) ++ concat reads)) ->
                   (exists x, fs' = fst (decode_stream true consumed) ++ x) ->
                   exists m, output_of k = outp _ _ (fold_left HF (firstn m fs') c0)).
      { intros fs' _ [x ->]. exists (length (fst (decode_stream true consumed))).
        rewrite firstn_app, Nat.sub_diag, firstn_all. cbn [firstn]. rewrite app_nil_r.
        destruct Htr as (_ & _ & Hc). unfold output_of. now rewrite Hc. }
      destruct Htr as (Ho & Ht & Hc).
      destruct (snd (decode_stream true (consumed ++ chunk))) as [rest1|e1| |] eqn:E1; try contradiction.
      + assert (Htr1 : tracks c0 (consumed ++ chunk) (REFREAD k chunk)).
        { rewrite Hr. repeat split; cbn; auto. }
        destruct (IH _ _ _ Htr1 Hs Hm) as (j & Hj & Hfin & Hpre). cbv zeta in Hfin, Hpre.
        exists (S j). split; [cbn [length]; lia|]. split; [exact Hfin|].
        intros [|i] Hi.
        * apply (Hk _ eq_refl).
          rewrite (decode_stream_app (consumed ++ chunk) (concat reads) _ Hs E1). cbn [fst].
          rewrite (decode_stream_app consumed chunk _ Hs1 Ht). cbn [fst].
          rewrite <- app_assoc. eauto.
        * apply Hpre. lia.
      + exists 1. split; [cbn [length]; lia|].
        rewrite (decode_stream_err_stable _ _ _ Hs E1). split.
        * cbn [firstn fold_left]. exact Hr.
        * intros i Hi. assert (i = 0) by lia. subst i.
          pose proof (Hk _ eq_refl) as Hk'. rewrite (decode_stream_err_stable _ _ _ Hs E1) in Hk'.
          apply Hk'. rewrite (decode_stream_app consumed chunk _ Hs1 Ht). cbn [fst]. eauto.
  Qed.

  (* any bytes at all: the task never dies and never sits on a frame the decoder can decide *)
  Lemma ref_read_alive (k : conn) chunk : size_ok (cbuf _ _ k ++ chunk) ->
    cstat _ _ k <> Dead -> parse true (cbuf _ _ k) = Incomplete ->
    cstat _ _ (REFREAD k chunk) <> Dead /\ parse true (cbuf _ _ (REFREAD k chunk)) = Incomplete.
  Proof.
    intros Hs Hd Hp. unfold ref_read. destruct (cstat St cmd k) eqn:Ek; try (split; [congruence|exact Hp]).
    pose proof (decode_stream_tail_ok _ Hs) as Ht.
    destruct (snd (decode_stream true (cbuf St cmd k ++ chunk))); try contradiction; cbn [cstat cbuf].
    - split; [discriminate|tauto].
    - split; [discriminate|reflexivity].
  Qed.

  Lemma fold_ref_alive : forall reads (k : conn), size_ok (cbuf _ _ k ++ concat reads) ->
    cstat _ _ k <> Dead -> parse true (cbuf _ _ k) = Incomplete ->
    cstat _ _ (fold_left REFREAD reads k) <> Dead /\
    parse true (cbuf _ _ (fold_left REFREAD reads k)) = Incomplete.
  Proof.
    induction reads as [|chunk reads IH]; intros k Hs Hd Hp; [auto|].
    cbn [fold_left concat] in *.
    assert (Hs1 : size_ok (cbuf St cmd k ++ chunk)).
    { rewrite app_assoc in Hs. eapply size_ok_app_l; exact Hs. }
    destruct (ref_read_alive k chunk Hs1 Hd Hp) as [Hd1 Hp1].
    apply IH; auto.
    pose proof (ref_read_buf_len k chunk Hs1) as Hl.
    unfold size_ok in *. rewrite !app_length in *. lia.
  Qed.

  (* every frame handed to the command layer is answered by exactly one reply *)
  Lemma handle_frame_one_reply (c : core) v : exists r, outp _ _ (HF c v) = outp _ _ c ++ [r].
  Proof.
    unfold handle_frame. destruct (decode_cmd v) as [cm|e]; [|eexists; reflexivity].
    unfold dispatch. destruct (in_tx cmd (txs St cmd c)).
    - destruct (kind cm); try (eexists; reflexivity).
      destruct (tx_err cmd (txs St cmd c)); [eexists; reflexivity|].
      destruct (watch_unchanged St cmd exec cmd_get (st St cmd c) (watched cmd (txs St cmd c))) as [s1 same].
      destruct same; [|eexists; reflexivity].
      destruct (run_queue St cmd exec s1 (queue cmd (txs St cmd c))). eexists; reflexivity.
    - destruct (kind cm); try (eexists; reflexivity).
      + destruct (snapshot St cmd exec cmd_get (st St cmd c) keys). eexists; reflexivity.
      + destruct (exec (st St cmd c) cm). eexists; reflexivity.
      + destruct (exec (st St cmd c) cm). eexists; reflexivity.
  Qed.

  Lemma fold_frames_length : forall fs (c : core),
    length (outp _ _ (fold_left HF fs c)) = length (outp _ _ c) + length fs.
  Proof.
    induction fs as [|v fs IH]; intros c; cbn [fold_left length]; [lia|].
    rewrite IH. destruct (handle_frame_one_reply c v) as [r ->]. rewrite app_length. cbn [length]. lia.
  Qed.

  Lemma fold_frames_prefix : forall fs (c : core) n,
    outp _ _ (fold_left HF (firstn n fs) c) = firstn (length (outp _ _ c) + n) (outp _ _ (fold_left HF fs c)).
  Proof.
    induction fs as [|v fs IH]; intros c n.
    - rewrite firstn_nil. cbn [fold_left]. rewrite firstn_all2; [reflexivity|lia].
    - destruct n as [|n].
      + cbn [firstn fold_left]. rewrite Nat.add_0_r.
        assert (Hpre : forall fs' (c' : core), exists x, outp _ _ (fold_left HF fs' c') = outp _ _ c' ++ x).
        { induction fs' as [|w fs' IH']; intros c'; [exists []; now rewrite app_nil_r|].
          cbn [fold_left]. destruct (IH' (HF c' w)) as [x ->].
          destruct (handle_frame_one_reply c' w) as [r ->]. rewrite <- app_assoc. eauto. }
        destruct (Hpre fs (HF c v)) as [x ->]. destruct (handle_frame_one_reply c v) as [r ->].
        rewrite <- app_assoc. now rewrite firstn_app, Nat.sub_diag, firstn_all, app_nil_r.
      + cbn [firstn fold_left]. rewrite IH.
        destruct (handle_frame_one_reply c v) as [r Hr]. rewrite Hr, app_length. cbn [length].
        f_equal. lia.
  Qed.

  (* ---------------------------------------------------------------- the theorems *)
  Notation RUN := (run utf8_ok St cmd decode_cmd exec fast_get fast_set batch_get batch_set kind cmd_get stub_reply).
  Notation REFERENCE := (reference St cmd decode_cmd exec kind cmd_get stub_reply).

  Definition reads_ok (g : cfg) (reads : list bytes) : Prop :=
    Forall (fun r => r <> []) reads /\
    (N.of_nat (length (concat reads)) <= max_buffer_size g)%N /\
    size_ok (concat reads).

  Lemma concat_firstn_len {A} (l : list (list A)) i : length (concat (firstn i l)) <= length (concat l).
  Proof.
    revert i. induction l as [|x l IH]; intros [|i]; cbn [firstn concat length]; try lia.
    rewrite !app_length. specialize (IH i). lia.
  Qed.

  Lemma reads_ok_firstn g reads i : reads_ok g reads -> reads_ok g (firstn i reads).
  Proof.
    intros (H1 & H2 & H3). pose proof (concat_firstn_len reads i) as Hl. repeat split.
    - clear H2 H3 Hl. revert i. induction H1 as [|x l Hx Hl IH]; intros [|i]; cbn [firstn]; constructor; auto.
    - lia.
    - unfold size_ok in *. lia.
  Qed.

  (* with fast path and batching = without, read by read, on ANY bytes *)
  Theorem handler_eq_generic_only g reads (s : St) : reads_ok g reads ->
    RUN g s reads = fold_left REFREAD reads (conn_init _ _ s).
  Proof.
    intros (H1 & H2 & H3). unfold run. apply fold_on_read_eq; cbn [cbuf conn_init app length]; auto.
  Qed.

  Theorem handler_eq_reference g reads (s : St) : reads_ok g reads ->
    wf_stream (concat reads) ->
    let k := RUN g s reads in
    output _ _ k = REFERENCE s (concat reads) /\
    cstat _ _ k = Open /\
    snd (decode_stream true (concat reads)) = TMore (cbuf _ _ k).
  Proof.
    intros Hok [rest Hr]. cbv zeta. rewrite (handler_eq_generic_only g reads s Hok).
    destruct Hok as (H1 & H2 & H3).
    rewrite (fold_ref_wf (core_init _ _ s) reads [] (conn_init _ _ s) rest (tracks_init s)); cbn [app]; auto.
  Qed.

  Corollary one_reply_per_command g reads (s : St) : reads_ok g reads ->
    wf_stream (concat reads) ->
    let k := RUN g s reads in
    let frames := fst (decode_stream true (concat reads)) in
    length (output _ _ k) = length frames /\
    forall n, firstn n (output _ _ k) = outp _ _ (fold_left HF (firstn n frames) (core_init _ _ s)).
  Proof.
    intros Hok Hwf. cbv zeta. destruct (handler_eq_reference g reads s Hok Hwf) as (Ho & _ & _).
    rewrite Ho. unfold reference, reference_core. split.
    - rewrite fold_frames_length. reflexivity.
    - intros n. rewrite fold_frames_prefix. reflexivity.
  Qed.

  Theorem malformed_gets_error g reads (s : St) e : reads_ok g reads ->
    snd (decode_stream true (concat reads)) = TErr e ->
    let frames := fst (decode_stream true (concat reads)) in
    exists j, j <= length reads /\
      (let k := RUN g s (firstn j reads) in
       output _ _ k = outp _ _ (fold_left HF frames (core_init _ _ s)) ++ [R_PROTO] /\
       cbuf _ _ k = [] /\ cstat _ _ k = Open) /\
      forall i, i < j ->
        cstat _ _ (RUN g s (firstn i reads)) <> Dead /\
        exists m, output _ _ (RUN g s (firstn i reads)) = firstn m (outp _ _ (fold_left HF frames (core_init _ _ s))).
  Proof.
    intros Hok He. cbv zeta.
    destruct Hok as (H1 & H2 & H3).
    destruct (fold_ref_malformed (core_init _ _ s) reads [] (conn_init _ _ s) e (tracks_init s) H3 He)
      as (j & Hj & Hfin & Hpre). cbv zeta in Hfin, Hpre. cbn [app] in *.
    exists j. split; [exact Hj|]. split.
    - rewrite (handler_eq_generic_only g _ s (reads_ok_firstn g reads j (conj H1 (conj H2 H3)))).
      rewrite Hfin. cbn. auto.
    - intros i Hi.
      rewrite (handler_eq_generic_only g _ s (reads_ok_firstn g reads i (conj H1 (conj H2 H3)))).
      split.
      + apply fold_ref_alive; cbn [cbuf conn_init app]; try discriminate; try reflexivity.
        pose proof (concat_firstn_len reads i). unfold size_ok in *. lia.
      + destruct (Hpre i Hi) as [m Hm]. unfold output_of in Hm. unfold output. rewrite Hm.
        exists m. rewrite fold_frames_prefix. reflexivity.
  Qed.

  Theorem never_dies_never_stalls g reads (s : St) : reads_ok g reads ->
    let k := RUN g s reads in
    cstat _ _ k <> Dead /\ parse true (cbuf _ _ k) = Incomplete.
  Proof.
    intros Hok. cbv zeta. rewrite (handler_eq_generic_only g reads s Hok).
    destruct Hok as (H1 & H2 & H3).
    apply fold_ref_alive; cbn [cbuf conn_init app]; try discriminate; auto.
  Qed.

  Theorem batching_config_irrelevant g1 g2 reads (s : St) : reads_ok g1 reads -> reads_ok g2 reads ->
    RUN g1 s reads = RUN g2 s reads.
  Proof.
    intros H1 H2. now rewrite (handler_eq_generic_only g1 reads s H1), (handler_eq_generic_only g2 reads s H2).
  Qed.

  (* whenever a recogniser accepts, the generic decoder accepts the same bytes as the same frame of
     the same length, and executing through the fast path is handing that frame to the command layer *)
  Theorem fast_path_eq_generic b (c : core) : size_ok b -> in_tx _ (txs _ _ c) = false ->
    match try_fast_path utf8_ok b with
    | FGet key n => exists nm, is_get_name nm /\ parse true b = Done (get_frame nm key) n /\
                               HF c (get_frame nm key) = do_fast_get St cmd fast_get c key
    | FSet key val n => exists nm, is_set_name nm /\ parse true b = Done (set_frame nm key val) n /\
                               HF c (set_frame nm key val) = do_fast_set St cmd fast_set c key val
    | FNeed => parse true b = Incomplete
    | FNot => True
    end.
  Proof.
    intros Hs Ht. pose proof (try_fast_path_sound utf8_ok b Hs) as H.
    destruct (try_fast_path utf8_ok b); auto.
    - destruct H as (nm & Hn & Hp & Hu). exists nm. repeat split; auto. now apply fast_get_eq_generic.
    - destruct H as (nm & Hn & Hp & Hu). exists nm. repeat split; auto. now apply fast_set_eq_generic.
  Qed.
End Equiv.

(* ------------------------------------------------------------------ replies on the wire *)
Lemma wire_decodes : forall rs x, Forall (fun r => wf_resp MAX_DEPTH r = true) rs ->
  size_ok (wire rs ++ x) ->
  decode_stream true (wire rs ++ x) = (rs ++ fst (decode_stream true x), snd (decode_stream true x)).
Proof.
  induction rs as [|r rs IH]; intros x Hwf Hs.
  - unfold wire. cbn [flat_map app]. now destruct (decode_stream true x).
  - inversion Hwf as [|r' rs' Hr Hrs]; subst. unfold wire in *. cbn [flat_map] in *. rewrite <- app_assoc in *.
    pose proof (encode_decode_app true r (flat_map encode rs ++ x) Hr Hs) as Hp.
    rewrite (decode_stream_done _ _ _ Hp). rewrite skipn_app_exact by reflexivity.
    rewrite IH; [reflexivity|exact Hrs|].
    unfold size_ok in *. rewrite !app_length in *. lia.
Qed.

Lemma sanitize_line_ok s : line_ok (sanitize s) = true.
Proof.
  unfold line_ok, sanitize. apply forallb_forall. intros c Hc. apply in_map_iff in Hc.
  destruct Hc as (x & <- & _).
  destruct (x =? 13)%N eqn:E1; [reflexivity|]. destruct (x =? 10)%N eqn:E2; [reflexivity|].
  cbn [orb]. now rewrite E1, E2.
Qed.

Section WireWf.
  Variable St : Type.
  Variable cmd : Type.
  Variable decode_cmd : resp -> cmd + bytes.
  Variable exec : St -> cmd -> St * resp.
  Variable kind : cmd -> ckind.
  Variable cmd_get : bytes -> cmd.
  Variable stub_reply : cmd -> resp.
  (* what the command layer answers is encodable: one line per status / error, bounded nesting *)
  Hypothesis exec_wf : forall s cm, wf_resp 31 (snd (exec s cm)) = true.
  Hypothesis stub_wf : forall cm, wf_resp 31 (stub_reply cm) = true.

  Notation HF := (handle_frame St cmd decode_cmd exec kind cmd_get stub_reply).

  Lemma wf_resp_mono : forall v d, wf_resp d v = true -> wf_resp (S d) v = true.
  Proof.
    induction v as [s|s|z| |s| |l IH] using resp_ind2; intros d H; try exact H.
    - destruct d; [discriminate|reflexivity].
    - destruct d as [|d]; [discriminate|]. cbn [wf_resp] in *. rewrite forallb_forall in *.
      intros x Hx. rewrite Forall_forall in IH. apply IH; auto.
  Qed.

  Lemma run_queue_wf : forall q s, forallb (wf_resp 31) (snd (run_queue St cmd exec s q)) = true.
  Proof.
    induction q as [|c q IH]; intros s; [reflexivity|]. cbn [run_queue].
    pose proof (exec_wf s c) as Hc. destruct (exec s c) as [s1 r]. cbn [snd] in Hc.
    specialize (IH s1). destruct (run_queue St cmd exec s1 q) as [s2 l]. cbn [snd forallb] in *.
    now rewrite Hc, IH.
  Qed.

  Lemma handle_frame_wf (c : core St cmd) v :
    Forall (fun r => wf_resp MAX_DEPTH r = true) (outp _ _ c) ->
    Forall (fun r => wf_resp MAX_DEPTH r = true) (outp _ _ (HF c v)).
  Proof.
    intros Hc.
    assert (Hadd : forall r, wf_resp MAX_DEPTH r = true ->
                   Forall (fun r => wf_resp MAX_DEPTH r = true) (outp _ _ c ++ [r])).
    { intros r Hr. apply Forall_app. split; [exact Hc|]. constructor; [exact Hr|constructor]. }
    unfold handle_frame. destruct (decode_cmd v) as [cm|e].
    2:{ cbn [outp]. apply Hadd. unfold err_into. cbn [wf_resp]. apply sanitize_line_ok. }
    unfold dispatch. destruct (in_tx cmd (txs St cmd c)).
    - destruct (kind cm); cbn [outp]; try (apply Hadd; reflexivity).
      + destruct (tx_err cmd (txs St cmd c)); cbn [outp]; [apply Hadd; reflexivity|].
        destruct (watch_unchanged St cmd exec cmd_get (st St cmd c) (watched cmd (txs St cmd c))) as [s1 same].
        destruct same; cbn [outp]; [|apply Hadd; reflexivity].
        pose proof (run_queue_wf (queue cmd (txs St cmd c)) s1) as Hq.
        destruct (run_queue St cmd exec s1 (queue cmd (txs St cmd c))) as [s2 rs]. cbn [outp snd] in *.
        apply Hadd. exact Hq.
      + apply Hadd. unfold R_UNKNOWN_IN_MULTI. cbn [wf_resp]. apply sanitize_line_ok.
    - destruct (kind cm); cbn [outp]; try (apply Hadd; reflexivity).
      + destruct (snapshot St cmd exec cmd_get (st St cmd c) keys). cbn [outp]. apply Hadd. reflexivity.
      + apply Hadd. apply wf_resp_mono. apply stub_wf.
      + apply Hadd. apply wf_resp_mono. apply stub_wf.
      + pose proof (exec_wf (st St cmd c) cm) as He. destruct (exec (st St cmd c) cm). cbn [outp snd] in *.
        apply Hadd. now apply wf_resp_mono.
      + pose proof (exec_wf (st St cmd c) cm) as He. destruct (exec (st St cmd c) cm). cbn [outp snd] in *.
        apply Hadd. now apply wf_resp_mono.
  Qed.

  Lemma fold_frames_wf : forall fs (c : core St cmd),
    Forall (fun r => wf_resp MAX_DEPTH r = true) (outp _ _ c) ->
    Forall (fun r => wf_resp MAX_DEPTH r = true) (outp _ _ (fold_left HF fs c)).
  Proof.
    induction fs as [|v fs IH]; intros c Hc; [exact Hc|]. cbn [fold_left]. apply IH. now apply handle_frame_wf.
  Qed.

  (* what the reference writes decodes back, reply by reply, into exactly the replies it wrote *)
  Theorem reference_wire_decodes (s : St) stream :
    let rs := reference St cmd decode_cmd exec kind cmd_get stub_reply s stream in
    size_ok (wire rs) -> decode_stream true (wire rs) = (rs, TMore []).
  Proof.
    cbv zeta. intros Hs. set (rs := reference St cmd decode_cmd exec kind cmd_get stub_reply s stream) in *.
    rewrite <- (app_nil_r (wire rs)). rewrite wire_decodes; [cbn; now rewrite app_nil_r| |now rewrite app_nil_r].
    unfold rs, reference, reference_core. apply fold_frames_wf. constructor.
  Qed.
End WireWf.

(* ------------------------------------------------------------------ the mini backend is an instance *)
From RV Require Import Model.MiniExec.

Lemma mbatch_get_seq : forall ks s, mbatch_get s ks = seq_gets _ mfast_get s ks.
Proof.
  induction ks as [|k ks IH]; intros s; [reflexivity|]. cbn [mbatch_get seq_gets].
  destruct (mfast_get s k) as [s1 r]. now rewrite IH.
Qed.
Lemma mbatch_set_seq : forall ps s, mbatch_set s ps = seq_sets _ mfast_set s ps.
Proof.
  induction ps as [|[k v] ps IH]; intros s; [reflexivity|]. cbn [mbatch_set seq_sets].
  destruct (mfast_set s k v) as [s1 r]. now rewrite IH.
Qed.

Lemma mini_backend_ok :
  backend_ok mutf8_ok mstate mcmd mdecode mexec mfast_get mfast_set mbatch_get mbatch_set
             mkind CGet CSet.
Proof.
  refine (conj _ (conj _ (conj _ (conj _ (conj _ (conj _ (conj _ _))))))).
  - intros nm k [-> | ->] _; reflexivity.
  - intros nm k v [-> | ->] _; reflexivity.
  - reflexivity.
  - reflexivity.
  - reflexivity.
  - reflexivity.
  - intros s ks. apply mbatch_get_seq.
  - intros s ps. apply mbatch_set_seq.
Qed.

Lemma nonvacuous_c04 :
  let stream := unhex "2a330d0a24330d0a5345540d0a24310d0a6b0d0a24310d0a760d0a2a320d0a24330d0a4745540d0a24310d0a6b0d0a2a310d0a24340d0a50494e470d0a2a320d0a24330d0a6765740d0a24310d0a6b0d0a" in
  let reads := [firstn 25 stream; firstn 40 (skipn 25 stream); skipn 65 stream] in
  let g := mk_cfg 1 1 1048576 in
  reads_ok g reads /\ concat reads = stream /\ wf_stream stream /\
  output _ _ (mrun g reads) = [RSimple (str "OK"); RBulk (str "v"); RSimple (str "PONG"); RBulk (str "v")] /\
  mreference stream = output _ _ (mrun g reads) /\
  (let bad := stream ++ unhex "2a320d0a24330d0a4745540d0a2431783b0d0a" in
   exists e, snd (decode_stream true bad) = TErr e /\
             output _ _ (mrun g [firstn 30 bad; skipn 30 bad]) = mreference stream ++ [R_PROTO]).
Proof.
  cbv zeta. split; [|split; [|split; [|split; [|split]]]].
  - unfold reads_ok. split; [|split].
    + repeat constructor; vm_compute; discriminate.
    + vm_compute. discriminate.
    + unfold size_ok. vm_compute. reflexivity.
  - vm_compute. reflexivity.
  - eexists. vm_compute. reflexivity.
  - vm_compute. reflexivity.
  - vm_compute. reflexivity.
  - eexists. split; vm_compute; reflexivity.
Qed.

(* ------------------------------------------------------------------ resp_values_equal is equality *)
Lemma bytes_eqb_spec a b : bytes_eqb a b = true <-> a = b.
Proof.
  split; [apply bytes_eqb_true|]. intros ->. induction b as [|x b IH]; [reflexivity|].
  cbn. now rewrite N.eqb_refl, IH.
Qed.

Lemma resp_eqb_spec : forall a b, resp_eqb a b = true <-> a = b.
Proof.
  induction a as [s|s|z| |s| |l IH] using resp_ind2; intros b; destruct b; cbn [resp_eqb];
    try (split; [discriminate|discriminate]); try (split; reflexivity).
  - rewrite bytes_eqb_spec. split; congruence.
  - rewrite bytes_eqb_spec. split; congruence.
  - rewrite Z.eqb_eq. split; congruence.
  - rewrite bytes_eqb_spec. split; congruence.
  - revert l0. induction IH as [|x l Hx Hl IHl]; intros [|y k].
    + split; reflexivity.
    + split; discriminate.
    + split; discriminate.
    + rewrite andb_true_iff, Hx, IHl. split.
      * intros [-> H]. inversion H. reflexivity.
      * intros H. inversion H. split; reflexivity.
Qed.

Lemma resp_eqb_false a b : resp_eqb a b = false <-> a <> b.
Proof.
  split.
  - intros H E. apply resp_eqb_spec in E. congruence.
  - intros H. destruct (resp_eqb a b) eqn:E; [|reflexivity]. apply resp_eqb_spec in E. contradiction.
Qed.

(* ------------------------------------------------------------------ transactions (C05) *)
Section Tx.
  Variable St : Type.
  Variable cmd : Type.
  Variable decode_cmd : resp -> cmd + bytes.
  Variable exec : St -> cmd -> St * resp.
  Variable kind : cmd -> ckind.
  Variable cmd_get : bytes -> cmd.
  Variable stub_reply : cmd -> resp.

  Notation HF := (handle_frame St cmd decode_cmd exec kind cmd_get stub_reply).
  Notation DISPATCH := (dispatch St cmd exec kind cmd_get stub_reply).
  Notation core := (core St cmd).
  Notation RQ := (run_queue St cmd exec).
  Notation GETR := (get_reply St cmd exec cmd_get).
  Notation STEP2 := (step2 St cmd decode_cmd exec kind cmd_get stub_reply).
  Notation RUN2 := (run2 St cmd decode_cmd exec kind cmd_get stub_reply).
  Notation ACMDS := (a_cmds cmd decode_cmd).

  (* Between MULTI and EXEC nothing a client sends (other than EXEC) touches the backend ... *)
  Lemma queued_no_effect (c : core) v : in_tx _ (txs _ _ c) = true ->
    (forall cm, decode_cmd v = inl cm -> kind cm <> KExec) ->
    st _ _ (HF c v) = st _ _ c.
  Proof.
    intros Ht Hne. unfold handle_frame. destruct (decode_cmd v) as [cm|e] eqn:E; [|reflexivity].
    specialize (Hne cm eq_refl). unfold dispatch. rewrite Ht.
    destruct (kind cm); try reflexivity. contradiction.
  Qed.

  (* ... and a queueable command is answered QUEUED and appended to the queue, nothing else *)
  Lemma queued_reply (c : core) cm : in_tx _ (txs _ _ c) = true -> queueable (kind cm) ->
    DISPATCH c cm =
    mkCore _ _ (st _ _ c)
           (mkTx _ true (queue _ (txs _ _ c) ++ [cm]) (tx_err _ (txs _ _ c)) (watched _ (txs _ _ c)))
           (outp _ _ c ++ [R_QUEUED]).
  Proof. intros Ht [H|[H|H]]; unfold dispatch; rewrite Ht, H; reflexivity. Qed.

  (* a queue-time error (command-parse error, unknown command, channel stub) only marks the
     transaction: the backend, the queue and the watch list are untouched *)
  Definition marked (c c' : core) : Prop :=
    st _ _ c' = st _ _ c /\ tx_err _ (txs _ _ c') = true /\ in_tx _ (txs _ _ c') = true /\
    queue _ (txs _ _ c') = queue _ (txs _ _ c) /\ watched _ (txs _ _ c') = watched _ (txs _ _ c) /\
    exists r, outp _ _ c' = outp _ _ c ++ [r] /\ r <> R_QUEUED.

  Lemma queue_time_parse_error (c : core) v e : in_tx _ (txs _ _ c) = true ->
    decode_cmd v = inr e -> marked c (HF c v).
  Proof.
    intros Ht E. unfold marked, handle_frame. rewrite E, Ht. cbn. repeat split.
    eexists; split; [reflexivity|]. unfold err_into. discriminate.
  Qed.

  Lemma queue_time_unknown (c : core) v cm : in_tx _ (txs _ _ c) = true ->
    decode_cmd v = inl cm -> (kind cm = KStubChan \/ exists n, kind cm = KUnknown n) -> marked c (HF c v).
  Proof.
    intros Ht E Hk. unfold marked, handle_frame. rewrite E. unfold dispatch. rewrite Ht.
    destruct Hk as [Hk|[n Hk]]; rewrite Hk; cbn; repeat split; eexists; split; try reflexivity; discriminate.
  Qed.

  Lemma run_queue_length : forall q s, length (snd (RQ s q)) = length q.
  Proof.
    induction q as [|c q IH]; intros s; [reflexivity|]. cbn [run_queue].
    destruct (exec s c) as [s1 r]. specialize (IH s1). destruct (RQ s1 q). cbn in *. now rewrite IH.
  Qed.

  (* consecutive, in order; the reply of one command (error or not) does not influence whether the
     later ones run *)
  Lemma run_queue_snoc : forall q s c,
    RQ s (q ++ [c]) =
    (fst (exec (fst (RQ s q)) c), snd (RQ s q) ++ [snd (exec (fst (RQ s q)) c)]).
  Proof.
    induction q as [|d q IH]; intros s c; cbn [run_queue app].
    - cbn [fst snd app]. destruct (exec s c). reflexivity.
    - destruct (exec s d) as [s1 r]. rewrite IH. destruct (RQ s1 q). cbn. reflexivity.
  Qed.

  (* the same commands sent one after the other outside a transaction (a twin connection) *)
  Lemma run_queue_eq_twin : forall q (c : core),
    in_tx _ (txs _ _ c) = false -> Forall (fun x => kind x = KPlain) q ->
    fold_left DISPATCH q c =
    mkCore _ _ (fst (RQ (st _ _ c) q)) (txs _ _ c) (outp _ _ c ++ snd (RQ (st _ _ c) q)).
  Proof.
    induction q as [|x q IH]; intros c Ht Hq.
    - cbn. rewrite app_nil_r. now destruct c.
    - inversion Hq as [|x' q' Hx Hq']; subst. cbn [fold_left run_queue].
      unfold dispatch at 2. rewrite Ht, Hx. destruct (exec (st St cmd c) x) as [s1 r].
      rewrite IH; [|exact Ht|exact Hq']. cbn [st txs outp].
      destruct (RQ s1 q). cbn. now rewrite <- app_assoc.
  Qed.

  (* EXEC *)
  Lemma exec_applies (c : core) cm s1 :
    in_tx _ (txs _ _ c) = true -> tx_err _ (txs _ _ c) = false -> kind cm = KExec ->
    watch_unchanged St cmd exec cmd_get (st _ _ c) (watched _ (txs _ _ c)) = (s1, true) ->
    DISPATCH c cm = mkCore _ _ (fst (RQ s1 (queue _ (txs _ _ c)))) (tx_idle cmd)
                           (outp _ _ c ++ [RArr (snd (RQ s1 (queue _ (txs _ _ c))))]).
  Proof.
    intros Ht He Hk Hw. unfold dispatch. rewrite Ht, Hk, He, Hw.
    now destruct (RQ s1 (queue cmd (txs St cmd c))).
  Qed.

  Lemma exec_watch_failed (c : core) cm s1 :
    in_tx _ (txs _ _ c) = true -> tx_err _ (txs _ _ c) = false -> kind cm = KExec ->
    watch_unchanged St cmd exec cmd_get (st _ _ c) (watched _ (txs _ _ c)) = (s1, false) ->
    DISPATCH c cm = mkCore _ _ s1 (tx_idle cmd) (outp _ _ c ++ [RNilArr]).
  Proof. intros Ht He Hk Hw. unfold dispatch. now rewrite Ht, Hk, He, Hw. Qed.

  Lemma exec_aborts (c : core) cm :
    in_tx _ (txs _ _ c) = true -> tx_err _ (txs _ _ c) = true -> kind cm = KExec ->
    DISPATCH c cm = mkCore _ _ (st _ _ c) (tx_idle cmd) (outp _ _ c ++ [R_EXECABORT]).
  Proof. intros Ht He Hk. unfold dispatch. now rewrite Ht, Hk, He. Qed.

  Lemma exec_leaves_idle (c : core) cm :
    in_tx _ (txs _ _ c) = true -> kind cm = KExec -> txs _ _ (DISPATCH c cm) = tx_idle cmd.
  Proof.
    intros Ht Hk. unfold dispatch. rewrite Ht, Hk. destruct (tx_err cmd (txs St cmd c)); [reflexivity|].
    destruct (watch_unchanged St cmd exec cmd_get (st St cmd c) (watched cmd (txs St cmd c))) as [s1 b].
    destruct b; [|reflexivity]. now destruct (RQ s1 (queue cmd (txs St cmd c))).
  Qed.

  Lemma discard_resets (c : core) cm :
    in_tx _ (txs _ _ c) = true -> kind cm = KDiscard ->
    DISPATCH c cm = mkCore _ _ (st _ _ c) (tx_idle cmd) (outp _ _ c ++ [R_OK]).
  Proof. intros Ht Hk. unfold dispatch. now rewrite Ht, Hk. Qed.

  Lemma nested_multi_rejected (c : core) cm :
    in_tx _ (txs _ _ c) = true -> kind cm = KMulti ->
    DISPATCH c cm = mkCore _ _ (st _ _ c) (txs _ _ c) (outp _ _ c ++ [R_NESTED]).
  Proof. intros Ht Hk. unfold dispatch. now rewrite Ht, Hk. Qed.

  Lemma watch_in_multi_rejected (c : core) cm ks :
    in_tx _ (txs _ _ c) = true -> kind cm = KWatch ks ->
    DISPATCH c cm = mkCore _ _ (st _ _ c) (txs _ _ c) (outp _ _ c ++ [R_WATCH_IN_MULTI]).
  Proof. intros Ht Hk. unfold dispatch. now rewrite Ht, Hk. Qed.

  (* ---- with a backend whose GET is read-only *)
  Hypothesis get_read_only : forall s k, fst (exec s (cmd_get k)) = s.

  Lemma snapshot_ro : forall ks s,
    snapshot St cmd exec cmd_get s ks = (s, map (fun k => (k, GETR s k)) ks).
  Proof.
    induction ks as [|k ks IH]; intros s; [reflexivity|]. cbn [snapshot map]. unfold get_reply.
    pose proof (get_read_only s k) as H. destruct (exec s (cmd_get k)) as [s1 r]. cbn in H. subst s1.
    rewrite IH. reflexivity.
  Qed.

  Lemma watch_unchanged_ro : forall w s,
    watch_unchanged St cmd exec cmd_get s w =
    (s, forallb (fun p => resp_eqb (GETR s (fst p)) (snd p)) w).
  Proof.
    induction w as [|[k old] w IH]; intros s; [reflexivity|]. cbn [watch_unchanged forallb fst snd].
    unfold get_reply at 1. pose proof (get_read_only s k) as H.
    destruct (exec s (cmd_get k)) as [s1 r]. cbn in H. subst s1. cbn [snd].
    destruct (resp_eqb r old); [apply IH|reflexivity].
  Qed.

  (* EXEC answers nil exactly when some watched key's GET reply differs from the snapshot *)
  Lemma watch_iff_get_reply_changed (c : core) cm :
    in_tx _ (txs _ _ c) = true -> tx_err _ (txs _ _ c) = false -> kind cm = KExec ->
    let c' := DISPATCH c cm in
    let s := st _ _ c in
    let q := queue _ (txs _ _ c) in
    ((exists k old, In (k, old) (watched _ (txs _ _ c)) /\ GETR s k <> old) ->
       c' = mkCore _ _ s (tx_idle cmd) (outp _ _ c ++ [RNilArr])) /\
    ((forall k old, In (k, old) (watched _ (txs _ _ c)) -> GETR s k = old) ->
       c' = mkCore _ _ (fst (RQ s q)) (tx_idle cmd) (outp _ _ c ++ [RArr (snd (RQ s q))])).
  Proof.
    intros Ht He Hk. cbv zeta. split.
    - intros (k & old & Hin & Hne). apply exec_watch_failed; auto.
      rewrite watch_unchanged_ro. f_equal.
      destruct (forallb _ _) eqn:E; [|reflexivity]. rewrite forallb_forall in E.
      specialize (E _ Hin). cbn in E. apply resp_eqb_spec in E. contradiction.
    - intros Hall. apply exec_applies; auto. rewrite watch_unchanged_ro. f_equal.
      apply forallb_forall. intros [k old] Hin. cbn. apply resp_eqb_spec. now apply Hall.
  Qed.

  (* ---- two clients *)
  Lemma step2_B_txa y v : txa _ _ (STEP2 y false v) = txa _ _ y /\ outa _ _ (STEP2 y false v) = outa _ _ y.
  Proof. split; reflexivity. Qed.

  Lemma run2_B_only : forall sched y, Forall (fun p => fst p = false) sched ->
    txa _ _ (RUN2 y sched) = txa _ _ y /\ outa _ _ (RUN2 y sched) = outa _ _ y.
  Proof.
    induction sched as [|[w v] sched IH]; intros y H; [split; reflexivity|].
    inversion H as [|p l Hp Hl]; subst. cbn in Hp. subst w. unfold run2 in *. cbn [fold_left fst snd].
    destruct (IH (STEP2 y false v) Hl) as [H1 H2]. rewrite H1, H2. split; reflexivity.
  Qed.

  (* while A queues, whatever B does in between: A's transaction state is its queue so far *)
  Lemma run2_queueing : forall sched y,
    in_tx _ (txa _ _ y) = true ->
    Forall (fun p => fst p = true -> exists cm, decode_cmd (snd p) = inl cm /\ queueable (kind cm)) sched ->
    txa _ _ (RUN2 y sched) =
      mkTx _ true (queue _ (txa _ _ y) ++ ACMDS sched) (tx_err _ (txa _ _ y)) (watched _ (txa _ _ y)) /\
    outa _ _ (RUN2 y sched) = outa _ _ y ++ map (fun _ => R_QUEUED) (ACMDS sched).
  Proof.
    induction sched as [|[w v] sched IH]; intros y Ht H.
    - unfold run2, a_cmds. cbn. rewrite !app_nil_r. split; [|reflexivity].
      destruct (txa St cmd y); cbn in *. now subst.
    - inversion H as [|p l Hp Hl]; subst. unfold run2 in *. cbn [fold_left fst snd].
      destruct w.
      + destruct (Hp eq_refl) as (cm & Hd & Hq). cbn [snd] in Hd.
        assert (Hstep : STEP2 y true v =
                  mkSys _ _ (sst _ _ y)
                        (mkTx _ true (queue _ (txa _ _ y) ++ [cm]) (tx_err _ (txa _ _ y)) (watched _ (txa _ _ y)))
                        (txb _ _ y) (outa _ _ y ++ [R_QUEUED]) (outb _ _ y)).
        { unfold step2. unfold handle_frame. rewrite Hd. rewrite queued_reply; [reflexivity|exact Ht|exact Hq]. }
        destruct (IH (STEP2 y true v)) as [H1 H2]; [rewrite Hstep; reflexivity|exact Hl|].
        rewrite H1, H2, Hstep. cbn [txa outa queue tx_err watched].
        unfold a_cmds. cbn [flat_map fst snd]. rewrite Hd. cbn [app map]. rewrite <- !app_assoc. split; reflexivity.
      + destruct (IH (STEP2 y false v)) as [H1 H2]; [exact Ht|exact Hl|].
        rewrite H1, H2. unfold a_cmds. cbn [flat_map fst snd app]. split; reflexivity.
  Qed.

  (* WATCH ks | anything by B | MULTI | A queues, B does anything, in any interleaving | EXEC *)
  Theorem watch_multi_exec_two_clients y ks vw cw vm cmu ve ce sched1 sched2 :
    txa _ _ y = tx_idle cmd ->
    decode_cmd vw = inl cw -> kind cw = KWatch ks ->
    decode_cmd vm = inl cmu -> kind cmu = KMulti ->
    decode_cmd ve = inl ce -> kind ce = KExec ->
    Forall (fun p => fst p = false) sched1 ->
    Forall (fun p => fst p = true -> exists cm, decode_cmd (snd p) = inl cm /\ queueable (kind cm)) sched2 ->
    let y1 := STEP2 y true vw in
    let y2 := RUN2 y1 sched1 in
    let y3 := STEP2 y2 true vm in
    let y4 := RUN2 y3 sched2 in
    let y5 := STEP2 y4 true ve in
    let q := ACMDS sched2 in
    txa _ _ y5 = tx_idle cmd /\
    ((exists k, In k ks /\ GETR (sst _ _ y4) k <> GETR (sst _ _ y) k) ->
       sst _ _ y5 = sst _ _ y4 /\ outa _ _ y5 = outa _ _ y4 ++ [RNilArr]) /\
    ((forall k, In k ks -> GETR (sst _ _ y4) k = GETR (sst _ _ y) k) ->
       sst _ _ y5 = fst (RQ (sst _ _ y4) q) /\ outa _ _ y5 = outa _ _ y4 ++ [RArr (snd (RQ (sst _ _ y4) q))] /\
       length (snd (RQ (sst _ _ y4) q)) = length q).
  Proof.
    intros Hidle Hdw Hkw Hdm Hkm Hde Hke HB HQ. cbv zeta.
    set (snap := map (fun k => (k, GETR (sst _ _ y) k)) ks).
    (* after WATCH *)
    assert (H1 : txa _ _ (STEP2 y true vw) = mkTx _ false [] false snap).
    { unfold step2, handle_frame. rewrite Hdw. unfold dispatch. rewrite Hidle. cbn [in_tx tx_idle]. rewrite Hkw.
      cbn [st]. rewrite snapshot_ro. reflexivity. }
    (* B's steps *)
    destruct (run2_B_only sched1 (STEP2 y true vw) HB) as [H2 _].
    (* MULTI *)
    set (y2 := RUN2 (STEP2 y true vw) sched1) in *.
    assert (H3 : txa _ _ (STEP2 y2 true vm) = mkTx _ true [] false snap).
    { unfold step2, handle_frame. rewrite Hdm. unfold dispatch. rewrite H2, H1. cbn [in_tx]. rewrite Hkm. reflexivity. }
    set (y3 := STEP2 y2 true vm) in *.
    destruct (run2_queueing sched2 y3) as [H4 _]; [now rewrite H3|exact HQ|].
    rewrite H3 in H4. cbn [queue tx_err watched app] in H4.
    set (y4 := RUN2 y3 sched2) in *.
    (* EXEC *)
    pose proof (watch_iff_get_reply_changed (mkCore _ _ (sst _ _ y4) (txa _ _ y4) (outa _ _ y4)) ce) as Hx.
    cbn [txs st outp] in Hx. rewrite H4 in Hx. cbn [in_tx tx_err queue watched] in Hx.
    specialize (Hx eq_refl eq_refl Hke). cbv zeta in Hx. destruct Hx as [Hx1 Hx2].
    assert (Hs5 : STEP2 y4 true ve =
              let c := DISPATCH (mkCore _ _ (sst _ _ y4) (mkTx _ true (ACMDS sched2) false snap) (outa _ _ y4)) ce in
              mkSys _ _ (st _ _ c) (txs _ _ c) (txb _ _ y4) (outp _ _ c) (outb _ _ y4)).
    { unfold step2, handle_frame. rewrite Hde, H4. reflexivity. }
    rewrite Hs5. cbv zeta. split; [|split].
    - cbn [txa]. apply exec_leaves_idle; [reflexivity|exact Hke].
    - intros (k & Hin & Hne). rewrite Hx1; [split; reflexivity|].
      exists k, (GETR (sst _ _ y) k). split; [|exact Hne]. unfold snap. apply in_map_iff. eauto.
    - intros Hall. rewrite Hx2.
      + cbn [st outp]. repeat split. apply run_queue_length.
      + intros k old Hin. unfold snap in Hin. apply in_map_iff in Hin. destruct Hin as (k' & Heq & Hin).
        inversion Heq; subst. now apply Hall.
  Qed.
  (* ---- several WATCH commands before MULTI, B writing between any two of them *)
  Notation WSNAPS := (watch_snaps St cmd decode_cmd exec kind cmd_get stub_reply).

  (* while A only sends WATCH commands (and B anything): A's watch list grows by exactly the
     snapshots taken, each at its own instant; nothing already recorded is replaced *)
  Lemma run2_watching : forall sched y,
    in_tx _ (txa _ _ y) = false ->
    Forall (fun p => fst p = true -> exists cm ks, decode_cmd (snd p) = inl cm /\ kind cm = KWatch ks) sched ->
    txa _ _ (RUN2 y sched) =
      mkTx _ false (queue _ (txa _ _ y)) (tx_err _ (txa _ _ y)) (watched _ (txa _ _ y) ++ WSNAPS y sched).
  Proof.
    induction sched as [|[w v] sched IH]; intros y Ht H.
    - unfold run2. cbn. rewrite app_nil_r. destruct (txa St cmd y); cbn in *. now subst.
    - inversion H as [|p l Hp Hl]; subst. unfold run2 in *. cbn [fold_left fst snd watch_snaps].
      destruct w.
      + destruct (Hp eq_refl) as (cm & ks & Hd & Hk). cbn [snd] in Hd. rewrite Hd, Hk.
        assert (Hstep : txa _ _ (STEP2 y true v) =
                  mkTx _ false (queue _ (txa _ _ y)) (tx_err _ (txa _ _ y))
                       (watched _ (txa _ _ y) ++ map (fun k => (k, GETR (sst _ _ y) k)) ks)).
        { unfold step2, handle_frame. rewrite Hd. unfold dispatch. cbn [txs st]. rewrite Ht, Hk.
          rewrite snapshot_ro. reflexivity. }
        rewrite IH; [|rewrite Hstep; reflexivity|exact Hl].
        rewrite Hstep. cbn [queue tx_err watched]. now rewrite <- app_assoc.
      + rewrite IH; [|exact Ht|exact Hl]. reflexivity.
  Qed.

  (* A: any number of WATCH commands, B doing anything between them | MULTI | A queues, B does
     anything | EXEC.  EVERY snapshot counts: EXEC is nil iff for some recorded (key, reply) - the
     first WATCH of a key included - the key's GET reply at EXEC differs from the recorded one. *)
  Theorem multi_watch_exec_two_clients y vm cmu ve ce sched0 sched2 :
    txa _ _ y = tx_idle cmd ->
    Forall (fun p => fst p = true -> exists cm ks, decode_cmd (snd p) = inl cm /\ kind cm = KWatch ks) sched0 ->
    decode_cmd vm = inl cmu -> kind cmu = KMulti ->
    decode_cmd ve = inl ce -> kind ce = KExec ->
    Forall (fun p => fst p = true -> exists cm, decode_cmd (snd p) = inl cm /\ queueable (kind cm)) sched2 ->
    let y2 := RUN2 y sched0 in
    let y3 := STEP2 y2 true vm in
    let y4 := RUN2 y3 sched2 in
    let y5 := STEP2 y4 true ve in
    let q := ACMDS sched2 in
    let snaps := WSNAPS y sched0 in
    txa _ _ y5 = tx_idle cmd /\
    ((exists k old, In (k, old) snaps /\ GETR (sst _ _ y4) k <> old) ->
       sst _ _ y5 = sst _ _ y4 /\ outa _ _ y5 = outa _ _ y4 ++ [RNilArr]) /\
    ((forall k old, In (k, old) snaps -> GETR (sst _ _ y4) k = old) ->
       sst _ _ y5 = fst (RQ (sst _ _ y4) q) /\ outa _ _ y5 = outa _ _ y4 ++ [RArr (snd (RQ (sst _ _ y4) q))] /\
       length (snd (RQ (sst _ _ y4) q)) = length q).
  Proof.
    intros Hidle HW Hdm Hkm Hde Hke HQ. cbv zeta.
    set (snap := WSNAPS y sched0).
    assert (H2 : txa _ _ (RUN2 y sched0) = mkTx _ false [] false snap).
    { rewrite run2_watching; [|rewrite Hidle; reflexivity|exact HW]. rewrite Hidle. reflexivity. }
    set (y2 := RUN2 y sched0) in *.
    assert (H3 : txa _ _ (STEP2 y2 true vm) = mkTx _ true [] false snap).
    { unfold step2, handle_frame. rewrite Hdm. unfold dispatch. rewrite H2. cbn [txs in_tx]. rewrite Hkm. reflexivity. }
    set (y3 := STEP2 y2 true vm) in *.
    destruct (run2_queueing sched2 y3) as [H4 _]; [now rewrite H3|exact HQ|].
    rewrite H3 in H4. cbn [queue tx_err watched app] in H4.
    set (y4 := RUN2 y3 sched2) in *.
    pose proof (watch_iff_get_reply_changed (mkCore _ _ (sst _ _ y4) (txa _ _ y4) (outa _ _ y4)) ce) as Hx.
    cbn [txs st outp] in Hx. rewrite H4 in Hx. cbn [in_tx tx_err queue watched] in Hx.
    specialize (Hx eq_refl eq_refl Hke). cbv zeta in Hx. destruct Hx as [Hx1 Hx2].
    assert (Hs5 : STEP2 y4 true ve =
              let c := DISPATCH (mkCore _ _ (sst _ _ y4) (mkTx _ true (ACMDS sched2) false snap) (outa _ _ y4)) ce in
              mkSys _ _ (st _ _ c) (txs _ _ c) (txb _ _ y4) (outp _ _ c) (outb _ _ y4)).
    { unfold step2, handle_frame. rewrite Hde, H4. reflexivity. }
    rewrite Hs5. cbv zeta. split; [|split].
    - cbn [txa]. apply exec_leaves_idle; [reflexivity|exact Hke].
    - intros Hex. rewrite Hx1; [split; reflexivity|exact Hex].
    - intros Hall. rewrite Hx2; [|exact Hall]. cbn [st outp]. repeat split. apply run_queue_length.
  Qed.
End Tx.


(* ------------------------------------------------------------------ WATCH over the mini backend *)
Lemma mexec_get_read_only : forall (s : mstate) k, fst (mexec s (CGet k)) = s.
Proof. intros s k. cbn [mexec]. destruct (vget s k) as [[]|]; reflexivity. Qed.

(* a GET reply identifies the value of a key unless the key holds a non-string at both instants *)
Lemma get_reply_vs_value sW sE k : nonstring_at_both sW sE k = false ->
  (mget_reply sW k = mget_reply sE k <-> value_of sW k = value_of sE k).
Proof.
  unfold nonstring_at_both, holds_nonstring, mget_reply, get_reply, value_of. cbn [mexec].
  destruct (vget sW k) as [[x|x|x|x|x]|]; destruct (vget sE k) as [[z|z|z|z|z]|]; cbn [snd andb];
    intros H; try discriminate H; split; intros E; try discriminate E; try reflexivity; try congruence.
Qed.

Section MiniTwoClients.
  Variables (y : sys mstate mcmd) (ks : list bytes) (vw vm ve : resp)
            (sched1 sched2 : list (bool * resp)).
  Hypothesis Hidle : txa _ _ y = tx_idle mcmd.
  Hypothesis Hw : mdecode vw = inl (CWatch ks).
  Hypothesis Hm : mdecode vm = inl CMulti.
  Hypothesis He : mdecode ve = inl CExec.
  Hypothesis HB : Forall (fun p => fst p = false) sched1.
  Hypothesis HQ : Forall (fun p => fst p = true -> exists cm, mdecode (snd p) = inl cm /\ queueable (mkind cm)) sched2.

  Let y1 := mstep2 y true vw.
  Let y2 := mrun2 y1 sched1.
  Let y3 := mstep2 y2 true vm.
  Let y4 := mrun2 y3 sched2.
  Let y5 := mstep2 y4 true ve.
  Let q := a_cmds mcmd mdecode sched2.

  (* If no watched key holds a non-string value at both instants: EXEC returns nil and applies
     nothing iff the value of some watched key at EXEC differs from its value at WATCH; otherwise it
     applies the whole queue, consecutively, one result per queued command. *)
  Lemma mini_watch_iff_changed :
    (forall k, In k ks -> nonstring_at_both (sst _ _ y) (sst _ _ y4) k = false) ->
    ((exists k, In k ks /\ value_of (sst _ _ y4) k <> value_of (sst _ _ y) k) ->
       sst _ _ y5 = sst _ _ y4 /\ outa _ _ y5 = outa _ _ y4 ++ [RNilArr]) /\
    ((forall k, In k ks -> value_of (sst _ _ y4) k = value_of (sst _ _ y) k) ->
       sst _ _ y5 = fst (run_queue _ _ mexec (sst _ _ y4) q) /\
       outa _ _ y5 = outa _ _ y4 ++ [RArr (snd (run_queue _ _ mexec (sst _ _ y4) q))] /\
       length (snd (run_queue _ _ mexec (sst _ _ y4) q)) = length q).
  Proof.
    intros Hcls.
    destruct (watch_multi_exec_two_clients _ _ mdecode mexec mkind CGet mstub_reply mexec_get_read_only
                y ks vw (CWatch ks) vm CMulti ve CExec sched1 sched2
                Hidle Hw eq_refl Hm eq_refl He eq_refl HB HQ) as (_ & H1 & H2).
    split.
    - intros (k & Hin & Hne). apply H1. exists k. split; [exact Hin|].
      intros E. apply Hne. symmetry. apply (get_reply_vs_value _ _ k (Hcls k Hin)). symmetry. exact E.
    - intros Hall. apply H2. intros k Hin. symmetry. apply (get_reply_vs_value _ _ k (Hcls k Hin)).
      symmetry. now apply Hall.
  Qed.
End MiniTwoClients.

(* finding C05-watch-nonstring: a watched LIST modified in place by another client between WATCH and
   EXEC is not detected - both snapshots are the same WRONGTYPE error - and the transaction applies *)
Definition b_ (s : string) : bytes := str s.
Definition refute_sched : list (bool * resp) :=
  [ (false, frame [b_ "LPUSH"; b_ "k"; b_ "a"]);                 (* B creates the list *)
    (true,  frame [b_ "WATCH"; b_ "k"]);                          (* A watches it *)
    (false, frame [b_ "LPUSH"; b_ "k"; b_ "b"]);                  (* B modifies it in place *)
    (true,  frame [b_ "MULTI"]);
    (true,  frame [b_ "SET"; b_ "j"; b_ "1"]);
    (true,  frame [b_ "EXEC"]) ].

Lemma watch_nonstring_refuted_witness :
  let sW := sst _ _ (mrun2 (msys_init m0) (firstn 2 refute_sched)) in
  let sE := sst _ _ (mrun2 (msys_init m0) (firstn 5 refute_sched)) in
  let yF := mrun2 (msys_init m0) refute_sched in
  nonstring_at_both sW sE (b_ "k") = true /\
  value_of sE (b_ "k") <> value_of sW (b_ "k") /\
  last (outa _ _ yF) RNilArr = RArr [RSimple (str "OK")] /\
  value_of (sst _ _ yF) (b_ "j") = Some (VStr (b_ "1")).
Proof. cbv zeta. repeat split; try (vm_compute; reflexivity). vm_compute. discriminate. Qed.

Lemma nonvacuous_c05 :
  let A (l : list string) := (true, frame (map str l)) in
  let B (l : list string) := (false, frame (map str l)) in
  let body := [A ["MULTI"]; A ["INCR"; "n"]; A ["LPUSH"; "n"; "a"]; A ["SET"; "j"; "1"]; A ["EXEC"]]%string in
  let y1 := mrun2 (msys_init m0) (app [A ["WATCH"; "k"]; B ["SET"; "k"; "x"]]%string body) in
  let y2 := mrun2 (msys_init m0) (app [A ["WATCH"; "k"]; B ["GET"; "k"]]%string body) in
  last (outa _ _ y1) R_OK = RNilArr /\ value_of (sst _ _ y1) (str "j") = None /\
  last (outa _ _ y2) R_OK = RArr [RInt 1; WRONGTYPE; RSimple (str "OK")] /\
  value_of (sst _ _ y2) (str "j") = Some (VStr (str "1")).
Proof. cbv zeta. repeat split; vm_compute; reflexivity. Qed.

Lemma first_watch_decides_c05 :
  let A (l : list string) := (true, frame (map str l)) in
  let B (l : list string) := (false, frame (map str l)) in
  let tail := [A ["MULTI"]; A ["SET"; "j"; "1"]; A ["EXEC"]]%string in
  let y1 := mrun2 (msys_init m0) (app [B ["SET"; "k"; "a"]; A ["WATCH"; "k"]; B ["SET"; "k"; "b"]; A ["WATCH"; "k"]]%string tail) in
  let y2 := mrun2 (msys_init m0) (app [B ["SET"; "k"; "a"]; A ["WATCH"; "k"]; B ["SET"; "k"; "b"]; A ["WATCH"; "h"; "k"; "k"]]%string tail) in
  let y3 := mrun2 (msys_init m0) (app [B ["SET"; "k"; "a"]; A ["WATCH"; "k"]; A ["UNWATCH"]; B ["SET"; "k"; "b"]; A ["WATCH"; "k"]]%string tail) in
  last (outa _ _ y1) R_OK = RNilArr /\ value_of (sst _ _ y1) (str "j") = None /\
  last (outa _ _ y2) R_OK = RNilArr /\ value_of (sst _ _ y2) (str "j") = None /\
  last (outa _ _ y3) R_OK = RArr [RSimple (str "OK")] /\ value_of (sst _ _ y3) (str "j") = Some (VStr (str "1")).
Proof. cbv zeta. repeat split; vm_compute; reflexivity. Qed.

(* ------------------------------------------------------------------ executor-level transactions *)
Section XTx.
  Variable St : Type.
  Variable cmd : Type.
  Variable V : Type.
  Variable exec_plain : St -> cmd -> St * resp.
  Variable kind : cmd -> ckind.
  Variable read_key : St -> bytes -> V.
  Variable veqb : V -> V -> bool.

  Notation XSTEP := (x_step St cmd V exec_plain kind read_key veqb).
  Notation XRUN := (x_run St cmd exec_plain kind).
  Notation XWATCH := (x_watch St V read_key).
  Notation XVIOL := (x_violated St V read_key veqb).
  Notation xstate := (xstate St cmd V).

  (* while a transaction is open nothing but EXEC touches the executor's data *)
  Lemma x_queued_no_effect (x : xstate) c : x_in _ _ _ x = true -> kind c <> KExec ->
    x_st _ _ _ (fst (XSTEP x c)) = x_st _ _ _ x.
  Proof.
    intros Hi Hk. unfold x_step. rewrite Hi. destruct (kind c); try reflexivity. contradiction.
  Qed.

  (* every command other than EXEC / DISCARD / MULTI / WATCH is queued and answered QUEUED *)
  Lemma x_queued_reply (x : xstate) c : x_in _ _ _ x = true ->
    kind c <> KExec -> kind c <> KDiscard -> kind c <> KMulti -> (forall ks, kind c <> KWatch ks) ->
    XSTEP x c = (mkX _ _ _ (x_st _ _ _ x) true (x_queue _ _ _ x ++ [c]) (x_watched _ _ _ x), RSimple (str "QUEUED")).
  Proof.
    intros Hi H1 H2 H3 H4. unfold x_step. rewrite Hi.
    destruct (kind c) eqn:E; try reflexivity; try contradiction. exfalso. exact (H4 keys eq_refl).
  Qed.

  Lemma x_run_length : forall q s, length (snd (XRUN s q)) = length q.
  Proof.
    induction q as [|c q IH]; intros s; [reflexivity|]. cbn [x_run].
    destruct (x_exec1 St cmd exec_plain kind s c) as [s1 r]. specialize (IH s1).
    destruct (XRUN s1 q). cbn in *. now rewrite IH.
  Qed.

  Lemma x_run_snoc : forall q s c,
    XRUN s (q ++ [c]) =
    (fst (x_exec1 St cmd exec_plain kind (fst (XRUN s q)) c),
     snd (XRUN s q) ++ [snd (x_exec1 St cmd exec_plain kind (fst (XRUN s q)) c)]).
  Proof.
    induction q as [|d q IH]; intros s c; cbn [x_run app].
    - cbn [fst snd app]. destruct (x_exec1 St cmd exec_plain kind s c). reflexivity.
    - destruct (x_exec1 St cmd exec_plain kind s d) as [s1 r]. rewrite IH. destruct (XRUN s1 q). reflexivity.
  Qed.

  (* EXEC: all or nothing *)
  Lemma x_exec_applies (x : xstate) c : x_in _ _ _ x = true -> kind c = KExec ->
    XVIOL (x_st _ _ _ x) (x_watched _ _ _ x) = false ->
    XSTEP x c = (mkX _ _ _ (fst (XRUN (x_st _ _ _ x) (x_queue _ _ _ x))) false [] [],
                 RArr (snd (XRUN (x_st _ _ _ x) (x_queue _ _ _ x)))).
  Proof.
    intros Hi Hk Hv. unfold x_step. rewrite Hi, Hk, Hv. now destruct (XRUN (x_st St cmd V x) (x_queue St cmd V x)).
  Qed.

  Lemma x_exec_aborts (x : xstate) c : x_in _ _ _ x = true -> kind c = KExec ->
    XVIOL (x_st _ _ _ x) (x_watched _ _ _ x) = true ->
    XSTEP x c = (mkX _ _ _ (x_st _ _ _ x) false [] [], RNilBulk).
  Proof. intros Hi Hk Hv. unfold x_step. now rewrite Hi, Hk, Hv. Qed.

  Lemma x_discard (x : xstate) c : x_in _ _ _ x = true -> kind c = KDiscard ->
    XSTEP x c = (mkX _ _ _ (x_st _ _ _ x) false [] [], RSimple (str "OK")).
  Proof. intros Hi Hk. unfold x_step. now rewrite Hi, Hk. Qed.

  Lemma x_violated_iff s w :
    XVIOL s w = true <-> exists k old, In (k, old) w /\ veqb (read_key s k) old = false.
  Proof.
    unfold x_violated. rewrite existsb_exists. split.
    - intros ([k old] & Hin & H). cbn in H. apply negb_true_iff in H. eauto.
    - intros (k & old & Hin & H). exists (k, old). split; [exact Hin|]. cbn. now rewrite H.
  Qed.

  (* WATCH never replaces or drops an entry, and records every key it names with the value it has now *)
  Lemma x_watch_keeps : forall ks s w k v, In (k, v) w -> In (k, v) (XWATCH s w ks).
  Proof. intros ks s w k v H. unfold x_watch. apply in_or_app. now left. Qed.

  Lemma x_watch_fresh : forall ks s w k, In k ks -> In (k, read_key s k) (XWATCH s w ks).
  Proof.
    intros ks s w k H. unfold x_watch. apply in_or_app. right.
    apply in_map_iff. exists k. split; [reflexivity|exact H].
  Qed.

  (* a watch entry survives every command except UNWATCH (outside a transaction) and EXEC / DISCARD
     (inside one): in particular later WATCHes of the same key and any command in between *)
  Lemma x_step_keeps_watch (x : xstate) c k v :
    (x_in _ _ _ x = false -> kind c <> KUnwatch) ->
    (x_in _ _ _ x = true -> kind c <> KExec /\ kind c <> KDiscard) ->
    In (k, v) (x_watched _ _ _ x) -> In (k, v) (x_watched _ _ _ (fst (XSTEP x c))).
  Proof.
    intros H1 H2 Hin. unfold x_step. destruct (x_in St cmd V x) eqn:Ei.
    - destruct (H2 eq_refl) as [Ha Hb]. destruct (kind c); cbn; try exact Hin; contradiction.
    - specialize (H1 eq_refl). destruct (kind c); cbn; try exact Hin; try contradiction.
      + now apply x_watch_keeps.
      + destruct (exec_plain (x_st St cmd V x) c). exact Hin.
      + destruct (exec_plain (x_st St cmd V x) c). exact Hin.
      + destruct (exec_plain (x_st St cmd V x) c). exact Hin.
      + destruct (exec_plain (x_st St cmd V x) c). exact Hin.
  Qed.

  (* so: if the value under a watched key at EXEC differs from ANY recorded snapshot - the first WATCH of
     the key included - EXEC answers nil and changes nothing *)
  Theorem x_exec_nil_iff (x : xstate) c : x_in _ _ _ x = true -> kind c = KExec ->
    ((exists k old, In (k, old) (x_watched _ _ _ x) /\ veqb (read_key (x_st _ _ _ x) k) old = false) ->
       XSTEP x c = (mkX _ _ _ (x_st _ _ _ x) false [] [], RNilBulk)) /\
    ((forall k old, In (k, old) (x_watched _ _ _ x) -> veqb (read_key (x_st _ _ _ x) k) old = true) ->
       XSTEP x c = (mkX _ _ _ (fst (XRUN (x_st _ _ _ x) (x_queue _ _ _ x))) false [] [],
                    RArr (snd (XRUN (x_st _ _ _ x) (x_queue _ _ _ x)))) /\
       length (snd (XRUN (x_st _ _ _ x) (x_queue _ _ _ x))) = length (x_queue _ _ _ x)).
  Proof.
    intros Hi Hk. split.
    - intros H. apply x_exec_aborts; auto. now apply x_violated_iff.
    - intros H. split; [|apply x_run_length]. apply x_exec_applies; auto.
      destruct (XVIOL (x_st St cmd V x) (x_watched St cmd V x)) eqn:E; [|reflexivity].
      apply x_violated_iff in E. destruct E as (k & old & Hin & Hf). rewrite (H k old Hin) in Hf. discriminate.
  Qed.
End XTx.

Lemma x_nonvacuous_c05 :
  let run (l : list (list string)) :=
    fold_left (fun p c => let '(x, _) := p in
                          match mdecode (frame (map str c)) with
                          | inl cm => mx_step x cm
                          | inr _ => p
                          end) l (x_init _ _ _ m0, R_OK) in
  snd (run [["LPUSH"; "k"; "a"]; ["WATCH"; "k"]; ["LPUSH"; "k"; "b"]; ["MULTI"]; ["SET"; "j"; "1"]; ["EXEC"]]%string) = RNilBulk /\
  snd (run [["SET"; "k"; "a"]; ["WATCH"; "k"]; ["SET"; "k"; "b"]; ["WATCH"; "k"]; ["MULTI"]; ["SET"; "j"; "1"]; ["EXEC"]]%string) = RNilBulk /\
  snd (run [["SET"; "k"; "a"]; ["WATCH"; "k"]; ["SET"; "k"; "b"]; ["MULTI"]; ["EXEC"]]%string) = RNilBulk /\
  snd (run [["SET"; "k"; "a"]; ["WATCH"; "k"]; ["SET"; "k"; "b"]; ["WATCH"; "k"]; ["SET"; "k"; "a"]; ["MULTI"]; ["EXEC"]]%string) = RNilBulk /\
  snd (run [["SET"; "k"; "a"]; ["WATCH"; "k"]; ["GET"; "k"]; ["MULTI"]; ["INCR"; "k"]; ["SET"; "j"; "1"]; ["EXEC"]]%string)
    = RArr [RError (str "ERR value is not an integer or out of range"); RSimple (str "OK")].
Proof. cbv zeta. repeat split; vm_compute; reflexivity. Qed.

(* Lemmas about Model/Conn.v: the GET/SET recognisers accept exactly frames the generic decoder
   accepts, with the same content and length; the handler with fast path and batching answers
   every read exactly like a handler that only uses the generic decoder; consequently its output
   does not depend on how the stream is cut into reads, on the pipeline depth or on the batching
   configuration. *)
From Coq Require Import String Ascii NArith ZArith List Bool Lia Arith.
From RV Require Import Lib.Hex Model.Resp Proofs.RespProofs Model.Conn.
Import ListNotations.

(* ------------------------------------------------------------------ bytes *)
Lemma bytes_eqb_true a b : bytes_eqb a b = true -> a = b.
Proof.
  revert b. induction a as [|x a IH]; intros [|y b] H; try discriminate; [reflexivity|].
  cbn in H. apply andb_prop in H. destruct H as [H1 H2].
  apply N.eqb_eq in H1. subst. f_equal. now apply IH.
Qed.

Lemma starts_with_split p b : starts_with p b = true -> b = p ++ skipn (length p) b.
Proof.
  unfold starts_with. intros H. apply bytes_eqb_true in H.
  rewrite <- H at 1. symmetry. apply firstn_skipn.
Qed.

(* ------------------------------------------------------------------ memchr *)
Lemma memchr_split c t p : memchr c t = Some p ->
  t = firstn p t ++ c :: skipn (S p) t /\ Forall (fun x => x <> c) (firstn p t) /\ p < length t.
Proof.
  revert p. induction t as [|x t IH]; intros p H; [discriminate|].
  cbn [memchr] in H. destruct (x =? c)%N eqn:E.
  - inversion H; subst p. apply N.eqb_eq in E. subst x. cbn. repeat split; [constructor|lia].
  - destruct (memchr c t) as [q|] eqn:Eq; [|discriminate]. inversion H; subst p.
    destruct (IH q eq_refl) as (H1 & H2 & H3).
    change (firstn (S q) (x :: t)) with (x :: firstn q t).
    change (skipn (S (S q)) (x :: t)) with (skipn (S q) t). cbn [app length]. repeat split.
    + f_equal. exact H1.
    + constructor; [now apply N.eqb_neq|exact H2].
    + lia.
Qed.

Lemma memchr_none c t : memchr c t = None -> Forall (fun x => x <> c) t.
Proof.
  induction t as [|x t IH]; intros H; [constructor|].
  cbn [memchr] in H. destruct (x =? c)%N eqn:E; [discriminate|].
  destruct (memchr c t); [discriminate|]. constructor; [now apply N.eqb_neq|auto].
Qed.

Lemma find_crlf_no_cr b : Forall (fun x => x <> 13%N) b -> find_crlf b = None.
Proof.
  induction 1 as [|x t Hx Ht IH]; [reflexivity|].
  destruct t as [|y t']; [reflexivity|]. rewrite find_crlf_cons2.
  replace (x =? 13)%N with false by (symmetry; now apply N.eqb_neq). cbn [andb]. now rewrite IH.
Qed.

Lemma find_crlf_cr_last s : Forall (fun x => x <> 13%N) s -> find_crlf (s ++ [13%N]) = None.
Proof.
  induction 1 as [|x t Hx Ht IH]; [reflexivity|].
  cbn [app]. destruct (t ++ [13%N]) as [|y r] eqn:E; [reflexivity|].
  rewrite find_crlf_cons2. replace (x =? 13)%N with false by (symmetry; now apply N.eqb_neq).
  cbn [andb]. now rewrite IH.
Qed.

Lemma nth_error_skipn {A} (l : list A) n : nth_error l n = hd_error (skipn n l).
Proof.
  revert n. induction l as [|x l IH]; intros [|n]; try reflexivity. cbn. apply IH.
Qed.

(* ------------------------------------------------------------------ length lines *)
Lemma parse_usize_i64 s n : parse_usize s = Some n -> (n < I64_LIM)%N -> parse_i64 s = Some (Z.of_N n).
Proof.
  unfold parse_usize, parse_i64. destruct s as [|c t]; [discriminate|].
  destruct (c =? 43)%N eqn:E43.
  - apply N.eqb_eq in E43. subst c. cbn [N.eqb Pos.eqb orb].
    destruct t as [|d t']; [discriminate|].
    destruct (digits_val (d :: t') 0) as [m|]; [|discriminate].
    destruct (m <? USIZE_LIM_N)%N; [|discriminate]. intros H Hn. inversion H; subst m.
    replace (n <? I64_LIM)%N with true by (symmetry; now apply N.ltb_lt). reflexivity.
  - destruct (c =? 45)%N eqn:E45.
    + apply N.eqb_eq in E45. subst c. cbn [digits_val is_digit N.leb N.compare Pos.compare Pos.compare_cont andb].
      discriminate.
    + cbn [orb].
      destruct (digits_val (c :: t) 0) as [m|]; [|discriminate].
      destruct (m <? USIZE_LIM_N)%N; [|discriminate]. intros H Hn. inversion H; subst m.
      replace (n <? I64_LIM)%N with true by (symmetry; now apply N.ltb_lt). reflexivity.
Qed.

Lemma parse_bulk_len_fast_i64 s n : parse_bulk_len_fast s = Some n ->
  parse_i64 s = Some (Z.of_N n) /\ (n < I64_LIM)%N.
Proof.
  unfold parse_bulk_len_fast. destruct (parse_usize s) as [m|] eqn:E; [|discriminate].
  destruct (m <? I64_LIM)%N eqn:El; [|discriminate]. intros H; inversion H; subst m.
  apply N.ltb_lt in El. split; [now apply parse_usize_i64|exact El].
Qed.

(* a bulk string whose length line is any text parse_i64 reads as the payload length *)
Lemma parse_bulk_shape ds rest n :
  Forall (fun c => c <> 13%N) ds -> parse_i64 ds = Some (Z.of_nat n) ->
  n + 2 <= length rest -> size_ok (36%N :: ds ++ 13%N :: 10%N :: rest) ->
  fst (parse_bulk (36%N :: ds ++ 13%N :: 10%N :: rest)) = Done (RBulk (firstn n rest)) (length ds + 3 + n + 2).
Proof.
  intros Hds Hp Hl Hs. unfold parse_bulk. cbv zeta.
  destruct (header_line 36%N ds rest ltac:(discriminate) Hds) as [-> ->].
  rewrite Hp.
  assert (Hlen : length (36%N :: ds ++ 13%N :: 10%N :: rest) = S (length ds) + 2 + length rest).
  { cbn [length]. rewrite app_length. cbn [length]. lia. }
  unfold size_ok in Hs. rewrite Hlen in *.
  replace (Z.of_nat n =? -1)%Z with false by (symmetry; apply Z.eqb_neq; lia).
  replace (Z.of_nat n <? 0)%Z with false by (symmetry; apply Z.ltb_ge; lia).
  replace (USIZE_LIM <=? Z.of_nat (S (length ds) + 2) + Z.of_nat n)%Z with false
    by (symmetry; apply Z.leb_gt; unfold USIZE_LIM; lia).
  replace (USIZE_LIM <=? Z.of_nat (S (length ds) + 2) + Z.of_nat n + 2)%Z with false
    by (symmetry; apply Z.leb_gt; unfold USIZE_LIM; lia).
  replace (Z.of_nat (S (length ds) + 2 + length rest) <? Z.of_nat (S (length ds) + 2) + Z.of_nat n + 2)%Z
    with false by (symmetry; apply Z.ltb_ge; lia).
  rewrite Nat2Z.id.
  rewrite slice_ok; [|lia|rewrite Hlen; lia].
  assert (Hsk : skipn (S (length ds) + 2) (36%N :: ds ++ 13%N :: 10%N :: rest) = rest).
  { replace (36%N :: ds ++ 13%N :: 10%N :: rest) with ((36%N :: ds ++ [13%N; 10%N]) ++ rest)
      by (cbn [app]; rewrite <- app_assoc; reflexivity).
    rewrite skipn_app.
    replace (S (length ds) + 2) with (length (36%N :: ds ++ [13%N; 10%N]))
      by (cbn [length]; rewrite app_length; cbn [length]; lia).
    rewrite skipn_all, Nat.sub_diag. reflexivity. }
  rewrite Hsk. replace (S (length ds) + 2 + n - (S (length ds) + 2)) with n by lia.
  cbn [fst]. f_equal. lia.
Qed.

Lemma scan_bulk_ok base a key used : size_ok a -> scan_bulk base a = SOk key used ->
  fst (parse_bulk a) = Done (RBulk key) used /\ hd_error a = Some 36%N.
Proof.
  intros Hs. unfold scan_bulk. destruct a as [|c t]; [discriminate|].
  destruct (c =? 36)%N eqn:Ec; cbn [negb]; [|discriminate]. apply N.eqb_eq in Ec. subst c.
  destruct (memchr 13 t) as [p|] eqn:Em; [|discriminate].
  destruct (nth_error t (S p)) as [lf|] eqn:En; [|discriminate].
  destruct (lf =? 10)%N eqn:El; cbn [negb]; [|discriminate]. apply N.eqb_eq in El. subst lf.
  destruct (parse_bulk_len_fast (firstn p t)) as [n|] eqn:Ep; [|discriminate].
  cbv zeta.
  destruct (USIZE_LIM_N <=? N.of_nat (base + (p + 3)) + n + 2)%N; [discriminate|].
  destruct (N.of_nat (length (36%N :: t)) <? N.of_nat (p + 3) + n + 2)%N eqn:Ec2; [discriminate|].
  intros H. inversion H; subst key used. clear H. split; [|reflexivity].
  apply N.ltb_ge in Ec2.
  destruct (memchr_split _ _ _ Em) as (Ht & Hno & Hlt).
  (* the byte after the CR is LF *)
  assert (Hrest : exists rest, skipn (S p) t = 10%N :: rest).
  { rewrite nth_error_skipn in En. destruct (skipn (S p) t) as [|y r]; [discriminate|].
    cbn in En. inversion En. eauto. }
  destruct Hrest as [rest Hr]. rewrite Hr in Ht.
  set (ds := firstn p t) in *.
  assert (Hdl : length ds = p) by (unfold ds; rewrite firstn_length; lia).
  destruct (parse_bulk_len_fast_i64 _ _ Ep) as [Hi Hn].
  assert (Ha : 36%N :: t = 36%N :: ds ++ 13%N :: 10%N :: rest) by (f_equal; exact Ht).
  assert (Hlen : length (36%N :: t) = p + 3 + length rest).
  { rewrite Ha. cbn [length]. rewrite app_length. cbn [length]. lia. }
  rewrite Hlen in Ec2.
  assert (Hsk : skipn (p + 3) (36%N :: t) = rest).
  { rewrite Ha. replace (36%N :: ds ++ 13%N :: 10%N :: rest) with ((36%N :: ds ++ [13%N; 10%N]) ++ rest)
      by (cbn [app]; rewrite <- app_assoc; reflexivity).
    rewrite skipn_app.
    replace (p + 3) with (length (36%N :: ds ++ [13%N; 10%N]))
      by (cbn [length]; rewrite app_length; cbn [length]; lia).
    rewrite skipn_all, Nat.sub_diag. reflexivity. }
  rewrite Hsk. rewrite Ha.
  rewrite (parse_bulk_shape ds rest (N.to_nat n)).
  - f_equal. lia.
  - exact Hno.
  - rewrite Hi. f_equal. lia.
  - lia.
  - rewrite <- Ha. exact Hs.
Qed.

Lemma scan_bulk_need base a : size_ok a -> scan_bulk base a = SNeed ->
  a = [] \/ (fst (parse_bulk a) = Incomplete /\ hd_error a = Some 36%N).
Proof.
  intros Hs. unfold scan_bulk. destruct a as [|c t]; [now left|]. right.
  destruct (c =? 36)%N eqn:Ec; cbn [negb]; [|discriminate]. apply N.eqb_eq in Ec. subst c.
  split; [|reflexivity]. revert H.
  destruct (memchr 13 t) as [p|] eqn:Em.
  2:{ intros _. unfold parse_bulk.
      rewrite find_crlf_no_cr; [reflexivity|]. constructor; [discriminate|]. now apply memchr_none. }
  destruct (memchr_split _ _ _ Em) as (Ht & Hno & Hlt).
  destruct (nth_error t (S p)) as [lf|] eqn:En.
  2:{ intros _. unfold parse_bulk.
      assert (Hsk : skipn (S p) t = []).
      { apply nth_error_None in En. apply skipn_all2. lia. }
      rewrite Hsk in Ht. rewrite Ht.
      change (36%N :: firstn p t ++ [13%N]) with ((36%N :: firstn p t) ++ [13%N]).
      rewrite find_crlf_cr_last; [reflexivity|]. constructor; [discriminate|exact Hno]. }
  destruct (lf =? 10)%N eqn:El; cbn [negb]; [|discriminate]. apply N.eqb_eq in El. subst lf.
  destruct (parse_bulk_len_fast (firstn p t)) as [n|] eqn:Ep; [|discriminate].
  cbv zeta.
  destruct (USIZE_LIM_N <=? N.of_nat (base + (p + 3)) + n + 2)%N eqn:Eo; [discriminate|].
  destruct (N.of_nat (length (36%N :: t)) <? N.of_nat (p + 3) + n + 2)%N eqn:Ec2; [|discriminate].
  intros _. apply N.ltb_lt in Ec2. apply N.leb_gt in Eo.
  assert (Hrest : exists rest, skipn (S p) t = 10%N :: rest).
  { rewrite nth_error_skipn in En. destruct (skipn (S p) t) as [|y r]; [discriminate|].
    cbn in En. inversion En. eauto. }
  destruct Hrest as [rest Hr]. rewrite Hr in Ht.
  set (ds := firstn p t) in *.
  assert (Hdl : length ds = p) by (unfold ds; rewrite firstn_length; lia).
  destruct (parse_bulk_len_fast_i64 _ _ Ep) as [Hi Hn].
  assert (Ha : 36%N :: t = 36%N :: ds ++ 13%N :: 10%N :: rest) by (f_equal; exact Ht).
  assert (Hlen : length (36%N :: t) = p + 3 + length rest).
  { rewrite Ha. cbn [length]. rewrite app_length. cbn [length]. lia. }
  rewrite Hlen in Ec2. rewrite Ha. unfold parse_bulk. cbv zeta.
  destruct (header_line 36%N ds rest ltac:(discriminate) Hno) as [-> ->].
  rewrite Hi.
  assert (Hlen2 : length (36%N :: ds ++ 13%N :: 10%N :: rest) = p + 3 + length rest) by (rewrite <- Ha; exact Hlen).
  rewrite Hlen2. unfold I64_LIM, USIZE_LIM_N in *.
  replace (Z.of_N n =? -1)%Z with false by (symmetry; apply Z.eqb_neq; lia).
  replace (Z.of_N n <? 0)%Z with false by (symmetry; apply Z.ltb_ge; lia).
  replace (USIZE_LIM <=? Z.of_nat (S (length ds) + 2) + Z.of_N n)%Z with false
    by (symmetry; apply Z.leb_gt; unfold USIZE_LIM; lia).
  replace (USIZE_LIM <=? Z.of_nat (S (length ds) + 2) + Z.of_N n + 2)%Z with false
    by (symmetry; apply Z.leb_gt; unfold USIZE_LIM; lia).
  replace (Z.of_nat (p + 3 + length rest) <? Z.of_nat (S (length ds) + 2) + Z.of_N n + 2)%Z
    with true by (symmetry; apply Z.ltb_lt; lia).
  reflexivity.
Qed.

(* ------------------------------------------------------------------ arrays with a known head *)
Lemma arr_loop_next rec lf input cnt off acc : (cnt =? 0)%N = false -> off < length input ->
  arr_loop true rec (S lf) input cnt off acc =
  let r := rec (skipn off input) in
  match fst r with
  | Done v c => tick (snd r) (arr_loop true rec lf input (cnt - 1) (off + c) (v :: acc))
  | _ => r
  end.
Proof.
  intros Hc Ho. rewrite arr_loop_S by exact Hc.
  replace (length input <=? off) with false by (symmetry; apply Nat.leb_gt; lia).
  replace (length input <? off) with false by (symmetry; apply Nat.ltb_ge; lia).
  reflexivity.
Qed.

Lemma arr_loop_end rec lf input cnt off acc : (cnt =? 0)%N = false -> length input <= off ->
  arr_loop true rec (S lf) input cnt off acc = (Incomplete, 0%N).
Proof.
  intros Hc Ho. rewrite arr_loop_S by exact Hc.
  replace (length input <=? off) with true by (symmetry; apply Nat.leb_le; lia). reflexivity.
Qed.

(* the outcome of an array of [cnt] elements whose header is "*<d>\r\n" (one digit d) *)
Lemma parse_arr_hdr d cnt rest :
  parse_i64 [d] = Some (Z.of_N cnt) -> d <> 13%N ->
  fst (parse_d true 32 (42%N :: d :: 13%N :: 10%N :: rest)) =
  fst (arr_loop true (parse_d true 31) (4 + length rest) (42%N :: d :: 13%N :: 10%N :: rest) cnt 4 []).
Proof.
  intros Hp Hd. rewrite parse_d_eq. cbn [N.eqb Pos.eqb]. unfold parse_array. cbv zeta.
  destruct (header_line 42%N [d] rest ltac:(discriminate) ltac:(repeat constructor; exact Hd)) as [H1 H2].
  cbn [app length] in H1, H2. rewrite H1, H2, Hp.
  assert (0 <= Z.of_N cnt)%Z by lia.
  replace (Z.of_N cnt =? -1)%Z with false by (symmetry; apply Z.eqb_neq; lia).
  replace (Z.of_N cnt <? 0)%Z with false by (symmetry; apply Z.ltb_ge; lia).
  cbn [length]. replace (S (S (S (S (length rest)))) <? 2 + 2) with false by (symmetry; apply Nat.ltb_ge; lia).
  rewrite fst_tick. rewrite N2Z.id. reflexivity.
Qed.

Definition on_done (o : outcome) (f : resp -> nat -> outcome) : outcome :=
  match o with Done v c => f v c | _ => o end.

(* "*2\r\n" ++ encode (RBulk nm) ++ a *)
Lemma parse_arr2 nm a e : e = encode (RBulk nm) ->
  size_ok ([42; 50; 13; 10]%N ++ e ++ a) ->
  fst (parse_d true 32 ([42; 50; 13; 10]%N ++ e ++ a)) =
  on_done (fst (parse_d true 31 a)) (fun v c => Done (RArr [RBulk nm; v]) (4 + length e + c)).
Proof.
  intros Hee Hs. change ([42; 50; 13; 10]%N ++ e ++ a) with (42%N :: 50%N :: 13%N :: 10%N :: e ++ a) in *.
  rewrite (parse_arr_hdr 50%N 2%N (e ++ a)) by (reflexivity || discriminate).
  set (b := 42%N :: 50%N :: 13%N :: 10%N :: e ++ a) in *.
  assert (Hlb : length b = 4 + length e + length a) by (unfold b; cbn [length]; rewrite app_length; lia).
  pose proof (encode_nonempty (RBulk nm)) as Hne. rewrite <- Hee in Hne.
  rewrite app_length.
  replace (4 + (length e + length a)) with (S (S (length e + length a + 2))) by lia.
  rewrite arr_loop_next by (reflexivity || lia). cbv zeta.
  assert (Hsk : skipn 4 b = e ++ a) by reflexivity.
  rewrite Hsk.
  assert (He : fst (parse_d true 31 (e ++ a)) = Done (RBulk nm) (length e)).
  { rewrite Hee. apply encode_decode_d; [reflexivity|]. rewrite <- Hee. unfold size_ok in *. rewrite <- Hsk, skipn_length. lia. }
  rewrite He. rewrite fst_tick.
  destruct a as [|x a'].
  - rewrite arr_loop_end by (reflexivity || (rewrite Hlb; cbn [length]; lia)).
    destruct nm; reflexivity.
  - rewrite arr_loop_next by (reflexivity || (rewrite Hlb; cbn [length]; lia)). cbv zeta.
    assert (Hsk2 : skipn (4 + length e) b = x :: a').
    { unfold b. change (42%N :: 50%N :: 13%N :: 10%N :: e ++ x :: a') with (([42; 50; 13; 10]%N ++ e) ++ x :: a').
      rewrite skipn_app. replace (4 + length e) with (length ([42; 50; 13; 10]%N ++ e)) by (rewrite app_length; reflexivity).
      rewrite skipn_all, Nat.sub_diag. reflexivity. }
    rewrite Hsk2.
    destruct (fst (parse_d true 31 (x :: a'))) as [v c| |k| |] eqn:E; cbn [on_done]; try exact E.
    rewrite fst_tick. rewrite arr_loop_zero by reflexivity. reflexivity.
Qed.

Lemma skipn_app_exact {A} (p r : list A) n : n = length p -> skipn n (p ++ r) = r.
Proof. intros ->. rewrite skipn_app, skipn_all, Nat.sub_diag. reflexivity. Qed.

Lemma skipn_plus {A} (l : list A) m n : skipn n (skipn m l) = skipn (m + n) l.
Proof.
  revert l. induction m as [|m IH]; intros l; [reflexivity|].
  destruct l as [|x l]; [now rewrite !skipn_nil|]. cbn [skipn Nat.add]. apply IH.
Qed.

Lemma parse_d_nil codec d : fst (parse_d codec d []) = Incomplete.
Proof. destruct d; reflexivity. Qed.

(* "*3\r\n" ++ encode (RBulk nm) ++ a *)
Lemma parse_arr3 nm a e : e = encode (RBulk nm) ->
  size_ok ([42; 51; 13; 10]%N ++ e ++ a) ->
  fst (parse_d true 32 ([42; 51; 13; 10]%N ++ e ++ a)) =
  on_done (fst (parse_d true 31 a)) (fun v c =>
    on_done (fst (parse_d true 31 (skipn c a))) (fun w c2 =>
      Done (RArr [RBulk nm; v; w]) (4 + length e + c + c2))).
Proof.
  intros Hee Hs. change ([42; 51; 13; 10]%N ++ e ++ a) with (42%N :: 51%N :: 13%N :: 10%N :: e ++ a) in *.
  rewrite (parse_arr_hdr 51%N 3%N (e ++ a)) by (reflexivity || discriminate).
  set (b := 42%N :: 51%N :: 13%N :: 10%N :: e ++ a) in *.
  assert (Hlb : length b = 4 + length e + length a) by (unfold b; cbn [length]; rewrite app_length; lia).
  pose proof (encode_nonempty (RBulk nm)) as Hne. rewrite <- Hee in Hne.
  rewrite app_length.
  replace (4 + (length e + length a)) with (S (S (S (length e + length a + 1)))) by lia.
  rewrite arr_loop_next by (reflexivity || lia). cbv zeta.
  assert (Hsk : skipn 4 b = e ++ a) by reflexivity.
  rewrite Hsk.
  assert (He : fst (parse_d true 31 (e ++ a)) = Done (RBulk nm) (length e)).
  { rewrite Hee. apply encode_decode_d; [reflexivity|]. rewrite <- Hee. unfold size_ok in *. rewrite <- Hsk, skipn_length. lia. }
  rewrite He. rewrite fst_tick.
  destruct a as [|x a'].
  - rewrite arr_loop_end by (reflexivity || (rewrite Hlb; cbn [length]; lia)).
    rewrite parse_d_nil. reflexivity.
  - rewrite arr_loop_next by (reflexivity || (rewrite Hlb; cbn [length]; lia)). cbv zeta.
    assert (Hsk2 : skipn (4 + length e) b = x :: a').
    { unfold b. change (42%N :: 51%N :: 13%N :: 10%N :: e ++ x :: a') with (([42; 51; 13; 10]%N ++ e) ++ x :: a').
      apply skipn_app_exact. rewrite app_length. reflexivity. }
    rewrite Hsk2.
    destruct (fst (parse_d true 31 (x :: a'))) as [v c| |k| |] eqn:E; cbn [on_done]; try exact E.
    rewrite fst_tick.
    pose proof (parse_d_bnd true 31 _ _ _ E) as Hb.
    assert (Hsk3 : skipn (4 + length e + c) b = skipn c (x :: a')).
    { rewrite <- Hsk2. rewrite skipn_plus. reflexivity. }
    destruct (Nat.eq_dec c (length (x :: a'))) as [Hc|Hc].
    + rewrite arr_loop_end by (reflexivity || (rewrite Hlb; lia)).
      rewrite Hc, skipn_all, parse_d_nil. reflexivity.
    + rewrite arr_loop_next by (reflexivity || (rewrite Hlb; lia)). cbv zeta.
      rewrite Hsk3.
      destruct (fst (parse_d true 31 (skipn c (x :: a')))) as [w c2| |k| |] eqn:E2; cbn [on_done]; try exact E2.
      rewrite fst_tick. rewrite arr_loop_zero by reflexivity. reflexivity.
Qed.

(* ------------------------------------------------------------------ the recognisers are sound *)
Lemma parse_d_dollar d a : hd_error a = Some 36%N -> parse_d true d a = parse_bulk a.
Proof. destruct a as [|c t]; [discriminate|]. intros H; inversion H; subst c. now rewrite parse_d_eq. Qed.

Lemma get_hdr_split b : is_get_hdr b = true ->
  exists nm, is_get_name nm /\ b = [42; 50; 13; 10]%N ++ encode (RBulk nm) ++ skipn HEADER_LEN b.
Proof.
  unfold is_get_hdr. intros H. apply orb_prop in H. destruct H as [H|H]; apply starts_with_split in H.
  - exists NAME_GET_U. split; [now left|]. exact H.
  - exists NAME_GET_L. split; [now right|]. exact H.
Qed.

Lemma set_hdr_split b : is_set_hdr b = true ->
  exists nm, is_set_name nm /\ b = [42; 51; 13; 10]%N ++ encode (RBulk nm) ++ skipn HEADER_LEN b.
Proof.
  unfold is_set_hdr. intros H. apply orb_prop in H. destruct H as [H|H]; apply starts_with_split in H.
  - exists NAME_SET_U. split; [now left|]. exact H.
  - exists NAME_SET_L. split; [now right|]. exact H.
Qed.

Lemma name_len9 nm : is_get_name nm \/ is_set_name nm -> length (encode (RBulk nm)) = 9.
Proof. intros [[->| ->]|[->| ->]]; reflexivity. Qed.

Section Recog.
  Variable utf8_ok : bytes -> bool.

  Lemma recog_get_sound b : size_ok b -> is_get_hdr b = true ->
    match recog_get utf8_ok b with
    | FGet key n => exists nm, is_get_name nm /\ parse true b = Done (RArr [RBulk nm; RBulk key]) n
                               /\ utf8_ok key = true
    | FNeed => parse true b = Incomplete
    | FSet _ _ _ => False
    | FNot => True
    end.
  Proof.
    intros Hs Hh. destruct (get_hdr_split b Hh) as (nm & Hnm & Hb).
    set (a := skipn HEADER_LEN b) in *.
    assert (Hsa : size_ok a) by (apply size_ok_skipn; exact Hs).
    assert (Hp : parse true b =
                 on_done (fst (parse_d true 31 a)) (fun v c => Done (RArr [RBulk nm; v]) (4 + 9 + c))).
    { unfold parse, Resp.run, MAX_DEPTH. rewrite Hb at 1.
      rewrite (parse_arr2 nm a (encode (RBulk nm)) eq_refl) by (rewrite <- Hb; exact Hs).
      rewrite name_len9 by (now left). reflexivity. }
    unfold recog_get. fold a.
    destruct (scan_bulk HEADER_LEN a) as [key used| |] eqn:E.
    - destruct (scan_bulk_ok _ _ _ _ Hsa E) as [H1 H2].
      destruct (utf8_ok key) eqn:Eu; [|exact I].
      exists nm. split; [exact Hnm|]. split; [|exact Eu].
      rewrite Hp, (parse_d_dollar _ _ H2), H1. reflexivity.
    - destruct (scan_bulk_need _ _ Hsa E) as [Hn|[H1 H2]].
      + rewrite Hp, Hn, parse_d_nil. reflexivity.
      + rewrite Hp, (parse_d_dollar _ _ H2), H1. reflexivity.
    - exact I.
  Qed.

  Lemma recog_set_sound b : size_ok b -> is_set_hdr b = true ->
    match recog_set utf8_ok b with
    | FSet key val n => exists nm, is_set_name nm /\
                          parse true b = Done (RArr [RBulk nm; RBulk key; RBulk val]) n /\ utf8_ok key = true
    | FNeed => parse true b = Incomplete
    | FGet _ _ => False
    | FNot => True
    end.
  Proof.
    intros Hs Hh. destruct (set_hdr_split b Hh) as (nm & Hnm & Hb).
    set (a := skipn HEADER_LEN b) in *.
    assert (Hsa : size_ok a) by (apply size_ok_skipn; exact Hs).
    assert (Hp : parse true b =
                 on_done (fst (parse_d true 31 a)) (fun v c =>
                   on_done (fst (parse_d true 31 (skipn c a))) (fun w c2 =>
                     Done (RArr [RBulk nm; v; w]) (4 + 9 + c + c2)))).
    { unfold parse, Resp.run, MAX_DEPTH. rewrite Hb at 1.
      rewrite (parse_arr3 nm a (encode (RBulk nm)) eq_refl) by (rewrite <- Hb; exact Hs).
      rewrite name_len9 by (now right). reflexivity. }
    unfold recog_set. fold a.
    destruct (scan_bulk HEADER_LEN a) as [key u1| |] eqn:E.
    - destruct (scan_bulk_ok _ _ _ _ Hsa E) as [H1 H2].
      assert (Hsk : skipn (HEADER_LEN + u1) b = skipn u1 a) by (unfold a; now rewrite skipn_plus).
      rewrite Hsk.
      assert (Hsa2 : size_ok (skipn u1 a)) by (apply size_ok_skipn; exact Hsa).
      destruct (scan_bulk (HEADER_LEN + u1) (skipn u1 a)) as [val u2| |] eqn:E2.
      + destruct (scan_bulk_ok _ _ _ _ Hsa2 E2) as [H3 H4].
        destruct (utf8_ok key) eqn:Eu; [|exact I].
        exists nm. split; [exact Hnm|]. split; [|exact Eu].
        rewrite Hp, (parse_d_dollar _ _ H2), H1. cbn [on_done].
        rewrite (parse_d_dollar _ _ H4), H3. reflexivity.
      + rewrite Hp, (parse_d_dollar _ _ H2), H1. cbn [on_done].
        destruct (scan_bulk_need _ _ Hsa2 E2) as [Hn|[H3 H4]].
        * rewrite Hn, parse_d_nil. reflexivity.
        * rewrite (parse_d_dollar _ _ H4), H3. reflexivity.
      + exact I.
    - destruct (scan_bulk_need _ _ Hsa E) as [Hn|[H1 H2]].
      + rewrite Hp, Hn, parse_d_nil. reflexivity.
      + rewrite Hp, (parse_d_dollar _ _ H2), H1. reflexivity.
    - exact I.
  Qed.

  (* the fast path never disagrees with the generic decoder *)
  Lemma try_fast_path_sound b : size_ok b ->
    match try_fast_path utf8_ok b with
    | FGet key n => exists nm, is_get_name nm /\ parse true b = Done (RArr [RBulk nm; RBulk key]) n
                               /\ utf8_ok key = true
    | FSet key val n => exists nm, is_set_name nm /\
                          parse true b = Done (RArr [RBulk nm; RBulk key; RBulk val]) n /\ utf8_ok key = true
    | FNeed => parse true b = Incomplete
    | FNot => True
    end.
  Proof.
    intros Hs. unfold try_fast_path. destruct (length b <? 12); [exact I|].
    destruct (is_get_hdr b) eqn:Eg.
    - pose proof (recog_get_sound b Hs Eg) as H. destruct (recog_get utf8_ok b); auto. contradiction.
    - destruct (is_set_hdr b) eqn:Es; [|exact I].
      pose proof (recog_set_sound b Hs Es) as H. destruct (recog_set utf8_ok b); auto. contradiction.
  Qed.
End Recog.

(* Proofs about Model/WalActor.v: the repaired always-fsync actor never acks Ok a write
   that a crash could lose; the legacy rotator does (two computed witnesses). *)
From Coq Require Import NArith List Bool Lia.
From RV Require Import Model.WalActor.
Import ListNotations.
Local Open Scope N_scope.

(* ---------------------------------------------------------------- reading files *)

Lemma take_entries_app : forall l x w, In w (take_entries l) -> In w (take_entries (l ++ x)).
Proof.
  induction l as [|i l IH]; intros x w H; [destruct H|].
  destruct i; cbn in *; try contradiction.
  destruct H as [H|H]; [left; exact H|right; apply IH; exact H].
Qed.

Lemma read_file_app : forall l x w, In w (read_file l) -> In w (read_file (l ++ x)).
Proof.
  intros [|i l] x w H; [destruct H|].
  destruct i; cbn in *; try contradiction. apply take_entries_app; exact H.
Qed.

Lemma firstn_app_prefix : forall (A : Type) n (l x : list A), exists y, firstn n (l ++ x) = firstn n l ++ y.
Proof.
  intros A n l x. rewrite firstn_app. eexists; reflexivity.
Qed.

Lemma read_file_firstn : forall n l w, In w (read_file (firstn n l)) -> In w (read_file l).
Proof.
  intros n l w H. rewrite <- (firstn_skipn n l). apply read_file_app; exact H.
Qed.

Lemma read_file_firstn_app : forall n l x w,
  In w (read_file (firstn n l)) -> In w (read_file (firstn n (l ++ x))).
Proof.
  intros n l x w H. destruct (firstn_app_prefix _ n l x) as [y ->]. apply read_file_app; exact H.
Qed.

(* ---------------------------------------------------------------- recovery = union over files *)

Lemma In_insert_by_seq : forall p q l, In q (insert_by_seq p l) <-> q = p \/ In q l.
Proof.
  intros p q l; induction l as [|a l IH]; cbn.
  - split; intros [H|H]; auto; destruct H.
  - destruct (fst p <=? fst a); cbn.
    + split; intros [H|H]; auto.
    + rewrite IH. split; intros H; decompose [or] H; auto.
Qed.

Lemma In_sort_by_seq : forall q l, In q (sort_by_seq l) <-> In q l.
Proof.
  intros q l; induction l as [|a l IH]; cbn; [reflexivity|].
  rewrite In_insert_by_seq, IH. split; intros [H|H]; auto.
Qed.

Lemma recover_all_In : forall st w,
  In w (recover_all st) <-> exists p, In p st /\ In w (read_file (f_items (snd p))).
Proof.
  intros st w. unfold recover_all. rewrite in_flat_map.
  split; intros [p [H1 H2]]; exists p; split; auto; apply In_sort_by_seq; exact H1.
Qed.

Definition durable (st : store) (w : N) : Prop := In w (recover_all (crash st)).
Definition live_at (st : store) (s : N) (w : N) : Prop :=
  exists f, In (s, f) st /\ In w (read_file (f_items f)).

Lemma durable_iff : forall st w,
  durable st w <-> exists p, In p st /\ In w (read_file (firstn (f_synced (snd p)) (f_items (snd p)))).
Proof.
  intros st w. unfold durable. rewrite recover_all_In. unfold crash. split.
  - intros [p [H1 H2]]. apply in_map_iff in H1. destruct H1 as [q [<- H1]]. exists q; split; auto.
  - intros [p [H1 H2]]. exists (fst p, crash_file (snd p)). split; [|exact H2].
    apply in_map_iff. exists p; auto.
Qed.

(* A file update that never takes a readable entry away, crashed or not. *)
Definition ext (g : file -> file) : Prop :=
  forall f w,
    (In w (read_file (f_items f)) -> In w (read_file (f_items (g f)))) /\
    (In w (read_file (firstn (f_synced f) (f_items f))) ->
     In w (read_file (firstn (f_synced (g f)) (f_items (g f))))).

Lemma ext_push : forall x, ext (f_push x).
Proof.
  intros x f w; cbn. split; [apply read_file_app|apply read_file_firstn_app].
Qed.

Lemma ext_sync : ext f_sync.
Proof.
  intros f w; cbn. split; [auto|]. rewrite firstn_all. apply read_file_firstn.
Qed.

Lemma In_st_map : forall st s g s' f,
  In (s', f) st -> In (s', if N.eqb s' s then g f else f) (st_map st s g).
Proof.
  induction st as [|[a b] st IH]; intros s g s' f H; [destruct H|].
  cbn. destruct H as [H|H].
  - inversion H; subst. destruct (N.eqb s' s); left; reflexivity.
  - destruct (N.eqb a s); right; apply IH; exact H.
Qed.

Lemma st_map_fst : forall st s g p, In p (st_map st s g) -> exists q, In q st /\ fst q = fst p.
Proof.
  induction st as [|[a b] st IH]; intros s g p H; [destruct H|].
  cbn in H. destruct (N.eqb a s); destruct H as [H|H].
  - subst p. exists (a, b); split; [left; reflexivity|reflexivity].
  - destruct (IH _ _ _ H) as [q [H1 H2]]. exists q; split; [right; exact H1|exact H2].
  - subst p. exists (a, b); split; [left; reflexivity|reflexivity].
  - destruct (IH _ _ _ H) as [q [H1 H2]]. exists q; split; [right; exact H1|exact H2].
Qed.

Lemma durable_st_map : forall st s g w, ext g -> durable st w -> durable (st_map st s g) w.
Proof.
  intros st s g w E. rewrite !durable_iff. intros [[s' f] [H1 H2]].
  exists (s', if N.eqb s' s then g f else f). split; [apply In_st_map; exact H1|].
  cbn in *. destruct (N.eqb s' s); [apply E; exact H2|exact H2].
Qed.

Lemma live_st_map : forall st s g s' w, ext g -> live_at st s' w -> live_at (st_map st s g) s' w.
Proof.
  intros st s g s' w E [f [H1 H2]].
  exists (if N.eqb s' s then g f else f). split; [apply In_st_map; exact H1|].
  destruct (N.eqb s' s); [apply E; exact H2|exact H2].
Qed.

Lemma sync_makes_durable : forall st s w, live_at st s w -> durable (st_map st s f_sync) w.
Proof.
  intros st s w [f [H1 H2]]. apply durable_iff.
  exists (s, f_sync f). split.
  - pose proof (In_st_map st s f_sync s f H1) as H. rewrite N.eqb_refl in H. exact H.
  - cbn. rewrite firstn_all. exact H2.
Qed.

Lemma In_st_create : forall st s p, In p st -> fst p <> s -> In p (st_create st s).
Proof.
  intros st s p H Hn. unfold st_create, st_remove. apply in_or_app; left.
  apply filter_In. split; [exact H|]. apply negb_true_iff. apply N.eqb_neq; exact Hn.
Qed.

Lemma st_create_fst : forall st s p, In p (st_create st s) -> In p st \/ fst p = s.
Proof.
  intros st s p H. unfold st_create, st_remove in H. apply in_app_or in H. destruct H as [H|H].
  - apply filter_In in H. left; apply H.
  - destruct H as [H|[]]. subst p. right; reflexivity.
Qed.

Lemma durable_st_create : forall st s w,
  (forall p, In p st -> fst p <> s) -> durable st w -> durable (st_create st s) w.
Proof.
  intros st s w F. rewrite !durable_iff. intros [p [H1 H2]].
  exists p; split; [apply In_st_create; auto|exact H2].
Qed.

Lemma push_effect_durable : forall st s x o w, durable st w -> durable (push_effect st s x o) w.
Proof.
  intros st s x o w H. destruct o as [|[| |]]; cbn; auto; apply durable_st_map; auto using ext_push.
Qed.

Lemma push_effect_live : forall st s x o s' w, live_at st s' w -> live_at (push_effect st s x o) s' w.
Proof.
  intros st s x o s' w H. destruct o as [|[| |]]; cbn; auto; apply live_st_map; auto using ext_push.
Qed.

Lemma push_effect_fst : forall st s x o p, In p (push_effect st s x o) -> exists q, In q st /\ fst q = fst p.
Proof.
  intros st s x o p H. destruct o as [|[| |]]; cbn in H; eauto using st_map_fst.
Qed.


Arguments push_effect : simpl never.
Arguments durable : simpl never.
Arguments live_at : simpl never.
Arguments recover_all : simpl never.
Arguments crash : simpl never.
Arguments st_create : simpl never.
Arguments st_map : simpl never.

(* ---------------------------------------------------------------- the invariant *)

(* [safe]: durable, or legitimately removed by a TruncateUpTo (an entry of a deleted file) *)
Definition safe (st : state) (w : N) : Prop := In w (s_released st) \/ durable (s_store st) w.

Definition PD (st : state) : Prop := forall w, In w (s_pending st) -> safe st w.

Definition SeqBound (st : state) : Prop := forall p, In p (s_store st) -> fst p <= s_seq st.

(* The file of a current writer that has not seen an append error is a header followed by
   whole entries only (so an entry appended to it is readable). *)
Definition Clean (st : state) : Prop :=
  forall wr, s_cur st = Some wr -> s_force st = false ->
  exists f ws, In (w_seq wr, f) (s_store st) /\ f_items f = IHdr :: map IEnt ws.

(* Every entry acked Ok lies below the synced count of a readable file (or was in a file
   that a truncation deleted); every entry with a pending ack is either already there or
   readable in the current writer's file (so the next successful fsync of the current
   writer puts it there); sequence numbers of existing files never exceed
   current_sequence (so create never replaces a file). *)
Definition Inv (st : state) : Prop :=
  (forall w, In w (s_ok st) -> safe st w) /\
  (forall w, In w (s_pending st) ->
     safe st w \/ exists wr, s_cur st = Some wr /\ live_at (s_store st) (w_seq wr) w) /\
  SeqBound st /\ Clean st.

#[local] Hint Extern 1 (s_released _ = s_released _) =>
  (repeat match goal with x := _ |- _ => subst x end); cbn in *; congruence : core.

Lemma safe_transfer : forall st st' w,
  (forall w, durable (s_store st) w -> durable (s_store st') w) ->
  s_released st' = s_released st -> safe st w -> safe st' w.
Proof. intros st st' w Hd Hr [R|D]; [left; rewrite Hr; exact R|right; auto]. Qed.

Lemma Inv_transfer_seq : forall st st',
  s_released st' = s_released st ->
  (forall w, durable (s_store st) w -> durable (s_store st') w) ->
  (forall s w, live_at (s_store st) s w -> live_at (s_store st') s w) ->
  (forall wr, s_cur st = Some wr -> exists wr', s_cur st' = Some wr' /\ w_seq wr' = w_seq wr) ->
  s_ok st' = s_ok st -> s_pending st' = s_pending st ->
  SeqBound st' -> Clean st' -> Inv st -> Inv st'.
Proof.
  intros st st' Hr Hd Hl Hc Ho Hp Hs Hcl [I1 [I2 [I3 I4]]]. split; [|split; [|split]]; auto.
  - intros w H. rewrite Ho in H. eapply safe_transfer; eauto.
  - intros w H. rewrite Hp in H. destruct (I2 w H) as [D|[wr [C L]]]; [left; eapply safe_transfer; eauto|].
    right. destruct (Hc wr C) as [wr' [C' S']]. exists wr'. rewrite S'. auto.
Qed.

Lemma Inv_transfer : forall st st',
  s_released st' = s_released st ->
  (forall w, durable (s_store st) w -> durable (s_store st') w) ->
  (forall s w, live_at (s_store st) s w -> live_at (s_store st') s w) ->
  s_cur st' = s_cur st -> s_ok st' = s_ok st -> s_pending st' = s_pending st ->
  SeqBound st' -> Clean st' -> Inv st -> Inv st'.
Proof.
  intros st st' Hr Hd Hl Hc. apply Inv_transfer_seq; auto.
  intros wr C. exists wr. rewrite Hc. auto.
Qed.

Lemma Inv_PD_transfer : forall st st',
  s_released st' = s_released st ->
  (forall w, durable (s_store st) w -> durable (s_store st') w) ->
  s_ok st' = s_ok st -> s_pending st' = s_pending st ->
  SeqBound st' -> Clean st' -> Inv st -> PD st -> Inv st' /\ PD st'.
Proof.
  intros st st' Hr Hd Ho Hp Hs Hcl [I1 [I2 [I3 I4]]] P.
  assert (P' : PD st') by (intros w H; rewrite Hp in H; eapply safe_transfer; eauto).
  split; [|exact P']. split; [|split; [|split]]; auto.
  intros w H. rewrite Ho in H. eapply safe_transfer; eauto.
Qed.

Lemma Inv_PD_intro : forall st st',
  s_released st' = s_released st ->
  (forall w, durable (s_store st) w -> durable (s_store st') w) ->
  s_ok st' = s_ok st -> s_pending st' = s_pending st ->
  SeqBound st' -> Clean st' -> Inv st ->
  (forall w, In w (s_pending st) -> safe st' w) -> Inv st' /\ PD st'.
Proof.
  intros st st' Hr Hd Ho Hp Hs Hcl [I1 [I2 [I3 I4]]] P.
  assert (P' : PD st') by (intros w H; rewrite Hp in H; auto).
  split; [|exact P']. split; [|split; [|split]]; auto.
  intros w H. rewrite Ho in H. eapply safe_transfer; eauto.
Qed.

Lemma Clean_none : forall st, s_cur st = None -> Clean st.
Proof. intros st H wr C. rewrite H in C. discriminate C. Qed.

Lemma do_io_same : forall st c o st', do_io st c = Some (o, st') ->
  s_store st' = s_store st /\ s_cur st' = s_cur st /\ s_seq st' = s_seq st /\
  s_pending st' = s_pending st /\ s_ok st' = s_ok st /\ s_force st' = s_force st /\ s_halt st' = s_halt st /\
  s_released st' = s_released st.
Proof.
  intros st c o st' H. unfold do_io in H. destruct (s_io st); [discriminate|].
  inversion H; subst; cbn. repeat split.
Qed.

Ltac io_same H :=
  let a := fresh "Est" in let b := fresh "Ecur" in let c := fresh "Eseq" in
  let d := fresh "Epen" in let e := fresh "Eok" in let f := fresh "Efo" in let g := fresh "Eha" in
  let h := fresh "Erel" in
  destruct (do_io_same _ _ _ _ H) as [a [b [c [d [e [f [g h]]]]]]].

Ltac fin A B :=
  split; [exact A|split; [exact B|split; [cbn; congruence|split; [cbn; congruence|
    try (let X := fresh in intro X; discriminate X)]]]].

(* rotate_open: entered with every pending entry already durable *)
Lemma rotate_open_inv : forall st st' r, rotate_open st = (st', r) -> Inv st -> PD st ->
  Inv st' /\ PD st' /\ s_pending st' = s_pending st /\ s_ok st' = s_ok st /\
  (r = ROk -> exists wr, s_cur st' = Some wr /\ s_force st' = false).
Proof.
  intros st st' r H I P. unfold rotate_open in H.
  set (s := s_seq st + 1) in *.
  set (st0 := set_rot st None s false) in *.
  assert (F : forall p, In p (s_store st) -> fst p <> s).
  { intros p Hp. destruct I as [_ [_ [I3 _]]]. specialize (I3 p Hp). unfold s. lia. }
  assert (B0 : forall p, In p (s_store st) -> fst p <= s).
  { intros p Hp. destruct I as [_ [_ [I3 _]]]. specialize (I3 p Hp). unfold s. lia. }
  assert (BC : forall p, In p (st_create (s_store st) s) -> fst p <= s).
  { intros p Hp. apply st_create_fst in Hp. destruct Hp as [Hp| ->]; [auto|lia]. }
  destruct (do_io st0 (CCreate s)) as [[o st1]|] eqn:E1.
  2:{ inversion H; subst st' r; clear H.
      destruct (Inv_PD_transfer st (set_halt st0)) as [A B]; cbn; auto.
      - apply Clean_none; reflexivity.
      - fin A B. }
  io_same E1. cbn in Est, Ecur, Eseq, Epen, Eok.
  destruct o as [|e].
  - (* created *)
    set (st2 := set_store st1 (st_create (s_store st1) s)) in *.
    destruct (do_io st2 (CHdr s)) as [[o st3]|] eqn:E2.
    2:{ inversion H; subst st' r; clear H.
        destruct (Inv_PD_transfer st (set_halt st2)) as [A B]; cbn; auto.
        - intros w D. rewrite Est. apply durable_st_create; auto.
        - intros p Hp. cbn in Hp |- *. rewrite Est in Hp. rewrite ?Eseq. auto.
        - apply Clean_none; exact Ecur.
        - fin A B. }
    io_same E2. cbn in Est0, Ecur0, Eseq0, Epen0, Eok0.
    destruct o as [|e].
    + inversion H; subst st' r; clear H.
      match goal with |- Inv ?X /\ _ => set (st4 := X) end.
      destruct (Inv_PD_transfer st st4) as [A B]; unfold st4; cbn; auto.
      * intros w D. rewrite Est0, Est. apply push_effect_durable. apply durable_st_create; auto.
      * congruence.
      * congruence.
      * intros p Hp. cbn in Hp. rewrite Est0, Est in Hp. apply push_effect_fst in Hp. destruct Hp as [q [Hq <-]]. auto.
      * intros wr C _. cbn in C. inversion C; subst wr; clear C. cbn.
        rewrite Est0, Est. exists (f_push IHdr (File [] 0%nat)), []. split; [|reflexivity].
        pose proof (In_st_map (st_create (s_store st) s) s (f_push IHdr) s (File [] 0%nat)) as M.
        rewrite N.eqb_refl in M. apply M. unfold st_create. apply in_or_app; right; left; reflexivity.
      * fin A B. intros _. eexists; split; reflexivity.
    + inversion H; subst st' r; clear H.
      match goal with |- Inv ?X /\ _ => set (st4 := X) end.
      destruct (Inv_PD_transfer st st4) as [A B]; unfold st4; cbn; auto.
      * intros w D. rewrite Est0, Est. apply push_effect_durable. apply durable_st_create; auto.
      * congruence.
      * congruence.
      * intros p Hp. cbn in Hp. rewrite Est0, Est in Hp. apply push_effect_fst in Hp. destruct Hp as [q [Hq <-]].
        cbn. rewrite Eseq0, Eseq. auto.
      * apply Clean_none. cbn. congruence.
      * fin A B.
  - destruct e.
    + inversion H; subst st' r; clear H.
      destruct (Inv_PD_transfer st st1) as [A B]; auto.
      * intros w D. rewrite Est. exact D.
      * intros p Hp. rewrite Est in Hp. rewrite Eseq. auto.
      * apply Clean_none; exact Ecur.
      * fin A B.
    + inversion H; subst st' r; clear H.
      match goal with |- Inv ?X /\ _ => set (st4 := X) end.
      destruct (Inv_PD_transfer st st4) as [A B]; unfold st4; cbn; auto.
      * intros w D. rewrite Est. apply durable_st_create; auto.
      * intros p Hp. cbn in Hp |- *. rewrite Est in Hp. rewrite ?Eseq. auto.
      * apply Clean_none; exact Ecur.
      * fin A B.
    + inversion H; subst st' r; clear H.
      match goal with |- Inv ?X /\ _ => set (st4 := X) end.
      destruct (Inv_PD_transfer st st4) as [A B]; unfold st4; cbn; auto.
      * intros w D. rewrite Est. apply durable_st_create; auto.
      * intros p Hp. cbn in Hp |- *. rewrite Est in Hp. rewrite ?Eseq. auto.
      * apply Clean_none; exact Ecur.
      * fin A B.
Qed.

(* After a successful fsync of the current writer every pending entry is durable. *)
Lemma sync_cur_PD : forall st wr x,
  Inv st -> s_cur st = Some wr -> x = st_map (s_store st) (w_seq wr) f_sync ->
  forall w, In w (s_pending st) -> In w (s_released st) \/ durable x w.
Proof.
  intros st wr x [_ [I2 _]] C -> w H.
  destruct (I2 w H) as [[R|D]|[wr' [C' L]]].
  - left; exact R.
  - right. apply durable_st_map; auto using ext_sync.
  - right. rewrite C in C'. inversion C'; subst wr'. apply sync_makes_durable; exact L.
Qed.

Lemma Clean_st_map : forall st st' s g,
  (g = f_sync \/ exists w, g = f_push (IEnt w)) ->
  s_store st' = st_map (s_store st) s g -> s_cur st' = s_cur st -> s_force st' = s_force st ->
  Clean st -> Clean st'.
Proof.
  intros st st' s g G Es Ec Ef Cl wr C Fo. rewrite Ec in C. rewrite Ef in Fo.
  destruct (Cl wr C Fo) as [f [ws [H1 H2]]].
  pose proof (In_st_map _ s g _ _ H1) as M. rewrite Es.
  destruct (N.eqb (w_seq wr) s).
  - destruct G as [->|[w ->]].
    + exists (f_sync f), ws. split; [exact M|exact H2].
    + exists (f_push (IEnt w) f), (ws ++ [w]). split; [exact M|].
      cbn. rewrite H2, map_app. reflexivity.
  - exists f, ws. split; [exact M|exact H2].
Qed.

Lemma rotate_inv : forall st st' r, rotate Repaired st = (st', r) -> Inv st ->
  Inv st' /\ s_pending st' = s_pending st /\ s_ok st' = s_ok st /\
  (r = ROk -> exists wr, s_cur st' = Some wr /\ s_force st' = false).
Proof.
  intros st st' r H I. unfold rotate in H.
  destruct (s_cur st) as [wr|] eqn:C.
  - destruct (do_io st (CSync (w_seq wr))) as [[o st1]|] eqn:E1.
    2:{ inversion H; subst st' r; clear H. split; [|split; [reflexivity|split; [reflexivity|intro X; discriminate X]]].
        apply (Inv_transfer st); cbn; auto; apply I. }
    io_same E1.
    destruct o as [|e].
    + set (st2 := set_store st1 (st_map (s_store st1) (w_seq wr) f_sync)) in *.
      assert (I2 : Inv st2 /\ PD st2).
      { apply (Inv_PD_intro st st2); unfold st2; cbn; auto.
        - intros w D. rewrite Est. apply durable_st_map; auto using ext_sync.
        - intros p Hp. cbn in Hp. rewrite Est in Hp. apply st_map_fst in Hp. destruct Hp as [q [Hq <-]].
          cbn. rewrite Eseq. apply I; exact Hq.
        - apply (Clean_st_map st _ (w_seq wr) f_sync); cbn; auto; try congruence. apply I.
        - intros w Hw. unfold safe; cbn. rewrite Erel, Est. apply (sync_cur_PD st wr); auto. }
      destruct I2 as [I2 P2].
      destruct (rotate_open_inv _ _ _ H I2 P2) as [A [B [Hp [Ho R]]]].
      split; [exact A|]. split; [rewrite Hp; cbn; exact Epen|]. split; [rewrite Ho; cbn; exact Eok|exact R].
    + inversion H; subst st' r; clear H.
      split; [|split; [exact Epen|split; [exact Eok|intro X; discriminate X]]].
      apply (Inv_transfer st); auto; try congruence.
      * intros p Hp. rewrite Est in Hp. rewrite Eseq. apply I; exact Hp.
      * intros wr' C' F'. rewrite Ecur in C'. rewrite Efo in F'. rewrite Est. apply I; auto.
  - assert (P : PD st).
    { intros w Hw. destruct I as [_ [I2 _]]. destruct (I2 w Hw) as [D|[wr [C' _]]]; [exact D|].
      rewrite C in C'. discriminate C'. }
    destruct (rotate_open_inv _ _ _ H I P) as [A [B [Hp [Ho R]]]]. auto.
Qed.

Lemma push_ent_live : forall st s f ws w,
  In (s, f) st -> f_items f = IHdr :: map IEnt ws ->
  live_at (st_map st s (f_push (IEnt w))) s w.
Proof.
  intros st s f ws w H1 H2. exists (f_push (IEnt w) f). split.
  - pose proof (In_st_map st s (f_push (IEnt w)) s f H1) as M. rewrite N.eqb_refl in M. exact M.
  - cbn. rewrite H2. cbn. clear. induction ws; cbn; auto.
Qed.

Lemma rot_append_inv : forall cfg st w size st' r,
  c_variant cfg = Repaired -> rot_append cfg st w size = (st', r) -> Inv st ->
  Inv st' /\ s_pending st' = s_pending st /\ s_ok st' = s_ok st /\
  (r = ROk -> exists wr, s_cur st' = Some wr /\ live_at (s_store st') (w_seq wr) w).
Proof.
  intros cfg st w size st' r V H I. unfold rot_append in H. rewrite V in H.
  set (needs := match s_cur st with None => true | Some wr => s_force st || (c_max_file_size cfg <=? w_size wr) end) in *.
  assert (R : exists st1 r1, (if needs then rotate Repaired st else (st, ROk)) = (st1, r1) /\
              Inv st1 /\ s_pending st1 = s_pending st /\ s_ok st1 = s_ok st /\
              (r1 = ROk -> exists wr, s_cur st1 = Some wr /\ s_force st1 = false)).
  { destruct needs eqn:N.
    - destruct (rotate Repaired st) as [st1 r1] eqn:E. exists st1, r1. split; [reflexivity|].
      apply (rotate_inv _ _ _ E I).
    - exists st, ROk. split; [reflexivity|]. split; [exact I|]. split; [reflexivity|]. split; [reflexivity|].
      intros _. unfold needs in N. destruct (s_cur st) as [wr|]; [|discriminate N].
      apply orb_false_iff in N. exists wr. split; [reflexivity|apply N]. }
  destruct R as [st1 [r1 [E [I1 [Hp [Ho R]]]]]]. rewrite E in H.
  destruct r1.
  2:{ inversion H; subst st' r; clear H. split; [exact I1|split; [exact Hp|split; [exact Ho|intro X; discriminate X]]]. }
  2:{ inversion H; subst st' r; clear H. split; [exact I1|split; [exact Hp|split; [exact Ho|intro X; discriminate X]]]. }
  2:{ inversion H; subst st' r; clear H. split; [exact I1|split; [exact Hp|split; [exact Ho|intro X; discriminate X]]]. }
  destruct (R eq_refl) as [wr [C Fo]]. rewrite C in H.
  destruct I1 as [J1 [J2 [J3 J4]]].
  destruct (J4 wr C Fo) as [f [ws [F1 F2]]].
  destruct (do_io st1 (CEnt (w_seq wr) w)) as [[o st2]|] eqn:E2.
  2:{ inversion H; subst st' r; clear H.
      split; [|split; [exact Hp|split; [exact Ho|intro X; discriminate X]]].
      apply (Inv_transfer st1); cbn; auto. split; [|split; [|split]]; auto. }
  io_same E2.
  assert (SB : forall x o', (forall p, In p (push_effect (s_store st1) (w_seq wr) x o') -> fst p <= s_seq st1)).
  { intros x o' p Hq. apply push_effect_fst in Hq. destruct Hq as [q [Hq <-]]. apply J3; exact Hq. }
  destruct o as [|e].
  - inversion H; subst st' r; clear H. cbn.
    split; [|split; [congruence|split; [congruence|]]].
    + apply (Inv_transfer_seq st1); cbn; auto; try congruence.
      * intros x D. rewrite Est. apply push_effect_durable; exact D.
      * intros s x L. rewrite Est. apply push_effect_live; exact L.
      * intros wr0 C0. rewrite C in C0. inversion C0; subst wr0. eexists; split; reflexivity.
      * intros p Hq. cbn in Hq |- *. rewrite Est in Hq. rewrite Eseq. eapply SB; exact Hq.
      * intros wr' C' F'. cbn in C', F' |- *. inversion C'; subst wr'; clear C'. cbn.
        rewrite Est. exists (f_push (IEnt w) f), (ws ++ [w]). split.
        -- pose proof (In_st_map (s_store st1) (w_seq wr) (f_push (IEnt w)) _ _ F1) as M.
           rewrite N.eqb_refl in M. exact M.
        -- cbn. rewrite F2, map_app. reflexivity.
      * split; [|split; [|split]]; auto.
    + intros _. eexists; split; [reflexivity|]. cbn. rewrite Est.
      apply (push_ent_live _ _ f ws); auto.
  - inversion H; subst st' r; clear H. cbn.
    split; [|split; [congruence|split; [congruence|intro X; discriminate X]]].
    apply (Inv_transfer st1); cbn; auto; try congruence.
    + intros x D. rewrite Est. apply push_effect_durable; exact D.
    + intros s x L. rewrite Est. apply push_effect_live; exact L.
    + intros p Hq. cbn in Hq |- *. rewrite Est in Hq. rewrite Eseq. eapply SB; exact Hq.
    + intros wr' C' F'. cbn in F'. discriminate F'.
    + split; [|split; [|split]]; auto.
Qed.

(* ---------------------------------------------------------------- acks, the actor *)

Lemma Inv_ack_false : forall st w, Inv st -> Inv (ack st w false).
Proof. intros st w I. apply (Inv_transfer st); cbn; auto; apply I. Qed.

Lemma Inv_set_over : forall st, Inv st -> Inv (set_over st).
Proof. intros st I. apply (Inv_transfer st); cbn; auto; apply I. Qed.

Lemma Inv_set_halt : forall st, Inv st -> Inv (set_halt st).
Proof. intros st I. apply (Inv_transfer st); cbn; auto; apply I. Qed.

Lemma handle_write_inv : forall cfg st w size acked,
  c_variant cfg = Repaired -> Inv st -> Inv (handle_write cfg st w size acked).
Proof.
  intros cfg st w size acked V I. unfold handle_write.
  set (st0 := if c_max_entries cfg <=? s_since st then set_over st else st).
  assert (I0 : Inv st0) by (unfold st0; destruct (c_max_entries cfg <=? s_since st); auto using Inv_set_over).
  destruct (rot_append cfg st0 w size) as [st1 r] eqn:E.
  destruct (rot_append_inv _ _ _ _ _ _ V E I0) as [I1 [Hp [Ho R]]].
  destruct r.
  - destruct (R eq_refl) as [wr [C L]]. destruct I1 as [J1 [J2 [J3 J4]]].
    split; [|split; [|split]]; cbn; auto.
    intros x Hx. destruct acked; [|exact (J2 x Hx)].
    apply in_app_or in Hx. destruct Hx as [Hx|[<-|[]]]; [exact (J2 x Hx)|].
    right. exists wr. auto.
  - destruct acked; [apply Inv_ack_false; exact I1|exact I1].
  - exact I1.
  - exact I1.
Qed.

Lemma fold_ack_props : forall ok l st,
  let st' := fold_left (fun a w => ack a w ok) l st in
  s_store st' = s_store st /\ s_cur st' = s_cur st /\ s_seq st' = s_seq st /\
  s_force st' = s_force st /\ s_halt st' = s_halt st /\ s_released st' = s_released st /\
  (forall w, In w (s_ok st') -> In w (s_ok st) \/ (ok = true /\ In w l)).
Proof.
  intros ok l; induction l as [|a l IH]; intros st; cbn.
  - repeat split; auto.
  - destruct (IH (ack st a ok)) as [H1 [H2 [H3 [H4 [H5 [H7 H6]]]]]]. cbn in *.
    repeat split; auto.
    intros w Hw. destruct (H6 w Hw) as [H|[H H']]; [|right; auto].
    destruct ok; cbn in H; [|left; exact H].
    destruct H as [<-|H]; [right; auto|left; exact H].
Qed.

Lemma resolve_all_inv : forall st ok,
  Inv st -> (ok = true -> PD st) -> Inv (resolve_all st ok).
Proof.
  intros st ok [I1 [I2 [I3 I4]]] P. unfold resolve_all.
  destruct (fold_ack_props ok (s_pending st) st) as [H1 [H2 [H3 [H4 [H5 [H7 H6]]]]]].
  set (st' := fold_left (fun a w => ack a w ok) (s_pending st) st) in *.
  assert (S : forall w, safe st w -> safe (State (s_store st') (s_cur st') (s_seq st') (s_force st') [] 0
        (s_ok st') (s_err st') (s_log st') (s_io st') (s_halt st') (s_over st') (s_panic st') (s_released st')) w).
  { intros w [R|D]; [left|right]; cbn; [rewrite H7|rewrite H1]; auto. }
  split; [|split; [|split]]; cbn.
  - intros w Hw. apply S. destruct (H6 w Hw) as [H|[H H']]; [auto|]. apply (P H); exact H'.
  - intros w [].
  - intros p Hp. cbn in Hp |- *. rewrite H1 in Hp. rewrite H3. auto.
  - intros wr C F. cbn in C, F |- *. rewrite H2 in C. rewrite H4 in F. rewrite H1. auto.
Qed.

Lemma flush_inv : forall st, Inv st -> Inv (flush st).
Proof.
  intros st I. unfold flush.
  destruct (s_since st =? 0); [exact I|].
  destruct (s_cur st) as [wr|] eqn:C.
  - destruct (do_io st (CSync (w_seq wr))) as [[o st1]|] eqn:E1; [|apply Inv_set_halt; exact I].
    io_same E1. destruct o as [|e].
    + set (st2 := set_store st1 (st_map (s_store st1) (w_seq wr) f_sync)).
      assert (I2 : Inv st2 /\ PD st2).
      { apply (Inv_PD_intro st st2); unfold st2; cbn; auto.
        - intros w D. rewrite Est. apply durable_st_map; auto using ext_sync.
        - intros p Hp. cbn in Hp. rewrite Est in Hp. apply st_map_fst in Hp. destruct Hp as [q [Hq <-]].
          cbn. rewrite Eseq. apply I; exact Hq.
        - apply (Clean_st_map st _ (w_seq wr) f_sync); cbn; auto; try congruence. apply I.
        - intros w Hw. unfold safe; cbn. rewrite Erel, Est. apply (sync_cur_PD st wr); auto. }
      apply resolve_all_inv; [apply I2|intros _; apply I2].
    + apply resolve_all_inv; [|intro X; discriminate X].
      apply (Inv_transfer st); auto; try congruence.
      * intros p Hp. rewrite Est in Hp. rewrite Eseq. apply I; exact Hp.
      * intros wr' C' F'. rewrite Ecur in C'. rewrite Efo in F'. rewrite Est. apply I; auto.
  - apply resolve_all_inv; [exact I|]. intros _ w Hw.
    destruct I as [_ [I2 _]]. destruct (I2 w Hw) as [D|[wr [C' _]]]; [exact D|].
    rewrite C in C'. discriminate C'.
Qed.

Lemma shutdown_inv : forall st, Inv st -> Inv (shutdown st).
Proof.
  intros st I. unfold shutdown. pose proof (flush_inv st I) as F.
  destruct (s_halt (flush st)); [exact F|].
  apply (Inv_transfer (flush st)); cbn; auto; apply F.
Qed.

(* ---------------------------------------------------------------- truncation *)

Lemma In_files_at : forall st s f, In f (files_at st s) <-> In (s, f) st.
Proof.
  intros st s f. unfold files_at. rewrite in_map_iff. split.
  - intros [[a b] [E H]]. cbn in E; subst b. apply filter_In in H. destruct H as [H1 H2].
    cbn in H2. apply N.eqb_eq in H2. subst a. exact H1.
  - intros H. exists (s, f). split; [reflexivity|]. apply filter_In. split; [exact H|].
    cbn. apply N.eqb_refl.
Qed.

Lemma In_entries_at : forall st s w,
  In w (entries_at st s) <-> exists f, In (s, f) st /\ In w (read_file (f_items f)).
Proof.
  intros st s w. unfold entries_at. rewrite in_flat_map. split.
  - intros [f [H1 H2]]. exists f. split; [apply In_files_at; exact H1|exact H2].
  - intros [f [H1 H2]]. exists f. split; [apply In_files_at; exact H1|exact H2].
Qed.

Lemma In_st_remove : forall st s p, In p (st_remove st s) <-> In p st /\ fst p <> s.
Proof.
  intros st s p. unfold st_remove. rewrite filter_In. split; intros [H1 H2]; split; auto.
  - apply negb_true_iff in H2. apply N.eqb_neq; exact H2.
  - apply negb_true_iff. apply N.eqb_neq; exact H2.
Qed.

Lemma safe_delete : forall st s w, safe st w -> safe (delete_file st s) w.
Proof.
  intros st s w [R|D]; [left; cbn; apply in_or_app; right; exact R|].
  apply durable_iff in D. destruct D as [[a f] [H1 H2]]. cbn in H2.
  destruct (N.eq_dec a s) as [->|Ne].
  - left. cbn. apply in_or_app; left. apply In_entries_at. exists f. split; [exact H1|].
    apply read_file_firstn in H2; exact H2.
  - right. cbn. apply durable_iff. exists (a, f). split; [apply In_st_remove; auto|exact H2].
Qed.

Lemma delete_file_inv : forall st s,
  (forall wr, s_cur st = Some wr -> w_seq wr <> s) -> Inv st -> Inv (delete_file st s).
Proof.
  intros st s Hc [I1 [I2 [I3 I4]]]. split; [|split; [|split]].
  - intros w H. apply safe_delete. apply I1; exact H.
  - intros w H. destruct (I2 w H) as [S|[wr [C [f [L1 L2]]]]]; [left; apply safe_delete; exact S|].
    right. exists wr. split; [exact C|]. exists f. split; [|exact L2].
    cbn. apply In_st_remove. split; [exact L1|]. cbn. apply Hc; exact C.
  - intros p Hp. cbn in Hp |- *. apply In_st_remove in Hp. apply I3; apply Hp.
  - intros wr C F. cbn in C, F. destruct (I4 wr C F) as [f [ws [H1 H2]]].
    exists f, ws. split; [|exact H2]. cbn. apply In_st_remove. split; [exact H1|]. cbn. apply Hc; exact C.
Qed.

Lemma truncate_files_inv : forall names st t cur,
  cur = option_map w_seq (s_cur st) -> Inv st -> Inv (truncate_files st t cur names).
Proof.
  induction names as [|s names IH]; intros st t cur Hc I; cbn; [exact I|].
  destruct (match cur with Some c => c =? s | None => false end) eqn:Sk; [apply IH; auto|].
  assert (Ne : forall wr, s_cur st = Some wr -> w_seq wr <> s).
  { intros wr C. rewrite C in Hc. cbn in Hc. subst cur. apply N.eqb_neq; exact Sk. }
  destruct (deletable_at t (s_store st) s); [|apply IH; auto].
  destruct (do_io st (CDel s)) as [[o st1]|] eqn:E1; [|apply Inv_set_halt; exact I].
  io_same E1.
  assert (I1 : Inv st1).
  { apply (Inv_transfer st); auto; try congruence.
    - intros p Hp. rewrite Est in Hp. rewrite Eseq. apply I; exact Hp.
    - intros wr' C' F'. rewrite Ecur in C'. rewrite Efo in F'. rewrite Est. apply I; auto. }
  assert (Ne1 : forall wr, s_cur st1 = Some wr -> w_seq wr <> s) by (intros wr C; apply Ne; congruence).
  destruct o as [|[| |]].
  - apply IH; [cbn; congruence|apply delete_file_inv; auto].
  - exact I1.
  - apply delete_file_inv; auto.
  - apply delete_file_inv; auto.
Qed.

Lemma truncate_inv : forall st t, Inv st -> Inv (truncate st t).
Proof.
  intros st t I. unfold truncate. apply truncate_files_inv; [reflexivity|].
  apply (Inv_transfer st); cbn; auto; apply I.
Qed.

Lemma step_inv : forall cfg st ev, c_variant cfg = Repaired -> Inv st -> Inv (step cfg st ev).
Proof.
  intros cfg st ev V I. unfold step. destruct (s_halt st); [exact I|].
  destruct ev; [apply handle_write_inv; auto|apply handle_write_inv; auto|apply flush_inv; auto|apply truncate_inv; auto|apply shutdown_inv; auto].
Qed.

Lemma max_seq_bound : forall st p, In p st -> fst p <= max_seq st.
Proof.
  induction st as [|a st IH]; intros p H; [destruct H|].
  change (max_seq (a :: st)) with (N.max (fst a) (max_seq st)).
  destruct H as [<-|H]; [lia|]. specialize (IH p H). lia.
Qed.

Lemma init_from_inv : forall st0 acked0 err0 rel0 io,
  (forall w, In w acked0 -> In w rel0 \/ durable st0 w) -> Inv (init_from st0 acked0 err0 rel0 io).
Proof.
  intros st0 acked0 err0 rel0 io H. split; [|split; [|split]]; cbn.
  - exact H.
  - intros w [].
  - intros p Hp. apply max_seq_bound; exact Hp.
  - intros wr C. discriminate C.
Qed.

Lemma init_inv : forall io, Inv (init io).
Proof. intros io. apply init_from_inv. intros w []. Qed.

Lemma fold_step_inv : forall cfg sched st,
  c_variant cfg = Repaired -> Inv st -> Inv (fold_left (step cfg) sched st).
Proof.
  intros cfg sched; induction sched as [|ev sched IH]; intros st V I; cbn; [exact I|].
  apply IH; [exact V|apply step_inv; auto].
Qed.

Lemma run_inv : forall cfg sched io, c_variant cfg = Repaired -> Inv (run cfg sched io).
Proof. intros cfg sched io V. apply fold_step_inv; [exact V|apply init_inv]. Qed.

(* The property: every write acked Ok is returned by recovery after a crash - unless it sat
   in a file that a TruncateUpTo deleted - for every schedule, every outcome stream (hence
   every fault placement and every crash instant). *)
Theorem acked_survive_unless_released : forall cfg sched io,
  c_variant cfg = Repaired ->
  forall w, In w (acked_ok (run cfg sched io)) -> ~ In w (s_released (run cfg sched io)) ->
  In w (recovered_after_crash (run cfg sched io)).
Proof.
  intros cfg sched io V w H NR. destruct (run_inv cfg sched io V) as [I1 _].
  destruct (I1 w H) as [R|D]; [contradiction|exact D].
Qed.

(* create never replaces an existing file (sequence numbers only grow) *)
Lemma seq_bound_run : forall cfg sched io p,
  c_variant cfg = Repaired -> In p (s_store (run cfg sched io)) -> fst p <= s_seq (run cfg sched io).
Proof. intros cfg sched io p V H. destruct (run_inv cfg sched io V) as [_ [_ [I3 _]]]. apply I3; exact H. Qed.

(* ---------------------------------------------------------------- crashes that spare more; restarts *)

Lemma read_file_firstn_le : forall n m l w, (n <= m)%nat ->
  In w (read_file (firstn n l)) -> In w (read_file (firstn m l)).
Proof.
  intros n m l w L H. replace (firstn n l) with (firstn n (firstn m l)) in H.
  - apply read_file_firstn in H; exact H.
  - rewrite firstn_firstn. f_equal. lia.
Qed.

Lemma crash_keep_In : forall keep st w,
  durable st w -> exists q, In q (crash_keep keep st) /\
    In w (read_file (f_items (snd q))) /\ f_synced (snd q) = length (f_items (snd q)).
Proof.
  intros keep st w D. apply durable_iff in D. destruct D as [p [H1 H2]].
  exists (fst p, crash_file_keep (keep (fst p)) (snd p)). split.
  - unfold crash_keep. apply in_map_iff. exists p; auto.
  - cbn. split; [|reflexivity].
    apply (read_file_firstn_le (f_synced (snd p))); [lia|exact H2].
Qed.

Lemma recover_crash_keep : forall keep st w, durable st w -> In w (recover_all (crash_keep keep st)).
Proof.
  intros keep st w D. destruct (crash_keep_In keep st w D) as [q [H1 [H2 _]]].
  apply recover_all_In. exists q; auto.
Qed.

Lemma durable_crash_keep : forall keep st w, durable st w -> durable (crash_keep keep st) w.
Proof.
  intros keep st w D. destruct (crash_keep_In keep st w D) as [q [H1 [H2 H3]]].
  apply durable_iff. exists q. split; [exact H1|]. rewrite H3, firstn_all. exact H2.
Qed.

Lemma restart_inv : forall keep st io, Inv st -> Inv (restart keep st io).
Proof.
  intros keep st io [I1 _]. unfold restart. apply init_from_inv.
  intros w H. destruct (I1 w H) as [R|D]; [left; exact R|right; apply durable_crash_keep; exact D].
Qed.

Lemma run_hist_inv : forall cfg hist st,
  c_variant cfg = Repaired -> Inv st -> Inv (run_hist cfg st hist).
Proof.
  intros cfg hist; induction hist as [|[[keep sched] io] hist IH]; intros st V I; cbn; [exact I|].
  apply IH; [exact V|]. apply fold_step_inv; [exact V|apply restart_inv; exact I].
Qed.

(* Whatever else of the unsynced tails the crash spares, acked writes are recovered. *)
Theorem acked_survive_keep : forall cfg sched io keep,
  c_variant cfg = Repaired ->
  forall w, In w (acked_ok (run cfg sched io)) -> ~ In w (s_released (run cfg sched io)) ->
  In w (recover_all (crash_keep keep (s_store (run cfg sched io)))).
Proof.
  intros cfg sched io keep V w H NR. apply recover_crash_keep.
  destruct (run_inv cfg sched io V) as [I1 _]. destruct (I1 w H) as [R|D]; [contradiction|exact D].
Qed.

(* Any number of crash / restart cycles: a write acked Ok by any incarnation is recovered
   after the crash of the last one (unless a truncation released it). *)
Theorem acked_survive_restarts : forall cfg hist keep,
  c_variant cfg = Repaired ->
  forall w, In w (acked_ok (run_incarnations cfg hist)) ->
  ~ In w (s_released (run_incarnations cfg hist)) ->
  In w (recover_all (crash (s_store (run_incarnations cfg hist)))) /\
  In w (recover_all (crash_keep keep (s_store (run_incarnations cfg hist)))).
Proof.
  intros cfg hist keep V w H NR.
  destruct (run_hist_inv cfg hist (init []) V (init_inv [])) as [I1 _].
  destruct (I1 w H) as [R|D]; [contradiction|].
  split; [exact D|apply recover_crash_keep; exact D].
Qed.

(* ---------------------------------------------------------------- the legacy rotator *)

Definition legacy_cfg := Config Legacy 200 8.
Definition repaired_cfg := Config Repaired 200 8.

(* six concurrent writes of 85 bytes in one batch, no fault: the batch straddles a rotation *)
Definition wit_sched : list sched_item :=
  [SWrite 1 85; SWrite 2 85; SWrite 3 85; SWrite 4 85; SWrite 5 85; SWrite 6 85; SFlush].
Definition wit_io : list outcome := repeat OOk 20.

Lemma legacy_rotation_witness :
  Forall (fun o => o = OOk) wit_io /\
  valid_schedule legacy_cfg wit_sched wit_io = true /\
  acked_ok (run legacy_cfg wit_sched wit_io) = [6; 5; 4; 3; 2; 1] /\
  recovered_after_crash (run legacy_cfg wit_sched wit_io) = [4; 5; 6].
Proof.
  split; [repeat constructor|]. split; [vm_compute; reflexivity|].
  split; vm_compute; reflexivity.
Qed.

(* one file, no rotation: the append of the third entry of the batch fails (nothing is
   written); the flush then finds no current writer, "syncs" nothing and acks 1 and 2 *)
Definition wit2_cfg := Config Legacy 1000000 8.
Definition wit2_sched : list sched_item := [SWrite 1 85; SWrite 2 85; SWrite 3 85; SFlush].
Definition wit2_io : list outcome := [OOk; OOk; OOk; OOk; OErr ENone].

Lemma legacy_append_error_witness :
  valid_schedule wit2_cfg wit2_sched wit2_io = true /\
  acked_ok (run wit2_cfg wit2_sched wit2_io) = [2; 1] /\
  s_err (run wit2_cfg wit2_sched wit2_io) = [3] /\
  s_halt (run wit2_cfg wit2_sched wit2_io) = false /\
  recovered_after_crash (run wit2_cfg wit2_sched wit2_io) = [].
Proof. repeat split; vm_compute; reflexivity. Qed.

Lemma legacy_rotation_in_batch_refuted :
  exists cfg sched io w,
    c_variant cfg = Legacy /\ Forall (fun o => o = OOk) io /\ valid_schedule cfg sched io = true /\
    In w (acked_ok (run cfg sched io)) /\ ~ In w (recovered_after_crash (run cfg sched io)).
Proof.
  exists legacy_cfg, wit_sched, wit_io, 1.
  destruct legacy_rotation_witness as [A [B [C D]]].
  split; [reflexivity|]. split; [exact A|]. split; [exact B|]. rewrite C, D. split.
  - cbn; tauto.
  - cbn. intros [H|[H|[H|[]]]]; discriminate H.
Qed.

Lemma legacy_append_error_in_batch_refuted :
  exists cfg sched io w,
    c_variant cfg = Legacy /\ valid_schedule cfg sched io = true /\
    s_halt (run cfg sched io) = false /\
    In w (acked_ok (run cfg sched io)) /\ ~ In w (recovered_after_crash (run cfg sched io)).
Proof.
  exists wit2_cfg, wit2_sched, wit2_io, 1.
  destruct legacy_append_error_witness as [A [B [_ [C D]]]].
  split; [reflexivity|]. split; [exact A|]. split; [exact C|]. rewrite B, D. split.
  - cbn; tauto.
  - intros [].
Qed.

(* The repaired rotator on the same inputs; and a run with a rotation inside the batch,
   a partial append and a failed fsync in which some writes are acked Ok, some Err, and one
   reported failed survives anyway. *)
Lemma repaired_on_witnesses :
  acked_ok (run repaired_cfg wit_sched wit_io) = [6; 5; 4; 3; 2; 1] /\
  recovered_after_crash (run repaired_cfg wit_sched wit_io) = [1; 2; 3; 4; 5; 6] /\
  acked_ok (run (Config Repaired 1000000 8) wit2_sched (wit2_io ++ [OOk])) = [2; 1] /\
  recovered_after_crash (run (Config Repaired 1000000 8) wit2_sched (wit2_io ++ [OOk])) = [1; 2].
Proof. repeat split; vm_compute; reflexivity. Qed.

Definition ex_sched : list sched_item :=
  [SWrite 1 85; SWrite 2 85; SWrite 3 85; SWrite 4 85; SFlush; SWrite 5 85; SWrite 6 85; SFlush; SWrite 7 85; SFlush].
Definition ex_io : list outcome :=
  [OOk; OOk; OOk; OOk; OOk;       (* create 1, header, entries 1 2 3 *)
   OOk; OOk; OOk; OErr ETorn;     (* rotation: fsync of file 1, create 2, header; entry 4 torn *)
   OOk;                           (* flush: fsync of file 2 -> 1 2 3 acked *)
   OOk; OOk; OOk; OOk; OErr EFull;(* forced rotation: fsync 2, create 3, header, entry 5; entry 6 written but error *)
   OErr ENone;                    (* flush: fsync of file 3 fails -> 5 reported failed *)
   OOk; OOk; OOk; OOk; OOk].      (* forced rotation, entry 7, flush *)

Lemma example_run :
  valid_schedule repaired_cfg ex_sched ex_io = true /\
  s_halt (run repaired_cfg ex_sched ex_io) = false /\
  acked_ok (run repaired_cfg ex_sched ex_io) = [7; 3; 2; 1] /\
  s_err (run repaired_cfg ex_sched ex_io) = [5; 6; 4] /\
  recovered_after_crash (run repaired_cfg ex_sched ex_io) = [1; 2; 3; 5; 6; 7] /\
  recovered_after_crash (run repaired_cfg ex_sched (firstn 9 ex_io)) = [1; 2; 3] /\
  acked_ok (run repaired_cfg ex_sched (firstn 9 ex_io)) = [].
Proof. repeat split; vm_compute; reflexivity. Qed.

(* Three incarnations: the first completes (1-6 acked); the second is killed after its
   entries 7 and 8 reached the file but before the flush fsync (nothing acked; a crash
   that drops unsynced tails loses 7 and 8, one that spares them keeps them); the third
   starts on a store where they were spared and acks 9. *)
Definition k_none : N -> nat := fun _ => 0%nat.
Definition k_all : N -> nat := fun _ => 99%nat.
Definition ex_hist2 : list ((N -> nat) * list sched_item * list outcome) :=
  [(k_none, wit_sched, repeat OOk 12);
   (k_none, [SWrite 7 85; SWrite 8 85; SFlush], [OOk; OOk; OOk; OOk])].
Definition ex_hist3 : list ((N -> nat) * list sched_item * list outcome) :=
  ex_hist2 ++ [(k_all, [SWrite 9 85; SFlush], repeat OOk 4)].

Lemma example_restarts :
  acked_ok (run_incarnations repaired_cfg ex_hist2) = [6; 5; 4; 3; 2; 1] /\
  s_halt (run_incarnations repaired_cfg ex_hist2) = true /\
  recovered_after_crash (run_incarnations repaired_cfg ex_hist2) = [1; 2; 3; 4; 5; 6] /\
  recover_all (crash_keep k_all (s_store (run_incarnations repaired_cfg ex_hist2))) = [1; 2; 3; 4; 5; 6; 7; 8] /\
  acked_ok (run_incarnations repaired_cfg ex_hist3) = [9; 6; 5; 4; 3; 2; 1] /\
  recovered_after_crash (run_incarnations repaired_cfg ex_hist3) = [1; 2; 3; 4; 5; 6; 7; 8; 9] /\
  map fst (s_store (run_incarnations repaired_cfg ex_hist3)) = [1; 2; 3; 4].
Proof. repeat split; vm_compute; reflexivity. Qed.

(* ---------------------------------------------------------------- no panic, actor invariant *)

(* The actor's own debug invariant (verify_invariants: pending_acks <= entries_since_sync;
   with every write carrying an ack channel the two are equal) and the expect() in
   WalRotator::append ("current_writer must exist after rotate") never fire - for either
   variant of the rotator. *)
Definition Quiet (st : state) : Prop :=
  s_panic st = false /\ N.of_nat (length (s_pending st)) <= s_since st.

Ltac crush_pairs :=
  repeat match goal with
  | H : (_, _) = (_, _) |- _ => inversion H; subst; clear H
  | H : Some _ = Some _ |- _ => inversion H; subst; clear H
  | H : context [match ?x with _ => _ end] |- _ => destruct x eqn:?; try discriminate H
  end.

Lemma rotate_open_q : forall st st' r, rotate_open st = (st', r) ->
  s_panic st' = s_panic st /\ s_pending st' = s_pending st /\ s_since st' = s_since st /\
  (r = ROk -> s_cur st' <> None) /\ r <> RPanic.
Proof.
  intros st st' r H. unfold rotate_open, do_io in H. cbn in H.
  crush_pairs; cbn; repeat split; auto; try discriminate; intros; discriminate.
Qed.

Lemma rotate_q : forall v st st' r, rotate v st = (st', r) ->
  s_panic st' = s_panic st /\ s_pending st' = s_pending st /\ s_since st' = s_since st /\
  (r = ROk -> s_cur st' <> None) /\ r <> RPanic.
Proof.
  intros v st st' r H. unfold rotate in H.
  destruct v; [exact (rotate_open_q _ _ _ H)|].
  destruct (s_cur st) as [wr|]; [|exact (rotate_open_q _ _ _ H)].
  unfold do_io in H. destruct (s_io st) as [|o l].
  - inversion H; subst; cbn. repeat split; auto; discriminate.
  - destruct o.
    + destruct (rotate_open_q _ _ _ H) as [A [B [C [D E]]]]. cbn in A, B, C. repeat split; auto.
    + inversion H; subst; cbn. repeat split; auto; discriminate.
Qed.

Lemma rot_append_q : forall cfg st w size st' r, rot_append cfg st w size = (st', r) ->
  s_pending st' = s_pending st /\ s_since st' = s_since st /\
  (s_panic st = false -> s_panic st' = false /\ r <> RPanic).
Proof.
  intros cfg st w size st' r H. unfold rot_append in H.
  set (needs := match s_cur st with None => true | Some wr => s_force st || (c_max_file_size cfg <=? w_size wr) end) in *.
  assert (R : exists st1 r1, (if needs then rotate (c_variant cfg) st else (st, ROk)) = (st1, r1) /\
     s_panic st1 = s_panic st /\ s_pending st1 = s_pending st /\ s_since st1 = s_since st /\
     (r1 = ROk -> s_cur st1 <> None) /\ r1 <> RPanic).
  { destruct needs eqn:N.
    - destruct (rotate (c_variant cfg) st) as [st1 r1] eqn:E. exists st1, r1. split; [reflexivity|].
      exact (rotate_q _ _ _ _ E).
    - exists st, ROk. repeat split; auto; try discriminate.
      intros _. unfold needs in N. destruct (s_cur st); discriminate. }
  destruct R as [st1 [r1 [E [A [B [C [D F]]]]]]]. rewrite E in H.
  destruct r1; try (inversion H; subst; repeat split; auto; try congruence; intros; discriminate).
  - destruct (s_cur st1) as [wr|] eqn:Cu; [|exfalso; apply (D eq_refl); reflexivity].
    unfold do_io in H. destruct (s_io st1) as [|o l].
    + inversion H; subst; cbn. repeat split; auto; try congruence; intros; discriminate.
    + destruct o; [|destruct (c_variant cfg)]; inversion H; subst; cbn;
        repeat split; auto; try congruence; intros; discriminate.
Qed.

Lemma fold_ack_q : forall ok l st,
  s_panic (fold_left (fun a w => ack a w ok) l st) = s_panic st.
Proof. intros ok l; induction l as [|a l IH]; intros st; cbn; [reflexivity|]. rewrite IH. reflexivity. Qed.

Lemma flush_q : forall st, Quiet st -> Quiet (flush st).
Proof.
  intros st [P L]. unfold flush. destruct (s_since st =? 0); [split; auto|].
  unfold resolve_all.
  destruct (s_cur st) as [wr|].
  - unfold do_io. destruct (s_io st) as [|o l]; [split; auto|].
    destruct o; split; cbn; try rewrite fold_ack_q; cbn; auto; lia.
  - split; cbn; try rewrite fold_ack_q; auto; lia.
Qed.

Lemma shutdown_q : forall st, Quiet st -> Quiet (shutdown st).
Proof.
  intros st Q. unfold shutdown. pose proof (flush_q st Q) as F.
  destruct (s_halt (flush st)); [exact F|]. exact F.
Qed.

Lemma truncate_files_q : forall names st t cur, Quiet st -> Quiet (truncate_files st t cur names).
Proof.
  induction names as [|s names IH]; intros st t cur Q; cbn; [exact Q|].
  destruct (match cur with Some c => c =? s | None => false end); [apply IH; exact Q|].
  destruct (deletable_at t (s_store st) s); [|apply IH; exact Q].
  unfold do_io. destruct (s_io st) as [|o l]; [exact Q|].
  destruct o as [|[| |]]; try apply IH; exact Q.
Qed.

Lemma handle_write_q : forall cfg st w size acked, Quiet st -> Quiet (handle_write cfg st w size acked).
Proof.
  intros cfg st w size acked [P L]. unfold handle_write.
  set (st0 := if c_max_entries cfg <=? s_since st then set_over st else st).
  assert (Q0 : s_panic st0 = false /\ s_pending st0 = s_pending st /\ s_since st0 = s_since st).
  { unfold st0. destruct (c_max_entries cfg <=? s_since st); cbn; auto. }
  destruct Q0 as [P0 [L0 S0]].
  destruct (rot_append cfg st0 w size) as [st1 r] eqn:E.
  destruct (rot_append_q _ _ _ _ _ _ E) as [A [B C]]. destruct (C P0) as [P1 NP].
  destruct r.
  - split; cbn; [exact P1|]. destruct acked; [rewrite app_length; cbn|]; rewrite A, B, L0, S0; lia.
  - destruct acked; split; cbn; try congruence; rewrite A, B, L0, S0; exact L.
  - split; [exact P1|]. rewrite A, B, L0, S0; exact L.
  - exfalso; apply NP; reflexivity.
Qed.

Lemma step_q : forall cfg st ev, Quiet st -> Quiet (step cfg st ev).
Proof.
  intros cfg st ev Q. unfold step. destruct (s_halt st); [exact Q|].
  destruct ev as [w size|w size| |t|];
    [apply handle_write_q; exact Q|apply handle_write_q; exact Q|apply flush_q; exact Q|apply truncate_files_q; exact Q|apply shutdown_q; exact Q].
Qed.

Lemma fold_step_q : forall cfg sched st, Quiet st -> Quiet (fold_left (step cfg) sched st).
Proof.
  intros cfg sched; induction sched as [|ev sched IH]; intros st Q; cbn; [exact Q|].
  apply IH. apply step_q; exact Q.
Qed.

Lemma run_hist_q : forall cfg hist st, Quiet st -> Quiet (run_hist cfg st hist).
Proof.
  intros cfg hist; induction hist as [|[[keep sched] io] hist IH]; intros st Q; cbn; [exact Q|].
  apply IH. apply fold_step_q. split; reflexivity.
Qed.

Theorem never_panics : forall cfg hist,
  s_panic (run_incarnations cfg hist) = false /\
  N.of_nat (length (s_pending (run_incarnations cfg hist))) <= s_since (run_incarnations cfg hist).
Proof. intros cfg hist. apply run_hist_q. split; reflexivity. Qed.

Theorem never_panics_run : forall cfg sched io,
  s_panic (run cfg sched io) = false /\
  N.of_nat (length (s_pending (run cfg sched io))) <= s_since (run cfg sched io).
Proof. intros cfg sched io. apply fold_step_q. split; reflexivity. Qed.


(* ---------------------------------------------------------------- what a truncation may release *)

Lemma rotate_open_rel : forall st st' r, rotate_open st = (st', r) -> s_released st' = s_released st.
Proof.
  intros st st' r H. unfold rotate_open, do_io in H. cbn in H. crush_pairs; reflexivity.
Qed.

Lemma rotate_rel : forall v st st' r, rotate v st = (st', r) -> s_released st' = s_released st.
Proof.
  intros v st st' r H. unfold rotate in H.
  destruct v; [exact (rotate_open_rel _ _ _ H)|].
  destruct (s_cur st) as [wr|]; [|exact (rotate_open_rel _ _ _ H)].
  unfold do_io in H. destruct (s_io st) as [|o l]; [inversion H; reflexivity|].
  destruct o; [|inversion H; reflexivity].
  rewrite (rotate_open_rel _ _ _ H). reflexivity.
Qed.

Lemma rot_append_rel : forall cfg st w size st' r,
  rot_append cfg st w size = (st', r) -> s_released st' = s_released st.
Proof.
  intros cfg st w size st' r H. unfold rot_append in H.
  destruct (match s_cur st with Some wr => s_force st || (c_max_file_size cfg <=? w_size wr) | None => true end).
  - destruct (rotate (c_variant cfg) st) as [st1 r1] eqn:E. pose proof (rotate_rel _ _ _ _ E) as R.
    destruct r1; try (inversion H; subst; exact R).
    destruct (s_cur st1); [|inversion H; subst; exact R].
    unfold do_io in H. destruct (s_io st1) as [|o l]; [inversion H; subst; exact R|].
    destruct o; [|destruct (c_variant cfg)]; inversion H; subst; exact R.
  - destruct (s_cur st); [|inversion H; reflexivity].
    unfold do_io in H. destruct (s_io st) as [|o l]; [inversion H; reflexivity|].
    destruct o; [|destruct (c_variant cfg)]; inversion H; reflexivity.
Qed.

Lemma handle_write_rel : forall cfg st w size acked, s_released (handle_write cfg st w size acked) = s_released st.
Proof.
  intros cfg st w size acked. unfold handle_write.
  set (st0 := if c_max_entries cfg <=? s_since st then set_over st else st).
  assert (R0 : s_released st0 = s_released st) by (unfold st0; destruct (c_max_entries cfg <=? s_since st); reflexivity).
  destruct (rot_append cfg st0 w size) as [st1 r] eqn:E. rewrite <- R0, <- (rot_append_rel _ _ _ _ _ _ E).
  destruct r; destruct acked; reflexivity.
Qed.

Lemma fold_ack_rel : forall ok l st,
  s_released (fold_left (fun a w => ack a w ok) l st) = s_released st.
Proof. intros ok l; induction l as [|a l IH]; intros st; cbn; [reflexivity|]. rewrite IH. reflexivity. Qed.

Lemma flush_rel : forall st, s_released (flush st) = s_released st.
Proof.
  intros st. unfold flush. destruct (s_since st =? 0); [reflexivity|].
  unfold resolve_all. destruct (s_cur st) as [wr|].
  - unfold do_io. destruct (s_io st) as [|o l]; [reflexivity|].
    destruct o; cbn; rewrite fold_ack_rel; reflexivity.
  - cbn. rewrite fold_ack_rel. reflexivity.
Qed.

Lemma shutdown_rel : forall st, s_released (shutdown st) = s_released st.
Proof.
  intros st. unfold shutdown. destruct (s_halt (flush st)); [apply flush_rel|]. cbn. apply flush_rel.
Qed.

Lemma deletable_le : forall t st s w, deletable_at t st s = true -> In w (entries_at st s) -> stamp w <= t.
Proof.
  intros t st s w D H. apply In_entries_at in H. destruct H as [f [H1 H2]].
  apply In_files_at in H1. unfold deletable_at in D.
  destruct (files_at st s) as [|f0 fs] eqn:E; [destruct H1|].
  rewrite forallb_forall in D. specialize (D f H1).
  unfold deletable, file_entries in D. unfold read_file in H2.
  destruct (f_items f) as [|[| |] r]; try discriminate D.
  rewrite forallb_forall in D. apply N.leb_le. apply D; exact H2.
Qed.

Lemma truncate_files_rel : forall names st t cur w,
  In w (s_released (truncate_files st t cur names)) -> In w (s_released st) \/ stamp w <= t.
Proof.
  induction names as [|s names IH]; intros st t cur w H; cbn in H; [left; exact H|].
  destruct (match cur with Some c => c =? s | None => false end); [apply IH in H; exact H|].
  destruct (deletable_at t (s_store st) s) eqn:D; [|apply IH in H; exact H].
  destruct (do_io st (CDel s)) as [[o st1]|] eqn:E1; [|left; exact H].
  io_same E1.
  assert (X : forall v, In v (s_released (delete_file st1 s)) -> In v (s_released st) \/ stamp v <= t).
  { intros v Hv. cbn in Hv. apply in_app_or in Hv. destruct Hv as [Hv|Hv].
    - right. rewrite Est in Hv. apply (deletable_le t (s_store st) s); auto.
    - left. rewrite <- Erel. exact Hv. }
  destruct o as [|[| |]].
  - apply IH in H. destruct H as [H|H]; [apply X; exact H|right; exact H].
  - left. rewrite <- Erel. exact H.
  - apply X; exact H.
  - apply X; exact H.
Qed.

Lemma step_rel : forall cfg st ev w, In w (s_released (step cfg st ev)) ->
  In w (s_released st) \/ exists t, ev = STruncate t /\ stamp w <= t.
Proof.
  intros cfg st ev w H. unfold step in H. destruct (s_halt st); [left; exact H|].
  destruct ev as [x size|x size| |t|].
  - rewrite handle_write_rel in H. left; exact H.
  - rewrite handle_write_rel in H. left; exact H.
  - rewrite flush_rel in H. left; exact H.
  - unfold truncate in H. apply truncate_files_rel in H. destruct H as [H|H]; [left; exact H|].
    right. exists t. auto.
  - rewrite shutdown_rel in H. left; exact H.
Qed.

Lemma fold_step_rel : forall cfg sched st w, In w (s_released (fold_left (step cfg) sched st)) ->
  In w (s_released st) \/ exists t, In (STruncate t) sched /\ stamp w <= t.
Proof.
  intros cfg sched; induction sched as [|ev sched IH]; intros st w H; cbn in H; [left; exact H|].
  apply IH in H. destruct H as [H|[t [H1 H2]]].
  - apply step_rel in H. destruct H as [H|[t [-> H2]]]; [left; exact H|].
    right. exists t. split; [left; reflexivity|exact H2].
  - right. exists t. split; [right; exact H1|exact H2].
Qed.

(* Only entries stamped at or below an applied watermark are ever released. *)
Theorem released_below_watermark : forall cfg sched io w,
  In w (s_released (run cfg sched io)) -> exists t, In (STruncate t) sched /\ stamp w <= t.
Proof.
  intros cfg sched io w H. apply fold_step_rel in H. destruct H as [[]|H]. exact H.
Qed.

Theorem acked_survive_repaired : forall cfg sched io,
  c_variant cfg = Repaired ->
  forall w, In w (acked_ok (run cfg sched io)) ->
  (forall t, In (STruncate t) sched -> t < stamp w) ->
  In w (recovered_after_crash (run cfg sched io)).
Proof.
  intros cfg sched io V w H G. apply acked_survive_unless_released; auto.
  intros R. apply released_below_watermark in R. destruct R as [t [R1 R2]].
  specialize (G t R1). lia.
Qed.

Corollary acked_survive_prefix : forall cfg sched io n m,
  c_variant cfg = Repaired ->
  let a := run cfg (firstn n sched) (firstn m io) in
  forall w, In w (acked_ok a) -> (forall t, In (STruncate t) (firstn n sched) -> t < stamp w) ->
  In w (recovered_after_crash a).
Proof. intros cfg sched io n m V a. apply acked_survive_repaired; exact V. Qed.

Corollary acked_survive_no_truncation : forall cfg sched io,
  c_variant cfg = Repaired -> (forall t, ~ In (STruncate t) sched) ->
  forall w, In w (acked_ok (run cfg sched io)) -> In w (recovered_after_crash (run cfg sched io)).
Proof.
  intros cfg sched io V NT w H. apply acked_survive_repaired; auto.
  intros t Ht. destruct (NT t Ht).
Qed.

Lemma run_hist_rel : forall cfg hist st w, In w (s_released (run_hist cfg st hist)) ->
  In w (s_released st) \/ exists keep sched io t, In (keep, sched, io) hist /\ In (STruncate t) sched /\ stamp w <= t.
Proof.
  intros cfg hist; induction hist as [|[[keep sched] io] hist IH]; intros st w H; cbn in H; [left; exact H|].
  apply IH in H. destruct H as [H|[k [sc [i [t [H1 [H2 H3]]]]]]].
  - apply fold_step_rel in H. destruct H as [H|[t [H1 H2]]]; [left; exact H|].
    right. exists keep, sched, io, t. split; [left; reflexivity|auto].
  - right. exists k, sc, i, t. split; [right; exact H1|auto].
Qed.

Theorem acked_survive_restarts_watermark : forall cfg hist keep,
  c_variant cfg = Repaired ->
  forall w, In w (acked_ok (run_incarnations cfg hist)) ->
  (forall k sched io t, In (k, sched, io) hist -> In (STruncate t) sched -> t < stamp w) ->
  In w (recover_all (crash (s_store (run_incarnations cfg hist)))) /\
  In w (recover_all (crash_keep keep (s_store (run_incarnations cfg hist)))).
Proof.
  intros cfg hist keep V w H G. apply acked_survive_restarts; auto.
  intros R. apply run_hist_rel in R. destruct R as [[]|[k [sc [i [t [H1 [H2 H3]]]]]]].
  specialize (G k sc i t H1 H2). lia.
Qed.

(* Out-of-order stamps in a closed file: file 1 holds the stamps 5, 1, 3.  TruncateUpTo 3
   must keep it (its newest stamp is 5, not the last entry's 3); TruncateUpTo 5 deletes it. *)
Definition tr_sched (t : N) : list sched_item :=
  [SWrite (wid 5 1) 85; SWrite (wid 1 2) 85; SWrite (wid 3 3) 85; SFlush; SWrite (wid 9 4) 85; SFlush; STruncate t].
Lemma example_truncation :
  acked_ok (run repaired_cfg (tr_sched 3) (repeat OOk 20)) = [wid 9 4; wid 3 3; wid 1 2; wid 5 1] /\
  s_released (run repaired_cfg (tr_sched 3) (repeat OOk 20)) = [] /\
  recovered_after_crash (run repaired_cfg (tr_sched 3) (repeat OOk 20)) = [wid 5 1; wid 1 2; wid 3 3; wid 9 4] /\
  s_released (run repaired_cfg (tr_sched 5) (repeat OOk 20)) = [wid 5 1; wid 1 2; wid 3 3] /\
  recovered_after_crash (run repaired_cfg (tr_sched 5) (repeat OOk 20)) = [wid 9 4] /\
  s_halt (run repaired_cfg (tr_sched 5) (repeat OOk 20)) = false.
Proof. repeat split; vm_compute; reflexivity. Qed.

(* Stamps that repeat: two different writes with stamp 7 on either side of a rotation, and
   a run of equal stamps; recovery returns every one of them (the names differ). *)
Definition eq_sched : list sched_item :=
  [SWrite (wid 7 1) 85; SWrite (wid 7 2) 85; SWrite (wid 7 3) 85; SWrite (wid 7 4) 85; SWrite (wid 6 5) 85; SFlush].
Lemma example_equal_stamps :
  acked_ok (run (Config Repaired 101 8) eq_sched (repeat OOk 40)) = [wid 6 5; wid 7 4; wid 7 3; wid 7 2; wid 7 1] /\
  recovered_after_crash (run (Config Repaired 101 8) eq_sched (repeat OOk 40)) = [wid 7 1; wid 7 2; wid 7 3; wid 7 4; wid 6 5] /\
  map fst (s_store (run (Config Repaired 101 8) eq_sched (repeat OOk 40))) = [1; 2; 3; 4; 5].
Proof. repeat split; vm_compute; reflexivity. Qed.

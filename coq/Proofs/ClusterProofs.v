(* Proofs about Model/Cluster.v: strong eventual consistency of the replication state.
   Part B: the class in_class U K (K = LWW or hash) is closed under rv_merge and rv_merge is
   associative, commutative and idempotent on it (Leibniz equality).
   Part C: a local operation equals merging the delta it emits.
   Part D: every node's value of a key is the fold-merge of the deltas it incorporated, so
   nodes that incorporated the same set of deltas hold the same value. *)
From stdpp Require Import gmap.
From Coq Require Import NArith Lia.
From RV Require Import Lib.Hex Model.Crdt Proofs.CrdtProofs Model.ShardState
  Proofs.ShardStateProofs Model.Cluster Proofs.SemilatticeFold.
Local Open Scope N_scope.

Section klass.
  Context (U : stamp → option lww) (K : N).
  Hypothesis HK : K = 0 ∨ K = 5.

  Lemma class_compatible a b : in_class U K a → in_class U K b → Compatible a b.
  Proof.
    intros (Ka & Ra & _) (Kb & Rb & _). unfold Compatible.
    destruct (rv_crdt a) as [ra| | | | |ha], (rv_crdt b) as [rb| | | | |hb]; simpl in *;
      try (left; congruence); try done.
    - intros E. rewrite E in Ra. rewrite Ra in Rb. by injection Rb.
    - intros f r1 r2 H1 H2 E. specialize (Ra f r1 H1). specialize (Rb f r2 H2). simpl in *.
      rewrite E in Ra. rewrite Ra in Rb. by injection Rb.
  Qed.

  Lemma class_closed a b : in_class U K a → in_class U K b → in_class U K (rv_merge a b).
  Proof.
    intros (Ka & Ra & Pa1 & Pa2 & Pa3) (Kb & Rb & Pb1 & Pb2 & Pb3).
    unfold in_class, plain, rv_merge; simpl. rewrite Pa1, Pa2, Pa3, Pb1, Pb2, Pb3; simpl.
    unfold merge_with_ts.
    destruct (rv_crdt a) as [ra| | | | |ha], (rv_crdt b) as [rb| | | | |hb]; simpl in *;
      try done; try (exfalso; destruct HK; congruence).
    - split; [done|]. split; [|done]. unfold lww_merge. destruct (stamp_ltb _ _); done.
    - split; [done|]. split; [|done]. intros f r Hr.
      unfold hash_merge in Hr. apply lookup_union_with_Some in Hr as [[H _]|[[_ H]|(x&y&Hx&Hy&Hxy)]].
      + by apply (Ra f r).
      + by apply (Rb f r).
      + injection Hxy as <-. unfold lww_merge. destruct (stamp_ltb _ _); [by apply (Rb f y)|by apply (Ra f x)].
  Qed.

  Lemma class_idem a : in_class U K a → rv_merge a a = a.
  Proof.
    intros (Ka & Ra & Pa1 & Pa2 & Pa3). destruct a as [c vc e t rf]; simpl in *. subst.
    unfold rv_merge; simpl. rewrite stamp_merge_idem. f_equal. unfold merge_with_ts.
    destruct c; simpl in *; try done.
    - by rewrite lww_merge_idem.
    - by rewrite hash_merge_idem.
  Qed.

  Lemma class_comm a b : in_class U K a → in_class U K b → rv_merge a b = rv_merge b a.
  Proof. intros Ha Hb. apply rv_merge_comm. by apply class_compatible. Qed.

  Lemma class_assoc a b c : in_class U K a → in_class U K b → in_class U K c →
    rv_merge a (rv_merge b c) = rv_merge (rv_merge a b) c.
  Proof.
    intros (Ka & _) (Kb & _) (Kc & _). apply rv_merge_assoc. split; congruence.
  Qed.

  (* Strong eventual consistency, algebraic form: two sequences of deltas of the class with
     the same set of elements fold to the same value. *)
  Theorem fold_merge_same_set l1 l2 :
    Forall (in_class U K) l1 → Forall (in_class U K) l2 → same_set l1 l2 →
    fold_merge l1 = fold_merge l2.
  Proof.
    intros H1 H2 Hs. destruct l1 as [|x xs], l2 as [|y ys]; simpl.
    - done.
    - exfalso. destruct (Hs y) as [_ H]. apply H. by left.
    - exfalso. destruct (Hs x) as [H _]. apply H. by left.
    - f_equal. apply (fold_set_eq rv_merge (in_class U K)); auto using class_closed, class_idem, class_comm, class_assoc.
  Qed.

  Lemma fold_merge_in_class l v : Forall (in_class U K) l → fold_merge l = Some v → in_class U K v.
  Proof.
    intros Hl. destruct l as [|x xs]; simpl; [done|]. intros [= <-].
    inversion Hl; subst. apply (fold_closed rv_merge (in_class U K)); auto using class_closed.
  Qed.

  Lemma fold_merge_snoc l d v :
    fold_merge l = Some v → fold_merge (l ++ [d]) = Some (rv_merge v d).
  Proof.
    destruct l as [|x xs]; simpl; [done|]. intros [= <-]. by rewrite fold_left_app.
  Qed.
End klass.

(* ================= Part C: a local operation equals merging its own delta ================= *)

(* stored outer stamps never exceed the node's current clock value (as a stamp) *)
Definition Inv2 (s : shard) : Prop :=
  ∀ k v, sh_keys s !! k = Some v → stamp_ltb (now s) (rv_ts v) = false.

Lemma stamp_le_time a b : st_time a < st_time b → stamp_ltb b a = false.
Proof. intros H. apply stamp_ltb_asym. apply stamp_ltb_spec. by left. Qed.

Lemma Inv2_init rid c : Inv2 (shard_init rid c).
Proof. intros k v H. unfold shard_init in H; simpl in H. by rewrite lookup_empty in H. Qed.

Lemma Inv2_put s k v : Inv2 s → stamp_ltb (now s) (rv_ts v) = false → Inv2 (put s k v).
Proof.
  intros HI Hv k' v'. unfold put, set_keys, now; simpl. intros H.
  destruct (decide (k = k')) as [->|Hne].
  - rewrite lookup_insert in H. by injection H as <-.
  - rewrite lookup_insert_ne in H by done. by apply (HI k').
Qed.

Lemma Inv2_grow s s' :
  Inv2 s → sh_keys s' = sh_keys s → sh_rid s' = sh_rid s → sh_time s ≤ sh_time s' → Inv2 s'.
Proof.
  intros HI Hk Hr Ht k v H. rewrite Hk in H. specialize (HI k v H).
  apply not_true_iff_false. apply not_true_iff_false in HI. intros Hlt. apply HI.
  revert Hlt. rewrite !stamp_ltb_spec. unfold now; simpl. rewrite Hr. lia.
Qed.

(* relation between a hash before and after local field operations starting at clock b *)
Definition newer_or_same (b : N) (h h' : gmap (list N) lww) : Prop :=
  ∀ f, h' !! f = h !! f ∨ (∃ r', h' !! f = Some r' ∧ b < st_time (lw_ts r')).

Lemma newer_or_same_refl b h : newer_or_same b h h.
Proof. intros f. by left. Qed.

Lemma newer_or_same_insert b h h' f r :
  newer_or_same b h h' → b < st_time (lw_ts r) → newer_or_same b h (<[ f := r ]> h').
Proof.
  intros H Hr g. destruct (decide (f = g)) as [->|Hne].
  - right. exists r. by rewrite lookup_insert.
  - rewrite lookup_insert_ne by done. apply H.
Qed.

Lemma hash_merge_newer b h h' :
  map_Forall (λ _ r, st_time (lw_ts r) ≤ b) h → newer_or_same b h h' → hash_merge h h' = h'.
Proof.
  intros Hb Hn. apply map_eq; intros f. unfold hash_merge. rewrite lookup_union_with.
  destruct (Hn f) as [E|(r' & E & Hr')].
  - rewrite E. destruct (h !! f) as [r|]; simpl; [|done]. by rewrite lww_merge_idem.
  - rewrite E. destruct (h !! f) as [r|] eqn:Hf; simpl; [|done].
    f_equal. unfold lww_merge. specialize (Hb f r Hf). simpl in Hb.
    assert (Hlt : stamp_ltb (lw_ts r) (lw_ts r') = true) by (apply stamp_ltb_spec; left; lia).
    by rewrite Hlt.
Qed.

(* unfolding equations (hash_set_all & co. are [simpl never]) *)
Lemma hash_set_all_nil s v : hash_set_all s v [] = (s, v).
Proof. reflexivity. Qed.
Lemma hash_set_all_cons s v f x fs :
  hash_set_all s v ((f, x) :: fs) =
  hash_set_all (tick s)
    (RV (CHash (<[ f := Lww (Some x) (now (tick s)) false ]> (as_hash (rv_crdt v))))
        (rv_vc v) (rv_exp v) (now (tick s)) (rv_rf v)) fs.
Proof. reflexivity. Qed.

(* the value produced by a sequence of hash_set on a hash value *)
Lemma hash_set_all_shape fs : ∀ s v b h hc,
  rv_crdt v = CHash hc → newer_or_same b h hc → b ≤ sh_time s →
  sh_ovf (hash_set_all s v fs).1 = false →
  ∃ h', rv_crdt (hash_set_all s v fs).2 = CHash h' ∧ newer_or_same b h h' ∧
        rv_vc (hash_set_all s v fs).2 = rv_vc v ∧ rv_exp (hash_set_all s v fs).2 = rv_exp v ∧
        rv_rf (hash_set_all s v fs).2 = rv_rf v.
Proof.
  induction fs as [|[f x] fs IH]; intros s v b h hc Hc Hn Hb Ho.
  - rewrite hash_set_all_nil in *. exists hc. done.
  - rewrite hash_set_all_cons in *. set (v1 := RV _ _ _ _ _) in *.
    assert (Hts : sh_ovf (tick s) = false).
    { apply not_ovf_before. intros Ex. rewrite (hash_set_all_ovf fs _ v1 Ex) in Ho. discriminate. }
    destruct (tick_spec s Hts) as (Ht & _).
    destruct (IH (tick s) v1 b h (<[f:=Lww (Some x) (now (tick s)) false]> hc)) as (h' & A & B & C & D & E); auto.
    + subst v1. simpl. by rewrite Hc.
    + apply newer_or_same_insert; [done|]. simpl. lia.
    + lia.
    + exists h'. done.
Qed.

Lemma hash_delete_all_nil s v : hash_delete_all s v [] = (s, v).
Proof. reflexivity. Qed.
Lemma hash_delete_all_cons s v f fs :
  hash_delete_all s v (f :: fs) =
  hash_delete_all (rv_hash_delete s v f).1 (rv_hash_delete s v f).2 fs.
Proof. unfold hash_delete_all at 1. fold hash_delete_all. by destruct (rv_hash_delete s v f). Qed.

Lemma hash_delete_all_shape fs : ∀ s v b h hc,
  rv_crdt v = CHash hc → newer_or_same b h hc → b ≤ sh_time s →
  sh_ovf (hash_delete_all s v fs).1 = false →
  ∃ h', rv_crdt (hash_delete_all s v fs).2 = CHash h' ∧ newer_or_same b h h' ∧
        rv_vc (hash_delete_all s v fs).2 = rv_vc v ∧ rv_exp (hash_delete_all s v fs).2 = rv_exp v ∧
        rv_rf (hash_delete_all s v fs).2 = rv_rf v.
Proof.
  induction fs as [|f fs IH]; intros s v b h hc Hc Hn Hb Ho.
  - rewrite hash_delete_all_nil in *. exists hc. done.
  - rewrite hash_delete_all_cons in *.
    assert (Ho1 : sh_ovf (rv_hash_delete s v f).1 = false).
    { apply not_ovf_before. intros Ex. rewrite (hash_delete_all_ovf fs _ _ Ex) in Ho. discriminate. }
    unfold rv_hash_delete in *. rewrite Hc in *. destruct (hc !! f) eqn:Hf; cbn [fst snd] in *.
    + destruct (tick_spec s Ho1) as (Ht & _).
      set (v1 := RV _ _ _ _ _) in *.
      destruct (IH (tick s) v1 b h (<[f:=Lww None (now (tick s)) true]> hc)) as (h' & A & B & C & D & E); auto.
      * apply newer_or_same_insert; [done|]. simpl. lia.
      * lia.
      * exists h'. done.
    + set (v1 := RV _ _ _ _ _) in *.
      destruct (IH s v1 b h hc) as (h' & A & B & C & D & E); auto.
      exists h'. done.
Qed.

Lemma stamp_merge_ge a b : stamp_ltb b a = false → stamp_merge a b = b.
Proof.
  intros H. unfold stamp_merge. destruct (stamp_ltb a b) eqn:E; [done|].
  by apply stamp_total_false.
Qed.

Definition is_local (e : event) : bool :=
  match e with EWrite _ _ None | EDelete _ | EHSet _ _ | EHDel _ _ => true | _ => false end.

Lemma opt_merge_plain {A} (f : A → A → A) : opt_merge f None None = None.
Proof. done. Qed.

(* the heart of Part C *)
Lemma local_is_merge s e s1 d v :
  sh_causal s = false → Inv s → Inv2 s →
  sh_keys s !! ev_key e = Some v → plain v → rv_merge v v = v →
  is_local e = true →
  step s e = (s1, Some d) → sh_ovf s1 = false →
  rv_merge v d = d ∧ plain d.
Proof.
  intros Hca HI HI2 Hk (Pv1 & Pv2 & Pv3) Hidem Hloc Hstep Ho.
  pose proof (HI _ _ Hk) as [Hv1 Hv2]. pose proof (HI2 _ _ Hk) as Hv3.
  assert (Hos : sh_ovf s = false).
  { apply not_ovf_before. intros Ex. pose proof (step_ovf s e Ex) as Q. rewrite Hstep in Q. simpl in Q. congruence. }
  destruct e as [k val [x|]|k|k fs|k fs|k v'|k v']; try discriminate Hloc; cbn [step ev_key] in *.
  - (* EWrite *)
    rewrite Hk in Hstep. cbn [default] in Hstep. unfold rv_set in Hstep.
    assert (Hc1 : sh_causal (tick s) = false).
    { unfold tick. destruct (_ =? _); simpl; done. }
    rewrite Hc1 in Hstep. injection Hstep as <- <-. change (sh_ovf (tick s) = false) in Ho.
    destruct (tick_spec s Ho) as (Ht & _).
    split; [|unfold plain, with_exp; simpl; done].
    unfold rv_merge, with_exp; cbn [rv_crdt rv_vc rv_exp rv_ts rv_rf]. rewrite Pv1, Pv2, Pv3. cbn [opt_merge].
    assert (Hlt : stamp_ltb (rv_ts v) (now (tick s)) = true).
    { apply stamp_ltb_spec. left. unfold now; simpl. lia. }
    rewrite (stamp_merge_ge (rv_ts v) (now (tick s)) (stamp_ltb_asym _ _ Hlt)).
    f_equal. unfold merge_with_ts.
    destruct (rv_crdt v) as [r| | | | |h] eqn:Hc; cbn [try_merge]; rewrite ?Hlt; try done.
    f_equal. unfold lww_merge; simpl. simpl in Hv2.
    assert (Hl2 : stamp_ltb (lw_ts r) (now (tick s)) = true).
    { apply stamp_ltb_spec. left. unfold now; simpl. lia. }
    by rewrite Hl2.
  - (* EDelete *)
    rewrite Hk in Hstep. unfold rv_delete in Hstep.
    destruct (rv_crdt v) as [r| | | | |h] eqn:Hc;
      try (injection Hstep as <- <-; split; [exact Hidem|done]).
    injection Hstep as <- <-. change (sh_ovf (tick s) = false) in Ho.
    destruct (tick_spec s Ho) as (Ht & _).
    split; [|unfold plain; simpl; done].
    unfold rv_merge; cbn [rv_crdt rv_vc rv_exp rv_ts rv_rf]. rewrite Pv1, Pv2, Pv3, Hc. cbn [opt_merge].
    assert (Hlt : stamp_ltb (rv_ts v) (now (tick s)) = true).
    { apply stamp_ltb_spec. left. unfold now; simpl. lia. }
    rewrite (stamp_merge_ge (rv_ts v) (now (tick s)) (stamp_ltb_asym _ _ Hlt)).
    f_equal. unfold merge_with_ts; cbn [try_merge]. f_equal. unfold lww_merge; simpl. simpl in Hv2.
    assert (Hl2 : stamp_ltb (lw_ts r) (now (tick s)) = true).
    { apply stamp_ltb_spec. left. unfold now; simpl. lia. }
    by rewrite Hl2.
  - (* EHSet *)
    rewrite Hk in Hstep.
    destruct fs as [|[f x] fs].
    { rewrite hash_set_all_nil in Hstep. injection Hstep as <- <-. split; [exact Hidem|done]. }
    pose proof (hash_set_all_issue ((f, x) :: fs) s v ltac:(done)) as Hiss.
    pose proof (hash_set_all_shape fs (tick s)
      (RV (CHash (<[ f := Lww (Some x) (now (tick s)) false ]> (as_hash (rv_crdt v)))) (rv_vc v) (rv_exp v) (now (tick s)) (rv_rf v))
      (sh_time s) (as_hash (rv_crdt v)) (<[ f := Lww (Some x) (now (tick s)) false ]> (as_hash (rv_crdt v))) eq_refl) as Hsh.
    rewrite hash_set_all_cons in Hiss. rewrite hash_set_all_cons in Hstep.
    destruct (hash_set_all (tick s) _ fs) as [s' v1] eqn:E. injection Hstep as <- <-.
    cbn [fst snd] in *. change (sh_ovf s' = false) in Ho.
    destruct (Hiss Ho) as [Hts Hlt0].
    assert (Hts0 : sh_ovf (tick s) = false).
    { apply not_ovf_before. intros Ex. pose proof (hash_set_all_ovf fs _ (RV (CHash (<[ f := Lww (Some x) (now (tick s)) false ]> (as_hash (rv_crdt v)))) (rv_vc v) (rv_exp v) (now (tick s)) (rv_rf v)) Ex) as Q.
      rewrite E in Q. simpl in Q. congruence. }
    destruct (tick_spec s Hts0) as (Ht & _).
    destruct Hsh as (h' & A & B & C & D & F); auto.
    { apply newer_or_same_insert; [apply newer_or_same_refl|]. simpl. lia. }
    { lia. }
    cbn [rv_vc rv_exp rv_rf] in C, D, F.
    split; [|unfold plain; by rewrite C, D, F].
    destruct v1 as [c1 vc1 e1 t1 rf1]. cbn [rv_crdt rv_vc rv_exp rv_ts rv_rf] in *. subst.
    unfold rv_merge; cbn [rv_crdt rv_vc rv_exp rv_ts rv_rf]. rewrite Pv1, Pv2, Pv3. cbn [opt_merge].
    assert (Hlt : stamp_ltb (rv_ts v) (now s') = true).
    { apply stamp_ltb_spec. left. unfold now; simpl. lia. }
    rewrite (stamp_merge_ge (rv_ts v) (now s') (stamp_ltb_asym _ _ Hlt)).
    f_equal. unfold merge_with_ts.
    destruct (rv_crdt v) as [r| | | | |h] eqn:Hc; cbn [try_merge]; rewrite ?Hlt; try done.
    f_equal. simpl in B. apply (hash_merge_newer (sh_time s)); [exact Hv2|exact B].
  - (* EHDel *)
    rewrite Hk in Hstep. destruct (rv_crdt v) as [r| | | | |h] eqn:Hc; try discriminate Hstep.
    destruct fs as [|f fs].
    { rewrite hash_delete_all_nil in Hstep. injection Hstep as <- <-. split; [exact Hidem|done]. }
    pose proof (hash_delete_all_outer (f :: fs) s v ltac:(done)) as Hout.
    pose proof (hash_delete_all_shape (f :: fs) s v (sh_time s) h h Hc (newer_or_same_refl _ _) ltac:(lia)) as Hsh.
    assert (Hvle : times_le v (sh_time s)) by (split; [exact Hv1|rewrite Hc; exact Hv2]).
    pose proof (hash_delete_all_ok (f :: fs) s v Hvle) as Hok.
    destruct (hash_delete_all s v (f :: fs)) as [s' v1] eqn:E. injection Hstep as <- <-.
    cbn [fst snd] in *. change (sh_ovf s' = false) in Ho.
    destruct (Hok Ho) as (_ & Hmono & _ & Hrid & _). cbn [fst snd] in *.
    destruct (Hsh Ho) as (h' & A & B & C & D & F).
    split; [|unfold plain; by rewrite C, D, F].
    destruct v1 as [c1 vc1 e1 t1 rf1]. cbn [rv_crdt rv_vc rv_exp rv_ts rv_rf] in *. subst.
    unfold rv_merge; cbn [rv_crdt rv_vc rv_exp rv_ts rv_rf]. rewrite Pv1, Pv2, Pv3, Hc. cbn [opt_merge].
    assert (Hge : stamp_ltb (now s') (rv_ts v) = false).
    { apply not_true_iff_false. apply not_true_iff_false in Hv3. intros Hlt. apply Hv3.
      revert Hlt. rewrite !stamp_ltb_spec. unfold now; simpl. rewrite Hrid. lia. }
    rewrite (stamp_merge_ge _ _ Hge).
    f_equal. unfold merge_with_ts; cbn [try_merge]. f_equal.
    apply (hash_merge_newer (sh_time s)); [exact Hv2|exact B].
Qed.

(* Proofs about Model/Cluster.v: strong eventual consistency of the replication state.
   Part B: the class in_class U K (K = LWW or hash) is closed under rv_merge and rv_merge is
   associative, commutative and idempotent on it (Leibniz equality).
   Part C: a local operation equals merging the delta it emits.
   Part D: every node's value of a key is the fold-merge of the deltas it incorporated, so
   nodes that incorporated the same set of deltas hold the same value. *)
From stdpp Require Import gmap.
From Coq Require Import NArith Lia.
From RV Require Import Lib.Hex Model.Crdt Proofs.CrdtProofs Model.ShardState
  Proofs.ShardStateProofs Model.Cluster Proofs.SemilatticeFold.
Local Open Scope N_scope.

Section klass.
  Context (U : stamp → option lww) (K : N).
  Hypothesis HK : K = 0 ∨ K = 5.

  Lemma class_compatible a b : in_class U K a → in_class U K b → Compatible a b.
  Proof.
    intros (Ka & Ra & _) (Kb & Rb & _). unfold Compatible.
    destruct (rv_crdt a) as [ra| | | | |ha], (rv_crdt b) as [rb| | | | |hb]; simpl in *;
      try (left; congruence); try done.
    - intros E. rewrite E in Ra. rewrite Ra in Rb. by injection Rb.
    - intros f r1 r2 H1 H2 E. specialize (Ra f r1 H1). specialize (Rb f r2 H2). simpl in *.
      rewrite E in Ra. rewrite Ra in Rb. by injection Rb.
  Qed.

  Lemma class_closed a b : in_class U K a → in_class U K b → in_class U K (rv_merge a b).
  Proof.
    intros (Ka & Ra & Pa1 & Pa2 & Pa3) (Kb & Rb & Pb1 & Pb2 & Pb3).
    unfold in_class, plain, rv_merge; simpl. rewrite Pa1, Pa2, Pa3, Pb1, Pb2, Pb3; simpl.
    unfold merge_with_ts.
    destruct (rv_crdt a) as [ra| | | | |ha], (rv_crdt b) as [rb| | | | |hb]; simpl in *;
      try done; try (exfalso; destruct HK; congruence).
    - split; [done|]. split; [|done]. unfold lww_merge. destruct (stamp_ltb _ _); done.
    - split; [done|]. split; [|done]. intros f r Hr.
      unfold hash_merge in Hr. apply lookup_union_with_Some in Hr as [[H _]|[[_ H]|(x&y&Hx&Hy&Hxy)]].
      + by apply (Ra f r).
      + by apply (Rb f r).
      + injection Hxy as <-. unfold lww_merge. destruct (stamp_ltb _ _); [by apply (Rb f y)|by apply (Ra f x)].
  Qed.

  Lemma class_idem a : in_class U K a → rv_merge a a = a.
  Proof.
    intros (Ka & Ra & Pa1 & Pa2 & Pa3). destruct a as [c vc e t rf]; simpl in *. subst.
    unfold rv_merge; simpl. rewrite stamp_merge_idem. f_equal. unfold merge_with_ts.
    destruct c; simpl in *; try done.
    - by rewrite lww_merge_idem.
    - by rewrite hash_merge_idem.
  Qed.

  Lemma class_comm a b : in_class U K a → in_class U K b → rv_merge a b = rv_merge b a.
  Proof. intros Ha Hb. apply rv_merge_comm. by apply class_compatible. Qed.

  Lemma class_assoc a b c : in_class U K a → in_class U K b → in_class U K c →
    rv_merge a (rv_merge b c) = rv_merge (rv_merge a b) c.
  Proof.
    intros (Ka & _) (Kb & _) (Kc & _). apply rv_merge_assoc. split; congruence.
  Qed.

  (* Strong eventual consistency, algebraic form: two sequences of deltas of the class with
     the same set of elements fold to the same value. *)
  Theorem fold_merge_same_set l1 l2 :
    Forall (in_class U K) l1 → Forall (in_class U K) l2 → same_set l1 l2 →
    fold_merge l1 = fold_merge l2.
  Proof.
    intros H1 H2 Hs. destruct l1 as [|x xs], l2 as [|y ys]; simpl.
    - done.
    - exfalso. destruct (Hs y) as [_ H]. apply H. by left.
    - exfalso. destruct (Hs x) as [H _]. apply H. by left.
    - f_equal. apply (fold_set_eq rv_merge (in_class U K)); auto using class_closed, class_idem, class_comm, class_assoc.
  Qed.

  Lemma fold_merge_in_class l v : Forall (in_class U K) l → fold_merge l = Some v → in_class U K v.
  Proof.
    intros Hl. destruct l as [|x xs]; simpl; [done|]. intros [= <-].
    inversion Hl; subst. apply (fold_closed rv_merge (in_class U K)); auto using class_closed.
  Qed.

  Lemma fold_merge_snoc l d v :
    fold_merge l = Some v → fold_merge (l ++ [d]) = Some (rv_merge v d).
  Proof.
    destruct l as [|x xs]; simpl; [done|]. intros [= <-]. by rewrite fold_left_app.
  Qed.
End klass.

(* ================= Part C: a local operation equals merging its own delta ================= *)

(* stored outer stamps never exceed the node's current clock value (as a stamp) *)
Definition Inv2 (s : shard) : Prop :=
  ∀ k v, sh_keys s !! k = Some v → stamp_ltb (now s) (rv_ts v) = false.

Lemma stamp_le_time a b : st_time a < st_time b → stamp_ltb b a = false.
Proof. intros H. apply stamp_ltb_asym. apply stamp_ltb_spec. by left. Qed.

Lemma Inv2_init rid c : Inv2 (shard_init rid c).
Proof. intros k v H. unfold shard_init in H; simpl in H. by rewrite lookup_empty in H. Qed.

Lemma Inv2_put s k v : Inv2 s → stamp_ltb (now s) (rv_ts v) = false → Inv2 (put s k v).
Proof.
  intros HI Hv k' v'. unfold put, set_keys, now; simpl. intros H.
  destruct (decide (k = k')) as [->|Hne].
  - rewrite lookup_insert in H. by injection H as <-.
  - rewrite lookup_insert_ne in H by done. by apply (HI k').
Qed.

Lemma Inv2_grow s s' :
  Inv2 s → sh_keys s' = sh_keys s → sh_rid s' = sh_rid s → sh_time s ≤ sh_time s' → Inv2 s'.
Proof.
  intros HI Hk Hr Ht k v H. rewrite Hk in H. specialize (HI k v H).
  apply not_true_iff_false. apply not_true_iff_false in HI. intros Hlt. apply HI.
  revert Hlt. rewrite !stamp_ltb_spec. unfold now; simpl. rewrite Hr. lia.
Qed.

(* relation between a hash before and after local field operations starting at clock b *)
Definition newer_or_same (b : N) (h h' : gmap (list N) lww) : Prop :=
  ∀ f, h' !! f = h !! f ∨ (∃ r', h' !! f = Some r' ∧ b < st_time (lw_ts r')).

Lemma newer_or_same_refl b h : newer_or_same b h h.
Proof. intros f. by left. Qed.

Lemma newer_or_same_insert b h h' f r :
  newer_or_same b h h' → b < st_time (lw_ts r) → newer_or_same b h (<[ f := r ]> h').
Proof.
  intros H Hr g. destruct (decide (f = g)) as [->|Hne].
  - right. exists r. by rewrite lookup_insert.
  - rewrite lookup_insert_ne by done. apply H.
Qed.

Lemma hash_merge_newer b h h' :
  map_Forall (λ _ r, st_time (lw_ts r) ≤ b) h → newer_or_same b h h' → hash_merge h h' = h'.
Proof.
  intros Hb Hn. apply map_eq; intros f. unfold hash_merge. rewrite lookup_union_with.
  destruct (Hn f) as [E|(r' & E & Hr')].
  - rewrite E. destruct (h !! f) as [r|]; simpl; [|done]. by rewrite lww_merge_idem.
  - rewrite E. destruct (h !! f) as [r|] eqn:Hf; simpl; [|done].
    f_equal. unfold lww_merge. specialize (Hb f r Hf). simpl in Hb.
    assert (Hlt : stamp_ltb (lw_ts r) (lw_ts r') = true) by (apply stamp_ltb_spec; left; lia).
    by rewrite Hlt.
Qed.

(* unfolding equations (hash_set_all & co. are [simpl never]) *)
Lemma hash_set_all_nil s v : hash_set_all s v [] = (s, v).
Proof. reflexivity. Qed.
Lemma hash_set_all_cons s v f x fs :
  hash_set_all s v ((f, x) :: fs) =
  hash_set_all (tick s)
    (RV (CHash (<[ f := Lww (Some x) (now (tick s)) false ]> (as_hash (rv_crdt v))))
        (rv_vc v) (rv_exp v) (now (tick s)) (rv_rf v)) fs.
Proof. reflexivity. Qed.

(* the value produced by a sequence of hash_set on a hash value *)
Lemma hash_set_all_shape fs : ∀ s v b h hc,
  rv_crdt v = CHash hc → newer_or_same b h hc → b ≤ sh_time s →
  sh_ovf (hash_set_all s v fs).1 = false →
  ∃ h', rv_crdt (hash_set_all s v fs).2 = CHash h' ∧ newer_or_same b h h' ∧
        rv_vc (hash_set_all s v fs).2 = rv_vc v ∧ rv_exp (hash_set_all s v fs).2 = rv_exp v ∧
        rv_rf (hash_set_all s v fs).2 = rv_rf v.
Proof.
  induction fs as [|[f x] fs IH]; intros s v b h hc Hc Hn Hb Ho.
  - rewrite hash_set_all_nil in *. exists hc. done.
  - rewrite hash_set_all_cons in *. set (v1 := RV _ _ _ _ _) in *.
    assert (Hts : sh_ovf (tick s) = false).
    { apply not_ovf_before. intros Ex. rewrite (hash_set_all_ovf fs _ v1 Ex) in Ho. discriminate. }
    destruct (tick_spec s Hts) as (Ht & _).
    destruct (IH (tick s) v1 b h (<[f:=Lww (Some x) (now (tick s)) false]> hc)) as (h' & A & B & C & D & E); auto.
    + subst v1. simpl. by rewrite Hc.
    + apply newer_or_same_insert; [done|]. simpl. lia.
    + lia.
    + exists h'. done.
Qed.

Lemma hash_delete_all_nil s v : hash_delete_all s v [] = (s, v).
Proof. reflexivity. Qed.
Lemma hash_delete_all_cons s v f fs :
  hash_delete_all s v (f :: fs) =
  hash_delete_all (rv_hash_delete s v f).1 (rv_hash_delete s v f).2 fs.
Proof. unfold hash_delete_all at 1. fold hash_delete_all. by destruct (rv_hash_delete s v f). Qed.

Lemma hash_delete_all_shape fs : ∀ s v b h hc,
  rv_crdt v = CHash hc → newer_or_same b h hc → b ≤ sh_time s →
  sh_ovf (hash_delete_all s v fs).1 = false →
  ∃ h', rv_crdt (hash_delete_all s v fs).2 = CHash h' ∧ newer_or_same b h h' ∧
        rv_vc (hash_delete_all s v fs).2 = rv_vc v ∧ rv_exp (hash_delete_all s v fs).2 = rv_exp v ∧
        rv_rf (hash_delete_all s v fs).2 = rv_rf v.
Proof.
  induction fs as [|f fs IH]; intros s v b h hc Hc Hn Hb Ho.
  - rewrite hash_delete_all_nil in *. exists hc. done.
  - rewrite hash_delete_all_cons in *.
    assert (Ho1 : sh_ovf (rv_hash_delete s v f).1 = false).
    { apply not_ovf_before. intros Ex. rewrite (hash_delete_all_ovf fs _ _ Ex) in Ho. discriminate. }
    unfold rv_hash_delete in *. rewrite Hc in *. destruct (hc !! f) eqn:Hf; cbn [fst snd] in *.
    + destruct (tick_spec s Ho1) as (Ht & _).
      set (v1 := RV _ _ _ _ _) in *.
      destruct (IH (tick s) v1 b h (<[f:=Lww None (now (tick s)) true]> hc)) as (h' & A & B & C & D & E); auto.
      * apply newer_or_same_insert; [done|]. simpl. lia.
      * lia.
      * exists h'. done.
    + set (v1 := RV _ _ _ _ _) in *.
      destruct (IH s v1 b h hc) as (h' & A & B & C & D & E); auto.
      exists h'. done.
Qed.

Lemma stamp_merge_ge a b : stamp_ltb b a = false → stamp_merge a b = b.
Proof.
  intros H. unfold stamp_merge. destruct (stamp_ltb a b) eqn:E; [done|].
  by apply stamp_total_false.
Qed.

Definition is_local (e : event) : bool :=
  match e with EWrite _ _ None | EDelete _ | EHSet _ _ | EHDel _ _ => true | _ => false end.

Lemma opt_merge_plain {A} (f : A → A → A) : opt_merge f None None = None.
Proof. done. Qed.

(* the heart of Part C *)
Lemma local_is_merge s e s1 d v :
  sh_causal s = false → Inv s → Inv2 s →
  sh_keys s !! ev_key e = Some v → plain v → rv_merge v v = v →
  is_local e = true →
  step s e = (s1, Some d) → sh_ovf s1 = false →
  rv_merge v d = d ∧ plain d.
Proof.
  intros Hca HI HI2 Hk (Pv1 & Pv2 & Pv3) Hidem Hloc Hstep Ho.
  pose proof (HI _ _ Hk) as [Hv1 Hv2]. pose proof (HI2 _ _ Hk) as Hv3.
  assert (Hos : sh_ovf s = false).
  { apply not_ovf_before. intros Ex. pose proof (step_ovf s e Ex) as Q. rewrite Hstep in Q. simpl in Q. congruence. }
  destruct e as [k val [x|]|k|k fs|k fs|k v'|k v']; try discriminate Hloc; cbn [step ev_key] in *.
  - (* EWrite *)
    rewrite Hk in Hstep. cbn [default] in Hstep. unfold rv_set in Hstep.
    assert (Hc1 : sh_causal (tick s) = false).
    { unfold tick. destruct (_ =? _); simpl; done. }
    rewrite Hc1 in Hstep. injection Hstep as <- <-. change (sh_ovf (tick s) = false) in Ho.
    destruct (tick_spec s Ho) as (Ht & _).
    split; [|unfold plain, with_exp; simpl; done].
    unfold rv_merge, with_exp; cbn [rv_crdt rv_vc rv_exp rv_ts rv_rf]. rewrite Pv1, Pv2, Pv3. cbn [opt_merge].
    assert (Hlt : stamp_ltb (rv_ts v) (now (tick s)) = true).
    { apply stamp_ltb_spec. left. unfold now; simpl. lia. }
    rewrite (stamp_merge_ge (rv_ts v) (now (tick s)) (stamp_ltb_asym _ _ Hlt)).
    f_equal. unfold merge_with_ts.
    destruct (rv_crdt v) as [r| | | | |h] eqn:Hc; cbn [try_merge]; rewrite ?Hlt; try done.
    f_equal. unfold lww_merge; simpl. simpl in Hv2.
    assert (Hl2 : stamp_ltb (lw_ts r) (now (tick s)) = true).
    { apply stamp_ltb_spec. left. unfold now; simpl. lia. }
    by rewrite Hl2.
  - (* EDelete *)
    rewrite Hk in Hstep. unfold rv_delete in Hstep.
    destruct (rv_crdt v) as [r| | | | |h] eqn:Hc;
      try (injection Hstep as <- <-; split; [exact Hidem|done]).
    injection Hstep as <- <-. change (sh_ovf (tick s) = false) in Ho.
    destruct (tick_spec s Ho) as (Ht & _).
    split; [|unfold plain; simpl; done].
    unfold rv_merge; cbn [rv_crdt rv_vc rv_exp rv_ts rv_rf]. rewrite Pv1, Pv2, Pv3, Hc. cbn [opt_merge].
    assert (Hlt : stamp_ltb (rv_ts v) (now (tick s)) = true).
    { apply stamp_ltb_spec. left. unfold now; simpl. lia. }
    rewrite (stamp_merge_ge (rv_ts v) (now (tick s)) (stamp_ltb_asym _ _ Hlt)).
    f_equal. unfold merge_with_ts; cbn [try_merge]. f_equal. unfold lww_merge; simpl. simpl in Hv2.
    assert (Hl2 : stamp_ltb (lw_ts r) (now (tick s)) = true).
    { apply stamp_ltb_spec. left. unfold now; simpl. lia. }
    by rewrite Hl2.
  - (* EHSet *)
    rewrite Hk in Hstep.
    destruct fs as [|[f x] fs].
    { rewrite hash_set_all_nil in Hstep. injection Hstep as <- <-. split; [exact Hidem|done]. }
    pose proof (hash_set_all_issue ((f, x) :: fs) s v ltac:(done)) as Hiss.
    pose proof (hash_set_all_shape fs (tick s)
      (RV (CHash (<[ f := Lww (Some x) (now (tick s)) false ]> (as_hash (rv_crdt v)))) (rv_vc v) (rv_exp v) (now (tick s)) (rv_rf v))
      (sh_time s) (as_hash (rv_crdt v)) (<[ f := Lww (Some x) (now (tick s)) false ]> (as_hash (rv_crdt v))) eq_refl) as Hsh.
    rewrite hash_set_all_cons in Hiss. rewrite hash_set_all_cons in Hstep.
    destruct (hash_set_all (tick s) _ fs) as [s' v1] eqn:E. injection Hstep as <- <-.
    cbn [fst snd] in *. change (sh_ovf s' = false) in Ho.
    destruct (Hiss Ho) as [Hts Hlt0].
    assert (Hts0 : sh_ovf (tick s) = false).
    { apply not_ovf_before. intros Ex. pose proof (hash_set_all_ovf fs _ (RV (CHash (<[ f := Lww (Some x) (now (tick s)) false ]> (as_hash (rv_crdt v)))) (rv_vc v) (rv_exp v) (now (tick s)) (rv_rf v)) Ex) as Q.
      rewrite E in Q. simpl in Q. congruence. }
    destruct (tick_spec s Hts0) as (Ht & _).
    destruct Hsh as (h' & A & B & C & D & F); auto.
    { apply newer_or_same_insert; [apply newer_or_same_refl|]. simpl. lia. }
    { lia. }
    cbn [rv_vc rv_exp rv_rf] in C, D, F.
    split; [|unfold plain; by rewrite C, D, F].
    destruct v1 as [c1 vc1 e1 t1 rf1]. cbn [rv_crdt rv_vc rv_exp rv_ts rv_rf] in *. subst.
    unfold rv_merge; cbn [rv_crdt rv_vc rv_exp rv_ts rv_rf]. rewrite Pv1, Pv2, Pv3. cbn [opt_merge].
    assert (Hlt : stamp_ltb (rv_ts v) (now s') = true).
    { apply stamp_ltb_spec. left. unfold now; simpl. lia. }
    rewrite (stamp_merge_ge (rv_ts v) (now s') (stamp_ltb_asym _ _ Hlt)).
    f_equal. unfold merge_with_ts.
    destruct (rv_crdt v) as [r| | | | |h] eqn:Hc; cbn [try_merge]; rewrite ?Hlt; try done.
    f_equal. simpl in B. apply (hash_merge_newer (sh_time s)); [exact Hv2|exact B].
  - (* EHDel *)
    rewrite Hk in Hstep. destruct (rv_crdt v) as [r| | | | |h] eqn:Hc; try discriminate Hstep.
    destruct fs as [|f fs].
    { rewrite hash_delete_all_nil in Hstep. injection Hstep as <- <-. split; [exact Hidem|done]. }
    pose proof (hash_delete_all_outer (f :: fs) s v ltac:(done)) as Hout.
    pose proof (hash_delete_all_shape (f :: fs) s v (sh_time s) h h Hc (newer_or_same_refl _ _) ltac:(lia)) as Hsh.
    assert (Hvle : times_le v (sh_time s)) by (split; [exact Hv1|rewrite Hc; exact Hv2]).
    pose proof (hash_delete_all_ok (f :: fs) s v Hvle) as Hok.
    destruct (hash_delete_all s v (f :: fs)) as [s' v1] eqn:E. injection Hstep as <- <-.
    cbn [fst snd] in *. change (sh_ovf s' = false) in Ho.
    destruct (Hok Ho) as (_ & Hmono & _ & Hrid & _). cbn [fst snd] in *.
    destruct (Hsh Ho) as (h' & A & B & C & D & F).
    split; [|unfold plain; by rewrite C, D, F].
    destruct v1 as [c1 vc1 e1 t1 rf1]. cbn [rv_crdt rv_vc rv_exp rv_ts rv_rf] in *. subst.
    unfold rv_merge; cbn [rv_crdt rv_vc rv_exp rv_ts rv_rf]. rewrite Pv1, Pv2, Pv3, Hc. cbn [opt_merge].
    assert (Hge : stamp_ltb (now s') (rv_ts v) = false).
    { apply not_true_iff_false. apply not_true_iff_false in Hv3. intros Hlt. apply Hv3.
      revert Hlt. rewrite !stamp_ltb_spec. unfold now; simpl. rewrite Hrid. lia. }
    rewrite (stamp_merge_ge _ _ Hge).
    f_equal. unfold merge_with_ts; cbn [try_merge]. f_equal.
    apply (hash_merge_newer (sh_time s)); [exact Hv2|exact B].
Qed.

(* ================= Part D: nodes, histories, convergence ================= *)

Lemma stamp_merge_time_max a b : st_time (stamp_merge a b) = N.max (st_time a) (st_time b).
Proof. apply stamp_merge_time. Qed.

(* Inv2 is preserved by every step (given Inv and well-formed input) *)
Lemma step_inv2 s e s1 od :
  step s e = (s1, od) → Inv s → Inv2 s → wf_event e → sh_ovf s1 = false → Inv2 s1.
Proof.
  intros Hstep HI HI2 Hwf Ho.
  destruct e as [k val exp|k|k fs|k fs|k v|k v]; cbn [step] in Hstep.
  - set (v0 := default _ _) in *. pose proof (rv_set_issue s v0 val) as Hiss.
    pose proof (rv_set_ok s v0 val) as Hok.
    destruct (rv_set s v0 val) as [s' v1]. injection Hstep as <- <-. cbn [fst snd] in *.
    change (sh_ovf s' = false) in Ho.
    destruct (Hiss Ho) as [E _]. destruct (Hok Ho) as (_ & Ht & Hk & Hr & _).
    apply Inv2_put; [eapply Inv2_grow; eauto|]. cbn [with_exp rv_ts]. rewrite E. apply stamp_ltb_irrefl.
  - destruct (sh_keys s !! k) as [v0|] eqn:Hk; [|by injection Hstep as <- <-].
    pose proof (rv_delete_ok s v0 (HI k v0 Hk)) as Hok.
    assert (Hcase : rv_ts (rv_delete s v0).2 = now (rv_delete s v0).1 ∨ (rv_delete s v0) = (s, v0)).
    { unfold rv_delete. destruct (rv_crdt v0); simpl; auto. }
    destruct (rv_delete s v0) as [s' v1]. injection Hstep as <- <-. cbn [fst snd] in *.
    change (sh_ovf s' = false) in Ho.
    destruct (Hok Ho) as (_ & Ht & Hkk & Hr & _).
    apply Inv2_put; [eapply Inv2_grow; eauto|].
    destruct Hcase as [E|E]; [rewrite E; apply stamp_ltb_irrefl|]. injection E as -> ->. by apply (HI2 k).
  - set (v0 := match sh_keys s !! k with Some v => v | None => _ end) in *.
    assert (Hv0 : times_le v0 (sh_time s) ∧ stamp_ltb (now s) (rv_ts v0) = false).
    { unfold v0. destruct (sh_keys s !! k) eqn:Hk; [split; [by apply (HI k)|by apply (HI2 k)]|].
      split; [split; simpl; [lia|apply map_Forall_empty]|]. simpl.
      apply not_true_iff_false. rewrite stamp_ltb_spec. unfold now; simpl. lia. }
    pose proof (hash_set_all_ok fs s v0 (proj1 Hv0)) as Hok.
    pose proof (hash_set_all_issue fs s v0) as Hiss.
    assert (Hnil : fs = [] → hash_set_all s v0 fs = (s, v0)) by (intros ->; done).
    destruct (hash_set_all s v0 fs) as [s' v1]. injection Hstep as <- <-. cbn [fst snd] in *.
    change (sh_ovf s' = false) in Ho.
    destruct (Hok Ho) as (_ & Ht & Hkk & Hr & _).
    apply Inv2_put; [eapply Inv2_grow; eauto|].
    destruct fs as [|p fs']; [injection (Hnil eq_refl) as -> ->; apply Hv0|].
    destruct (Hiss ltac:(done) Ho) as [E _]. rewrite E. apply stamp_ltb_irrefl.
  - destruct (sh_keys s !! k) as [v0|] eqn:Hk; [|by injection Hstep as <- <-].
    destruct (rv_crdt v0) eqn:Hc; try (by injection Hstep as <- <-).
    pose proof (hash_delete_all_ok fs s v0 (HI k v0 Hk)) as Hok.
    pose proof (hash_delete_all_outer fs s v0) as Hiss.
    assert (Hnil : fs = [] → hash_delete_all s v0 fs = (s, v0)) by (intros ->; done).
    destruct (hash_delete_all s v0 fs) as [s' v1]. injection Hstep as <- <-. cbn [fst snd] in *.
    change (sh_ovf s' = false) in Ho.
    destruct (Hok Ho) as (_ & Ht & Hkk & Hr & _).
    apply Inv2_put; [eapply Inv2_grow; eauto|].
    destruct fs as [|p fs']; [injection (Hnil eq_refl) as -> ->; by apply (HI2 k)|].
    rewrite (Hiss ltac:(done)). apply stamp_ltb_irrefl.
  - injection Hstep as <- <-. change (sh_ovf (clock_update s (rv_ts v)) = false) in Ho.
    destruct (clock_update_spec s (rv_ts v) Ho) as (Ht & _ & Hr & Hk).
    assert (HI2' : Inv2 (clock_update s (rv_ts v))) by (eapply Inv2_grow; eauto; lia).
    apply Inv2_put; [done|]. apply stamp_le_time. unfold now; cbn [st_time]. rewrite Ht.
    destruct (sh_keys _ !! k) eqn:Hl.
    + cbn [rv_merge rv_ts]. rewrite stamp_merge_time_max. rewrite Hk in Hl. pose proof (HI k _ Hl) as [Hb _]. lia.
    + lia.
  - injection Hstep as <- <-. change (sh_ovf (clock_update s (rv_ts v)) = false) in Ho.
    destruct (clock_update_spec s (rv_ts v) Ho) as (Ht & _ & Hr & Hk).
    assert (HI2' : Inv2 (clock_update s (rv_ts v))) by (eapply Inv2_grow; eauto; lia).
    apply Inv2_put; [done|]. apply stamp_le_time. unfold now; cbn [st_time]. rewrite Ht. lia.
Qed.

(* keys other than the event's key are untouched *)
Lemma step_other_keys s e s1 od k :
  step s e = (s1, od) → k ≠ ev_key e → sh_keys s1 !! k = sh_keys s !! k.
Proof.
  intros Hstep Hne.
  assert (Hput : ∀ (x : shard) v, sh_keys (put x (ev_key e) v) !! k = sh_keys x !! k).
  { intros x v. unfold put, set_keys; simpl. by rewrite lookup_insert_ne. }
  destruct e as [k' val exp|k'|k' fs|k' fs|k' v|k' v]; cbn [step ev_key] in *.
  - set (v0 := default _ _) in *. pose proof (rv_set_ok s v0 val) as Hok.
    destruct (rv_set s v0 val) as [s' v1] eqn:E. injection Hstep as <- <-. rewrite Hput.
    unfold rv_set in E. injection E as <- _. destruct (sh_causal (tick s)); simpl; unfold tick; destruct (_ =? _); done.
  - destruct (sh_keys s !! k') as [v0|]; [|by injection Hstep as <- <-].
    destruct (rv_delete s v0) as [s' v1] eqn:E. injection Hstep as <- <-. rewrite Hput.
    unfold rv_delete in E. destruct (rv_crdt v0); injection E as <- _; try done.
    unfold tick; destruct (_ =? _); done.
  - set (v0 := match sh_keys s !! k' with Some v => v | None => _ end) in *.
    assert (Q : ∀ fs s v, sh_keys (hash_set_all s v fs).1 = sh_keys s).
    { clear. induction fs as [|[f x] fs IH]; intros s v; [done|]. rewrite hash_set_all_cons, IH.
      unfold tick; destruct (_ =? _); done. }
    specialize (Q fs s v0). destruct (hash_set_all s v0 fs) as [s' v1]. injection Hstep as <- <-.
    rewrite Hput. simpl in Q. by rewrite Q.
  - destruct (sh_keys s !! k') as [v0|]; [|by injection Hstep as <- <-].
    destruct (rv_crdt v0); try (by injection Hstep as <- <-).
    assert (Q : ∀ fs s v, sh_keys (hash_delete_all s v fs).1 = sh_keys s).
    { clear. induction fs as [|f fs IH]; intros s v; [done|]. rewrite hash_delete_all_cons, IH.
      unfold rv_hash_delete. destruct (rv_crdt v); try done. destruct (_ !! f); simpl; [|done].
      unfold tick; destruct (_ =? _); done. }
    specialize (Q fs s v0). destruct (hash_delete_all s v0 fs) as [s' v1]. injection Hstep as <- <-.
    rewrite Hput. simpl in Q. by rewrite Q.
  - injection Hstep as <- <-. rewrite Hput. unfold clock_update; destruct (_ =? _); done.
  - injection Hstep as <- <-. rewrite Hput. unfold clock_update; destruct (_ =? _); done.
Qed.

Lemma step_causal s e s1 od : step s e = (s1, od) → sh_causal s1 = sh_causal s.
Proof.
  intros Hstep.
  assert (Ht : ∀ x, sh_causal (tick x) = sh_causal x) by (intros x; unfold tick; destruct (_ =? _); done).
  destruct e as [k' val exp|k'|k' fs|k' fs|k' v|k' v]; cbn [step] in *.
  - unfold rv_set in Hstep. injection Hstep as <- _. destruct (sh_causal (tick s)) eqn:E; simpl; rewrite ?E; rewrite <- Ht; done.
  - destruct (sh_keys s !! k') as [v0|]; [|by injection Hstep as <- _].
    unfold rv_delete in Hstep. destruct (rv_crdt v0); injection Hstep as <- _; try done. apply Ht.
  - assert (Q : ∀ fs s v, sh_causal (hash_set_all s v fs).1 = sh_causal s).
    { clear -Ht. induction fs as [|[f x] fs IH]; intros s v; [done|]. by rewrite hash_set_all_cons, IH, Ht. }
    match type of Hstep with context [hash_set_all s ?v0 fs] => specialize (Q fs s v0); destruct (hash_set_all s v0 fs) end.
    injection Hstep as <- _. done.
  - destruct (sh_keys s !! k') as [v0|]; [|by injection Hstep as <- _].
    destruct (rv_crdt v0); try (by injection Hstep as <- _).
    assert (Q : ∀ fs s v, sh_causal (hash_delete_all s v fs).1 = sh_causal s).
    { clear -Ht. induction fs as [|f fs IH]; intros s v; [done|]. rewrite hash_delete_all_cons, IH.
      unfold rv_hash_delete. destruct (rv_crdt v); try done. destruct (_ !! f); simpl; [apply Ht|done]. }
    specialize (Q fs s v0). destruct (hash_delete_all s v0 fs). injection Hstep as <- _. done.
  - injection Hstep as <- _. unfold put, clock_update; destruct (_ =? _); done.
  - injection Hstep as <- _. unfold put, clock_update; destruct (_ =? _); done.
Qed.

(* a delta is "good" when it is in the class of its key and well formed *)
Definition good (U : stamp → option lww) (K : list N → N) (k : list N) (d : rvalue) : Prop :=
  in_class U (K k) d ∧ wf_value d.

Section nodes.
  Context (U : stamp → option lww) (K : list N → N).
  Hypothesis HK : ∀ k, K k = 0 ∨ K k = 5.

  Definition hist_of (n : node) (k : list N) : list rvalue := default [] (n_hist n !! k).
  Definition hist_good (n : node) : Prop := ∀ k, Forall (good U K k) (hist_of n k).

  Definition NodeInv (n : node) : Prop :=
    sh_causal (n_sh n) = false ∧ Inv (n_sh n) ∧ Inv2 (n_sh n) ∧
    ∀ k, sh_keys (n_sh n) !! k = fold_merge (hist_of n k).

  Lemma NodeInv_init rid : NodeInv (node_init rid).
  Proof.
    split; [done|]. split; [apply Inv_init|]. split; [apply Inv2_init|].
    intros k. unfold hist_of, node_init; simpl. by rewrite !lookup_empty.
  Qed.

  Lemma hist_of_push n k d k' x s b :
    hist_of (Node x s (hist_push (n_hist n) k d) b) k' =
    if decide (k = k') then hist_of n k ++ [d] else hist_of n k'.
  Proof.
    unfold hist_of, hist_push; simpl. destruct (decide (k = k')) as [->|Hne].
    - by rewrite lookup_insert.
    - by rewrite lookup_insert_ne.
  Qed.

  Lemma good_forall_class k l : Forall (good U K k) l → Forall (in_class U (K k)) l.
  Proof. intros H. eapply Forall_impl; [exact H|]. by intros ? [? ?]. Qed.

  (* delivery of a good delta *)
  Lemma node_deliver_inv n k d :
    NodeInv n → hist_good (node_deliver n k d) → sh_ovf (n_sh (node_deliver n k d)) = false →
    NodeInv (node_deliver n k d).
  Proof.
    intros (Hc & HI & HI2 & Hst) Hg Ho. unfold node_deliver in *.
    destruct (step (n_sh n) (ERemote k d)) as [s1 od] eqn:Hstep.
    assert (Hn1 : ∃ x1 b1, (match sh_keys s1 !! k with
              | Some m => let '(x1, bad) := materialise (n_x n) k m in Node x1 s1 (hist_push (n_hist n) k d) (n_glue_fail n || bad)
              | None => Node (n_x n) s1 (hist_push (n_hist n) k d) (n_glue_fail n) end)
              = Node x1 s1 (hist_push (n_hist n) k d) b1).
    { destruct (sh_keys s1 !! k); [destruct (materialise _ _ _); eauto|eauto]. }
    destruct Hn1 as (x1 & b1 & E). rewrite E in *. clear E. simpl in Ho.
    assert (Hgd : good U K k d).
    { specialize (Hg k). rewrite hist_of_push in Hg. rewrite decide_True in Hg by done.
      apply Forall_app in Hg as [_ Hg]. by inversion Hg. }
    assert (Hwf : wf_event (ERemote k d)) by (apply Hgd).
    destruct (step_ok _ _ _ _ Hstep HI Hwf Ho) as (HI1 & _).
    pose proof (step_inv2 _ _ _ _ Hstep HI HI2 Hwf Ho) as HI21.
    split; [simpl; by rewrite (step_causal _ _ _ _ Hstep)|]. split; [done|]. split; [done|].
    intros k'. rewrite hist_of_push. simpl. destruct (decide (k = k')) as [<-|Hne].
    - cbn [step] in Hstep. injection Hstep as <- _.
      unfold put, set_keys; simpl. rewrite lookup_insert.
      assert (Hku : sh_keys (clock_update (n_sh n) (rv_ts d)) = sh_keys (n_sh n)).
      { unfold clock_update. destruct (_ =? _); done. }
      rewrite Hku, Hst. destruct (hist_of n k) as [|x xs] eqn:Hh; simpl; [done|].
      by rewrite fold_left_app.
    - rewrite (step_other_keys _ _ _ _ k' Hstep) by (simpl; congruence). apply Hst.
  Qed.

  (* a client command *)
  Lemma node_exec_inv n c n1 r od :
    node_exec n c = (n1, r, od) → NodeInv n → hist_good n1 → sh_ovf (n_sh n1) = false → NodeInv n1.
  Proof.
    intros Hex (Hc & HI & HI2 & Hst) Hg Ho. unfold node_exec in Hex.
    destruct (xexec (n_x n) c) as [x1 r1] eqn:Hx.
    destruct (record_post x1 c r1) as [e|] eqn:Hrec.
    2:{ inversion Hex; subst. exact (conj Hc (conj HI (conj HI2 Hst))). }
    assert (Hloc : is_local e = true).
    { unfold record_post in Hrec.
      destruct c; destruct r1; simpl in Hrec; try discriminate Hrec;
        repeat match type of Hrec with
               | (if ?b then _ else _) = _ => destruct b
               | match ?b with _ => _ end = _ => destruct b
               end; try discriminate Hrec; injection Hrec as <-; reflexivity. }
    assert (Hwf : wf_event e) by (destruct e; try discriminate Hloc; exact I).
    destruct (step (n_sh n) e) as [s1 od1] eqn:Hstep.
    destruct od1 as [d|].
    - inversion Hex; subst; clear Hex. simpl in Ho.
      destruct (step_ok _ _ _ _ Hstep HI Hwf Ho) as (HI1 & _).
      pose proof (step_inv2 _ _ _ _ Hstep HI HI2 Hwf Ho) as HI21.
      split; [simpl; by rewrite (step_causal _ _ _ _ Hstep)|]. split; [done|]. split; [done|].
      intros k'. rewrite hist_of_push. simpl. destruct (decide (ev_key e = k')) as [<-|Hne].
      + (* the stored value is d; it equals the fold over the extended history *)
        assert (Hd : sh_keys s1 !! ev_key e = Some d).
        { destruct e; try discriminate Hloc; cbn [step ev_key] in *.
          - destruct (rv_set _ _ _). injection Hstep as <- <-. unfold put, set_keys; simpl. by rewrite lookup_insert.
          - destruct (sh_keys (n_sh n) !! k); [|discriminate]. destruct (rv_delete _ _). injection Hstep as <- <-.
            unfold put, set_keys; simpl. by rewrite lookup_insert.
          - destruct (hash_set_all _ _ _). injection Hstep as <- <-. unfold put, set_keys; simpl. by rewrite lookup_insert.
          - destruct (sh_keys (n_sh n) !! k); [|discriminate]. destruct (rv_crdt r0); try discriminate.
            destruct (hash_delete_all _ _ _). injection Hstep as <- <-. unfold put, set_keys; simpl. by rewrite lookup_insert. }
        rewrite Hd. pose proof (Hst (ev_key e)) as Hcur.
        destruct (hist_of n (ev_key e)) as [|x xs] eqn:Hh.
        * done.
        * simpl in Hcur. cbn [fold_merge app]. rewrite fold_left_app. cbn [fold_left]. f_equal. symmetry.
          (* current value is in the class, hence plain and idempotent *)
          assert (Hcls : in_class U (K (ev_key e)) (fold_left rv_merge xs x)).
          { specialize (Hg (ev_key e)). rewrite hist_of_push in Hg. rewrite decide_True in Hg by done.
            apply Forall_app in Hg as [Hg _]. rewrite Hh in Hg.
            apply (fold_merge_in_class U (K (ev_key e)) (HK _) (x :: xs)); [by apply good_forall_class|done]. }
          eapply (local_is_merge (n_sh n) e s1 d); eauto.
          -- apply Hcls.
          -- by apply (class_idem U (K (ev_key e))).
      + rewrite (step_other_keys _ _ _ _ k' Hstep) by congruence. apply Hst.
    - inversion Hex; subst; clear Hex. simpl in Ho.
      (* no delta: the replication state did not change *)
      assert (Hs : s1 = n_sh n).
      { destruct e; try discriminate Hloc; cbn [step] in Hstep.
        - destruct (rv_set _ _ _). discriminate.
        - destruct (sh_keys (n_sh n) !! k); [destruct (rv_delete _ _); discriminate|by injection Hstep].
        - destruct (hash_set_all _ _ _). discriminate.
        - destruct (sh_keys (n_sh n) !! k); [|by injection Hstep]. destruct (rv_crdt r0); try (by injection Hstep).
          destruct (hash_delete_all _ _ _). discriminate. }
      subst s1. exact (conj Hc (conj HI (conj HI2 Hst))).
  Qed.
End nodes.

(* ---------- monotonicity along a run: histories only grow, overflow is sticky ---------- *)
Definition node_le (a b : node) : Prop :=
  (∀ k, hist_of a k `prefix_of` hist_of b k) ∧ (sh_ovf (n_sh a) = true → sh_ovf (n_sh b) = true).

Lemma node_le_refl a : node_le a a.
Proof. split; [intros k; done|done]. Qed.
Lemma node_le_trans a b c : node_le a b → node_le b c → node_le a c.
Proof. intros [H1 H2] [H3 H4]. split; [intros k; etrans; eauto|auto]. Qed.

Lemma hist_push_prefix n k d k' x s b :
  hist_of n k' `prefix_of` hist_of (Node x s (hist_push (n_hist n) k d) b) k'.
Proof.
  rewrite hist_of_push. destruct (decide (k = k')) as [->|]; [by apply prefix_app_r|done].
Qed.

Lemma node_exec_le n c n1 r od : node_exec n c = (n1, r, od) → node_le n n1.
Proof.
  unfold node_exec. destruct (xexec (n_x n) c) as [x1 r1].
  destruct (record_post x1 c r1) as [e|].
  2:{ intros H; inversion H; subst. split; [intros k; done|done]. }
  destruct (step (n_sh n) e) as [s1 od1] eqn:Hs.
  pose proof (step_ovf (n_sh n) e) as Hov. rewrite Hs in Hov. simpl in Hov.
  destruct od1 as [d|]; intros H; inversion H; subst; (split; [intros k|exact Hov]).
  - apply hist_push_prefix.
  - done.
Qed.

Lemma node_deliver_le n k d : node_le n (node_deliver n k d).
Proof.
  unfold node_deliver. destruct (step (n_sh n) (ERemote k d)) as [s1 od1] eqn:Hs.
  pose proof (step_ovf (n_sh n) (ERemote k d)) as Hov. rewrite Hs in Hov. simpl in Hov.
  destruct (sh_keys s1 !! k); [destruct (materialise _ _ _)|]; (split; [intros k'; apply hist_push_prefix|exact Hov]).
Qed.

Lemma cstep_le c log e c1 l1 i n0 :
  cstep c log e = (c1, l1) → c !! i = Some n0 → ∃ n1, c1 !! i = Some n1 ∧ node_le n0 n1.
Proof.
  intros Hs Hi. destruct e as [j cmd|j k d]; simpl in Hs.
  - destruct (c !! j) as [n|] eqn:Hj; [|injection Hs as <- <-; eauto using node_le_refl].
    destruct (node_exec n cmd) as [[n1 r] od] eqn:Hx. injection Hs as <- _.
    destruct (decide (i = j)) as [->|Hne].
    + rewrite Hj in Hi. injection Hi as <-. exists n1. split; [|by eapply node_exec_le].
      apply list_lookup_insert. by eapply lookup_lt_Some.
    + exists n0. split; [by rewrite list_lookup_insert_ne|apply node_le_refl].
  - destruct (c !! j) as [n|] eqn:Hj; [|injection Hs as <- <-; eauto using node_le_refl].
    injection Hs as <- _. destruct (decide (i = j)) as [->|Hne].
    + rewrite Hj in Hi. injection Hi as <-. exists (node_deliver n k d). split; [|apply node_deliver_le].
      apply list_lookup_insert. by eapply lookup_lt_Some.
    + exists n0. split; [by rewrite list_lookup_insert_ne|apply node_le_refl].
Qed.

Lemma crun_le evs : ∀ c log cf lf i n0,
  crun c log evs = (cf, lf) → c !! i = Some n0 → ∃ nf, cf !! i = Some nf ∧ node_le n0 nf.
Proof.
  induction evs as [|e evs IH]; intros c log cf lf i n0 Hr Hi; simpl in Hr.
  - injection Hr as <- <-. eauto using node_le_refl.
  - destruct (cstep c log e) as [c1 l1] eqn:Hs.
    destruct (cstep_le _ _ _ _ _ _ _ Hs Hi) as (n1 & H1 & L1).
    destruct (IH _ _ _ _ _ _ Hr H1) as (nf & Hf & Lf). eauto using node_le_trans.
Qed.

Lemma cstep_lookup_back c log e c1 l1 i n1 :
  cstep c log e = (c1, l1) → c1 !! i = Some n1 → ∃ n0, c !! i = Some n0.
Proof.
  intros Hs Hi. assert (length c1 = length c).
  { destruct e as [j cmd|j k d]; simpl in Hs.
    - destruct (c !! j); [|by injection Hs as <- _]. destruct (node_exec _ _) as [[? ?] ?]. injection Hs as <- _. apply insert_length.
    - destruct (c !! j); [|by injection Hs as <- _]. injection Hs as <- _. apply insert_length. }
  apply lookup_lt_Some in Hi. rewrite H in Hi. by apply lookup_lt_is_Some_2 in Hi.
Qed.

Section cluster.
  Context (U : stamp → option lww) (K : list N → N).
  Hypothesis HK : ∀ k, K k = 0 ∨ K k = 5.

  Definition final_ok (c : list node) : Prop :=
    ∀ i ni, c !! i = Some ni → hist_good U K ni ∧ sh_ovf (n_sh ni) = false.

  Lemma node_le_good a b : node_le a b → hist_good U K b → sh_ovf (n_sh b) = false →
    hist_good U K a ∧ sh_ovf (n_sh a) = false.
  Proof.
    intros [Hp Ho] Hg Hb. split.
    - intros k. destruct (Hp k) as [ext E]. specialize (Hg k). rewrite E in Hg. by apply Forall_app in Hg as [? _].
    - apply not_ovf_before. intros Ex. rewrite (Ho Ex) in Hb. discriminate.
  Qed.

  Lemma crun_inv evs : ∀ c0 log0 c log,
    crun c0 log0 evs = (c, log) →
    (∀ i n0, c0 !! i = Some n0 → NodeInv n0) →
    final_ok c →
    ∀ i ni, c !! i = Some ni → NodeInv ni.
  Proof.
    induction evs as [|e evs IH]; intros c0 log0 c log Hr H0 Hf; simpl in Hr.
    - injection Hr as <- <-. exact H0.
    - destruct (cstep c0 log0 e) as [c1 l1] eqn:Hs.
      apply (IH c1 l1 c log Hr); [|exact Hf].
      intros i n1 Hi1.
      (* what the final state says about n1 *)
      destruct (crun_le _ _ _ _ _ _ _ Hr Hi1) as (nf & Hfi & Lf).
      destruct (Hf i nf Hfi) as [Hgf Hof].
      destruct (node_le_good _ _ Lf Hgf Hof) as [Hg1 Ho1].
      destruct e as [j cmd|j k d]; simpl in Hs.
      + destruct (c0 !! j) as [n|] eqn:Hj; [|injection Hs as <- <-; by apply (H0 i)].
        destruct (node_exec n cmd) as [[n' r] od] eqn:Hx. injection Hs as <- _.
        destruct (decide (i = j)) as [->|Hne].
        * rewrite list_lookup_insert in Hi1 by (by eapply lookup_lt_Some). injection Hi1 as <-.
          eapply (node_exec_inv U K HK); eauto.
        * rewrite list_lookup_insert_ne in Hi1 by done. by apply (H0 i).
      + destruct (c0 !! j) as [n|] eqn:Hj; [|injection Hs as <- <-; by apply (H0 i)].
        injection Hs as <- _. destruct (decide (i = j)) as [->|Hne].
        * rewrite list_lookup_insert in Hi1 by (by eapply lookup_lt_Some). injection Hi1 as <-.
          apply (node_deliver_inv U K); eauto.
        * rewrite list_lookup_insert_ne in Hi1 by done. by apply (H0 i).
  Qed.

  Lemma cluster_init_inv n i n0 : cluster_init n !! i = Some n0 → NodeInv n0.
  Proof.
    unfold cluster_init. rewrite list_lookup_fmap. destruct (seq 0 n !! i); simpl; [|done].
    intros [= <-]. apply NodeInv_init.
  Qed.

  (* Strong eventual consistency of the replication state: in any run of the cluster (any
     interleaving of client commands at any nodes and deliveries of any deltas, any number of
     times, in any order), two nodes that have incorporated the same SET of deltas for a key
     hold the same replicated value for it. *)
  Theorem sec_lemma n evs c log i j ni nj k :
    crun (cluster_init n) [] evs = (c, log) → final_ok c →
    c !! i = Some ni → c !! j = Some nj →
    same_set (hist_of ni k) (hist_of nj k) →
    sh_keys (n_sh ni) !! k = sh_keys (n_sh nj) !! k.
  Proof.
    intros Hr Hf Hi Hj Hs.
    pose proof (crun_inv evs _ _ _ _ Hr (cluster_init_inv n) Hf) as Hinv.
    destruct (Hinv i ni Hi) as (_ & _ & _ & Si). destruct (Hinv j nj Hj) as (_ & _ & _ & Sj).
    rewrite Si, Sj.
    apply (fold_merge_same_set U (K k) (HK k)); [| |exact Hs].
    - apply good_forall_class. apply (Hf i ni Hi).
    - apply good_forall_class. apply (Hf j nj Hj).
  Qed.

End cluster.

(* ---------- the agreed value of a string key is the write with the greatest stamp ---------- *)
Definition reg_of (v : rvalue) : option lww := match rv_crdt v with CLww r => Some r | _ => None end.

Lemma fold_lww_max xs : ∀ x r0,
  reg_of x = Some r0 → Forall (λ d, ∃ r, reg_of d = Some r) xs →
  ∃ r, reg_of (fold_left rv_merge xs x) = Some r ∧
       (∃ d, In d (x :: xs) ∧ reg_of d = Some r) ∧
       ∀ d r', In d (x :: xs) → reg_of d = Some r' → stamp_ltb (lw_ts r) (lw_ts r') = false.
Proof.
  induction xs as [|a xs IH]; intros x r0 Hx Hxs; simpl.
  - exists r0. split; [done|]. split; [exists x; split; [by left|done]|].
    intros d r' [<-|[]] Hr. rewrite Hx in Hr. injection Hr as <-. apply stamp_ltb_irrefl.
  - inversion Hxs as [|? ? [ra Ha] Hxs']; subst.
    assert (Hm : reg_of (rv_merge x a) = Some (lww_merge r0 ra)).
    { unfold reg_of in *. unfold rv_merge, merge_with_ts; simpl.
      destruct (rv_crdt x); try discriminate Hx. destruct (rv_crdt a); try discriminate Ha.
      injection Hx as ->. injection Ha as ->. done. }
    destruct (IH (rv_merge x a) _ Hm Hxs') as (r & Hr & (d & Hd & Hdr) & Hmax).
    exists r. split; [done|]. split.
    + destruct Hd as [<-|Hd].
      * rewrite Hm in Hdr. injection Hdr as <-. unfold lww_merge. destruct (stamp_ltb _ _).
        -- exists a. split; [right; by left|done].
        -- exists x. split; [by left|done].
      * exists d. split; [right; by right|done].
    + intros d' r' Hd' Hr'.
      assert (Hge : stamp_ltb (lw_ts r) (lw_ts (lww_merge r0 ra)) = false).
      { apply (Hmax (rv_merge x a)); [by left|done]. }
      destruct Hd' as [<-|[<-|Hd']].
      * rewrite Hx in Hr'. injection Hr' as <-.
        apply not_true_iff_false. intros Hlt. apply not_true_iff_false in Hge. apply Hge.
        unfold lww_merge. destruct (stamp_ltb (lw_ts r0) (lw_ts ra)) eqn:E; [|done].
        eapply stamp_ltb_trans; eauto.
      * rewrite Ha in Hr'. injection Hr' as <-.
        apply not_true_iff_false. intros Hlt. apply not_true_iff_false in Hge. apply Hge.
        unfold lww_merge. destruct (stamp_ltb (lw_ts r0) (lw_ts ra)) eqn:E; [done|].
        destruct (stamp_trichotomy (lw_ts r0) (lw_ts ra)) as [H|[H|H]]; [congruence|by rewrite H|].
        eapply stamp_ltb_trans; eauto.
      * apply (Hmax d'); [by right|done].
Qed.

Theorem lww_winner_lemma (U : stamp → option lww) l v :
  Forall (in_class U 0) l → fold_merge l = Some v →
  ∃ r, reg_of v = Some r ∧ (∃ d, In d l ∧ reg_of d = Some r) ∧
       ∀ d r', In d l → reg_of d = Some r' → stamp_ltb (lw_ts r) (lw_ts r') = false.
Proof.
  intros Hl Hf. destruct l as [|x xs]; [done|]. injection Hf as <-.
  assert (Hreg : ∀ d, in_class U 0 d → ∃ r, reg_of d = Some r).
  { intros d (Hk & _). unfold reg_of. destruct (rv_crdt d); try discriminate Hk. eauto. }
  inversion Hl as [|? ? Hx Hxs]; subst.
  destruct (Hreg x Hx) as [r0 Hr0].
  apply (fold_lww_max xs x r0 Hr0). eapply Forall_impl; [exact Hxs|]. exact Hreg.
Qed.

(* ================= witnesses ================= *)
(* a read, as data without map internals: (0,[]) nothing, (1,[(s,s)]) string s, (2,fields) hash *)
Definition showx (r : xread) : N * list (list N * list N) :=
  match r with RdNone => (0, []) | RdStr s => (1, [(s, s)]) | RdHash h => (2, map_to_list h) end.

Definition kS : list N := [115].   (* "s" *)
Definition kH : list N := [104].   (* "h" *)

(* Non-vacuity: two nodes write the same string key concurrently, a third only listens; the
   deltas arrive in different orders (one twice); all three end up equal. *)
Definition ex_evs6 : list cev :=
  [CClient 0 (CSet kS [97] false false); CClient 1 (CSet kS [98] false false)].
Definition ex_d0 : rvalue := RV (CLww (Lww (Some [97]) (Stamp 1 1) false)) None None (Stamp 1 1) None.
Definition ex_d1 : rvalue := RV (CLww (Lww (Some [98]) (Stamp 1 2) false)) None None (Stamp 1 2) None.
Definition ex_deliveries : list cev :=
  [CDeliver 1 kS ex_d0; CDeliver 0 kS ex_d1; CDeliver 2 kS ex_d1; CDeliver 2 kS ex_d0; CDeliver 2 kS ex_d1].
Definition ex_U (st : stamp) : option lww :=
  if bool_decide (st = Stamp 1 1) then Some (Lww (Some [97]) (Stamp 1 1) false)
  else if bool_decide (st = Stamp 1 2) then Some (Lww (Some [98]) (Stamp 1 2) false) else None.

Lemma ex_run6 :
  let '(c, log) := crun (cluster_init 3) [] (ex_evs6 ++ ex_deliveries) in
  log = [(0%nat, kS, ex_d0); (1%nat, kS, ex_d1)] ∧
  map (λ n, hist_of n kS) c = [[ex_d0; ex_d1]; [ex_d1; ex_d0]; [ex_d1; ex_d0; ex_d1]] ∧
  map (λ n, showx (serve n kS)) c = [(1, [([98],[98])]); (1, [([98],[98])]); (1, [([98],[98])])] ∧
  map (λ n, bool_decide (sh_keys (n_sh n) !! kS = sh_keys (n_sh (default (node_init 0) (c !! 0%nat))) !! kS)) c = [true; true; true].
Proof. vm_compute. done. Qed.

Lemma ex_good6 : Forall (good ex_U (λ _, 0) kS) [ex_d0; ex_d1].
Proof.
  repeat constructor; try done; simpl; lia.
Qed.

(* Known finding C06-expiry: record_write OVERWRITES expiry_ms while merge takes the MAXIMUM, so
   a later SET without (or with a shorter) TTL leaves the writer and its peers with different
   expiry although both have incorporated the same two deltas. *)
Lemma expiry_witness :
  let '(s1, ds) := run (shard_init 1 false) [EWrite kS [97] (Some 5000); EWrite kS [98] None] in
  let '(s2, _) := run (shard_init 2 false) (map (ERemote kS) ds) in
  option_map rv_exp (sh_keys s1 !! kS) = Some None ∧
  option_map rv_exp (sh_keys s2 !! kS) = Some (Some 5000).
Proof. vm_compute. done. Qed.

(* Known finding C06-del-nonstring: DEL of a hash key removes it from the executor of the node
   that ran the command, but the replication state (and hence every peer) keeps the live hash:
   same deltas incorporated everywhere, different answers. *)
Definition del_evs : list cev :=
  [CClient 0 (CHSet kH [([102], [118])])].
Lemma del_nonstring_witness :
  let '(c1, log1) := crun (cluster_init 2) [] del_evs in
  match log1 with
  | [(_, _, d)] =>
      let '(c2, log2) := crun c1 log1 [CDeliver 1 kH d; CClient 0 (CDel kH)] in
      match log2 with
      | [_; (_, _, d2)] =>
          let '(c3, _) := crun c2 log2 [CDeliver 1 kH d2] in
          map (λ n, showx (serve n kH)) c3 = [(0, []); (2, [([102], [118])])] ∧
          map (λ n, showx (state_says n kH)) c3 = [(2, [([102], [118])]); (2, [([102], [118])])]
      | _ => False
      end
  | _ => False
  end.
Proof. vm_compute. done. Qed.

(* Known finding C06-type-change: a remote hash delta arriving over a local string cannot be
   materialised (the executor answers WRONGTYPE; a debug build asserts), so the node keeps
   serving the string while its replication state holds the hash. *)
Lemma type_change_witness :
  let '(c1, log1) := crun (cluster_init 2) []
     [CClient 0 (CHSet kS [([102], [118])]); CClient 0 (CHSet kS [([103], [119])]); CClient 1 (CSet kS [97] false false)] in
  match log1 with
  | [_; (_, _, dh); _] =>
      let '(c2, _) := crun c1 log1 [CDeliver 1 kS dh] in
      map n_glue_fail c2 = [false; true] ∧
      map (λ n, showx (serve n kS)) c2 = [(2, [([102], [118]); ([103], [119])]); (1, [([97], [97])])] ∧
      map (λ n, showx (state_says n kS)) c2 = [(2, [([102], [118]); ([103], [119])]); (2, [([102], [118]); ([103], [119])])]
  | _ => False
  end.
Proof. vm_compute. done. Qed.

(* Lemmas about Model/Codec.v (provisional: witness of the truncated-segment defect). *)
From Coq Require Import String Ascii Arith NArith List Bool Lia.
From RV Require Import Lib.Hex Lib.Bytes Lib.Crc32 Gen.Consts Model.Codec.
Import ListNotations.
Local Open Scope N_scope.

Definition wit_p0 : bytes := [1; 53; 184; 116].
Definition wit_p1 : bytes := repeat 0 16 ++ [71; 69; 83; 82] ++ repeat 0 4.
Definition wit_seg : bytes :=
  match seg_write crc32 [(1, wit_p0); (2, wit_p1)] with Ok b => b | _ => [] end.

Lemma segment_prefix_witness :
  (exists h, seg_read crc32 (fun _ => true) wit_seg = Ok (h, [wit_p0; wit_p1])) /\
  (72 < length wit_seg)%nat /\
  (exists h, seg_read crc32 (fun _ => true) (firstn 72 wit_seg) = Ok (h, [wit_p0])).
Proof. split; [|split]; [eexists; vm_compute; reflexivity | vm_compute; lia | eexists; vm_compute; reflexivity]. Qed.

(* Lemmas about Model/Codec.v (segment and checkpoint framing), for an arbitrary checksum
   function [crc] with 32-bit results and an arbitrary payload validity predicate. *)
From Coq Require Import String Ascii Arith NArith List Bool Lia.
From RV Require Import Lib.Hex Lib.Bytes Lib.Crc32 Gen.Consts Model.Codec.
Import ListNotations.
Local Open Scope N_scope.

Definition U32 : N := 4294967296.
Definition U64 : N := 18446744073709551616.

(* constants the proofs rely on (they stop compiling when segment.rs / checkpoint.rs change) *)
Lemma seg_hs : SEGMENT_HEADER_SIZE = 40. Proof. reflexivity. Qed.
Lemma seg_fs : SEGMENT_FOOTER_SIZE = 24. Proof. reflexivity. Qed.
Lemma chk_hs : CHECKPOINT_HEADER_SIZE = 48. Proof. reflexivity. Qed.
Lemma chk_fs : CHECKPOINT_FOOTER_SIZE = 16. Proof. reflexivity. Qed.

(* ---------- generic slicing ---------- *)
Lemma sliceN_skip : forall A (p r : list A) a b n,
  lenN p = n -> n <= a -> a <= b -> sliceN a b (p ++ r) = sliceN (a - n) (b - n) r.
Proof.
  intros A p r a b n Hp Ha Hb. unfold sliceN. rewrite lenN_app, Hp.
  replace (a - n <=? b - n) with (a <=? b)
    by (destruct (a <=? b) eqn:E; symmetry; [apply N.leb_le in E; apply N.leb_le|apply N.leb_gt in E; apply N.leb_gt]; lia).
  replace (b - n <=? lenN r) with (b <=? n + lenN r)
    by (destruct (b <=? n + lenN r) eqn:E; symmetry; [apply N.leb_le in E; apply N.leb_le|apply N.leb_gt in E; apply N.leb_gt]; lia).
  destruct ((a <=? b) && (b <=? n + lenN r)); auto.
  rewrite dropN_app_ge by lia. rewrite Hp. do 2 f_equal. lia.
Qed.
Lemma sliceN_app_tail : forall A (a b : list A) x y,
  x = lenN a -> y = lenN a + lenN b -> sliceN x y (a ++ b) = Some b.
Proof.
  intros. rewrite <- (app_nil_r b) at 1. now apply sliceN_app_mid.
Qed.
Lemma sliceN_all : forall A (l : list A) y, y = lenN l -> sliceN 0 y l = Some l.
Proof. intros. rewrite <- (app_nil_r l) at 1. now apply sliceN_app_head. Qed.
Lemma indexN_skip : forall (p r : list N) i n, lenN p = n -> n <= i -> indexN i (p ++ r) = indexN (i - n) r.
Proof.
  intros p r i n Hp Hi. unfold indexN. rewrite lenN_app, Hp.
  replace (i - n <? lenN r) with (i <? n + lenN r)
    by (destruct (i <? n + lenN r) eqn:E; symmetry; [apply N.ltb_lt in E; apply N.ltb_lt|apply N.ltb_ge in E; apply N.ltb_ge]; lia).
  destruct (i <? n + lenN r); auto. f_equal.
  rewrite app_nth2 by (unfold lenN in *; lia). f_equal. unfold lenN in *. lia.
Qed.
Lemma indexN_0_cons : forall x l, indexN 0 (x :: l) = Some x.
Proof. intros. unfold indexN. rewrite lenN_cons. replace (0 <? 1 + lenN l) with true by (symmetry; apply N.ltb_lt; lia). reflexivity. Qed.
Lemma indexN_1_cons : forall x y l, indexN 1 (x :: y :: l) = Some y.
Proof. intros. unfold indexN. rewrite !lenN_cons. replace (1 <? 1 + (1 + lenN l)) with true by (symmetry; apply N.ltb_lt; lia). reflexivity. Qed.

Lemma resize0_pad : forall n b, lenN b <= n -> resize0 n b = b ++ repeat 0 (N.to_nat (n - lenN b)).
Proof.
  intros. unfold resize0. apply takeN_all. rewrite lenN_app, lenN_repeat. lia.
Qed.

Lemma firstn_app_split : forall A (a b : list A) k, (length a <= k)%nat ->
  firstn k (a ++ b) = a ++ firstn (k - length a) b.
Proof. intros. rewrite firstn_app, firstn_all2 by lia. reflexivity. Qed.

Section CodecProofs.
  Variable crc : bytes -> N.
  Variable deser_ok : bytes -> bool.
  Hypothesis crc_u32 : forall d, crc d < U32.

  Notation seg_read := (seg_read crc deser_ok).
  Notation seg_open := (seg_open crc).
  Notation rec_loop := (rec_loop deser_ok).
  Notation chk_read := (chk_read crc deser_ok).

  (* ================= segment ================= *)
  Definition seg_hdr_wf (h : seg_hdr) : Prop :=
    lenN (sh_magic h) = 4 /\ sh_count h < U32 /\ sh_min h < U64 /\ sh_max h < U64 /\ sh_ck h < U32.

  Definition seg_fields_of (h : seg_hdr) : bytes :=
    seg_hdr_fields (sh_magic h) (sh_version h) (sh_flags h) (sh_count h) (sh_min h) (sh_max h).
  (* the 40 header bytes with arbitrary padding *)
  Definition seg_hdr_image (h : seg_hdr) (pad : bytes) : bytes :=
    seg_fields_of h ++ le_enc 4 (sh_ck h) ++ pad.

  Lemma lenN_seg_fields : forall h, lenN (sh_magic h) = 4 -> lenN (seg_fields_of h) = 26.
  Proof.
    intros h Hm. unfold seg_fields_of, seg_hdr_fields. rewrite !lenN_app, !lenN_le_enc, Hm. reflexivity.
  Qed.
  Lemma lenN_seg_hdr_image : forall h pad, lenN (sh_magic h) = 4 -> lenN pad = 10 ->
    lenN (seg_hdr_image h pad) = 40.
  Proof.
    intros. unfold seg_hdr_image. rewrite !lenN_app, lenN_seg_fields, lenN_le_enc by auto. lia.
  Qed.
  Lemma seg_hdr_bytes_eq : forall h, lenN (sh_magic h) = 4 ->
    seg_hdr_bytes h = seg_hdr_image h (repeat 0 10).
  Proof.
    intros h Hm. unfold seg_hdr_bytes. fold (seg_fields_of h).
    rewrite resize0_pad; rewrite lenN_app, lenN_seg_fields, lenN_le_enc, seg_hs by auto; [|cbn; lia].
    unfold seg_hdr_image. now rewrite <- app_assoc.
  Qed.

  Lemma seg_hdr_parse : forall h pad, seg_hdr_wf h -> lenN pad = 10 ->
    seg_hdr_from_bytes (seg_hdr_image h pad) = Ok h.
  Proof.
    intros h pad (Hm & Hc & Hmin & Hmax & Hck) Hp. unfold U32, U64 in *.
    unfold seg_hdr_from_bytes. rewrite lenN_seg_hdr_image, seg_hs by auto. cbn [N.ltb N.compare Pos.compare Pos.compare_cont].
    unfold seg_hdr_image, seg_fields_of, seg_hdr_fields. rewrite <- !app_assoc.
    rewrite (sliceN_app_head _ (sh_magic h)) by auto. cbn [or_panic rbind].
    rewrite (indexN_skip (sh_magic h) _ 4 4) by (auto; lia). change (4 - 4) with 0.
    rewrite indexN_app_l by (cbn; lia).
    change (indexN 0 [sh_version h; sh_flags h]) with (Some (sh_version h)). cbn [or_panic rbind].
    rewrite (indexN_skip (sh_magic h) _ 5 4) by (auto; lia). change (5 - 4) with 1.
    rewrite indexN_app_l by (cbn; lia).
    change (indexN 1 [sh_version h; sh_flags h]) with (Some (sh_flags h)). cbn [or_panic rbind].
    rewrite (sliceN_skip _ (sh_magic h) _ 6 10 4) by (auto; lia). change (6 - 4) with 2. change (10 - 4) with 6.
    rewrite (sliceN_skip _ [sh_version h; sh_flags h] _ 2 6 2) by (auto; lia). change (2 - 2) with 0. change (6 - 2) with 4.
    rewrite (sliceN_app_head _ (le_enc 4 (sh_count h))) by (now rewrite lenN_le_enc). cbn [or_panic rbind].
    rewrite (sliceN_skip _ (sh_magic h) _ 10 18 4) by (auto; lia). change (10 - 4) with 6. change (18 - 4) with 14.
    rewrite (sliceN_skip _ [sh_version h; sh_flags h] _ 6 14 2) by (auto; lia). change (6 - 2) with 4. change (14 - 2) with 12.
    rewrite (sliceN_skip _ (le_enc 4 (sh_count h)) _ 4 12 4) by (try rewrite lenN_le_enc; auto; lia). change (4 - 4) with 0. change (12 - 4) with 8.
    rewrite (sliceN_app_head _ (le_enc 8 (sh_min h))) by (now rewrite lenN_le_enc). cbn [or_panic rbind].
    rewrite (sliceN_skip _ (sh_magic h) _ 18 26 4) by (auto; lia). change (18 - 4) with 14. change (26 - 4) with 22.
    rewrite (sliceN_skip _ [sh_version h; sh_flags h] _ 14 22 2) by (auto; lia). change (14 - 2) with 12. change (22 - 2) with 20.
    rewrite (sliceN_skip _ (le_enc 4 (sh_count h)) _ 12 20 4) by (try rewrite lenN_le_enc; auto; lia). change (12 - 4) with 8. change (20 - 4) with 16.
    rewrite (sliceN_skip _ (le_enc 8 (sh_min h)) _ 8 16 8) by (try rewrite lenN_le_enc; auto; lia). change (8 - 8) with 0. change (16 - 8) with 8.
    rewrite (sliceN_app_head _ (le_enc 8 (sh_max h))) by (now rewrite lenN_le_enc). cbn [or_panic rbind].
    rewrite (sliceN_skip _ (sh_magic h) _ 26 30 4) by (auto; lia). change (26 - 4) with 22. change (30 - 4) with 26.
    rewrite (sliceN_skip _ [sh_version h; sh_flags h] _ 22 26 2) by (auto; lia). change (22 - 2) with 20. change (26 - 2) with 24.
    rewrite (sliceN_skip _ (le_enc 4 (sh_count h)) _ 20 24 4) by (try rewrite lenN_le_enc; auto; lia). change (20 - 4) with 16. change (24 - 4) with 20.
    rewrite (sliceN_skip _ (le_enc 8 (sh_min h)) _ 16 20 8) by (try rewrite lenN_le_enc; auto; lia). change (16 - 8) with 8. change (20 - 8) with 12.
    rewrite (sliceN_skip _ (le_enc 8 (sh_max h)) _ 8 12 8) by (try rewrite lenN_le_enc; auto; lia). change (8 - 8) with 0. change (12 - 8) with 4.
    rewrite (sliceN_app_head _ (le_enc 4 (sh_ck h))) by (now rewrite lenN_le_enc). cbn [or_panic rbind].
    rewrite !le_dec_enc_u32, !le_dec_enc_u64 by lia. destruct h; reflexivity.
  Qed.

  (* ---------- footer ---------- *)
  Definition seg_ftr_image (ck us cs : N) (m : bytes) : bytes :=
    le_enc 4 ck ++ le_enc 8 us ++ le_enc 8 cs ++ m.
  Lemma lenN_seg_ftr_image : forall ck us cs m, lenN m = 4 -> lenN (seg_ftr_image ck us cs m) = 24.
  Proof. intros. unfold seg_ftr_image. rewrite !lenN_app, !lenN_le_enc, H. reflexivity. Qed.

  Lemma seg_ftr_parse : forall ck us cs m, ck < U32 -> us < U64 -> cs < U64 -> lenN m = 4 ->
    seg_ftr_from_bytes (seg_ftr_image ck us cs m) =
    if bytes_eqb m SEGMENT_FOOTER_MAGIC then Ok (SegFtr ck us cs m) else Err EMagic.
  Proof.
    intros ck us cs m Hck Hus Hcs Hm. unfold U32, U64 in *. unfold seg_ftr_from_bytes.
    rewrite lenN_seg_ftr_image, seg_fs by auto. cbn [N.ltb N.compare Pos.compare Pos.compare_cont].
    unfold seg_ftr_image.
    rewrite (sliceN_app_head _ (le_enc 4 ck)) by (now rewrite lenN_le_enc). cbn [or_panic rbind].
    rewrite (sliceN_skip _ (le_enc 4 ck) _ 4 12 4) by (try rewrite lenN_le_enc; auto; lia). change (4 - 4) with 0. change (12 - 4) with 8.
    rewrite (sliceN_app_head _ (le_enc 8 us)) by (now rewrite lenN_le_enc). cbn [or_panic rbind].
    rewrite (sliceN_skip _ (le_enc 4 ck) _ 12 20 4) by (try rewrite lenN_le_enc; auto; lia). change (12 - 4) with 8. change (20 - 4) with 16.
    rewrite (sliceN_skip _ (le_enc 8 us) _ 8 16 8) by (try rewrite lenN_le_enc; auto; lia). change (8 - 8) with 0. change (16 - 8) with 8.
    rewrite (sliceN_app_head _ (le_enc 8 cs)) by (now rewrite lenN_le_enc). cbn [or_panic rbind].
    rewrite (sliceN_skip _ (le_enc 4 ck) _ 20 24 4) by (try rewrite lenN_le_enc; auto; lia). change (20 - 4) with 16. change (24 - 4) with 20.
    rewrite (sliceN_skip _ (le_enc 8 us) _ 16 20 8) by (try rewrite lenN_le_enc; auto; lia). change (16 - 8) with 8. change (20 - 8) with 12.
    rewrite (sliceN_skip _ (le_enc 8 cs) _ 8 12 8) by (try rewrite lenN_le_enc; auto; lia). change (8 - 8) with 0. change (12 - 8) with 4.
    rewrite sliceN_all by auto. cbn [or_panic rbind].
    destruct (bytes_eqb m SEGMENT_FOOTER_MAGIC); cbn [negb]; auto.
    now rewrite le_dec_enc_u32, !le_dec_enc_u64 by lia.
  Qed.

  (* the footer parser never panics on 24 bytes *)
  Lemma seg_ftr_no_panic : forall fb, lenN fb = 24 -> seg_ftr_from_bytes fb <> Panic.
  Proof.
    intros fb H. unfold seg_ftr_from_bytes. rewrite H, seg_fs. cbn [N.ltb N.compare Pos.compare Pos.compare_cont].
    rewrite (sliceN_ok _ 0 4), (sliceN_ok _ 4 12), (sliceN_ok _ 12 20), (sliceN_ok _ 20 24) by lia.
    cbn [or_panic rbind]. destruct (negb _); discriminate.
  Qed.

  (* ---------- open ---------- *)
  Lemma seg_open_image : forall h pad rd fb, seg_hdr_wf h -> lenN pad = 10 -> lenN fb = 24 ->
    seg_open (seg_hdr_image h pad ++ rd ++ fb) =
    (do _ <- seg_hdr_validate crc h;
     do ft <- seg_ftr_from_bytes fb;
     if negb (sh_flags h =? 0) then Err ECompression else Ok (Seg h ft rd)).
  Proof.
    intros h pad rd fb Hwf Hp Hf. pose proof Hwf as (Hm & _).
    pose proof (lenN_seg_hdr_image h pad Hm Hp) as Lh.
    unfold Codec.seg_open. rewrite seg_hs, seg_fs.
    assert (Li : lenN (seg_hdr_image h pad ++ rd ++ fb) = 40 + lenN rd + 24) by (rewrite !lenN_app; lia).
    rewrite Li.
    replace (40 + lenN rd + 24 <? 40 + 24) with false by (symmetry; apply N.ltb_ge; lia).
    rewrite (sliceN_app_head _ (seg_hdr_image h pad)) by auto. cbn [or_panic rbind].
    rewrite seg_hdr_parse by auto. cbn [rbind].
    destruct (seg_hdr_validate crc h) as [[]| |]; cbn [rbind]; auto.
    replace (40 + lenN rd + 24 - 24) with (40 + lenN rd) by lia.
    replace (seg_hdr_image h pad ++ rd ++ fb) with ((seg_hdr_image h pad ++ rd) ++ fb) by now rewrite <- app_assoc.
    rewrite (sliceN_app_tail _ (seg_hdr_image h pad ++ rd) fb) by (rewrite lenN_app; lia).
    cbn [or_panic rbind]. destruct (seg_ftr_from_bytes fb); cbn [rbind]; auto.
    destruct (negb (sh_flags h =? 0)); auto.
    rewrite <- app_assoc. rewrite (sliceN_app_mid _ (seg_hdr_image h pad) rd fb) by lia.
    reflexivity.
  Qed.

  (* ---------- records ---------- *)
  Definition payload_ok (p : bytes) : Prop := lenN p < U32.

  Lemma lenN_seg_record : forall p, lenN (seg_record p) = 4 + lenN p.
  Proof. intros. unfold seg_record. now rewrite lenN_app, lenN_le_enc. Qed.
  Lemma length_seg_record : forall p, length (seg_record p) = (4 + length p)%nat.
  Proof. intros. pose proof (lenN_seg_record p). unfold lenN in *. lia. Qed.

  Lemma rec_loop_step : forall f remaining d, remaining <> 0 -> d <> [] ->
    rec_loop (S f) remaining d =
    if lenN d <? 4 then Err ETooShort else
    do lb <- or_panic (sliceN 0 4 d);
    if lenN (dropN 4 d) <? le_dec lb then Err ETooShort else
    if deser_ok (takeN (le_dec lb) (dropN 4 d))
    then do r <- rec_loop f (remaining - 1) (dropN (le_dec lb) (dropN 4 d));
         Ok (takeN (le_dec lb) (dropN 4 d) :: r)
    else Err ESerial.
  Proof.
    intros f remaining d Hr Hd. cbn [Codec.rec_loop].
    replace (remaining =? 0) with false by (symmetry; now apply N.eqb_neq).
    destruct d; [congruence|]. reflexivity.
  Qed.

  (* one whole record in front *)
  Lemma rec_loop_record : forall f remaining p rest, remaining <> 0 -> payload_ok p ->
    rec_loop (S f) remaining (seg_record p ++ rest) =
    if deser_ok p then do r <- rec_loop f (remaining - 1) rest; Ok (p :: r) else Err ESerial.
  Proof.
    intros f remaining p rest Hr Hp. unfold payload_ok, U32 in Hp.
    rewrite rec_loop_step; auto.
    2:{ intros E. apply (f_equal (@lenN N)) in E. rewrite lenN_app, lenN_seg_record in E. change (lenN (@nil N)) with 0 in E. lia. }
    rewrite lenN_app, lenN_seg_record.
    replace (4 + lenN p + lenN rest <? 4) with false by (symmetry; apply N.ltb_ge; lia).
    unfold seg_record. rewrite <- app_assoc.
    rewrite (sliceN_app_head _ (le_enc 4 (lenN p))) by (now rewrite lenN_le_enc). cbn [or_panic rbind].
    rewrite le_dec_enc_u32 by lia.
    rewrite (dropN_app_exact' _ 4 (le_enc 4 (lenN p))) by (now rewrite lenN_le_enc).
    rewrite lenN_app.
    replace (lenN p + lenN rest <? lenN p) with false by (symmetry; apply N.ltb_ge; lia).
    now rewrite takeN_app_exact, dropN_app_exact.
  Qed.

  Lemma lenN_S_neq0 : forall A (x : A) l, lenN (x :: l) <> 0.
  Proof. intros. rewrite lenN_cons. lia. Qed.
  Lemma lenN_cons_pred : forall A (x : A) l, lenN (x :: l) - 1 = lenN l.
  Proof. intros. rewrite lenN_cons. lia. Qed.

  Lemma rec_loop_ok : forall ps f,
    Forall (fun p => payload_ok p /\ deser_ok p = true) ps ->
    (length (concat (map seg_record ps)) < f)%nat ->
    rec_loop f (lenN ps) (concat (map seg_record ps)) = Ok ps.
  Proof.
    induction ps as [|p r IH]; intros f Hall Hf.
    - destruct f; [lia|]. reflexivity.
    - inversion Hall as [|? ? [Hp Hd] Hr]; subst. cbn [map concat] in *.
      destruct f; [lia|]. rewrite rec_loop_record by (auto using lenN_S_neq0).
      rewrite Hd, lenN_cons_pred, IH; auto. rewrite app_length, length_seg_record in Hf. lia.
  Qed.

  (* a strict prefix of the record data never yields the promised number of records *)
  Lemma rec_loop_truncated : forall ps (k f : nat),
    Forall payload_ok ps ->
    (k < length (concat (map seg_record ps)))%nat -> (k < f)%nat ->
    exists e, rec_loop f (lenN ps) (firstn k (concat (map seg_record ps))) = Err e.
  Proof.
    induction ps as [|p r IH]; intros k f Hall Hk Hf; cbn [map concat] in *.
    - cbn in Hk. lia.
    - inversion Hall as [|? ? Hp Hr]; subst.
      destruct f; [lia|].
      pose proof (length_seg_record p) as Lr.
      destruct (le_lt_dec (length (seg_record p)) k) as [Hge|Hlt].
      + (* the first record is whole *)
        rewrite firstn_app_split by auto.
        rewrite rec_loop_record by (auto using lenN_S_neq0).
        destruct (deser_ok p); [|eexists; reflexivity].
        rewrite lenN_cons_pred.
        destruct (IH (k - length (seg_record p))%nat f Hr) as [e He];
          [rewrite app_length in Hk; lia|lia|].
        rewrite He. eexists; reflexivity.
      + (* the cut is inside the first record *)
        rewrite firstn_app. replace (k - length (seg_record p))%nat with 0%nat by lia.
        cbn [firstn]. rewrite app_nil_r.
        destruct k as [|k].
        { cbn [firstn Codec.rec_loop]. rewrite lenN_cons.
          replace (1 + lenN r =? 0) with false by (symmetry; apply N.eqb_neq; lia). eexists; reflexivity. }
        rewrite rec_loop_step.
        2:{ apply lenN_S_neq0. }
        2:{ intros E. apply (f_equal (@length N)) in E. rewrite firstn_length in E. cbn [length] in E. lia. }
        assert (Lk : lenN (firstn (S k) (seg_record p)) = N.of_nat (S k)).
        { unfold lenN. rewrite firstn_length. lia. }
        rewrite Lk.
        destruct (N.of_nat (S k) <? 4) eqn:E4; [eexists; reflexivity|]. apply N.ltb_ge in E4.
        unfold seg_record. rewrite firstn_app_split by (rewrite le_enc_length; lia).
        rewrite le_enc_length.
        rewrite (sliceN_app_head _ (le_enc 4 (lenN p))) by (now rewrite lenN_le_enc). cbn [or_panic rbind].
        unfold payload_ok, U32 in Hp. rewrite le_dec_enc_u32 by lia.
        rewrite (dropN_app_exact' _ 4 (le_enc 4 (lenN p))) by (now rewrite lenN_le_enc).
        replace (lenN (firstn (S k - 4) p) <? lenN p) with true.
        * eexists; reflexivity.
        * symmetry. apply N.ltb_lt. unfold lenN. rewrite firstn_length. lia.
  Qed.

  (* ---------- whole image: what the writer produces, with arbitrary padding / size fields ---------- *)
  Definition seg_image (h : seg_hdr) (pad : bytes) (ps : list bytes) (fck us cs : N) (fm : bytes) : bytes :=
    seg_hdr_image h pad ++ concat (map seg_record ps) ++ seg_ftr_image fck us cs fm.

  Definition seg_hdr_valid (h : seg_hdr) : Prop :=
    sh_magic h = SEGMENT_MAGIC /\ sh_version h = SEGMENT_VERSION /\ sh_ck h = crc (seg_fields_of h).

  Lemma seg_hdr_validate_ok : forall h, seg_hdr_valid h -> seg_hdr_validate crc h = Ok tt.
  Proof.
    intros h (Hm & Hv & Hc). unfold seg_hdr_validate, seg_hdr_checksum. fold (seg_fields_of h).
    rewrite Hm, Hv, Hc, bytes_eqb_refl, !N.eqb_refl. reflexivity.
  Qed.

  (* reading an image: header valid, flag 0, count = number of records, footer checksum right.
     Padding bytes and the footer's two size fields are arbitrary: they are never looked at. *)
  Lemma seg_read_image : forall h pad ps us cs,
    seg_hdr_wf h -> seg_hdr_valid h -> sh_flags h = 0 -> sh_count h = lenN ps ->
    lenN pad = 10 -> us < U64 -> cs < U64 ->
    Forall (fun p => payload_ok p /\ deser_ok p = true) ps ->
    seg_read (seg_image h pad ps (crc (concat (map seg_record ps))) us cs SEGMENT_FOOTER_MAGIC) = Ok (h, ps).
  Proof.
    intros h pad ps us cs Hwf Hv Hfl Hcnt Hpad Hus Hcs Hall.
    unfold Codec.seg_read, seg_image.
    rewrite seg_open_image by (auto; apply lenN_seg_ftr_image; reflexivity).
    rewrite seg_hdr_validate_ok by auto. cbn [rbind].
    rewrite seg_ftr_parse by (auto; reflexivity). rewrite bytes_eqb_refl. cbn [rbind].
    rewrite Hfl. cbn [N.eqb negb rbind].
    unfold seg_validate. cbn [sg_data sg_ftr sf_ck]. rewrite N.eqb_refl. cbn [rbind].
    unfold seg_records. cbn [sg_data sg_hdr]. rewrite Hcnt, rec_loop_ok; auto.
  Qed.

  (* every strict prefix of such an image is an error - no assumption about crc *)
  Lemma seg_prefix_rejected : forall h pad ps fck us cs (k : nat),
    seg_hdr_wf h -> seg_hdr_valid h -> sh_flags h = 0 -> sh_count h = lenN ps ->
    lenN pad = 10 -> Forall payload_ok ps ->
    let img := seg_image h pad ps fck us cs SEGMENT_FOOTER_MAGIC in
    (k < length img)%nat -> exists e, seg_read (firstn k img) = Err e.
  Proof.
    intros h pad ps fck us cs k Hwf Hv Hfl Hcnt Hpad Hall img Hk.
    pose proof Hwf as (Hm & _).
    pose proof (lenN_seg_hdr_image h pad Hm Hpad) as Lh.
    assert (Lh' : length (seg_hdr_image h pad) = 40%nat) by (unfold lenN in Lh; lia).
    set (rd := concat (map seg_record ps)) in *.
    set (fb := seg_ftr_image fck us cs SEGMENT_FOOTER_MAGIC) in *.
    assert (Lf : length fb = 24%nat).
    { pose proof (lenN_seg_ftr_image fck us cs SEGMENT_FOOTER_MAGIC eq_refl). unfold lenN in *. fold fb in H. lia. }
    assert (Li : length img = (40 + length rd + 24)%nat).
    { unfold img, seg_image. fold rd fb. rewrite !app_length. lia. }
    destruct (le_lt_dec 64 k) as [H64|H64].
    - (* the prefix still has a header and 24 trailing bytes *)
      assert (E : firstn k img = seg_hdr_image h pad ++ firstn (k - 64) rd
                                 ++ skipn (k - 64) (firstn (k - 40) (rd ++ fb))).
      { unfold img, seg_image. fold rd fb. rewrite firstn_app_split by lia. f_equal. rewrite Lh'.
        rewrite <- (firstn_skipn (k - 64) (firstn (k - 40) (rd ++ fb))) at 1. f_equal.
        rewrite firstn_firstn. replace (Nat.min (k - 64) (k - 40)) with (k - 64)%nat by lia.
        rewrite firstn_app. replace (k - 64 - length rd)%nat with 0%nat by lia.
        cbn [firstn]. now rewrite app_nil_r. }
      rewrite E. unfold Codec.seg_read.
      rewrite seg_open_image; auto.
      2:{ unfold lenN. rewrite skipn_length, firstn_length, app_length. lia. }
      rewrite seg_hdr_validate_ok by auto. cbn [rbind].
      destruct (seg_ftr_from_bytes _) as [ft|e|] eqn:Ef; cbn [rbind]; [|eexists; reflexivity|].
      + rewrite Hfl. cbn [N.eqb negb rbind].
        destruct (seg_validate crc _) as [[]|e|] eqn:Ev; cbn [rbind]; [|eexists; reflexivity|].
        * unfold seg_records. cbn [sg_data sg_hdr]. rewrite Hcnt.
          destruct (rec_loop_truncated ps (k - 64) (S (length (firstn (k - 64) rd))) Hall) as [e He].
          { fold rd. lia. }
          { rewrite firstn_length. lia. }
          fold rd in He. rewrite He. eexists; reflexivity.
        * unfold seg_validate in Ev. destruct (_ =? _) in Ev; discriminate.
      + exfalso. refine (seg_ftr_no_panic _ _ Ef).
        unfold lenN. rewrite skipn_length, firstn_length, app_length. lia.
    - exists ETooShort. unfold Codec.seg_read, Codec.seg_open. rewrite seg_hs, seg_fs.
      replace (lenN (firstn k img) <? 40 + 24) with true; auto.
      symmetry. apply N.ltb_lt. unfold lenN. rewrite firstn_length. lia.
  Qed.

  (* ---------- the writer ---------- *)
  Lemma fold_min_le : forall l a, fold_left N.min l a <= a.
  Proof. induction l as [|x r IH]; intros a; cbn [fold_left]; [lia|]. specialize (IH (N.min a x)). lia. Qed.
  Lemma fold_max_lt : forall l a b, a < b -> Forall (fun x => x < b) l -> fold_left N.max l a < b.
  Proof.
    induction l as [|x r IH]; intros a b Ha Hl; cbn [fold_left]; auto.
    inversion Hl; subst. apply IH; auto. lia.
  Qed.

  Definition rec_wf (r : N * bytes) : Prop := fst r < U64 /\ payload_ok (snd r) /\ deser_ok (snd r) = true.

  Lemma seg_records_bytes_eq : forall recs,
    seg_records_bytes recs = concat (map seg_record (map snd recs)).
  Proof. intros. unfold seg_records_bytes. now rewrite map_map. Qed.

  Definition seg_hdr_of (recs : list (N * bytes)) : seg_hdr :=
    seg_hdr_new crc (lenN recs) (fold_left N.min (map fst recs) U64_MAX) (fold_left N.max (map fst recs) 0).

  Lemma seg_hdr_of_wf : forall recs, lenN recs < U32 -> Forall rec_wf recs ->
    seg_hdr_wf (seg_hdr_of recs) /\ seg_hdr_valid (seg_hdr_of recs) /\
    sh_flags (seg_hdr_of recs) = 0 /\ sh_count (seg_hdr_of recs) = lenN recs.
  Proof.
    intros recs Hn Hall. unfold seg_hdr_of, seg_hdr_new, seg_hdr_wf, seg_hdr_valid, seg_hdr_checksum, seg_fields_of.
    cbn [sh_magic sh_version sh_flags sh_count sh_min sh_max sh_ck].
    repeat split; auto.
    - pose proof (fold_min_le (map fst recs) U64_MAX). unfold U64, U64_MAX in *. lia.
    - apply fold_max_lt; [unfold U64; lia|].
      apply Forall_forall. intros x Hx. apply in_map_iff in Hx as (r & <- & Hr).
      apply (proj1 (Forall_forall _ _) Hall) in Hr. apply Hr.
  Qed.

  Lemma seg_write_image : forall recs, recs <> [] -> lenN recs < U32 ->
    Codec.seg_write crc recs =
    Ok (seg_image (seg_hdr_of recs) (repeat 0 10) (map snd recs)
                  (crc (seg_records_bytes recs)) (lenN (seg_records_bytes recs))
                  (lenN (seg_records_bytes recs)) SEGMENT_FOOTER_MAGIC).
  Proof.
    intros recs Hne Hn. unfold Codec.seg_write. destruct recs as [|r0 rs]; [congruence|].
    set (recs := r0 :: rs) in *.
    replace (lenN recs mod 4294967296) with (lenN recs) by (symmetry; apply N.mod_small; exact Hn).
    fold (seg_hdr_of recs). rewrite seg_hdr_bytes_eq by reflexivity.
    unfold seg_image, seg_ftr_bytes, seg_ftr_image. cbn [sf_ck sf_usize sf_csize sf_magic].
    now rewrite seg_records_bytes_eq.
  Qed.

  Lemma segment_roundtrip : forall recs img,
    recs <> [] -> lenN recs < U32 -> Forall rec_wf recs -> lenN (seg_records_bytes recs) < U64 ->
    Codec.seg_write crc recs = Ok img ->
    seg_read img = Ok (seg_hdr_of recs, map snd recs).
  Proof.
    intros recs img Hne Hn Hall Hsz Hw. rewrite seg_write_image in Hw by auto. inversion Hw; subst img.
    destruct (seg_hdr_of_wf recs Hn Hall) as (H1 & H2 & H3 & H4).
    rewrite seg_records_bytes_eq in *.
    apply seg_read_image; auto.
    - rewrite H4. unfold lenN. now rewrite map_length.
    - apply Forall_forall. intros p Hp. apply in_map_iff in Hp as (r & <- & Hr).
      apply (proj1 (Forall_forall _ _) Hall) in Hr. destruct Hr as (_ & A & B). auto.
  Qed.

  Lemma segment_prefix_rejected : forall recs img (k : nat),
    recs <> [] -> lenN recs < U32 -> Forall rec_wf recs ->
    Codec.seg_write crc recs = Ok img -> (k < length img)%nat ->
    exists e, seg_read (firstn k img) = Err e.
  Proof.
    intros recs img k Hne Hn Hall Hw Hk. rewrite seg_write_image in Hw by auto. inversion Hw; subst img.
    destruct (seg_hdr_of_wf recs Hn Hall) as (H1 & H2 & H3 & H4).
    apply seg_prefix_rejected; auto.
    - rewrite H4. unfold lenN. now rewrite map_length.
    - apply Forall_forall. intros p Hp. apply in_map_iff in Hp as (r & <- & Hr).
      apply (proj1 (Forall_forall _ _) Hall) in Hr. apply Hr.
  Qed.

  (* ---------- damage inside regions covered by a checksum ---------- *)
  (* records region (any bytes) or the stored data checksum altered *)
  Lemma seg_data_corruption_rejected : forall h pad rd' fck us cs,
    seg_hdr_wf h -> seg_hdr_valid h -> sh_flags h = 0 -> lenN pad = 10 ->
    fck < U32 -> us < U64 -> cs < U64 ->
    crc rd' <> fck ->
    seg_read (seg_hdr_image h pad ++ rd' ++ seg_ftr_image fck us cs SEGMENT_FOOTER_MAGIC) = Err EChecksum.
  Proof.
    intros h pad rd' fck us cs Hwf Hv Hfl Hpad Hck Hus Hcs Hne. unfold Codec.seg_read.
    rewrite seg_open_image by (auto; apply lenN_seg_ftr_image; reflexivity).
    rewrite seg_hdr_validate_ok by auto. cbn [rbind].
    rewrite seg_ftr_parse by (auto; reflexivity). rewrite bytes_eqb_refl. cbn [rbind].
    rewrite Hfl. cbn [N.eqb negb rbind].
    unfold seg_validate. cbn [sg_data sg_ftr sf_ck].
    replace (crc rd' =? fck) with false by (symmetry; now apply N.eqb_neq). reflexivity.
  Qed.
  (* footer magic altered *)
  Lemma seg_footer_magic_rejected : forall h pad rd fck us cs m,
    seg_hdr_wf h -> seg_hdr_valid h -> lenN pad = 10 ->
    fck < U32 -> us < U64 -> cs < U64 -> lenN m = 4 -> m <> SEGMENT_FOOTER_MAGIC ->
    seg_read (seg_hdr_image h pad ++ rd ++ seg_ftr_image fck us cs m) = Err EMagic.
  Proof.
    intros h pad rd fck us cs m Hwf Hv Hpad Hck Hus Hcs Hm Hne. unfold Codec.seg_read.
    rewrite seg_open_image by (auto; now apply lenN_seg_ftr_image).
    rewrite seg_hdr_validate_ok by auto. cbn [rbind].
    rewrite seg_ftr_parse by auto.
    replace (bytes_eqb m SEGMENT_FOOTER_MAGIC) with false by (symmetry; now apply bytes_eqb_neq).
    reflexivity.
  Qed.
  (* header: any 40 header bytes whose stored checksum is not the checksum of their fields *)
  Lemma seg_header_corruption_rejected : forall h' pad rd fb,
    seg_hdr_wf h' -> lenN pad = 10 -> lenN fb = 24 ->
    sh_ck h' <> crc (seg_fields_of h') ->
    exists e, seg_read (seg_hdr_image h' pad ++ rd ++ fb) = Err e /\
              (e = EMagic \/ e = EVersion \/ e = EChecksum).
  Proof.
    intros h' pad rd fb Hwf Hpad Hfb Hne. unfold Codec.seg_read.
    rewrite seg_open_image by auto.
    unfold seg_hdr_validate, seg_hdr_checksum. fold (seg_fields_of h').
    destruct (negb (bytes_eqb (sh_magic h') SEGMENT_MAGIC)); [exists EMagic; cbn; auto|].
    destruct (negb (sh_version h' =? SEGMENT_VERSION)); [exists EVersion; cbn; auto|].
    replace (sh_ck h' =? crc (seg_fields_of h')) with false by (symmetry; now apply N.eqb_neq).
    exists EChecksum. cbn. auto.
  Qed.

  (* ---------- no panic, no fuel exhaustion, on arbitrary bytes ---------- *)
  Lemma rec_loop_total : forall f remaining d, (length d < f)%nat ->
    rec_loop f remaining d <> Panic /\ rec_loop f remaining d <> Err EOutOfFuel.
  Proof.
    induction f as [|f IH]; intros remaining d Hf; [lia|].
    destruct (N.eq_dec remaining 0) as [->|Hr]; [cbn; split; discriminate|].
    destruct d as [|x d']; [cbn [Codec.rec_loop]; replace (remaining =? 0) with false by (symmetry; now apply N.eqb_neq); split; discriminate|].
    rewrite rec_loop_step by (auto; discriminate).
    destruct (lenN (x :: d') <? 4) eqn:E4; [split; discriminate|]. apply N.ltb_ge in E4.
    rewrite (sliceN_ok _ 0 4) by lia. cbn [or_panic rbind].
    destruct (_ <? _) eqn:El; [split; discriminate|]. apply N.ltb_ge in El.
    destruct (deser_ok _); [|split; discriminate].
    match goal with |- context [rec_loop f ?r ?dd] => destruct (IH r dd) as [A B] end.
    { pose proof (lenN_dropN _ (le_dec (takeN (4 - 0) (dropN 0 (x :: d')))) (dropN 4 (x :: d'))).
      pose proof (lenN_dropN _ 4 (x :: d')). unfold lenN in *. cbn [length] in *. lia. }
    destruct (rec_loop f _ _); cbn [rbind]; split; try discriminate; congruence.
  Qed.

  Lemma seg_hdr_from_bytes_total : forall hb, lenN hb = 40 -> exists h, seg_hdr_from_bytes hb = Ok h.
  Proof.
    intros hb H. unfold seg_hdr_from_bytes. rewrite H, seg_hs. cbn [N.ltb N.compare Pos.compare Pos.compare_cont].
    rewrite (sliceN_ok _ 0 4), (sliceN_ok _ 6 10), (sliceN_ok _ 10 18), (sliceN_ok _ 18 26), (sliceN_ok _ 26 30) by lia.
    unfold indexN. rewrite H. cbn [N.ltb N.compare Pos.compare Pos.compare_cont or_panic rbind].
    eexists; reflexivity.
  Qed.

  Lemma seg_read_total : forall img,
    seg_read img <> Panic /\ seg_read img <> Err EOutOfFuel.
  Proof.
    intros img. unfold Codec.seg_read, Codec.seg_open. rewrite seg_hs, seg_fs.
    destruct (lenN img <? 40 + 24) eqn:E; [cbn; split; discriminate|]. apply N.ltb_ge in E.
    rewrite (sliceN_ok _ 0 40) by lia. cbn [or_panic rbind].
    destruct (seg_hdr_from_bytes_total (takeN (40 - 0) (dropN 0 img))) as [h Hh].
    { rewrite lenN_takeN, lenN_dropN. lia. }
    rewrite Hh. cbn [rbind].
    assert (Hv : seg_hdr_validate crc h <> Panic /\ seg_hdr_validate crc h <> Err EOutOfFuel).
    { unfold seg_hdr_validate. repeat (destruct (negb _); [split; discriminate|]). split; discriminate. }
    destruct (seg_hdr_validate crc h) as [[]|e|]; cbn [rbind]; [|split; [discriminate|intros X; apply (proj2 Hv); congruence]|exfalso; now apply (proj1 Hv)].
    rewrite (sliceN_ok _ (lenN img - 24) (lenN img)) by lia. cbn [or_panic rbind].
    set (fb := takeN (lenN img - (lenN img - 24)) (dropN (lenN img - 24) img)).
    assert (Lfb : lenN fb = 24) by (unfold fb; rewrite lenN_takeN, lenN_dropN; lia).
    pose proof (seg_ftr_no_panic fb Lfb) as Hfp.
    assert (Hfe : seg_ftr_from_bytes fb <> Err EOutOfFuel).
    { unfold seg_ftr_from_bytes. rewrite Lfb, seg_fs. cbn [N.ltb N.compare Pos.compare Pos.compare_cont].
      rewrite (sliceN_ok _ 0 4), (sliceN_ok _ 4 12), (sliceN_ok _ 12 20), (sliceN_ok _ 20 24) by lia.
      cbn [or_panic rbind]. destruct (negb _); discriminate. }
    destruct (seg_ftr_from_bytes fb) as [ft|e|]; cbn [rbind]; [|split; [discriminate|congruence]|congruence].
    destruct (negb (sh_flags h =? 0)); [cbn; split; discriminate|].
    rewrite (sliceN_ok _ 40 (lenN img - 24)) by lia. cbn [or_panic rbind].
    unfold seg_validate. cbn [sg_data sg_ftr]. destruct (_ =? _); cbn [rbind]; [|split; discriminate].
    unfold seg_records. cbn [sg_data sg_hdr].
    match goal with |- context [Codec.rec_loop _ ?f ?r ?dd] => destruct (rec_loop_total f r dd) as [A B]; [lia|] end.
    destruct (Codec.rec_loop _ _ _ _); cbn [rbind]; split; try discriminate; congruence.
  Qed.

  (* ================= checkpoint ================= *)
  Definition chk_hdr_wf (h : chk_hdr) : Prop :=
    lenN (ch_magic h) = 4 /\ ch_keys h < U64 /\ ch_ts h < U64 /\ ch_last h < U64 /\ ch_ck h < U32.
  Definition chk_fields_of (h : chk_hdr) : bytes :=
    chk_hdr_fields (ch_magic h) (ch_version h) (ch_flags h) (ch_keys h) (ch_ts h) (ch_last h).
  (* the 48 header bytes with arbitrary padding (2) and reserved (12) bytes *)
  Definition chk_hdr_image (h : chk_hdr) (pad rsv : bytes) : bytes :=
    ch_magic h ++ [ch_version h; ch_flags h] ++ pad ++ le_enc 8 (ch_keys h) ++ le_enc 8 (ch_ts h)
    ++ le_enc 8 (ch_last h) ++ rsv ++ le_enc 4 (ch_ck h).
  Definition chk_hdr_valid (h : chk_hdr) : Prop :=
    ch_magic h = CHECKPOINT_MAGIC /\ ch_version h = CHECKPOINT_VERSION /\ ch_ck h = crc (chk_fields_of h).

  Lemma chk_hdr_bytes_eq : forall h, chk_hdr_bytes h = chk_hdr_image h [0; 0] (repeat 0 12).
  Proof. reflexivity. Qed.
  Lemma lenN_chk_hdr_image : forall h pad rsv, lenN (ch_magic h) = 4 -> lenN pad = 2 -> lenN rsv = 12 ->
    lenN (chk_hdr_image h pad rsv) = 48.
  Proof.
    intros h pad rsv Hm Hp Hr. unfold chk_hdr_image. rewrite !lenN_app, !lenN_le_enc, Hm, Hp, Hr. reflexivity.
  Qed.

  Lemma chk_hdr_parse : forall h pad rsv, chk_hdr_wf h -> lenN pad = 2 -> lenN rsv = 12 ->
    chk_hdr_from_buf (chk_hdr_image h pad rsv) = Ok h.
  Proof.
    intros h pad rsv (Hm & Hk & Ht & Hl & Hck) Hp Hr. unfold U32, U64 in *.
    unfold chk_hdr_from_buf, chk_hdr_image.
    rewrite (sliceN_app_head _ (ch_magic h)) by auto. cbn [or_panic rbind].
    rewrite (indexN_skip (ch_magic h) _ 4 4) by (auto; lia). change (4 - 4) with 0.
    rewrite indexN_app_l by (cbn; lia).
    change (indexN 0 [ch_version h; ch_flags h]) with (Some (ch_version h)). cbn [or_panic rbind].
    rewrite (indexN_skip (ch_magic h) _ 5 4) by (auto; lia). change (5 - 4) with 1.
    rewrite indexN_app_l by (cbn; lia).
    change (indexN 1 [ch_version h; ch_flags h]) with (Some (ch_flags h)). cbn [or_panic rbind].
    rewrite (sliceN_skip _ (ch_magic h) _ 8 16 4) by (auto; lia). change (8 - 4) with 4. change (16 - 4) with 12.
    rewrite (sliceN_skip _ [ch_version h; ch_flags h] _ 4 12 2) by (auto; lia). change (4 - 2) with 2. change (12 - 2) with 10.
    rewrite (sliceN_skip _ pad _ 2 10 2) by (auto; lia). change (2 - 2) with 0. change (10 - 2) with 8.
    rewrite (sliceN_app_head _ (le_enc 8 (ch_keys h))) by (now rewrite lenN_le_enc). cbn [or_panic rbind].
    rewrite (sliceN_skip _ (ch_magic h) _ 16 24 4) by (auto; lia). change (16 - 4) with 12. change (24 - 4) with 20.
    rewrite (sliceN_skip _ [ch_version h; ch_flags h] _ 12 20 2) by (auto; lia). change (12 - 2) with 10. change (20 - 2) with 18.
    rewrite (sliceN_skip _ pad _ 10 18 2) by (auto; lia). change (10 - 2) with 8. change (18 - 2) with 16.
    rewrite (sliceN_skip _ (le_enc 8 (ch_keys h)) _ 8 16 8) by (try rewrite lenN_le_enc; auto; lia). change (8 - 8) with 0. change (16 - 8) with 8.
    rewrite (sliceN_app_head _ (le_enc 8 (ch_ts h))) by (now rewrite lenN_le_enc). cbn [or_panic rbind].
    rewrite (sliceN_skip _ (ch_magic h) _ 24 32 4) by (auto; lia). change (24 - 4) with 20. change (32 - 4) with 28.
    rewrite (sliceN_skip _ [ch_version h; ch_flags h] _ 20 28 2) by (auto; lia). change (20 - 2) with 18. change (28 - 2) with 26.
    rewrite (sliceN_skip _ pad _ 18 26 2) by (auto; lia). change (18 - 2) with 16. change (26 - 2) with 24.
    rewrite (sliceN_skip _ (le_enc 8 (ch_keys h)) _ 16 24 8) by (try rewrite lenN_le_enc; auto; lia). change (16 - 8) with 8. change (24 - 8) with 16.
    rewrite (sliceN_skip _ (le_enc 8 (ch_ts h)) _ 8 16 8) by (try rewrite lenN_le_enc; auto; lia). change (8 - 8) with 0. change (16 - 8) with 8.
    rewrite (sliceN_app_head _ (le_enc 8 (ch_last h))) by (now rewrite lenN_le_enc). cbn [or_panic rbind].
    rewrite (sliceN_skip _ (ch_magic h) _ 44 48 4) by (auto; lia). change (44 - 4) with 40. change (48 - 4) with 44.
    rewrite (sliceN_skip _ [ch_version h; ch_flags h] _ 40 44 2) by (auto; lia). change (40 - 2) with 38. change (44 - 2) with 42.
    rewrite (sliceN_skip _ pad _ 38 42 2) by (auto; lia). change (38 - 2) with 36. change (42 - 2) with 40.
    rewrite (sliceN_skip _ (le_enc 8 (ch_keys h)) _ 36 40 8) by (try rewrite lenN_le_enc; auto; lia). change (36 - 8) with 28. change (40 - 8) with 32.
    rewrite (sliceN_skip _ (le_enc 8 (ch_ts h)) _ 28 32 8) by (try rewrite lenN_le_enc; auto; lia). change (28 - 8) with 20. change (32 - 8) with 24.
    rewrite (sliceN_skip _ (le_enc 8 (ch_last h)) _ 20 24 8) by (try rewrite lenN_le_enc; auto; lia). change (20 - 8) with 12. change (24 - 8) with 16.
    rewrite (sliceN_skip _ rsv _ 12 16 12) by (auto; lia). change (12 - 12) with 0. change (16 - 12) with 4.
    rewrite sliceN_all by (now rewrite lenN_le_enc). cbn [or_panic rbind].
    rewrite !le_dec_enc_u64, le_dec_enc_u32 by lia. destruct h; reflexivity.
  Qed.

  Lemma chk_hdr_validate_ok : forall h, chk_hdr_valid h -> chk_hdr_validate crc h = Ok tt.
  Proof.
    intros h (Hm & Hv & Hc). unfold chk_hdr_validate, chk_hdr_checksum. fold (chk_fields_of h).
    rewrite Hm, Hv, Hc, bytes_eqb_refl, !N.eqb_refl. reflexivity.
  Qed.

  Lemma chk_open_image : forall h pad rsv rest, chk_hdr_wf h -> lenN pad = 2 -> lenN rsv = 12 ->
    chk_open crc (chk_hdr_image h pad rsv ++ rest) = (do _ <- chk_hdr_validate crc h; Ok h).
  Proof.
    intros h pad rsv rest Hwf Hp Hr. pose proof Hwf as (Hm & _).
    pose proof (lenN_chk_hdr_image h pad rsv Hm Hp Hr) as Lh.
    unfold chk_open. rewrite chk_hs, lenN_app, Lh.
    replace (48 + lenN rest <? 48) with false by (symmetry; apply N.ltb_ge; lia).
    rewrite (sliceN_app_head _ (chk_hdr_image h pad rsv)) by auto. cbn [or_panic rbind].
    rewrite chk_hdr_parse by auto. cbn [rbind]. reflexivity.
  Qed.

  (* body of a checkpoint: length field, data, footer (3 fields), then anything *)
  Definition chk_body (n : N) (data : bytes) (dck dsz fck : N) (trailing : bytes) : bytes :=
    le_enc 4 n ++ data ++ (le_enc 4 dck ++ le_enc 8 dsz ++ le_enc 4 fck) ++ trailing.

  Lemma chk_validate_image : forall hb h data dck dsz fck trailing,
    lenN hb = 48 -> lenN data < U32 -> dck < U32 -> dsz < U64 -> fck < U32 ->
    chk_validate crc (hb ++ chk_body (lenN data) data dck dsz fck trailing) h =
    if negb (fck =? crc (le_enc 4 dck ++ le_enc 8 dsz)) then Err EChecksum else
    if N.odd (ch_flags h) then Err ECompression else
    if negb (crc data =? dck) then Err EChecksum else
    if negb (lenN data =? dsz) then Err EFormat else Ok tt.
  Proof.
    intros hb h data dck dsz fck trailing Hhb Hn Hdck Hdsz Hfck. unfold U32, U64 in *.
    unfold chk_validate, chk_body. rewrite chk_hs, chk_fs.
    set (ftr := le_enc 4 dck ++ le_enc 8 dsz ++ le_enc 4 fck).
    assert (Lf : lenN ftr = 16) by (unfold ftr; rewrite !lenN_app, !lenN_le_enc; reflexivity).
    assert (Li : lenN (hb ++ le_enc 4 (lenN data) ++ data ++ ftr ++ trailing) = 48 + 4 + lenN data + 16 + lenN trailing).
    { rewrite !lenN_app, lenN_le_enc, Hhb, Lf. lia. }
    rewrite Li.
    replace (48 + 4 + lenN data + 16 + lenN trailing <? 48 + 4) with false by (symmetry; apply N.ltb_ge; lia).
    rewrite (sliceN_app_mid _ hb (le_enc 4 (lenN data)) _ 48 (48 + 4)) by (try rewrite lenN_le_enc; auto; lia).
    cbn [or_panic rbind]. rewrite le_dec_enc_u32 by lia.
    replace (48 + 4 + lenN data + 16 + lenN trailing <? 48 + 4 + lenN data + 16) with false by (symmetry; apply N.ltb_ge; lia).
    replace (hb ++ le_enc 4 (lenN data) ++ data ++ ftr ++ trailing)
      with ((hb ++ le_enc 4 (lenN data) ++ data) ++ (ftr ++ trailing)) by (now rewrite <- !app_assoc).
    rewrite (sliceN_app_tail _ (hb ++ le_enc 4 (lenN data) ++ data) (ftr ++ trailing))
      by (rewrite !lenN_app, lenN_le_enc, ?Hhb, ?Lf; lia).
    cbn [or_panic rbind]. rewrite lenN_app, Lf.
    replace (16 + lenN trailing <? 16) with false by (symmetry; apply N.ltb_ge; lia).
    assert (F1 : le_dec (takeN 4 (ftr ++ trailing)) = dck).
    { unfold ftr. rewrite <- !app_assoc. rewrite takeN_app_exact' by (now rewrite lenN_le_enc).
      apply le_dec_enc_u32; lia. }
    assert (F2 : le_dec (takeN 8 (dropN 4 (ftr ++ trailing))) = dsz).
    { unfold ftr. rewrite <- !app_assoc. rewrite dropN_app_exact' by (now rewrite lenN_le_enc).
      rewrite takeN_app_exact' by (now rewrite lenN_le_enc). apply le_dec_enc_u64; lia. }
    assert (F3 : le_dec (takeN 4 (dropN 12 (ftr ++ trailing))) = fck).
    { unfold ftr.
      replace ((le_enc 4 dck ++ le_enc 8 dsz ++ le_enc 4 fck) ++ trailing)
        with ((le_enc 4 dck ++ le_enc 8 dsz) ++ le_enc 4 fck ++ trailing) by (now rewrite <- !app_assoc).
      rewrite dropN_app_exact' by (now rewrite lenN_app, !lenN_le_enc).
      rewrite takeN_app_exact' by (now rewrite lenN_le_enc). apply le_dec_enc_u32; lia. }
    rewrite F1, F2, F3.
    destruct (negb (fck =? crc (le_enc 4 dck ++ le_enc 8 dsz))); auto.
    rewrite <- !app_assoc. rewrite (app_assoc hb (le_enc 4 (lenN data))).
    rewrite (sliceN_app_mid _ (hb ++ le_enc 4 (lenN data)) data) by (rewrite lenN_app, lenN_le_enc, Hhb; lia).
    cbn [or_panic rbind]. reflexivity.
  Qed.

  Lemma chk_load_image : forall hb h data rest,
    lenN hb = 48 -> lenN data < U32 ->
    chk_load deser_ok (hb ++ le_enc 4 (lenN data) ++ data ++ rest) h =
    if N.odd (ch_flags h) then Err ECompression else if deser_ok data then Ok data else Err ESerial.
  Proof.
    intros hb h data rest Hhb Hn. unfold U32 in *. unfold chk_load. rewrite chk_hs.
    assert (Li : lenN (hb ++ le_enc 4 (lenN data) ++ data ++ rest) = 48 + 4 + lenN data + lenN rest).
    { rewrite !lenN_app, lenN_le_enc, Hhb. lia. }
    rewrite Li.
    replace (48 + 4 + lenN data + lenN rest <? 48 + 4) with false by (symmetry; apply N.ltb_ge; lia).
    rewrite (sliceN_app_mid _ hb (le_enc 4 (lenN data)) _ 48 (48 + 4)) by (try rewrite lenN_le_enc; auto; lia).
    cbn [or_panic rbind]. rewrite le_dec_enc_u32 by lia.
    replace (48 + 4 + lenN data + lenN rest <? 48 + 4 + lenN data) with false by (symmetry; apply N.ltb_ge; lia).
    replace (hb ++ le_enc 4 (lenN data) ++ data ++ rest) with ((hb ++ le_enc 4 (lenN data)) ++ data ++ rest)
      by (now rewrite <- !app_assoc).
    rewrite (sliceN_app_mid _ (hb ++ le_enc 4 (lenN data)) data) by (rewrite lenN_app, lenN_le_enc, Hhb; lia).
    cbn [or_panic rbind]. reflexivity.
  Qed.

  (* a whole checkpoint image with arbitrary padding, reserved and trailing bytes *)
  Definition chk_image (h : chk_hdr) (pad rsv data : bytes) (dck dsz fck : N) (trailing : bytes) : bytes :=
    chk_hdr_image h pad rsv ++ chk_body (lenN data) data dck dsz fck trailing.

  Lemma chk_read_image : forall h pad rsv data trailing,
    chk_hdr_wf h -> chk_hdr_valid h -> N.odd (ch_flags h) = false ->
    lenN pad = 2 -> lenN rsv = 12 -> lenN data < U32 -> deser_ok data = true ->
    chk_read (chk_image h pad rsv data (crc data) (lenN data)
                        (crc (le_enc 4 (crc data) ++ le_enc 8 (lenN data))) trailing) = Ok (h, data).
  Proof.
    intros h pad rsv data trailing Hwf Hv Hfl Hp Hr Hn Hd. pose proof Hwf as (Hm & _).
    unfold Codec.chk_read, chk_image.
    rewrite chk_open_image, chk_hdr_validate_ok by auto. cbn [rbind].
    rewrite chk_validate_image by (auto using lenN_chk_hdr_image; try apply crc_u32; unfold U32, U64 in *; lia).
    rewrite !N.eqb_refl, Hfl. cbn [negb rbind].
    unfold chk_body. rewrite chk_load_image by (auto using lenN_chk_hdr_image).
    now rewrite Hfl, Hd.
  Qed.

  Lemma chk_write_image : forall keys ts last data,
    Codec.chk_write crc keys ts last data =
    chk_image (chk_hdr_new crc keys ts last) [0; 0] (repeat 0 12) data (crc data) (lenN data)
              (crc (le_enc 4 (crc data) ++ le_enc 8 (lenN data))) [].
  Proof.
    intros. unfold Codec.chk_write, chk_image, chk_body, chk_ftr_bytes. rewrite chk_hdr_bytes_eq.
    now rewrite !app_nil_r.
  Qed.
  Lemma chk_hdr_new_wf : forall keys ts last, keys < U64 -> ts < U64 -> last < U64 ->
    chk_hdr_wf (chk_hdr_new crc keys ts last) /\ chk_hdr_valid (chk_hdr_new crc keys ts last) /\
    N.odd (ch_flags (chk_hdr_new crc keys ts last)) = false.
  Proof.
    intros. unfold chk_hdr_new, chk_hdr_wf, chk_hdr_valid, chk_hdr_checksum, chk_fields_of.
    cbn [ch_magic ch_version ch_flags ch_keys ch_ts ch_last ch_ck]. repeat split; auto using crc_u32.
  Qed.

  Lemma checkpoint_roundtrip : forall keys ts last data,
    keys < U64 -> ts < U64 -> last < U64 -> lenN data < U32 -> deser_ok data = true ->
    chk_read (Codec.chk_write crc keys ts last data) = Ok (chk_hdr_new crc keys ts last, data).
  Proof.
    intros keys ts last data Hk Ht Hl Hn Hd. rewrite chk_write_image.
    destruct (chk_hdr_new_wf keys ts last Hk Ht Hl) as (A & B & C).
    apply chk_read_image; auto.
  Qed.

  (* every strict prefix (of the image without trailing bytes) is rejected by validate *)
  Lemma chk_prefix_rejected : forall h pad rsv data dck dsz fck (k : nat),
    chk_hdr_wf h -> chk_hdr_valid h -> lenN pad = 2 -> lenN rsv = 12 -> lenN data < U32 ->
    let img := chk_image h pad rsv data dck dsz fck [] in
    (k < length img)%nat -> chk_read (firstn k img) = Err ETooShort.
  Proof.
    intros h pad rsv data dck dsz fck k Hwf Hv Hp Hr Hn img Hk. pose proof Hwf as (Hm & _).
    pose proof (lenN_chk_hdr_image h pad rsv Hm Hp Hr) as Lh.
    assert (Lh' : length (chk_hdr_image h pad rsv) = 48%nat) by (unfold lenN in Lh; lia).
    set (ftr := le_enc 4 dck ++ le_enc 8 dsz ++ le_enc 4 fck).
    assert (Lf : length ftr = 16%nat) by (unfold ftr; rewrite !app_length, !le_enc_length; reflexivity).
    assert (Li : length img = (48 + 4 + length data + 16)%nat).
    { unfold img, chk_image, chk_body. fold ftr. rewrite !app_length, le_enc_length, Lh', Lf. cbn [length]. lia. }
    unfold Codec.chk_read.
    destruct (le_lt_dec 48 k) as [H48|H48].
    - unfold img, chk_image. rewrite firstn_app_split by lia. rewrite Lh'.
      rewrite chk_open_image, chk_hdr_validate_ok by auto. cbn [rbind].
      unfold chk_validate. rewrite chk_hs, chk_fs.
      assert (Lk : lenN (chk_hdr_image h pad rsv ++ firstn (k - 48) (chk_body (lenN data) data dck dsz fck [])) = N.of_nat k).
      { rewrite lenN_app, Lh. unfold lenN. rewrite firstn_length.
        unfold chk_body. fold ftr. rewrite !app_length, le_enc_length, Lf. cbn [length]. lia. }
      rewrite Lk.
      destruct (N.of_nat k <? 48 + 4) eqn:E52; [reflexivity|]. apply N.ltb_ge in E52.
      unfold chk_body. rewrite firstn_app_split by (rewrite le_enc_length; lia). rewrite le_enc_length.
      rewrite (sliceN_app_mid _ (chk_hdr_image h pad rsv) (le_enc 4 (lenN data)) _ 48 (48 + 4))
        by (try rewrite lenN_le_enc; auto; lia).
      cbn [or_panic rbind]. unfold U32 in Hn. rewrite le_dec_enc_u32 by lia.
      replace (N.of_nat k <? 48 + 4 + lenN data + 16) with true; [reflexivity|].
      symmetry. apply N.ltb_lt. unfold lenN. lia.
    - unfold chk_open. rewrite chk_hs.
      replace (lenN (firstn k img) <? 48) with true; [reflexivity|].
      symmetry. apply N.ltb_lt. unfold lenN. rewrite firstn_length. lia.
  Qed.

  Lemma checkpoint_prefix_rejected : forall keys ts last data (k : nat),
    keys < U64 -> ts < U64 -> last < U64 -> lenN data < U32 ->
    (k < length (Codec.chk_write crc keys ts last data))%nat ->
    chk_read (firstn k (Codec.chk_write crc keys ts last data)) = Err ETooShort.
  Proof.
    intros keys ts last data k Hk Ht Hl Hn Hlen. rewrite chk_write_image in *.
    destruct (chk_hdr_new_wf keys ts last Hk Ht Hl) as (A & B & C).
    apply chk_prefix_rejected; auto.
  Qed.

  (* damage inside checksum-covered regions *)
  Lemma chk_data_corruption_rejected : forall h pad rsv data' dck dsz trailing,
    chk_hdr_wf h -> chk_hdr_valid h -> N.odd (ch_flags h) = false ->
    lenN pad = 2 -> lenN rsv = 12 -> lenN data' < U32 -> dck < U32 -> dsz < U64 ->
    crc data' <> dck ->
    chk_read (chk_image h pad rsv data' dck dsz (crc (le_enc 4 dck ++ le_enc 8 dsz)) trailing) = Err EChecksum.
  Proof.
    intros h pad rsv data' dck dsz trailing Hwf Hv Hfl Hp Hr Hn Hdck Hdsz Hne. pose proof Hwf as (Hm & _).
    unfold Codec.chk_read, chk_image.
    rewrite chk_open_image, chk_hdr_validate_ok by auto. cbn [rbind].
    rewrite chk_validate_image by (auto using lenN_chk_hdr_image; apply crc_u32).
    rewrite N.eqb_refl, Hfl. cbn [negb].
    replace (crc data' =? dck) with false by (symmetry; now apply N.eqb_neq). reflexivity.
  Qed.
  Lemma chk_footer_corruption_rejected : forall h pad rsv data dck dsz fck trailing,
    chk_hdr_wf h -> chk_hdr_valid h -> lenN pad = 2 -> lenN rsv = 12 ->
    lenN data < U32 -> dck < U32 -> dsz < U64 -> fck < U32 ->
    fck <> crc (le_enc 4 dck ++ le_enc 8 dsz) ->
    chk_read (chk_image h pad rsv data dck dsz fck trailing) = Err EChecksum.
  Proof.
    intros h pad rsv data dck dsz fck trailing Hwf Hv Hp Hr Hn Hdck Hdsz Hfck Hne. pose proof Hwf as (Hm & _).
    unfold Codec.chk_read, chk_image.
    rewrite chk_open_image, chk_hdr_validate_ok by auto. cbn [rbind].
    rewrite chk_validate_image by (auto using lenN_chk_hdr_image).
    replace (fck =? crc (le_enc 4 dck ++ le_enc 8 dsz)) with false by (symmetry; now apply N.eqb_neq). reflexivity.
  Qed.
  Lemma chk_header_corruption_rejected : forall h' pad rsv rest,
    chk_hdr_wf h' -> lenN pad = 2 -> lenN rsv = 12 ->
    ch_ck h' <> crc (chk_fields_of h') ->
    exists e, chk_read (chk_hdr_image h' pad rsv ++ rest) = Err e /\
              (e = EMagic \/ e = EVersion \/ e = EChecksum).
  Proof.
    intros h' pad rsv rest Hwf Hp Hr Hne. unfold Codec.chk_read.
    rewrite chk_open_image by auto.
    unfold chk_hdr_validate, chk_hdr_checksum. fold (chk_fields_of h').
    destruct (negb (bytes_eqb (ch_magic h') CHECKPOINT_MAGIC)); [exists EMagic; cbn; auto|].
    destruct (negb (ch_version h' =? CHECKPOINT_VERSION)); [exists EVersion; cbn; auto|].
    replace (ch_ck h' =? crc (chk_fields_of h')) with false by (symmetry; now apply N.eqb_neq).
    exists EChecksum. cbn. auto.
  Qed.

  (* no panic on arbitrary bytes: open, validate, load - also load without validate *)
  Lemma chk_open_total : forall img, chk_open crc img <> Panic.
  Proof.
    intros img. unfold chk_open. rewrite chk_hs.
    destruct (lenN img <? 48) eqn:E; [discriminate|]. apply N.ltb_ge in E.
    rewrite (sliceN_ok _ 0 48) by lia. cbn [or_panic rbind].
    set (b := takeN (48 - 0) (dropN 0 img)).
    assert (Lb : lenN b = 48) by (unfold b; rewrite lenN_takeN, lenN_dropN; lia).
    unfold chk_hdr_from_buf.
    rewrite (sliceN_ok _ 0 4), (sliceN_ok _ 8 16), (sliceN_ok _ 16 24), (sliceN_ok _ 24 32), (sliceN_ok _ 44 48) by lia.
    unfold indexN. rewrite Lb. cbn [N.ltb N.compare Pos.compare Pos.compare_cont or_panic rbind].
    unfold chk_hdr_validate. repeat (destruct (negb _); [discriminate|]). discriminate.
  Qed.
  Lemma chk_load_total : forall img h, chk_load deser_ok img h <> Panic.
  Proof.
    intros img h. unfold chk_load. rewrite chk_hs.
    destruct (lenN img <? 48 + 4) eqn:E; [discriminate|]. apply N.ltb_ge in E.
    rewrite (sliceN_ok _ 48 (48 + 4)) by lia. cbn [or_panic rbind].
    destruct (lenN img <? _) eqn:E2; [discriminate|]. apply N.ltb_ge in E2.
    rewrite sliceN_ok by lia. cbn [or_panic rbind].
    destruct (N.odd _); [discriminate|]. destruct (deser_ok _); discriminate.
  Qed.
  Lemma chk_validate_total : forall img h, chk_validate crc img h <> Panic.
  Proof.
    intros img h. unfold chk_validate. rewrite chk_hs, chk_fs.
    destruct (lenN img <? 48 + 4) eqn:E; [discriminate|]. apply N.ltb_ge in E.
    rewrite (sliceN_ok _ 48 (48 + 4)) by lia. cbn [or_panic rbind].
    destruct (lenN img <? _) eqn:E2; [discriminate|]. apply N.ltb_ge in E2.
    rewrite (sliceN_ok _ _ (lenN img)) by lia. cbn [or_panic rbind].
    destruct (_ <? 16); [discriminate|]. destruct (negb _); [discriminate|].
    rewrite sliceN_ok by lia. cbn [or_panic rbind].
    destruct (N.odd _); [discriminate|]. destruct (negb _); [discriminate|]. destruct (negb _); discriminate.
  Qed.
  Lemma chk_read_total : forall img,
    chk_read img <> Panic /\ chk_read_unchecked crc deser_ok img <> Panic.
  Proof.
    intros img. unfold Codec.chk_read, chk_read_unchecked.
    pose proof (chk_open_total img) as Ho.
    destruct (chk_open crc img) as [h|e|]; cbn [rbind]; [|split; discriminate|congruence].
    pose proof (chk_validate_total img h) as Hv. pose proof (chk_load_total img h) as Hl.
    split.
    - destruct (chk_validate crc img h) as [[]|e|]; cbn [rbind]; [|discriminate|congruence].
      destruct (chk_load deser_ok img h); cbn [rbind]; [discriminate|discriminate|congruence].
    - destruct (chk_load deser_ok img h); cbn [rbind]; [discriminate|discriminate|congruence].
  Qed.
End CodecProofs.

(* ---------- concrete instances with the real CRC-32 ---------- *)
(* Regression witness of the defect repaired by repo commit 929bfe5: two records, the second
   imitating a footer for the first (its length, 24, is the CRC-32 of the first record, and its
   bytes 16..20 are the footer magic).  Cutting the image 24 bytes into the second record used
   to pass open + validate + read_all with one record instead of two. *)
Definition wit_p0 : bytes := [1; 53; 184; 116].
Definition wit_p1 : bytes := repeat 0 16 ++ [71; 69; 83; 82] ++ repeat 0 4.
Definition wit_recs : list (N * bytes) := [(1, wit_p0); (2, wit_p1)].
Definition wit_seg : bytes :=
  match seg_write crc32 wit_recs with Ok b => b | _ => [] end.

Lemma forged_footer_witness :
  seg_write crc32 wit_recs = Ok wit_seg /\
  (exists h, seg_read crc32 (fun _ => true) wit_seg = Ok (h, [wit_p0; wit_p1])) /\
  (72 < length wit_seg)%nat /\
  (* the cut image really ends in something that parses as a footer with a matching checksum *)
  (exists s, seg_open crc32 (firstn 72 wit_seg) = Ok s /\ seg_validate crc32 s = Ok tt) /\
  seg_read crc32 (fun _ => true) (firstn 72 wit_seg) = Err ETooShort.
Proof.
  split; [reflexivity|]. split; [eexists; vm_compute; reflexivity|]. split; [vm_compute; lia|].
  split; [eexists; split; vm_compute; reflexivity|]. vm_compute. reflexivity.
Qed.

Lemma crc32_u32_on : forall d, In d [seg_records_bytes wit_recs] -> crc32 d < U32.
Proof. intros d [<-|[]]. vm_compute. reflexivity. Qed.

Lemma rec_wf_example : Forall (rec_wf (fun _ => true)) wit_recs /\ wit_recs <> [] /\ lenN wit_recs < U32.
Proof. split; [|split; [discriminate|vm_compute; reflexivity]]. repeat constructor; vm_compute; reflexivity. Qed.

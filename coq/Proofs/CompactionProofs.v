(* Lemmas for C13: what a compaction writes, folded into a node state, equals what it
   read; witnesses of the as-found defect and of the two design-level findings. *)
From stdpp Require Import gmap.
From Coq Require Import NArith Lia.
From RV Require Import Lib.Hex Model.Crdt Model.Store Model.Persist Model.CompactSpec.
From RV Require Import Proofs.CrdtProofs Proofs.MergeFoldProofs Proofs.PersistProofs Proofs.RecoveryProofs.
Local Open Scope N_scope.

(* ---------- witnesses ---------- *)
Definition hashv (f val t r : N) : rvalue :=
  RV (CHash {[ [f] := Lww (Some [val]) (Stamp t r) false ]}) None None (Stamp t r) None.
Definition tombv (t r : N) : rvalue :=
  RV (CLww (Lww None (Stamp t r) true)) None None (Stamp t r) None.
Definition oks : list outcome := repeat OOk 60.
Definition nfields (s : gmap (list N) rvalue) (k : list N) : nat :=
  match s !! k with
  | Some v => match rv_crdt v with CHash h => size h | _ => 0%nat end
  | None => 0%nat
  end.
Definition state_at (st : gmap name (sobj obj)) : gmap (list N) rvalue :=
  match recover st 1 with Some r => state_of r | None => ∅ end.

(* (A) keep-latest instead of merge: two replicas' hash deltas for one key, disjoint fields *)
Definition kl_store : gmap name (sobj obj) :=
  <[NMan := Whole (OMan (Manifest 2 1 [SegInfo 0 (NSeg 0) 1 100 5 5; SegInfo 1 (NSeg 1) 1 100 6 6] None 2))]>
   (<[NSeg 0 := Whole (OSeg [Delta [9] (hashv 1 10 5 1) 1])]>
   (<[NSeg 1 := Whole (OSeg [Delta [9] (hashv 2 20 6 2) 2])]> ∅)).
Definition kl_cc : ccfg := CCfg 1000 2 5 1000.
Definition keep_latest : variant := Variant true true false true.

Lemma keep_latest_witness :
  let '(w, r) := compact keep_latest kl_cc 0 100 (World kl_store oks [] false) in
  r = COk [0; 1] (Some 2) ∧
  nfields (state_at kl_store) [9] = 2%nat ∧ nfields (state_at (w_store w)) [9] = 1%nat.
Proof. vm_compute. repeat split. Qed.

Lemma kl_coherent : coherent [([9], hashv 1 10 5 1); ([9], hashv 2 20 6 2)].
Proof.
  intros a b Ha Hb _. simpl in Ha, Hb.
  destruct Ha as [<-|[<-|[]]], Hb as [<-|[<-|[]]]; (split; [done|]); unfold Compatible; simpl;
    intros f r1 r2 H1 H2; apply lookup_singleton_Some in H1 as [<- <-];
    apply lookup_singleton_Some in H2 as [E <-]; try discriminate E; by intros _.
Qed.

(* with the repaired compaction the same layout keeps both fields *)
Lemma merge_example :
  let '(w, r) := compact repaired kl_cc 0 100 (World kl_store oks [] false) in
  r = COk [0; 1] (Some 2) ∧ nfields (state_at (w_store w)) [9] = 2%nat.
Proof. vm_compute. repeat split. Qed.

(* (B) tombstone cutoff: wall-clock milliseconds against logical time.  Segment 0 is above
   the size target (skipped) and holds k1 = 7 @5; segment 1 holds the tombstone of k1 @9,
   segment 2 another key.  Production clock, ttl 24 h: the tombstone is "older than TTL",
   dropped, and the deleted key reads 7 again. *)
Definition tc_store : gmap name (sobj obj) :=
  <[NMan := Whole (OMan (Manifest 3 1 [SegInfo 0 (NSeg 0) 1 200 5 5; SegInfo 1 (NSeg 1) 1 100 9 9;
                                       SegInfo 2 (NSeg 2) 1 100 3 3] None 3))]>
   (<[NSeg 0 := Whole (OSeg [dlt 1 7 5 1])]>
   (<[NSeg 1 := Whole (OSeg [Delta [1] (tombv 9 1) 1])]>
   (<[NSeg 2 := Whole (OSeg [dlt 2 8 3 1])]> ∅))).
Definition tc_cc : ccfg := CCfg 150 2 5 86400000.
Definition tc_now : N := 1758000000000.
Definition get_at (s : gmap (list N) rvalue) (k : list N) : option (list N) :=
  match s !! k with Some v => rv_get v | None => None end.

Lemma tombstone_cutoff_witness :
  let '(w, r) := compact repaired tc_cc tc_now 100 (World tc_store oks [] false) in
  r = COk [1; 2] (Some 3) ∧
  get_at (state_at tc_store) [1] = None ∧ get_at (state_at (w_store w)) [1] = Some [7] ∧
  (* the tombstone was written 9 logical ticks ago, the TTL is 86 400 000 ms *)
  map sig_of (dropped repaired (tc_now - cc_ttl tc_cc) [Delta [1] (tombv 9 1) 1; dlt 2 8 3 1]) = [(1, 9)].
Proof. vm_compute. repeat split. Qed.

(* (C) manifest swap without compare-and-set: the compaction loads the manifest, a flush
   completes (Ok), the compaction continues from its snapshot: it picks the segment id the
   flush has just used, overwrites that object and writes a manifest that does not list
   the flush.  The flushed key is gone. *)
Definition il_store : gmap name (sobj obj) :=
  <[NMan := Whole (OMan (Manifest 2 1 [SegInfo 0 (NSeg 0) 1 100 5 5; SegInfo 1 (NSeg 1) 1 100 6 6] None 2))]>
   (<[NSeg 0 := Whole (OSeg [dlt 1 7 5 1])]>
   (<[NSeg 1 := Whole (OSeg [dlt 2 8 6 1])]> ∅)).
Definition il_run := interleaved repaired (ex_pcfg repaired) 0 100 100 il_store [dlt 3 9 7 1] oks oks.

Lemma interleaving_witness :
  let '(s1, (w2, r)) := il_run in
  s_res s1 = [RFlush (FOk 1) 0; RPush true] ∧ map sig_of (ps_conf (s_p s1)) = [(3, 7)] ∧
  (* the flush wrote segment 2 ... *)
  map fst (rev (w_log (s_w s1))) = [CGet NMan; CPut (NSeg 2); CPut NTmp; CRename NTmp NMan] ∧
  (* ... and so does the compaction *)
  r = COk [0; 1] (Some 2) ∧
  map fst (rev (w_log w2)) = [CGet (NSeg 0); CGet (NSeg 1); CPut (NSeg 2); CPut NTmp;
                              CRename NTmp NMan; CDelete (NSeg 0); CDelete (NSeg 1)] ∧
  match recover (w_store (s_w s1)) 1 with
  | Some rec => map sig_of (r_deltas rec) = [(1, 5); (2, 6); (3, 7)] | None => False end ∧
  match recover (w_store w2) 1 with
  | Some rec => map sig_of (r_deltas rec) = [(1, 5); (2, 6)] | None => False end.
Proof. vm_compute. repeat split. Qed.


(* ---------- what the merging compaction holds per key ---------- *)
Definition keyed (m : gmap (list N) delta) : Prop := ∀ k e, m !! k = Some e → d_key e = k.

Lemma absorb_val_key v e d : d_key e = d_key d → d_key (absorb_val v e d) = d_key d.
Proof. intros H. by destruct (same_key_step v e d H) as [? _]. Qed.

Lemma absorb_keyed v m d : keyed m → keyed (absorb v m d).
Proof.
  intros Hk k e. destruct (m !! d_key d) as [e0|] eqn:He.
  - rewrite (absorb_some _ _ _ _ He). destruct (decide (k = d_key d)) as [->|Hne].
    + rewrite lookup_insert. intros [= <-]. apply absorb_val_key. by apply Hk.
    + rewrite lookup_insert_ne by done. apply Hk.
  - unfold absorb. rewrite He. destruct (decide (k = d_key d)) as [->|Hne].
    + rewrite lookup_insert. by intros [= <-].
    + rewrite lookup_insert_ne by done. apply Hk.
Qed.

Lemma absorb_lookup_val v m d k : v_merge v = true → keyed m →
  d_val <$> (absorb v m d !! k) =
  if decide (k = d_key d) then mfoldo (d_val <$> (m !! k)) [d_val d] else d_val <$> (m !! k).
Proof.
  intros Hv Hk. destruct (m !! d_key d) as [e0|] eqn:He.
  - rewrite (absorb_some _ _ _ _ He). destruct (decide (k = d_key d)) as [->|Hne].
    + rewrite lookup_insert, He. unfold absorb_val. by rewrite Hv.
    + by rewrite lookup_insert_ne.
  - unfold absorb. rewrite He. destruct (decide (k = d_key d)) as [->|Hne].
    + by rewrite lookup_insert, He.
    + by rewrite lookup_insert_ne.
Qed.

Lemma absorb_fold_val v A m k : v_merge v = true → keyed m →
  d_val <$> (fold_left (absorb v) A m !! k) = mfoldo (d_val <$> (m !! k)) (valsk k (map upd_of A)).
Proof.
  intros Hv. revert m. induction A as [|d A IH]; intros m Hk; simpl.
  - by destruct (m !! k).
  - rewrite IH by by apply absorb_keyed. rewrite valsk_cons, absorb_lookup_val by done. simpl.
    destruct (decide (d_key d = k)) as [<-|Hne].
    + rewrite decide_True by done. by rewrite <- mfoldo_cons.
    + by rewrite decide_False by done.
Qed.

Lemma fold_keyed v A m : keyed m → keyed (fold_left (absorb v) A m).
Proof. revert m. induction A as [|d A IH]; intros m Hk; simpl; [done|]. by apply IH, absorb_keyed. Qed.

Lemma keyed_empty : keyed ∅.
Proof. intros ? ?. by rewrite lookup_empty. Qed.
Lemma absorb_fold_val0 v A k : v_merge v = true →
  d_val <$> (fold_left (absorb v) A ∅ !! k) = mfoldo None (valsk k (map upd_of A)).
Proof. intros Hv. rewrite absorb_fold_val by (done || apply keyed_empty). by rewrite lookup_empty. Qed.

Definition keep_val (cutoff : N) (x : rvalue) : bool :=
  negb (is_tomb x && (st_time (rv_ts x) <? cutoff)).

Lemma in_compact_out (cutoff : N) (m : gmap (list N) delta) (e : delta) :
  In e (compact_out cutoff m) ↔ (∃ k, m !! k = Some e) ∧ keep_val cutoff (d_val e) = true.
Proof.
  unfold compact_out. rewrite in_sort_by, <- elem_of_list_In, elem_of_list_filter, elem_of_list_fmap.
  change (keep_delta cutoff e) with (keep_val cutoff (d_val e)). rewrite Is_true_true. split.
  - intros [Hk ([k e'] & -> & Hin)]. apply elem_of_map_to_list in Hin. split; [eauto|done].
  - intros [[k Hk] Hkeep]. split; [done|]. exists (k, e). split; [done|]. by apply elem_of_map_to_list.
Qed.

(* the values of key k in the new segment: the fold of the input values of k, if kept *)
Lemma in_valsk_compacted (v : variant) (cutoff : N) (A : list delta) (k : list N) (x : rvalue) : v_merge v = true →
  In x (valsk k (map upd_of (compacted v cutoff A))) ↔
  mfoldo None (valsk k (map upd_of A)) = Some x ∧ keep_val cutoff x = true.
Proof.
  intros Hv. rewrite in_valsk, in_map_iff. unfold compacted.
  assert (Hkd : keyed (fold_left (absorb v) A ∅)) by (apply fold_keyed, keyed_empty).
  pose proof (absorb_fold_val0 v A k Hv) as Hf.
  split.
  - intros (e & He & Hin). apply in_compact_out in Hin as [[k' Hk'] Hkeep].
    injection He as He1 He2. pose proof (Hkd _ _ Hk') as Hkk. subst.
    rewrite Hk' in Hf. by rewrite <- Hf.
  - intros [Hm Hkeep]. rewrite Hm in Hf.
    destruct (fold_left (absorb v) A ∅ !! k) as [e|] eqn:He; [|discriminate].
    injection Hf as <-. exists e. split.
    + unfold upd_of. by rewrite (Hkd _ _ He).
    + apply in_compact_out. eauto.
Qed.

(* ---------- flattening ---------- *)
Lemma merge_fold_assoc x a l :
  kd a = kd x → (∀ y, In y l → kd y = kd x) →
  rv_merge x (mfold1 a l) = mfold1 (rv_merge x a) l.
Proof.
  intros Ha. induction l as [|z l IH] using rev_ind; intros Hl; [done|].
  assert (Hl' : ∀ y, In y l → kd y = kd x) by (intros y Hy; apply Hl, in_or_app; auto).
  assert (Hz : kd z = kd x) by (apply Hl, in_or_app; right; by left).
  rewrite !mfold1_snoc, <- IH by done.
  apply rv_merge_assoc. split.
  - rewrite kind_fold; [congruence|]. intros y Hy. rewrite (Hl' y Hy). congruence.
  - rewrite kind_fold; [congruence|]. intros y Hy. rewrite (Hl' y Hy). congruence.
Qed.

Lemma mfoldo_unflatten o a l vb :
  (∀ y, In y (a :: l) → match o with Some x => kd y = kd x | None => True end) →
  mfoldo o (mfold1 a l :: vb) = mfoldo o ((a :: l) ++ vb).
Proof.
  intros Hk. destruct o as [x|]; simpl.
  - f_equal. unfold mfold1 at 1 3. simpl. rewrite fold_left_app. f_equal.
    change (rv_merge x (mfold1 a l) = mfold1 (rv_merge x a) l). apply merge_fold_assoc.
    + apply Hk. by left.
    + intros y Hy. apply Hk. by right.
  - f_equal. unfold mfold1. by rewrite fold_left_app.
Qed.

Lemma compatible_refl a : Compatible a a.
Proof.
  unfold Compatible. destruct (rv_crdt a); try (by left).
  - by intros _.
  - intros f r1 r2 H1 H2. assert (r1 = r2) as -> by congruence. by intros _.
Qed.

Lemma coh_fold a l rest : Coh ((a :: l) ++ rest) → Coh (mfold1 a l :: rest).
Proof.
  intros Hc.
  assert (Ia : ∀ w, In w (a :: l) → In w ((a :: l) ++ rest)) by (intros; apply in_or_app; auto).
  assert (Ir : ∀ w, In w rest → In w ((a :: l) ++ rest)) by (intros; apply in_or_app; auto).
  assert (HkF : kd (mfold1 a l) = kd a).
  { apply kind_fold. intros y Hy. apply Hc; apply Ia; [by right|by left]. }
  assert (HF : ∀ y, In y rest → kd (mfold1 a l) = kd y ∧ Compatible (mfold1 a l) y).
  { intros y Hy. split.
    - rewrite HkF. apply Hc; [apply Ia; by left|by apply Ir].
    - apply compat_fold.
      + intros z Hz. apply Hc; apply Ia; [by right|by left].
      + apply Hc; [apply Ia; by left|by apply Ir].
      + apply Hc; [apply Ia; by left|by apply Ir].
      + intros z Hz. apply Hc; [apply Ia; by right|by apply Ir]. }
  intros u w [<-|Hu] [<-|Hw].
  - split; [done|apply compatible_refl].
  - by apply HF.
  - destruct (HF u Hu) as [H1 H2]. split; [done|by apply compatible_sym].
  - apply Hc; by apply Ir.
Qed.

(* ---------- the compaction's output replayed in place of its input ---------- *)
Section content_preserved.
  Variable v : variant.
  Hypothesis Hv : v_merge v = true.
  Variables (s : gmap (list N) rvalue) (A : list delta) (B : list (list N * rvalue)) (cutoff : N).
  Variables (us us' : list (list N * rvalue)).
  Hypothesis Hus : ∀ p, In p us ↔ In p (map upd_of A ++ B).
  Hypothesis Hus' : ∀ p, In p us' ↔ In p (map upd_of (compacted v cutoff A) ++ B).
  Hypothesis Hco : coherent (map_to_list s ++ map upd_of A ++ B).

  Let olist (o : option rvalue) : list rvalue := match o with Some x => [x] | None => [] end.

  Lemma coh_key k : Coh (valsk k (map upd_of A) ++ olist (s !! k) ++ valsk k B).
  Proof.
    apply (coherent_coh k _ _ Hco). intros x Hx. rewrite !in_app_iff in *.
    destruct Hx as [Hx|[Hx|Hx]].
    - right. left. by apply in_valsk.
    - left. destruct (s !! k) as [y|] eqn:Hy; [|destruct Hx]. destruct Hx as [<-|[]].
      by apply elem_of_list_In, elem_of_map_to_list.
    - right. right. by apply in_valsk.
  Qed.

  Lemma coh_m o vs vs' (l : list rvalue) :
    Coh l → (∀ x, In x (olist o ++ vs ++ vs') → In x l) →
    Coh (match o with Some x => x :: vs ++ vs' | None => vs ++ vs' end).
  Proof. intros Hc Hs. eapply Coh_sub; [|exact Hc]. intros z Hz. apply Hs. destruct o; exact Hz. Qed.

  Lemma key_kept k :
    (∀ x, mfoldo None (valsk k (map upd_of A)) = Some x → keep_val cutoff x = true) →
    option_map obs (replay us' s !! k) = option_map obs (replay us s !! k).
  Proof.
    intros Hkept. rewrite !replay_lookup.
    set (o := s !! k). set (va := valsk k (map upd_of A)). set (vb := valsk k B).
    pose proof (coh_key k) as Hc. fold o va vb in Hc.
    (* the old layout *)
    assert (HR : option_map obs (mfoldo o (valsk k us)) = option_map obs (mfoldo o (va ++ vb))).
    { apply mfoldo_set_determined.
      - intros x. rewrite in_valsk, Hus, !in_app_iff, <- !in_valsk. tauto.
      - apply (coh_m _ _ _ _ Hc). intros x. rewrite !in_app_iff, in_valsk, Hus, in_app_iff, <- !in_valsk.
        fold va vb. tauto. }
    rewrite HR. clear HR.
    assert (Hset' : ∀ x, In x (valsk k us') ↔
              (mfoldo None va = Some x ∧ keep_val cutoff x = true) ∨ In x vb).
    { intros x. rewrite in_valsk, Hus', in_app_iff, <- !in_valsk. by rewrite in_valsk_compacted. }
    destruct va as [|a l] eqn:Hva.
    - (* no input delta of this key *)
      apply mfoldo_set_determined.
      + intros x. rewrite Hset'. simpl. split; [intros [[? _]|?]; [discriminate|done]|auto].
      + apply (coh_m _ _ _ _ Hc). intros x. rewrite !in_app_iff, Hset'. simpl.
        intros [?|[[[? _]|?]|?]]; try discriminate; tauto.
    - (* the fold of the inputs is in the new segment *)
      simpl in Hset'.
      assert (Hk2 : keep_val cutoff (mfold1 a l) = true) by (apply Hkept; unfold va in Hva; by rewrite Hva).
      rewrite <- (mfoldo_unflatten o a l vb).
      2: { intros y Hy. destruct o as [x|] eqn:Ho; [|done].
           apply Hc; rewrite !in_app_iff; simpl; [tauto|]. right. left. by left. }
      assert (HcF : Coh (mfold1 a l :: olist o ++ vb)) by by apply coh_fold.
      apply mfoldo_set_determined.
      + intros x. rewrite Hset'. simpl. split.
        * intros [[[= <-] _]|?]; auto.
        * intros [<-|?]; auto.
      + apply (coh_m _ _ _ _ HcF). intros x. rewrite !in_app_iff, Hset'. simpl.
        intros [?|[[[[= <-] _]|?]|[<-|?]]]; rewrite ?in_app_iff; tauto.
  Qed.
End content_preserved.

(* C13: with the tombstone filter inactive the compaction's output stands for its input *)
Theorem compact_content_preserves v s A B us us' :
  v_merge v = true →
  (∀ p, In p us ↔ In p (map upd_of A ++ B)) →
  (∀ p, In p us' ↔ In p (map upd_of (compacted v 0 A) ++ B)) →
  coherent (map_to_list s ++ map upd_of A ++ B) →
  obs_kv (replay us' s) = obs_kv (replay us s).
Proof.
  intros Hv Hus Hus' Hco. apply map_eq. intros k. unfold obs_kv. rewrite !lookup_fmap.
  apply (key_kept v Hv s A B 0 us us' Hus Hus' Hco k).
  intros x _. unfold keep_val. destruct (st_time (rv_ts x) <? 0) eqn:E; [apply N.ltb_lt in E; lia|].
  by rewrite andb_false_r.
Qed.

(* ---------- dropping tombstones ---------- *)
Lemma live_lookup (m : gmap (list N) rvalue) k :
  obs_kv (live_kv m) !! k =
  match m !! k with Some x => if is_tomb x then None else Some (obs x) | None => None end.
Proof.
  unfold obs_kv, live_kv. rewrite lookup_fmap, map_filter_lookup.
  destruct (m !! k) as [x|]; simpl; [|done].
  destruct (decide (is_live (k, x))) as [Hl|Hl].
  - rewrite option_guard_True by done. unfold is_live in Hl. simpl in Hl. by rewrite Hl.
  - rewrite option_guard_False by done. unfold is_live in Hl. simpl in Hl.
    by destruct (is_tomb x).
Qed.

Lemma is_tomb_obs x y : obs x = obs y → is_tomb x = is_tomb y.
Proof.
  destruct x as [cx ? ? ? ?], y as [cy ? ? ? ?]. unfold obs, is_tomb; simpl. intros [= Hc _ _ _ _].
  destruct cx, cy; simpl in Hc; try discriminate; try done. by injection Hc as ->.
Qed.

Lemma live_lookup_congr (m1 m2 : gmap (list N) rvalue) k :
  option_map obs (m1 !! k) = option_map obs (m2 !! k) →
  obs_kv (live_kv m1) !! k = obs_kv (live_kv m2) !! k.
Proof.
  rewrite !live_lookup. destruct (m1 !! k) as [x|], (m2 !! k) as [y|]; simpl; try discriminate; [|done].
  intros H. assert (H' : obs x = obs y) by congruence. rewrite (is_tomb_obs _ _ H'). destruct (is_tomb y); congruence.
Qed.

Lemma keep_val_0 x : keep_val 0 x = true.
Proof.
  unfold keep_val. destruct (st_time (rv_ts x) <? 0) eqn:E; [apply N.ltb_lt in E; lia|].
  by rewrite andb_false_r.
Qed.

(* C13: a tombstone may be dropped when no update of its key exists outside the compaction *)
Theorem tombstone_gc_safe_lemma v s A B cutoff us us' :
  v_merge v = true →
  (∀ p, In p us ↔ In p (map upd_of A ++ B)) →
  (∀ p, In p us' ↔ In p (map upd_of (compacted v cutoff A) ++ B)) →
  coherent (map_to_list s ++ map upd_of A ++ B) →
  (∀ e, In e (dropped v cutoff A) → s !! d_key e = None ∧ ∀ p, In p B → p.1 ≠ d_key e) →
  obs_kv (live_kv (replay us' s)) = obs_kv (live_kv (replay us s)).
Proof.
  intros Hv Hus Hus' Hco Hsafe. apply map_eq. intros k.
  destruct (mfoldo None (valsk k (map upd_of A))) as [x|] eqn:HF.
  2: { apply live_lookup_congr. apply (key_kept v Hv s A B cutoff us us' Hus Hus' Hco k).
       intros x Hx. congruence. }
  destruct (keep_val cutoff x) eqn:Hkeep.
  { apply live_lookup_congr. apply (key_kept v Hv s A B cutoff us us' Hus Hus' Hco k).
    intros x' Hx'. congruence. }
  (* the fold of the inputs of k is a tombstone below the cutoff: dropped *)
  assert (Htomb : is_tomb x = true).
  { unfold keep_val in Hkeep. apply negb_false_iff, andb_true_iff in Hkeep. tauto. }
  pose proof (absorb_fold_val0 v A k Hv) as Hf. rewrite HF in Hf.
  destruct (fold_left (absorb v) A ∅ !! k) as [e|] eqn:He; [|discriminate]. injection Hf as Hx.
  assert (Hke : d_key e = k) by (eapply fold_keyed; [apply keyed_empty|exact He]).
  destruct (Hsafe e) as [Hs HB].
  { unfold dropped. apply elem_of_list_In, elem_of_list_filter. split.
    - change (keep_delta cutoff e) with (keep_val cutoff (d_val e)). rewrite Hx, Hkeep. done.
    - apply elem_of_list_In. unfold compacted. apply in_compact_out. split; [eauto|apply keep_val_0]. }
  rewrite Hke in Hs.
  assert (Hvb : valsk k B = []).
  { destruct (valsk k B) as [|y r] eqn:E; [done|]. exfalso.
    assert (Hy : In y (valsk k B)) by (rewrite E; by left). apply in_valsk in Hy.
    apply (HB _ Hy). simpl. congruence. }
  (* after: no update of k at all *)
  assert (Hafter : replay us' s !! k = None).
  { rewrite replay_lookup, Hs. destruct (valsk k us') as [|y r] eqn:E; [done|]. exfalso.
    assert (Hy : In y (valsk k us')) by (rewrite E; by left).
    apply in_valsk, Hus', in_app_iff in Hy. rewrite <- !in_valsk, Hvb in Hy.
    destruct Hy as [Hy|[]]. apply (in_valsk_compacted v cutoff A k y Hv) in Hy as [Hy1 Hy2]. congruence. }
  (* before: the tombstone *)
  assert (Hbefore : option_map obs (replay us s !! k) = Some (obs x)).
  { rewrite replay_lookup, Hs.
    transitivity (option_map obs (mfoldo None (valsk k (map upd_of A) ++ []))).
    - apply mfoldo_set_determined.
      + intros y. rewrite in_valsk, Hus, !in_app_iff, <- !in_valsk, Hvb. tauto.
      + pose proof (coh_key s A B Hco k) as Hc. rewrite Hs, Hvb in Hc. simpl in Hc.
        eapply Coh_sub; [|exact Hc]. intros y. rewrite !in_app_iff, in_valsk, Hus, in_app_iff, <- !in_valsk, Hvb.
        simpl. tauto.
    - by rewrite app_nil_r, HF. }
  rewrite !live_lookup, Hafter.
  destruct (replay us s !! k) as [y|]; [|done]. simpl in Hbefore.
  assert (Hy : obs y = obs x) by congruence.
  by rewrite (is_tomb_obs _ _ Hy), Htomb.
Qed.

(* ---------- compaction, step by step, for an arbitrary store predicate ---------- *)
Section generic.
  Variable v : variant.
  Hypothesis Hstrict : v_strict_get v = true.
  Variables (c : ccfg) (now : N).
  (* P0: what is known of the store the compaction starts on; P: what is maintained *)
  Variables P0 P : gmap name (sobj obj) → Prop.
  Hypothesis P0_P : ∀ st, P0 st → P st.
  Hypothesis P_ok : ∀ st, P st → store_ok st.
  (* a change confined to the temp manifest and to unallocated segment names *)
  Hypothesis P_frame : ∀ st st', P st → st' !! NMan = st !! NMan →
    (∀ rid m, cur_manifest st rid = Some m →
       ∀ k, (k = NTmp ∨ k = NMan ∨ ∃ i, k = NSeg i ∧ m_next m <= i) ∨ st' !! k = st !! k) →
    P st'.
  (* the manifest swap: the segments [sel] are replaced by [xs] (none, or one holding [out]) *)
  Hypothesis P_install : ∀ st st' m m' sel xs out,
    P0 st → cur_manifest st 0 = Some m →
    (∀ s, In s sel → In s (m_segs m)) →
    out = compact_out (now - cc_ttl c) (fold_left (absorb v) (flat_map (seg_deltas st) sel) ∅) →
    st' !! NMan = Some (Whole (OMan m')) →
    m_ck m' = m_ck m → m_next m <= m_next m' →
    (∀ s, In s (m_segs m') ↔ In s xs ∨ (In s (m_segs m) ∧ ¬ In (si_id s) (map si_id sel))) →
    (∀ s, In s (m_segs m) → ¬ In (si_id s) (map si_id sel) → st' !! si_key s = st !! si_key s) →
    (∀ ci, m_ck m = Some ci → st' !! ci_key ci = st !! ci_key ci) →
    (∀ x, In x xs → si_key x = NSeg (si_id x) ∧ si_id x < m_next m' ∧ m_next m <= si_id x ∧
                    st' !! si_key x = Some (Whole (OSeg out))) →
    (xs = [] ∧ out = []) ∨ (∃ x, xs = [x] ∧ out ≠ []) →
    P st'.

  Lemma compact_generic sz (w : world obj) w' r :
    compact v c now sz w = (w', r) → P0 (w_store w) → P (w_store w').
  Proof.
    intros Hcomp HI0. pose proof (P0_P _ HI0) as HI. revert Hcomp HI. unfold compact.
    destruct (load_or_create w 0) as [w1 r1] eqn:Hl.
    apply load_or_create_spec in Hl as (Hs1 & Hm1 & _ & _).
    destruct r1 as [m| |]; [|intros [= <- <-]; by rewrite Hs1..].
    specialize (Hm1 m eq_refl). unfold compact_rest.
    destruct (N.of_nat (length (select c m)) <? cc_min c). { intros [= <- <-]; by rewrite Hs1. }
    destruct (read_segs v w1 (select c m) (CAcc ∅ 0 [] [])) as [w2 r2] eqn:Hr.
    pose proof (read_segs_store _ _ _ _ _ _ Hr) as Hs2.
    destruct r2 as [a| |]; [|intros [= <- <-]; by rewrite Hs2, Hs1..].
    intros Hrest HI.
    assert (Hg : man_good (w_store w) m).
    { destruct (P_ok _ HI 0) as (m' & Hc' & Hg'). congruence. }
    assert (Hsegok : ∀ s, In s (m_segs m) → seg_ok (w_store w) m s).
    { intros s Hs. destruct Hg as [Hf _]. rewrite Forall_forall in Hf. by apply Hf, elem_of_list_In. }
    apply read_segs_ok in Hr as (act & Hact & Ha & Hmi & Hmap); [|done|].
    2: { intros s Hs. rewrite Hs1. by destruct (Hsegok s (select_sub _ _ _ Hs)) as (_ & _ & H). }
    simpl in Ha, Hmi, Hmap. rewrite Hs1 in Hmap.
    set (st := w_store w) in *.
    assert (Hsub : ∀ s, In s act → In s (m_segs m)) by (intros s Hs; apply (select_sub c), Hact, Hs).
    assert (Hselkey : ∀ s, In s act → si_key s = NSeg (si_id s) ∧ si_id s < m_next m).
    { intros s Hs. destruct (Hsegok s (Hsub s Hs)) as (H1 & H2 & _). auto. }
    assert (Hnotdel : ∀ k, (∀ s', In s' act → k ≠ NSeg (si_id s')) → ¬ In k (map si_key (ca_actual a))).
    { intros k Hk Hin. rewrite Ha in Hin. apply in_map_iff in Hin as (s' & Hks & Hs').
      destruct (Hselkey s' Hs') as [Hk' _]. apply (Hk s' Hs'). congruence. }
    assert (Hkeepdel : ∀ s, In s (m_segs m) → ¬ In (si_id s) (map si_id (ca_actual a)) →
              ¬ In (si_key s) (map si_key (ca_actual a))).
    { intros s Hs Hni. apply Hnotdel. intros s' Hs' Heq. destruct (Hsegok s Hs) as (Hk & _).
      rewrite Hk in Heq. injection Heq as Heq. apply Hni. rewrite Ha. apply in_map_iff. eauto. }
    revert Hrest. rewrite Hmi. rewrite (bool_decide_true ([] = [])) by done. cbn [negb andb].
    destruct (N.of_nat (length (ca_actual a)) <? cc_min c).
    { intros [= <- <-]. by rewrite Hs2, Hs1. }
    destruct (compact_out (now - cc_ttl c) (ca_map a)) as [|o outs] eqn:Hout.
    - destruct (save w2 _) as [w3 r3] eqn:Hsv.
      apply save_spec in Hsv as (Hk3 & Hok3 & Hne3 & _ & _).
      assert (HI3 : r3 ≠ ROk tt → P (w_store w3)).
      { intros Hne. eapply P_frame; [exact HI| |].
        - rewrite (Hne3 Hne). by rewrite Hs2, Hs1.
        - intros rid m' Hc k. destruct (decide (k = NTmp)) as [->|H1]; [auto|].
          destruct (decide (k = NMan)) as [->|H2]; [auto|]. right. rewrite Hk3 by done. by rewrite Hs2, Hs1. }
      destruct r3 as [[]| |]; [|intros [= <- <-]; by apply HI3..].
      destruct (delete_all w3 _) as [w4 dead] eqn:Hd.
      pose proof (delete_all_spec _ _ _ _ Hd) as Hk4.
      intros Hfin. assert (w' = w4) as -> by (by destruct dead; injection Hfin). clear Hfin.
      eapply (P_install st _ m _ act [] [] HI0 Hm1); simpl.
      + exact Hsub.
      + by rewrite <- Hmap, Hout.
      + rewrite Hk4; [by apply Hok3|]. apply Hnotdel. intros; discriminate.
      + reflexivity.
      + simpl; lia.
      + intros s. simpl. rewrite <- Ha, in_without. tauto.
      + intros s Hs Hni. rewrite <- Ha in Hni. destruct (Hsegok s Hs) as (Hk & _).
        rewrite Hk4 by (by apply Hkeepdel). rewrite Hk3 by (rewrite Hk; discriminate).
        by rewrite Hs2, Hs1.
      + intros ci Hci. destruct Hg as [_ Hc]. unfold ck_ok in Hc. rewrite Hci in Hc.
        destruct Hc as (_ & (i & Hi) & _).
        rewrite Hk4 by (apply Hnotdel; intros; rewrite Hi; discriminate).
        rewrite Hk3 by (rewrite Hi; discriminate). by rewrite Hs2, Hs1.
      + intros x [].
      + by left.
    - set (out := o :: outs) in *.
      destruct (st_put w2 (NSeg (m_next m)) (OSeg out)) as [w3 r3] eqn:Hp.
      apply st_put_spec in Hp as (Hk3 & Hok3 & _ & _).
      assert (HI3 : P (w_store w3)).
      { eapply P_frame; [exact HI| |].
        - rewrite Hk3 by done. by rewrite Hs2, Hs1.
        - intros rid m' Hc k. destruct (decide (k = NSeg (m_next m))) as [->|Hne].
          + left. right. right. exists (m_next m). split; [done|].
            destruct (cur_manifest_rid _ _ _ _ _ Hc Hm1) as (_ & _ & ->). lia.
          + right. rewrite Hk3 by done. by rewrite Hs2, Hs1. }
      destruct r3 as [[]| |]; [|by intros [= <- <-]..].
      specialize (Hok3 eq_refl).
      set (seg := SegInfo (m_next m) (NSeg (m_next m)) (N.of_nat (length out)) sz (min_time out) (max_time out)).
      set (m0 := Manifest (m_version m) (m_rid m) (without (map si_id (ca_actual a)) (m_segs m)) (m_ck m) (m_next m)).
      destruct (negb (man_ok (add_segment m0 seg))). { by intros [= <- <-]. }
      destruct (save w3 _) as [w4 r4] eqn:Hsv.
      apply save_spec in Hsv as (Hk4 & Hok4 & Hne4 & _ & _).
      assert (HI4 : r4 ≠ ROk tt → P (w_store w4)).
      { intros Hne. eapply P_frame; [exact HI3| |].
        - by rewrite (Hne4 Hne).
        - intros rid m' Hc k. destruct (decide (k = NTmp)) as [->|H1]; [auto|].
          destruct (decide (k = NMan)) as [->|H2]; [auto|]. right. by rewrite Hk4. }
      destruct r4 as [[]| |]; [|intros [= <- <-]; by apply HI4..].
      destruct (delete_all w4 _) as [w5 dead] eqn:Hd.
      pose proof (delete_all_spec _ _ _ _ Hd) as Hk5.
      intros Hfin. assert (w' = w5) as -> by (by destruct dead; injection Hfin). clear Hfin.
      assert (Hnewkey : ¬ In (NSeg (m_next m)) (map si_key (ca_actual a))).
      { apply Hnotdel. intros s' Hs' [= Heq]. destruct (Hselkey s' Hs') as [_ Hlt]. lia. }
      eapply (P_install st _ m _ act [seg] out HI0 Hm1); simpl.
      + exact Hsub.
      + by rewrite <- Hmap, Hout.
      + rewrite Hk5; [by apply Hok4|]. apply Hnotdel. intros; discriminate.
      + reflexivity.
      + simpl; lia.
      + intros s. simpl. rewrite <- Ha, in_insert_seg, in_without. intuition.
      + intros s Hs Hni. rewrite <- Ha in Hni. destruct (Hsegok s Hs) as (Hk & Hlt & _).
        rewrite Hk5 by (by apply Hkeepdel). rewrite Hk4 by (rewrite Hk; discriminate).
        rewrite Hk3 by (rewrite Hk; intros [= Heq]; lia). by rewrite Hs2, Hs1.
      + intros ci Hci. destruct Hg as [_ Hc]. unfold ck_ok in Hc. rewrite Hci in Hc.
        destruct Hc as (_ & (i & Hi) & _).
        rewrite Hk5 by (apply Hnotdel; intros; rewrite Hi; discriminate).
        rewrite Hk4 by (rewrite Hi; discriminate).
        rewrite Hk3 by (rewrite Hi; discriminate). by rewrite Hs2, Hs1.
      + intros x [<-|[]]. simpl. repeat split; [lia|lia|].
        rewrite Hk5 by done. rewrite Hk4 by discriminate. done.
      + right. exists seg. split; [done|discriminate].
  Qed.
End generic.

(* ---------- compaction preserves what recovery returns ---------- *)
Lemma load_segs_agree (st st' : gmap name (sobj obj)) l :
  (∀ s, In s l → st' !! si_key s = st !! si_key s) → load_segs st' l = load_segs st l.
Proof.
  induction l as [|s l IH]; intros H; simpl; [done|].
  unfold load_seg. rewrite (H s (or_introl eq_refl)), IH; [done|]. intros; apply H; by right.
Qed.

Lemma recover_frame (st st' : gmap name (sobj obj)) rid :
  store_ok st → st' !! NMan = st !! NMan →
  (∀ rid m, cur_manifest st rid = Some m →
     ∀ k, (k = NTmp ∨ k = NMan ∨ ∃ i, k = NSeg i ∧ m_next m <= i) ∨ st' !! k = st !! k) →
  recover st' rid = recover st rid.
Proof.
  intros Hok Hm Hf. destruct (Hok rid) as (m & Hc & Hg).
  destruct (agree_on_frame st st' m Hg (Hf rid m Hc)) as [Ha Hb].
  assert (Hc' : cur_manifest st' rid = Some m) by (unfold cur_manifest in *; by rewrite Hm).
  unfold recover. rewrite Hc, Hc'.
  rewrite (load_segs_agree st st' (visible m)).
  2: { intros s Hs%in_visible. apply Ha. tauto. }
  destruct (m_ck m) as [ci|] eqn:Hci; [|done]. by rewrite (Hb ci).
Qed.

Lemma store_ok_frame (st st' : gmap name (sobj obj)) :
  store_ok st → st' !! NMan = st !! NMan →
  (∀ rid m, cur_manifest st rid = Some m →
     ∀ k, (k = NTmp ∨ k = NMan ∨ ∃ i, k = NSeg i ∧ m_next m <= i) ∨ st' !! k = st !! k) →
  store_ok st'.
Proof.
  intros Hok Hm Hf. apply (inv_store_ok eq _ []). eapply inv_frame; [exact Hm|exact Hf|].
  by apply store_ok_inv.
Qed.

Lemma coherent_sub (l l' : list (list N * rvalue)) :
  (∀ p, In p l' → In p l) → coherent l → coherent l'.
Proof. intros Hs Hc a b Ha Hb. apply Hc; auto. Qed.

Section sem.
  Variable v : variant.
  Hypothesis Hstrict : v_strict_get v = true.
  Hypothesis Hmerge : v_merge v = true.
  Variables (c : ccfg) (now rid : N) (T : gmap (list N) rvalue).
  Hypothesis Hnow : now <= cc_ttl c.

  Definition Sem0 (st : gmap name (sobj obj)) : Prop :=
    store_ok st ∧ ∃ rec, recover st rid = Some rec ∧ ck_covers (r_man rec) ∧
      coherent (map_to_list (ck_state rec) ++ listed_updates st (r_man rec)) ∧
      obs_kv (state_of rec) = T.
  Definition Sem (st : gmap name (sobj obj)) : Prop :=
    store_ok st ∧ ∃ rec, recover st rid = Some rec ∧ obs_kv (state_of rec) = T.

  Lemma sem_frame st st' : Sem st → st' !! NMan = st !! NMan →
    (∀ rid m, cur_manifest st rid = Some m →
       ∀ k, (k = NTmp ∨ k = NMan ∨ ∃ i, k = NSeg i ∧ m_next m <= i) ∨ st' !! k = st !! k) →
    Sem st'.
  Proof.
    intros (Hok & rec & Hr & HT) Hm Hf. split; [by eapply store_ok_frame|].
    exists rec. split; [|done]. by rewrite (recover_frame st st' rid Hok Hm Hf).
  Qed.

  Lemma sem_install st st' m m' sel xs out :
    Sem0 st → cur_manifest st 0 = Some m →
    (∀ s, In s sel → In s (m_segs m)) →
    out = compact_out (now - cc_ttl c) (fold_left (absorb v) (flat_map (seg_deltas st) sel) ∅) →
    st' !! NMan = Some (Whole (OMan m')) →
    m_ck m' = m_ck m → m_next m <= m_next m' →
    (∀ s, In s (m_segs m') ↔ In s xs ∨ (In s (m_segs m) ∧ ¬ In (si_id s) (map si_id sel))) →
    (∀ s, In s (m_segs m) → ¬ In (si_id s) (map si_id sel) → st' !! si_key s = st !! si_key s) →
    (∀ ci, m_ck m = Some ci → st' !! ci_key ci = st !! ci_key ci) →
    (∀ x, In x xs → si_key x = NSeg (si_id x) ∧ si_id x < m_next m' ∧ m_next m <= si_id x ∧
                    st' !! si_key x = Some (Whole (OSeg out))) →
    (xs = [] ∧ out = []) ∨ (∃ x, xs = [x] ∧ out ≠ []) →
    Sem st'.
  Proof.
    intros (Hok & rec & Hr & Hcov & Hco & HT) Hm0 Hsel Hout HM Hck Hnx Hin Hkeep Hckk Hnew Hxs.
    replace (now - cc_ttl c) with 0 in Hout by lia.
    set (A := flat_map (seg_deltas st) sel) in *.
    (* the manifest recovery used *)
    destruct (recover_spec _ _ _ Hr) as [Hmr Hload].
    destruct (cur_manifest_rid _ _ _ _ _ Hmr Hm0) as (Esegs & Eck & Enext).
    assert (Hg : man_good st m) by (destruct (Hok 0) as (m1 & Hc1 & Hg1); congruence).
    assert (Hsegok : ∀ s, In s (m_segs m) → seg_ok st m s).
    { intros s Hs. destruct Hg as [Hf _]. rewrite Forall_forall in Hf. by apply Hf, elem_of_list_In. }
    (* the new store is well formed *)
    assert (Hg' : man_good st' m').
    { split.
      - rewrite Forall_forall. intros s Hs%elem_of_list_In. apply Hin in Hs as [Hx|[Hs Hni]].
        + destruct (Hnew s Hx) as (H1 & H2 & H3 & H4). repeat split; eauto.
        + destruct (Hsegok s Hs) as (H1 & H2 & ds & H3). repeat split; [done|lia|].
          exists ds. by rewrite Hkeep.
      - destruct Hg as [_ Hc]. unfold ck_ok in *. rewrite Hck. destruct (m_ck m) as [ci|] eqn:Hci; [|done].
        destruct Hc as (H1 & H2 & kvs & H3). repeat split; [lia|done|]. exists kvs. by rewrite (Hckk ci). }
    assert (Hok' : store_ok st').
    { intros rid'. exists m'. split; [|done]. unfold cur_manifest. by rewrite HM. }
    split; [done|].
    assert (Hcm' : cur_manifest st' rid = Some m') by (unfold cur_manifest; by rewrite HM).
    (* every listed segment of m' is visible *)
    assert (Hcov' : ck_covers m').
    { unfold ck_covers in *. rewrite Hck. rewrite Eck in Hcov. destruct (m_ck m) as [ci|] eqn:Hci; [|done].
      intros s Hs. apply Hin in Hs as [Hx|[Hs _]].
      - destruct (Hnew s Hx) as (_ & _ & H3 & _). destruct Hg as [_ Hc]. unfold ck_ok in Hc.
        rewrite Hci in Hc. lia.
      - apply Hcov. by rewrite Esegs. }
    destruct (load_segs_all st' (visible m')) as (all' & Hall' & _).
    { intros s Hs%in_visible. destruct Hg' as [Hf _]. rewrite Forall_forall in Hf.
      destruct (Hf s) as (_ & _ & H); [apply elem_of_list_In; tauto|done]. }
    (* the checkpoint is the same object *)
    assert (Hrec' : ∃ rec', recover st' rid = Some rec' ∧ r_ck rec' = r_ck rec ∧ r_deltas rec' = all' ∧ r_man rec' = m').
    { unfold recover in *. rewrite Hcm', Hall'. rewrite Hmr in Hr. rewrite Hck, <- Eck.
      destruct (m_ck (r_man rec)) as [ci|] eqn:Hci.
      - rewrite (Hckk ci) by congruence.
        destruct (st !! ci_key ci) as [[[| |kvs]|]|]; try discriminate.
        destruct (load_segs st (visible (r_man rec))); [|discriminate]. injection Hr as <-.
        eexists; split; [done|]. simpl. auto.
      - destruct (load_segs st (visible (r_man rec))); [|discriminate]. injection Hr as <-.
        eexists; split; [done|]. simpl. auto. }
    destruct Hrec' as (rec' & Hr' & Eck' & Ed' & Em').
    exists rec'. split; [done|]. rewrite <- HT, !state_of_replay.
    assert (Ecs : ck_state rec' = ck_state rec) by (unfold ck_state; by rewrite Eck').
    rewrite Ecs.
    set (B := map upd_of (flat_map (seg_deltas st) (without (map si_id sel) (m_segs m)))).
    assert (Hsame : ∀ s s', In s (m_segs m) → In s' sel → si_id s' = si_id s →
              seg_deltas st s = seg_deltas st s').
    { intros s s' Hs Hs' Hid. destruct (Hsegok s Hs) as (K1 & _). destruct (Hsegok s' (Hsel s' Hs')) as (K2 & _).
      unfold seg_deltas. by rewrite K1, K2, Hid. }
    apply (compact_content_preserves v (ck_state rec) A B); [done| | |].
    - (* before *)
      intros p. rewrite (recovered_updates _ _ _ Hr Hcov p). unfold listed_updates, B. rewrite Esegs.
      rewrite <- map_app, !in_map_iff. split; intros (d & Hp & Hd); exists d; (split; [done|]).
      + apply in_flat_map in Hd as (s & Hs & Hd). apply in_or_app.
        destruct (in_dec N.eq_dec (si_id s) (map si_id sel)) as [Hi|Hi].
        * left. apply in_map_iff in Hi as (s' & Hid & Hs'). apply in_flat_map. exists s'.
          split; [done|]. by rewrite <- (Hsame s s').
        * right. apply in_flat_map. exists s. split; [|done]. apply in_without. auto.
      + apply in_app_or in Hd as [Hd|Hd]; apply in_flat_map in Hd as (s & Hs & Hd); apply in_flat_map; exists s.
        * split; [by apply Hsel|done].
        * apply in_without in Hs. tauto.
    - (* after *)
      intros p. rewrite Ed'. unfold B. rewrite <- map_app, !in_map_iff.
      assert (Hd' : ∀ d, In d all' ↔ ∃ s, In s (m_segs m') ∧ In d (seg_deltas st' s)).
      { intros d. rewrite (load_segs_in _ _ _ Hall' d). split; intros (s & Hs & Hd); exists s; (split; [|done]).
        - apply in_visible in Hs. tauto.
        - by apply visible_all. }
      assert (Hnewd : ∀ x, In x xs → seg_deltas st' x = compacted v 0 A).
      { intros x Hx. destruct (Hnew x Hx) as (_ & _ & _ & H4). unfold seg_deltas. rewrite H4. by rewrite Hout. }
      split; intros (d & Hp & Hd); exists d; (split; [done|]).
      + apply Hd' in Hd as (s & Hs & Hd). apply in_or_app. apply Hin in Hs as [Hx|[Hs Hni]].
        * left. by rewrite <- (Hnewd s Hx).
        * right. apply in_flat_map. exists s. split; [by apply in_without|].
          unfold seg_deltas in *. by rewrite <- Hkeep.
      + apply Hd'. apply in_app_or in Hd as [Hd|Hd].
        * destruct Hxs as [[-> E]|(x & -> & _)].
          { unfold compacted in Hd. rewrite <- Hout, E in Hd. destruct Hd. }
          exists x. split; [apply Hin; left; by left|]. rewrite Hnewd by (by left). done.
        * apply in_flat_map in Hd as (s & Hs & Hd). apply in_without in Hs as [Hs Hni].
          exists s. split; [apply Hin; auto|]. unfold seg_deltas in *. by rewrite Hkeep.
    - (* coherence of what was there *)
      eapply coherent_sub; [|exact Hco]. intros p. rewrite !in_app_iff. intros [Hp|[Hp|Hp]]; [auto| |].
      + right. unfold listed_updates. rewrite Esegs. apply in_map_iff in Hp as (d & Hp & Hd).
        apply in_map_iff. exists d. split; [done|]. apply in_flat_map in Hd as (s & Hs & Hd).
        apply in_flat_map. exists s. split; [by apply Hsel|done].
      + right. unfold listed_updates, B in *. rewrite Esegs. apply in_map_iff in Hp as (d & Hp & Hd).
        apply in_map_iff. exists d. split; [done|]. apply in_flat_map in Hd as (s & Hs & Hd).
        apply in_flat_map. exists s. apply in_without in Hs. tauto.
  Qed.

  (* C13: compact_preserves, at every crash instant and under every fault placement *)
  Lemma compact_preserves_lemma sz (w : world obj) w' r :
    compact v c now sz w = (w', r) → Sem0 (w_store w) → Sem (w_store w').
  Proof.
    apply (compact_generic v Hstrict c now Sem0 Sem).
    - intros st (Hok & rec & Hr & _ & _ & HT). split; eauto.
    - by intros st [H _].
    - apply sem_frame.
    - apply sem_install.
  Qed.
End sem.

(* non-vacuity: the two-replica hash layout satisfies the hypotheses of compact_preserves *)
Lemma kl_store_ok : store_ok kl_store.
Proof.
  intros rid. eexists. split; [vm_compute; reflexivity|]. split; [|done].
  repeat constructor; simpl; try lia; eexists; vm_compute; reflexivity.
Qed.

Lemma kl_sem0 : ∃ T, Sem0 1 T kl_store ∧ nfields T [9] = 2%nat.
Proof.
  destruct (recover kl_store 1) as [rec|] eqn:Hr; [|by vm_compute in Hr].
  exists (obs_kv (state_of rec)). split.
  - split; [apply kl_store_ok|]. exists rec. split; [done|].
    assert (Hm : r_man rec = Manifest 2 1 [SegInfo 0 (NSeg 0) 1 100 5 5; SegInfo 1 (NSeg 1) 1 100 6 6] None 2)
      by (vm_compute in Hr; by injection Hr as <-).
    assert (Hck : ck_state rec = ∅) by (vm_compute in Hr; by injection Hr as <-).
    split; [by rewrite Hm|]. split; [|done].
    rewrite Hck, Hm, map_to_list_empty. simpl.
    assert (E : listed_updates kl_store
        (Manifest 2 1 [SegInfo 0 (NSeg 0) 1 100 5 5; SegInfo 1 (NSeg 1) 1 100 6 6] None 2)
      = [([9], hashv 1 10 5 1); ([9], hashv 2 20 6 2)]) by (vm_compute; reflexivity).
    rewrite E. apply kl_coherent.
  - vm_compute in Hr. injection Hr as <-. vm_compute. reflexivity.
Qed.

(* a read of an input segment that arrives damaged (object at rest intact): the segment is
   skipped, stays listed and on the store; nothing is lost *)
Definition gb_store : gmap name (sobj obj) :=
  <[NMan := Whole (OMan (Manifest 3 1 [SegInfo 0 (NSeg 0) 1 100 5 5; SegInfo 1 (NSeg 1) 1 100 6 6;
                                       SegInfo 2 (NSeg 2) 1 100 7 7] None 3))]>
   (<[NSeg 0 := Whole (OSeg [dlt 1 7 5 1])]>
   (<[NSeg 1 := Whole (OSeg [dlt 2 8 6 1])]>
   (<[NSeg 2 := Whole (OSeg [dlt 3 9 7 1])]> ∅))).
Definition gb_io : list outcome := [OOk; OErr EGarble] ++ oks.

Lemma garbled_read_example :
  let '(w, r) := compact repaired kl_cc 0 100 (World gb_store gb_io [] false) in
  r = COk [1; 2] (Some 3) ∧
  map fst (rev (w_log w)) = [CGet NMan; CGet (NSeg 0); CGet (NSeg 1); CGet (NSeg 2); CPut (NSeg 3);
                             CPut NTmp; CRename NTmp NMan; CDelete (NSeg 1); CDelete (NSeg 2)] ∧
  match recover gb_store 1 with
  | Some rec => map sig_of (r_deltas rec) = [(1, 5); (2, 6); (3, 7)] | None => False end ∧
  match recover (w_store w) 1 with
  | Some rec => map sig_of (r_deltas rec) = [(1, 5); (2, 6); (3, 7)] | None => False end.
Proof. vm_compute. repeat split. Qed.

(* Lemmas for C13: what a compaction writes, folded into a node state, equals what it
   read; witnesses of the as-found defect and of the two design-level findings. *)
From stdpp Require Import gmap.
From Coq Require Import NArith Lia.
From RV Require Import Lib.Hex Model.Crdt Model.Store Model.Persist Model.CompactSpec.
From RV Require Import Proofs.CrdtProofs Proofs.MergeFoldProofs Proofs.PersistProofs Proofs.RecoveryProofs.
Local Open Scope N_scope.

(* ---------- witnesses ---------- *)
Definition hashv (f val t r : N) : rvalue :=
  RV (CHash {[ [f] := Lww (Some [val]) (Stamp t r) false ]}) None None (Stamp t r) None.
Definition tombv (t r : N) : rvalue :=
  RV (CLww (Lww None (Stamp t r) true)) None None (Stamp t r) None.
Definition oks : list outcome := repeat OOk 60.
Definition nfields (s : gmap (list N) rvalue) (k : list N) : nat :=
  match s !! k with
  | Some v => match rv_crdt v with CHash h => size h | _ => 0%nat end
  | None => 0%nat
  end.
Definition state_at (st : gmap name (sobj obj)) : gmap (list N) rvalue :=
  match recover st 1 with Some r => state_of r | None => ∅ end.

(* (A) keep-latest instead of merge: two replicas' hash deltas for one key, disjoint fields *)
Definition kl_store : gmap name (sobj obj) :=
  <[NMan := Whole (OMan (Manifest 2 1 [SegInfo 0 (NSeg 0) 1 100 5 5; SegInfo 1 (NSeg 1) 1 100 6 6] None 2))]>
   (<[NSeg 0 := Whole (OSeg [Delta [9] (hashv 1 10 5 1) 1])]>
   (<[NSeg 1 := Whole (OSeg [Delta [9] (hashv 2 20 6 2) 2])]> ∅)).
Definition kl_cc : ccfg := CCfg 1000 2 5 1000.
Definition keep_latest : variant := Variant true true false true.

Lemma keep_latest_witness :
  let '(w, r) := compact keep_latest kl_cc 0 100 (World kl_store oks [] false) in
  r = COk [0; 1] (Some 2) ∧
  nfields (state_at kl_store) [9] = 2%nat ∧ nfields (state_at (w_store w)) [9] = 1%nat.
Proof. vm_compute. repeat split. Qed.

Lemma kl_coherent : coherent [([9], hashv 1 10 5 1); ([9], hashv 2 20 6 2)].
Proof.
  intros a b Ha Hb _. simpl in Ha, Hb.
  destruct Ha as [<-|[<-|[]]], Hb as [<-|[<-|[]]]; (split; [done|]); unfold Compatible; simpl;
    intros f r1 r2 H1 H2; apply lookup_singleton_Some in H1 as [<- <-];
    apply lookup_singleton_Some in H2 as [E <-]; try discriminate E; by intros _.
Qed.

(* with the repaired compaction the same layout keeps both fields *)
Lemma merge_example :
  let '(w, r) := compact repaired kl_cc 0 100 (World kl_store oks [] false) in
  r = COk [0; 1] (Some 2) ∧ nfields (state_at (w_store w)) [9] = 2%nat.
Proof. vm_compute. repeat split. Qed.

(* (B) tombstone cutoff: wall-clock milliseconds against logical time.  Segment 0 is above
   the size target (skipped) and holds k1 = 7 @5; segment 1 holds the tombstone of k1 @9,
   segment 2 another key.  Production clock, ttl 24 h: the tombstone is "older than TTL",
   dropped, and the deleted key reads 7 again. *)
Definition tc_store : gmap name (sobj obj) :=
  <[NMan := Whole (OMan (Manifest 3 1 [SegInfo 0 (NSeg 0) 1 200 5 5; SegInfo 1 (NSeg 1) 1 100 9 9;
                                       SegInfo 2 (NSeg 2) 1 100 3 3] None 3))]>
   (<[NSeg 0 := Whole (OSeg [dlt 1 7 5 1])]>
   (<[NSeg 1 := Whole (OSeg [Delta [1] (tombv 9 1) 1])]>
   (<[NSeg 2 := Whole (OSeg [dlt 2 8 3 1])]> ∅))).
Definition tc_cc : ccfg := CCfg 150 2 5 86400000.
Definition tc_now : N := 1758000000000.
Definition get_at (s : gmap (list N) rvalue) (k : list N) : option (list N) :=
  match s !! k with Some v => rv_get v | None => None end.

Lemma tombstone_cutoff_witness :
  let '(w, r) := compact repaired tc_cc tc_now 100 (World tc_store oks [] false) in
  r = COk [1; 2] (Some 3) ∧
  get_at (state_at tc_store) [1] = None ∧ get_at (state_at (w_store w)) [1] = Some [7] ∧
  (* the tombstone was written 9 logical ticks ago, the TTL is 86 400 000 ms *)
  map sig_of (dropped repaired (tc_now - cc_ttl tc_cc) [Delta [1] (tombv 9 1) 1; dlt 2 8 3 1]) = [(1, 9)].
Proof. vm_compute. repeat split. Qed.

(* (C) manifest swap without compare-and-set: the compaction loads the manifest, a flush
   completes (Ok), the compaction continues from its snapshot: it picks the segment id the
   flush has just used, overwrites that object and writes a manifest that does not list
   the flush.  The flushed key is gone. *)
Definition il_store : gmap name (sobj obj) :=
  <[NMan := Whole (OMan (Manifest 2 1 [SegInfo 0 (NSeg 0) 1 100 5 5; SegInfo 1 (NSeg 1) 1 100 6 6] None 2))]>
   (<[NSeg 0 := Whole (OSeg [dlt 1 7 5 1])]>
   (<[NSeg 1 := Whole (OSeg [dlt 2 8 6 1])]> ∅)).
Definition il_run := interleaved repaired (ex_pcfg repaired) 0 100 100 il_store [dlt 3 9 7 1] oks oks.

Lemma interleaving_witness :
  let '(s1, (w2, r)) := il_run in
  s_res s1 = [RFlush (FOk 1) 0; RPush true] ∧ map sig_of (ps_conf (s_p s1)) = [(3, 7)] ∧
  (* the flush wrote segment 2 ... *)
  map fst (rev (w_log (s_w s1))) = [CGet NMan; CPut (NSeg 2); CPut NTmp; CRename NTmp NMan] ∧
  (* ... and so does the compaction *)
  r = COk [0; 1] (Some 2) ∧
  map fst (rev (w_log w2)) = [CGet (NSeg 0); CGet (NSeg 1); CPut (NSeg 2); CPut NTmp;
                              CRename NTmp NMan; CDelete (NSeg 0); CDelete (NSeg 1)] ∧
  match recover (w_store (s_w s1)) 1 with
  | Some rec => map sig_of (r_deltas rec) = [(1, 5); (2, 6); (3, 7)] | None => False end ∧
  match recover (w_store w2) 1 with
  | Some rec => map sig_of (r_deltas rec) = [(1, 5); (2, 6)] | None => False end.
Proof. vm_compute. repeat split. Qed.


(* ---------- what the merging compaction holds per key ---------- *)
Definition keyed (m : gmap (list N) delta) : Prop := ∀ k e, m !! k = Some e → d_key e = k.

Lemma absorb_val_key v e d : d_key e = d_key d → d_key (absorb_val v e d) = d_key d.
Proof. intros H. by destruct (same_key_step v e d H) as [? _]. Qed.

Lemma absorb_keyed v m d : keyed m → keyed (absorb v m d).
Proof.
  intros Hk k e. destruct (m !! d_key d) as [e0|] eqn:He.
  - rewrite (absorb_some _ _ _ _ He). destruct (decide (k = d_key d)) as [->|Hne].
    + rewrite lookup_insert. intros [= <-]. apply absorb_val_key. by apply Hk.
    + rewrite lookup_insert_ne by done. apply Hk.
  - unfold absorb. rewrite He. destruct (decide (k = d_key d)) as [->|Hne].
    + rewrite lookup_insert. by intros [= <-].
    + rewrite lookup_insert_ne by done. apply Hk.
Qed.

Lemma absorb_lookup_val v m d k : v_merge v = true → keyed m →
  d_val <$> (absorb v m d !! k) =
  if decide (k = d_key d) then mfoldo (d_val <$> (m !! k)) [d_val d] else d_val <$> (m !! k).
Proof.
  intros Hv Hk. destruct (m !! d_key d) as [e0|] eqn:He.
  - rewrite (absorb_some _ _ _ _ He). destruct (decide (k = d_key d)) as [->|Hne].
    + rewrite lookup_insert, He. unfold absorb_val. by rewrite Hv.
    + by rewrite lookup_insert_ne.
  - unfold absorb. rewrite He. destruct (decide (k = d_key d)) as [->|Hne].
    + by rewrite lookup_insert, He.
    + by rewrite lookup_insert_ne.
Qed.

Lemma absorb_fold_val v A m k : v_merge v = true → keyed m →
  d_val <$> (fold_left (absorb v) A m !! k) = mfoldo (d_val <$> (m !! k)) (valsk k (map upd_of A)).
Proof.
  intros Hv. revert m. induction A as [|d A IH]; intros m Hk; simpl.
  - by destruct (m !! k).
  - rewrite IH by by apply absorb_keyed. rewrite valsk_cons, absorb_lookup_val by done. simpl.
    destruct (decide (d_key d = k)) as [<-|Hne].
    + rewrite decide_True by done. by rewrite <- mfoldo_cons.
    + by rewrite decide_False by done.
Qed.

Lemma fold_keyed v A m : keyed m → keyed (fold_left (absorb v) A m).
Proof. revert m. induction A as [|d A IH]; intros m Hk; simpl; [done|]. by apply IH, absorb_keyed. Qed.

Lemma keyed_empty : keyed ∅.
Proof. intros ? ?. by rewrite lookup_empty. Qed.
Lemma absorb_fold_val0 v A k : v_merge v = true →
  d_val <$> (fold_left (absorb v) A ∅ !! k) = mfoldo None (valsk k (map upd_of A)).
Proof. intros Hv. rewrite absorb_fold_val by (done || apply keyed_empty). by rewrite lookup_empty. Qed.

Definition keep_val (cutoff : N) (x : rvalue) : bool :=
  negb (is_tomb x && (st_time (rv_ts x) <? cutoff)).

Lemma in_compact_out (cutoff : N) (m : gmap (list N) delta) (e : delta) :
  In e (compact_out cutoff m) ↔ (∃ k, m !! k = Some e) ∧ keep_val cutoff (d_val e) = true.
Proof.
  unfold compact_out. rewrite in_sort_by, <- elem_of_list_In, elem_of_list_filter, elem_of_list_fmap.
  change (keep_delta cutoff e) with (keep_val cutoff (d_val e)). rewrite Is_true_true. split.
  - intros [Hk ([k e'] & -> & Hin)]. apply elem_of_map_to_list in Hin. split; [eauto|done].
  - intros [[k Hk] Hkeep]. split; [done|]. exists (k, e). split; [done|]. by apply elem_of_map_to_list.
Qed.

(* the values of key k in the new segment: the fold of the input values of k, if kept *)
Lemma in_valsk_compacted (v : variant) (cutoff : N) (A : list delta) (k : list N) (x : rvalue) : v_merge v = true →
  In x (valsk k (map upd_of (compacted v cutoff A))) ↔
  mfoldo None (valsk k (map upd_of A)) = Some x ∧ keep_val cutoff x = true.
Proof.
  intros Hv. rewrite in_valsk, in_map_iff. unfold compacted.
  assert (Hkd : keyed (fold_left (absorb v) A ∅)) by (apply fold_keyed, keyed_empty).
  pose proof (absorb_fold_val0 v A k Hv) as Hf.
  split.
  - intros (e & He & Hin). apply in_compact_out in Hin as [[k' Hk'] Hkeep].
    injection He as He1 He2. pose proof (Hkd _ _ Hk') as Hkk. subst.
    rewrite Hk' in Hf. by rewrite <- Hf.
  - intros [Hm Hkeep]. rewrite Hm in Hf.
    destruct (fold_left (absorb v) A ∅ !! k) as [e|] eqn:He; [|discriminate].
    injection Hf as <-. exists e. split.
    + unfold upd_of. by rewrite (Hkd _ _ He).
    + apply in_compact_out. eauto.
Qed.

(* ---------- flattening ---------- *)
Lemma merge_fold_assoc x a l :
  kd a = kd x → (∀ y, In y l → kd y = kd x) →
  rv_merge x (mfold1 a l) = mfold1 (rv_merge x a) l.
Proof.
  intros Ha. induction l as [|z l IH] using rev_ind; intros Hl; [done|].
  assert (Hl' : ∀ y, In y l → kd y = kd x) by (intros y Hy; apply Hl, in_or_app; auto).
  assert (Hz : kd z = kd x) by (apply Hl, in_or_app; right; by left).
  rewrite !mfold1_snoc, <- IH by done.
  apply rv_merge_assoc. split.
  - rewrite kind_fold; [congruence|]. intros y Hy. rewrite (Hl' y Hy). congruence.
  - rewrite kind_fold; [congruence|]. intros y Hy. rewrite (Hl' y Hy). congruence.
Qed.

Lemma mfoldo_unflatten o a l vb :
  (∀ y, In y (a :: l) → match o with Some x => kd y = kd x | None => True end) →
  mfoldo o (mfold1 a l :: vb) = mfoldo o ((a :: l) ++ vb).
Proof.
  intros Hk. destruct o as [x|]; simpl.
  - f_equal. unfold mfold1 at 1 3. simpl. rewrite fold_left_app. f_equal.
    change (rv_merge x (mfold1 a l) = mfold1 (rv_merge x a) l). apply merge_fold_assoc.
    + apply Hk. by left.
    + intros y Hy. apply Hk. by right.
  - f_equal. unfold mfold1. by rewrite fold_left_app.
Qed.

Lemma compatible_refl a : Compatible a a.
Proof.
  unfold Compatible. destruct (rv_crdt a); try (by left).
  - by intros _.
  - intros f r1 r2 H1 H2. assert (r1 = r2) as -> by congruence. by intros _.
Qed.

Lemma coh_fold a l rest : Coh ((a :: l) ++ rest) → Coh (mfold1 a l :: rest).
Proof.
  intros Hc.
  assert (Ia : ∀ w, In w (a :: l) → In w ((a :: l) ++ rest)) by (intros; apply in_or_app; auto).
  assert (Ir : ∀ w, In w rest → In w ((a :: l) ++ rest)) by (intros; apply in_or_app; auto).
  assert (HkF : kd (mfold1 a l) = kd a).
  { apply kind_fold. intros y Hy. apply Hc; apply Ia; [by right|by left]. }
  assert (HF : ∀ y, In y rest → kd (mfold1 a l) = kd y ∧ Compatible (mfold1 a l) y).
  { intros y Hy. split.
    - rewrite HkF. apply Hc; [apply Ia; by left|by apply Ir].
    - apply compat_fold.
      + intros z Hz. apply Hc; apply Ia; [by right|by left].
      + apply Hc; [apply Ia; by left|by apply Ir].
      + apply Hc; [apply Ia; by left|by apply Ir].
      + intros z Hz. apply Hc; [apply Ia; by right|by apply Ir]. }
  intros u w [<-|Hu] [<-|Hw].
  - split; [done|apply compatible_refl].
  - by apply HF.
  - destruct (HF u Hu) as [H1 H2]. split; [done|by apply compatible_sym].
  - apply Hc; by apply Ir.
Qed.

(* ---------- the compaction's output replayed in place of its input ---------- *)
Section content_preserved.
  Variable v : variant.
  Hypothesis Hv : v_merge v = true.
  Variables (s : gmap (list N) rvalue) (A : list delta) (B : list (list N * rvalue)) (cutoff : N).
  Variables (us us' : list (list N * rvalue)).
  Hypothesis Hus : ∀ p, In p us ↔ In p (map upd_of A ++ B).
  Hypothesis Hus' : ∀ p, In p us' ↔ In p (map upd_of (compacted v cutoff A) ++ B).
  Hypothesis Hco : coherent (map_to_list s ++ map upd_of A ++ B).

  Let olist (o : option rvalue) : list rvalue := match o with Some x => [x] | None => [] end.

  Lemma coh_key k : Coh (valsk k (map upd_of A) ++ olist (s !! k) ++ valsk k B).
  Proof.
    apply (coherent_coh k _ _ Hco). intros x Hx. rewrite !in_app_iff in *.
    destruct Hx as [Hx|[Hx|Hx]].
    - right. left. by apply in_valsk.
    - left. destruct (s !! k) as [y|] eqn:Hy; [|destruct Hx]. destruct Hx as [<-|[]].
      by apply elem_of_list_In, elem_of_map_to_list.
    - right. right. by apply in_valsk.
  Qed.

  Lemma coh_m o vs vs' (l : list rvalue) :
    Coh l → (∀ x, In x (olist o ++ vs ++ vs') → In x l) →
    Coh (match o with Some x => x :: vs ++ vs' | None => vs ++ vs' end).
  Proof. intros Hc Hs. eapply Coh_sub; [|exact Hc]. intros z Hz. apply Hs. destruct o; exact Hz. Qed.

  Lemma key_kept k :
    (∀ x, mfoldo None (valsk k (map upd_of A)) = Some x → keep_val cutoff x = true) →
    option_map obs (replay us' s !! k) = option_map obs (replay us s !! k).
  Proof.
    intros Hkept. rewrite !replay_lookup.
    set (o := s !! k). set (va := valsk k (map upd_of A)). set (vb := valsk k B).
    pose proof (coh_key k) as Hc. fold o va vb in Hc.
    (* the old layout *)
    assert (HR : option_map obs (mfoldo o (valsk k us)) = option_map obs (mfoldo o (va ++ vb))).
    { apply mfoldo_set_determined.
      - intros x. rewrite in_valsk, Hus, !in_app_iff, <- !in_valsk. tauto.
      - apply (coh_m _ _ _ _ Hc). intros x. rewrite !in_app_iff, in_valsk, Hus, in_app_iff, <- !in_valsk.
        fold va vb. tauto. }
    rewrite HR. clear HR.
    assert (Hset' : ∀ x, In x (valsk k us') ↔
              (mfoldo None va = Some x ∧ keep_val cutoff x = true) ∨ In x vb).
    { intros x. rewrite in_valsk, Hus', in_app_iff, <- !in_valsk. by rewrite in_valsk_compacted. }
    destruct va as [|a l] eqn:Hva.
    - (* no input delta of this key *)
      apply mfoldo_set_determined.
      + intros x. rewrite Hset'. simpl. split; [intros [[? _]|?]; [discriminate|done]|auto].
      + apply (coh_m _ _ _ _ Hc). intros x. rewrite !in_app_iff, Hset'. simpl.
        intros [?|[[[? _]|?]|?]]; try discriminate; tauto.
    - (* the fold of the inputs is in the new segment *)
      simpl in Hset'.
      assert (Hk2 : keep_val cutoff (mfold1 a l) = true) by (apply Hkept; unfold va in Hva; by rewrite Hva).
      rewrite <- (mfoldo_unflatten o a l vb).
      2: { intros y Hy. destruct o as [x|] eqn:Ho; [|done].
           apply Hc; rewrite !in_app_iff; simpl; [tauto|]. right. left. by left. }
      assert (HcF : Coh (mfold1 a l :: olist o ++ vb)) by by apply coh_fold.
      apply mfoldo_set_determined.
      + intros x. rewrite Hset'. simpl. split.
        * intros [[[= <-] _]|?]; auto.
        * intros [<-|?]; auto.
      + apply (coh_m _ _ _ _ HcF). intros x. rewrite !in_app_iff, Hset'. simpl.
        intros [?|[[[[= <-] _]|?]|[<-|?]]]; rewrite ?in_app_iff; tauto.
  Qed.
End content_preserved.

(* C13: with the tombstone filter inactive the compaction's output stands for its input *)
Theorem compact_content_preserves v s A B us us' :
  v_merge v = true →
  (∀ p, In p us ↔ In p (map upd_of A ++ B)) →
  (∀ p, In p us' ↔ In p (map upd_of (compacted v 0 A) ++ B)) →
  coherent (map_to_list s ++ map upd_of A ++ B) →
  obs_kv (replay us' s) = obs_kv (replay us s).
Proof.
  intros Hv Hus Hus' Hco. apply map_eq. intros k. unfold obs_kv. rewrite !lookup_fmap.
  apply (key_kept v Hv s A B 0 us us' Hus Hus' Hco k).
  intros x _. unfold keep_val. destruct (st_time (rv_ts x) <? 0) eqn:E; [apply N.ltb_lt in E; lia|].
  by rewrite andb_false_r.
Qed.

(* ---------- dropping tombstones ---------- *)
Lemma live_lookup (m : gmap (list N) rvalue) k :
  obs_kv (live_kv m) !! k =
  match m !! k with Some x => if is_tomb x then None else Some (obs x) | None => None end.
Proof.
  unfold obs_kv, live_kv. rewrite lookup_fmap, map_filter_lookup.
  destruct (m !! k) as [x|]; simpl; [|done].
  destruct (decide (is_live (k, x))) as [Hl|Hl].
  - rewrite option_guard_True by done. unfold is_live in Hl. simpl in Hl. by rewrite Hl.
  - rewrite option_guard_False by done. unfold is_live in Hl. simpl in Hl.
    by destruct (is_tomb x).
Qed.

Lemma is_tomb_obs x y : obs x = obs y → is_tomb x = is_tomb y.
Proof.
  destruct x as [cx ? ? ? ?], y as [cy ? ? ? ?]. unfold obs, is_tomb; simpl. intros [= Hc _ _ _ _].
  destruct cx, cy; simpl in Hc; try discriminate; try done. by injection Hc as ->.
Qed.

Lemma live_lookup_congr (m1 m2 : gmap (list N) rvalue) k :
  option_map obs (m1 !! k) = option_map obs (m2 !! k) →
  obs_kv (live_kv m1) !! k = obs_kv (live_kv m2) !! k.
Proof.
  rewrite !live_lookup. destruct (m1 !! k) as [x|], (m2 !! k) as [y|]; simpl; try discriminate; [|done].
  intros H. assert (H' : obs x = obs y) by congruence. rewrite (is_tomb_obs _ _ H'). destruct (is_tomb y); congruence.
Qed.

Lemma keep_val_0 x : keep_val 0 x = true.
Proof.
  unfold keep_val. destruct (st_time (rv_ts x) <? 0) eqn:E; [apply N.ltb_lt in E; lia|].
  by rewrite andb_false_r.
Qed.

(* C13: a tombstone may be dropped when no update of its key exists outside the compaction *)
Theorem tombstone_gc_safe_lemma v s A B cutoff us us' :
  v_merge v = true →
  (∀ p, In p us ↔ In p (map upd_of A ++ B)) →
  (∀ p, In p us' ↔ In p (map upd_of (compacted v cutoff A) ++ B)) →
  coherent (map_to_list s ++ map upd_of A ++ B) →
  (∀ e, In e (dropped v cutoff A) → s !! d_key e = None ∧ ∀ p, In p B → p.1 ≠ d_key e) →
  obs_kv (live_kv (replay us' s)) = obs_kv (live_kv (replay us s)).
Proof.
  intros Hv Hus Hus' Hco Hsafe. apply map_eq. intros k.
  destruct (mfoldo None (valsk k (map upd_of A))) as [x|] eqn:HF.
  2: { apply live_lookup_congr. apply (key_kept v Hv s A B cutoff us us' Hus Hus' Hco k).
       intros x Hx. congruence. }
  destruct (keep_val cutoff x) eqn:Hkeep.
  { apply live_lookup_congr. apply (key_kept v Hv s A B cutoff us us' Hus Hus' Hco k).
    intros x' Hx'. congruence. }
  (* the fold of the inputs of k is a tombstone below the cutoff: dropped *)
  assert (Htomb : is_tomb x = true).
  { unfold keep_val in Hkeep. apply negb_false_iff, andb_true_iff in Hkeep. tauto. }
  pose proof (absorb_fold_val0 v A k Hv) as Hf. rewrite HF in Hf.
  destruct (fold_left (absorb v) A ∅ !! k) as [e|] eqn:He; [|discriminate]. injection Hf as Hx.
  assert (Hke : d_key e = k) by (eapply fold_keyed; [apply keyed_empty|exact He]).
  destruct (Hsafe e) as [Hs HB].
  { unfold dropped. apply elem_of_list_In, elem_of_list_filter. split.
    - change (keep_delta cutoff e) with (keep_val cutoff (d_val e)). rewrite Hx, Hkeep. done.
    - apply elem_of_list_In. unfold compacted. apply in_compact_out. split; [eauto|apply keep_val_0]. }
  rewrite Hke in Hs.
  assert (Hvb : valsk k B = []).
  { destruct (valsk k B) as [|y r] eqn:E; [done|]. exfalso.
    assert (Hy : In y (valsk k B)) by (rewrite E; by left). apply in_valsk in Hy.
    apply (HB _ Hy). simpl. congruence. }
  (* after: no update of k at all *)
  assert (Hafter : replay us' s !! k = None).
  { rewrite replay_lookup, Hs. destruct (valsk k us') as [|y r] eqn:E; [done|]. exfalso.
    assert (Hy : In y (valsk k us')) by (rewrite E; by left).
    apply in_valsk, Hus', in_app_iff in Hy. rewrite <- !in_valsk, Hvb in Hy.
    destruct Hy as [Hy|[]]. apply (in_valsk_compacted v cutoff A k y Hv) in Hy as [Hy1 Hy2]. congruence. }
  (* before: the tombstone *)
  assert (Hbefore : option_map obs (replay us s !! k) = Some (obs x)).
  { rewrite replay_lookup, Hs.
    transitivity (option_map obs (mfoldo None (valsk k (map upd_of A) ++ []))).
    - apply mfoldo_set_determined.
      + intros y. rewrite in_valsk, Hus, !in_app_iff, <- !in_valsk, Hvb. tauto.
      + pose proof (coh_key s A B Hco k) as Hc. rewrite Hs, Hvb in Hc. simpl in Hc.
        eapply Coh_sub; [|exact Hc]. intros y. rewrite !in_app_iff, in_valsk, Hus, in_app_iff, <- !in_valsk, Hvb.
        simpl. tauto.
    - by rewrite app_nil_r, HF. }
  rewrite !live_lookup, Hafter.
  destruct (replay us s !! k) as [y|]; [|done]. simpl in Hbefore.
  assert (Hy : obs y = obs x) by congruence.
  by rewrite (is_tomb_obs _ _ Hy), Htomb.
Qed.

(* "What a replica serves to clients equals what its replication state says": for every node
   of the cluster model, along every run whose commands and deliveries keep each key to one
   kind (string keys: SET/APPEND/DEL; hash keys: HSET/HDEL), the executor's keyspace is exactly
   the materialisation of the replication state. *)
From stdpp Require Import gmap.
From Coq Require Import NArith Lia.
From RV Require Import Lib.Hex Model.Crdt Proofs.CrdtProofs Model.ShardState
  Proofs.ShardStateProofs Model.Cluster Proofs.ClusterProofs.
Local Open Scope N_scope.

(* a live register carries a value *)
Definition reg_ok (r : lww) : Prop := lw_tomb r = false → ∃ v, lw_val r = Some v.
Definition hash_ok (h : gmap (list N) lww) : Prop := map_Forall (λ _ r, reg_ok r) h.

(* what the executor should hold for a key, given its replicated value *)
Definition mat (o : option rvalue) : option xval :=
  match o with
  | Some m =>
      match rv_crdt m with
      | CLww r => match lww_get r with Some v => Some (XStr v) | None => None end
      | CHash h => if bool_decide (live_fields h = ∅) then None else Some (XHash (live_fields h))
      | _ => None
      end
  | None => None
  end.

Lemma serve_of_mat n k :
  n_x n !! k = mat (sh_keys (n_sh n) !! k) → serve n k = state_says n k.
Proof.
  unfold serve, state_says, mat. intros ->.
  destruct (sh_keys (n_sh n) !! k) as [m|]; [|done].
  destruct (rv_crdt m) as [r| | | | |h]; try done.
  - by destruct (lww_get r).
  - by destruct (bool_decide _).
Qed.

(* ---------- live fields under local hash operations ---------- *)
Lemma live_insert_live h f x st :
  live_fields (<[ f := Lww (Some x) st false ]> h) = <[ f := x ]> (live_fields h).
Proof. unfold live_fields. by rewrite (omap_insert_Some _ _ _ _ x). Qed.

Lemma live_insert_tomb h f st :
  live_fields (<[ f := Lww None st true ]> h) = delete f (live_fields h).
Proof. unfold live_fields. by rewrite omap_insert_None. Qed.

Lemma live_lookup h f :
  live_fields h !! f = match h !! f with Some r => lww_get r | None => None end.
Proof. unfold live_fields. rewrite lookup_omap. by destruct (h !! f). Qed.

Lemma hset_all_cons h f x fs : hset_all h ((f, x) :: fs) = hset_all (<[ f := x ]> h) fs.
Proof. done. Qed.
Lemma hdel_all_cons h f fs : hdel_all h (f :: fs) = hdel_all (delete f h) fs.
Proof. done. Qed.

Lemma hash_ok_insert h f r : hash_ok h → reg_ok r → hash_ok (<[ f := r ]> h).
Proof. intros H Hr. by apply map_Forall_insert_2. Qed.

Lemma hash_set_all_live fs : ∀ s v h,
  rv_crdt v = CHash h → hash_ok h →
  ∃ h', rv_crdt (hash_set_all s v fs).2 = CHash h' ∧ hash_ok h' ∧
        live_fields h' = hset_all (live_fields h) fs.
Proof.
  induction fs as [|[f x] fs IH]; intros s v h Hc Hok.
  - rewrite hash_set_all_nil. exists h. done.
  - rewrite hash_set_all_cons, hset_all_cons. rewrite Hc. cbn [as_hash].
    destruct (IH (tick s) (RV (CHash (<[f:=Lww (Some x) (now (tick s)) false]> h)) (rv_vc v) (rv_exp v) (now (tick s)) (rv_rf v))
                 (<[f:=Lww (Some x) (now (tick s)) false]> h) eq_refl) as (h' & A & B & C).
    { apply hash_ok_insert; [done|]. intros _. by exists x. }
    exists h'. rewrite live_insert_live in C. done.
Qed.

Lemma hash_delete_all_live fs : ∀ s v h,
  rv_crdt v = CHash h → hash_ok h →
  ∃ h', rv_crdt (hash_delete_all s v fs).2 = CHash h' ∧ hash_ok h' ∧
        live_fields h' = hdel_all (live_fields h) fs.
Proof.
  induction fs as [|f fs IH]; intros s v h Hc Hok.
  - rewrite hash_delete_all_nil. exists h. done.
  - rewrite hash_delete_all_cons, hdel_all_cons. unfold rv_hash_delete. rewrite Hc.
    destruct (h !! f) as [r0|] eqn:Hf; cbn [fst snd].
    + destruct (IH (tick s) (RV (CHash (<[f:=Lww None (now (tick s)) true]> h)) (rv_vc v) (rv_exp v) (now (tick s)) (rv_rf v))
                   (<[f:=Lww None (now (tick s)) true]> h) eq_refl) as (h' & A & B & C).
      { apply hash_ok_insert; [done|]. intros Ht. discriminate Ht. }
      exists h'. rewrite live_insert_tomb in C. done.
    + destruct (IH s (RV (CHash h) (rv_vc v) (rv_exp v) (now s) (rv_rf v)) h eq_refl Hok) as (h' & A & B & C).
      exists h'. split; [done|]. split; [done|]. rewrite C. f_equal.
      symmetry. apply delete_notin. by rewrite live_lookup, Hf.
Qed.

Lemma hset_all_nonempty fs : ∀ h, fs ≠ [] → hset_all h fs ≠ ∅.
Proof.
  assert (G : ∀ fs h, h ≠ ∅ → hset_all h fs ≠ ∅).
  { clear. induction fs as [|[f x] fs IH]; intros h Hh; [done|]. rewrite hset_all_cons. apply IH.
    apply insert_non_empty. }
  intros h Hne. destruct fs as [|[f x] fs]; [done|]. rewrite hset_all_cons. apply G. apply insert_non_empty.
Qed.

(* ---------- materialising a merged hash ---------- *)
Lemma hdel_all_lookup fs : ∀ (h : gmap (list N) (list N)) f,
  hdel_all h fs !! f = if bool_decide (f ∈ fs) then None else h !! f.
Proof.
  induction fs as [|g fs IH]; intros h f.
  - by rewrite bool_decide_eq_false_2 by set_solver.
  - rewrite hdel_all_cons, IH. destruct (decide (f = g)) as [->|Hne].
    + rewrite (bool_decide_eq_true_2 (g ∈ g :: fs)) by set_solver.
      destruct (bool_decide (g ∈ fs)); [done|]. by rewrite lookup_delete.
    + rewrite lookup_delete_ne by done.
      destruct (decide (f ∈ fs)) as [Hin|Hni].
      * rewrite !bool_decide_eq_true_2 by set_solver. done.
      * rewrite !bool_decide_eq_false_2 by set_solver. done.
Qed.

Lemma tomb_fields_spec h f : f ∈ tomb_fields h ↔ ∃ r, h !! f = Some r ∧ lw_tomb r = true.
Proof.
  unfold tomb_fields. rewrite elem_of_list_fmap. split.
  - intros ([f' r] & -> & Hin). apply elem_of_list_filter in Hin as [Ht Hin].
    apply elem_of_map_to_list in Hin. simpl in *. eauto.
  - intros (r & Hf & Ht). exists (f, r). split; [done|].
    apply elem_of_list_filter. split; [done|]. by apply elem_of_map_to_list.
Qed.

(* old live fields all occur in the merged hash; then "HSET live, HDEL tombstones" leaves
   exactly the live fields of the merged hash *)
Lemma materialise_hash_result (h : gmap (list N) lww) (h0 : gmap (list N) (list N)) :
  hash_ok h → (∀ f, is_Some (h0 !! f) → is_Some (h !! f)) →
  hdel_all (live_fields h ∪ h0) (tomb_fields h) = live_fields h.
Proof.
  intros Hok Hdom. apply map_eq; intros f. rewrite hdel_all_lookup, live_lookup.
  destruct (h !! f) as [r|] eqn:Hf.
  - destruct (lw_tomb r) eqn:Ht.
    + rewrite bool_decide_eq_true_2 by (apply tomb_fields_spec; eauto).
      unfold lww_get. by rewrite Ht.
    + rewrite bool_decide_eq_false_2.
      2:{ rewrite tomb_fields_spec. intros (r' & Hr' & Ht'). congruence. }
      destruct (Hok f r Hf Ht) as [v Hv].
      rewrite lookup_union_l'; rewrite live_lookup, Hf; unfold lww_get; rewrite Ht, Hv; done.
  - rewrite bool_decide_eq_false_2.
    2:{ rewrite tomb_fields_spec. intros (r' & Hr' & _). congruence. }
    rewrite lookup_union_r by (by rewrite live_lookup, Hf).
    destruct (h0 !! f) eqn:H0; [|done]. destruct (Hdom f) as [? ?]; [eauto|congruence].
Qed.

Lemma hash_merge_dom a b f : is_Some (a !! f) → is_Some (hash_merge a b !! f).
Proof.
  intros [r Hr]. unfold hash_merge. rewrite lookup_union_with, Hr. destruct (b !! f); simpl; eauto.
Qed.

Lemma hash_merge_ok a b : hash_ok a → hash_ok b → hash_ok (hash_merge a b).
Proof.
  intros Ha Hb f r Hr. unfold hash_merge in Hr.
  apply lookup_union_with_Some in Hr as [[H _]|[[_ H]|(x&y&Hx&Hy&Hxy)]].
  - by apply (Ha f).
  - by apply (Hb f).
  - injection Hxy as <-. unfold lww_merge. destruct (stamp_ltb _ _); [by apply (Hb f)|by apply (Ha f)].
Qed.

(* ---------- the executor touches only the command's key ---------- *)
Definition ckey (c : ccmd) : list N :=
  match c with CSet k _ _ _ | CDel k | CAppend k _ | CHSet k _ | CHDel k _ => k end.

Lemma xexec_other x c k : k ≠ ckey c → (xexec x c).1 !! k = x !! k.
Proof.
  intros Hne. destruct c as [k' v nx xx|k'|k' v|k' fs|k' fs]; simpl in *.
  - destruct (nx && _); [done|]. destruct (xx && _); [done|]. simpl. by rewrite lookup_insert_ne.
  - destruct (x !! k'); simpl; [by rewrite lookup_delete_ne|done].
  - destruct (x !! k') as [[s|h]|]; simpl; rewrite ?lookup_insert_ne; done.
  - destruct (x !! k') as [[s|h]|]; simpl; rewrite ?lookup_insert_ne; done.
  - destruct (x !! k') as [[s|h]|]; simpl; try done.
    destruct (bool_decide _); simpl; [by rewrite lookup_delete_ne|by rewrite lookup_insert_ne].
Qed.

(* ---------- the invariant ---------- *)
Section serve.
  Context (K : list N → N).

  Definition val_ok (k : list N) (m : rvalue) : Prop :=
    (K k = 0 ∧ ∃ r, rv_crdt m = CLww r ∧ reg_ok r) ∨
    (K k = 5 ∧ ∃ h, rv_crdt m = CHash h ∧ hash_ok h).

  Definition SInv (n : node) : Prop :=
    ∀ k, n_x n !! k = mat (sh_keys (n_sh n) !! k) ∧
         ∀ m, sh_keys (n_sh n) !! k = Some m → val_ok k m.

  Definition cmd_ok (c : ccmd) : Prop :=
    match c with
    | CSet k _ _ _ | CAppend k _ | CDel k => K k = 0
    | CHSet k fs => K k = 5 ∧ fs ≠ []
    | CHDel k _ => K k = 5
    end.

  Lemma SInv_init rid : SInv (node_init rid).
  Proof. intros k. unfold node_init, shard_init; simpl. rewrite !lookup_empty. split; [done|]. intros m [=]. Qed.

  (* the state after a write of a string *)
  Lemma step_write_key s k v :
    ∃ d, (step s (EWrite k v None)).2 = Some d ∧
         sh_keys (step s (EWrite k v None)).1 !! k = Some d ∧
         rv_crdt d = CLww (Lww (Some v) (now (tick s)) false).
  Proof.
    cbn [step]. unfold rv_set. cbn [fst snd]. eexists. split; [reflexivity|]. split.
    - unfold put, set_keys; simpl. by rewrite lookup_insert.
    - done.
  Qed.

  Lemma node_exec_serve n c n1 r od :
    SInv n → cmd_ok c → node_exec n c = (n1, r, od) →
    SInv n1 ∧ (∀ k d, od = Some (k, d) → val_ok k d).
  Proof.
    intros HS Hc Hex. unfold node_exec in Hex.
    destruct (xexec (n_x n) c) as [x1 r1] eqn:Hx.
    assert (Hoth : ∀ k, k ≠ ckey c → x1 !! k = n_x n !! k).
    { intros k Hk. pose proof (xexec_other (n_x n) c k Hk) as H. by rewrite Hx in H. }
    destruct (HS (ckey c)) as [Hcur Hkind].
    (* a small tactic-free helper: conclude for a node whose state came from one event *)
    assert (Fin : ∀ e s1 od1 b, ev_key e = ckey c → step (n_sh n) e = (s1, od1) →
                 x1 !! ckey c = mat (sh_keys s1 !! ckey c) →
                 (∀ m, sh_keys s1 !! ckey c = Some m → val_ok (ckey c) m) →
                 SInv (Node x1 s1 b (n_glue_fail n))).
    { intros e s1 od1 b Hek Hst Hm Hv k. simpl. destruct (decide (k = ckey c)) as [->|Hne].
      - done.
      - rewrite (Hoth k Hne). rewrite (step_other_keys _ _ _ _ k Hst) by congruence. apply HS. }
    destruct c as [k v nx xx|k|k v|k fs|k fs]; simpl in Hc, Hx, Hcur, Hkind; cbn [ckey] in *.
    - (* SET *)
      destruct (nx && bool_decide (is_Some (n_x n !! k))) eqn:E1.
      { injection Hx as <- <-. simpl in Hex. inversion Hex; subst. split; [exact HS|intros ? ? [=]]. }
      destruct (xx && negb (bool_decide (is_Some (n_x n !! k)))) eqn:E2.
      { injection Hx as <- <-. simpl in Hex. inversion Hex; subst. split; [exact HS|intros ? ? [=]]. }
      injection Hx as <- <-. cbn [record_post] in Hex. rewrite bool_decide_eq_true_2 in Hex by done.
      destruct (step_write_key (n_sh n) k v) as (d & Hd1 & Hd2 & Hd3).
      destruct (step (n_sh n) (EWrite k v None)) as [s1 od1] eqn:Hst. cbn [fst snd] in *. subst od1.
      inversion Hex; subst. cbn [ev_key].
      assert (Hvok : val_ok k d).
      { left. split; [done|]. eexists. split; [exact Hd3|]. intros _. by exists v. }
      split; [|intros k' d' [= <- <-]; exact Hvok].
      apply (Fin (EWrite k v None) s1 (Some d) _ eq_refl Hst).
      + rewrite lookup_insert, Hd2. unfold mat. by rewrite Hd3.
      + intros m Hm. rewrite Hd2 in Hm. by injection Hm as <-.
    - (* DEL *)
      assert (Hrec : ∀ x' r', r' ≠ XErr → record_post x' (CDel k) r' = Some (EDelete k)).
      { intros x' r' Hr. unfold record_post. by destruct r'. }
      destruct (sh_keys (n_sh n) !! k) as [m|] eqn:Hm.
      + destruct (Hkind m eq_refl) as [(_ & r0 & Hr0 & Hok)|(HK & _)]; [|congruence].
        assert (Hstep : step (n_sh n) (EDelete k) =
                        (put (tick (n_sh n)) k (RV (CLww (Lww None (now (tick (n_sh n))) true)) (rv_vc m) (rv_exp m) (now (tick (n_sh n))) (rv_rf m)),
                         Some (RV (CLww (Lww None (now (tick (n_sh n))) true)) (rv_vc m) (rv_exp m) (now (tick (n_sh n))) (rv_rf m)))).
        { cbn [step]. rewrite Hm. unfold rv_delete. by rewrite Hr0. }
        set (d := RV _ _ _ _ _) in Hstep.
        assert (Hvok : val_ok k d).
        { left. split; [done|]. eexists. split; [done|]. intros Ht. discriminate Ht. }
        destruct (n_x n !! k) as [xv|] eqn:Hxk; injection Hx as <- <-;
          rewrite Hrec in Hex by done; rewrite Hstep in Hex; inversion Hex; subst; cbn [ev_key];
          (split; [|intros k' d' [= <- <-]; exact Hvok]);
          apply (Fin (EDelete k) _ (Some d) _ eq_refl Hstep).
        * rewrite lookup_delete. unfold put, set_keys; simpl. by rewrite lookup_insert.
        * unfold put, set_keys; simpl. rewrite lookup_insert. intros m' [= <-]. exact Hvok.
        * rewrite Hxk. unfold put, set_keys; simpl. by rewrite lookup_insert.
        * unfold put, set_keys; simpl. rewrite lookup_insert. intros m' [= <-]. exact Hvok.
      + assert (Hstep : step (n_sh n) (EDelete k) = (n_sh n, None)) by (cbn [step]; by rewrite Hm).
        simpl in Hcur. rewrite Hcur in Hx. injection Hx as <- <-.
        rewrite Hrec in Hex by done. rewrite Hstep in Hex. inversion Hex; subst.
        split; [|intros ? ? [=]]. intros k'. apply HS.
    - (* APPEND *)
      assert (Hnothash : ∀ h, n_x n !! k ≠ Some (XHash h)).
      { intros h Hh. rewrite Hh in Hcur. unfold mat in Hcur.
        destruct (sh_keys (n_sh n) !! k) as [m|] eqn:Hm; [|done].
        destruct (Hkind m eq_refl) as [(_ & r0 & Hr0 & _)|(HK & _)]; [|congruence].
        rewrite Hr0 in Hcur. by destruct (lww_get r0). }
      assert (Happ : ∃ w, x1 = <[ k := XStr w ]> (n_x n) ∧ r1 ≠ XErr ∧ record_post x1 (CAppend k v) r1 = Some (EWrite k w None)).
      { destruct (n_x n !! k) as [[s0|h0]|] eqn:Hxk.
        - injection Hx as <- <-. exists (s0 ++ v). split; [done|]. split; [done|].
          unfold record_post. by rewrite lookup_insert.
        - by destruct (Hnothash h0).
        - injection Hx as <- <-. exists v. split; [done|]. split; [done|].
          unfold record_post. by rewrite lookup_insert. }
      destruct Happ as (w & -> & _ & Hrec). rewrite Hrec in Hex.
      destruct (step_write_key (n_sh n) k w) as (d & Hd1 & Hd2 & Hd3).
      destruct (step (n_sh n) (EWrite k w None)) as [s1 od1] eqn:Hst. cbn [fst snd] in *. subst od1.
      inversion Hex; subst. cbn [ev_key].
      assert (Hvok : val_ok k d).
      { left. split; [done|]. eexists. split; [exact Hd3|]. intros _. by exists w. }
      split; [|intros k' d' [= <- <-]; exact Hvok].
      apply (Fin (EWrite k w None) s1 (Some d) _ eq_refl Hst).
      + rewrite lookup_insert, Hd2. unfold mat. by rewrite Hd3.
      + intros m Hm. rewrite Hd2 in Hm. by injection Hm as <-.
    - (* HSET *)
      destruct Hc as [HK Hne].
      (* the hash the replication state holds for k (empty if none) *)
      set (h0 := match sh_keys (n_sh n) !! k with Some m => as_hash (rv_crdt m) | None => ∅ end).
      assert (Hh0 : hash_ok h0 ∧ (∀ m, sh_keys (n_sh n) !! k = Some m → rv_crdt m = CHash h0)).
      { unfold h0. destruct (sh_keys (n_sh n) !! k) as [m|] eqn:Hm.
        - destruct (Hkind m eq_refl) as [(HK' & _)|(_ & h & Hh & Hok)]; [congruence|].
          rewrite Hh. simpl. split; [done|]. intros m' [= <-]. done.
        - split; [apply map_Forall_empty|intros ? [=]]. }
      destruct Hh0 as [Hok0 Hcr0].
      assert (Hcur' : n_x n !! k = if bool_decide (live_fields h0 = ∅) then None else Some (XHash (live_fields h0))).
      { rewrite Hcur. unfold mat, h0. destruct (sh_keys (n_sh n) !! k) as [m|] eqn:Hm.
        - rewrite (Hcr0 m eq_refl). simpl. done.
        - unfold live_fields. rewrite omap_empty. by rewrite bool_decide_eq_true_2. }
      assert (Hx1 : x1 = <[ k := XHash (hset_all (live_fields h0) fs) ]> (n_x n) ∧ r1 ≠ XErr).
      { rewrite Hcur' in Hx. destruct (bool_decide (live_fields h0 = ∅)) eqn:Eb.
        - apply bool_decide_eq_true in Eb. rewrite Eb. by injection Hx as <- <-.
        - by injection Hx as <- <-. }
      destruct Hx1 as [-> Hr1].
      assert (Hrec : record_post (<[k:=XHash (hset_all (live_fields h0) fs)]> (n_x n)) (CHSet k fs) r1 = Some (EHSet k fs)).
      { unfold record_post. by destruct r1. }
      rewrite Hrec in Hex.
      (* the shard step *)
      set (v0 := match sh_keys (n_sh n) !! k with Some v => v | None => RV (CHash ∅) None None (Stamp 0 (sh_rid (n_sh n))) None end).
      assert (Hv0 : rv_crdt v0 = CHash h0).
      { unfold v0, h0. destruct (sh_keys (n_sh n) !! k) as [m|] eqn:Hm; [|done]. rewrite (Hcr0 m eq_refl). done. }
      destruct (hash_set_all_live fs (n_sh n) v0 h0 Hv0 Hok0) as (h' & A & B & C).
      assert (Hstep : step (n_sh n) (EHSet k fs) =
                      (put (hash_set_all (n_sh n) v0 fs).1 k (hash_set_all (n_sh n) v0 fs).2, Some (hash_set_all (n_sh n) v0 fs).2)).
      { cbn [step]. fold v0. by destruct (hash_set_all (n_sh n) v0 fs). }
      rewrite Hstep in Hex. inversion Hex; subst. cbn [ev_key].
      assert (Hvok : val_ok k (hash_set_all (n_sh n) v0 fs).2).
      { right. split; [done|]. exists h'. done. }
      split; [|intros k' d' [= <- <-]; exact Hvok].
      apply (Fin (EHSet k fs) _ _ _ eq_refl Hstep).
      + rewrite lookup_insert. unfold put, set_keys; simpl. rewrite lookup_insert. unfold mat. rewrite A, C.
        rewrite bool_decide_eq_false_2; [done|]. by apply hset_all_nonempty.
      + unfold put, set_keys; simpl. rewrite lookup_insert. intros m' [= <-]. exact Hvok.
    - (* HDEL *)
      rename Hc into HK.
      destruct (sh_keys (n_sh n) !! k) as [m|] eqn:Hm.
      + destruct (Hkind m eq_refl) as [(HK' & _)|(_ & h0 & Hh0 & Hok0)]; [congruence|].
        assert (Hcur' : n_x n !! k = if bool_decide (live_fields h0 = ∅) then None else Some (XHash (live_fields h0))).
        { rewrite Hcur. unfold mat. by rewrite Hh0. }
        destruct (hash_delete_all_live fs (n_sh n) m h0 Hh0 Hok0) as (h' & A & B & C).
        assert (Hstep : step (n_sh n) (EHDel k fs) =
                        (put (hash_delete_all (n_sh n) m fs).1 k (hash_delete_all (n_sh n) m fs).2, Some (hash_delete_all (n_sh n) m fs).2)).
        { cbn [step]. rewrite Hm, Hh0. by destruct (hash_delete_all (n_sh n) m fs). }
        assert (Hvok : val_ok k (hash_delete_all (n_sh n) m fs).2).
        { right. split; [done|]. exists h'. done. }
        assert (Hx1 : x1 !! k = (if bool_decide (hdel_all (live_fields h0) fs = ∅) then None else Some (XHash (hdel_all (live_fields h0) fs))) ∧ r1 ≠ XErr).
        { rewrite Hcur' in Hx. destruct (bool_decide (live_fields h0 = ∅)) eqn:Eb.
          - apply bool_decide_eq_true in Eb. injection Hx as <- <-. rewrite Hcur', Eb.
            assert (E : hdel_all (∅ : gmap (list N) (list N)) fs = ∅).
            { clear. induction fs as [|f fs IH]; [done|]. rewrite hdel_all_cons, delete_empty. exact IH. }
            rewrite E. rewrite !bool_decide_eq_true_2 by done. done.
          - destruct (bool_decide (hdel_all (live_fields h0) fs = ∅)) eqn:Ed; injection Hx as <- <-.
            + by rewrite lookup_delete.
            + by rewrite lookup_insert. }
        destruct Hx1 as [Hx1 Hr1].
        assert (Hrec : record_post x1 (CHDel k fs) r1 = Some (EHDel k fs)).
        { unfold record_post. by destruct r1. }
        rewrite Hrec, Hstep in Hex. inversion Hex; subst. cbn [ev_key].
        split; [|intros k' d' [= <- <-]; exact Hvok].
        apply (Fin (EHDel k fs) _ _ _ eq_refl Hstep).
        * rewrite Hx1. unfold put, set_keys; simpl. rewrite lookup_insert. unfold mat. by rewrite A, C.
        * unfold put, set_keys; simpl. rewrite lookup_insert. intros m' [= <-]. exact Hvok.
      + assert (Hstep : step (n_sh n) (EHDel k fs) = (n_sh n, None)) by (cbn [step]; by rewrite Hm).
        simpl in Hcur. rewrite Hcur in Hx. injection Hx as <- <-.
        assert (Hrec : record_post (n_x n) (CHDel k fs) (XInt 0) = Some (EHDel k fs)) by done.
        rewrite Hrec, Hstep in Hex. inversion Hex; subst.
        split; [|intros ? ? [=]]. intros k'. apply HS.
  Qed.

  (* ---------- delivery ---------- *)
  Lemma node_deliver_serve n k d :
    SInv n → val_ok k d → SInv (node_deliver n k d) ∧ n_glue_fail (node_deliver n k d) = n_glue_fail n.
  Proof.
    intros HS Hd. destruct (HS k) as [Hcur Hkind].
    unfold node_deliver.
    assert (Hstep : step (n_sh n) (ERemote k d) =
       (put (clock_update (n_sh n) (rv_ts d)) k (match sh_keys (n_sh n) !! k with Some l => rv_merge l d | None => d end), None)).
    { cbn [step]. do 2 f_equal. unfold clock_update. destruct (_ =? _); done. }
    rewrite Hstep.
    set (m := match sh_keys (n_sh n) !! k with Some l => rv_merge l d | None => d end).
    set (s1 := put (clock_update (n_sh n) (rv_ts d)) k m).
    assert (Hk1 : sh_keys s1 !! k = Some m) by (unfold s1, put, set_keys; simpl; by rewrite lookup_insert).
    rewrite Hk1.
    assert (Hoth : ∀ k', k' ≠ k → sh_keys s1 !! k' = sh_keys (n_sh n) !! k').
    { intros k' Hne. apply (step_other_keys _ _ _ _ k' Hstep). simpl. done. }
    (* the merged value is of the key's kind *)
    assert (Hm : val_ok k m ∧
      ((K k = 0 ∧ ∃ r, rv_crdt m = CLww r) ∨
       (K k = 5 ∧ ∃ h, rv_crdt m = CHash h ∧ hash_ok h ∧
          ∀ f, is_Some ((match n_x n !! k with Some (XHash g) => g | _ => ∅ end) !! f) → is_Some (h !! f)))).
    { unfold m. destruct (sh_keys (n_sh n) !! k) as [l|] eqn:Hl.
      - destruct (Hkind l eq_refl) as [(HK & r0 & Hr0 & Hok0)|(HK & h0 & Hh0 & Hok0)];
        destruct Hd as [(HK' & rd & Hrd & Hokd)|(HK' & hd & Hhd & Hokd)]; try congruence.
        + assert (E : rv_crdt (rv_merge l d) = CLww (lww_merge r0 rd)).
          { unfold rv_merge, merge_with_ts; simpl. by rewrite Hr0, Hrd. }
          split.
          * left. split; [done|]. eexists. split; [exact E|]. unfold lww_merge. by destruct (stamp_ltb _ _).
          * left. split; [done|]. eauto.
        + assert (E : rv_crdt (rv_merge l d) = CHash (hash_merge h0 hd)).
          { unfold rv_merge, merge_with_ts; simpl. by rewrite Hh0, Hhd. }
          split.
          * right. split; [done|]. eexists. split; [exact E|]. by apply hash_merge_ok.
          * right. split; [done|]. eexists. split; [exact E|]. split; [by apply hash_merge_ok|].
            intros f Hf. apply hash_merge_dom.
            rewrite Hcur in Hf. unfold mat in Hf. rewrite Hh0 in Hf.
            destruct (bool_decide (live_fields h0 = ∅)); [by rewrite lookup_empty in Hf; destruct Hf|].
            rewrite live_lookup in Hf. destruct (h0 !! f); [eauto|by destruct Hf].
      - split; [exact Hd|]. destruct Hd as [(HK' & rd & Hrd & Hokd)|(HK' & hd & Hhd & Hokd)].
        + left. split; [done|]. eauto.
        + right. split; [done|]. exists hd. split; [done|]. split; [done|].
          intros f Hf. simpl in Hcur. rewrite Hcur in Hf. rewrite lookup_empty in Hf. by destruct Hf. }
    destruct Hm as [Hvok Hshape].
    (* the materialised executor *)
    assert (Hmat : (materialise (n_x n) k m).1 !! k = mat (Some m) ∧ (materialise (n_x n) k m).2 = false ∧
                   ∀ k', k' ≠ k → (materialise (n_x n) k m).1 !! k' = n_x n !! k').
    { unfold materialise, mat. destruct Hshape as [(HK & r & Hr)|(HK & h & Hh & Hok & Hdom)].
      - rewrite Hr. destruct (lww_get r) as [v|] eqn:Hg; simpl.
        + split; [by rewrite lookup_insert|]. split; [done|]. intros k' Hne. by rewrite lookup_insert_ne.
        + destruct Hvok as [(_ & r' & Hr' & Hok')|(HK' & _)]; [|congruence].
          rewrite Hr in Hr'. injection Hr' as <-.
          assert (Ht : lw_tomb r = true).
          { destruct (lw_tomb r) eqn:Ht; [done|]. destruct (Hok' Ht) as [v Hv]. unfold lww_get in Hg. rewrite Ht, Hv in Hg. discriminate. }
          rewrite Ht. simpl. split; [by rewrite lookup_delete|]. split; [done|]. intros k' Hne. by rewrite lookup_delete_ne.
      - rewrite Hh.
        assert (Hnostr : ∀ s0, n_x n !! k ≠ Some (XStr s0)).
        { intros s0 Hs. rewrite Hs in Hcur. unfold mat in Hcur.
          destruct (sh_keys (n_sh n) !! k) as [l|] eqn:Hl; [|done].
          destruct (Hkind l eq_refl) as [(HK' & _)|(_ & h0 & Hh0 & _)]; [congruence|].
          rewrite Hh0 in Hcur. by destruct (bool_decide _). }
        destruct (n_x n !! k) as [[s0|g]|] eqn:Hxk; [by destruct (Hnostr s0)| |].
        + (* an existing executor hash g *)
          assert (Hres : hdel_all (if bool_decide (live_fields h = ∅) then g else live_fields h ∪ g) (tomb_fields h) = live_fields h).
          { destruct (bool_decide (live_fields h = ∅)) eqn:Eb.
            - apply bool_decide_eq_true in Eb. rewrite <- (materialise_hash_result h g Hok Hdom). rewrite Eb. by rewrite (left_id ∅ (∪)).
            - by apply materialise_hash_result. }
          rewrite Hres. rewrite andb_false_r. cbn [fst snd].
          destruct (bool_decide (live_fields h = ∅)) eqn:Eb; simpl.
          * split; [by rewrite lookup_delete|]. split; [done|]. intros k' Hne. by rewrite lookup_delete_ne.
          * split; [by rewrite lookup_insert|]. split; [done|]. intros k' Hne. by rewrite lookup_insert_ne.
        + (* no executor entry *)
          assert (Hres : hdel_all (if bool_decide (live_fields h = ∅) then ∅ else live_fields h ∪ ∅) (tomb_fields h) = live_fields h).
          { destruct (bool_decide (live_fields h = ∅)) eqn:Eb.
            - apply bool_decide_eq_true in Eb. rewrite <- (materialise_hash_result h ∅ Hok Hdom). rewrite Eb. by rewrite (left_id ∅ (∪)).
            - by apply materialise_hash_result. }
          rewrite Hres.
          destruct (bool_decide (live_fields h = ∅)) eqn:Eb; simpl.
          * split; [exact Hxk|]. split; [done|]. done.
          * split; [by rewrite lookup_insert|]. split; [done|]. intros k' Hne. by rewrite lookup_insert_ne. }
    destruct Hmat as (M1 & M2 & M3).
    destruct (materialise (n_x n) k m) as [x1 bad]. cbn [fst snd] in *. subst bad.
    split; [|simpl; by rewrite orb_false_r].
    intros k'. cbn [n_x n_sh]. destruct (decide (k' = k)) as [->|Hne].
    - rewrite Hk1. split; [exact M1|]. intros m' [= <-]. exact Hvok.
    - rewrite (M3 k' Hne), (Hoth k' Hne). apply HS.
  Qed.
End serve.

(* ---------- the cluster: closed system ---------- *)
Section cluster_serve.
  Context (K : list N → N).

  (* a run in which every client command keeps its key to the key's kind and every delivered
     delta was emitted earlier (by any node) for that key *)
  Fixpoint valid_run (c : list node) (log : list (nat * list N * rvalue)) (evs : list cev) : Prop :=
    match evs with
    | [] => True
    | e :: r =>
        match e with
        | CClient _ cmd => cmd_ok K cmd
        | CDeliver _ k d => ∃ o, In (o, k, d) log
        end ∧ valid_run (cstep c log e).1 (cstep c log e).2 r
    end.

  Definition CInv (c : list node) (log : list (nat * list N * rvalue)) : Prop :=
    (∀ i n, c !! i = Some n → SInv K n ∧ n_glue_fail n = false) ∧
    (∀ o k d, In (o, k, d) log → val_ok K k d).

  Lemma cstep_cinv c log e :
    CInv c log →
    match e with CClient _ cmd => cmd_ok K cmd | CDeliver _ k d => ∃ o, In (o, k, d) log end →
    CInv (cstep c log e).1 (cstep c log e).2.
  Proof.
    intros [Hn Hl] He. destruct e as [j cmd|j k d]; simpl.
    - destruct (c !! j) as [n|] eqn:Hj; [|by split].
      destruct (node_exec n cmd) as [[n1 r] od] eqn:Hx.
      destruct (Hn j n Hj) as [HS Hg].
      destruct (node_exec_serve K n cmd n1 r od HS He Hx) as [HS1 Hod].
      assert (Hg1 : n_glue_fail n1 = false).
      { unfold node_exec in Hx. destruct (xexec _ _) as [x1 r1]. destruct (record_post _ _ _) as [e|].
        - destruct (step _ _) as [s1 [d|]]; inversion Hx; subst; done.
        - inversion Hx; subst; done. }
      split.
      + intros i n' Hi. cbn [fst snd] in Hi. destruct (decide (i = j)) as [->|Hne].
        * rewrite list_lookup_insert in Hi by (by eapply lookup_lt_Some). by injection Hi as <-.
        * rewrite list_lookup_insert_ne in Hi by done. by apply (Hn i).
      + cbn [fst snd]. destruct od as [[k d]|]; [|exact Hl]. intros o k' d' Hin. apply in_app_or in Hin as [Hin|[Hin|[]]].
        * by apply (Hl o).
        * injection Hin as <- <- <-. by apply Hod.
    - destruct (c !! j) as [n|] eqn:Hj; [|by split].
      destruct (Hn j n Hj) as [HS Hg]. destruct He as [o Ho].
      destruct (node_deliver_serve K n k d HS (Hl o k d Ho)) as [HS1 Hg1].
      split; [|exact Hl].
      intros i n' Hi. cbn [fst snd] in Hi. destruct (decide (i = j)) as [->|Hne].
      + rewrite list_lookup_insert in Hi by (by eapply lookup_lt_Some). injection Hi as <-. split; [done|congruence].
      + rewrite list_lookup_insert_ne in Hi by done. by apply (Hn i).
  Qed.

  Lemma crun_cinv evs : ∀ c log, CInv c log → valid_run c log evs →
    CInv (crun c log evs).1 (crun c log evs).2.
  Proof.
    induction evs as [|e evs IH]; intros c log HI Hv; simpl; [done|].
    destruct Hv as [He Hv]. pose proof (cstep_cinv c log e HI He) as H1.
    destruct (cstep c log e) as [c1 l1]. simpl in *. by apply IH.
  Qed.

  Lemma CInv_init n : CInv (cluster_init n) [].
  Proof.
    split; [|intros ? ? ? []].
    intros i n0. unfold cluster_init. rewrite list_lookup_fmap. destruct (seq 0 n !! i); simpl; [|done].
    intros [= <-]. split; [apply SInv_init|done].
  Qed.

  (* Along every valid run of the cluster, at every node and for every key: what the node
     serves is what its replication state says, the executor never refused a remote hash, and
     every emitted delta is of its key's kind. *)
  Theorem serve_eq_state_lemma n evs :
    valid_run (cluster_init n) [] evs →
    let c := (crun (cluster_init n) [] evs).1 in
    ∀ i ni, c !! i = Some ni →
      (∀ k, serve ni k = state_says ni k) ∧ n_glue_fail ni = false.
  Proof.
    intros Hv c i ni Hi.
    destruct (crun_cinv evs _ _ (CInv_init n) Hv) as [Hn _].
    destruct (Hn i ni Hi) as [HS Hg]. split; [|done].
    intros k. apply serve_of_mat. apply HS.
  Qed.
End cluster_serve.

(* non-vacuity: a valid run with string and hash keys *)
Definition ex_K (k : list N) : N := if bool_decide (k = [104]) then 5 else 0.
Definition ex_serve_evs : list cev :=
  [CClient 0 (CSet [115] [97] false false); CClient 1 (CHSet [104] [([102], [118])]);
   CClient 0 (CAppend [115] [98]); CClient 1 (CHDel [104] [[102]]); CClient 2 (CDel [115])].
Lemma ex_serve_valid : valid_run ex_K (cluster_init 3) [] ex_serve_evs.
Proof. vm_compute. repeat split; done. Qed.

(* Lemmas about Model/Wal.v.  Everything is proved for an arbitrary checksum function. *)
From Coq Require Import String Ascii Arith NArith List Bool Lia Permutation Sorted RelationClasses.
From RV Require Import Lib.Hex Lib.Bytes Gen.Consts Model.Wal.
Import ListNotations.
Local Open Scope N_scope.

(* the constants the proofs rely on; if wal.rs changes them these lemmas stop compiling *)
Lemma overhead_16 : WAL_ENTRY_OVERHEAD = 16. Proof. reflexivity. Qed.
Lemma header_16 : WAL_HEADER_SIZE = 16. Proof. reflexivity. Qed.
Lemma magic_len : lenN WAL_MAGIC = 4. Proof. reflexivity. Qed.

Definition U32 : N := 4294967296.
Definition U64 : N := 18446744073709551616.

Section WalProofs.
  Variable crc : bytes -> N.

  Definition wf_entry (e : entry) : Prop :=
    e_crc e = crc (e_data e) /\ e_crc e < U32 /\ e_ts e < U64 /\ lenN (e_data e) < U32.

  Notation decode_entry := (decode_entry crc).
  Notation read_loop := (read_loop crc).
  Notation wal_read := (wal_read crc).
  Notation wal_entries := (wal_entries crc).

  (* ---------- slices of a framed entry ---------- *)
  Lemma framed_slices : forall (l t c body : bytes),
    lenN l = 4 -> lenN t = 8 -> lenN c = 4 ->
    let d := l ++ t ++ c ++ body in
    sliceN 0 4 d = Some l /\ sliceN 4 12 d = Some t /\ sliceN 12 16 d = Some c /\
    (forall n, n <= lenN body -> sliceN 16 (16 + n) d = Some (takeN n body)).
  Proof.
    intros l t c body Hl Ht Hc d. subst d. repeat split.
    - apply sliceN_app_head. lia.
    - apply sliceN_app_mid; lia.
    - replace (l ++ t ++ c ++ body) with ((l ++ t) ++ c ++ body) by now rewrite <- app_assoc.
      apply sliceN_app_mid; rewrite lenN_app; lia.
    - intros n Hn.
      replace (l ++ t ++ c ++ body) with ((l ++ t ++ c) ++ body) by now rewrite <- !app_assoc.
      rewrite sliceN_ok.
      + rewrite dropN_app_exact' by (rewrite !lenN_app; lia). f_equal. f_equal. lia.
      + lia.
      + rewrite !lenN_app. lia.
  Qed.

  (* complete description of decode on an input of at least 16 bytes *)
  Lemma decode_framed : forall (l t c body : bytes),
    lenN l = 4 -> lenN t = 8 -> lenN c = 4 ->
    decode_entry (l ++ t ++ c ++ body) =
      if lenN body <? le_dec l then Ok None
      else if crc (takeN (le_dec l) body) =? le_dec c
           then Ok (Some (Entry (le_dec t) (takeN (le_dec l) body) (le_dec c), 16 + le_dec l))
           else Ok None.
  Proof.
    intros l t c body Hl Ht Hc.
    destruct (framed_slices l t c body Hl Ht Hc) as (S1 & S2 & S3 & S4).
    unfold Wal.decode_entry. rewrite overhead_16.
    assert (HL : lenN (l ++ t ++ c ++ body) = 16 + lenN body) by (rewrite !lenN_app; lia).
    rewrite HL.
    replace (16 + lenN body <? 16) with false by (symmetry; apply N.ltb_ge; lia).
    rewrite S1, S2, S3. cbn [or_panic rbind].
    destruct (lenN body <? le_dec l) eqn:E.
    - apply N.ltb_lt in E.
      replace (16 + lenN body <? 16 + le_dec l) with true by (symmetry; apply N.ltb_lt; lia).
      reflexivity.
    - apply N.ltb_ge in E.
      replace (16 + lenN body <? 16 + le_dec l) with false by (symmetry; apply N.ltb_ge; lia).
      rewrite S4 by lia. cbn [or_panic rbind]. reflexivity.
  Qed.

  (* any input of >= 16 bytes is framed *)
  Lemma frame_split : forall d : bytes, 16 <= lenN d ->
    exists l t c body, d = l ++ t ++ c ++ body /\ lenN l = 4 /\ lenN t = 8 /\ lenN c = 4.
  Proof.
    intros d H.
    exists (takeN 4 d), (takeN 8 (dropN 4 d)), (takeN 4 (dropN 12 d)), (dropN 16 d).
    repeat split.
    - rewrite <- (takeN_dropN _ 4 d) at 1. f_equal.
      rewrite <- (takeN_dropN _ 8 (dropN 4 d)) at 1. f_equal.
      rewrite dropN_dropN. change (4 + 8) with 12.
      rewrite <- (takeN_dropN _ 4 (dropN 12 d)) at 1. f_equal.
      rewrite dropN_dropN. reflexivity.
    - rewrite lenN_takeN. lia.
    - rewrite lenN_takeN, lenN_dropN. lia.
    - rewrite lenN_takeN, lenN_dropN. lia.
  Qed.

  Lemma decode_short : forall d, lenN d < 16 -> decode_entry d = Ok None.
  Proof.
    intros d H. unfold Wal.decode_entry. rewrite overhead_16.
    replace (lenN d <? 16) with true by (symmetry; now apply N.ltb_lt). reflexivity.
  Qed.

  Lemma decode_no_panic : forall d, decode_entry d <> Panic.
  Proof.
    intros d. destruct (N.lt_ge_cases (lenN d) 16) as [H|H].
    - rewrite decode_short by auto. discriminate.
    - destruct (frame_split d H) as (l & t & c & body & -> & Hl & Ht & Hc).
      rewrite decode_framed by auto.
      destruct (_ <? _); [discriminate|]. destruct (_ =? _); discriminate.
  Qed.

  Lemma decode_no_err : forall d e, decode_entry d <> Err e.
  Proof.
    intros d e. destruct (N.lt_ge_cases (lenN d) 16) as [H|H].
    - rewrite decode_short by auto. discriminate.
    - destruct (frame_split d H) as (l & t & c & body & -> & Hl & Ht & Hc).
      rewrite decode_framed by auto.
      destruct (_ <? _); [discriminate|]. destruct (_ =? _); discriminate.
  Qed.

  (* soundness of an accepted entry: it is literally on disk, and its checksum matches *)
  Lemma decode_Some_inv : forall d e n, decode_entry d = Ok (Some (e, n)) ->
    16 <= n /\ n <= lenN d /\ n = 16 + lenN (e_data e) /\
    e_crc e = crc (e_data e) /\
    takeN n d = takeN 4 d ++ takeN 8 (dropN 4 d) ++ takeN 4 (dropN 12 d) ++ e_data e /\
    lenN (e_data e) = le_dec (takeN 4 d) /\ e_ts e = le_dec (takeN 8 (dropN 4 d)) /\
    e_crc e = le_dec (takeN 4 (dropN 12 d)).
  Proof.
    intros d e n H. destruct (N.lt_ge_cases (lenN d) 16) as [Hs|Hs].
    - rewrite decode_short in H by auto. discriminate.
    - destruct (frame_split d Hs) as (l & t & c & body & -> & Hl & Ht & Hc).
      rewrite decode_framed in H by auto. remember (16 + le_dec l) as n0 eqn:Hn0.
      destruct (lenN body <? le_dec l) eqn:E1; [discriminate|]. apply N.ltb_ge in E1.
      destruct (crc (takeN (le_dec l) body) =? le_dec c) eqn:E2; [|discriminate].
      apply N.eqb_eq in E2. injection H as He Hn. subst e n n0. cbn [e_data e_crc e_ts].
      assert (Lt : lenN (takeN (le_dec l) body) = le_dec l) by (rewrite lenN_takeN; lia).
      assert (T4 : takeN 4 (l ++ t ++ c ++ body) = l) by (apply takeN_app_exact'; lia).
      assert (D4 : dropN 4 (l ++ t ++ c ++ body) = t ++ c ++ body) by (apply dropN_app_exact'; lia).
      assert (D12 : dropN 12 (l ++ t ++ c ++ body) = c ++ body).
      { replace (l ++ t ++ c ++ body) with ((l ++ t) ++ c ++ body) by now rewrite <- app_assoc.
        apply dropN_app_exact'. rewrite lenN_app. lia. }
      rewrite T4, D4, D12.
      rewrite (takeN_app_exact' _ 8 t) by lia. rewrite (takeN_app_exact' _ 4 c) by lia.
      split; [lia|]. split; [rewrite !lenN_app; lia|]. split; [lia|]. split; [auto|].
      split; [|split; [lia|split; reflexivity]].
      replace (l ++ t ++ c ++ body) with ((l ++ t ++ c) ++ body) by now rewrite <- !app_assoc.
      rewrite takeN_app_ge by (rewrite !lenN_app; lia).
      rewrite <- !app_assoc. do 3 f_equal. f_equal. rewrite !lenN_app. lia.
  Qed.

  (* ---------- round trip of one entry ---------- *)
  Lemma entry_header_parts : forall len ts ck,
    lenN (le_enc 4 len) = 4 /\ lenN (le_enc 8 ts) = 8 /\ lenN (le_enc 4 ck) = 4.
  Proof. intros. rewrite !lenN_le_enc. repeat split; reflexivity. Qed.

  Lemma encode_entry_framed : forall e rest,
    encode_entry e ++ rest =
    le_enc 4 (lenN (e_data e)) ++ le_enc 8 (e_ts e) ++ le_enc 4 (e_crc e) ++ (e_data e ++ rest).
  Proof. intros. unfold encode_entry, entry_header. now rewrite <- !app_assoc. Qed.

  Lemma lenN_encode_entry : forall e, lenN (encode_entry e) = 16 + lenN (e_data e).
  Proof. intros. unfold encode_entry, entry_header. rewrite !lenN_app, !lenN_le_enc. lia. Qed.

  Lemma length_encode_entry : forall e, length (encode_entry e) = (16 + length (e_data e))%nat.
  Proof. intros. pose proof (lenN_encode_entry e). unfold lenN in *. lia. Qed.

  Lemma decode_encode : forall e rest, wf_entry e ->
    decode_entry (encode_entry e ++ rest) = Ok (Some (e, 16 + lenN (e_data e))).
  Proof.
    intros e rest (Hc & Hc32 & Hts & Hlen). unfold U32, U64 in *.
    rewrite encode_entry_framed.
    destruct (entry_header_parts (lenN (e_data e)) (e_ts e) (e_crc e)) as (L1 & L2 & L3).
    rewrite decode_framed by auto.
    rewrite le_dec_enc_u32, le_dec_enc_u64, le_dec_enc_u32 by lia.
    replace (lenN (e_data e ++ rest) <? lenN (e_data e)) with false
      by (symmetry; apply N.ltb_ge; rewrite lenN_app; lia).
    rewrite takeN_app_exact. rewrite <- Hc, N.eqb_refl. destruct e; reflexivity.
  Qed.

  (* a header whose stamp was replaced is accepted just the same: the CRC covers data only *)
  Lemma decode_stamp_replaced : forall e ts' rest, wf_entry e -> ts' < U64 ->
    decode_entry (entry_header (lenN (e_data e)) ts' (e_crc e) ++ e_data e ++ rest)
    = Ok (Some (Entry ts' (e_data e) (e_crc e), 16 + lenN (e_data e))).
  Proof.
    intros e ts' rest (Hc & Hc32 & Hts & Hlen) Hts'.
    pose proof (decode_encode (Entry ts' (e_data e) (e_crc e)) rest) as H.
    unfold encode_entry in H. cbn [e_data e_ts e_crc] in H. rewrite <- app_assoc in H.
    apply H. repeat split; auto.
  Qed.

  (* A header whose length and checksum fields are zero is a well-formed (empty) entry whenever
     the checksum of the empty string is 0 (true of CRC-32) - in particular sixteen zero bytes.
     A zero-filled region at an entry boundary is therefore read as entries that were never
     appended (finding C14-wal-zero-header-is-an-entry). *)
  Lemma decode_empty_header : forall ts rest, ts < U64 -> crc [] = 0 ->
    decode_entry (entry_header 0 ts 0 ++ rest) = Ok (Some (Entry ts [] 0, 16)).
  Proof.
    intros ts rest Hts H0. unfold U64 in Hts. unfold entry_header. rewrite <- !app_assoc.
    rewrite decode_framed by (now rewrite lenN_le_enc).
    change (le_dec (le_enc 4 0)) with 0. rewrite le_dec_enc_u64 by lia.
    replace (lenN rest <? 0) with false by (symmetry; apply N.ltb_ge; lia).
    rewrite takeN_0, H0. reflexivity.
  Qed.
  Lemma decode_zero_header : forall rest, crc [] = 0 ->
    decode_entry (repeat 0 16 ++ rest) = Ok (Some (Entry 0 [] 0, 16)).
  Proof.
    intros rest H0. apply (decode_empty_header 0 rest); auto. reflexivity.
  Qed.

  (* every strict prefix of an encoded entry is "truncated": no CRC involved *)
  Lemma decode_truncated : forall e (k : nat), lenN (e_data e) < U32 ->
    (k < length (encode_entry e))%nat -> decode_entry (firstn k (encode_entry e)) = Ok None.
  Proof.
    intros e k Hlen Hk. unfold U32 in *. rewrite length_encode_entry in Hk.
    destruct (le_lt_dec 16 k) as [H16|H16].
    - rewrite firstn_as_takeN. unfold encode_entry.
      rewrite takeN_app_ge by (unfold entry_header; rewrite !lenN_app, !lenN_le_enc; lia).
      unfold entry_header at 1. rewrite <- !app_assoc.
      destruct (entry_header_parts (lenN (e_data e)) (e_ts e) (e_crc e)) as (L1 & L2 & L3).
      rewrite decode_framed by auto.
      rewrite le_dec_enc_u32 by lia.
      replace (lenN (takeN _ (e_data e)) <? lenN (e_data e)) with true; auto.
      symmetry. apply N.ltb_lt. rewrite lenN_takeN.
      unfold entry_header. rewrite !lenN_app, !lenN_le_enc. unfold lenN. lia.
    - apply decode_short. unfold lenN. rewrite firstn_length. lia.
  Qed.

  (* stored checksum differs from the checksum of the stored data: rejected.
     (payload damage: hypothesis is "no collision"; checksum-field damage: it holds outright) *)
  Lemma decode_bad_crc : forall len ts ck data rest,
    len = lenN data -> len < U32 -> ck < U32 -> crc data <> ck ->
    decode_entry (entry_header len ts ck ++ data ++ rest) = Ok None.
  Proof.
    intros len ts ck data rest -> Hlen Hck Hne. unfold U32 in *.
    unfold entry_header. rewrite <- !app_assoc.
    destruct (entry_header_parts (lenN data) ts ck) as (L1 & L2 & L3).
    rewrite decode_framed by auto.
    rewrite !le_dec_enc_u32 by lia.
    replace (lenN (data ++ rest) <? lenN data) with false
      by (symmetry; apply N.ltb_ge; rewrite lenN_app; lia).
    rewrite takeN_app_exact.
    replace (crc data =? ck) with false by (symmetry; now apply N.eqb_neq). reflexivity.
  Qed.

  (* a damaged length field: the entry is re-framed; it is rejected when the bytes run out or
     when the checksum of the re-framed data differs from the stored one *)
  Lemma decode_bad_len : forall len' ts ck body,
    len' < U32 -> ck < U32 ->
    (lenN body < len' \/ crc (takeN len' body) <> ck) ->
    decode_entry (entry_header len' ts ck ++ body) = Ok None.
  Proof.
    intros len' ts ck body Hlen Hck H. unfold U32 in *.
    unfold entry_header. rewrite <- !app_assoc.
    destruct (entry_header_parts len' ts ck) as (L1 & L2 & L3).
    rewrite decode_framed by auto. rewrite !le_dec_enc_u32 by lia.
    destruct (lenN body <? len') eqn:E; auto. apply N.ltb_ge in E.
    destruct H as [H|H]; [lia|].
    replace (crc (takeN len' body) =? ck) with false by (symmetry; now apply N.eqb_neq). reflexivity.
  Qed.

  (* ---------- the reader loop ---------- *)
  Lemma read_loop_nil : forall f, read_loop f [] = Ok [].
  Proof. destruct f; reflexivity. Qed.

  Lemma dropN_length_lt : forall (d : bytes) n, 16 <= n -> n <= lenN d ->
    (length (dropN n d) + 16 <= length d)%nat.
  Proof. intros. pose proof (lenN_dropN _ n d). unfold lenN in *. lia. Qed.

  (* fuel >= length of the input is enough; more fuel changes nothing *)
  Lemma read_loop_fuel : forall f1 f2 d,
    (length d <= f1)%nat -> (length d <= f2)%nat -> read_loop f1 d = read_loop f2 d.
  Proof.
    induction f1 as [|f1 IH]; intros f2 d H1 H2.
    - destruct d; [|cbn in H1; lia]. now rewrite !read_loop_nil.
    - destruct d as [|x d']; [now rewrite !read_loop_nil|].
      destruct f2 as [|f2]; [cbn in H2; lia|].
      cbn [Wal.read_loop].
      destruct (decode_entry (x :: d')) as [[[e n]|]| |] eqn:E; auto.
      apply decode_Some_inv in E as (Hn1 & Hn2 & _).
      pose proof (dropN_length_lt (x :: d') n Hn1 Hn2).
      rewrite (IH f2); auto; lia.
  Qed.

  Lemma read_loop_total : forall f d, (length d <= f)%nat -> exists es, read_loop f d = Ok es.
  Proof.
    induction f as [|f IH]; intros d H.
    - destruct d; [|cbn in H; lia]. eexists; reflexivity.
    - destruct d as [|x d']; [eexists; reflexivity|].
      cbn [Wal.read_loop].
      destruct (decode_entry (x :: d')) as [[[e n]|]| |] eqn:E.
      + apply decode_Some_inv in E as (Hn1 & Hn2 & _).
        pose proof (dropN_length_lt (x :: d') n Hn1 Hn2).
        destruct (IH (dropN n (x :: d'))) as [es Hes]; [lia|]. rewrite Hes. eexists; reflexivity.
      + eexists; reflexivity.
      + exfalso. eapply decode_no_err; eauto.
      + exfalso. eapply decode_no_panic; eauto.
  Qed.

  (* reading whole entries followed by an undecodable (or empty) tail *)
  Lemma read_loop_entries : forall es tail f, Forall wf_entry es ->
    (tail = [] \/ decode_entry tail = Ok None) ->
    (length (concat (map encode_entry es) ++ tail) <= f)%nat ->
    read_loop f (concat (map encode_entry es) ++ tail) = Ok es.
  Proof.
    induction es as [|e es IH]; intros tail f Hwf Htail Hf; cbn [map concat] in *.
    - cbn [app] in *. destruct Htail as [->|Hd]; [apply read_loop_nil|].
      destruct f; [destruct tail; [reflexivity|cbn in Hf; lia]|].
      destruct tail; [reflexivity|]. cbn [Wal.read_loop]. now rewrite Hd.
    - inversion Hwf as [|? ? He Hes]; subst.
      rewrite <- app_assoc in *.
      pose proof (length_encode_entry e) as Le.
      destruct f as [|f]; [rewrite app_length in Hf; lia|].
      destruct (encode_entry e ++ concat (map encode_entry es) ++ tail) as [|x r] eqn:Ed.
      { apply (f_equal (@length N)) in Ed. rewrite app_length in Ed. cbn in Ed. lia. }
      cbn [Wal.read_loop]. rewrite <- Ed.
      rewrite decode_encode by auto.
      rewrite dropN_app_exact' by (rewrite lenN_encode_entry; reflexivity).
      rewrite IH; auto.
      rewrite <- Ed in Hf. rewrite app_length in Hf. lia.
  Qed.

  (* one more decodable entry in front (used for the stamp refutation) *)
  Lemma read_loop_cons : forall d e n f, decode_entry d = Ok (Some (e, n)) ->
    (length d <= f)%nat -> d <> [] ->
    read_loop f d = rbind (read_loop f (dropN n d)) (fun r => Ok (e :: r)).
  Proof.
    intros d e n f Hd Hf Hne. destruct f as [|f]; [destruct d; [congruence|cbn in Hf; lia]|].
    destruct d as [|x d']; [congruence|]. cbn [Wal.read_loop]. rewrite Hd.
    apply decode_Some_inv in Hd as (Hn1 & Hn2 & _).
    pose proof (dropN_length_lt (x :: d') n Hn1 Hn2).
    rewrite (read_loop_fuel f (S f)); auto; lia.
  Qed.

  (* ---------- soundness of whatever is read from arbitrary bytes ---------- *)
  Lemma In_firstn' : forall A (x : A) n l, In x (firstn n l) -> In x l.
  Proof. intros A x n l H. rewrite <- (firstn_skipn n l). apply in_or_app. now left. Qed.
  Lemma Forall_takeN : forall (P : N -> Prop) n (d : bytes), Forall P d -> Forall P (takeN n d).
  Proof. intros. unfold takeN. apply Forall_forall. intros x Hx. apply (proj1 (Forall_forall P d) H).
         eapply In_firstn'; eauto. Qed.
  Lemma In_skipn : forall A (x : A) n l, In x (skipn n l) -> In x l.
  Proof. intros A x n l H. rewrite <- (firstn_skipn n l). apply in_or_app. now right. Qed.
  Lemma Forall_dropN : forall (P : N -> Prop) n (d : bytes), Forall P d -> Forall P (dropN n d).
  Proof. intros. unfold dropN. apply Forall_forall. intros x Hx. apply (proj1 (Forall_forall P d) H).
         eapply In_skipn; eauto. Qed.

  Lemma decode_sound : forall d e n, Forall byte_lt d -> decode_entry d = Ok (Some (e, n)) ->
    takeN n d = encode_entry e /\ e_crc e = crc (e_data e) /\ n = lenN (encode_entry e) /\ n <= lenN d.
  Proof.
    intros d e n Hwf H.
    pose proof (decode_Some_inv d e n H) as (Hn1 & Hn2 & Hn & Hc & Ht & Hl & Hts & Hck).
    split; [|split; [auto|split; [rewrite lenN_encode_entry; auto|auto]]].
    rewrite Ht. unfold encode_entry, entry_header. rewrite <- !app_assoc.
    assert (L4 : length (takeN 4 d) = 4%nat).
    { pose proof (lenN_takeN _ 4 d). unfold lenN in *. lia. }
    assert (L8 : length (takeN 8 (dropN 4 d)) = 8%nat).
    { pose proof (lenN_takeN _ 8 (dropN 4 d)). pose proof (lenN_dropN _ 4 d). unfold lenN in *. lia. }
    assert (L4' : length (takeN 4 (dropN 12 d)) = 4%nat).
    { pose proof (lenN_takeN _ 4 (dropN 12 d)). pose proof (lenN_dropN _ 12 d). unfold lenN in *. lia. }
    rewrite Hl, Hts, Hck.
    pose proof (le_enc_dec (takeN 4 d) (Forall_takeN _ _ _ Hwf)) as E1. rewrite L4 in E1.
    pose proof (le_enc_dec (takeN 8 (dropN 4 d)) (Forall_takeN _ _ _ (Forall_dropN _ 4 _ Hwf))) as E2.
    rewrite L8 in E2.
    pose proof (le_enc_dec (takeN 4 (dropN 12 d)) (Forall_takeN _ _ _ (Forall_dropN _ 12 _ Hwf))) as E3.
    rewrite L4' in E3.
    now rewrite E1, E2, E3.
  Qed.

  (* Whatever bytes are on disk: every entry the reader returns is literally there (encoded,
     contiguous, in order, starting at the first byte) and carries a matching checksum. *)
  Lemma read_loop_sound : forall f d es, Forall byte_lt d -> read_loop f d = Ok es ->
    exists tail, d = concat (map encode_entry es) ++ tail /\
                 Forall (fun e => e_crc e = crc (e_data e)) es.
  Proof.
    induction f as [|f IH]; intros d es Hwf H.
    - destruct d; cbn in H; [|discriminate]. inversion H; subst. exists []. split; auto.
    - destruct d as [|x d'].
      + cbn in H. inversion H; subst. exists []. split; auto.
      + cbn [Wal.read_loop] in H.
        destruct (decode_entry (x :: d')) as [[[e n]|]| |] eqn:E; try discriminate.
        * destruct (read_loop f (dropN n (x :: d'))) as [r| |] eqn:Er; cbn in H; try discriminate.
          inversion H; subst es; clear H.
          apply decode_sound in E as (Et & Ec & En & Hle); auto.
          apply IH in Er as (tail & Ed & Hall); [|now apply Forall_dropN].
          exists tail. split; [|constructor; auto].
          cbn [map concat]. rewrite <- app_assoc, <- Ed, <- Et. symmetry. apply takeN_dropN.
        * inversion H; subst. exists (x :: d'). split; auto.
  Qed.

  (* ---------- one file ---------- *)
  Lemma file_header_eq : forall seq,
    file_header seq = (WAL_MAGIC ++ [WAL_VERSION; 0; 0; 0]) ++ le_enc 8 seq.
  Proof.
    intros. unfold file_header. change (N.to_nat (WAL_HEADER_SIZE - 16)) with 0%nat.
    cbn [repeat]. now rewrite app_nil_r, <- app_assoc.
  Qed.
  Lemma lenN_file_header : forall seq, lenN (file_header seq) = 16.
  Proof. intros. rewrite file_header_eq, lenN_app, lenN_le_enc. reflexivity. Qed.
  Lemma length_file_header : forall seq, length (file_header seq) = 16%nat.
  Proof. intros. pose proof (lenN_file_header seq). unfold lenN in *. lia. Qed.

  Lemma wal_open_header : forall seq rest, seq < U64 ->
    wal_open (file_header seq ++ rest) = Ok seq.
  Proof.
    intros seq rest Hs. unfold wal_open. rewrite header_16.
    rewrite lenN_app, lenN_file_header.
    replace (16 + lenN rest <? 16) with false by (symmetry; apply N.ltb_ge; lia).
    rewrite file_header_eq. rewrite <- !app_assoc.
    rewrite (sliceN_app_head _ WAL_MAGIC) by reflexivity. cbn [or_panic rbind].
    rewrite bytes_eqb_refl. cbn [negb].
    replace (WAL_MAGIC ++ [WAL_VERSION; 0; 0; 0] ++ le_enc 8 seq ++ rest)
      with ((WAL_MAGIC ++ [WAL_VERSION; 0; 0; 0]) ++ le_enc 8 seq ++ rest) by now rewrite <- app_assoc.
    rewrite indexN_app_l by (cbn; lia).
    change (indexN 4 (WAL_MAGIC ++ [WAL_VERSION; 0; 0; 0])) with (Some WAL_VERSION).
    cbn [or_panic rbind]. rewrite N.eqb_refl. cbn [negb].
    rewrite (sliceN_app_mid _ (WAL_MAGIC ++ [WAL_VERSION; 0; 0; 0]) (le_enc 8 seq) rest 8 16)
      by (try rewrite lenN_le_enc; reflexivity).
    cbn [or_panic rbind]. unfold U64 in Hs. now rewrite le_dec_enc_u64.
  Qed.

  Lemma wal_open_short : forall img, lenN img < 16 -> wal_open img = Err WCorrupt.
  Proof.
    intros. unfold wal_open. rewrite header_16.
    replace (lenN img <? 16) with true by (symmetry; now apply N.ltb_lt). reflexivity.
  Qed.

  Lemma wal_open_cases : forall img, wal_open img = Err WCorrupt \/ exists s, wal_open img = Ok s.
  Proof.
    intros img. destruct (N.lt_ge_cases (lenN img) 16) as [H|H].
    - left. now apply wal_open_short.
    - unfold wal_open. rewrite header_16.
      replace (lenN img <? 16) with false by (symmetry; now apply N.ltb_ge).
      rewrite (sliceN_ok _ 0 4) by lia. cbn [or_panic rbind].
      destruct (negb _); [now left|].
      unfold indexN. replace (4 <? lenN img) with true by (symmetry; apply N.ltb_lt; lia).
      cbn [or_panic rbind]. destruct (negb _); [now left|].
      rewrite (sliceN_ok _ 8 16) by lia. cbn [or_panic rbind]. right. eexists; reflexivity.
  Qed.

  Lemma wal_entries_total : forall img, exists es, wal_entries img = Ok es.
  Proof.
    intros. unfold Wal.wal_entries. apply read_loop_total.
    pose proof (lenN_dropN _ WAL_HEADER_SIZE img). unfold lenN in *. lia.
  Qed.

  (* reading never panics and never runs out of fuel, whatever the bytes are *)
  Lemma wal_read_cases : forall img,
    wal_read img = Err WCorrupt \/ exists s es, wal_read img = Ok (s, es).
  Proof.
    intros img. unfold Wal.wal_read.
    destruct (wal_open_cases img) as [->|[s ->]]; [now left|].
    destruct (wal_entries_total img) as [es ->]. right. exists s, es. reflexivity.
  Qed.
  Lemma wal_read_no_panic : forall img, wal_read img <> Panic.
  Proof. intros img. destruct (wal_read_cases img) as [->|(s & es & ->)]; discriminate. Qed.
  Lemma wal_read_fuel_ok : forall img, wal_read img <> Err WOutOfFuel.
  Proof. intros img. destruct (wal_read_cases img) as [->|(s & es & ->)]; discriminate. Qed.

  Lemma wal_entries_header : forall seq body,
    wal_entries (file_header seq ++ body) = read_loop (length body) body.
  Proof.
    intros. unfold Wal.wal_entries. rewrite header_16.
    rewrite dropN_app_exact' by (now rewrite lenN_file_header).
    apply read_loop_fuel; rewrite ?app_length; lia.
  Qed.

  (* the reader stops at the first undecodable position and returns what precedes it *)
  Lemma wal_read_stops : forall seq es tail, seq < U64 -> Forall wf_entry es ->
    (tail = [] \/ decode_entry tail = Ok None) ->
    wal_read (file_header seq ++ concat (map encode_entry es) ++ tail) = Ok (seq, es).
  Proof.
    intros seq es tail Hs Hwf Ht. unfold Wal.wal_read.
    rewrite wal_open_header by auto. cbn [rbind].
    rewrite wal_entries_header, read_loop_entries; auto.
  Qed.

  Lemma read_roundtrip : forall seq es, seq < U64 -> Forall wf_entry es ->
    wal_read (file_image seq es) = Ok (seq, es).
  Proof.
    intros. unfold file_image.
    rewrite <- (app_nil_r (concat (map encode_entry es))). apply wal_read_stops; auto.
  Qed.

  (* number of leading entries that fit entirely into the first m bytes after the header *)
  Fixpoint count_whole (es : list entry) (m : nat) : nat :=
    match es with
    | [] => O
    | e :: r => let s := (16 + length (e_data e))%nat in
                if (s <=? m)%nat then S (count_whole r (m - s)) else O
    end.

  Lemma firstn_concat_entries : forall es m, exists tail,
    firstn m (concat (map encode_entry es)) =
      concat (map encode_entry (firstn (count_whole es m) es)) ++ tail /\
    (tail = [] \/ exists e k, In e es /\ tail = firstn k (encode_entry e) /\
                              (k < length (encode_entry e))%nat).
  Proof.
    induction es as [|e r IH]; intros m; cbn [map concat count_whole].
    - exists []. rewrite firstn_nil. cbn. auto.
    - pose proof (length_encode_entry e) as Le.
      destruct (16 + length (e_data e) <=? m)%nat eqn:E.
      + apply Nat.leb_le in E. destruct (IH (m - (16 + length (e_data e)))%nat) as (tail & H1 & H2).
        exists tail. split.
        * rewrite firstn_app, Le, firstn_all2 by lia. cbn [firstn map concat].
          now rewrite H1, app_assoc.
        * destruct H2 as [->|(e0 & k & Hin & -> & Hk)]; [now left|].
          right. exists e0, k. repeat split; auto. now right.
      + apply Nat.leb_gt in E. exists (firstn m (encode_entry e)). split.
        * rewrite firstn_app. replace (m - length (encode_entry e))%nat with 0%nat by lia.
          cbn [firstn]. now rewrite app_nil_r.
        * right. exists e, m. split; [now left|]. split; [reflexivity|lia].
  Qed.

  Lemma torn_tail : forall seq es (k : nat), seq < U64 -> Forall wf_entry es ->
    let img := file_image seq es in
    ((k < 16)%nat -> wal_read (firstn k img) = Err WCorrupt) /\
    ((16 <= k)%nat -> wal_read (firstn k img) = Ok (seq, firstn (count_whole es (k - 16)) es)).
  Proof.
    intros seq es k Hs Hwf img. split; intros Hk.
    - unfold Wal.wal_read. rewrite wal_open_short; auto.
      unfold lenN. rewrite firstn_length. lia.
    - unfold img, file_image. rewrite firstn_app, length_file_header, firstn_all2
        by (rewrite length_file_header; lia).
      destruct (firstn_concat_entries es (k - 16)) as (tail & -> & Ht).
      apply wal_read_stops; auto.
      + apply Forall_forall. intros e He. apply (proj1 (Forall_forall _ _) Hwf).
        eapply In_firstn'; eauto.
      + destruct Ht as [->|(e & j & Hin & -> & Hj)]; [now left|]. right.
        apply decode_truncated; auto.
        apply (proj1 (Forall_forall _ _) Hwf) in Hin. apply Hin.
  Qed.

  (* payload of entry e altered (same length), checksum of the new bytes differs: recovery of
     the file is exactly the entries before e, whatever follows *)
  Lemma payload_corruption_stops : forall seq es1 e data' rest,
    seq < U64 -> Forall wf_entry es1 -> wf_entry e ->
    lenN data' = lenN (e_data e) -> crc data' <> e_crc e ->
    wal_read (file_header seq ++ concat (map encode_entry es1) ++
              (entry_header (lenN (e_data e)) (e_ts e) (e_crc e) ++ data' ++ rest))
    = Ok (seq, es1).
  Proof.
    intros seq es1 e data' rest Hs Hwf (Hc & Hc32 & Hts & Hlen) Hl Hne.
    apply wal_read_stops; auto. right.
    apply decode_bad_crc; auto; congruence.
  Qed.

  (* checksum field of entry e altered: rejected outright, no assumption on crc *)
  Lemma checksum_corruption_stops : forall seq es1 e ck' rest,
    seq < U64 -> Forall wf_entry es1 -> wf_entry e -> ck' < U32 -> ck' <> e_crc e ->
    wal_read (file_header seq ++ concat (map encode_entry es1) ++
              (entry_header (lenN (e_data e)) (e_ts e) ck' ++ e_data e ++ rest))
    = Ok (seq, es1).
  Proof.
    intros seq es1 e ck' rest Hs Hwf (Hc & Hc32 & Hts & Hlen) Hck Hne.
    apply wal_read_stops; auto. right.
    apply decode_bad_crc; auto; congruence.
  Qed.

  (* length field of entry e altered *)
  Lemma length_corruption_stops : forall seq es1 e len' body,
    seq < U64 -> Forall wf_entry es1 -> wf_entry e -> len' < U32 ->
    (lenN body < len' \/ crc (takeN len' body) <> e_crc e) ->
    wal_read (file_header seq ++ concat (map encode_entry es1) ++
              (entry_header len' (e_ts e) (e_crc e) ++ body))
    = Ok (seq, es1).
  Proof.
    intros seq es1 e len' body Hs Hwf (Hc & Hc32 & Hts & Hlen) Hl H.
    apply wal_read_stops; auto. right. apply decode_bad_len; auto.
  Qed.

  (* stamp field of entry e altered: ACCEPTED - the result contains an entry that was never
     appended (finding C10-entry-header-unprotected) *)
  Definition set_ts (e : entry) (ts' : N) : entry := Entry ts' (e_data e) (e_crc e).
  Lemma wf_set_ts : forall e ts', wf_entry e -> ts' < U64 -> wf_entry (set_ts e ts').
  Proof. intros e ts' (Hc & Hc32 & Hts & Hlen) H. repeat split; auto. Qed.

  Lemma stamp_corruption_accepted : forall seq es1 e es2 ts',
    seq < U64 -> Forall wf_entry es1 -> wf_entry e -> Forall wf_entry es2 -> ts' < U64 ->
    wal_read (file_header seq ++ concat (map encode_entry es1) ++
              (entry_header (lenN (e_data e)) ts' (e_crc e) ++ e_data e) ++
              concat (map encode_entry es2))
    = Ok (seq, es1 ++ set_ts e ts' :: es2).
  Proof.
    intros seq es1 e es2 ts' Hs H1 He H2 Hts.
    pose proof (read_roundtrip seq (es1 ++ set_ts e ts' :: es2) Hs) as R.
    unfold file_image in R. rewrite map_app, concat_app in R. cbn [map concat] in R.
    apply R.
    apply Forall_app. split; auto. constructor; auto. now apply wf_set_ts.
  Qed.

  (* the 16 bytes of the file header: damage there either makes the file unreadable or
     changes nothing in what is read (flags, reserved bytes and the sequence are not used) *)
  Lemma wal_entries_any_header : forall h body, lenN h = 16 ->
    wal_entries (h ++ body) = read_loop (length body) body.
  Proof.
    intros h body Hh. unfold Wal.wal_entries. rewrite header_16.
    rewrite dropN_app_exact' by auto.
    apply read_loop_fuel; rewrite ?app_length; lia.
  Qed.
  Lemma file_header_damage : forall h es, lenN h = 16 -> Forall wf_entry es ->
    wal_read (h ++ concat (map encode_entry es)) = Err WCorrupt \/
    exists s, wal_read (h ++ concat (map encode_entry es)) = Ok (s, es).
  Proof.
    intros h es Hh Hwf. unfold Wal.wal_read.
    destruct (wal_open_cases (h ++ concat (map encode_entry es))) as [->|[s ->]]; [now left|].
    right. exists s. cbn [rbind]. rewrite wal_entries_any_header by auto.
    rewrite <- (app_nil_r (concat (map encode_entry es))).
    rewrite read_loop_entries; auto.
  Qed.

  (* soundness for arbitrary bytes on disk *)
  Lemma wal_read_sound : forall img s es, Forall byte_lt img -> wal_read img = Ok (s, es) ->
    exists hdr tail, img = hdr ++ concat (map encode_entry es) ++ tail /\ lenN hdr = 16 /\
                     Forall (fun e => e_crc e = crc (e_data e)) es.
  Proof.
    intros img s es Hwf H. unfold Wal.wal_read in H.
    destruct (N.lt_ge_cases (lenN img) 16) as [Hs|Hs].
    { rewrite wal_open_short in H by auto. discriminate. }
    destruct (wal_open img); cbn [rbind] in H; try discriminate.
    destruct (wal_entries img) as [es'| |] eqn:E; cbn [rbind] in H; try discriminate.
    inversion H; subst; clear H.
    unfold Wal.wal_entries in E. apply read_loop_sound in E as (tail & Ed & Hall);
      [|now apply Forall_dropN].
    exists (takeN WAL_HEADER_SIZE img), tail. split; [|split; auto].
    - rewrite <- Ed. symmetry. apply takeN_dropN.
    - rewrite lenN_takeN, header_16. lia.
  Qed.

  (* ---------- the directory: recover_all_entries ---------- *)
  Notation file_entries := (file_entries crc).
  Notation recover_all := (recover_all crc).
  Notation collect_files := (collect_files crc).

  Lemma file_entries_cases : forall img,
    (wal_read img = Err WCorrupt /\ file_entries img = []) \/
    (exists s es, wal_read img = Ok (s, es) /\ file_entries img = es).
  Proof.
    intros img. unfold Wal.file_entries.
    destruct (wal_read_cases img) as [H|(s & es & H)]; rewrite H; [left|right]; eauto.
  Qed.

  Lemma collect_files_eq : forall fs : list (N * (bytes * bytes)),
    collect_files fs = Ok (concat (map (fun f => file_entries (snd (snd f))) fs)).
  Proof.
    induction fs as [|[s [n img]] r IH]; cbn [Wal.collect_files map concat snd]; auto.
    destruct (file_entries_cases img) as [[H1 H2]|(s' & es & H1 & H2)]; rewrite H1, H2.
    - now rewrite IH.
    - rewrite IH. reflexivity.
  Qed.

  Definition sorted_files (st : store) : list (N * (bytes * bytes)) := sort_by_seq (wal_files st).

  (* recovery = concatenation, over the files whose name parses, stably sorted by the sequence
     in the name, of what each file yields on its own *)
  Lemma recover_all_eq : forall st,
    recover_all st = Ok (concat (map (fun f => file_entries (snd (snd f))) (sorted_files st))).
  Proof. intros. apply collect_files_eq. Qed.

  Lemma recover_all_no_panic : forall st, recover_all st <> Panic.
  Proof. intros. rewrite recover_all_eq. discriminate. Qed.
End WalProofs.

(* ---------- facts about the stable sort and the name filter (no checksum involved) ---------- *)
Section Sorting.
  Context {A : Type}.
  Definition key_le (a b : N * A) : Prop := fst a <= fst b.

  Lemma insert_perm : forall (x : N * A) l, Permutation (insert_by_seq x l) (x :: l).
  Proof.
    induction l as [|y r IH]; cbn [insert_by_seq]; auto.
    destruct (fst x <=? fst y); auto.
    eapply perm_trans; [apply perm_skip, IH|apply perm_swap].
  Qed.
  Lemma sort_perm : forall l : list (N * A), Permutation (sort_by_seq l) l.
  Proof.
    induction l as [|x r IH]; cbn [sort_by_seq fold_right]; auto.
    eapply perm_trans; [apply insert_perm|]. now apply perm_skip.
  Qed.

  Lemma insert_sorted : forall (x : N * A) l, Sorted key_le l -> Sorted key_le (insert_by_seq x l).
  Proof.
    induction l as [|y r IH]; intros Hs; cbn [insert_by_seq].
    - repeat constructor.
    - destruct (fst x <=? fst y) eqn:E.
      + apply N.leb_le in E. constructor; auto.
      + apply N.leb_gt in E. inversion Hs as [|? ? Hr Hh]; subst.
        constructor; [auto|].
        destruct r as [|z r']; cbn [insert_by_seq].
        * constructor. unfold key_le. lia.
        * destruct (fst x <=? fst z); constructor; unfold key_le; try lia.
          inversion Hh; subst. auto.
  Qed.
  Lemma sort_sorted : forall l : list (N * A), Sorted key_le (sort_by_seq l).
  Proof.
    induction l as [|x r IH]; cbn [sort_by_seq fold_right]; [constructor|].
    now apply insert_sorted.
  Qed.
End Sorting.

(* sorting looks at the keys only: it commutes with any change of the payloads *)
Lemma insert_map : forall A B (g : A -> B) (x : N * A) l,
  insert_by_seq (fst x, g (snd x)) (map (fun y => (fst y, g (snd y))) l)
  = map (fun y => (fst y, g (snd y))) (insert_by_seq x l).
Proof.
  induction l as [|y r IH]; cbn [insert_by_seq map fst]; auto.
  destruct (fst x <=? fst y); cbn [map]; auto. now rewrite IH.
Qed.
Lemma sort_map : forall A B (g : A -> B) (l : list (N * A)),
  sort_by_seq (map (fun y => (fst y, g (snd y))) l) = map (fun y => (fst y, g (snd y))) (sort_by_seq l).
Proof.
  induction l as [|x r IH]; cbn [sort_by_seq fold_right map]; auto.
  fold (sort_by_seq r). fold (sort_by_seq (map (fun y => (fst y, g (snd y))) r)).
  now rewrite IH, insert_map.
Qed.

Lemma wal_files_In : forall st s n img,
  In (s, (n, img)) (wal_files st) <-> In (n, img) st /\ parse_wal_sequence n = Some s.
Proof.
  induction st as [|[n0 img0] r IH]; intros s n img; cbn [wal_files].
  - cbn. tauto.
  - destruct (parse_wal_sequence n0) eqn:E; cbn [In]; rewrite IH; split.
    + intros [H|H]; [inversion H; subst; auto|tauto].
    + intros [[H|H] Hp]; [inversion H; subst; left; congruence|tauto].
    + tauto.
    + intros [[H|H] Hp]; [inversion H; subst; congruence|tauto].
Qed.
Lemma wal_files_app : forall a b, wal_files (a ++ b) = wal_files a ++ wal_files b.
Proof.
  induction a as [|[n img] r IH]; intros; cbn [wal_files app]; auto.
  destruct (parse_wal_sequence n); cbn [app]; now rewrite IH.
Qed.

Section WalDirProofs.
  Variable crc : bytes -> N.
  Notation file_entries := (file_entries crc).
  Notation recover_all := (recover_all crc).
  Notation wal_read := (wal_read crc).

  Definition contrib (f : N * (bytes * bytes)) : list entry := file_entries (snd (snd f)).

  Lemma In_recover_all : forall st e,
    In e (concat (map contrib (sorted_files st))) <->
    exists n img s, In (n, img) st /\ parse_wal_sequence n = Some s /\ In e (file_entries img).
  Proof.
    intros st e. rewrite in_concat. split.
    - intros (l & Hl & He). apply in_map_iff in Hl as ([s [n img]] & <- & Hf).
      apply (Permutation_in _ (sort_perm _)) in Hf. apply wal_files_In in Hf as [H1 H2].
      exists n, img, s. auto.
    - intros (n & img & s & H1 & H2 & H3). exists (file_entries img). split; auto.
      apply in_map_iff. exists (s, (n, img)). split; auto.
      apply (Permutation_in _ (Permutation_sym (sort_perm _))). apply wal_files_In. auto.
  Qed.

  (* a file whose name parses always contributes all of its own entries, as one block,
     whatever the other files contain *)
  Lemma contribution_present : forall st n img s,
    In (n, img) st -> parse_wal_sequence n = Some s ->
    exists pre post, recover_all st = Ok (pre ++ file_entries img ++ post).
  Proof.
    intros st n img s Hin Hp. rewrite recover_all_eq.
    assert (Hs : In (s, (n, img)) (sorted_files st)).
    { apply (Permutation_in _ (Permutation_sym (sort_perm _))). apply wal_files_In. auto. }
    apply in_split in Hs as (l1 & l2 & ->).
    exists (concat (map contrib l1)), (concat (map contrib l2)).
    rewrite map_app, concat_app. cbn [map concat snd]. reflexivity.
  Qed.

  (* what the other files contribute, and where, does not depend on this file's bytes *)
  Definition unmark (name : bytes) (img : bytes) (o : option (bytes * bytes)) : bytes * bytes :=
    match o with Some f => f | None => (name, img) end.
  Definition mark (f : N * (bytes * bytes)) : N * option (bytes * bytes) := (fst f, Some (snd f)).

  Lemma map_unmark_mark : forall name img l,
    map (fun y => (fst y, unmark name img (snd y))) (map mark l) = l.
  Proof. induction l as [|[s f] r IH]; cbn; auto. now rewrite IH. Qed.

  Lemma unmark_indep : forall name img img' (l : list (N * option (bytes * bytes))),
    (forall x, In x l -> snd x <> None) ->
    map (fun y => (fst y, unmark name img (snd y))) l = map (fun y => (fst y, unmark name img' (snd y))) l.
  Proof.
    induction l as [|[s o] r IH]; intros H; cbn [map]; auto.
    rewrite IH by (intros; apply H; now right). f_equal.
    destruct o; auto. exfalso. apply (H (s, None)); [now left|reflexivity].
  Qed.

  Lemma files_independent : forall st1 name st2,
    exists pre post, forall img,
      recover_all (st1 ++ (name, img) :: st2) =
      Ok (pre ++ (match parse_wal_sequence name with Some _ => file_entries img | None => [] end) ++ post).
  Proof.
    intros st1 name st2. destruct (parse_wal_sequence name) as [s|] eqn:Hp.
    - set (lo := map mark (wal_files st1) ++ (s, None) :: map mark (wal_files st2)).
      assert (Hin : In (s, None) (sort_by_seq lo)).
      { apply (Permutation_in _ (Permutation_sym (sort_perm _))). unfold lo. apply in_or_app. right. now left. }
      apply in_split in Hin as (P & Q & HPQ).
      assert (Hsome : forall x, In x (P ++ Q) -> snd x <> None).
      { assert (Hperm : Permutation (P ++ Q) (map mark (wal_files st1) ++ map mark (wal_files st2))).
        { apply (Permutation_app_inv P Q _ _ (s, None)). rewrite <- HPQ. apply sort_perm. }
        intros x Hx. apply (Permutation_in _ Hperm) in Hx.
        apply in_app_or in Hx as [Hx|Hx]; apply in_map_iff in Hx as (y & <- & _); discriminate. }
      exists (concat (map contrib (map (fun y => (fst y, unmark name [] (snd y))) P))),
             (concat (map contrib (map (fun y => (fst y, unmark name [] (snd y))) Q))).
      intros img. rewrite recover_all_eq. unfold sorted_files.
      rewrite wal_files_app. cbn [wal_files]. rewrite Hp.
      assert (E : wal_files st1 ++ (s, (name, img)) :: wal_files st2
                  = map (fun y => (fst y, unmark name img (snd y))) lo).
      { unfold lo. rewrite map_app. cbn [map fst snd unmark]. now rewrite !map_unmark_mark. }
      rewrite E, sort_map, HPQ, map_app. cbn [map fst snd unmark].
      rewrite map_app, concat_app. cbn [map concat]. fold contrib.
      rewrite (unmark_indep name img [] P) by (intros; apply Hsome, in_or_app; now left).
      rewrite (unmark_indep name img [] Q) by (intros; apply Hsome, in_or_app; now right).
      reflexivity.
    - exists (concat (map contrib (sorted_files (st1 ++ st2)))), [].
      intros img. rewrite recover_all_eq. unfold sorted_files.
      rewrite !wal_files_app. cbn [wal_files]. rewrite Hp. now rewrite !app_nil_r.
  Qed.

  (* ---------- truncate_before ---------- *)
  Lemma fold_max_ge : forall l a, a <= fold_left N.max l a.
  Proof. induction l as [|x r IH]; intros a; cbn [fold_left]; [lia|]. specialize (IH (N.max a x)). lia. Qed.
  Lemma fold_max_in : forall l a x, In x l -> x <= fold_left N.max l a.
  Proof.
    induction l as [|y r IH]; intros a x Hin; [destruct Hin|].
    destruct Hin as [H|H]; cbn [fold_left].
    - subst. pose proof (fold_max_ge r (N.max a x)). lia.
    - now apply IH.
  Qed.
  Lemma max_ts_ge : forall es e, In e es -> e_ts e <= max_ts es.
  Proof. intros. unfold max_ts. apply fold_max_in. now apply in_map. Qed.

  Lemma st_delete_In : forall name st f, In f (st_delete name st) <-> In f st /\ fst f <> name.
  Proof.
    intros. unfold st_delete. rewrite filter_In. split; intros [H1 H2]; split; auto.
    - intros E. rewrite E, bytes_eqb_refl in H2. discriminate.
    - destruct (bytes_eqb (fst f) name) eqn:E; auto. apply bytes_eqb_eq in E. contradiction.
  Qed.
  Lemma st_delete_NoDup : forall name st, NoDup (map fst st) -> NoDup (map fst (st_delete name st)).
  Proof.
    intros name st. induction st as [|[n img] r IH]; intros H; cbn; [constructor|].
    inversion H; subst. destruct (negb (bytes_eqb n name)); cbn; auto.
    constructor; auto. intros Hin. apply in_map_iff in Hin as (f & Hf & Hin).
    apply st_delete_In in Hin as [Hin _]. apply H2. apply in_map_iff. eauto.
  Qed.
  Lemma st_lookup_NoDup : forall st n img, NoDup (map fst st) -> In (n, img) st -> st_lookup n st = Some img.
  Proof.
    induction st as [|[n0 img0] r IH]; intros n img Hnd Hin; [destruct Hin|].
    inversion Hnd; subst. cbn [st_lookup]. destruct Hin as [H|H].
    - inversion H; subst. now rewrite bytes_eqb_refl.
    - destruct (bytes_eqb n0 n) eqn:E.
      + apply bytes_eqb_eq in E. subst. exfalso. apply H1. apply in_map_iff. exists (n, img). auto.
      + now apply IH.
  Qed.

  Section Trunc.
    Variables (active : option bytes) (T : N) (dfail : bytes -> bool).
    Notation trunc_loop := (trunc_loop crc active T dfail).

    (* a file that must survive: the active one, or one holding a readable entry newer than T *)
    Definition keepable (f : bytes * bytes) : Prop :=
      active = Some (fst f) \/ exists e, In e (file_entries (snd f)) /\ T < e_ts e.

    Lemma trunc_loop_spec : forall names st cnt st' r,
      NoDup (map fst st) -> trunc_loop names st cnt = (st', r) ->
      (forall f, In f st' -> In f st) /\
      (forall f, In f st -> keepable f -> In f st') /\
      r <> Panic.
    Proof.
      induction names as [|name rest IH]; intros st cnt st' r Hnd H; cbn [Wal.trunc_loop] in H.
      - inversion H; subst. repeat split; auto. discriminate.
      - destruct (match active with Some a => bytes_eqb a name | None => false end) eqn:Eact.
        { eapply IH; eauto. }
        destruct (st_lookup name st) as [img|] eqn:El; [|eapply IH; eauto].
        destruct (file_entries_cases crc img) as [[H1 H2]|(s & es & H1 & H2)]; rewrite H1 in H.
        { eapply IH; eauto. }
        destruct (match es with [] => true | _ => max_ts es <=? T end) eqn:Edel; [|eapply IH; eauto].
        destruct (dfail name).
        { inversion H; subst. repeat split; auto. discriminate. }
        apply IH in H as (Ha & Hb & Hc); [|now apply st_delete_NoDup].
        repeat split; auto.
        + intros f Hf. apply Ha in Hf. now apply st_delete_In in Hf.
        + intros [n i] Hf Hk. apply Hb; auto. apply st_delete_In. split; auto. cbn [fst].
          intros ->. rewrite (st_lookup_NoDup st name i Hnd Hf) in El. inversion El; subst i.
          destruct Hk as [Hk|(e & He & Hlt)]; cbn [fst snd] in *.
          * rewrite Hk, bytes_eqb_refl in Eact. discriminate.
          * rewrite H2 in He. destruct es as [|e0 es']; [destruct He|].
            apply N.leb_le in Edel. pose proof (max_ts_ge _ _ He). lia.
    Qed.
  End Trunc.

  Lemma truncate_safe : forall st active T dfail st' r,
    NoDup (map fst st) -> truncate_before crc st active T dfail = (st', r) ->
    r <> Panic /\
    (forall f, In f st' -> In f st) /\
    (forall a img, active = Some a -> In (wal_file_name a, img) st -> In (wal_file_name a, img) st') /\
    exists l l', recover_all st = Ok l /\ recover_all st' = Ok l' /\
                 (forall e, In e l -> T < e_ts e -> In e l').
  Proof.
    intros st active T dfail st' r Hnd H. unfold truncate_before in H.
    apply trunc_loop_spec in H as (Ha & Hb & Hc); auto.
    split; auto. split; auto. split.
    - intros a img -> Hin. apply Hb; auto. left. reflexivity.
    - rewrite !recover_all_eq. do 2 eexists. split; [reflexivity|]. split; [reflexivity|].
      intros e He Hlt. apply In_recover_all in He as (n & img & s & H1 & H2 & H3).
      apply In_recover_all. exists n, img, s. repeat split; auto.
      apply Hb; auto. right. exists e. auto.
  Qed.
End WalDirProofs.

(* ---------- the stable sort commutes with filtering ---------- *)
Section SortFilter.
  Context {A : Type}.
  Variable p : N * A -> bool.

  Lemma insert_filter_false : forall (x : N * A) l, p x = false ->
    filter p (insert_by_seq x l) = filter p l.
  Proof.
    induction l as [|y r IH]; intros Hx; cbn [insert_by_seq filter]; [now rewrite Hx|].
    destruct (fst x <=? fst y); cbn [filter]; [now rewrite Hx|]. now rewrite IH.
  Qed.

  Lemma insert_head : forall (x : N * A) l, Forall (fun y => fst x <= fst y) l ->
    insert_by_seq x l = x :: l.
  Proof.
    intros x [|y r] H; cbn [insert_by_seq]; auto.
    inversion H; subst. replace (fst x <=? fst y) with true by (symmetry; now apply N.leb_le). reflexivity.
  Qed.

  Lemma insert_filter_true : forall (x : N * A) l, p x = true -> StronglySorted key_le l ->
    filter p (insert_by_seq x l) = insert_by_seq x (filter p l).
  Proof.
    induction l as [|y r IH]; intros Hx Hs; cbn [insert_by_seq filter]; [now rewrite Hx|].
    inversion Hs as [|? ? Hr Hall]; subst.
    destruct (fst x <=? fst y) eqn:E.
    - apply N.leb_le in E. cbn [filter]. rewrite Hx.
      symmetry. apply insert_head.
      assert (Hall' : Forall (fun z => fst x <= fst z) (y :: r)).
      { constructor; auto. eapply Forall_impl; [|exact Hall]. unfold key_le. intros; lia. }
      apply Forall_forall. intros z Hz.
      apply (proj1 (Forall_forall _ _) Hall').
      change (In z (filter p (y :: r))) in Hz. apply filter_In in Hz. tauto.
    - apply N.leb_gt in E. cbn [filter]. destruct (p y) eqn:Ey.
      + cbn [insert_by_seq]. replace (fst x <=? fst y) with false by (symmetry; apply N.leb_gt; lia).
        now rewrite IH.
      + now apply IH.
  Qed.

  Lemma key_le_trans : Transitive (@key_le A).
  Proof. intros a b c. unfold key_le. lia. Qed.

  Lemma sort_filter : forall l : list (N * A), sort_by_seq (filter p l) = filter p (sort_by_seq l).
  Proof.
    induction l as [|x r IH]; auto.
    change (sort_by_seq (x :: r)) with (insert_by_seq x (sort_by_seq r)).
    cbn [filter]. destruct (p x) eqn:Hx.
    - change (sort_by_seq (x :: filter p r)) with (insert_by_seq x (sort_by_seq (filter p r))).
      rewrite IH. symmetry. apply insert_filter_true; auto.
      apply Sorted_StronglySorted; [exact key_le_trans|apply sort_sorted].
    - rewrite insert_filter_false; auto.
  Qed.
End SortFilter.

Lemma filter_filter' : forall A (k1 k2 : A -> bool) l,
  filter k2 (filter k1 l) = filter (fun x => k1 x && k2 x) l.
Proof.
  induction l as [|x r IH]; cbn [filter]; auto.
  destruct (k1 x); cbn [filter andb]; [destruct (k2 x)|]; now rewrite IH.
Qed.
Lemma filter_all_true : forall A (l : list A), filter (fun _ => true) l = l.
Proof. induction l; cbn; congruence. Qed.
Lemma filter_none : forall A (p : A -> bool) l, (forall x, In x l -> p x = false) -> filter p l = [].
Proof.
  induction l as [|x r IH]; intros H; cbn [filter]; auto.
  rewrite (H x) by now left. apply IH. intros; apply H; now right.
Qed.
Lemma wal_files_filter : forall (keep : bytes * bytes -> bool) st,
  wal_files (filter keep st) = filter (fun x => keep (snd x)) (wal_files st).
Proof.
  induction st as [|[n img] r IH]; cbn [filter wal_files]; auto.
  destruct (keep (n, img)) eqn:E; cbn [wal_files]; destruct (parse_wal_sequence n); cbn [filter snd]; rewrite ?E, IH; auto.
Qed.

Section TruncExact.
  Variable crc : bytes -> N.
  Notation file_entries := (file_entries crc).
  Notation recover_all := (recover_all crc).

  Section Loop.
    Variables (active : option bytes) (T : N) (dfail : bytes -> bool).
    Notation trunc_loop := (trunc_loop crc active T dfail).

    Lemma trunc_loop_filter : forall names st cnt st' r,
      NoDup (map fst st) -> trunc_loop names st cnt = (st', r) ->
      exists keep, st' = filter keep st /\
        forall f, In f st -> keep f = false -> forall e, In e (file_entries (snd f)) -> e_ts e <= T.
    Proof.
      induction names as [|name rest IH]; intros st cnt st' r Hnd H; cbn [Wal.trunc_loop] in H.
      - inversion H; subst. exists (fun _ => true). split; [now rewrite filter_all_true|discriminate].
      - destruct (match active with Some a => bytes_eqb a name | None => false end) eqn:Eact.
        { eapply IH; eauto. }
        destruct (st_lookup name st) as [img|] eqn:El; [|eapply IH; eauto].
        destruct (file_entries_cases crc img) as [[H1 H2]|(s & es & H1 & H2)]; rewrite H1 in H.
        { eapply IH; eauto. }
        destruct (match es with [] => true | _ => max_ts es <=? T end) eqn:Edel; [|eapply IH; eauto].
        destruct (dfail name).
        { inversion H; subst. exists (fun _ => true). split; [now rewrite filter_all_true|discriminate]. }
        apply IH in H as (keep2 & Hst & Hk); [|now apply st_delete_NoDup].
        exists (fun f => negb (bytes_eqb (fst f) name) && keep2 f). split.
        + rewrite Hst. unfold st_delete. apply filter_filter'.
        + intros [n i] Hf Hkeep e He. cbn [fst snd] in *.
          destruct (bytes_eqb n name) eqn:En; cbn [negb andb] in Hkeep.
          * apply bytes_eqb_eq in En. subst n.
            rewrite (st_lookup_NoDup st name i Hnd Hf) in El. inversion El; subst i.
            rewrite H2 in He. destruct es as [|e0 es']; [destruct He|].
            apply N.leb_le in Edel. pose proof (max_ts_ge _ _ He). lia.
          * apply (Hk (n, i)); auto. apply st_delete_In. split; auto. cbn [fst].
            intros ->. rewrite bytes_eqb_refl in En. discriminate.
    Qed.
  End Loop.

  Lemma filter_concat_contrib : forall (p : entry -> bool) (k : N * (bytes * bytes) -> bool) L,
    (forall x, In x L -> k x = false -> forall e, In e (contrib crc x) -> p e = false) ->
    filter p (concat (map (contrib crc) (filter k L))) = filter p (concat (map (contrib crc) L)).
  Proof.
    induction L as [|x r IH]; intros H; cbn [filter map concat]; auto.
    destruct (k x) eqn:E; cbn [map concat].
    - rewrite !filter_app, IH; auto. intros; eapply H; eauto. now right.
    - rewrite filter_app, (filter_none _ p (contrib crc x)), IH; auto.
      + intros; eapply H; eauto. now right.
      + intros e He. eapply H; eauto. now left.
  Qed.

  (* exact form: the entries stamped later than T come back in the same order and multiplicity *)
  Lemma truncate_exact : forall st active T dfail st' r,
    NoDup (map fst st) -> truncate_before crc st active T dfail = (st', r) ->
    exists l l', recover_all st = Ok l /\ recover_all st' = Ok l' /\
      filter (fun e => T <? e_ts e) l' = filter (fun e => T <? e_ts e) l.
  Proof.
    intros st active T dfail st' r Hnd H. unfold truncate_before in H.
    apply trunc_loop_filter in H as (keep & -> & Hk); auto.
    rewrite !recover_all_eq. do 2 eexists. split; [reflexivity|]. split; [reflexivity|].
    unfold sorted_files. rewrite wal_files_filter, sort_filter.
    apply (filter_concat_contrib (fun e => T <? e_ts e) (fun x => keep (snd x))).
    intros [s [n img]] Hx Hkx e He. cbn [snd] in *.
    apply (Permutation_in _ (sort_perm _)) in Hx. apply wal_files_In in Hx as [Hin _].
    apply N.ltb_ge. apply (Hk (n, img) Hin Hkx e). exact He.
  Qed.
End TruncExact.

(* ---------- the known finding: length/timestamp fields are outside the checksum ---------- *)
(* class predicate: the image differs from the written one only inside the length / timestamp
   fields (bytes 0..12) of one entry header *)
Definition HeaderFieldDamage (seq : N) (es : list entry) (img' : bytes) : Prop :=
  exists es1 e es2 len' ts',
    es = es1 ++ e :: es2 /\ len' < U32 /\ ts' < U64 /\
    (len', ts') <> (lenN (e_data e), e_ts e) /\
    img' = file_header seq ++ concat (map encode_entry es1) ++
           (entry_header len' ts' (e_crc e) ++ e_data e) ++ concat (map encode_entry es2).

Definition is_prefix (a b : list entry) : Prop := exists r, b = a ++ r.

From RV Require Import Lib.Crc32.
Definition wit_es : list entry := [mk_entry crc32 9 []].
Definition wit_img' : bytes :=
  file_header 1 ++ (entry_header 0 73 0 ++ []) ++ [].

Lemma header_field_witness :
  HeaderFieldDamage 1 wit_es wit_img' /\
  wal_read crc32 wit_img' = Ok (1, [Entry 73 [] 0]) /\
  ~ is_prefix [Entry 73 [] 0] wit_es.
Proof.
  split; [|split].
  - exists [], (mk_entry crc32 9 []), [], 0, 73. repeat split; try reflexivity.
    cbn. intros H. inversion H.
  - vm_compute. reflexivity.
  - intros [r H]. vm_compute in H. inversion H.
Qed.

Lemma wf_example : Forall (wf_entry crc32) [mk_entry crc32 9 [1; 2; 3]; mk_entry crc32 4 []; mk_entry crc32 7 [255]].
Proof. repeat constructor; vm_compute; reflexivity. Qed.

(* zero-filled tail after a header-only file: two entries that were never appended *)
Lemma zero_tail_witness :
  wal_read crc32 (file_image 1 [] ++ repeat 0 32) = Ok (1, [Entry 0 [] 0; Entry 0 [] 0]).
Proof. vm_compute. reflexivity. Qed.

(* Crashes and restarts (Model/Cluster.v rstep / rrun): a node that crashes comes back with an
   empty executor, an empty replication state and a clock at zero, and replays the deltas it
   emitted itself.  The closed-system results of UniqueStamps.v, ServeProofs.v and ClosedSec.v
   are re-established for runs with restarts.  Because a restart makes a node's history and
   clock go back, "the final state did not overflow" no longer speaks for the intermediate
   states; the hypotheses here are about every step of the run. *)
From stdpp Require Import gmap.
From Coq Require Import NArith Lia.
From RV Require Import Lib.Hex Model.Crdt Proofs.CrdtProofs Model.ShardState
  Proofs.ShardStateProofs Model.Cluster Proofs.ClusterProofs Proofs.ServeProofs
  Proofs.UniqueStamps Proofs.ClosedSec.
Local Open Scope N_scope.

Notation logt := (list (nat * list N * rvalue)) (only parsing).

(* ---------- runs made of deliveries to one node ---------- *)
Definition deliver_all (n : node) (l : list (list N * rvalue)) : node :=
  fold_left (λ a p, node_deliver a p.1 p.2) l n.

Definition own_entries (i : nat) (log : logt) : list (list N * rvalue) :=
  omap (λ x : nat * list N * rvalue, if bool_decide (x.1.1 = i) then Some (x.1.2, x.2) else None) log.

Lemma own_deliveries_entries i log :
  own_deliveries i log = map (λ p, CDeliver i p.1 p.2) (own_entries i log).
Proof.
  unfold own_deliveries, own_entries, omap. induction log as [|[[o k] d] log IH]; [done|].
  simpl. destruct (bool_decide (o = i)); simpl; by rewrite IH.
Qed.

Lemma own_entries_in i log k d : In (k, d) (own_entries i log) ↔ In (i, k, d) log.
Proof.
  unfold own_entries, omap. induction log as [|[[o k'] d'] log IH]; [done|].
  simpl. destruct (bool_decide (o = i)) eqn:E.
  - apply bool_decide_eq_true in E as ->. simpl. rewrite IH. split.
    + intros [[= <- <-]|H]; auto.
    + intros [[= <- <-]|H]; auto.
  - apply bool_decide_eq_false in E. rewrite IH. split; [auto|].
    intros [[= -> _ _]|H]; [done|auto].
Qed.

Lemma crun_deliveries_at l : ∀ c (log : logt) i n0,
  c !! i = Some n0 →
  crun c log (map (λ p, CDeliver i p.1 p.2) l) = (<[ i := deliver_all n0 l ]> c, log).
Proof.
  induction l as [|[k d] l IH]; intros c log i n0 Hi; simpl.
  - by rewrite list_insert_id.
  - rewrite Hi. rewrite (IH _ log i (node_deliver n0 k d)).
    + by rewrite list_insert_insert.
    + apply list_lookup_insert. by eapply lookup_lt_Some.
Qed.

(* what a restart of node i does *)
Definition restarted (i : nat) (log : logt) : node :=
  deliver_all (node_init (N.of_nat (S i))) (own_entries i log).

Lemma rstep_restart c log i n0 :
  c !! i = Some n0 → rstep c log (RRestart i) = (<[ i := restarted i log ]> c, log).
Proof.
  intros Hi. cbn [rstep]. rewrite Hi. rewrite own_deliveries_entries.
  rewrite (crun_deliveries_at _ _ log i (node_init (N.of_nat (S i)))).
  - by rewrite list_insert_insert.
  - apply list_lookup_insert. by eapply lookup_lt_Some.
Qed.

Lemma rstep_restart_none c log i : c !! i = None → rstep c log (RRestart i) = (c, log).
Proof. intros Hi. cbn [rstep]. by rewrite Hi. Qed.

(* overflow is sticky along deliveries *)
Lemma deliver_all_ovf l : ∀ n, sh_ovf (n_sh n) = true → sh_ovf (n_sh (deliver_all n l)) = true.
Proof.
  induction l as [|[k d] l IH]; intros n Hn; simpl; [done|].
  apply IH. by apply (node_deliver_le n k d).
Qed.

(* ---------- the log only grows ---------- *)
Lemma cstep_log_mono c log e : ∃ ext, (cstep c log e).2 = log ++ ext.
Proof.
  destruct e as [j cmd|j k d]; simpl.
  - destruct (c !! j); [|exists []; by rewrite app_nil_r].
    destruct (node_exec n cmd) as [[n1 r] [[k d]|]]; simpl; [by eexists|exists []; by rewrite app_nil_r].
  - destruct (c !! j); exists []; by rewrite app_nil_r.
Qed.

(* a counter-like command is a no-op (it answered an error) or the SET / HSET it desugars to *)
Lemma rstep_client2 c (log : logt) i c2 :
  rstep c log (RClient2 i c2) = (c, log) ∨
  ∃ cmd n, c !! i = Some n ∧ desugar (n_x n) c2 = Some cmd ∧
           rstep c log (RClient2 i c2) = cstep c log (CClient i cmd).
Proof.
  cbn [rstep]. destruct (c !! i) as [n|] eqn:Hi; [|by left].
  destruct (desugar (n_x n) c2) as [cmd|] eqn:Hd; [|by left].
  right. exists cmd, n. done.
Qed.

Lemma rstep_log_mono c log e : ∃ ext, (rstep c log e).2 = log ++ ext.
Proof.
  destruct e as [e|i|i c2]; [apply cstep_log_mono| |].
  - destruct (c !! i) as [n0|] eqn:Hi.
    + rewrite (rstep_restart _ _ _ _ Hi). exists []. by rewrite app_nil_r.
    + rewrite (rstep_restart_none _ _ _ Hi). exists []. by rewrite app_nil_r.
  - destruct (rstep_client2 c log i c2) as [->|(cmd & n & _ & _ & ->)].
    + exists []. by rewrite app_nil_r.
    + apply cstep_log_mono.
Qed.

Lemma rrun_log_mono evs : ∀ c log, ∃ ext, (rrun c log evs).2 = log ++ ext.
Proof.
  induction evs as [|e evs IH]; intros c log; simpl; [exists []; by rewrite app_nil_r|].
  destruct (rstep c log e) as [c1 l1] eqn:Hs.
  destruct (rstep_log_mono c log e) as [x1 E1]. rewrite Hs in E1. simpl in E1. subst l1.
  destruct (IH c1 (log ++ x1)) as [x2 E2]. exists (x1 ++ x2). by rewrite E2, app_assoc.
Qed.

(* ---------- node_good without its clock clause ---------- *)
Definition node_good' (log : logt) (i : nat) (n : node) : Prop :=
  sh_rid (n_sh n) = N.of_nat (S i) ∧ sh_causal (n_sh n) = false ∧ Inv (n_sh n) ∧ WfInv (n_sh n) ∧
  (∀ k v, sh_keys (n_sh n) !! k = Some v → plain v) ∧
  (∀ k d, In d (hist_of n k) → ∃ o, In (o, k, d) log) ∧
  (∀ k v r, sh_keys (n_sh n) !! k = Some v → reg_in r v → log_reg log r).

(* the node's clock is not behind any stamp that carries its id *)
Definition clock_covers (log : logt) (n : node) : Prop :=
  ∀ r, log_reg log r → st_rid (lw_ts r) = sh_rid (n_sh n) → st_time (lw_ts r) ≤ sh_time (n_sh n).

Lemma node_good_split log i n : node_good log i n ↔ node_good' log i n ∧ clock_covers log n.
Proof.
  unfold node_good, node_good', clock_covers. split.
  - intros (A & B & C & D & E & F & G & H). split_and!; auto.
  - intros ((A & B & C & D & E & F & G) & H). split_and!; auto.
Qed.

Lemma node_init_good' log i : node_good' log i (node_init (N.of_nat (S i))).
Proof.
  unfold node_good', node_init, shard_init, hist_of; simpl. split_and!; auto.
  - apply Inv_init.
  - apply WfInv_init.
  - intros k v H. by rewrite lookup_empty in H.
  - intros k d. rewrite lookup_empty. simpl. intros [].
  - intros k v r H. by rewrite lookup_empty in H.
Qed.

Lemma reg_in_times_le r d t : reg_in r d → times_le d t → st_time (lw_ts r) ≤ t.
Proof.
  unfold reg_in, times_le, crdt_times_le. intros Hr [_ Hc].
  destruct (rv_crdt d); try done.
  - by subst.
  - destruct Hr as [f Hf]. by apply (Hc f r Hf).
Qed.

(* one delivery of a delta of the log *)
Lemma node_deliver_good' log i n k d o :
  (∀ o k d, In (o, k, d) log → wf_value d ∧ plain d) →
  node_good' log i n → In (o, k, d) log →
  sh_ovf (n_sh (node_deliver n k d)) = false →
  node_good' log i (node_deliver n k d) ∧
  sh_time (n_sh n) ≤ sh_time (n_sh (node_deliver n k d)) ∧
  times_le d (sh_time (n_sh (node_deliver n k d))).
Proof.
  intros G3 (A & B & C & D & E & F & G) Hin Hno.
  destruct (G3 o k d Hin) as [Hdwf Hdpl].
  set (n1 := node_deliver n k d) in *.
  assert (Hn1 : ∃ x1 b1, n1 = Node x1 (step (n_sh n) (ERemote k d)).1 (hist_push (n_hist n) k d) b1).
  { unfold n1, node_deliver. destruct (step (n_sh n) (ERemote k d)) as [s1 od] eqn:Hs. cbn [fst].
    destruct (sh_keys s1 !! k); [destruct (materialise _ _ _); eauto|eauto]. }
  destruct Hn1 as (x1 & b1 & Hn1).
  destruct (step (n_sh n) (ERemote k d)) as [s1 od] eqn:Hstep. cbn [fst] in Hn1.
  rewrite Hn1 in *. cbn [n_sh] in *.
  assert (Hwf : wf_event (ERemote k d)) by exact Hdwf.
  destruct (step_ok _ _ _ _ Hstep C Hwf Hno) as (C1 & _ & Hmono & Hrid & Hinp & _).
  destruct (step_wf _ _ _ _ Hstep C D Hwf Hno) as (D1 & _).
  assert (Hmerged : sh_keys s1 !! k = Some (match sh_keys (n_sh n) !! k with Some l => rv_merge l d | None => d end)).
  { cbn [step] in Hstep. injection Hstep as <- _. unfold put, set_keys; simpl. rewrite lookup_insert.
    do 2 f_equal. unfold clock_update. destruct (_ =? _); done. }
  split; [|split; [exact Hmono|by apply Hinp]].
  unfold node_good'. cbn [n_sh]. split_and!; auto; try congruence.
  - by rewrite (step_causal _ _ _ _ Hstep).
  - intros k' v Hk'. destruct (decide (k' = k)) as [->|Hnk].
    + rewrite Hmerged in Hk'. injection Hk' as <-. destruct (sh_keys (n_sh n) !! k) as [l|] eqn:Hl; [|done].
      apply rv_merge_plain; [by apply (E k)|done].
    + rewrite (step_other_keys _ _ _ _ k' Hstep) in Hk' by done. by apply (E k').
  - intros k' d' Hd'. rewrite hist_of_push in Hd'. destruct (decide (k = k')) as [<-|Hnk].
    + apply in_app_or in Hd' as [Hd'|[<-|[]]]; [by apply F|eauto].
    + by apply F.
  - intros k' v r Hk' Hr. destruct (decide (k' = k)) as [->|Hnk].
    + rewrite Hmerged in Hk'. injection Hk' as <-. destruct (sh_keys (n_sh n) !! k) as [l|] eqn:Hl.
      * apply reg_in_merge in Hr as [Hr|Hr]; [by apply (G k l)|]. exists o, k, d. done.
      * exists o, k, d. done.
    + rewrite (step_other_keys _ _ _ _ k' Hstep) in Hk' by done. by apply (G k' v).
Qed.

(* a sequence of deliveries of deltas of the log *)
Lemma deliver_all_good' log i l : ∀ n,
  (∀ o k d, In (o, k, d) log → wf_value d ∧ plain d) →
  node_good' log i n → (∀ k d, In (k, d) l → ∃ o, In (o, k, d) log) →
  sh_ovf (n_sh (deliver_all n l)) = false →
  node_good' log i (deliver_all n l) ∧
  sh_time (n_sh n) ≤ sh_time (n_sh (deliver_all n l)) ∧
  ∀ k d, In (k, d) l → times_le d (sh_time (n_sh (deliver_all n l))).
Proof.
  induction l as [|[k d] l IH]; intros n G3 Hg Hl Hno; simpl in *.
  - split; [done|]. split; [lia|]. intros ? ? [].
  - destruct (Hl k d (or_introl eq_refl)) as [o Ho].
    assert (Hno1 : sh_ovf (n_sh (node_deliver n k d)) = false).
    { apply not_ovf_before. intros Ex. rewrite (deliver_all_ovf l _ Ex) in Hno. discriminate. }
    destruct (node_deliver_good' log i n k d o G3 Hg Ho Hno1) as (Hg1 & Hm1 & Ht1).
    destruct (IH (node_deliver n k d) G3 Hg1) as (Hg2 & Hm2 & Ht2); [by auto|done|].
    split; [done|]. split; [lia|].
    intros k' d' [[= <- <-]|Hin]; [|by apply (Ht2 k' d')].
    eapply times_le_mono; [exact Hm2|exact Ht1].
Qed.

(* every stamp with a node's id occurs in a delta that node emitted itself *)
Definition Cover (log : logt) : Prop :=
  ∀ r, log_reg log r → ∃ o k d, In (o, k, d) log ∧ N.of_nat (S o) = st_rid (lw_ts r) ∧ reg_in r d.

(* a restarted node is good, and its clock covers its stamps again *)
Lemma restarted_good log i :
  (∀ o k d, In (o, k, d) log → wf_value d ∧ plain d) → Cover log →
  sh_ovf (n_sh (restarted i log)) = false →
  node_good log i (restarted i log).
Proof.
  intros G3 Hcov Hno. unfold restarted in *.
  destruct (deliver_all_good' log i (own_entries i log) (node_init (N.of_nat (S i))) G3 (node_init_good' log i))
    as (Hg & _ & Ht); [|done|].
  { intros k d Hin. exists i. by apply own_entries_in. }
  apply node_good_split. split; [done|].
  intros r Hr Hrid. destruct Hg as (A & _).
  destruct (Hcov r Hr) as (o & k & d & Hin & Ho & Hrd).
  assert (o = i) as -> by (rewrite Hrid, A in Ho; lia).
  apply (reg_in_times_le r d); [done|]. apply (Ht k d). by apply own_entries_in.
Qed.

(* ---------- the cluster invariant for runs with restarts ---------- *)
Lemma Cover_mono log ext : Cover log → ∀ r, log_reg log r →
  ∃ o k d, In (o, k, d) (log ++ ext) ∧ N.of_nat (S o) = st_rid (lw_ts r) ∧ reg_in r d.
Proof.
  intros Hc r Hr. destruct (Hc r Hr) as (o & k & d & Hin & Ho & Hd).
  exists o, k, d. split; [apply in_or_app; by left|done].
Qed.

(* a client command keeps Cover: the fresh registers of the emitted delta carry the writer's id *)
Lemma cstep_client_cover c log j cmd :
  GInv c log → Cover log →
  (∀ n1, (cstep c log (CClient j cmd)).1 !! j = Some n1 → sh_ovf (n_sh n1) = false) →
  Cover (cstep c log (CClient j cmd)).2.
Proof.
  intros (G1 & G2 & G3) Hcov Hno. cbn [cstep] in *.
  destruct (c !! j) as [n|] eqn:Hj; [|done].
  destruct (G2 j n Hj) as (A & B & C & D & E & F & G & H).
  unfold node_exec in *. destruct (xexec (n_x n) cmd) as [x1 r1].
  destruct (record_post x1 cmd r1) as [e|] eqn:Hrec; [|done].
  pose proof (record_post_local _ _ _ _ Hrec) as Hloc.
  destruct (step (n_sh n) e) as [s1 od1] eqn:Hstep. destruct od1 as [d|]; cbn [fst snd] in *; [|done].
  set (k := ev_key e) in *.
  assert (Ho : sh_ovf s1 = false).
  { specialize (Hno (Node x1 s1 (hist_push (n_hist n) k d) (n_glue_fail n))).
    rewrite list_lookup_insert in Hno by (by eapply lookup_lt_Some). by apply Hno. }
  assert (Hvfun : ∀ v, sh_keys (n_sh n) !! k = Some v → val_fun v).
  { intros v Hv. unfold val_fun. destruct (rv_crdt v) as [| | | | |h] eqn:Hc; try done.
    intros f f' r r' Hr Hr' Ets. apply G1; auto; apply (G k v); auto; unfold reg_in; rewrite Hc; eauto. }
  destruct (step_local_regs _ _ _ _ C Hloc Hstep Ho Hvfun) as (_ & _ & _ & Hprov).
  intros r (o & k' & d' & Hin & Hr). apply in_app_or in Hin as [Hin|[Hin|[]]].
  - apply (Cover_mono log); [done|]. exists o, k', d'. done.
  - injection Hin as <- <- <-. destruct (Hprov r Hr) as [(v & Hv & Hrv)|(Hfr & _)].
    + apply (Cover_mono log); [done|]. by apply (G k v).
    + exists j, k, d. split; [apply in_or_app; right; by left|]. split; [congruence|done].
Qed.

Lemma restarted_serve K log i :
  (∀ o k d, In (o, k, d) log → val_ok K k d) →
  SInv K (restarted i log) ∧ n_glue_fail (restarted i log) = false.
Proof.
  intros Hl. unfold restarted.
  assert (H : ∀ l n, (∀ k d, In (k, d) l → val_ok K k d) → SInv K n → n_glue_fail n = false →
              SInv K (deliver_all n l) ∧ n_glue_fail (deliver_all n l) = false).
  { induction l as [|[k d] l IH]; intros n Hv HS Hg; simpl; [done|].
    destruct (node_deliver_serve K n k d HS (Hv k d (or_introl eq_refl))) as [HS1 Hg1].
    apply IH; [intros k' d' Hin'; apply Hv; by right|done|congruence]. }
  apply H; [|apply SInv_init|done].
  intros k d Hin. apply (Hl i). by apply own_entries_in.
Qed.

Definition RInv (K : list N → N) (c : list node) (log : logt) : Prop :=
  GInv c log ∧ Cover log ∧ CInv K c log.

(* counter-like commands keep their key to its kind, like the command they desugar to *)
Definition cmd2_ok (K : list N → N) (c : ccmd2) : Prop :=
  match c with
  | CIncrBy k _ | CGetSet k _ => K k = 0
  | CHIncrBy k _ _ => K k = 5
  end.

Lemma desugar_ok K x c2 cmd : cmd2_ok K c2 → desugar x c2 = Some cmd → cmd_ok K cmd.
Proof.
  destruct c2 as [k d|k v|k f d]; simpl; intros HK Hd.
  - destruct (x !! k) as [[s|h]|]; [|done|by injection Hd as <-].
    destruct (MiniExec.parse_redis_integer s); [|done]. destruct (in_i64 _); [|done]. by injection Hd as <-.
  - destruct (x !! k) as [[s|h]|]; [by injection Hd as <-|done|by injection Hd as <-].
  - assert (H : ∀ z0 : option Z, match z0 with
                 | Some z => if in_i64 (z + d) then Some (CHSet k [(f, Resp.show_Z (z + d))]) else None
                 | None => None end = Some cmd → cmd_ok K cmd).
    { intros [z|]; [|done]. destruct (in_i64 _); [|done]. intros [= <-]. simpl. done. }
    destruct (x !! k) as [[s|h]|]; [done| |]; by apply H in Hd.
Qed.

Definition rev_ok (K : list N → N) (log : logt) (e : rcev) : Prop :=
  match e with
  | RStep (CClient _ cmd) => cmd_ok K cmd
  | RStep (CDeliver _ k d) => ∃ o, In (o, k, d) log
  | RRestart _ => True
  | RClient2 _ c2 => cmd2_ok K c2
  end.

Lemma cstep_client_rinv K c log j cmd :
  RInv K c log → cmd_ok K cmd → no_ovf (cstep c log (CClient j cmd)).1 →
  RInv K (cstep c log (CClient j cmd)).1 (cstep c log (CClient j cmd)).2.
Proof.
  intros (HG & Hcov & HC) He Hno. split_and!.
  - apply cstep_client_ginv; [done|]. intros n1 Hn1. by apply (Hno j).
  - apply cstep_client_cover; [done|done|]. intros n1 Hn1. by apply (Hno j).
  - by apply (cstep_cinv K c log (CClient j cmd)).
Qed.

Lemma rstep_rinv K c log e :
  RInv K c log → rev_ok K log e → no_ovf (rstep c log e).1 →
  RInv K (rstep c log e).1 (rstep c log e).2.
Proof.
  intros HI He Hno. destruct e as [[j cmd|j k d]|i|i c2]; cbn [rev_ok] in *.
  4:{ destruct (rstep_client2 c log i c2) as [->|(cmd & n & Hi & Hd & E)]; [done|].
      rewrite E in *. apply cstep_client_rinv; [done| |done]. by eapply desugar_ok. }
  all: destruct HI as (HG & Hcov & HC); cbn [rstep] in *.
  - by apply (cstep_client_rinv K c log j cmd).
  - destruct He as [o Ho]. split_and!.
    + apply (cstep_deliver_ginv c log j k d o); [done|done|]. intros n1 Hn1. by apply (Hno j).
    + cbn [cstep]. by destruct (c !! j).
    + apply cstep_cinv; [done|]. by exists o.
  - fold (rstep c log (RRestart i)) in *.
    destruct (c !! i) as [n0|] eqn:Hi.
    2:{ rewrite (rstep_restart_none _ _ _ Hi). by split_and!. }
    rewrite (rstep_restart _ _ _ _ Hi) in *. cbn [fst snd] in *.
    destruct HG as (G1 & G2 & G3). destruct HC as [Hn Hl].
    assert (Hlt : (i < length c)%nat) by (by eapply lookup_lt_Some).
    assert (Hov : sh_ovf (n_sh (restarted i log)) = false).
    { apply (Hno i). by apply list_lookup_insert. }
    split_and!; try done.
    + split_and!; try done.
      intros i' n' Hi'. destruct (decide (i' = i)) as [->|Hne].
      * rewrite list_lookup_insert in Hi' by done. injection Hi' as <-. by apply restarted_good.
      * rewrite list_lookup_insert_ne in Hi' by done. by apply G2.
    + split; [|done].
      intros i' n' Hi'. destruct (decide (i' = i)) as [->|Hne].
      * rewrite list_lookup_insert in Hi' by done. injection Hi' as <-. by apply restarted_serve.
      * rewrite list_lookup_insert_ne in Hi' by done. by apply (Hn i').
Qed.

(* ---------- runs ---------- *)
Fixpoint valid_rrun (K : list N → N) (c : list node) (log : logt) (evs : list rcev) : Prop :=
  match evs with
  | [] => True
  | e :: r => rev_ok K log e ∧ valid_rrun K (rstep c log e).1 (rstep c log e).2 r
  end.

(* no clock overflowed at any step of the run *)
Fixpoint rrun_no_ovf (c : list node) (log : logt) (evs : list rcev) : Prop :=
  match evs with
  | [] => True
  | e :: r => no_ovf (rstep c log e).1 ∧ rrun_no_ovf (rstep c log e).1 (rstep c log e).2 r
  end.

Lemma rrun_rinv K evs : ∀ c log,
  RInv K c log → valid_rrun K c log evs → rrun_no_ovf c log evs →
  RInv K (rrun c log evs).1 (rrun c log evs).2.
Proof.
  induction evs as [|e evs IH]; intros c log HI Hv Hno; simpl in *; [done|].
  destruct Hv as [He Hv]. destruct Hno as [Hn1 Hno].
  pose proof (rstep_rinv K c log e HI He Hn1) as H1.
  destruct (rstep c log e) as [c1 l1]. cbn [fst snd] in *. by apply IH.
Qed.

Lemma Cover_nil : Cover [].
Proof. intros r (o & k & d & [] & _). Qed.

Lemma RInv_init K n : RInv K (cluster_init n) [].
Proof. split_and!; [apply GInv_init|apply Cover_nil|apply CInv_init]. Qed.

(* ---------- state = fold of the incorporated deltas, along runs with restarts ---------- *)
Lemma deliver_all_le l : ∀ n, node_le n (deliver_all n l).
Proof.
  induction l as [|[k d] l IH]; intros n; simpl; [apply node_le_refl|].
  eapply node_le_trans; [apply node_deliver_le|apply IH].
Qed.

Lemma deliver_all_nodeinv U K l : ∀ n,
  NodeInv n → hist_good U K (deliver_all n l) → sh_ovf (n_sh (deliver_all n l)) = false →
  NodeInv (deliver_all n l).
Proof.
  induction l as [|[k d] l IH]; intros n Hn Hg Ho; simpl in *; [done|].
  destruct (node_le_good U K _ _ (deliver_all_le l (node_deliver n k d)) Hg Ho) as [Hg1 Ho1].
  apply IH; [|done|done]. by apply (node_deliver_inv U K).
Qed.

Section restart_nodes.
  Context (U : stamp → option lww) (K : list N → N).
  Hypothesis HK : ∀ k, K k = 0 ∨ K k = 5.

  Lemma hist_good_of_log (log : logt) i n :
    node_good log i n → (∀ o k d, In (o, k, d) log → good U K k d) → hist_good U K n.
  Proof.
    intros (_ & _ & _ & _ & _ & F & _) Hl k. apply Forall_forall. intros d Hd.
    apply elem_of_list_In in Hd. destruct (F k d Hd) as [o Ho]. by apply (Hl o).
  Qed.

  Lemma rstep_nodeinv c log e :
    (∀ i n, c !! i = Some n → NodeInv n) →
    GInv (rstep c log e).1 (rstep c log e).2 →
    (∀ o k d, In (o, k, d) (rstep c log e).2 → good U K k d) →
    no_ovf (rstep c log e).1 →
    ∀ i n, (rstep c log e).1 !! i = Some n → NodeInv n.
  Proof.
    intros H0 (_ & G2 & _) Hgood Hno i n1 Hi1.
    pose proof (hist_good_of_log _ i n1 (G2 i n1 Hi1) Hgood) as Hg1.
    pose proof (Hno i n1 Hi1) as Ho1.
    assert (Hclient : ∀ j cmd, (cstep c log (CClient j cmd)).1 !! i = Some n1 → NodeInv n1).
    { intros j cmd Hi. cbn [cstep] in Hi.
      destruct (c !! j) as [n|] eqn:Hj; [|by apply (H0 i)].
      destruct (node_exec n cmd) as [[n' r] od] eqn:Hx. cbn [fst snd] in *.
      destruct (decide (i = j)) as [->|Hne].
      + rewrite list_lookup_insert in Hi by (by eapply lookup_lt_Some). injection Hi as <-.
        eapply (node_exec_inv U K HK); eauto.
      + rewrite list_lookup_insert_ne in Hi by done. by apply (H0 i). }
    destruct e as [[j cmd|j k d]|j|j c2].
    4:{ destruct (rstep_client2 c log j c2) as [E|(cmd & n & _ & _ & E)]; rewrite E in Hi1.
        - by apply (H0 i).
        - by apply (Hclient j cmd). }
    all: cbn [rstep cstep] in *.
    - by apply (Hclient j cmd).
    - destruct (c !! j) as [n|] eqn:Hj; [|by apply (H0 i)]. cbn [fst snd] in *.
      destruct (decide (i = j)) as [->|Hne].
      + rewrite list_lookup_insert in Hi1 by (by eapply lookup_lt_Some). injection Hi1 as <-.
        apply (node_deliver_inv U K); eauto.
      + rewrite list_lookup_insert_ne in Hi1 by done. by apply (H0 i).
    - fold (rstep c log (RRestart j)) in *.
      destruct (c !! j) as [n0|] eqn:Hj.
      2:{ rewrite (rstep_restart_none _ _ _ Hj) in *. by apply (H0 i). }
      rewrite (rstep_restart _ _ _ _ Hj) in *. cbn [fst snd] in *.
      destruct (decide (i = j)) as [->|Hne].
      + rewrite list_lookup_insert in Hi1 by (by eapply lookup_lt_Some). injection Hi1 as <-.
        apply (deliver_all_nodeinv U K); [apply NodeInv_init|done|done].
      + rewrite list_lookup_insert_ne in Hi1 by done. by apply (H0 i).
  Qed.

  Lemma rrun_nodeinv evs : ∀ c log,
    RInv K c log → (∀ i n, c !! i = Some n → NodeInv n) →
    valid_rrun K c log evs → rrun_no_ovf c log evs →
    (∀ o k d, In (o, k, d) (rrun c log evs).2 → good U K k d) →
    ∀ i n, (rrun c log evs).1 !! i = Some n → NodeInv n.
  Proof.
    induction evs as [|e evs IH]; intros c log HI H0 Hv Hno Hgood; simpl in *; [done|].
    destruct Hv as [He Hv]. destruct Hno as [Hn1 Hno].
    pose proof (rstep_rinv K c log e HI He Hn1) as HI1.
    pose proof (rstep_nodeinv c log e H0 (proj1 HI1)) as Hstep.
    destruct (rstep c log e) as [c1 l1] eqn:Hs. cbn [fst snd] in *.
    apply (IH c1 l1); try done.
    apply Hstep; [|done].
    intros o k d Hin. apply (Hgood o).
    destruct (rrun_log_mono evs c1 l1) as [ext ->]. apply in_or_app. by left.
  Qed.
End restart_nodes.

(* Closed-system strong eventual consistency, with crashes and restarts. *)
Theorem sec_closed_restart_lemma (K : list N → N) :
  (∀ k, K k = 0 ∨ K k = 5) →
  ∀ n evs i j ni nj k,
  valid_rrun K (cluster_init n) [] evs → rrun_no_ovf (cluster_init n) [] evs →
  let c := (rrun (cluster_init n) [] evs).1 in
  c !! i = Some ni → c !! j = Some nj →
  same_set (hist_of ni k) (hist_of nj k) →
  sh_keys (n_sh ni) !! k = sh_keys (n_sh nj) !! k.
Proof.
  intros HK n evs i j ni nj k Hv Hno c Hi Hj Hs.
  pose proof (rrun_rinv K evs _ _ (RInv_init K n) Hv Hno) as ((G1 & G2 & G3) & _ & [_ Hlogk]).
  set (lf := (rrun (cluster_init n) [] evs).2) in *.
  assert (Hgood : ∀ o k0 d, In (o, k0, d) lf → good (U_of lf) K k0 d).
  { intros o k0 d Ho. destruct (G3 o k0 d Ho) as [Hwf Hpl]. pose proof (Hlogk o k0 d Ho) as Hvk.
    split; [|done]. split_and!; [| |done].
    - destruct Hvk as [(HK0 & r & Hr0 & _)|(HK5 & h & Hh & _)]; [by rewrite Hr0, HK0|by rewrite Hh, HK5].
    - unfold crdt_respects. destruct Hvk as [(_ & r & Hr0 & _)|(_ & h & Hh & _)].
      + rewrite Hr0. apply U_of_spec; [done|]. exists o, k0, d. split; [done|]. unfold reg_in. by rewrite Hr0.
      + rewrite Hh. intros f r Hf. simpl. apply U_of_spec; [done|]. exists o, k0, d. split; [done|].
        unfold reg_in. rewrite Hh. eauto. }
  pose proof (rrun_nodeinv (U_of lf) K HK evs _ _ (RInv_init K n) (cluster_init_inv n) Hv Hno Hgood) as Hinv.
  destruct (Hinv i ni Hi) as (_ & _ & _ & Si). destruct (Hinv j nj Hj) as (_ & _ & _ & Sj).
  rewrite Si, Sj.
  apply (fold_merge_same_set (U_of lf) (K k) (HK k)); [| |exact Hs].
  - apply good_forall_class. apply (hist_good_of_log (U_of lf) K lf i ni (G2 i ni Hi) Hgood).
  - apply good_forall_class. apply (hist_good_of_log (U_of lf) K lf j nj (G2 j nj Hj) Hgood).
Qed.

(* stamps stay unique across crashes and restarts *)
Theorem unique_stamps_restart_lemma (K : list N → N) n evs :
  valid_rrun K (cluster_init n) [] evs → rrun_no_ovf (cluster_init n) [] evs →
  let log := (rrun (cluster_init n) [] evs).2 in
  ∀ r r', log_reg log r → log_reg log r' → lw_ts r = lw_ts r' → r = r'.
Proof.
  intros Hv Hno. exact (proj1 (proj1 (rrun_rinv K evs _ _ (RInv_init K n) Hv Hno))).
Qed.

(* a restarted node's clock is past every stamp it ever issued (so it never re-issues one) *)
Theorem restart_clock_lemma (K : list N → N) n evs i ni :
  valid_rrun K (cluster_init n) [] evs → rrun_no_ovf (cluster_init n) [] evs →
  (rrun (cluster_init n) [] evs).1 !! i = Some ni →
  ∀ r, log_reg (rrun (cluster_init n) [] evs).2 r → st_rid (lw_ts r) = N.of_nat (S i) →
  st_time (lw_ts r) ≤ sh_time (n_sh ni).
Proof.
  intros Hv Hno Hi r Hr Hrid.
  pose proof (rrun_rinv K evs _ _ (RInv_init K n) Hv Hno) as ((_ & G2 & _) & _ & _).
  destruct (G2 i ni Hi) as (A & _ & _ & _ & _ & _ & _ & H). apply H; [done|congruence].
Qed.

(* what a node serves is what its replication state says, also after restarts *)
Theorem serve_eq_state_restart_lemma (K : list N → N) n evs :
  valid_rrun K (cluster_init n) [] evs → rrun_no_ovf (cluster_init n) [] evs →
  let c := (rrun (cluster_init n) [] evs).1 in
  ∀ i ni, c !! i = Some ni → (∀ k, serve ni k = state_says ni k) ∧ n_glue_fail ni = false.
Proof.
  intros Hv Hno c i ni Hi.
  pose proof (rrun_rinv K evs _ _ (RInv_init K n) Hv Hno) as (_ & _ & [Hn _]).
  destruct (Hn i ni Hi) as [HS Hg]. split; [|done].
  intros k. apply serve_of_mat. apply HS.
Qed.

(* ---------- boolean form of the no-overflow hypothesis, for concrete runs ---------- *)
Definition no_ovf_b (c : list node) : bool := forallb (λ n, negb (sh_ovf (n_sh n))) c.
Lemma no_ovf_b_spec c : no_ovf_b c = true → no_ovf c.
Proof.
  unfold no_ovf_b, no_ovf. intros H i n Hi. rewrite forallb_forall in H.
  specialize (H n). apply negb_true_iff. apply H. apply elem_of_list_In. by eapply elem_of_list_lookup_2.
Qed.
Fixpoint rrun_no_ovf_b (c : list node) (log : logt) (evs : list rcev) : bool :=
  match evs with
  | [] => true
  | e :: r => no_ovf_b (rstep c log e).1 && rrun_no_ovf_b (rstep c log e).1 (rstep c log e).2 r
  end.
Lemma rrun_no_ovf_b_spec evs : ∀ c log, rrun_no_ovf_b c log evs = true → rrun_no_ovf c log evs.
Proof.
  induction evs as [|e evs IH]; intros c log H; simpl in *; [done|].
  apply andb_true_iff in H as [H1 H2]. split; [by apply no_ovf_b_spec|by apply IH].
Qed.

(* non-vacuity: two nodes write, crash, restart and write again *)
Definition ex_restart_evs : list rcev :=
  [RStep (CClient 0 (CSet [115] [97] false false)); RStep (CClient 0 (CSet [115] [98] false false));
   RStep (CClient 1 (CHSet [104] [([102], [118]); ([103], [119])]));
   RRestart 0; RStep (CClient 0 (CSet [115] [99] false false));
   RRestart 1; RStep (CClient 1 (CHSet [104] [([102], [120])]))].
Lemma ex_restart_valid :
  valid_rrun ex_K (cluster_init 3) [] ex_restart_evs ∧ rrun_no_ovf (cluster_init 3) [] ex_restart_evs.
Proof.
  split; [vm_compute; repeat split; done|].
  apply rrun_no_ovf_b_spec. vm_compute. reflexivity.
Qed.
(* the stamps issued by node 1 (key s) and node 2 (key h), in emission order: they keep growing
   across the restarts *)
Lemma ex_restart_stamps :
  map (λ x : nat * list N * rvalue, (x.1.1, st_time (rv_ts x.2))) (rrun (cluster_init 3) [] ex_restart_evs).2
  = [(0%nat, 1); (0%nat, 2); (1%nat, 2); (0%nat, 4); (1%nat, 4)].
Proof. vm_compute. reflexivity. Qed.

(* non-vacuity with counter-like commands: INCRBY on an absent key, on the result, GETSET, INCR
   of its value, HINCRBY on a non-integer field (refused: a no-op), on a new field, and one that
   would overflow (refused) *)
Definition ex_counter_evs : list rcev := ex_restart_evs ++
  [RClient2 0 (CIncrBy [99] 5); RClient2 0 (CIncrBy [99] (-7)); RClient2 0 (CGetSet [115] [49; 48]);
   RClient2 0 (CIncrBy [115] 1); RClient2 1 (CHIncrBy [104] [102] 1); RClient2 1 (CHIncrBy [104] [110] 7);
   RClient2 1 (CHIncrBy [104] [110] 9223372036854775807)].
Lemma ex_counter_valid :
  valid_rrun ex_K (cluster_init 3) [] ex_counter_evs ∧ rrun_no_ovf (cluster_init 3) [] ex_counter_evs.
Proof.
  split; [vm_compute; repeat split; done|].
  apply rrun_no_ovf_b_spec. vm_compute. reflexivity.
Qed.
Lemma ex_counter_log :
  map (λ x : nat * list N * rvalue, (x.1.1, x.1.2, st_time (rv_ts x.2))) (rrun (cluster_init 3) [] ex_counter_evs).2
  = [(0%nat, [115], 1); (0%nat, [115], 2); (1%nat, [104], 2); (0%nat, [115], 4); (1%nat, [104], 4);
     (0%nat, [99], 5); (0%nat, [99], 6); (0%nat, [115], 7); (0%nat, [115], 8); (1%nat, [104], 5)]
  ∧ map (λ n, (n_x n !! [99], n_x n !! [115])) (rrun (cluster_init 3) [] ex_counter_evs).1
  = [(Some (XStr [45; 50]), Some (XStr [49; 49])); (None, None); (None, None)].
Proof. vm_compute. split; reflexivity. Qed.

(* Crashes and restarts (Model/Cluster.v rstep / rrun): a node that crashes comes back with an
   empty executor, an empty replication state and a clock at zero, and replays the deltas it
   emitted itself.  The closed-system results of UniqueStamps.v, ServeProofs.v and ClosedSec.v
   are re-established for runs with restarts.  Because a restart makes a node's history and
   clock go back, "the final state did not overflow" no longer speaks for the intermediate
   states; the hypotheses here are about every step of the run. *)
From stdpp Require Import gmap.
From Coq Require Import NArith Lia.
From RV Require Import Lib.Hex Model.Crdt Proofs.CrdtProofs Model.ShardState
  Proofs.ShardStateProofs Model.Cluster Proofs.ClusterProofs Proofs.ServeProofs
  Proofs.UniqueStamps Proofs.ClosedSec.
Local Open Scope N_scope.

Notation logt := (list (nat * list N * rvalue)) (only parsing).

(* ---------- runs made of deliveries to one node ---------- *)
Definition deliver_all (n : node) (l : list (list N * rvalue)) : node :=
  fold_left (λ a p, node_deliver a p.1 p.2) l n.

Definition own_entries (i : nat) (log : logt) : list (list N * rvalue) :=
  omap (λ x : nat * list N * rvalue, if bool_decide (x.1.1 = i) then Some (x.1.2, x.2) else None) log.

Lemma own_deliveries_entries i log :
  own_deliveries i log = map (λ p, CDeliver i p.1 p.2) (own_entries i log).
Proof.
  unfold own_deliveries, own_entries, omap. induction log as [|[[o k] d] log IH]; [done|].
  simpl. destruct (bool_decide (o = i)); simpl; by rewrite IH.
Qed.

Lemma own_entries_in i log k d : In (k, d) (own_entries i log) ↔ In (i, k, d) log.
Proof.
  unfold own_entries, omap. induction log as [|[[o k'] d'] log IH]; [done|].
  simpl. destruct (bool_decide (o = i)) eqn:E.
  - apply bool_decide_eq_true in E as ->. simpl. rewrite IH. split.
    + intros [[= <- <-]|H]; auto.
    + intros [[= <- <-]|H]; auto.
  - apply bool_decide_eq_false in E. rewrite IH. split; [auto|].
    intros [[= -> _ _]|H]; [done|auto].
Qed.

Lemma crun_deliveries_at l : ∀ c (log : logt) i n0,
  c !! i = Some n0 →
  crun c log (map (λ p, CDeliver i p.1 p.2) l) = (<[ i := deliver_all n0 l ]> c, log).
Proof.
  induction l as [|[k d] l IH]; intros c log i n0 Hi; simpl.
  - by rewrite list_insert_id.
  - rewrite Hi. rewrite (IH _ log i (node_deliver n0 k d)).
    + by rewrite list_insert_insert.
    + apply list_lookup_insert. by eapply lookup_lt_Some.
Qed.

(* what a restart of node i does *)
Definition restarted (i : nat) (log : logt) : node :=
  deliver_all (node_init (N.of_nat (S i))) (own_entries i log).

Lemma rstep_restart c log i n0 :
  c !! i = Some n0 → rstep c log (RRestart i) = (<[ i := restarted i log ]> c, log).
Proof.
  intros Hi. cbn [rstep]. rewrite Hi. rewrite own_deliveries_entries.
  rewrite (crun_deliveries_at _ _ log i (node_init (N.of_nat (S i)))).
  - by rewrite list_insert_insert.
  - apply list_lookup_insert. by eapply lookup_lt_Some.
Qed.

Lemma rstep_restart_none c log i : c !! i = None → rstep c log (RRestart i) = (c, log).
Proof. intros Hi. cbn [rstep]. by rewrite Hi. Qed.

(* overflow is sticky along deliveries *)
Lemma deliver_all_ovf l : ∀ n, sh_ovf (n_sh n) = true → sh_ovf (n_sh (deliver_all n l)) = true.
Proof.
  induction l as [|[k d] l IH]; intros n Hn; simpl; [done|].
  apply IH. by apply (node_deliver_le n k d).
Qed.

(* ---------- the log only grows ---------- *)
Lemma cstep_log_mono c log e : ∃ ext, (cstep c log e).2 = log ++ ext.
Proof.
  destruct e as [j cmd|j k d]; simpl.
  - destruct (c !! j); [|exists []; by rewrite app_nil_r].
    destruct (node_exec n cmd) as [[n1 r] [[k d]|]]; simpl; [by eexists|exists []; by rewrite app_nil_r].
  - destruct (c !! j); exists []; by rewrite app_nil_r.
Qed.

Lemma rstep_log_mono c log e : ∃ ext, (rstep c log e).2 = log ++ ext.
Proof.
  destruct e as [e|i]; [apply cstep_log_mono|].
  destruct (c !! i) as [n0|] eqn:Hi.
  - rewrite (rstep_restart _ _ _ _ Hi). exists []. by rewrite app_nil_r.
  - rewrite (rstep_restart_none _ _ _ Hi). exists []. by rewrite app_nil_r.
Qed.

Lemma rrun_log_mono evs : ∀ c log, ∃ ext, (rrun c log evs).2 = log ++ ext.
Proof.
  induction evs as [|e evs IH]; intros c log; simpl; [exists []; by rewrite app_nil_r|].
  destruct (rstep c log e) as [c1 l1] eqn:Hs.
  destruct (rstep_log_mono c log e) as [x1 E1]. rewrite Hs in E1. simpl in E1. subst l1.
  destruct (IH c1 (log ++ x1)) as [x2 E2]. exists (x1 ++ x2). by rewrite E2, app_assoc.
Qed.

(* ---------- node_good without its clock clause ---------- *)
Definition node_good' (log : logt) (i : nat) (n : node) : Prop :=
  sh_rid (n_sh n) = N.of_nat (S i) ∧ sh_causal (n_sh n) = false ∧ Inv (n_sh n) ∧ WfInv (n_sh n) ∧
  (∀ k v, sh_keys (n_sh n) !! k = Some v → plain v) ∧
  (∀ k d, In d (hist_of n k) → ∃ o, In (o, k, d) log) ∧
  (∀ k v r, sh_keys (n_sh n) !! k = Some v → reg_in r v → log_reg log r).

(* the node's clock is not behind any stamp that carries its id *)
Definition clock_covers (log : logt) (n : node) : Prop :=
  ∀ r, log_reg log r → st_rid (lw_ts r) = sh_rid (n_sh n) → st_time (lw_ts r) ≤ sh_time (n_sh n).

Lemma node_good_split log i n : node_good log i n ↔ node_good' log i n ∧ clock_covers log n.
Proof.
  unfold node_good, node_good', clock_covers. split.
  - intros (A & B & C & D & E & F & G & H). split_and!; auto.
  - intros ((A & B & C & D & E & F & G) & H). split_and!; auto.
Qed.

Lemma node_init_good' log i : node_good' log i (node_init (N.of_nat (S i))).
Proof.
  unfold node_good', node_init, shard_init, hist_of; simpl. split_and!; auto.
  - apply Inv_init.
  - apply WfInv_init.
  - intros k v H. by rewrite lookup_empty in H.
  - intros k d. rewrite lookup_empty. simpl. intros [].
  - intros k v r H. by rewrite lookup_empty in H.
Qed.

Lemma reg_in_times_le r d t : reg_in r d → times_le d t → st_time (lw_ts r) ≤ t.
Proof.
  unfold reg_in, times_le, crdt_times_le. intros Hr [_ Hc].
  destruct (rv_crdt d); try done.
  - by subst.
  - destruct Hr as [f Hf]. by apply (Hc f r Hf).
Qed.

(* one delivery of a delta of the log *)
Lemma node_deliver_good' log i n k d o :
  (∀ o k d, In (o, k, d) log → wf_value d ∧ plain d) →
  node_good' log i n → In (o, k, d) log →
  sh_ovf (n_sh (node_deliver n k d)) = false →
  node_good' log i (node_deliver n k d) ∧
  sh_time (n_sh n) ≤ sh_time (n_sh (node_deliver n k d)) ∧
  times_le d (sh_time (n_sh (node_deliver n k d))).
Proof.
  intros G3 (A & B & C & D & E & F & G) Hin Hno.
  destruct (G3 o k d Hin) as [Hdwf Hdpl].
  set (n1 := node_deliver n k d) in *.
  assert (Hn1 : ∃ x1 b1, n1 = Node x1 (step (n_sh n) (ERemote k d)).1 (hist_push (n_hist n) k d) b1).
  { unfold n1, node_deliver. destruct (step (n_sh n) (ERemote k d)) as [s1 od] eqn:Hs. cbn [fst].
    destruct (sh_keys s1 !! k); [destruct (materialise _ _ _); eauto|eauto]. }
  destruct Hn1 as (x1 & b1 & Hn1).
  destruct (step (n_sh n) (ERemote k d)) as [s1 od] eqn:Hstep. cbn [fst] in Hn1.
  rewrite Hn1 in *. cbn [n_sh] in *.
  assert (Hwf : wf_event (ERemote k d)) by exact Hdwf.
  destruct (step_ok _ _ _ _ Hstep C Hwf Hno) as (C1 & _ & Hmono & Hrid & Hinp & _).
  destruct (step_wf _ _ _ _ Hstep C D Hwf Hno) as (D1 & _).
  assert (Hmerged : sh_keys s1 !! k = Some (match sh_keys (n_sh n) !! k with Some l => rv_merge l d | None => d end)).
  { cbn [step] in Hstep. injection Hstep as <- _. unfold put, set_keys; simpl. rewrite lookup_insert.
    do 2 f_equal. unfold clock_update. destruct (_ =? _); done. }
  split; [|split; [exact Hmono|by apply Hinp]].
  unfold node_good'. cbn [n_sh]. split_and!; auto; try congruence.
  - by rewrite (step_causal _ _ _ _ Hstep).
  - intros k' v Hk'. destruct (decide (k' = k)) as [->|Hnk].
    + rewrite Hmerged in Hk'. injection Hk' as <-. destruct (sh_keys (n_sh n) !! k) as [l|] eqn:Hl; [|done].
      apply rv_merge_plain; [by apply (E k)|done].
    + rewrite (step_other_keys _ _ _ _ k' Hstep) in Hk' by done. by apply (E k').
  - intros k' d' Hd'. rewrite hist_of_push in Hd'. destruct (decide (k = k')) as [<-|Hnk].
    + apply in_app_or in Hd' as [Hd'|[<-|[]]]; [by apply F|eauto].
    + by apply F.
  - intros k' v r Hk' Hr. destruct (decide (k' = k)) as [->|Hnk].
    + rewrite Hmerged in Hk'. injection Hk' as <-. destruct (sh_keys (n_sh n) !! k) as [l|] eqn:Hl.
      * apply reg_in_merge in Hr as [Hr|Hr]; [by apply (G k l)|]. exists o, k, d. done.
      * exists o, k, d. done.
    + rewrite (step_other_keys _ _ _ _ k' Hstep) in Hk' by done. by apply (G k' v).
Qed.

(* a sequence of deliveries of deltas of the log *)
Lemma deliver_all_good' log i l : ∀ n,
  (∀ o k d, In (o, k, d) log → wf_value d ∧ plain d) →
  node_good' log i n → (∀ k d, In (k, d) l → ∃ o, In (o, k, d) log) →
  sh_ovf (n_sh (deliver_all n l)) = false →
  node_good' log i (deliver_all n l) ∧
  sh_time (n_sh n) ≤ sh_time (n_sh (deliver_all n l)) ∧
  ∀ k d, In (k, d) l → times_le d (sh_time (n_sh (deliver_all n l))).
Proof.
  induction l as [|[k d] l IH]; intros n G3 Hg Hl Hno; simpl in *.
  - split; [done|]. split; [lia|]. intros ? ? [].
  - destruct (Hl k d (or_introl eq_refl)) as [o Ho].
    assert (Hno1 : sh_ovf (n_sh (node_deliver n k d)) = false).
    { apply not_ovf_before. intros Ex. rewrite (deliver_all_ovf l _ Ex) in Hno. discriminate. }
    destruct (node_deliver_good' log i n k d o G3 Hg Ho Hno1) as (Hg1 & Hm1 & Ht1).
    destruct (IH (node_deliver n k d) G3 Hg1) as (Hg2 & Hm2 & Ht2); [by auto|done|].
    split; [done|]. split; [lia|].
    intros k' d' [[= <- <-]|Hin]; [|by apply (Ht2 k' d')].
    eapply times_le_mono; [exact Hm2|exact Ht1].
Qed.

(* every stamp with a node's id occurs in a delta that node emitted itself *)
Definition Cover (log : logt) : Prop :=
  ∀ r, log_reg log r → ∃ o k d, In (o, k, d) log ∧ N.of_nat (S o) = st_rid (lw_ts r) ∧ reg_in r d.

(* a restarted node is good, and its clock covers its stamps again *)
Lemma restarted_good log i :
  (∀ o k d, In (o, k, d) log → wf_value d ∧ plain d) → Cover log →
  sh_ovf (n_sh (restarted i log)) = false →
  node_good log i (restarted i log).
Proof.
  intros G3 Hcov Hno. unfold restarted in *.
  destruct (deliver_all_good' log i (own_entries i log) (node_init (N.of_nat (S i))) G3 (node_init_good' log i))
    as (Hg & _ & Ht); [|done|].
  { intros k d Hin. exists i. by apply own_entries_in. }
  apply node_good_split. split; [done|].
  intros r Hr Hrid. destruct Hg as (A & _).
  destruct (Hcov r Hr) as (o & k & d & Hin & Ho & Hrd).
  assert (o = i) as -> by (rewrite Hrid, A in Ho; lia).
  apply (reg_in_times_le r d); [done|]. apply (Ht k d). by apply own_entries_in.
Qed.

(* Lemmas about Model/Crdt.v: the stamp order is a strict total order; every merge
   is idempotent, commutative (under Compatible) and associative (same kind). *)
From stdpp Require Import gmap.
From Coq Require Import NArith Lia.
From RV Require Import Lib.Hex Model.Crdt.
Local Open Scope N_scope.

(* ---------- stamps ---------- *)
Lemma stamp_ltb_spec a b :
  stamp_ltb a b = true ↔
  st_time a < st_time b ∨ (st_time a = st_time b ∧ st_rid a < st_rid b).
Proof.
  unfold stamp_ltb. rewrite orb_true_iff, andb_true_iff, !N.ltb_lt, N.eqb_eq. tauto.
Qed.

Lemma stamp_ltb_irrefl a : stamp_ltb a a = false.
Proof. apply not_true_iff_false. rewrite stamp_ltb_spec. lia. Qed.

Lemma stamp_ltb_trans a b c :
  stamp_ltb a b = true → stamp_ltb b c = true → stamp_ltb a c = true.
Proof. rewrite !stamp_ltb_spec. lia. Qed.

Lemma stamp_ltb_asym a b : stamp_ltb a b = true → stamp_ltb b a = false.
Proof. intros H. apply not_true_iff_false. revert H. rewrite !stamp_ltb_spec. lia. Qed.

Lemma stamp_trichotomy a b :
  stamp_ltb a b = true ∨ a = b ∨ stamp_ltb b a = true.
Proof.
  rewrite !stamp_ltb_spec. destruct a as [ta ra], b as [tb rb]; simpl.
  destruct (N.lt_trichotomy ta tb) as [?|[->|?]]; [lia| |lia].
  destruct (N.lt_trichotomy ra rb) as [?|[->|?]]; [lia| |lia]. right; left; reflexivity.
Qed.

Lemma stamp_total_false a b :
  stamp_ltb a b = false → stamp_ltb b a = false → a = b.
Proof. intros H1 H2. destruct (stamp_trichotomy a b) as [?|[?|?]]; congruence. Qed.

Lemma stamp_ltb_false_trans a b c :
  stamp_ltb a b = false → stamp_ltb b c = false → stamp_ltb a c = false.
Proof.
  intros H1 H2. apply not_true_iff_false. intros H3.
  apply not_true_iff_false in H1, H2. apply H1.
  destruct (stamp_trichotomy a b) as [?|[->|Hba]]; [done| |].
  - exfalso. apply H2. done.
  - exfalso. apply H2. eapply stamp_ltb_trans; eauto.
Qed.

(* generic "max keeping the left operand on ties" over a key *)
Section maxleft.
  Context {A : Type} (key : A → stamp).
  Definition maxl (a b : A) : A := if stamp_ltb (key a) (key b) then b else a.

  Lemma maxl_idem a : maxl a a = a.
  Proof. unfold maxl. by rewrite stamp_ltb_irrefl. Qed.

  Lemma maxl_assoc a b c : maxl a (maxl b c) = maxl (maxl a b) c.
  Proof.
    unfold maxl.
    destruct (stamp_ltb (key b) (key c)) eqn:Hbc, (stamp_ltb (key a) (key b)) eqn:Hab;
      rewrite ?Hbc, ?Hab; try reflexivity.
    - by rewrite (stamp_ltb_trans _ _ _ Hab Hbc).
    - by rewrite (stamp_ltb_false_trans _ _ _ Hab Hbc).
  Qed.

  Lemma maxl_comm a b : (key a = key b → a = b) → maxl a b = maxl b a.
  Proof.
    intros Hc. unfold maxl.
    destruct (stamp_trichotomy (key a) (key b)) as [H|[H|H]].
    - by rewrite H, (stamp_ltb_asym _ _ H).
    - rewrite (Hc H). reflexivity.
    - by rewrite H, (stamp_ltb_asym _ _ H).
  Qed.
End maxleft.

Lemma stamp_merge_idem a : stamp_merge a a = a.
Proof. apply (maxl_idem id). Qed.
Lemma stamp_merge_assoc a b c :
  stamp_merge a (stamp_merge b c) = stamp_merge (stamp_merge a b) c.
Proof. apply (maxl_assoc id). Qed.
Lemma stamp_merge_comm a b : stamp_merge a b = stamp_merge b a.
Proof. apply (maxl_comm id). auto. Qed.

Lemma lww_merge_idem a : lww_merge a a = a.
Proof. apply (maxl_idem lw_ts). Qed.
Lemma lww_merge_assoc a b c : lww_merge a (lww_merge b c) = lww_merge (lww_merge a b) c.
Proof. apply (maxl_assoc lw_ts). Qed.
Lemma lww_merge_comm a b : lww_compat a b → lww_merge a b = lww_merge b a.
Proof. apply (maxl_comm lw_ts). Qed.

(* ---------- union_with as a semilattice ---------- *)
Section uw.
  Context {K : Type} `{Countable K} {A : Type} (f : A → A → A).

  Lemma uw_assoc (a b c : gmap K A) :
    (∀ x y z, f x (f y z) = f (f x y) z) →
    union_with (λ x y, Some (f x y)) a (union_with (λ x y, Some (f x y)) b c)
    = union_with (λ x y, Some (f x y)) (union_with (λ x y, Some (f x y)) a b) c.
  Proof.
    intros Hf. apply map_eq; intros i. rewrite !lookup_union_with.
    destruct (a !! i), (b !! i), (c !! i); simpl; try reflexivity. by rewrite Hf.
  Qed.
End uw.

Lemma nmap_merge_idem a : nmap_merge a a = a.
Proof. apply union_with_idemp. intros. by rewrite N.max_id. Qed.
Lemma nmap_merge_comm a b : nmap_merge a b = nmap_merge b a.
Proof. apply union_with_comm. intros. by rewrite N.max_comm. Qed.
Lemma nmap_merge_assoc a b c :
  nmap_merge a (nmap_merge b c) = nmap_merge (nmap_merge a b) c.
Proof. apply (uw_assoc N.max). intros. apply N.max_assoc. Qed.

Lemma pn_merge_idem a : pn_merge a a = a.
Proof. destruct a. unfold pn_merge; simpl. by rewrite !nmap_merge_idem. Qed.
Lemma pn_merge_comm a b : pn_merge a b = pn_merge b a.
Proof. unfold pn_merge. by rewrite (nmap_merge_comm (pn_pos a)), (nmap_merge_comm (pn_neg a)). Qed.
Lemma pn_merge_assoc a b c : pn_merge a (pn_merge b c) = pn_merge (pn_merge a b) c.
Proof. unfold pn_merge; simpl. by rewrite !nmap_merge_assoc. Qed.

Lemma hash_merge_idem a : hash_merge a a = a.
Proof. apply union_with_idemp. intros. by rewrite lww_merge_idem. Qed.
Lemma hash_merge_assoc a b c :
  hash_merge a (hash_merge b c) = hash_merge (hash_merge a b) c.
Proof. apply (uw_assoc lww_merge). apply lww_merge_assoc. Qed.
Lemma hash_merge_comm a b :
  (∀ f r1 r2, a !! f = Some r1 → b !! f = Some r2 → lww_compat r1 r2) →
  hash_merge a b = hash_merge b a.
Proof. intros Hc. apply union_with_comm. intros i x y Hx Hy. f_equal. apply lww_merge_comm. eauto. Qed.

(* ---------- ORSet ---------- *)
Lemma tags_union_lookup a b i :
  tags_union a b !! i = union_with (λ x y, Some (x ∪ y)) (a !! i) (b !! i).
Proof. apply lookup_union_with. Qed.

Lemma filter_ne_lookup (m : tagmap) i :
  filter nonempty_tags m !! i =
  match m !! i with Some s => if decide (s = ∅) then None else Some s | None => None end.
Proof.
  rewrite map_filter_lookup. destruct (m !! i) as [s|]; simpl; [|done].
  unfold nonempty_tags; simpl. destruct (decide (s = ∅)) as [->|Hne].
  - rewrite option_guard_False; [done|]. intros Hx. by apply Hx.
  - by rewrite option_guard_True.
Qed.

Lemma or_elems_merge_idem (m : tagmap) :
  filter nonempty_tags (filter nonempty_tags (tags_union m m)) = filter nonempty_tags m.
Proof.
  apply map_eq; intros i. rewrite !filter_ne_lookup, tags_union_lookup.
  destruct (m !! i) as [s|]; cbn; [|done].
  replace (s ∪ s) with s by set_solver.
  destruct (decide (s = ∅)); [done|]. simpl. by destruct (decide (s = ∅)).
Qed.

Lemma or_elems_merge_comm (a b : tagmap) : tags_union a b = tags_union b a.
Proof. apply union_with_comm. intros. f_equal. set_solver. Qed.

Lemma or_elems_merge_assoc (a b c : tagmap) :
  filter nonempty_tags (tags_union a (filter nonempty_tags (tags_union b c)))
  = filter nonempty_tags (tags_union (filter nonempty_tags (tags_union a b)) c).
Proof.
  apply map_eq; intros i.
  rewrite !filter_ne_lookup, !tags_union_lookup, !filter_ne_lookup, !tags_union_lookup.
  destruct (a !! i) as [x|], (b !! i) as [y|], (c !! i) as [z|]; cbn;
    repeat (match goal with |- context [decide (?s = ∅)] => destruct (decide (s = ∅)) end; cbn);
    try reflexivity; try (exfalso; set_solver); try (f_equal; set_solver).
Qed.

Lemma orset_merge_comm a b : orset_merge a b = orset_merge b a.
Proof. unfold orset_merge. by rewrite or_elems_merge_comm, nmap_merge_comm. Qed.
Lemma orset_merge_assoc a b c :
  orset_merge a (orset_merge b c) = orset_merge (orset_merge a b) c.
Proof. unfold orset_merge; simpl. by rewrite or_elems_merge_assoc, nmap_merge_assoc. Qed.
Lemma orset_merge_idem_obs a : or_norm (orset_merge a a) = or_norm a.
Proof. unfold or_norm, orset_merge; simpl. by rewrite or_elems_merge_idem, nmap_merge_idem. Qed.

(* ---------- options ---------- *)
Section opt.
  Context {A : Type} (f : A → A → A).
  Lemma opt_merge_idem a : (∀ x, f x x = x) → opt_merge f a a = a.
  Proof. intros Hf. destruct a; simpl; by rewrite ?Hf. Qed.
  Lemma opt_merge_comm a b : (∀ x y, f x y = f y x) → opt_merge f a b = opt_merge f b a.
  Proof. intros Hf. destruct a, b; simpl; by rewrite ?(Hf a). Qed.
  Lemma opt_merge_assoc a b c :
    (∀ x y z, f x (f y z) = f (f x y) z) →
    opt_merge f a (opt_merge f b c) = opt_merge f (opt_merge f a b) c.
  Proof. intros Hf. destruct a, b, c; simpl; by rewrite ?Hf. Qed.
End opt.

(* ---------- ReplicatedValue::merge ---------- *)
Lemma rv_merge_idem a : obs (rv_merge a a) = obs a.
Proof.
  destruct a as [c vc e t rf]. unfold obs, rv_merge; simpl.
  rewrite stamp_merge_idem, !opt_merge_idem by (auto using nmap_merge_idem, N.max_id).
  f_equal. unfold merge_with_ts.
  destruct c; simpl; rewrite ?lww_merge_idem, ?nmap_merge_idem, ?pn_merge_idem,
    ?hash_merge_idem, ?orset_merge_idem_obs; try reflexivity.
  f_equal. set_solver.
Qed.

Lemma rv_merge_comm a b : Compatible a b → rv_merge a b = rv_merge b a.
Proof.
  destruct a as [ca vca ea ta rfa], b as [cb vcb eb tb rfb].
  unfold Compatible, rv_merge; simpl. intros Hc.
  rewrite (stamp_merge_comm ta tb), (opt_merge_comm nmap_merge vca vcb nmap_merge_comm),
    (opt_merge_comm N.max ea eb N.max_comm), (opt_merge_comm N.max rfa rfb N.max_comm).
  f_equal. unfold merge_with_ts.
  destruct ca, cb; simpl in *;
    try (destruct Hc as [Hk|Hne]; [discriminate Hk|];
         destruct (stamp_trichotomy ta tb) as [H|[H|H]];
         [by rewrite H, (stamp_ltb_asym _ _ H) | done | by rewrite H, (stamp_ltb_asym _ _ H)]).
  - by rewrite lww_merge_comm.
  - by rewrite nmap_merge_comm.
  - by rewrite pn_merge_comm.
  - f_equal. set_solver.
  - by rewrite orset_merge_comm.
  - by rewrite hash_merge_comm.
Qed.

Lemma rv_merge_assoc a b c :
  SameKind3 a b c → rv_merge a (rv_merge b c) = rv_merge (rv_merge a b) c.
Proof.
  destruct a as [ca vca ea ta rfa], b as [cb vcb eb tb rfb], c as [cc vcc ec tc rfc].
  unfold SameKind3, rv_merge; simpl. intros [Hab Hbc].
  rewrite stamp_merge_assoc,
    (opt_merge_assoc nmap_merge _ _ _ nmap_merge_assoc),
    !(opt_merge_assoc N.max _ _ _ N.max_assoc).
  f_equal. unfold merge_with_ts.
  destruct ca, cb; try discriminate Hab; destruct cc; try discriminate Hbc; simpl.
  - by rewrite lww_merge_assoc.
  - by rewrite nmap_merge_assoc.
  - by rewrite pn_merge_assoc.
  - f_equal. set_solver.
  - by rewrite orset_merge_assoc.
  - by rewrite hash_merge_assoc.
Qed.

(* Mixed kinds: the witness of finding C07-mixed-assoc (DESIGN §4 no. 6):
   a = LWW "a" @ (5,1);  b = Hash{f1} @ (3,2);  c = Hash{f2} @ (7,3). *)
Definition wit_a : rvalue :=
  RV (CLww (Lww (Some [97]) (Stamp 5 1) false)) None None (Stamp 5 1) None.
Definition wit_b : rvalue :=
  RV (CHash {[ [102;49] := Lww (Some [120]) (Stamp 3 2) false ]}) None None (Stamp 3 2) None.
Definition wit_c : rvalue :=
  RV (CHash {[ [102;50] := Lww (Some [121]) (Stamp 7 3) false ]}) None None (Stamp 7 3) None.

Lemma rv_merge_assoc_mixed_witness :
  MixedKinds wit_a wit_b wit_c ∧
  Compatible wit_a wit_b ∧ Compatible wit_b wit_c ∧ Compatible wit_a wit_c ∧
  obs (rv_merge wit_a (rv_merge wit_b wit_c)) ≠ obs (rv_merge (rv_merge wit_a wit_b) wit_c).
Proof.
  split; [|split; [|split; [|split]]].
  - intros [H _]. vm_compute in H. discriminate.
  - right. vm_compute. discriminate.
  - intros f r1 r2. unfold wit_b, wit_c; simpl.
    intros H1 H2. apply lookup_singleton_Some in H1 as [<- <-].
    apply lookup_singleton_Some in H2 as [Hf _]. discriminate Hf.
  - right. vm_compute. discriminate.
  - intros H. apply (f_equal (λ v, bool_decide (rv_crdt v = rv_crdt (obs (rv_merge (rv_merge wit_a wit_b) wit_c))))) in H.
    vm_compute in H. discriminate.
Qed.

(* Non-vacuity: a same-kind, compatible, non-trivial triple. *)
Definition ex_h1 : rvalue :=
  RV (CHash {[ [102] := Lww (Some [1]) (Stamp 4 1) false ]}) (Some {[ 1 := 2 ]}) (Some 10) (Stamp 4 1) None.
Definition ex_h2 : rvalue :=
  RV (CHash {[ [102] := Lww None (Stamp 4 2) true ]}) None (Some 20) (Stamp 4 2) (Some 3).
Lemma ex_hash_triple : SameKind3 ex_h1 ex_h2 ex_h1 ∧ Compatible ex_h1 ex_h2 ∧
  rv_merge ex_h1 ex_h2 ≠ ex_h1.
Proof.
  split; [by vm_compute|]. split.
  - intros f r1 r2. unfold ex_h1, ex_h2; simpl. intros H1 H2.
    apply lookup_singleton_Some in H1 as [_ <-]. apply lookup_singleton_Some in H2 as [_ <-].
    intros Hts. vm_compute in Hts. discriminate.
  - intros H. apply (f_equal rv_ts) in H. vm_compute in H. discriminate.
Qed.

Lemma rv_not_mixed a b c : ¬ MixedKinds a b c → SameKind3 a b c.
Proof.
  unfold MixedKinds, SameKind3. intros H.
  destruct (decide (kind (rv_crdt a) = kind (rv_crdt b))) as [H1|H1];
  destruct (decide (kind (rv_crdt b) = kind (rv_crdt c))) as [H2|H2]; try tauto.
Qed.

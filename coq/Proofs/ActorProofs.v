(* Proofs for Model/Actor.v (property C02). *)
From Coq Require Import List Arith NArith ZArith Bool Lia Permutation Sorted.
From RV Require Import Lib.Hex Model.Actor.
From RV Require Lib.Bytes.
Import ListNotations.

(* ------------------------------------------------------------------------------------ *)
(* 0. lists                                                                               *)
(* ------------------------------------------------------------------------------------ *)
Lemma existsb_lazy_eq : forall A (f : A -> bool) l, existsb_lazy f l = existsb f l.
Proof. induction l as [|a t IH]; cbn; [reflexivity|]. rewrite IH. destruct (f a); reflexivity. Qed.

Lemma existsb_ext_pt : forall A (f g : A -> bool) l, (forall x, f x = g x) -> existsb f l = existsb g l.
Proof. intros A f g l H. induction l as [|a t IH]; cbn; [reflexivity|]. rewrite H, IH. reflexivity. Qed.

Lemma picks_perm : forall A (l : list A) x r, In (x, r) (picks l) -> Permutation (x :: r) l.
Proof.
  induction l as [|a t IH]; cbn; intros x r H; [contradiction|].
  destruct H as [H|H].
  - inversion H; subst. reflexivity.
  - apply in_map_iff in H. destruct H as [[y r'] [E H]]. cbn in E. inversion E; subst.
    apply IH in H. rewrite perm_swap. constructor. exact H.
Qed.

Lemma picks_in : forall A (l : list A) x, In x l -> exists r, In (x, r) (picks l).
Proof.
  induction l as [|a t IH]; cbn; intros x H; [contradiction|].
  destruct H as [H|H].
  - subst. eexists. left. reflexivity.
  - destruct (IH _ H) as [r Hr]. exists (a :: r). right.
    apply in_map_iff. exists (x, r). split; [reflexivity|exact Hr].
Qed.

Lemma picks_complete : forall A (l l' : list A) x,
  Permutation l (x :: l') -> exists r, In (x, r) (picks l) /\ Permutation r l'.
Proof.
  intros A l l' x H.
  assert (Hin : In x l) by (eapply Permutation_in; [symmetry; exact H|left; reflexivity]).
  destruct (picks_in _ _ _ Hin) as [r Hr]. exists r. split; [exact Hr|].
  apply picks_perm in Hr. eapply Permutation_cons_inv. etransitivity; [exact Hr|exact H].
Qed.

Lemma perms_sound : forall A fuel (l order : list A),
  length l <= fuel -> In order (perms l fuel) -> Permutation order l.
Proof.
  induction fuel as [|f IH]; intros l order Hl H.
  - destruct l; cbn in *; [|lia]. destruct H as [H|[]]. subst. constructor.
  - destruct l as [|a t].
    + cbn in H. destruct H as [H|[]]. subst. constructor.
    + cbn [perms] in H. apply in_flat_map in H. destruct H as [[x r] [Hp H]].
      apply in_map_iff in H. destruct H as [o' [E H]]. cbn in E. subst order.
      pose proof (picks_perm _ _ _ _ Hp) as P.
      assert (length r <= f).
      { apply Permutation_length in P. cbn in P, Hl. lia. }
      cbn in H. apply IH in H; [|assumption].
      etransitivity; [|exact P]. constructor. exact H.
Qed.

Lemma perms_complete : forall A (order l : list A),
  Permutation order l -> In order (perms l (length l)).
Proof.
  induction order as [|x order' IH]; intros l H.
  - apply Permutation_nil in H. subst. cbn. left. reflexivity.
  - destruct l as [|a t]; [symmetry in H; apply Permutation_nil in H; discriminate|].
    assert (H' : Permutation (a :: t) (x :: order')) by (symmetry; exact H).
    destruct (picks_complete _ _ _ _ H') as [r [Hr Pr]].
    cbn [length perms]. apply in_flat_map. exists (x, r). split; [exact Hr|].
    cbn. apply in_map.
    assert (length r = length t).
    { apply picks_perm in Hr. apply Permutation_length in Hr. cbn in Hr. lia. }
    rewrite <- H0. apply IH. symmetry. exact Pr.
Qed.

Lemma NoDup_app_disj : forall A (l1 l2 : list A) x, NoDup (l1 ++ l2) -> In x l1 -> In x l2 -> False.
Proof.
  induction l1 as [|a t IH]; cbn; intros l2 x H H1 H2; [contradiction|].
  inversion H; subst. destruct H1 as [H1|H1].
  - subst. apply H4. apply in_or_app. right. exact H2.
  - eapply IH; eassumption.
Qed.

Lemma NoDup_app_r : forall A (l1 l2 : list A), NoDup (l1 ++ l2) -> NoDup l2.
Proof.
  induction l1 as [|a t IH]; cbn; intros l2 H; [exact H|].
  inversion H; subst. apply IH. assumption.
Qed.

Lemma NoDup_flat_map_inj : forall A B (f : A -> list B) (l : list A) e1 e2 x,
  NoDup (flat_map f l) -> In e1 l -> In e2 l -> In x (f e1) -> In x (f e2) -> e1 = e2.
Proof.
  induction l as [|a t IH]; cbn; intros e1 e2 x H H1 H2 X1 X2; [contradiction|].
  destruct H1 as [H1|H1], H2 as [H2|H2]; subst.
  - reflexivity.
  - exfalso. eapply NoDup_app_disj; [exact H|exact X1|]. apply in_flat_map. eauto.
  - exfalso. eapply NoDup_app_disj; [exact H|exact X2|]. apply in_flat_map. eauto.
  - eapply IH; try eassumption. apply NoDup_app_r in H. exact H.
Qed.

Lemma NoDup_snoc : forall A (l : list A) x, NoDup l -> ~ In x l -> NoDup (l ++ [x]).
Proof.
  induction l as [|a t IH]; cbn; intros x H Hx.
  - constructor; [intros []|constructor].
  - inversion H; subst. constructor.
    + intro Hin. apply in_app_or in Hin. destruct Hin as [Hin|[Hin|[]]]; [contradiction|].
      subst. apply Hx. left. reflexivity.
    + apply IH; [assumption|]. intro. apply Hx. right. assumption.
Qed.

Lemma StronglySorted_snoc : forall (l : list nat) x,
  StronglySorted lt l -> (forall y, In y l -> y < x) -> StronglySorted lt (l ++ [x]).
Proof.
  induction l as [|a t IH]; cbn; intros x H Hx.
  - constructor; constructor.
  - inversion H; subst. constructor.
    + apply IH; [assumption|]. intros. apply Hx. right. assumption.
    + apply Forall_app. split; [assumption|]. constructor; [|constructor]. apply Hx. left. reflexivity.
Qed.

Lemma NoDup_map_filter : forall A B (f : A -> B) (p : A -> bool) (l : list A),
  NoDup (map f l) -> NoDup (map f (filter p l)).
Proof.
  induction l as [|a t IH]; cbn; intros H; [constructor|].
  inversion H; subst. destruct (p a); cbn.
  - constructor; [|apply IH; assumption]. intro Hin. apply H2.
    apply in_map_iff in Hin. destruct Hin as [y [E Hy]]. apply filter_In in Hy.
    apply in_map_iff. exists y. tauto.
  - apply IH; assumption.
Qed.

(* ------------------------------------------------------------------------------------ *)
(* 1. histories: linearization points, the checker                                        *)
(* ------------------------------------------------------------------------------------ *)
Section HistProofs.
  Variable S Op Reply : Type.
  Variable step : S -> Op -> S * Reply.
  Notation orec := (oprec Op Reply).
  Notation legal := (legal S Op Reply step).
  Notation final := (final S Op Reply step).

  Lemma legal_app : forall l1 l2 s,
    legal s (l1 ++ l2) <-> legal s l1 /\ legal (final s l1) l2.
  Proof.
    induction l1 as [|[op r] t IH]; cbn; intros l2 s; [tauto|].
    rewrite IH. tauto.
  Qed.
  Lemma final_app : forall l1 l2 s, final s (l1 ++ l2) = final (final s l1) l2.
  Proof. induction l1 as [|[op r] t IH]; cbn; intros; [reflexivity|apply IH]. Qed.

  Lemma rt_beforeb_spec : forall a b : orec, rt_beforeb a b = true <-> rt_before a b.
  Proof.
    intros a b. unfold rt_beforeb, rt_before. destruct (o_ret a).
    - apply Nat.ltb_lt.
    - split; [discriminate|contradiction].
  Qed.

  Lemma rt_ok_points : forall order : list (orec * nat),
    StronglySorted lt (map snd order) -> Forall (point_ok Op Reply) order -> rt_ok (map fst order).
  Proof.
    induction order as [|[a pa] t IH]; cbn; intros Hs Hp; [exact I|].
    inversion Hs; subst. inversion Hp; subst. split; [|apply IH; assumption].
    intros b Hb Hrt. apply in_map_iff in Hb. destruct Hb as [[b' pb] [E Hb]]. cbn in E. subst b'.
    rewrite Forall_forall in H2, H4.
    assert (pa < pb) by (apply H2; apply in_map_iff; exists (b, pb); split; [reflexivity|exact Hb]).
    destruct (H4 _ Hb) as [_ Hret]. destruct H3 as [Hinv _]. cbn in *.
    unfold rt_before in Hrt. destruct (o_ret b) as [r|]; [|contradiction].
    specialize (Hret r eq_refl). lia.
  Qed.

  Theorem points_imply_linearizable_gen : forall init comp pend,
    lin_points S Op Reply step init comp pend -> linearizable S Op Reply step init comp pend.
  Proof.
    intros init comp pend [order [Hc [Hl [Hs Hp]]]].
    exists (map fst order). repeat split; try assumption; try apply Hc.
    apply rt_ok_points; assumption.
  Qed.

  Lemma complete_linearizable : forall init h,
    NoDup (map o_id h) -> linearizable_complete S Op Reply step init h ->
    linearizable S Op Reply step init h [].
  Proof.
    intros init h Hnd [order [P [Hl Hr]]]. exists order. split; [|split; assumption].
    split; [|split].
    - eapply Permutation_NoDup; [|exact Hnd]. apply Permutation_map. symmetry. exact P.
    - intros o Ho. eapply Permutation_in; [symmetry; exact P|exact Ho].
    - intros o Ho. left. eapply Permutation_in; [exact P|exact Ho].
  Qed.

  (* ---- checker ---- *)
  Variable rep_eqb : Reply -> Reply -> bool.
  Hypothesis rep_eqb_eq : forall a b, rep_eqb a b = true <-> a = b.
  Notation lin_search := (lin_search S Op Reply step rep_eqb).

  Lemma minimal_spec : forall (o : orec) rest,
    minimal Op Reply o rest = true <-> forall b, In b rest -> ~ rt_before b o.
  Proof.
    intros o rest. unfold minimal. rewrite forallb_forall. split; intros H b Hb.
    - specialize (H b Hb). rewrite negb_true_iff in H. intro C. apply rt_beforeb_spec in C. congruence.
    - rewrite negb_true_iff. destruct (rt_beforeb b o) eqn:E; [|reflexivity].
      apply rt_beforeb_spec in E. exfalso. exact (H b Hb E).
  Qed.

  Lemma lin_search_unfold : forall f s a t,
    lin_search (Datatypes.S f) s (a :: t) =
    existsb (fun p => minimal Op Reply (fst p) (snd p) &&
                      rep_eqb (snd (step s (o_op (fst p)))) (o_rep (fst p)) &&
                      lin_search f (fst (step s (o_op (fst p)))) (snd p)) (picks (a :: t)).
  Proof.
    intros. cbn [Actor.lin_search]. rewrite existsb_lazy_eq. apply existsb_ext_pt.
    intros p. destruct (minimal Op Reply (fst p) (snd p)); [|reflexivity].
    destruct (rep_eqb (snd (step s (o_op (fst p)))) (o_rep (fst p))); reflexivity.
  Qed.

  Lemma lin_search_sound : forall fuel s todo,
    lin_search fuel s todo = true ->
    exists order, Permutation order todo /\ legal s (map opr order) /\ rt_ok order.
  Proof.
    induction fuel as [|f IH]; intros s todo H.
    - destruct todo; cbn in H; [|discriminate]. exists []. repeat split; constructor.
    - destruct todo as [|a t].
      + exists []. repeat split; constructor.
      + rewrite lin_search_unfold in H. apply existsb_exists in H. destruct H as [[o r] [Hp H]].
        cbn [fst snd] in H. apply andb_true_iff in H. destruct H as [H H3].
        apply andb_true_iff in H. destruct H as [H1 H2].
        apply IH in H3. destruct H3 as [order [P [Hl Hr]]].
        exists (o :: order). split; [|split].
        * etransitivity; [|apply picks_perm; exact Hp]. constructor. exact P.
        * cbn. split; [apply rep_eqb_eq; exact H2|exact Hl].
        * cbn. split; [|exact Hr]. intros b Hb. rewrite minimal_spec in H1. apply H1.
          eapply Permutation_in; [exact P|exact Hb].
  Qed.

  Lemma lin_search_complete : forall order s,
    legal s (map opr order) -> rt_ok order ->
    forall todo fuel, Permutation todo order -> length todo <= fuel -> lin_search fuel s todo = true.
  Proof.
    induction order as [|o order' IH]; intros s Hl Hr todo fuel P Hf.
    - symmetry in P. apply Permutation_nil in P. subst. destruct fuel; reflexivity.
    - destruct todo as [|a t]; [apply Permutation_nil in P; discriminate|].
      destruct fuel as [|f]; [cbn in Hf; lia|].
      destruct (picks_complete _ _ _ _ P) as [r [Hp Pr]].
      rewrite lin_search_unfold. apply existsb_exists. exists (o, r). split; [exact Hp|].
      cbn [fst snd]. cbn in Hl, Hr. destruct Hl as [Hl1 Hl2]. destruct Hr as [Hr1 Hr2].
      apply andb_true_iff; split; [apply andb_true_iff; split|].
      + apply minimal_spec. intros b Hb. apply Hr1. eapply Permutation_in; [exact Pr|exact Hb].
      + apply rep_eqb_eq. exact Hl1.
      + apply IH; try assumption.
        apply picks_perm in Hp. apply Permutation_length in Hp. cbn in Hp, Hf. lia.
  Qed.

  Theorem lin_check_gen_sound : forall init h,
    lin_check_gen S Op Reply step rep_eqb init h = true -> linearizable_complete S Op Reply step init h.
  Proof. intros init h H. apply lin_search_sound in H. exact H. Qed.

  Theorem lin_check_gen_complete : forall init h,
    linearizable_complete S Op Reply step init h -> lin_check_gen S Op Reply step rep_eqb init h = true.
  Proof.
    intros init h [order [P [Hl Hr]]]. unfold lin_check_gen.
    eapply lin_search_complete; try eassumption; [symmetry; exact P|lia].
  Qed.

  Lemma legalb_spec : forall l s, legalb S Op Reply step rep_eqb s l = true <-> legal s (map opr l).
  Proof.
    induction l as [|o t IH]; cbn; intros s; [tauto|].
    rewrite andb_true_iff, IH, rep_eqb_eq. tauto.
  Qed.
  Lemma rt_okb_spec : forall l : list orec, rt_okb Op Reply l = true <-> rt_ok l.
  Proof.
    induction l as [|a t IH]; cbn; [tauto|].
    rewrite andb_true_iff, IH.
    pose proof (minimal_spec a t) as M. unfold minimal in M. rewrite M. tauto.
  Qed.

  Theorem lin_brute_gen_exact : forall init h,
    lin_brute_gen S Op Reply step rep_eqb init h = true <-> linearizable_complete S Op Reply step init h.
  Proof.
    intros init h. unfold lin_brute_gen. rewrite existsb_exists. split.
    - intros [order [Hin H]]. apply andb_true_iff in H. destruct H as [H1 H2].
      exists order. split; [|split].
      + eapply perms_sound; [|exact Hin]. lia.
      + apply legalb_spec. exact H2.
      + apply rt_okb_spec. exact H1.
    - intros [order [P [Hl Hr]]]. exists order. split.
      + apply perms_complete. exact P.
      + apply andb_true_iff. split; [apply rt_okb_spec|apply legalb_spec]; assumption.
  Qed.
End HistProofs.

(* ------------------------------------------------------------------------------------ *)
(* 2. the actor system: invariant                                                         *)
(* ------------------------------------------------------------------------------------ *)
Lemma upd_eq : forall A (f : nat -> A) i x, upd f i x i = x.
Proof. intros. unfold upd. rewrite Nat.eqb_refl. reflexivity. Qed.
Lemma upd_neq : forall A (f : nat -> A) i x j, j <> i -> upd f i x j = f j.
Proof. intros. unfold upd. destruct (Nat.eqb_spec j i); [contradiction|reflexivity]. Qed.

Lemma in_snoc : forall A (l : list A) x y, In y (l ++ [x]) <-> In y l \/ y = x.
Proof.
  intros. rewrite in_app_iff. cbn. split; intros [H|H]; auto.
  - destruct H as [H|[]]; auto.
Qed.

Lemma seq_sorted : forall n a, StronglySorted lt (seq a n).
Proof.
  induction n as [|n IH]; cbn; intros a; constructor; [apply IH|].
  apply Forall_forall. intros x Hx. apply in_seq in Hx. lia.
Qed.

Section ActorProofs.
  Variable S Op Reply : Type.
  Variable step : S -> Op -> S * Reply.
  Variable route : Op -> nat.
  Variable cap : nat.
  Variable g0 : nat -> S.
  Variable prewarm : nat.

  Notation request := (request Op).
  Notation sys := (sys S Op Reply).
  Notation event := (event Op Reply).
  Notation sstep := (sys_step step route cap).
  Notation gst := (gstep step route).
  Notation glegal := (legal (nat -> S) Op Reply gst).
  Notation gfinal := (final (nat -> S) Op Reply gst).

  Inductive reach : sys -> list event -> Prop :=
  | reach_init : reach (sys_init g0 prewarm) []
  | reach_step : forall s evs l s' e,
      reach s evs -> sstep s l = Some (s', e) -> reach s' (evs ++ [e]).

  Lemma run_reach : forall ls s pre s' evs,
    reach s pre -> run step route cap s ls = Some (s', evs) -> reach s' (pre ++ evs).
  Proof.
    induction ls as [|l ls IH]; cbn; intros s pre s' evs R H.
    - inversion H; subst. rewrite app_nil_r. exact R.
    - destruct (sstep s l) as [[s1 e]|] eqn:E; [|discriminate].
      destruct (run step route cap s1 ls) as [[s2 es]|] eqn:E2; [|discriminate].
      inversion H; subst.
      replace (pre ++ e :: es) with ((pre ++ [e]) ++ es) by (rewrite <- app_assoc; reflexivity).
      eapply IH; [|exact E2]. econstructor; eassumption.
  Qed.

  (* ---- membership in the id lists ---- *)
  Lemma in_proc_ids : forall (evs : list event) id,
    In id (proc_ids evs) <-> exists sh rq r t, In (EProc sh rq r t) evs /\ rq_id rq = id.
  Proof.
    intros evs id. unfold proc_ids. rewrite in_flat_map. split.
    - intros [e [He H]]. destruct e; cbn in H; try contradiction.
      destruct H as [H|[]]. eauto 8.
    - intros [sh [rq [r [t [H E]]]]]. eexists. split; [exact H|]. cbn. auto.
  Qed.
  Lemma in_ret_ids : forall (evs : list event) id,
    In id (ret_ids evs) <-> exists rq r t, In (ERet rq r t) evs /\ rq_id rq = id.
  Proof.
    intros evs id. unfold ret_ids. rewrite in_flat_map. split.
    - intros [e [He H]]. destruct e; cbn in H; try contradiction.
      destruct H as [H|[]]. eauto 8.
    - intros [rq [r [t [H E]]]]. eexists. split; [exact H|]. cbn. auto.
  Qed.
  Lemma proc_ids_snoc : forall (evs : list event) e,
    proc_ids (evs ++ [e]) = proc_ids evs ++ match e with EProc _ rq _ _ => [rq_id rq] | _ => [] end.
  Proof. intros. unfold proc_ids. rewrite flat_map_app. cbn. rewrite app_nil_r. reflexivity. Qed.
  Lemma ret_ids_snoc : forall (evs : list event) e,
    ret_ids (evs ++ [e]) = ret_ids evs ++ match e with ERet rq _ _ => [rq_id rq] | _ => [] end.
  Proof. intros. unfold ret_ids. rewrite flat_map_app. cbn. rewrite app_nil_r. reflexivity. Qed.
  Lemma procs_snoc : forall (evs : list event) e,
    procs (evs ++ [e]) = procs evs ++ match e with EProc _ rq r _ => [(rq_op rq, r)] | _ => [] end.
  Proof. intros. unfold procs. rewrite flat_map_app. cbn. rewrite app_nil_r. reflexivity. Qed.

  Record Inv (s : sys) (evs : list event) : Prop := {
    i_time : map ev_time evs = seq 0 (now s);
    i_mb : forall sh rq, In rq (mbox s sh) ->
             route (rq_op rq) = sh /\ exists k, cli s (rq_client rq) = Waiting rq k;
    i_mbnd : forall sh, NoDup (mbox s sh);
    i_wait : forall c rq k, cli s c = Waiting rq k ->
      rq_client rq = c /\ rq_slot rq < next_slot s /\ ~ In (rq_slot rq) (free s) /\
      In (EInv rq k) evs /\ ~ In (rq_id rq) (ret_ids evs) /\
      ((In rq (mbox s (route (rq_op rq))) /\ slots s (rq_slot rq) = None /\
        ~ In (rq_id rq) (proc_ids evs)) \/
       ((forall sh, ~ In rq (mbox s sh)) /\
        exists r t, slots s (rq_slot rq) = Some r /\ In (EProc (route (rq_op rq)) rq r t) evs));
    i_excl : forall c1 c2 rq1 rq2 k1 k2,
      cli s c1 = Waiting rq1 k1 -> cli s c2 = Waiting rq2 k2 -> rq_slot rq1 = rq_slot rq2 -> c1 = c2;
    i_free : NoDup (free s) /\
             (forall x, In x (free s) -> x < next_slot s /\ slots s x = None) /\
             (forall x, next_slot s <= x -> slots s x = None);
    i_inv : forall rq k, In (EInv rq k) evs -> rq_id rq < next_id s;
    i_inv_uniq : forall rq k rq' k', In (EInv rq k) evs -> In (EInv rq' k') evs ->
                   rq_id rq = rq_id rq' -> rq = rq';
    i_ret_uniq : forall rq r t rq' r' t', In (ERet rq r t) evs -> In (ERet rq' r' t') evs ->
                   rq_id rq = rq_id rq' -> rq = rq' /\ r = r' /\ t = t';
    i_proc_nd : NoDup (proc_ids evs);
    i_proc : forall sh rq r t, In (EProc sh rq r t) evs ->
               sh = route (rq_op rq) /\ rq_tinv rq < t /\ exists k, In (EInv rq k) evs;
    i_ret : forall rq r t, In (ERet rq r t) evs ->
               exists tp, In (EProc (route (rq_op rq)) rq r tp) evs /\ tp < t;
    i_legal : glegal g0 (procs evs) /\ forall sh, gfinal g0 (procs evs) sh = mach s sh
  }.

  Lemma inv_time_lt : forall s evs e, Inv s evs -> In e evs -> ev_time e < now s.
  Proof.
    intros s evs e I H. apply (in_map ev_time) in H. rewrite (i_time _ _ I) in H.
    apply in_seq in H. lia.
  Qed.
  Lemma proc_id_lt : forall s evs id, Inv s evs -> In id (proc_ids evs) -> id < next_id s.
  Proof.
    intros s evs id I H. apply in_proc_ids in H. destruct H as [sh [rq [r [t [H E]]]]].
    destruct (i_proc _ _ I _ _ _ _ H) as [_ [_ [k Hk]]]. subst. eapply i_inv; eassumption.
  Qed.
  Lemma ret_id_lt : forall s evs id, Inv s evs -> In id (ret_ids evs) -> id < next_id s.
  Proof.
    intros s evs id I H. apply in_ret_ids in H. destruct H as [rq [r [t [H E]]]].
    destruct (i_ret _ _ I _ _ _ H) as [tp [Hp _]]. subst.
    eapply proc_id_lt; [exact I|]. apply in_proc_ids. eauto 8.
  Qed.

  Lemma inv_init : Inv (sys_init g0 prewarm) [].
  Proof.
    constructor; cbn; try (intros; contradiction); try discriminate; auto.
    - intros. constructor.
    - split; [apply seq_NoDup|]. split; [|auto].
      intros x Hx. apply in_seq in Hx. split; [lia|reflexivity].
    - constructor.
  Qed.

  Lemma acquire_ok : forall s evs k slot fr nx,
    Inv s evs -> acquire k s = (slot, fr, nx) ->
    slot < nx /\ next_slot s <= nx /\ ~ In slot fr /\ NoDup fr /\
    (forall x, In x fr -> In x (free s)) /\ slots s slot = None /\
    (forall x, nx <= x -> slots s x = None) /\ (In slot (free s) \/ slot = next_slot s).
  Proof.
    intros s evs k slot fr nx I H. destruct (i_free _ _ I) as [F1 [F2 F3]].
    unfold acquire in H.
    assert (Fresh : (slot, fr, nx) = (next_slot s, free s, Datatypes.S (next_slot s)) ->
      slot < nx /\ next_slot s <= nx /\ ~ In slot fr /\ NoDup fr /\
      (forall x, In x fr -> In x (free s)) /\ slots s slot = None /\
      (forall x, nx <= x -> slots s x = None) /\ (In slot (free s) \/ slot = next_slot s)).
    { intro E. inversion E; subst. repeat split; auto; try lia.
      - intro Hin. apply F2 in Hin. lia.
      - intros. apply F3. lia. }
    destruct k; try (apply Fresh; congruence).
    destruct (free s) as [|x f'] eqn:Ef; [apply Fresh; congruence|].
    inversion H; subst. inversion F1; subst.
    destruct (F2 slot (or_introl eq_refl)) as [L N].
    repeat split; auto.
    - intros. right. assumption.
    - left. left. reflexivity.
  Qed.

  Lemma inv_invoke : forall s evs c k op slot fr nx,
    Inv s evs -> (forall rq k', cli s c <> Waiting rq k') ->
    acquire k s = (slot, fr, nx) ->
    let rq := Rq (next_id s) c op slot (now s) in
    Inv (Sys (upd (mbox s) (route op) (mbox s (route op) ++ [rq])) (mach s)
             (upd (cli s) c (Waiting rq k)) (slots s) fr nx
             (Datatypes.S (next_id s)) (Datatypes.S (now s)))
        (evs ++ [EInv rq k]).
  Proof.
    intros s evs c k op slot fr nx I Hc Ha rq.
    destruct (acquire_ok _ _ _ _ _ _ I Ha) as [A1 [A2 [A3 [A4 [A5 [A6 [A7 A8]]]]]]].
    assert (Hnotin : forall sh, ~ In rq (mbox s sh)).
    { intros sh Hin. destruct (i_mb _ _ I _ _ Hin) as [_ [k' Hk]]. cbn in Hk. exact (Hc _ _ Hk). }
    constructor; cbn [mbox mach cli slots free next_slot next_id now].
    - rewrite map_app, seq_S, (i_time _ _ I). reflexivity.
    - intros sh rq' Hin.
      assert (Hold : In rq' (mbox s sh) ->
                route (rq_op rq') = sh /\ exists k0, upd (cli s) c (Waiting rq k) (rq_client rq') = Waiting rq' k0).
      { intro Ho. destruct (i_mb _ _ I _ _ Ho) as [R [k' Hk]]. split; [exact R|].
        exists k'. rewrite upd_neq; [exact Hk|]. intro E. rewrite E in Hk. exact (Hc _ _ Hk). }
      destruct (Nat.eqb_spec sh (route op)) as [E|E].
      + subst sh. rewrite upd_eq in Hin. apply in_snoc in Hin. destruct Hin as [Hin|Hin]; [auto|].
        subst rq'. cbn. split; [reflexivity|]. exists k. apply upd_eq.
      + rewrite upd_neq in Hin by exact E. auto.
    - intros sh. destruct (Nat.eqb_spec sh (route op)) as [E|E].
      + subst sh. rewrite upd_eq. apply NoDup_snoc; [apply (i_mbnd _ _ I)|apply Hnotin].
      + rewrite upd_neq by exact E. apply (i_mbnd _ _ I).
    - intros c' rq' k' Hw. destruct (Nat.eqb_spec c' c) as [E|E].
      + subst c'. rewrite upd_eq in Hw. inversion Hw; subst rq' k'. cbn [rq_client rq_slot rq_id rq_op].
        split; [reflexivity|]. split; [exact A1|]. split; [exact A3|].
        split; [apply in_snoc; right; reflexivity|].
        split.
        { rewrite ret_ids_snoc, app_nil_r. intro H. apply (ret_id_lt _ _ _ I) in H. unfold rq in H. cbn in H. lia. }
        left. split; [rewrite upd_eq; apply in_snoc; right; reflexivity|].
        split; [exact A6|].
        rewrite proc_ids_snoc, app_nil_r. intro H. apply (proc_id_lt _ _ _ I) in H. unfold rq in H. cbn in H. lia.
      + rewrite upd_neq in Hw by exact E.
        destruct (i_wait _ _ I _ _ _ Hw) as [W1 [W2 [W3 [W4 [W5 W6]]]]].
        split; [exact W1|]. split; [lia|]. split; [intro H; apply W3; apply A5; exact H|].
        split; [apply in_snoc; left; exact W4|].
        split; [rewrite ret_ids_snoc, app_nil_r; exact W5|].
        destruct W6 as [[M1 [M2 M3]]|[M1 [r [t [M2 M3]]]]].
        * left. split; [|split; [exact M2|rewrite proc_ids_snoc, app_nil_r; exact M3]].
          destruct (Nat.eqb_spec (route (rq_op rq')) (route op)) as [E'|E'].
          -- rewrite E'. rewrite upd_eq. apply in_snoc. left. rewrite <- E'. exact M1.
          -- rewrite upd_neq by exact E'. exact M1.
        * right. split.
          -- intros sh Hin. destruct (Nat.eqb_spec sh (route op)) as [E'|E'].
             ++ subst sh. rewrite upd_eq in Hin. apply in_snoc in Hin. destruct Hin as [Hin|Hin].
                ** exact (M1 _ Hin).
                ** subst rq'. cbn in W1. congruence.
             ++ rewrite upd_neq in Hin by exact E'. exact (M1 _ Hin).
          -- exists r, t. split; [exact M2|apply in_snoc; left; exact M3].
    - intros c1 c2 rq1 rq2 k1 k2 H1 H2 Hs.
      destruct (Nat.eqb_spec c1 c) as [E1|E1], (Nat.eqb_spec c2 c) as [E2|E2]; subst; try reflexivity.
      + rewrite upd_eq in H1. rewrite upd_neq in H2 by exact E2. inversion H1; subst rq1 k1.
        cbn in Hs. destruct (i_wait _ _ I _ _ _ H2) as [_ [W2 [W3 _]]].
        exfalso. destruct A8 as [A8|A8]; [apply W3; rewrite <- Hs; exact A8|lia].
      + rewrite upd_eq in H2. rewrite upd_neq in H1 by exact E1. inversion H2; subst rq2 k2.
        cbn in Hs. destruct (i_wait _ _ I _ _ _ H1) as [_ [W2 [W3 _]]].
        exfalso. destruct A8 as [A8|A8]; [apply W3; rewrite Hs; exact A8|lia].
      + rewrite upd_neq in H1 by exact E1. rewrite upd_neq in H2 by exact E2.
        eapply (i_excl _ _ I); eassumption.
    - destruct (i_free _ _ I) as [F1 [F2 F3]]. split; [exact A4|]. split; [|exact A7].
      intros x Hx. apply A5 in Hx. destruct (F2 _ Hx). split; [lia|assumption].
    - intros rq' k' Hin. apply in_snoc in Hin. destruct Hin as [Hin|Hin].
      + apply (i_inv _ _ I) in Hin. lia.
      + inversion Hin; subst. cbn. lia.
    - intros rq1 k1 rq2 k2 H1 H2 Hid. apply in_snoc in H1. apply in_snoc in H2.
      destruct H1 as [H1|H1], H2 as [H2|H2].
      + eapply (i_inv_uniq _ _ I); eassumption.
      + inversion H2; subst rq2 k2. apply (i_inv _ _ I) in H1. cbn in Hid. lia.
      + inversion H1; subst rq1 k1. apply (i_inv _ _ I) in H2. cbn in Hid. lia.
      + congruence.
    - intros rq1 r1 t1 rq2 r2 t2 H1 H2 Hid. apply in_snoc in H1. apply in_snoc in H2.
      destruct H1 as [H1|H1]; [|discriminate]. destruct H2 as [H2|H2]; [|discriminate].
      eapply (i_ret_uniq _ _ I); eassumption.
    - rewrite proc_ids_snoc, app_nil_r. apply (i_proc_nd _ _ I).
    - intros sh rq' r t Hin. apply in_snoc in Hin. destruct Hin as [Hin|Hin]; [|discriminate].
      destruct (i_proc _ _ I _ _ _ _ Hin) as [P1 [P2 [k' P3]]].
      split; [exact P1|]. split; [exact P2|]. exists k'. apply in_snoc. left. exact P3.
    - intros rq' r t Hin. apply in_snoc in Hin. destruct Hin as [Hin|Hin]; [|discriminate].
      destruct (i_ret _ _ I _ _ _ Hin) as [tp [P1 P2]]. exists tp. split; [apply in_snoc; left; exact P1|exact P2].
    - rewrite procs_snoc, app_nil_r. apply (i_legal _ _ I).
  Qed.

  Lemma inv_process : forall s evs sh rq0 rest,
    Inv s evs -> mbox s sh = rq0 :: rest ->
    let st := fst (step (mach s sh) (rq_op rq0)) in
    let r := snd (step (mach s sh) (rq_op rq0)) in
    Inv (Sys (upd (mbox s) sh rest) (upd (mach s) sh st) (cli s)
             (upd (slots s) (rq_slot rq0) (Some r)) (free s) (next_slot s)
             (next_id s) (Datatypes.S (now s)))
        (evs ++ [EProc sh rq0 r (now s)]).
  Proof.
    intros s evs sh rq0 rest I Hm st r.
    assert (Hin0 : In rq0 (mbox s sh)) by (rewrite Hm; left; reflexivity).
    destruct (i_mb _ _ I _ _ Hin0) as [R0 [k0 C0]].
    destruct (i_wait _ _ I _ _ _ C0) as [W1 [W2 [W3 [W4 [W5 W6]]]]].
    destruct W6 as [[M1 [M2 M3]]|[M1 _]]; [|exfalso; exact (M1 _ Hin0)].
    pose proof (i_mbnd _ _ I sh) as ND. rewrite Hm in ND. apply NoDup_cons_iff in ND. destruct ND as [ND1 ND2].
    assert (Hother : forall c rq k, cli s c = Waiting rq k -> c <> rq_client rq0 ->
                       rq <> rq0 /\ rq_slot rq <> rq_slot rq0 /\ rq_id rq <> rq_id rq0).
    { intros c rq k Hw Hne. destruct (i_wait _ _ I _ _ _ Hw) as [V1 [_ [_ [V4 _]]]].
      split; [intro; subst; congruence|]. split.
      - intro Es. apply Hne. eapply (i_excl _ _ I); eassumption.
      - intro Ei. apply Hne. rewrite (i_inv_uniq _ _ I _ _ _ _ V4 W4 Ei) in V1. congruence. }
    constructor; cbn [mbox mach cli slots free next_slot next_id now].
    - rewrite map_app, seq_S, (i_time _ _ I). reflexivity.
    - intros sh' rq' Hin. destruct (Nat.eqb_spec sh' sh) as [E|E].
      + subst sh'. rewrite upd_eq in Hin. apply (i_mb _ _ I). rewrite Hm. right. exact Hin.
      + rewrite upd_neq in Hin by exact E. apply (i_mb _ _ I). exact Hin.
    - intros sh'. destruct (Nat.eqb_spec sh' sh) as [E|E].
      + subst sh'. rewrite upd_eq. exact ND2.
      + rewrite upd_neq by exact E. apply (i_mbnd _ _ I).
    - intros c rq k Hw.
      destruct (i_wait _ _ I _ _ _ Hw) as [V1 [V2 [V3 [V4 [V5 V6]]]]].
      split; [exact V1|]. split; [exact V2|]. split; [exact V3|].
      split; [apply in_snoc; left; exact V4|].
      split; [rewrite ret_ids_snoc, app_nil_r; exact V5|].
      destruct (Nat.eqb_spec c (rq_client rq0)) as [E|E].
      + rewrite E in Hw. rewrite C0 in Hw. inversion Hw; subst rq k.
        right. split.
        * intros sh' Hin. destruct (Nat.eqb_spec sh' sh) as [E'|E'].
          -- subst sh'. rewrite upd_eq in Hin. exact (ND1 Hin).
          -- rewrite upd_neq in Hin by exact E'. destruct (i_mb _ _ I _ _ Hin) as [R' _]. congruence.
        * exists r, (now s). split; [apply upd_eq|]. apply in_snoc. right. rewrite R0. reflexivity.
      + destruct (Hother _ _ _ Hw E) as [O1 [O2 O3]].
        rewrite (upd_neq _ (slots s)) by exact O2.
        destruct V6 as [[N1 [N2 N3]]|[N1 [r' [t' [N2 N3]]]]].
        * left. split; [|split; [exact N2|]].
          -- destruct (Nat.eqb_spec (route (rq_op rq)) sh) as [E'|E'].
             ++ rewrite E', upd_eq. rewrite E', Hm in N1. destruct N1 as [N1|N1]; [congruence|exact N1].
             ++ rewrite upd_neq by exact E'. exact N1.
          -- rewrite proc_ids_snoc. intro H. apply in_snoc in H. destruct H as [H|H]; [exact (N3 H)|congruence].
        * right. split.
          -- intros sh' Hin. destruct (Nat.eqb_spec sh' sh) as [E'|E'].
             ++ subst sh'. rewrite upd_eq in Hin. apply (N1 sh). rewrite Hm. right. exact Hin.
             ++ rewrite upd_neq in Hin by exact E'. exact (N1 _ Hin).
          -- exists r', t'. split; [exact N2|apply in_snoc; left; exact N3].
    - apply (i_excl _ _ I).
    - destruct (i_free _ _ I) as [F1 [F2 F3]]. split; [exact F1|]. split.
      + intros x Hx. destruct (F2 _ Hx) as [L N]. split; [exact L|].
        rewrite upd_neq; [exact N|]. intro; subst. exact (W3 Hx).
      + intros x Hx. rewrite upd_neq; [apply F3; exact Hx|lia].
    - intros rq' k' Hin. apply in_snoc in Hin. destruct Hin as [Hin|Hin]; [|discriminate].
      apply (i_inv _ _ I) in Hin. exact Hin.
    - intros rq1 k1 rq2 k2 H1 H2 Hid. apply in_snoc in H1. apply in_snoc in H2.
      destruct H1 as [H1|H1]; [|discriminate]. destruct H2 as [H2|H2]; [|discriminate].
      eapply (i_inv_uniq _ _ I); eassumption.
    - intros rq1 r1 t1 rq2 r2 t2 H1 H2 Hid. apply in_snoc in H1. apply in_snoc in H2.
      destruct H1 as [H1|H1]; [|discriminate]. destruct H2 as [H2|H2]; [|discriminate].
      eapply (i_ret_uniq _ _ I); eassumption.
    - rewrite proc_ids_snoc. apply NoDup_snoc; [apply (i_proc_nd _ _ I)|exact M3].
    - intros sh' rq' r' t Hin. apply in_snoc in Hin. destruct Hin as [Hin|Hin].
      + destruct (i_proc _ _ I _ _ _ _ Hin) as [P1 [P2 [k' P3]]].
        split; [exact P1|]. split; [exact P2|]. exists k'. apply in_snoc. left. exact P3.
      + inversion Hin; subst sh' rq' r' t. split; [symmetry; exact R0|]. split.
        * apply (inv_time_lt _ _ _ I W4).
        * exists k0. apply in_snoc. left. exact W4.
    - intros rq' r' t Hin. apply in_snoc in Hin. destruct Hin as [Hin|Hin]; [|discriminate].
      destruct (i_ret _ _ I _ _ _ Hin) as [tp [P1 P2]]. exists tp. split; [apply in_snoc; left; exact P1|exact P2].
    - destruct (i_legal _ _ I) as [L1 L2]. rewrite procs_snoc. split.
      + apply legal_app. split; [exact L1|]. cbn. split; [|trivial].
        unfold r. rewrite R0, L2. reflexivity.
      + intros sh'. rewrite final_app. cbn. unfold upd at 1. rewrite R0.
        destruct (Nat.eqb_spec sh' sh) as [E|E].
        * subst sh'. rewrite upd_eq. rewrite L2. reflexivity.
        * rewrite upd_neq by exact E. apply L2.
  Qed.

  Lemma release_in : forall k slot fr x, In x (release cap k slot fr) -> In x fr \/ x = slot.
  Proof.
    intros k slot fr x H. unfold release in H. destruct k; auto.
    destruct (length fr <? cap); auto. apply in_snoc in H. exact H.
  Qed.
  Lemma release_nodup : forall k slot fr, NoDup fr -> ~ In slot fr -> NoDup (release cap k slot fr).
  Proof.
    intros k slot fr H Hn. unfold release. destruct k; auto.
    destruct (length fr <? cap); auto. apply NoDup_snoc; assumption.
  Qed.

  Lemma inv_return : forall s evs c rq k r,
    Inv s evs -> cli s c = Waiting rq k -> slots s (rq_slot rq) = Some r ->
    Inv (Sys (mbox s) (mach s) (upd (cli s) c (Done r))
             (upd (slots s) (rq_slot rq) None)
             (release cap k (rq_slot rq) (free s)) (next_slot s)
             (next_id s) (Datatypes.S (now s)))
        (evs ++ [ERet rq r (now s)]).
  Proof.
    intros s evs c rq k r I Hw Hs.
    destruct (i_wait _ _ I _ _ _ Hw) as [W1 [W2 [W3 [W4 [W5 W6]]]]].
    destruct W6 as [[_ [M2 _]]|[M1 [r' [t' [M2 M3]]]]]; [congruence|].
    assert (r' = r) by congruence. subst r'.
    assert (Hother : forall c' rq' k', cli s c' = Waiting rq' k' -> c' <> c ->
                       rq_slot rq' <> rq_slot rq /\ rq_id rq' <> rq_id rq).
    { intros c' rq' k' Hw' Hne. destruct (i_wait _ _ I _ _ _ Hw') as [V1 [_ [_ [V4 _]]]]. split.
      - intro Es. apply Hne. eapply (i_excl _ _ I); eassumption.
      - intro Ei. apply Hne. rewrite (i_inv_uniq _ _ I _ _ _ _ V4 W4 Ei) in V1. congruence. }
    constructor; cbn [mbox mach cli slots free next_slot next_id now].
    - rewrite map_app, seq_S, (i_time _ _ I). reflexivity.
    - intros sh rq' Hin. destruct (i_mb _ _ I _ _ Hin) as [R [k' Hk]]. split; [exact R|].
      exists k'. rewrite upd_neq; [exact Hk|]. intro E. rewrite E, Hw in Hk. inversion Hk; subst.
      exact (M1 _ Hin).
    - apply (i_mbnd _ _ I).
    - intros c' rq' k' Hw'. destruct (Nat.eqb_spec c' c) as [E|E].
      + subst c'. rewrite upd_eq in Hw'. discriminate.
      + rewrite upd_neq in Hw' by exact E.
        destruct (Hother _ _ _ Hw' E) as [O1 O2].
        destruct (i_wait _ _ I _ _ _ Hw') as [V1 [V2 [V3 [V4 [V5 V6]]]]].
        split; [exact V1|]. split; [exact V2|]. split.
        { intro H. apply release_in in H. destruct H as [H|H]; [exact (V3 H)|exact (O1 H)]. }
        split; [apply in_snoc; left; exact V4|].
        split.
        { rewrite ret_ids_snoc. intro H. apply in_snoc in H. destruct H as [H|H]; [exact (V5 H)|exact (O2 H)]. }
        rewrite (upd_neq _ (slots s)) by exact O1.
        rewrite proc_ids_snoc, app_nil_r.
        destruct V6 as [N|[N1 [r'' [t'' [N2 N3]]]]]; [left; exact N|].
        right. split; [exact N1|]. exists r'', t''. split; [exact N2|apply in_snoc; left; exact N3].
    - intros c1 c2 rq1 rq2 k1 k2 H1 H2 Hsl.
      destruct (Nat.eqb_spec c1 c) as [E1|E1]; [subst c1; rewrite upd_eq in H1; discriminate|].
      destruct (Nat.eqb_spec c2 c) as [E2|E2]; [subst c2; rewrite upd_eq in H2; discriminate|].
      rewrite upd_neq in H1 by exact E1. rewrite upd_neq in H2 by exact E2.
      eapply (i_excl _ _ I); eassumption.
    - destruct (i_free _ _ I) as [F1 [F2 F3]]. split; [apply release_nodup; assumption|]. split.
      + intros x Hx. apply release_in in Hx. destruct Hx as [Hx|Hx].
        * destruct (F2 _ Hx) as [L N]. split; [exact L|].
          rewrite upd_neq; [exact N|]. intro; subst. exact (W3 Hx).
        * subst x. split; [exact W2|apply upd_eq].
      + intros x Hx. rewrite upd_neq; [apply F3; exact Hx|lia].
    - intros rq' k' Hin. apply in_snoc in Hin. destruct Hin as [Hin|Hin]; [|discriminate].
      apply (i_inv _ _ I) in Hin. exact Hin.
    - intros rq1 k1 rq2 k2 H1 H2 Hid. apply in_snoc in H1. apply in_snoc in H2.
      destruct H1 as [H1|H1]; [|discriminate]. destruct H2 as [H2|H2]; [|discriminate].
      eapply (i_inv_uniq _ _ I); eassumption.
    - intros rq1 r1 t1 rq2 r2 t2 H1 H2 Hid. apply in_snoc in H1. apply in_snoc in H2.
      destruct H1 as [H1|H1], H2 as [H2|H2].
      + eapply (i_ret_uniq _ _ I); eassumption.
      + inversion H2; subst rq2 r2 t2. exfalso. apply W5. apply in_ret_ids. eauto 8.
      + inversion H1; subst rq1 r1 t1. exfalso. apply W5. apply in_ret_ids. exists rq2, r2, t2. split; [exact H2|congruence].
      + inversion H1. inversion H2. subst. auto.
    - rewrite proc_ids_snoc, app_nil_r. apply (i_proc_nd _ _ I).
    - intros sh rq' r0 t Hin. apply in_snoc in Hin. destruct Hin as [Hin|Hin]; [|discriminate].
      destruct (i_proc _ _ I _ _ _ _ Hin) as [P1 [P2 [k' P3]]].
      split; [exact P1|]. split; [exact P2|]. exists k'. apply in_snoc. left. exact P3.
    - intros rq' r0 t Hin. apply in_snoc in Hin. destruct Hin as [Hin|Hin].
      + destruct (i_ret _ _ I _ _ _ Hin) as [tp [P1 P2]]. exists tp. split; [apply in_snoc; left; exact P1|exact P2].
      + inversion Hin; subst rq' r0 t. exists t'. split; [apply in_snoc; left; exact M3|].
        apply (inv_time_lt _ _ _ I M3).
    - rewrite procs_snoc, app_nil_r. apply (i_legal _ _ I).
  Qed.

  Lemma inv_step : forall s evs l s' e, Inv s evs -> sstep s l = Some (s', e) -> Inv s' (evs ++ [e]).
  Proof.
    intros s evs l s' e I H. destruct l as [c k op|sh|c]; cbn in H.
    - destruct (acquire k s) as [[slot fr] nx] eqn:Ea.
      destruct (cli s c) eqn:Ec; try discriminate; inversion H; subst;
        (eapply inv_invoke; [exact I|intros ? ?; rewrite Ec; discriminate|exact Ea]).
    - destruct (mbox s sh) as [|rq0 rest] eqn:Em; [discriminate|]. inversion H; subst.
      apply inv_process; assumption.
    - destruct (cli s c) as [|rq k|] eqn:Ec; try discriminate.
      destruct (slots s (rq_slot rq)) as [r|] eqn:Es; [|discriminate]. inversion H; subst.
      apply inv_return; assumption.
  Qed.

  Lemma reach_inv : forall s evs, reach s evs -> Inv s evs.
  Proof. induction 1; [apply inv_init|eapply inv_step; eassumption]. Qed.

  Lemma run_inv : forall ls s evs, run step route cap (sys_init g0 prewarm) ls = Some (s, evs) -> Inv s evs.
  Proof.
    intros ls s evs H. apply reach_inv. apply (run_reach ls _ [] _ _ reach_init H).
  Qed.

  (* ---- the theorems about traces ---- *)
  Notation init := (sys_init g0 prewarm).

  Lemma actor_linearizable_lemma : forall ls s evs,
    run step route cap init ls = Some (s, evs) ->
    (* (1) the Process order is a legal sequential run of the node, ending in the shards' states *)
    (glegal g0 (procs evs) /\ forall sh, gfinal g0 (procs evs) sh = mach s sh) /\
    (* (2) every returned reply is the reply computed when the client's own request was
           processed, and that instant lies between invocation and response *)
    (forall rq r t, In (ERet rq r t) evs ->
       exists k tp, In (EInv rq k) evs /\ In (EProc (route (rq_op rq)) rq r tp) evs /\
                    rq_tinv rq < tp /\ tp < t) /\
    (* (3) real-time order: a returned before b was invoked => a was processed before b *)
    (forall a ra ta b shb rb tb, In (ERet a ra ta) evs -> ta < rq_tinv b ->
       In (EProc shb b rb tb) evs ->
       exists tpa, In (EProc (route (rq_op a)) a ra tpa) evs /\ tpa < tb) /\
    (* event number i carries instant i, so instants are positions in the trace *)
    map ev_time evs = seq 0 (length evs).
  Proof.
    intros ls s evs H. pose proof (run_inv _ _ _ H) as I.
    assert (P2 : forall rq r t, In (ERet rq r t) evs ->
       exists k tp, In (EInv rq k) evs /\ In (EProc (route (rq_op rq)) rq r tp) evs /\
                    rq_tinv rq < tp /\ tp < t).
    { intros rq r t Hr. destruct (i_ret _ _ I _ _ _ Hr) as [tp [Hp Hlt]].
      destruct (i_proc _ _ I _ _ _ _ Hp) as [_ [Hlt2 [k Hk]]]. exists k, tp. auto. }
    split; [apply (i_legal _ _ I)|]. split; [exact P2|]. split.
    - intros a ra ta b shb rb tb Ha Hlt Hb.
      destruct (P2 _ _ _ Ha) as [k [tp [_ [Hp [_ Hlt2]]]]].
      destruct (i_proc _ _ I _ _ _ _ Hb) as [_ [Hlt3 _]].
      exists tp. split; [exact Hp|lia].
    - pose proof (i_time _ _ I) as T. rewrite T.
      apply (f_equal (@length nat)) in T. rewrite map_length, seq_length in T. rewrite T. reflexivity.
  Qed.

  Lemma slot_exclusive_lemma : forall ls s evs,
    run step route cap init ls = Some (s, evs) ->
    (* two in-flight requests never share a reply cell; an in-flight cell is not in the pool;
       the pool holds no cell twice *)
    (forall c1 c2 rq1 rq2 k1 k2, cli s c1 = Waiting rq1 k1 -> cli s c2 = Waiting rq2 k2 ->
       rq_slot rq1 = rq_slot rq2 -> c1 = c2) /\
    (forall c rq k, cli s c = Waiting rq k -> ~ In (rq_slot rq) (free s)) /\
    NoDup (free s) /\
    (* whatever a client reads next from its cell is the reply computed for its own request *)
    (forall c s' rq r t, sstep s (LReturn c) = Some (s', ERet rq r t) ->
       rq_client rq = c /\ exists k tp, In (EInv rq k) evs /\ In (EProc (route (rq_op rq)) rq r tp) evs) /\
    (* and every reply returned so far was *)
    (forall rq r t, In (ERet rq r t) evs ->
       exists k tp, In (EInv rq k) evs /\ In (EProc (route (rq_op rq)) rq r tp) evs).
  Proof.
    intros ls s evs H. pose proof (run_inv _ _ _ H) as I.
    split; [apply (i_excl _ _ I)|]. split.
    { intros c rq k Hw. apply (i_wait _ _ I _ _ _ Hw). }
    split; [apply (i_free _ _ I)|]. split.
    - intros c s' rq r t Hs.
      pose proof (inv_step _ _ _ _ _ I Hs) as I'.
      cbn in Hs. destruct (cli s c) as [|rq' k|] eqn:Ec; try discriminate.
      destruct (slots s (rq_slot rq')) as [r'|] eqn:Es; [|discriminate]. inversion Hs; subst.
      destruct (i_wait _ _ I _ _ _ Ec) as [W1 [_ [_ [W4 [_ W6]]]]].
      split; [exact W1|]. exists k.
      destruct W6 as [[_ [M2 _]]|[_ [r' [t' [M2 M3]]]]]; [congruence|].
      exists t'. split; [exact W4|]. congruence.
    - intros rq r t Hr. destruct (i_ret _ _ I _ _ _ Hr) as [tp [Hp _]].
      destruct (i_proc _ _ I _ _ _ _ Hp) as [_ [_ [k Hk]]]. eauto.
  Qed.

  (* ---- the history of a trace, classical form ---- *)
  Definition order_of (full l : list event) : list (oprec Op Reply * nat) :=
    flat_map (fun e => match e with
                       | EProc _ rq r t =>
                           [(OpRec (rq_id rq) (rq_tinv rq) (find_ret (rq_id rq) full) (rq_op rq) r, t)]
                       | _ => [] end) l.
  Definition pending_of (full l : list event) : list (pendrec Op) :=
    flat_map (fun e => match e with
                       | EInv rq _ => match find_ret (rq_id rq) full with
                                      | None => [PendRec (rq_id rq) (rq_tinv rq) (rq_op rq)]
                                      | Some _ => [] end
                       | _ => [] end) l.

  Lemma order_of_ids : forall full l, map o_id (map fst (order_of full l)) = proc_ids l.
  Proof.
    induction l as [|e l IH]; [reflexivity|]. unfold order_of, proc_ids in *. cbn [flat_map].
    rewrite !map_app, IH. destruct e; reflexivity.
  Qed.
  Lemma order_of_procs : forall full l, map opr (map fst (order_of full l)) = procs l.
  Proof.
    induction l as [|e l IH]; [reflexivity|]. unfold order_of, procs in *. cbn [flat_map].
    rewrite !map_app, IH. destruct e; reflexivity.
  Qed.
  Lemma in_order_of : forall full l x,
    In x (order_of full l) <->
    exists sh rq r t, In (EProc sh rq r t) l /\
      x = (OpRec (rq_id rq) (rq_tinv rq) (find_ret (rq_id rq) full) (rq_op rq) r, t).
  Proof.
    intros full l x. unfold order_of. rewrite in_flat_map. split.
    - intros [e [He H]]. destruct e; cbn in H; try contradiction. destruct H as [H|[]]. eauto 8.
    - intros [sh [rq [r [t [H E]]]]]. eexists. split; [exact H|]. cbn. auto.
  Qed.
  Lemma in_completed : forall (l : list event) o,
    In o (completed l) <->
    exists rq r t, In (ERet rq r t) l /\ o = OpRec (rq_id rq) (rq_tinv rq) (Some t) (rq_op rq) r.
  Proof.
    intros l o. unfold completed. rewrite in_flat_map. split.
    - intros [e [He H]]. destruct e; cbn in H; try contradiction. destruct H as [H|[]]. eauto 8.
    - intros [rq [r [t [H E]]]]. eexists. split; [exact H|]. cbn. auto.
  Qed.
  Lemma in_pending_of : forall full l rq k,
    In (EInv rq k) l -> find_ret (rq_id rq) full = None ->
    In (PendRec (rq_id rq) (rq_tinv rq) (rq_op rq)) (pending_of full l).
  Proof.
    intros full l rq k H E. unfold pending_of. apply in_flat_map.
    eexists. split; [exact H|]. cbn. rewrite E. left. reflexivity.
  Qed.
  Lemma find_ret_some : forall (l : list event) id t,
    find_ret id l = Some t -> exists rq r, In (ERet rq r t) l /\ rq_id rq = id.
  Proof.
    induction l as [|e l IH]; cbn; intros id t H; [discriminate|].
    destruct e as [rq k|sh rq r t0|rq r t0].
    - destruct (IH _ _ H) as [rq' [r' [H1 H2]]]. eauto.
    - destruct (IH _ _ H) as [rq' [r' [H1 H2]]]. eauto.
    - destruct (Nat.eqb_spec (rq_id rq) id) as [E|E].
      + inversion H; subst. eauto.
      + destruct (IH _ _ H) as [rq' [r' [H1 H2]]]. eauto.
  Qed.
  Lemma find_ret_in : forall (l : list event) rq r t,
    In (ERet rq r t) l -> exists t', find_ret (rq_id rq) l = Some t'.
  Proof.
    induction l as [|e l IH]; cbn; intros rq r t H; [contradiction|].
    destruct H as [H|H].
    - subst e. rewrite Nat.eqb_refl. eauto.
    - destruct e as [rq' k|sh rq' r' t0|rq' r' t0]; try (eapply IH; eassumption).
      destruct (Nat.eqb (rq_id rq') (rq_id rq)); [eauto|eapply IH; eassumption].
  Qed.
  Lemma order_of_times : forall full l x,
    In x (map snd (order_of full l)) -> In x (map ev_time l).
  Proof.
    intros full l x H. apply in_map_iff in H. destruct H as [[o p] [E H]]. cbn in E. subst p.
    apply in_order_of in H. destruct H as [sh [rq [r [t [H E]]]]]. inversion E; subst.
    apply in_map_iff. exists (EProc sh rq r t). auto.
  Qed.
  Lemma order_of_sorted : forall full l,
    StronglySorted lt (map ev_time l) -> StronglySorted lt (map snd (order_of full l)).
  Proof.
    induction l as [|e l IH]; cbn; intros H; [constructor|].
    inversion H; subst. specialize (IH H2).
    unfold order_of. cbn [flat_map]. fold (order_of full l). rewrite map_app.
    destruct e as [rq k|sh rq r t|rq r t]; cbn; try exact IH.
    constructor; [exact IH|]. apply Forall_forall. intros x Hx.
    apply order_of_times in Hx. rewrite Forall_forall in H3. apply H3 in Hx. exact Hx.
  Qed.

  Lemma actor_lin_points_lemma : forall ls s evs,
    run step route cap init ls = Some (s, evs) ->
    lin_points (nat -> S) Op Reply gst g0 (completed evs) (pending evs).
  Proof.
    intros ls s evs H. pose proof (run_inv _ _ _ H) as I.
    exists (order_of evs evs).
    assert (FR : forall rq r t, In (ERet rq r t) evs -> find_ret (rq_id rq) evs = Some t).
    { intros rq r t Hr. destruct (find_ret_in _ _ _ _ Hr) as [t' Ht]. rewrite Ht.
      destruct (find_ret_some _ _ _ Ht) as [rq' [r' [Hr' Hid]]].
      destruct (i_ret_uniq _ _ I _ _ _ _ _ _ Hr' Hr Hid) as [_ [_ E]]. congruence. }
    assert (PU : forall sh rq r t sh' rq' r' t', In (EProc sh rq r t) evs -> In (EProc sh' rq' r' t') evs ->
                   rq_id rq = rq_id rq' -> EProc sh rq r t = EProc sh' rq' r' t').
    { intros sh rq r t sh' rq' r' t' H1 H2 Hid.
      eapply (NoDup_flat_map_inj _ _ _ _ _ _ (rq_id rq) (i_proc_nd _ _ I) H1 H2); cbn; auto. }
    split; [|split; [|split]].
    - split; [|split].
      + rewrite order_of_ids. apply (i_proc_nd _ _ I).
      + intros o Ho. apply in_completed in Ho. destruct Ho as [rq [r [t [Hr E]]]]. subst o.
        destruct (i_ret _ _ I _ _ _ Hr) as [tp [Hp _]].
        apply in_map_iff. eexists (_, tp). split; [|apply in_order_of; eauto 8].
        cbn. rewrite (FR _ _ _ Hr). reflexivity.
      + intros o Ho. apply in_map_iff in Ho. destruct Ho as [[o' p] [E Ho]]. cbn in E. subst o'.
        apply in_order_of in Ho. destruct Ho as [sh [rq [r [t [Hp E]]]]]. inversion E; subst o p. clear E.
        destruct (find_ret (rq_id rq) evs) as [tr|] eqn:Ef.
        * left. destruct (find_ret_some _ _ _ Ef) as [rq' [r' [Hr Hid]]].
          destruct (i_ret _ _ I _ _ _ Hr) as [tp [Hp' _]].
          pose proof (PU _ _ _ _ _ _ _ _ Hp' Hp Hid) as E. inversion E; subst.
          apply in_completed. eauto 8.
        * right. destruct (i_proc _ _ I _ _ _ _ Hp) as [_ [_ [k Hk]]].
          exists (PendRec (rq_id rq) (rq_tinv rq) (rq_op rq)), r. split; [|reflexivity].
          exact (in_pending_of evs evs _ _ Hk Ef).
    - rewrite order_of_procs. apply (i_legal _ _ I).
    - apply order_of_sorted. rewrite (i_time _ _ I). apply seq_sorted.
    - apply Forall_forall. intros [o p] Ho. apply in_order_of in Ho.
      destruct Ho as [sh [rq [r [t [Hp E]]]]]. inversion E; subst o p. clear E.
      destruct (i_proc _ _ I _ _ _ _ Hp) as [_ [Hlt _]].
      split; cbn; [exact Hlt|]. intros tr Ef.
      destruct (find_ret_some _ _ _ Ef) as [rq' [r' [Hr Hid]]].
      destruct (i_ret _ _ I _ _ _ Hr) as [tp [Hp' Hlt']].
      pose proof (PU _ _ _ _ _ _ _ _ Hp' Hp Hid) as E. inversion E; subst. exact Hlt'.
  Qed.

  Lemma actor_classical_lemma : forall ls s evs,
    run step route cap init ls = Some (s, evs) ->
    linearizable (nat -> S) Op Reply gst g0 (completed evs) (pending evs).
  Proof.
    intros. apply points_imply_linearizable_gen. eapply actor_lin_points_lemma. eassumption.
  Qed.
End ActorProofs.

(* ------------------------------------------------------------------------------------ *)
(* 3. projection to one key                                                               *)
(* ------------------------------------------------------------------------------------ *)
Section KeyProofs.
  Variable S Op Reply : Type.
  Variable step : S -> Op -> S * Reply.
  Variable route : Op -> nat.
  Variable K V KReply : Type.
  Variable touches : Op -> K -> bool.
  Variable view : S -> K -> V.
  Variable kstep : K -> V -> Op -> V * KReply.
  Variable rproj : K -> Reply -> KReply.
  Variable home : K -> nat.

  (* an operation that touches key k acts on k's part of the state like the per-key machine,
     and returns (the k-part of) the reply that machine returns *)
  Hypothesis key_local : forall s op k, touches op k = true ->
    kstep k (view s k) op = (view (fst (step s op)) k, rproj k (snd (step s op))).
  (* an operation that does not touch k leaves k's part alone *)
  Hypothesis key_frame : forall s op k, touches op k = false -> view (fst (step s op)) k = view s k.
  (* every path routes every operation that touches k to k's one home shard *)
  Hypothesis single_homed : forall op k, touches op k = true -> route op = home k.

  Notation gst := (gstep step route).

  Lemma legal_project : forall l g k,
    legal (nat -> S) Op Reply gst g l ->
    legal V Op KReply (kstep k) (view (g (home k)) k) (proj_ops Op Reply KReply K touches rproj k l).
  Proof.
    induction l as [|[op r] t IH]; intros g k H; [exact Logic.I|].
    cbn in H. destruct H as [H1 H2]. unfold proj_ops. cbn [filter fst].
    destruct (touches op k) eqn:Et.
    - cbn [map fst snd]. pose proof (single_homed _ _ Et) as Rh.
      pose proof (key_local (g (home k)) op k Et) as KL.
      cbn. rewrite KL. cbn [fst snd]. split.
      + rewrite <- Rh. rewrite H1. reflexivity.
      + specialize (IH _ k H2). unfold proj_ops in IH.
        rewrite Rh in IH. rewrite upd_eq in IH. exact IH.
    - specialize (IH _ k H2). unfold proj_ops in IH.
      assert (E : view (upd g (route op) (fst (step (g (route op)) op)) (home k)) k = view (g (home k)) k).
      { destruct (Nat.eqb_spec (home k) (route op)) as [E|E].
        - rewrite E, upd_eq. rewrite <- E. apply key_frame. exact Et.
        - rewrite upd_neq by exact E. reflexivity. }
      rewrite E in IH. exact IH.
  Qed.

  Notation ph := (proj_hist Op Reply KReply K touches rproj).
  Notation pp := (proj_pend Op K touches).

  Lemma proj_hist_opr : forall k l,
    map opr (ph k l) = proj_ops Op Reply KReply K touches rproj k (map opr l).
  Proof.
    induction l as [|o t IH]; [reflexivity|].
    unfold proj_hist, proj_ops in *. cbn [filter map opr fst]. destruct (touches (o_op o) k); cbn; rewrite IH; reflexivity.
  Qed.

  Lemma rt_ok_proj : forall k l, rt_ok l -> rt_ok (ph k l).
  Proof.
    induction l as [|a t IH]; intros H; [exact Logic.I|].
    cbn in H. destruct H as [H1 H2]. unfold proj_hist. cbn [filter].
    destruct (touches (o_op a) k); [|apply IH; exact H2].
    cbn [map]. split; [|apply IH; exact H2].
    intros b Hb. apply in_map_iff in Hb. destruct Hb as [b0 [E Hb]]. subst b.
    apply filter_In in Hb. destruct Hb as [Hb _]. exact (H1 _ Hb).
  Qed.

  Lemma linearizable_project : forall g comp pend k,
    linearizable (nat -> S) Op Reply gst g comp pend ->
    linearizable V Op KReply (kstep k) (view (g (home k)) k) (ph k comp) (pp k pend).
  Proof.
    intros g comp pend k [order [[C1 [C2 C3]] [Hl Hr]]].
    exists (ph k order). split; [|split].
    - split; [|split].
      + unfold proj_hist. rewrite map_map. cbn. apply NoDup_map_filter. exact C1.
      + intros o Ho. unfold proj_hist in *. apply in_map_iff in Ho. destruct Ho as [o0 [E Ho]].
        apply filter_In in Ho. destruct Ho as [Ho Ht]. apply in_map_iff. exists o0. split; [exact E|].
        apply filter_In. split; [apply C2; exact Ho|exact Ht].
      + intros o Ho. unfold proj_hist in Ho. apply in_map_iff in Ho. destruct Ho as [o0 [E Ho]].
        apply filter_In in Ho. destruct Ho as [Ho Ht]. destruct (C3 _ Ho) as [Hc|[p [r [Hp Ec]]]].
        * left. unfold proj_hist. apply in_map_iff. exists o0. split; [exact E|].
          apply filter_In. auto.
        * right. exists p, (rproj k r). split.
          -- unfold proj_pend. apply filter_In. split; [exact Hp|]. subst o0. exact Ht.
          -- subst. reflexivity.
    - rewrite proj_hist_opr. apply legal_project. exact Hl.
    - apply rt_ok_proj. exact Hr.
  Qed.

  Lemma per_key_lemma : forall cap g0 prewarm ls s evs k,
    run step route cap (sys_init g0 prewarm) ls = Some (s, evs) ->
    linearizable V Op KReply (kstep k) (view (g0 (home k)) k)
      (ph k (completed evs)) (pp k (pending evs)).
  Proof.
    intros. apply linearizable_project. eapply actor_classical_lemma. eassumption.
  Qed.
End KeyProofs.

(* ------------------------------------------------------------------------------------ *)
(* 4. batches of key-local primitives are key-local                                       *)
(* ------------------------------------------------------------------------------------ *)
Section BatchLocal.
  Variable S POp PReply K V : Type.
  Variable pstep : S -> POp -> S * PReply.
  Variable pkey : POp -> K.
  Variable keqb : K -> K -> bool.
  Hypothesis keqb_eq : forall a b, keqb a b = true <-> a = b.
  Variable view : S -> K -> V.
  Variable pkstep : V -> POp -> V * PReply.
  Hypothesis prim_local : forall s p,
    pkstep (view s (pkey p)) p = (view (fst (pstep s p)) (pkey p), snd (pstep s p)).
  Hypothesis prim_frame : forall s p k, k <> pkey p -> view (fst (pstep s p)) k = view s k.

  (* the batch machine; its reply lists (key, reply) pairs *)
  Definition kbatch_step (s : S) (b : list POp) : S * list (K * PReply) :=
    (fst (batch_step S POp PReply pstep s b), combine (map pkey b) (snd (batch_step S POp PReply pstep s b))).
  Definition kbatch_touches (b : list POp) (k : K) : bool := existsb (fun p => keqb (pkey p) k) b.
  Definition kbatch_kstep (k : K) (v : V) (b : list POp) : V * list PReply :=
    batch_step V POp PReply pkstep v (filter (fun p => keqb (pkey p) k) b).
  Definition kbatch_rproj (k : K) (r : list (K * PReply)) : list PReply :=
    map snd (filter (fun x => keqb (fst x) k) r).

  Lemma kbatch_local_gen : forall b s k,
    kbatch_kstep k (view s k) b =
    (view (fst (kbatch_step s b)) k, kbatch_rproj k (snd (kbatch_step s b))).
  Proof.
    induction b as [|p t IH]; intros s k; [reflexivity|].
    unfold kbatch_kstep, kbatch_step, kbatch_rproj in *. cbn [filter batch_step map combine fst snd].
    destruct (keqb (pkey p) k) eqn:E.
    - apply keqb_eq in E. subst k. cbn [batch_step filter fst snd map].
      rewrite (prim_local s p). cbn [fst snd].
      specialize (IH (fst (pstep s p)) (pkey p)). cbn [fst snd] in IH.
      rewrite IH. cbn [fst snd].
      reflexivity.
    - assert (Hne : k <> pkey p) by (intro; subst; assert (keqb (pkey p) (pkey p) = true) by (apply keqb_eq; reflexivity); congruence).
      specialize (IH (fst (pstep s p)) k). cbn [fst snd] in IH.
      rewrite (prim_frame s p k Hne) in IH. rewrite IH. reflexivity.
  Qed.

  Lemma kbatch_local : forall s b k, kbatch_touches b k = true ->
    kbatch_kstep k (view s k) b = (view (fst (kbatch_step s b)) k, kbatch_rproj k (snd (kbatch_step s b))).
  Proof. intros. apply kbatch_local_gen. Qed.

  Lemma kbatch_frame : forall b s k, kbatch_touches b k = false ->
    view (fst (kbatch_step s b)) k = view s k.
  Proof.
    induction b as [|p t IH]; intros s k H; [reflexivity|].
    unfold kbatch_touches in H. cbn in H. apply orb_false_iff in H. destruct H as [H1 H2].
    unfold kbatch_step in *. cbn [batch_step fst snd].
    specialize (IH (fst (pstep s p)) k H2). cbn [fst] in IH. rewrite IH.
    apply prim_frame. intro; subst.
    assert (keqb (pkey p) (pkey p) = true) by (apply keqb_eq; reflexivity). congruence.
  Qed.
End BatchLocal.

(* ------------------------------------------------------------------------------------ *)
(* 5. the register machine of the correspondence and the keyed store                      *)
(* ------------------------------------------------------------------------------------ *)
Lemma bytes_list_eqb_eq : forall a b, bytes_list_eqb a b = true <-> a = b.
Proof.
  induction a as [|x a IH]; destruct b as [|y b]; cbn; try (split; [discriminate|intro H; inversion H]; fail); [tauto|].
  rewrite andb_true_iff, Bytes.bytes_eqb_eq, IH. split; [intros [? ?]; congruence|intro H; inversion H; auto].
Qed.

Lemma prep_eqb_eq : forall a b, prep_eqb a b = true <-> a = b.
Proof.
  intros a b.
  destruct a as [[x|]| |x| | | |x|x], b as [[y|]| |y| | | |y|y]; cbn;
    try (split; [discriminate|intro H; inversion H]; fail); try tauto.
  - rewrite Bytes.bytes_eqb_eq. split; [congruence|intro H; inversion H; reflexivity].
  - rewrite Z.eqb_eq. split; [congruence|intro H; inversion H; reflexivity].
  - rewrite bytes_list_eqb_eq. split; [congruence|intro H; inversion H; reflexivity].
  - rewrite Bytes.bytes_eqb_eq. split; [congruence|intro H; inversion H; reflexivity].
Qed.
Lemma preps_eqb_eq : forall a b, preps_eqb a b = true <-> a = b.
Proof.
  induction a as [|x a IH]; destruct b as [|y b]; cbn; try (split; [discriminate|intro H; inversion H]; fail); [tauto|].
  rewrite andb_true_iff, prep_eqb_eq, IH. split; [intros [? ?]; congruence|intro H; inversion H; auto].
Qed.

Notation klin := (linearizable_complete tst (list cmd) (list prep) tkstep).

Lemma lin_check_sound_lemma : forall init h, lin_check init h = true -> klin init h.
Proof. intros init h. apply lin_check_gen_sound. exact preps_eqb_eq. Qed.
Lemma lin_check_complete_lemma : forall init h, klin init h -> lin_check init h = true.
Proof. intros init h. apply lin_check_gen_complete. exact preps_eqb_eq. Qed.
Lemma lin_check_exact_lemma : forall init h, lin_check init h = true <-> klin init h.
Proof. intros; split; [apply lin_check_sound_lemma|apply lin_check_complete_lemma]. Qed.
Lemma lin_brute_exact_lemma : forall init h, lin_brute init h = true <-> klin init h.
Proof. intros init h. apply lin_brute_gen_exact. exact preps_eqb_eq. Qed.
Lemma lin_check_brute_agree : forall init h, lin_check init h = lin_brute init h.
Proof.
  intros init h. destruct (lin_check init h) eqn:E1, (lin_brute init h) eqn:E2; try reflexivity.
  - apply lin_check_exact_lemma, lin_brute_exact_lemma in E1. congruence.
  - apply lin_brute_exact_lemma, lin_check_exact_lemma in E2. congruence.
Qed.

Lemma lin_check_perm_lemma : forall init h h', Permutation h h' -> lin_check init h = lin_check init h'.
Proof.
  assert (D : forall init h h', Permutation h h' -> lin_check init h = true -> lin_check init h' = true).
  { intros init h h' P H. apply lin_check_exact_lemma in H. destruct H as [order [Po [Hl Hr]]].
    apply lin_check_exact_lemma. exists order. split; [|split; assumption].
    etransitivity; [exact Po|exact P]. }
  intros init h h' P. destruct (lin_check init h) eqn:E1, (lin_check init h') eqn:E2; try reflexivity.
  - rewrite (D _ _ _ P E1) in E2. discriminate.
  - symmetry in P. rewrite (D _ _ _ P E2) in E1. discriminate.
Qed.

(* the keyed store satisfies the hypotheses of the per-key theorem, for any shard count *)
Lemma store_key_local : forall (s : nat -> kst) op k, store_touches op k = true ->
  store_kstep k (store_view s k) op =
  (store_view (fst (store_step s op)) k, snd (store_step s op)).
Proof.
  intros s [key ops] k H. unfold store_touches in H. cbn in H. apply Nat.eqb_eq in H. subst key.
  unfold store_kstep, store_view, store_step. cbn [fst snd]. rewrite upd_eq.
  destruct (kstep (s k) ops); reflexivity.
Qed.
Lemma store_key_frame : forall (s : nat -> kst) op k, store_touches op k = false ->
  store_view (fst (store_step s op)) k = store_view s k.
Proof.
  intros s [key ops] k H. unfold store_touches in H. cbn in H. apply Nat.eqb_neq in H.
  unfold store_view, store_step. cbn [fst snd]. apply upd_neq. auto.
Qed.
Lemma store_single_homed : forall n op k, store_touches op k = true -> store_route n op = Nat.modulo k n.
Proof.
  intros n [key ops] k H. unfold store_touches in H. cbn in H. apply Nat.eqb_eq in H. subst. reflexivity.
Qed.

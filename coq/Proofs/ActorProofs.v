(* Proofs for Model/Actor.v (property C02). *)
From Coq Require Import List Arith NArith ZArith Bool Lia Permutation Sorted.
From RV Require Import Lib.Hex Model.Actor.
Import ListNotations.

(* ------------------------------------------------------------------------------------ *)
(* 0. lists                                                                               *)
(* ------------------------------------------------------------------------------------ *)
Lemma picks_perm : forall A (l : list A) x r, In (x, r) (picks l) -> Permutation (x :: r) l.
Proof.
  induction l as [|a t IH]; cbn; intros x r H; [contradiction|].
  destruct H as [H|H].
  - inversion H; subst. reflexivity.
  - apply in_map_iff in H. destruct H as [[y r'] [E H]]. cbn in E. inversion E; subst.
    apply IH in H. rewrite perm_swap. constructor. exact H.
Qed.

Lemma picks_in : forall A (l : list A) x, In x l -> exists r, In (x, r) (picks l).
Proof.
  induction l as [|a t IH]; cbn; intros x H; [contradiction|].
  destruct H as [H|H].
  - subst. eexists. left. reflexivity.
  - destruct (IH _ H) as [r Hr]. exists (a :: r). right.
    apply in_map_iff. exists (x, r). split; [reflexivity|exact Hr].
Qed.

Lemma picks_complete : forall A (l l' : list A) x,
  Permutation l (x :: l') -> exists r, In (x, r) (picks l) /\ Permutation r l'.
Proof.
  intros A l l' x H.
  assert (Hin : In x l) by (eapply Permutation_in; [symmetry; exact H|left; reflexivity]).
  destruct (picks_in _ _ _ Hin) as [r Hr]. exists r. split; [exact Hr|].
  apply picks_perm in Hr. eapply Permutation_cons_inv. etransitivity; [exact Hr|exact H].
Qed.

Lemma perms_sound : forall A fuel (l order : list A),
  length l <= fuel -> In order (perms l fuel) -> Permutation order l.
Proof.
  induction fuel as [|f IH]; intros l order Hl H.
  - destruct l; cbn in *; [|lia]. destruct H as [H|[]]. subst. constructor.
  - destruct l as [|a t].
    + cbn in H. destruct H as [H|[]]. subst. constructor.
    + cbn [perms] in H. apply in_flat_map in H. destruct H as [[x r] [Hp H]].
      apply in_map_iff in H. destruct H as [o' [E H]]. cbn in E. subst order.
      pose proof (picks_perm _ _ _ _ Hp) as P.
      assert (length r <= f).
      { apply Permutation_length in P. cbn in P, Hl. lia. }
      cbn in H. apply IH in H; [|assumption].
      etransitivity; [|exact P]. constructor. exact H.
Qed.

Lemma perms_complete : forall A (order l : list A),
  Permutation order l -> In order (perms l (length l)).
Proof.
  induction order as [|x order' IH]; intros l H.
  - apply Permutation_nil in H. subst. cbn. left. reflexivity.
  - destruct l as [|a t]; [symmetry in H; apply Permutation_nil in H; discriminate|].
    assert (H' : Permutation (a :: t) (x :: order')) by (symmetry; exact H).
    destruct (picks_complete _ _ _ _ H') as [r [Hr Pr]].
    cbn [length perms]. apply in_flat_map. exists (x, r). split; [exact Hr|].
    cbn. apply in_map.
    assert (length r = length t).
    { apply picks_perm in Hr. apply Permutation_length in Hr. cbn in Hr. lia. }
    rewrite <- H0. apply IH. symmetry. exact Pr.
Qed.

Lemma NoDup_app_disj : forall A (l1 l2 : list A) x, NoDup (l1 ++ l2) -> In x l1 -> In x l2 -> False.
Proof.
  induction l1 as [|a t IH]; cbn; intros l2 x H H1 H2; [contradiction|].
  inversion H; subst. destruct H1 as [H1|H1].
  - subst. apply H4. apply in_or_app. right. exact H2.
  - eapply IH; eassumption.
Qed.

Lemma NoDup_app_r : forall A (l1 l2 : list A), NoDup (l1 ++ l2) -> NoDup l2.
Proof.
  induction l1 as [|a t IH]; cbn; intros l2 H; [exact H|].
  inversion H; subst. apply IH. assumption.
Qed.

Lemma NoDup_flat_map_inj : forall A B (f : A -> list B) (l : list A) e1 e2 x,
  NoDup (flat_map f l) -> In e1 l -> In e2 l -> In x (f e1) -> In x (f e2) -> e1 = e2.
Proof.
  induction l as [|a t IH]; cbn; intros e1 e2 x H H1 H2 X1 X2; [contradiction|].
  destruct H1 as [H1|H1], H2 as [H2|H2]; subst.
  - reflexivity.
  - exfalso. eapply NoDup_app_disj; [exact H|exact X1|]. apply in_flat_map. eauto.
  - exfalso. eapply NoDup_app_disj; [exact H|exact X2|]. apply in_flat_map. eauto.
  - eapply IH; try eassumption. apply NoDup_app_r in H. exact H.
Qed.

Lemma NoDup_snoc : forall A (l : list A) x, NoDup l -> ~ In x l -> NoDup (l ++ [x]).
Proof.
  induction l as [|a t IH]; cbn; intros x H Hx.
  - constructor; [intros []|constructor].
  - inversion H; subst. constructor.
    + intro Hin. apply in_app_or in Hin. destruct Hin as [Hin|[Hin|[]]]; [contradiction|].
      subst. apply Hx. left. reflexivity.
    + apply IH; [assumption|]. intro. apply Hx. right. assumption.
Qed.

Lemma StronglySorted_snoc : forall (l : list nat) x,
  StronglySorted lt l -> (forall y, In y l -> y < x) -> StronglySorted lt (l ++ [x]).
Proof.
  induction l as [|a t IH]; cbn; intros x H Hx.
  - constructor; constructor.
  - inversion H; subst. constructor.
    + apply IH; [assumption|]. intros. apply Hx. right. assumption.
    + apply Forall_app. split; [assumption|]. constructor; [|constructor]. apply Hx. left. reflexivity.
Qed.

Lemma NoDup_map_filter : forall A B (f : A -> B) (p : A -> bool) (l : list A),
  NoDup (map f l) -> NoDup (map f (filter p l)).
Proof.
  induction l as [|a t IH]; cbn; intros H; [constructor|].
  inversion H; subst. destruct (p a); cbn.
  - constructor; [|apply IH; assumption]. intro Hin. apply H2.
    apply in_map_iff in Hin. destruct Hin as [y [E Hy]]. apply filter_In in Hy.
    apply in_map_iff. exists y. tauto.
  - apply IH; assumption.
Qed.

(* ------------------------------------------------------------------------------------ *)
(* 1. histories: linearization points, the checker                                        *)
(* ------------------------------------------------------------------------------------ *)
Section HistProofs.
  Variable S Op Reply : Type.
  Variable step : S -> Op -> S * Reply.
  Notation orec := (oprec Op Reply).
  Notation legal := (legal S Op Reply step).
  Notation final := (final S Op Reply step).

  Lemma legal_app : forall l1 l2 s,
    legal s (l1 ++ l2) <-> legal s l1 /\ legal (final s l1) l2.
  Proof.
    induction l1 as [|[op r] t IH]; cbn; intros l2 s; [tauto|].
    rewrite IH. tauto.
  Qed.
  Lemma final_app : forall l1 l2 s, final s (l1 ++ l2) = final (final s l1) l2.
  Proof. induction l1 as [|[op r] t IH]; cbn; intros; [reflexivity|apply IH]. Qed.

  Lemma rt_beforeb_spec : forall a b : orec, rt_beforeb a b = true <-> rt_before a b.
  Proof.
    intros a b. unfold rt_beforeb, rt_before. destruct (o_ret a).
    - apply Nat.ltb_lt.
    - split; [discriminate|contradiction].
  Qed.

  Lemma rt_ok_points : forall order : list (orec * nat),
    StronglySorted lt (map snd order) -> Forall (point_ok Op Reply) order -> rt_ok (map fst order).
  Proof.
    induction order as [|[a pa] t IH]; cbn; intros Hs Hp; [exact I|].
    inversion Hs; subst. inversion Hp; subst. split; [|apply IH; assumption].
    intros b Hb Hrt. apply in_map_iff in Hb. destruct Hb as [[b' pb] [E Hb]]. cbn in E. subst b'.
    rewrite Forall_forall in H2, H4.
    assert (pa < pb) by (apply H2; apply in_map_iff; exists (b, pb); split; [reflexivity|exact Hb]).
    destruct (H4 _ Hb) as [_ Hret]. destruct H3 as [Hinv _]. cbn in *.
    unfold rt_before in Hrt. destruct (o_ret b) as [r|]; [|contradiction].
    specialize (Hret r eq_refl). lia.
  Qed.

  Theorem points_imply_linearizable_gen : forall init comp pend,
    lin_points S Op Reply step init comp pend -> linearizable S Op Reply step init comp pend.
  Proof.
    intros init comp pend [order [Hc [Hl [Hs Hp]]]].
    exists (map fst order). repeat split; try assumption; try apply Hc.
    apply rt_ok_points; assumption.
  Qed.

  Lemma complete_linearizable : forall init h,
    NoDup (map o_id h) -> linearizable_complete S Op Reply step init h ->
    linearizable S Op Reply step init h [].
  Proof.
    intros init h Hnd [order [P [Hl Hr]]]. exists order. split; [|split; assumption].
    split; [|split].
    - eapply Permutation_NoDup; [|exact Hnd]. apply Permutation_map. symmetry. exact P.
    - intros o Ho. eapply Permutation_in; [symmetry; exact P|exact Ho].
    - intros o Ho. left. eapply Permutation_in; [exact P|exact Ho].
  Qed.

  (* ---- checker ---- *)
  Variable rep_eqb : Reply -> Reply -> bool.
  Hypothesis rep_eqb_eq : forall a b, rep_eqb a b = true <-> a = b.
  Notation lin_search := (lin_search S Op Reply step rep_eqb).

  Lemma minimal_spec : forall (o : orec) rest,
    minimal Op Reply o rest = true <-> forall b, In b rest -> ~ rt_before b o.
  Proof.
    intros o rest. unfold minimal. rewrite forallb_forall. split; intros H b Hb.
    - specialize (H b Hb). rewrite negb_true_iff in H. intro C. apply rt_beforeb_spec in C. congruence.
    - rewrite negb_true_iff. destruct (rt_beforeb b o) eqn:E; [|reflexivity].
      apply rt_beforeb_spec in E. exfalso. exact (H b Hb E).
  Qed.

  Lemma lin_search_sound : forall fuel s todo,
    lin_search fuel s todo = true ->
    exists order, Permutation order todo /\ legal s (map opr order) /\ rt_ok order.
  Proof.
    induction fuel as [|f IH]; intros s todo H.
    - destruct todo; cbn in H; [|discriminate]. exists []. repeat split; constructor.
    - destruct todo as [|a t].
      + exists []. repeat split; constructor.
      + cbn [Actor.lin_search] in H. apply existsb_exists in H. destruct H as [[o r] [Hp H]].
        cbn [fst snd] in H. apply andb_true_iff in H. destruct H as [H H3].
        apply andb_true_iff in H. destruct H as [H1 H2].
        apply IH in H3. destruct H3 as [order [P [Hl Hr]]].
        exists (o :: order). split; [|split].
        * etransitivity; [|apply picks_perm; exact Hp]. constructor. exact P.
        * cbn. split; [apply rep_eqb_eq; exact H2|exact Hl].
        * cbn. split; [|exact Hr]. intros b Hb. rewrite minimal_spec in H1. apply H1.
          eapply Permutation_in; [exact P|exact Hb].
  Qed.

  Lemma lin_search_complete : forall order s,
    legal s (map opr order) -> rt_ok order ->
    forall todo fuel, Permutation todo order -> length todo <= fuel -> lin_search fuel s todo = true.
  Proof.
    induction order as [|o order' IH]; intros s Hl Hr todo fuel P Hf.
    - symmetry in P. apply Permutation_nil in P. subst. destruct fuel; reflexivity.
    - destruct todo as [|a t]; [apply Permutation_nil in P; discriminate|].
      destruct fuel as [|f]; [cbn in Hf; lia|].
      destruct (picks_complete _ _ _ _ P) as [r [Hp Pr]].
      cbn [Actor.lin_search]. apply existsb_exists. exists (o, r). split; [exact Hp|].
      cbn [fst snd]. cbn in Hl, Hr. destruct Hl as [Hl1 Hl2]. destruct Hr as [Hr1 Hr2].
      apply andb_true_iff; split; [apply andb_true_iff; split|].
      + apply minimal_spec. intros b Hb. apply Hr1. eapply Permutation_in; [exact Pr|exact Hb].
      + apply rep_eqb_eq. exact Hl1.
      + apply IH; try assumption.
        apply picks_perm in Hp. apply Permutation_length in Hp. cbn in Hp, Hf. lia.
  Qed.

  Theorem lin_check_gen_sound : forall init h,
    lin_check_gen S Op Reply step rep_eqb init h = true -> linearizable_complete S Op Reply step init h.
  Proof. intros init h H. apply lin_search_sound in H. exact H. Qed.

  Theorem lin_check_gen_complete : forall init h,
    linearizable_complete S Op Reply step init h -> lin_check_gen S Op Reply step rep_eqb init h = true.
  Proof.
    intros init h [order [P [Hl Hr]]]. unfold lin_check_gen.
    eapply lin_search_complete; try eassumption; [symmetry; exact P|lia].
  Qed.

  Lemma legalb_spec : forall l s, legalb S Op Reply step rep_eqb s l = true <-> legal s (map opr l).
  Proof.
    induction l as [|o t IH]; cbn; intros s; [tauto|].
    rewrite andb_true_iff, IH, rep_eqb_eq. tauto.
  Qed.
  Lemma rt_okb_spec : forall l : list orec, rt_okb Op Reply l = true <-> rt_ok l.
  Proof.
    induction l as [|a t IH]; cbn; [tauto|].
    rewrite andb_true_iff, IH.
    pose proof (minimal_spec a t) as M. unfold minimal in M. rewrite M. tauto.
  Qed.

  Theorem lin_brute_gen_exact : forall init h,
    lin_brute_gen S Op Reply step rep_eqb init h = true <-> linearizable_complete S Op Reply step init h.
  Proof.
    intros init h. unfold lin_brute_gen. rewrite existsb_exists. split.
    - intros [order [Hin H]]. apply andb_true_iff in H. destruct H as [H1 H2].
      exists order. split; [|split].
      + eapply perms_sound; [|exact Hin]. lia.
      + apply legalb_spec. exact H2.
      + apply rt_okb_spec. exact H1.
    - intros [order [P [Hl Hr]]]. exists order. split.
      + apply perms_complete. exact P.
      + apply andb_true_iff. split; [apply rt_okb_spec|apply legalb_spec]; assumption.
  Qed.
End HistProofs.

(* Correspondence for C09: the harness prints a history of 1-3 incarnations of the real
   spawn_wal_actor (FsyncPolicy::Always) on its scripted WalStore, separated by crashes:
   the configuration and, per incarnation, what the preceding crash spared, the schedule
   observed (order in which the actor handled the writes, where it flushed, where it
   handled the Shutdown and TruncateUpTo messages that separate tasks sent while writers
   were in flight) and the log
   (every I/O call with its outcome and every ack, in program order; cut at the crash);
   and, for a sample of crash instants j (= after j I/O calls) of the last incarnation,
   what the real recover_all_entries returned on the crashed image and which writes had
   been acked Ok (by any incarnation).

   The model replays the schedule against the recorded outcomes and must
     - produce exactly the recorded log (same calls on the same files in the same order,
       acks with the same result at the same places),
     - consume every outcome and not stop early,
     - find the schedule within group_commit_max_entries, and not panic,
     - predict, at each sampled crash instant, the recovered list and the acked set
       (that acked is a subset of recovered is then the theorem's business). *)
From Coq Require Import NArith List Bool.
From RV Require Export Model.WalActor Corr.Common.
Import ListNotations.
Local Open Scope N_scope.

Notation OK := OOk.
Notation EN := (OErr ENone).
Notation ET := (OErr ETorn).
Notation EF := (OErr EFull).
Notation CS := CSync.
Notation CC := CCreate.
Notation CH := CHdr.
Notation CE := CEnt.
Notation CD := CDel.
Notation IO := LIo.
Notation AK := LAck.
Notation SW := SWrite.
Notation SWF := SWriteFF.
Notation SF := SFlush.
Notation HD := IHdr.
Notation EN_ := IEnt.
Notation TN := ITorn.
Notation SD := SShutdown.
Notation ST := STruncate.
Notation TR := LTrunc.
Notation DN := LDown.

(* one incarnation: what the preceding crash kept of every file (file sequence, number of
   items; [] for the first), the schedule, and the log up to the instant at which this
   incarnation was crashed (the complete log for the last one) *)
Record inc := I {
  i_keep : list (N * N);
  i_sched : list sched_item;
  i_log : list log_item
}.

Record case := K {
  k_max_file_size : N;
  k_max_entries : N;
  (* WAL files already in the store when the first incarnation starts (leftovers: an empty
     file, a torn header, ...): sequence number and items, everything on disk *)
  k_init : list (N * list item);
  (* writes whose write_durable gave up after its 5 s timeout: the actor still resolves
     their ack later, but nobody listens - their acks are left out of both logs and they do
     not count as acked *)
  k_silent : list N;
  k_incs : list inc;
  k_samples : list (N * list N * list N)   (* crash instants of the last incarnation *)
}.

Definition effect_eqb (a b : effect) : bool :=
  match a, b with ENone, ENone | ETorn, ETorn | EFull, EFull => true | _, _ => false end.
Definition outcome_eqb (a b : outcome) : bool :=
  match a, b with OOk, OOk => true | OErr x, OErr y => effect_eqb x y | _, _ => false end.
Definition call_eqb (a b : call) : bool :=
  match a, b with
  | CSync x, CSync y | CCreate x, CCreate y | CHdr x, CHdr y | CDel x, CDel y => N.eqb x y
  | CEnt x u, CEnt y v => N.eqb x y && N.eqb u v
  | _, _ => false
  end.
Definition log_item_eqb (a b : log_item) : bool :=
  match a, b with
  | LIo c o, LIo d p => call_eqb c d && outcome_eqb o p
  | LAck w x, LAck v y => N.eqb w v && Bool.eqb x y
  | LDown, LDown => true
  | LTrunc x, LTrunc y => N.eqb x y
  | _, _ => false
  end.
Fixpoint list_eqb {A} (eqb : A -> A -> bool) (l m : list A) : bool :=
  match l, m with
  | [], [] => true
  | a :: l, b :: m => eqb a b && list_eqb eqb l m
  | _, _ => false
  end.

Fixpoint insertN (x : N) (l : list N) : list N :=
  match l with
  | [] => [x]
  | y :: r => if N.leb x y then x :: l else y :: insertN x r
  end.
Definition sortN (l : list N) : list N := fold_right insertN [] l.

Definition outcomes_of (l : list log_item) : list outcome :=
  flat_map (fun x => match x with LIo _ o => [o] | _ => [] end) l.

Definition keep_of (l : list (N * N)) (s : N) : nat :=
  match find (fun p => N.eqb (fst p) s) l with
  | Some p => N.to_nat (snd p)
  | None => 0%nat
  end.

Definition run_inc (cfg : config) (st : state) (i : inc) (io : list outcome) : state :=
  fold_left (step cfg) (i_sched i) (restart (keep_of (i_keep i)) st io).

Definition heard (silent : list N) (x : log_item) : bool :=
  match x with
  | LAck w _ => negb (existsb (N.eqb w) silent)
  | _ => true
  end.

Definition inc_ok (cfg : config) (silent : list N) (st : state) (i : inc) (last : bool) : bool :=
  let a := run_inc cfg st i (outcomes_of (i_log i)) in
  list_eqb log_item_eqb (filter (heard silent) (rev (s_log a))) (i_log i) &&
  match s_io a with [] => true | _ => false end &&
  negb (s_over a) &&
  negb (s_panic a) &&
  (negb last || negb (s_halt a)).

Definition samples_ok (cfg : config) (silent : list N) (st : state) (i : inc) (samples : list (N * list N * list N)) : bool :=
  forallb (fun s =>
    let '(j, rec, acked) := s in
    let a := run_inc cfg st i (firstn (N.to_nat j) (outcomes_of (i_log i))) in
    list_eqb N.eqb (recovered_after_crash a) rec &&
    list_eqb N.eqb (sortN (filter (fun w => negb (existsb (N.eqb w) silent)) (acked_ok a))) acked) samples.

Fixpoint check_incs (cfg : config) (silent : list N) (st : state) (incs : list inc) (samples : list (N * list N * list N)) : bool :=
  match incs with
  | [] => false
  | i :: r =>
      match r with
      | [] => inc_ok cfg silent st i true && samples_ok cfg silent st i samples
      | _ => inc_ok cfg silent st i false &&
             check_incs cfg silent (run_inc cfg st i (outcomes_of (i_log i))) r samples
      end
  end.

Definition check_with (v : variant) (k : case) : bool :=
  check_incs (Config v (k_max_file_size k) (k_max_entries k)) (k_silent k)
    (init_from (map (fun p => (fst p, File (snd p) (List.length (snd p)))) (k_init k)) [] [] [] [])
    (k_incs k) (k_samples k).

(* /repo is checked against the repaired rotator. *)
Definition check : case -> bool := check_with Repaired.

Definition mismatches := mismatches_with check.

(* Helpers shared by the correspondence files: cases are (index, case) pairs; the
   result of a run is the list of indices on which model and implementation differ. *)
From Coq Require Export NArith List String.
Export ListNotations.

Definition mismatches_with {C} (check : C -> bool) (cs : list (N * C)) : list N :=
  map fst (filter (fun p => negb (check (snd p))) cs).

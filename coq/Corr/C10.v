(* Correspondence for C10: the harness prints one WAL directory written by the real
   WalRotator / WalWriter (names + images), the entries that were appended, and a list of
   probes (mutations of the images + what the real recover_all_entries /
   recover_entries_after / truncate_before returned).  The model (Model/Wal.v, instantiated
   with the executable CRC-32 of Lib/Crc32.v) must return exactly the same. *)
From Coq Require Import NArith List String Bool.
From RV Require Export Lib.Hex Lib.Bytes Lib.Crc32 Model.Wal Corr.Common.
Import ListNotations.
Local Open Scope N_scope.

Inductive mutation :=
| MTrunc (f k : N)                       (* file f cut to its first k bytes *)
| MFlip (f byte bit : N)                 (* one bit of one byte of file f inverted *)
| MPatch (f off : N) (data : string)     (* bytes overwritten from offset off (clipped) *)
| MDrop (f : N)                          (* file f removed from the directory *)
| MFill (f off len v : N)                (* len bytes from off set to v (clipped) *)
| MAppend (f n v : N).                   (* n bytes of value v appended after the end *)

Record ent := E { en_ts : N; en_data : string; en_crc : N; en_poison : bool }.
Inductive rent := RI (i : N) | RE (ts : N) (data : string) (crc : N).
Record written := W { w_file : N; w_seq : N; w_rot : bool; w_ents : list N }.

Inductive probe :=
| PRecover (ms : list mutation) (r : option (list rent))
| PAfter (ms : list mutation) (T : N) (r : option (list N))
| PTrunc (ms : list mutation) (extra : option N) (T : N) (r : option (N * list N))
(* WalReader on file f alone: header sequence, entries(), entries_after(T); None = open failed *)
| PReader (ms : list mutation) (f : N) (T : N) (r : option (N * list rent * list rent))
(* a fresh rotator on the directory appends entry [extra] (to a new file max+1), then recover_all *)
| PRestart (ms : list mutation) (extra : option N) (r : option (list rent)).

Record case := K { k_files : list (string * string); k_ents : list ent;
                   k_written : list written; k_probes : list probe }.

Definition nthN {A} (i : N) (l : list A) : option A := nth_error l (N.to_nat i).

Fixpoint upd {A} (i : nat) (f : A -> A) (l : list A) : list A :=
  match l, i with
  | [], _ => []
  | x :: r, O => f x :: r
  | x :: r, S i' => x :: upd i' f r
  end.

Definition flip_bit (x bit : N) : N := N.lxor x (N.shiftl 1 bit).
Fixpoint patch (off : nat) (p d : bytes) : bytes :=
  match off, d with
  | _, [] => []
  | S o, x :: r => x :: patch o p r
  | O, x :: r => match p with [] => d | y :: p' => y :: patch O p' r end
  end.

Definition mutate1 (fs : list (bytes * option bytes)) (m : mutation) : list (bytes * option bytes) :=
  match m with
  | MTrunc f k => upd (N.to_nat f) (fun x => (fst x, option_map (takeN k) (snd x))) fs
  | MFlip f b i => upd (N.to_nat f) (fun x => (fst x, option_map (fun d =>
        if b <? lenN d then upd (N.to_nat b) (fun y => flip_bit y i) d else d) (snd x))) fs
  | MPatch f o p => upd (N.to_nat f) (fun x => (fst x, option_map (patch (N.to_nat o) (unhex p)) (snd x))) fs
  | MDrop f => upd (N.to_nat f) (fun x => (fst x, None)) fs
  | MFill f o n v => upd (N.to_nat f) (fun x => (fst x, option_map (patch (N.to_nat o) (repeat v (N.to_nat n))) (snd x))) fs
  | MAppend f n v => upd (N.to_nat f) (fun x => (fst x, option_map (fun d => d ++ repeat v (N.to_nat n)) (snd x))) fs
  end.
Definition to_store (fs : list (bytes * option bytes)) : list (bytes * bytes) :=
  flat_map (fun x => match snd x with Some d => [(fst x, d)] | None => [] end) fs.
Definition base (k : case) : list (bytes * option bytes) :=
  map (fun p => (unhex (fst p), Some (unhex (snd p)))) (k_files k).
Definition mutated (k : case) (ms : list mutation) : list (bytes * bytes) :=
  to_store (fold_left mutate1 ms (base k)).

Definition ent_entry (e : ent) : entry := Entry (en_ts e) (unhex (en_data e)) (en_crc e).
Definition entry_eqb (a b : entry) : bool :=
  (e_ts a =? e_ts b) && bytes_eqb (e_data a) (e_data b) && (e_crc a =? e_crc b).
Fixpoint entries_eqb (a b : list entry) : bool :=
  match a, b with
  | [], [] => true
  | x :: a', y :: b' => entry_eqb x y && entries_eqb a' b'
  | _, _ => false
  end.
Definition rent_entry (k : case) (r : rent) : entry :=
  match r with
  | RI i => match nthN i (k_ents k) with Some e => ent_entry e | None => Entry 0 [] 1 end
  | RE ts d c => Entry ts (unhex d) c
  end.

(* bincode is not modelled: a payload deserialises iff it is the payload of an appended
   entry that was built from a ReplicationDelta *)
Definition deser_ok_of (k : case) (p : bytes) : bool :=
  existsb (fun e => negb (en_poison e) && bytes_eqb (unhex (en_data e)) p) (k_ents k).
(* index of the appended entry with this payload (payloads of deltas are unique: unique keys) *)
Fixpoint payload_index (es : list ent) (i : N) (p : bytes) : N :=
  match es with
  | [] => 999999
  | e :: r => if negb (en_poison e) && bytes_eqb (unhex (en_data e)) p then i else payload_index r (i + 1) p
  end.

Fixpoint list_eqb (a b : list N) : bool :=
  match a, b with
  | [], [] => true
  | x :: a', y :: b' => (x =? y) && list_eqb a' b'
  | _, _ => false
  end.

Fixpoint name_index (fs : list (string * string)) (i : N) (n : bytes) : N :=
  match fs with
  | [] => 1000
  | f :: r => if bytes_eqb (unhex (fst f)) n then i else name_index r (i + 1) n
  end.

Definition max_seq (st : list (bytes * bytes)) : N :=
  fold_left N.max (map fst (wal_files st)) 0.

Definition check_probe (k : case) (p : probe) : bool :=
  match p with
  | PRecover ms r =>
      match recover_all crc32 (mutated k ms), r with
      | Ok es, Some rs => entries_eqb es (map (rent_entry k) rs)
      | _, _ => false
      end
  | PAfter ms T r =>
      match recover_after crc32 (deser_ok_of k) (mutated k ms) T, r with
      | Ok es, Some idx => list_eqb (map (fun e => payload_index (k_ents k) 0 (e_data e)) es) idx
      | Err _, None => true
      | _, _ => false
      end
  | PReader ms f T r =>
      match nthN f (fold_left mutate1 ms (base k)) with
      | Some (_, Some img) =>
          match wal_read crc32 img, r with
          | Ok (s, es), Some (s', all, after) =>
              (s =? s') && entries_eqb es (map (rent_entry k) all) &&
              entries_eqb (filter (fun e => T <=? e_ts e) es) (map (rent_entry k) after)
          | Err _, None => true
          | _, _ => false
          end
      | _ => match r with None => true | _ => false end
      end
  | PRestart ms extra r =>
      let st := mutated k ms in
      let st1 :=
        match extra with
        | None => st
        | Some ei =>
            match nthN ei (k_ents k) with
            | Some e => let s := max_seq st + 1 in st ++ [(wal_file_name s, file_image s [ent_entry e])]
            | None => st
            end
        end in
      match recover_all crc32 st1, r with
      | Ok es, Some rs => entries_eqb es (map (rent_entry k) rs)
      | _, _ => false
      end
  | PTrunc ms extra T r =>
      let st := mutated k ms in
      (* WalRotator::new scans the names for the largest sequence; a live writer exists only
         after an append, which rotates to a fresh file max+1 holding that one entry *)
      let '(st1, active) :=
        match extra with
        | None => (st, None)
        | Some ei =>
            match nthN ei (k_ents k) with
            | Some e => let s := max_seq st + 1 in
                        (st ++ [(wal_file_name s, file_image s [ent_entry e])], Some s)
            | None => (st, None)
            end
        end in
      match truncate_before crc32 st1 active T (fun _ => false), r with
      | (st2, Ok cnt), Some (cnt', rem) =>
          (cnt =? cnt') &&
          list_eqb (map (fun f => name_index (k_files k) 0 (fst f))
                        (filter (fun f => negb (name_index (k_files k) 0 (fst f) =? 1000)) st2)
                    ++ (if existsb (fun f => name_index (k_files k) 0 (fst f) =? 1000) st2 then [1000] else []))
                   rem
      | _, _ => false
      end
  end.

(* what the writer put on disk is what the model says, and the crate's checksum is crc32 *)
Definition check_written (k : case) (w : written) : bool :=
  match nthN (w_file w) (k_files k) with
  | None => false
  | Some (name, img) =>
      let es := flat_map (fun i => match nthN i (k_ents k) with Some e => [ent_entry e] | None => [] end) (w_ents w) in
      bytes_eqb (file_image (w_seq w) es) (unhex img) &&
      forallb (entry_valid crc32) es &&
      (if w_rot w then bytes_eqb (wal_file_name (w_seq w)) (unhex name) &&
                       match parse_wal_sequence (unhex name) with Some s => s =? w_seq w | None => false end
       else true)
  end.

Definition check (k : case) : bool :=
  forallb (check_written k) (k_written k) && forallb (check_probe k) (k_probes k).

Definition mismatches := mismatches_with check.

(* for --replay: which probes of a case disagree *)
Definition bad_probes (k : case) : list probe := filter (fun p => negb (check_probe k p)) (k_probes k).

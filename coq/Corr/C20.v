(* Correspondence for C20 (kernel part): a scripted MultiNodeSimulation run.  The harness
   prints the script (time advances, partitions, heals, and for every gossip round what each
   node is about to send: its pending deltas in broadcast mode, its router's table - sorted
   by target - in selective mode), the first draws of DeterministicRng::new(seed), the loss
   threshold, and after every round the in-flight queue and what every node has received.
   The model (repaired loop, identity oracle - by C20_kernel_canonical any oracle gives the
   same run) must reproduce every queue exactly (order, endpoints, deltas, delivery times),
   every node's received set, and the number of draws consumed (the next draw of the
   implementation's RNG must be the model's next unread draw).
   Deltas are numbered: delta i is the write of key "k<i>"; a node state is the log of the
   deltas it was handed. *)
From Coq Require Import List NArith Bool.
From RV Require Export Model.SimKernel Corr.Common.
Import ListNotations.
Local Open Scope N_scope.

Definition PBn (ds : list N) : plan N := PB ds.
Definition PSn (tbl : list (N * list N)) : plan N := PS tbl.
Notation "'PB' x" := (PBn x) (at level 10, only parsing).
Notation "'PS' x" := (PSn x) (at level 10, only parsing).
Definition SR (ps : list (plan N)) : step N := SRound ps.
Definition SA (ms : N) : step N := SAdvance ms.
Definition SP (a b : N) : step N := SPartition a b.
Definition SH (a b : N) : step N := SHeal a b.

(* after a round: the queue (from, to, deltas, delivery time) and per node the sorted list of
   deltas received so far *)
Record obs := O { o_queue : list (N * N * list N * N); o_got : list (list N) }.

Record case20 := K20 {
  k_n : N;
  k_dmin : N;
  k_dmax : N;
  k_T : N;                    (* gen_bool(loss) on raw draw r  <=>  r < k_T *)
  k_draws : list N;
  k_steps : list (step N);
  k_obs : list obs;
  k_next : N                  (* the implementation's next draw after the script *)
}.

Definition cdraw (l : list N) (i : nat) : N := nth i l 0.
Definition clost (T r : N) : bool := r <? T.
Definition capply (ns ds : list N) : list N := ns ++ ds.

Fixpoint list_eqb (a b : list N) : bool :=
  match a, b with
  | [], [] => true
  | x :: a', y :: b' => (x =? y) && list_eqb a' b'
  | _, _ => false
  end.
Fixpoint all2 {A B} (f : A -> B -> bool) (a : list A) (b : list B) : bool :=
  match a, b with
  | [], [] => true
  | x :: a', y :: b' => f x y && all2 f a' b'
  | _, _ => false
  end.
Fixpoint insN (x : N) (l : list N) : list N :=
  match l with [] => [x] | y :: r => if x <=? y then x :: l else y :: insN x r end.
Definition sortN (l : list N) : list N := fold_right insN [] l.

Definition msg_eqb (m : msg N) (t : N * N * list N * N) : bool :=
  let '(f, to, ds, tm) := t in
  (m_from m =? f) && (m_to m =? to) && list_eqb (m_deltas m) ds && (m_time m =? tm).

Definition obs_ok (s : sim N (list N)) (ob : obs) : bool :=
  all2 msg_eqb (s_queue s) (o_queue ob) &&
  all2 (fun log got => list_eqb (sortN log) got) (s_nodes s) (o_got ob).

Definition kstep (k : case20) := do_step N (list N) capply (cdraw (k_draws k)) (clost (k_T k)) true (fun _ l => l).

Fixpoint steps_ok (k : case20) (s : sim N (list N)) (steps : list (step N)) (os : list obs) : option (sim N (list N)) :=
  match steps with
  | [] => match os with [] => Some s | _ => None end
  | st :: r =>
      let s1 := kstep k s st in
      match st with
      | SRound _ =>
          match os with
          | ob :: os' => if obs_ok s1 ob then steps_ok k s1 r os' else None
          | [] => None
          end
      | _ => steps_ok k s1 r os
      end
  end.

Definition check20 (k : case20) : bool :=
  let init := sim_init N (list N) (repeat [] (N.to_nat (k_n k))) (k_dmin k) (k_dmax k) in
  match steps_ok k init (k_steps k) (k_obs k) with
  | Some s =>
      negb (s_panic s) &&
      Nat.ltb (s_pos s) (List.length (k_draws k)) &&
      (cdraw (k_draws k) (s_pos s) =? k_next k)
  | None => false
  end.

Definition mismatches := mismatches_with check20.

(* Correspondence for C04: the harness prints the reads it fed to the REAL connection handler
   (OptimizedConnectionHandler on a scripted stream over a real ShardedActorState), the cumulative
   number of bytes the handler had written after every read, everything it wrote, and whether the
   task panicked / hung; the model (Model/Conn.v over the mini backend Model/MiniExec.v) must write
   the same bytes at the same reads.  For short streams the harness additionally ran every
   segmentation into at most three reads on the implementation; the model re-checks every
   segmentation into at most two reads against the output the implementation produced. *)
From Coq Require Export NArith ZArith.
From Coq Require Import String List Bool.
From RV Require Export Lib.Hex Model.Resp Model.Conn Model.MiniExec Corr.Common.
Import ListNotations.

Inductive case :=
| KSeg (c : cfg) (reads : list string) (cum : list N) (out : string) (dead : bool)
| KAll (c : cfg) (stream out : string)
(* as KSeg, for long byte strings: each one is given in pieces (a hex literal of 100 KB and more
   overflows coqc's stack) *)
| KSegL (c : cfg) (reads : list (list string)) (cum : list N) (out : list string) (dead : bool)
(* as KSeg, every read with the time (milliseconds since the connection opened) at which the script
   hands it to the handler: keys with deadlines *)
| KTtl (c : cfg) (reads : list (N * string)) (cum : list N) (out : string) (dead : bool).

Fixpoint feed (g : cfg) (k : mconn) (reads : list bytes) : mconn * list N :=
  match reads with
  | [] => (k, [])
  | r :: t =>
    let k' := mon_read g k r in
    let '(kf, l) := feed g k' t in
    (kf, N.of_nat (List.length (wire (output _ _ k'))) :: l)
  end.

(* the backend's clock is set from outside (the virtual time every shard message carries) *)
Definition set_clock (k : mconn) (t : N) : mconn :=
  mkConn _ _ (cbuf _ _ k)
         (mkCore _ _ (at_time (st _ _ (ccore _ _ k)) t) (txs _ _ (ccore _ _ k)) (outp _ _ (ccore _ _ k)))
         (cstat _ _ k).

Fixpoint feed_t (g : cfg) (k : mconn) (reads : list (N * bytes)) : mconn * list N :=
  match reads with
  | [] => (k, [])
  | (t, r) :: rest =>
    let k' := mon_read g (set_clock k t) r in
    let '(kf, l) := feed_t g k' rest in
    (kf, N.of_nat (List.length (wire (output _ _ k'))) :: l)
  end.

Fixpoint listN_eqb (a b : list N) : bool :=
  match a, b with
  | [], [] => true
  | x :: a', y :: b' => (x =? y)%N && listN_eqb a' b'
  | _, _ => false
  end.

Definition is_dead (k : mconn) : bool := match cstat _ _ k with Dead => true | _ => false end.

Definition final_wire (g : cfg) (reads : list bytes) : bytes :=
  wire (output _ _ (mrun g (filter (fun r => negb (match r with [] => true | _ => false end)) reads))).

Definition check_seg (g : cfg) (reads : list bytes) (cum : list N) (out : bytes) (dead : bool) : bool :=
  let '(kf, l) := feed g (conn_init _ _ m0) reads in
  if dead then is_dead kf
  else negb (is_dead kf) && listN_eqb l cum && bytes_eqb (wire (output _ _ kf)) out.

Definition check (k : case) : bool :=
  match k with
  | KSeg g reads cum out dead => check_seg g (map unhex reads) cum (unhex out) dead
  | KSegL g reads cum out dead => check_seg g (map (flat_map unhex) reads) cum (flat_map unhex out) dead
  | KTtl g reads cum out dead =>
    let '(kf, l) := feed_t g (conn_init _ _ m0) (map (fun p => (fst p, unhex (snd p))) reads) in
    if dead then is_dead kf
    else negb (is_dead kf) && listN_eqb l cum && bytes_eqb (wire (output _ _ kf)) (unhex out)
  | KAll g stream out =>
    let s := unhex stream in
    let o := unhex out in
    forallb (fun i => bytes_eqb (final_wire g [firstn i s; skipn i s]) o) (seq 0 (S (List.length s)))
  end.

Definition mismatches := mismatches_with check.

(* TEMPORARY stub (replaced by the real correspondence once the model exists) *)
From Coq Require Export NArith ZArith.
From Coq Require Import List Bool String.
From RV Require Export Lib.Hex Corr.Common.
Import ListNotations.
Record cfg := mk_cfg { c_min : N; c_thr : N; c_max : N }.
Inductive case :=
| KSeg (c : cfg) (reads : list string) (cum : list N) (out : string) (dead : bool)
| KAll (c : cfg) (stream out : string).
Definition check (k : case) : bool := true.
Definition mismatches := mismatches_with check.

(* Correspondence for C06: a cluster history (client commands at nodes, deliveries of emitted
   deltas, crashes and restarts of nodes) and, per node, the final replicated_keys and what clients read for each key. *)
From stdpp Require Import gmap.
From Coq Require Export NArith ZArith String.
From RV Require Export Lib.Hex Model.Crdt Model.ShardState Model.Cluster Corr.Common Corr.C07.

Definition XSet (k v : string) (nx xx : bool) : ccmd := CSet (unhex k) (unhex v) nx xx.
Definition XDel (k : string) : ccmd := CDel (unhex k).
Definition XApp (k v : string) : ccmd := CAppend (unhex k) (unhex v).
Definition XHSet (k : string) (fs : list (string * string)) : ccmd :=
  CHSet (unhex k) (map (λ p, (unhex p.1, unhex p.2)) fs).
Definition XHDel (k : string) (fs : list string) : ccmd := CHDel (unhex k) (map unhex fs).
Definition CC (i : N) (c : ccmd) : rcev := RStep (CClient (N.to_nat i) c).
Definition CD (i : N) (k : string) (d : rvalue) : rcev := RStep (CDeliver (N.to_nat i) (unhex k) d).
Definition XIncrBy (k : string) (d : Z) : ccmd2 := CIncrBy (unhex k) d.
Definition XGetSet (k v : string) : ccmd2 := CGetSet (unhex k) (unhex v).
Definition XHIncrBy (k f : string) (d : Z) : ccmd2 := CHIncrBy (unhex k) (unhex f) d.
Definition CX (i : N) (c : ccmd2) : rcev := RClient2 (N.to_nat i) c.
(* node i crashes and restarts from the deltas it emitted itself *)
Definition CR (i : N) : rcev := RRestart (N.to_nat i).

Inductive rd := RNone | RStr (s : string) | RHash (fs : list (string * string)) | RWrongType | ROther.
Definition rd_to_xread (r : rd) : option xread :=
  match r with
  | RNone => Some RdNone
  | RStr s => Some (RdStr (unhex s))
  | RHash fs => Some (RdHash (list_to_map (map (λ p, (unhex p.1, unhex p.2)) fs)))
  | _ => None
  end.

Record case6 := K6 {
  k6_evs : list rcev;
  k6_final : list (list (string * rvalue) * list (string * rd))
}.

Definition node_ok (n : node) (fin : list (string * rvalue) * list (string * rd)) : bool :=
  N.eqb (N.of_nat (List.length fin.1)) (N.of_nat (size (sh_keys (n_sh n)))) &&
  forallb (λ p, match sh_keys (n_sh n) !! unhex p.1 with Some v => oeq v p.2 | None => false end) fin.1 &&
  forallb (λ p, match rd_to_xread p.2 with
                | Some r => bool_decide (serve n (unhex p.1) = r)
                | None => false end) fin.2.

Fixpoint nodes_ok (ns : list node) (fin : list (list (string * rvalue) * list (string * rd))) : bool :=
  match ns, fin with
  | [], [] => true
  | n :: ns', f :: fin' => node_ok n f && nodes_ok ns' fin'
  | _, _ => false
  end.

Definition check6 (k : case6) : bool :=
  let '(c, _) := rrun (cluster_init 3) [] (k6_evs k) in
  forallb (λ n, negb (sh_ovf (n_sh n))) c && nodes_ok c (k6_final k).

Definition mismatches := mismatches_with check6.

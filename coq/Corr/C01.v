(* Correspondence for C01 (and C17): one case = a sequence of steps run on ONE real
   CommandExecutor; a step is "set the clock to t" or "execute command c", and carries what the
   implementation answered plus the visible keyspace the harness probed right after the step
   (TYPE + value dump + PTTL for every key of the alphabet; [None] = textually identical to the
   previous snapshot).  The model (dialect AsBuilt = the reference with the known, pinned deviations)
   must reproduce every reply and every snapshot.
   Unordered replies (SMEMBERS, HGETALL, HKEYS, HVALS, KEYS) are sorted on both sides. *)
From stdpp Require Import gmap.
From Coq Require Export ZArith NArith String.
From RV Require Export Lib.Hex Model.Redis Corr.Common.
Local Open Scope Z_scope.

Definition h (s : string) : list N := unhex s.

(* what the harness saw stored at a key *)
Inductive dump :=
| DS (v : string)                         (* GET *)
| DL (l : list string)                    (* LRANGE 0 -1 *)
| DT (l : list string)                    (* SMEMBERS, sorted bytewise *)
| DH (l : list (string * string))         (* HGETALL, sorted by field *)
| DZ (l : list (string * Z))              (* ZRANGE 0 -1 WITHSCORES, rank order *)
| DX.                                     (* anything the harness could not read back *)

Notation snapshot := (list (string * dump * Z)) (only parsing).   (* key, dump, PTTL *)

Inductive cstep :=
| ST (t : N) (snap : option (list (string * dump * Z)))
| SC (c : cmd) (r : reply) (snap : option (list (string * dump * Z)))
| SN (c : cmd) (r : reply).      (* a command run inside MULTI..EXEC: its reply is the matching element of
                                   EXEC's array; the keyspace is only probed after the whole block *)

(* --- sorting (insertion sort on byte strings / pairs keyed by byte strings) *)
Fixpoint ins_b {A} (key : A → list N) (x : A) (l : list A) : list A :=
  match l with
  | [] => [x]
  | y :: r => if bytes_ltb (key y) (key x) then y :: ins_b key x r else x :: l
  end.
Definition sort_b {A} (key : A → list N) (l : list A) : list A := foldr (ins_b key) [] l.

Fixpoint list_eqb {A} (eq : A → A → bool) (a b : list A) : bool :=
  match a, b with
  | [], [] => true
  | x :: a', y :: b' => eq x y && list_eqb eq a' b'
  | _, _ => false
  end.

Definition bulk_key (r : reply) : list N := match r with RBulk (Some b) => b | _ => [] end.
Fixpoint pair_up (l : list reply) : list (reply * reply) :=
  match l with a :: b :: r => (a, b) :: pair_up r | _ => [] end.

Definition canon (c : cmd) (r : reply) : reply :=
  match c, r with
  | (SMembers _ | HKeys _ | HVals _ | Keys), RArr l => RArr (sort_b bulk_key l)
  | HGetAll _, RArr l =>
      if Nat.even (List.length l)
      then RArr (flat_map (λ p, [p.1; p.2]) (sort_b (λ p, bulk_key p.1) (pair_up l)))
      else r
  | _, _ => r
  end.

(* --- the model's view of one key *)
Definition dump_matches (v : value) (d : dump) : bool :=
  match v, d with
  | VStr b, DS x => bytes_eqb b (h x)
  | VList l, DL xs => list_eqb bytes_eqb l (map h xs)
  | VSet s, DT xs => list_eqb bytes_eqb (sort_b id (elements s)) (map h xs)
  | VHash m, DH xs =>
      list_eqb (λ p q, bytes_eqb p.1 q.1 && bytes_eqb p.2 q.2)
               (sort_b fst (map_to_list m)) (map (λ p, (h p.1, h p.2)) xs)
  | VZSet z, DZ xs =>
      list_eqb (λ p q, bytes_eqb p.1 q.1 && (p.2 =? q.2)) (zsorted z) (map (λ p, (h p.1, p.2)) xs)
  | _, _ => false
  end.

Definition pttl_of (now : N) (d : option N) : Z :=
  match d with None => -1 | Some t => Z.of_N t - Z.of_N now end.

Definition snap_ok (s : gmap (list N) (value * option N)) (now : N) (sn : list (string * dump * Z)) : bool :=
  (Z.of_nat (List.length sn) =? Z.of_nat (List.length (map_to_list s))) &&
  forallb (λ e, match s !! h e.1.1 with
                | Some (v, d) => dump_matches v e.1.2 && (pttl_of now d =? e.2)
                | None => false
                end) sn.

Definition snap_opt_ok s now (last : list (string * dump * Z)) (o : option (list (string * dump * Z))) :=
  snap_ok s now (match o with Some sn => sn | None => last end).

Fixpoint steps_ok (s : gmap (list N) (value * option N)) (now : N)
    (last : list (string * dump * Z)) (l : list cstep) : bool :=
  match l with
  | [] => true
  | ST t o :: r =>
      let s' := advance s t in
      snap_opt_ok s' t last o && steps_ok s' t (match o with Some sn => sn | None => last end) r
  | SC c rep o :: r =>
      let '(s', mr) := exec AsBuilt s now c in
      reply_eqb (canon c mr) (canon c rep) && snap_opt_ok s' now last o
      && steps_ok s' now (match o with Some sn => sn | None => last end) r
  | SN c rep :: r =>
      let '(s', mr) := exec AsBuilt s now c in
      reply_eqb (canon c mr) (canon c rep) && steps_ok s' now last r
  end.

Definition check (l : list cstep) : bool := steps_ok ∅ 0%N [] l.

Definition mismatches := mismatches_with check.

(* for replays: index of the first step the model disagrees on, and the model's reply there *)
Fixpoint first_bad (s : gmap (list N) (value * option N)) (now : N)
    (last : list (string * dump * Z)) (l : list cstep) (i : N) : option (N * option reply * bool) :=
  match l with
  | [] => None
  | ST t o :: r =>
      let s' := advance s t in
      if snap_opt_ok s' t last o
      then first_bad s' t (match o with Some sn => sn | None => last end) r (i + 1)
      else Some (i, None, false)
  | SC c rep o :: r =>
      let '(s', mr) := exec AsBuilt s now c in
      if reply_eqb (canon c mr) (canon c rep) && snap_opt_ok s' now last o
      then first_bad s' now (match o with Some sn => sn | None => last end) r (i + 1)
      else Some (i, Some (canon c mr), snap_opt_ok s' now last o)
  | SN c rep :: r =>
      let '(s', mr) := exec AsBuilt s now c in
      if reply_eqb (canon c mr) (canon c rep) then first_bad s' now last r (i + 1)
      else Some (i, Some (canon c mr), true)
  end.
Definition explain (l : list cstep) := first_bad ∅ 0%N [] l 0%N.

(* Correspondence for C19: the harness builds real HashRing / GossipRouter / GossipState
   values, prints what they answered, and the model (SipHash instance) must answer the
   same: ring contents (positions included), membership list, version, replica lists,
   peer-id tables, routing tables, outbound queues. *)
From Coq Require Import NArith List Bool String.
From RV Require Export Lib.Hex Lib.SipHash Model.Ring Corr.Common.
Import ListNotations.
Local Open Scope N_scope.

(* ---- the model instantiated with the code's hash functions ------------------------- *)
(* fast_vpos / fast_kpos are pointwise equal to sip_vpos / sip_kpos (RingProofs.fast_vpos_eq, fast_kpos_eq) *)
Notation Snew := (ring_new fast_vpos).
Notation Sapply := (apply_op fast_vpos).

(* ---- what the harness prints --------------------------------------------------------- *)
(* one observation of a ring: physical_nodes, version, the ring vector (position, node,
   index) when it was printed, get_replicas per key, get_replicas_with_rf per key *)
Record stage := ST {
  st_nodes : list N;
  st_version : N;
  st_ring : option (list (N * (N * N)));
  st_reps : list (list N);
  st_reps_rf : list (list N) }.

(* a delta: key (hex), payload tag, source_replica (the origin, independent of the sender) *)
Definition D (k : string) (tag origin : N) : (list N * (N * N)) := (unhex k, (tag, origin)).

(* how a router was made *)
Inductive rmake :=
| RNew (me : N) (peers : list N) (selective : bool)          (* GossipRouter::new; address = index *)
| RCfg (rid npeers : N) (selective partitioned enabled : bool). (* GossipRouter::from_config *)

(* update_peer / remove_peer calls made on the router after its construction *)
Inductive pop := PUpd (id addr : N) | PDel (id : N).
(* what is done to the GossipState: advance_epoch, queue_deltas, queue_deltas_broadcast,
   queue_heartbeat, drain_outbound, set_router (with the case's router) *)
Inductive qev :=
| QAdv | QD (b : list (list N * (N * N))) | QB (b : list (list N * (N * N))) | QH | QDrain | QSet.

Record rcase := RC {
  rc_make : rmake;
  rc_pops : list pop;
  rc_deltas : list (list N * (N * N));
  rc_peers : list (N * N);                 (* peer_addresses sorted by id: (id, address index) *)
  rc_selective : bool;                     (* is_selective() *)
  rc_table : list (N * list (N * N));      (* route_deltas: sorted by target, (tag, origin) of the deltas in order *)
  rc_router0 : bool;                       (* GossipState::with_router (true) or ::new (false) *)
  rc_epoch0 : N;                           (* epoch field at the start *)
  rc_script : list qev;
  rc_queue : list (option N * (N * (N * (N * (list (N * N) * N))))) }.
    (* everything drained, then the final outbound queue, in order:
       (target, (kind 0=DeltaBatch 1=TargetedDelta 2=Heartbeat, src, tgt, (tag, origin) list, epoch)),
       the targeted messages of one queue_deltas call sorted by target *)

(* large queue_deltas batches, described by a rule instead of being listed: update j of a
   call (0 <= j < size) is on key [keys[j mod |keys|]], has payload tag [base + j] (base =
   number of updates of the earlier calls) and origin [origins[j mod |origins|]].  The
   outbound queue after the calls is compared through a digest per message. *)
Record bigcase := BG {
  bg_make : rmake;
  bg_keys : list string;
  bg_origins : list N;
  bg_sizes : list N;                        (* one queue_deltas call each, advance_epoch before *)
  bg_pre : N;                               (* heartbeats already queued (epoch 0), <= 10000 *)
  bg_hb : N;                                (* observed: heartbeats at the front of the final queue *)
  bg_queue : list (option N * (N * (N * (N * (N * (N * (N * N))))))) }.
    (* (target, (kind, (src, (tgt, (epoch, (number of deltas, (sum of tags, sum of (position+1)*tag))))))),
       the messages behind those heartbeats; targeted messages of one call sorted by target *)

Record case := K {
  k_vn : N; k_rf : N;
  k_init : list N;                         (* HashRing::new(init, vn, rf) *)
  k_ops : list op;                         (* then add_node / remove_node *)
  k_keys : list (string * N);              (* key (hex of the UTF-8 bytes), custom rf *)
  k_stages : list stage;                   (* after new and after every op *)
  k_universe : list N;                     (* every node id mentioned *)
  k_routers : list rcase;                  (* routers over the final ring *)
  k_big : list bigcase }.                  (* large batches through queue_deltas, final ring *)

(* ---- comparison ---------------------------------------------------------------------- *)
Fixpoint list_eqb {A} (eqb : A -> A -> bool) (a b : list A) : bool :=
  match a, b with
  | [], [] => true
  | x :: a', y :: b' => eqb x y && list_eqb eqb a' b'
  | _, _ => false
  end.
Definition nl_eqb := list_eqb N.eqb.
Definition entry_eqb (a b : N * (N * N)) : bool :=
  (fst a =? fst b) && (fst (snd a) =? fst (snd b)) && (snd (snd a) =? snd (snd b)).
Definition pair_eqb (a b : N * N) : bool := (fst a =? fst b) && (snd a =? snd b).

Definition check_stage (R : ring) (kps : list (N * N)) (s : stage) : bool :=
  nl_eqb (r_nodes R) (st_nodes s) &&
  (r_version R =? st_version s) &&
  match st_ring s with Some l => list_eqb entry_eqb (r_ring R) l | None => true end &&
  list_eqb nl_eqb (map (fun k => replicas_at R (fst k) (r_rf R) 0) kps) (st_reps s) &&
  list_eqb nl_eqb (map (fun k => replicas_at R (fst k) (snd k) 0) kps) (st_reps_rf s).

Fixpoint check_stages (R : ring) (kps : list (N * N)) (ops : list op) (ss : list stage) : bool :=
  match ss with
  | [] => match ops with [] => true | _ => false end
  | s :: ss' =>
      check_stage R kps s &&
      match ops with
      | [] => match ss' with [] => true | _ => false end
      | o :: ops' => check_stages (Sapply R o) kps ops' ss'
      end
  end.

(* insertion sort of association lists by their (distinct) keys: canonical order of a map *)
Fixpoint ins_key {B} (p : N * B) (l : list (N * B)) : list (N * B) :=
  match l with
  | [] => [p]
  | q :: l' => if fst p <=? fst q then p :: q :: l' else q :: ins_key p l'
  end.
Definition sort_key {B} (l : list (N * B)) : list (N * B) := fold_right ins_key [] l.

Definition mk_router (R : ring) (m : rmake) : router :=
  match m with
  | RNew me peers sel => Router R me (combine peers (nseq (N.of_nat (List.length peers)))) sel
  | RCfg rid np sel part en => from_config rid np sel part en R
  end.
Definition apply_pop (r : router) (p : pop) : router :=
  match p with PUpd k a => update_peer r k a | PDel k => remove_peer r k end.

Definition tags (ds : list (list N * (N * N))) : list (N * N) := map snd ds.
Definition canon_table (t : list (N * list (list N * (N * N)))) : list (N * list (N * N)) :=
  sort_key (map (fun p => (fst p, tags (snd p))) t).
Definition pl_eqb := list_eqb pair_eqb.
Definition tbl_eqb (a b : list (N * list (N * N))) : bool :=
  list_eqb (fun x y => (fst x =? fst y) && pl_eqb (snd x) (snd y)) a b.

Definition canon_msg (m : option N * gmsg) : option N * (N * (N * (N * (list (N * N) * N)))) :=
  match snd m with
  | DeltaBatch src ds ep => (fst m, (0, (src, (0, (tags ds, ep)))))
  | TargetedDelta src tgt ds ep => (fst m, (1, (src, (tgt, (tags ds, ep)))))
  | Heartbeat src ep => (fst m, (2, (src, (0, ([], ep)))))
  end.
Definition optN_eqb (a b : option N) : bool :=
  match a, b with Some x, Some y => x =? y | None, None => true | _, _ => false end.
Definition msg_eqb (a b : option N * (N * (N * (N * (list (N * N) * N))))) : bool :=
  let '(ta, (ka, (sa, (ga, (da, ea))))) := a in
  let '(tb, (kb, (sb, (gb, (db, eb))))) := b in
  optN_eqb ta tb && (ka =? kb) && (sa =? sb) && (ga =? gb) && pl_eqb da db && (ea =? eb).

Definition os0 : N -> nat := fun _ => O.
Definition run_script (r : router) (router0 : bool) (epoch0 : N) (script : list qev) : list (option N * gmsg) :=
  let fin :=
    fold_left (fun st e =>
                 let '(out, g) := st in
                 match e with
                 | QAdv => (out, advance_epoch g)
                 | QD b => (out, queue_deltas fast_kpos (@sort_key _) os0 g b)
                 | QB b => (out, queue_deltas_broadcast g b)
                 | QH => (out, queue_heartbeat g)
                 | QDrain => let '(q, g') := drain_outbound g in (out ++ q, g')
                 | QSet => (out, set_router g r)
                 end)
              script ([], GState (gr_me r) epoch0 [] (if router0 then Some r else None)) in
  fst fin ++ g_queue (snd fin).

Definition check_router (R : ring) (c : rcase) : bool :=
  let r := fold_left apply_pop (rc_pops c) (mk_router R (rc_make c)) in
  list_eqb pair_eqb (sort_key (gr_peers r)) (rc_peers c) &&
  Bool.eqb (gr_selective r) (rc_selective c) &&
  tbl_eqb (canon_table (route_deltas fast_kpos r os0 (rc_deltas c))) (rc_table c) &&
  list_eqb msg_eqb (map canon_msg (run_script r (rc_router0 c) (rc_epoch0 c) (rc_script c))) (rc_queue c).

Definition gen_batch (keys : list (list N)) (origins : list N) (base n : N) : list (list N * (N * N)) :=
  let nk := N.of_nat (List.length keys) in
  let no := N.of_nat (List.length origins) in
  map (fun j => (nth (N.to_nat (j mod nk)) keys [], (base + j, nth (N.to_nat (j mod no)) origins 0)))
      (nseq n).

Definition digest_msg (m : option N * gmsg) : option N * (N * (N * (N * (N * (N * (N * N)))))) :=
  let dg := fun (ds : list (list N * (N * N))) =>
    let '(cnt, (sm, ws)) :=
      fold_left (fun a d => let '(c, (s1, s2)) := a in (c + 1, (s1 + d_tag d, s2 + (c + 1) * d_tag d)))
                ds (0, (0, 0)) in
    (cnt, (sm, ws)) in
  match snd m with
  | DeltaBatch src ds ep => (fst m, (0, (src, (0, (ep, dg ds)))))
  | TargetedDelta src tgt ds ep => (fst m, (1, (src, (tgt, (ep, dg ds)))))
  | Heartbeat src ep => (fst m, (2, (src, (0, (ep, (0, (0, 0)))))))
  end.
Definition is_hb (m : option N * gmsg) : bool := match snd m with Heartbeat _ _ => true | _ => false end.
Fixpoint hb_prefix (q : list (option N * gmsg)) : N * list (option N * gmsg) :=
  match q with
  | m :: q' => if is_hb m then let '(n, r) := hb_prefix q' in (n + 1, r) else (0, q)
  | [] => (0, [])
  end.
Definition dmsg_eqb (a b : option N * (N * (N * (N * (N * (N * (N * N))))))) : bool :=
  let '(ta, (ka, (sa, (ga, (ea, (ca, (ma, wa))))))) := a in
  let '(tb, (kb, (sb, (gb, (eb, (cb, (mb, wb))))))) := b in
  optN_eqb ta tb && (ka =? kb) && (sa =? sb) && (ga =? gb) && (ea =? eb) && (ca =? cb) && (ma =? mb) && (wa =? wb).

Definition run_big (r : router) (keys : list (list N)) (origins : list N) (sizes : list N) (pre : N) : list (option N * gmsg) :=
  g_queue (snd (fold_left (fun bg n =>
                  (fst bg + n,
                   queue_deltas fast_kpos (@sort_key _) os0 (advance_epoch (snd bg))
                                (gen_batch keys origins (fst bg) n)))
                sizes (0, GState (gr_me r) 0 (repeat (None, Heartbeat (gr_me r) 0) (N.to_nat pre)) (Some r)))).

Definition check_big (R : ring) (c : bigcase) : bool :=
  let r := mk_router R (bg_make c) in
  let '(hb, rest) := hb_prefix (run_big r (map unhex (bg_keys c)) (bg_origins c) (bg_sizes c) (bg_pre c)) in
  (hb =? bg_hb c) && list_eqb dmsg_eqb (map digest_msg rest) (bg_queue c).

(* positions of all virtual nodes of every node mentioned are pairwise distinct (the
   hypothesis of the placement theorems), checked on the sorted ring of the universe *)
Fixpoint adjacent_distinct (l : list (N * (N * N))) : bool :=
  match l with
  | a :: ((b :: _) as l') => negb (fst a =? fst b) && adjacent_distinct l'
  | _ => true
  end.

Definition check (c : case) : bool :=
  let kps := map (fun k => (fast_kpos (unhex (fst k)), snd k)) (k_keys c) in
  let R0 := Snew (k_init c) (k_vn c) (k_rf c) in
  let Rf := fold_left Sapply (k_ops c) R0 in
  check_stages R0 kps (k_ops c) (k_stages c) &&
  forallb (check_router Rf) (k_routers c) &&
  forallb (check_big Rf) (k_big c) &&
  adjacent_distinct (r_ring (Snew (k_universe c) (k_vn c) 0)).

Definition mismatches := mismatches_with check.

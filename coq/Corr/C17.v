(* Correspondence for C17: the error-provoking sequences of the c17 harness have the same shape
   as C01's cases and are checked by the same function (every reply and the visible keyspace
   after every step, against dialect AsBuilt of Model/Redis.v).  The C17-specific comparison
   (visible keyspace before = after for every error / read-only command, over the full
   command set) is evaluated directly on the implementation by harness/src/bin/c17.rs. *)
From RV Require Export Corr.C01.

(* Correspondence for C08: one incarnation of replica 1 = a list of events; the harness
   prints, per event, the clock after it (when visible) and the delta it emitted, and the
   final replicated_keys.  The model must reproduce all three. *)
From stdpp Require Import gmap.
From Coq Require Import NArith String.
From RV Require Export Lib.Hex Model.Crdt Model.ShardState Corr.Common Corr.C07.

Definition EW (k v : string) (x : option N) : event := EWrite (unhex k) (unhex v) x.
Definition ED (k : string) : event := EDelete (unhex k).
Definition EHS (k : string) (fs : list (string * string)) : event :=
  EHSet (unhex k) (map (λ p, (unhex p.1, unhex p.2)) fs).
Definition EHD (k : string) (fs : list string) : event := EHDel (unhex k) (map unhex fs).
Definition ERm (k : string) (v : rvalue) : event := ERemote (unhex k) v.
Definition ERc (k : string) (v : rvalue) : event := ERecover (unhex k) v.

Record case8 := K8 {
  k_causal : bool;
  k_evs : list event;
  k_obs : list (option N * option rvalue);
  k_final : list (string * rvalue)
}.
Notation K := K8.

Definition opt_oeq (a b : option rvalue) : bool :=
  match a, b with
  | Some x, Some y => oeq x y
  | None, None => true
  | _, _ => false
  end.

Fixpoint steps_ok (s : shard) (evs : list event) (obs : list (option N * option rvalue)) : option shard :=
  match evs, obs with
  | [], [] => Some s
  | e :: evs', (c, d) :: obs' =>
      let '(s1, od) := step s e in
      if negb (sh_ovf s1)
         && match c with Some t => N.eqb t (sh_time s1) | None => true end
         && opt_oeq od d
      then steps_ok s1 evs' obs' else None
  | _, _ => None
  end.

Definition keys_ok (s : shard) (fin : list (string * rvalue)) : bool :=
  N.eqb (N.of_nat (List.length fin)) (N.of_nat (size (sh_keys s))) &&
  forallb (λ p, match sh_keys s !! unhex p.1 with Some v => oeq v p.2 | None => false end) fin.

Definition check8 (k : case8) : bool :=
  match steps_ok (shard_init 1 (k_causal k)) (k_evs k) (k_obs k) with
  | Some s => keys_ok s (k_final k)
  | None => false
  end.

Definition mismatches := mismatches_with check8.

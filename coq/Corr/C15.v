(* Correspondence for C15: the harness prints each input, what RespCodec::parse and
   RespParser::parse answered on it (under catch_unwind), the largest single allocation
   request RespCodec made, the bytes both public encoders produced for generated values,
   and the frames RespCodec::parse cut out of whole streams; the model must agree. *)
From Coq Require Export NArith ZArith.
From Coq Require Import List Bool String.
From RV Require Export Lib.Hex Model.Resp Corr.Common.
Import ListNotations.

(* constructors the harness prints *)
Definition rS (h : string) : resp := RSimple (unhex h).
Definition rE (h : string) : resp := RError (unhex h).
Definition rI (z : Z) : resp := RInt z.
Definition rNB : resp := RNilBulk.
Definition rB (h : string) : resp := RBulk (unhex h).
Definition rNA : resp := RNilArr.
Definition rA (l : list resp) : resp := RArr l.

(* what the implementation answered *)
Inductive iout :=
| IDone (v : resp) (n : N)
| IInc
| IErr (k : errkind)
| IOther            (* an error text the harness does not know: never equal to the model *)
| IPanic.           (* panic / abort *)

Inductive itail := JMore (rest : string) | JErr (k : errkind) | JOther | JPanic.

(* A large value described by a rule (the frame itself would be a literal of hundreds of
   kilobytes): VRep n e = array of n copies of e, VHRep hd n e = array of the elements hd followed by n
   copies of e, VFill len b = bulk string of len bytes b. *)
Inductive vgen :=
| VV (v : resp)
| VRep (n : N) (e : vgen)
| VHRep (hd : list vgen) (n : N) (e : vgen)
| VArr (l : list vgen)
| VFill (len : N) (byte : N).

Fixpoint vexpand (g : vgen) : resp :=
  match g with
  | VV v => v
  | VRep n e => let x := vexpand e in RArr (N.iter n (cons x) [])
  | VHRep hd n e => let x := vexpand e in RArr (map vexpand hd ++ N.iter n (cons x) [])
  | VArr l => RArr (map vexpand l)
  | VFill len b => RBulk (N.iter len (cons b) [])
  end.

(* polynomial hash of a byte string, modulo 2^32: ties the frame Coq builds from the rule to
   the bytes the harness fed to the implementation *)
Definition bhash (b : bytes) : N :=
  fold_left (fun h x => N.land (h * 257 + x + 1) 4294967295%N) b 0%N.

Inductive case :=
| KG (g : vgen) (trail : string) (run : bool) (fhash flen : N) (cn pn : N) (csame psame : bool)
| KT (g : vgen) (k : N) (c p : iout)
| KP (input : string) (c : iout) (calloc : N) (p : iout)
| KX (len code : N) (c p : iout)
| KE (v : resp) (enc_codec enc_parser : string) (c p : iout)
| KS (stream : string) (frames : list resp) (t : itail)
| KD (depth : N) (inner : string) (c p : iout).

Definition errkind_eqb (a b : errkind) : bool :=
  match a, b with
  | EUnknownType, EUnknownType | EBadInt, EBadInt | ENegLen, ENegLen | ETooDeep, ETooDeep => true
  | _, _ => false
  end.

(* well-formed UTF-8 as core::str::from_utf8 accepts it (no overlong forms, no surrogates,
   nothing above U+10FFFF): String::from_utf8_lossy is the identity exactly on these *)
Definition inr (lo hi x : N) : bool := ((lo <=? x) && (x <=? hi))%N.
Fixpoint utf8_valid (s : bytes) : bool :=
  match s with
  | [] => true
  | a :: t =>
    if (a <? 128)%N then utf8_valid t
    else match t with
    | [] => false
    | b :: t2 =>
      if inr 194 223 a then inr 128 191 b && utf8_valid t2
      else match t2 with
      | [] => false
      | c :: t3 =>
        if ((a =? 224)%N && inr 160 191 b) || (inr 225 236 a && inr 128 191 b) ||
           ((a =? 237)%N && inr 128 159 b) || (inr 238 239 a && inr 128 191 b)
        then inr 128 191 c && utf8_valid t3
        else match t3 with
        | [] => false
        | d :: t4 =>
          if ((a =? 240)%N && inr 144 191 b) || (inr 241 243 a && inr 128 191 b) ||
             ((a =? 244)%N && inr 128 143 b)
          then inr 128 191 c && inr 128 191 d && utf8_valid t4
          else false
        end
      end
    end
  end.

(* [lossy] = the implementation value went through String::from_utf8_lossy (RespParser):
   payloads of simple strings / errors are compared whenever the model's bytes are valid
   UTF-8 (the conversion is then the identity); for invalid UTF-8 the replacement by U+FFFD
   is not modelled (the harness compares RespParser's payload with std's from_utf8_lossy of
   RespCodec's bytes instead) *)
Fixpoint resp_eqb (lossy : bool) (m i : resp) : bool :=
  match m, i with
  | RSimple x, RSimple y | RError x, RError y =>
      if lossy && negb (utf8_valid x) then true else bytes_eqb x y
  | RInt x, RInt y => (x =? y)%Z
  | RNilBulk, RNilBulk | RNilArr, RNilArr => true
  | RBulk x, RBulk y => bytes_eqb x y
  | RArr l, RArr k =>
      (fix go (l k : list resp) : bool :=
         match l, k with
         | [], [] => true
         | a :: l', b :: k' => resp_eqb lossy a b && go l' k'
         | _, _ => false
         end) l k
  | _, _ => false
  end.

Definition out_eqb (lossy : bool) (m : outcome) (i : iout) : bool :=
  match m, i with
  | Done v n, IDone w k => resp_eqb lossy v w && (N.of_nat n =? k)%N
  | Incomplete, IInc => true
  | Err a, IErr b => errkind_eqb a b
  | Panic, IPanic => true
  | _, _ => false
  end.

Fixpoint list_eqb {A} (f : A -> A -> bool) (l k : list A) : bool :=
  match l, k with
  | [], [] => true
  | a :: l', b :: k' => f a b && list_eqb f l' k'
  | _, _ => false
  end.

Definition tail_eqb (m : stail) (i : itail) : bool :=
  match m, i with
  | TMore r, JMore h => bytes_eqb r (unhex h)
  | TErr a, JErr b => errkind_eqb a b
  | TPanic, JPanic => true
  | _, _ => false
  end.

(* the allocation request is compared exactly as soon as either side exceeds 256 bytes
   (below that, constant-size error texts and the like dominate) *)
Definition alloc_eqb (m i : N) : bool :=
  if ((256 <? m) || (256 <? i))%N then (m =? i)%N else true.

Definition both (b : bytes) (c p : iout) : bool :=
  out_eqb false (parse true b) c && out_eqb true (parse false b) p.

(* the near-grammar alphabet of the exhaustive cases and the code-th string of a length *)
Definition ALPHA : list N := [43; 45; 58; 36; 42; 48; 49; 57; 13; 10; 97; 255]%N.
Fixpoint nth_string (len : nat) (code : N) (acc : bytes) : bytes :=
  match len with
  | O => acc
  | S l => nth_string l (code / 12)%N (nth (N.to_nat (code mod 12)%N) ALPHA 0%N :: acc)
  end.

Definition deep_input (depth : N) (inner : bytes) : bytes :=
  N.iter depth (fun b => 42 :: 49 :: 13 :: 10 :: b)%N inner.

(* Size-boundary frames.  KG: the implementation decoded [frame ++ trail] to a value the
   harness found equal ([csame], [psame]) to the rule-described value, consuming [cn] / [pn]
   bytes.  Coq rebuilds the value v from the rule, checks that it is well-formed, that
   [encode v] is the frame that was fed (length and hash) and that the consumed counts are
   its length: by theorem C15_encode_decode the model then answers
   [Done v (length (encode v))] on [encode v ++ trail] for both decoders, i.e. exactly what
   the implementation answered.  When [run] is set (frames small enough for the quadratic
   model) the model is also evaluated.
   KT: the implementation answered c / p on the first k bytes of the frame of the value;
   with k < length (encode v) theorem C15_parse_prefix_incomplete gives Incomplete. *)
Definition done_exact (o : outcome) (v : resp) (n : N) : bool :=
  match o with Done w m => resp_eqb false w v && (N.of_nat m =? n)%N | _ => false end.

Definition check (k : case) : bool :=
  match k with
  | KG g trail run fhash flen cn pn csame psame =>
      let v := vexpand g in
      let f := encode v in
      wf_resp MAX_DEPTH v && (N.of_nat (List.length f) =? flen)%N && (bhash f =? fhash)%N &&
      (cn =? flen)%N && (pn =? flen)%N && csame && psame &&
      (if run then
         let b := (f ++ unhex trail)%list in
         done_exact (parse true b) v flen && done_exact (parse false b) v flen
       else true)
  | KT g k c p =>
      let f := encode (vexpand g) in
      wf_resp MAX_DEPTH (vexpand g) && (k <? N.of_nat (List.length f))%N &&
      match c, p with IInc, IInc => true | _, _ => false end
  | KP h c ca p =>
      let b := unhex h in
      both b c p && alloc_eqb (alloc_request true b) ca
  | KX len code c p => both (nth_string (N.to_nat len) code []) c p
  | KE v ec ep c p =>
      let b := encode v in
      bytes_eqb b (unhex ec) && bytes_eqb b (unhex ep) && both b c p
  | KS h frames t =>
      let r := decode_stream true (unhex h) in
      list_eqb (resp_eqb false) (fst r) frames && tail_eqb (snd r) t
  | KD depth inner c p => both (deep_input depth (unhex inner)) c p
  end.

Definition mismatches := mismatches_with check.

(* Correspondence for C15: the harness prints each input, what RespCodec::parse and
   RespParser::parse answered on it (under catch_unwind), the largest single allocation
   request RespCodec made, the bytes both public encoders produced for generated values,
   and the frames RespCodec::parse cut out of whole streams; the model must agree. *)
From Coq Require Export NArith ZArith.
From Coq Require Import List Bool String.
From RV Require Export Lib.Hex Model.Resp Corr.Common.
Import ListNotations.

(* constructors the harness prints *)
Definition rS (h : string) : resp := RSimple (unhex h).
Definition rE (h : string) : resp := RError (unhex h).
Definition rI (z : Z) : resp := RInt z.
Definition rNB : resp := RNilBulk.
Definition rB (h : string) : resp := RBulk (unhex h).
Definition rNA : resp := RNilArr.
Definition rA (l : list resp) : resp := RArr l.

(* what the implementation answered *)
Inductive iout :=
| IDone (v : resp) (n : N)
| IInc
| IErr (k : errkind)
| IOther            (* an error text the harness does not know: never equal to the model *)
| IPanic.           (* panic / abort *)

Inductive itail := JMore (rest : string) | JErr (k : errkind) | JOther | JPanic.

Inductive case :=
| KP (input : string) (c : iout) (calloc : N) (p : iout)
| KX (len code : N) (c p : iout)
| KE (v : resp) (enc_codec enc_parser : string) (c p : iout)
| KS (stream : string) (frames : list resp) (t : itail)
| KD (depth : N) (inner : string) (c p : iout).

Definition errkind_eqb (a b : errkind) : bool :=
  match a, b with
  | EUnknownType, EUnknownType | EBadInt, EBadInt | ENegLen, ENegLen | ETooDeep, ETooDeep => true
  | _, _ => false
  end.

Definition ascii_only (s : bytes) : bool := forallb (fun c => c <? 128)%N s.

(* [lossy] = the implementation value went through String::from_utf8_lossy (RespParser):
   payloads of simple strings / errors are compared only when the model's bytes are ASCII *)
Fixpoint resp_eqb (lossy : bool) (m i : resp) : bool :=
  match m, i with
  | RSimple x, RSimple y | RError x, RError y =>
      if lossy && negb (ascii_only x) then true else bytes_eqb x y
  | RInt x, RInt y => (x =? y)%Z
  | RNilBulk, RNilBulk | RNilArr, RNilArr => true
  | RBulk x, RBulk y => bytes_eqb x y
  | RArr l, RArr k =>
      (fix go (l k : list resp) : bool :=
         match l, k with
         | [], [] => true
         | a :: l', b :: k' => resp_eqb lossy a b && go l' k'
         | _, _ => false
         end) l k
  | _, _ => false
  end.

Definition out_eqb (lossy : bool) (m : outcome) (i : iout) : bool :=
  match m, i with
  | Done v n, IDone w k => resp_eqb lossy v w && (N.of_nat n =? k)%N
  | Incomplete, IInc => true
  | Err a, IErr b => errkind_eqb a b
  | Panic, IPanic => true
  | _, _ => false
  end.

Fixpoint list_eqb {A} (f : A -> A -> bool) (l k : list A) : bool :=
  match l, k with
  | [], [] => true
  | a :: l', b :: k' => f a b && list_eqb f l' k'
  | _, _ => false
  end.

Definition tail_eqb (m : stail) (i : itail) : bool :=
  match m, i with
  | TMore r, JMore h => bytes_eqb r (unhex h)
  | TErr a, JErr b => errkind_eqb a b
  | TPanic, JPanic => true
  | _, _ => false
  end.

(* the allocation request is compared exactly as soon as either side exceeds 256 bytes
   (below that, constant-size error texts and the like dominate) *)
Definition alloc_eqb (m i : N) : bool :=
  if ((256 <? m) || (256 <? i))%N then (m =? i)%N else true.

Definition both (b : bytes) (c p : iout) : bool :=
  out_eqb false (parse true b) c && out_eqb true (parse false b) p.

(* the near-grammar alphabet of the exhaustive cases and the code-th string of a length *)
Definition ALPHA : list N := [43; 45; 58; 36; 42; 48; 49; 57; 13; 10; 97; 255]%N.
Fixpoint nth_string (len : nat) (code : N) (acc : bytes) : bytes :=
  match len with
  | O => acc
  | S l => nth_string l (code / 12)%N (nth (N.to_nat (code mod 12)%N) ALPHA 0%N :: acc)
  end.

Definition deep_input (depth : N) (inner : bytes) : bytes :=
  N.iter depth (fun b => 42 :: 49 :: 13 :: 10 :: b)%N inner.

Definition check (k : case) : bool :=
  match k with
  | KP h c ca p =>
      let b := unhex h in
      both b c p && alloc_eqb (alloc_request true b) ca
  | KX len code c p => both (nth_string (N.to_nat len) code []) c p
  | KE v ec ep c p =>
      let b := encode v in
      bytes_eqb b (unhex ec) && bytes_eqb b (unhex ep) && both b c p
  | KS h frames t =>
      let r := decode_stream true (unhex h) in
      list_eqb (resp_eqb false) (fst r) frames && tail_eqb (snd r) t
  | KD depth inner c p => both (deep_input depth (unhex inner)) c p
  end.

Definition mismatches := mismatches_with check.

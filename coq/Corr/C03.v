(* Correspondence for C03 (stage 1: routing facts only). *)
From stdpp Require Import gmap.
From Coq Require Export NArith ZArith String.
From RV Require Export Lib.Hex Lib.SipHash Lib.SipHashFast Model.Shard Corr.Common.
Local Open Scope N_scope.

Inductive reply := RS (s : string) | RE (s : string) | RI (z : Z) | RB (o : option string) | RA (o : option (list reply)).
Inductive arg := A0 | AB (b : string) | AL (l : list string) | AD (f t : bool).
Inductive cmd :=
| Ping (m : option string) | Flush (all : bool) | Keys (p : string) | MGet (ks : list string)
| MSet (kvs : list (string * string)) | DbSize | Scan (c : N) (p : option string) (n : option N)
| Del (ks : list string) | Exists (ks : list string) | Op (tag : string) (ks : list string) (a : arg).
Inductive req := G (c : cmd) | FG (k : string) | PG (k : string) | FS (k v : string) | PS (k v : string)
| BG (ks : list string) | BS (kvs : list (string * string)).

(* key, other key, in shard 0 via execute / via fast path, same home on both paths,
   co-located with [other] execute/execute and execute/fast, DefaultHasher of the str / of the [u8] *)
Inductive rfact := RF (k o : string) (in0g in0f same cgg cgf : bool) (hs hb : N).
Inductive case3 := KC (n : N) (facts : list rfact) (rs : list req) (obsN obs1 : list reply).

Definition hash_str_f (k : list N) : N := sip13f (k ++ [255]).
Definition hash_slice_f (k : list N) : N := sip13f (le64f (N.of_nat (List.length k)) ++ k).

Definition fact_ok (n : N) (f : rfact) : bool :=
  let '(RF k o in0g in0f same cgg cgf hs hb) := f in
  let kb := unhex k in let ob := unhex o in
  let s := hash_str_f kb in let b := hash_slice_f kb in
  (s =? hs) && (b =? hb) &&
  Bool.eqb in0g (s mod n =? 0) && Bool.eqb in0f (b mod n =? 0) &&
  Bool.eqb same (s mod n =? b mod n) &&
  Bool.eqb cgg (s mod n =? hash_str_f ob mod n) && Bool.eqb cgf (s mod n =? hash_slice_f ob mod n).

Definition check3 (c : case3) : bool :=
  let '(KC n facts rs obsN obs1) := c in forallb (fact_ok n) facts.
Definition mismatches := mismatches_with check3.

(* Correspondence for C03.  A case = the shard count N, the routing facts the harness observed
   by probing a real N-shard instance for the keys of the case, and (for sequences inside the
   modelled command subset) the request sequence with every reply of the real N-shard and of the
   real 1-shard instance.  The dispatcher model over Model/MiniKV.v must reproduce both reply
   lists; the routing model must reproduce the observed facts and the raw hash values. *)
From stdpp Require Import gmap sorting.
From Coq Require Export NArith ZArith String.
From RV Require Export Lib.Hex Lib.SipHash Lib.SipHashFast Model.Shard Model.MiniKV Corr.Common.
Local Open Scope N_scope.

(* ---- what the harness prints (byte strings as hex literals) *)
Definition RS (s : string) : reply := RSimple (unhex s).
Definition RE (s : string) : reply := RErr (unhex s).
Definition RI (z : Z) : reply := RInt z.
Definition RB (o : option string) : reply := RBulk (option_map unhex o).
Definition RA (o : option (list reply)) : reply := RArr o.

Definition A0 : arg := ArgNone.
Definition AB (b : string) : arg := ArgB (unhex b).
Definition AL (l : list string) : arg := ArgL (map unhex l).
Definition AD (f t : bool) : arg := ArgDir f t.

Definition uh2 (kv : string * string) : key * bytes := (unhex kv.1, unhex kv.2).
Definition Ping (m : option string) : cmd arg := CPing (option_map unhex m).
Definition Flush (all : bool) : cmd arg := CFlush all.
Definition Keys (p : string) : cmd arg := CKeys (unhex p).
Definition MGet (ks : list string) : cmd arg := CMGet (map unhex ks).
Definition MSet (kvs : list (string * string)) : cmd arg := CMSet (map uh2 kvs).
Definition DbSize : cmd arg := CDbSize.
Definition Scan (c : N) (p : option string) (n : option N) : cmd arg := CScan c (option_map unhex p) n.
Definition Del (ks : list string) : cmd arg := CDel (map unhex ks).
Definition Exs (ks : list string) : cmd arg := CExists (map unhex ks).
Definition Op (tag : string) (ks : list string) (a : arg) : cmd arg := COp tag (map unhex ks) a.

Definition G (c : cmd arg) : req arg := Generic c.
Definition FG (k : string) : req arg := FastGet false (unhex k).
Definition PG (k : string) : req arg := FastGet true (unhex k).
Definition FS (k v : string) : req arg := FastSet false (unhex k) (unhex v).
Definition PS (k v : string) : req arg := FastSet true (unhex k) (unhex v).
Definition BG (ks : list string) : req arg := PipeGet (map unhex ks).
Definition BS (kvs : list (string * string)) : req arg := PipeSet (map uh2 kvs).

(* key, other key; observed on a real N-shard instance: key in shard 0 when written through
   execute / through fast_set; execute and fast_set put the key in the same shard; key
   co-located with [other] written through execute / through fast_set; DefaultHasher value of
   the key as a str / as a [u8] *)
Inductive rfact := RF (k o : string) (in0g in0f same cgg cgf : bool) (hs hb : N).
Inductive case3 := KC (n : N) (facts : list rfact) (rs : list (req arg)) (obsN obs1 : list reply).

(* ---- routing, evaluated with the fast (proved equal) SipHash *)
Definition hash_str_f (k : list N) : N := sip13f (k ++ [255]).
Definition hash_slice_f (k : list N) : N := sip13f (le64f (N.of_nat (List.length k)) ++ k).
Definition home_f (n : nat) (k : key) : nat := N.to_nat (hash_slice_f k mod N.of_nat n).

Definition fact_ok (n : N) (f : rfact) : bool :=
  let '(RF k o in0g in0f same cgg cgf hs hb) := f in
  let kb := unhex k in let ob := unhex o in
  let hk := hash_slice_f kb mod n in let ho := hash_slice_f ob mod n in
  (hash_str_f kb =? hs) && (hash_slice_f kb =? hb) &&
  Bool.eqb in0g (hk =? 0) && Bool.eqb in0f (hk =? 0) && Bool.eqb same true &&
  Bool.eqb cgg (hk =? ho) && Bool.eqb cgf (hk =? ho).

(* the homes of the case's keys are computed once; any other key is hashed on demand *)
Fixpoint memo_find (k : key) (t : list (key * nat)) : option nat :=
  match t with [] => None | (x, i) :: r => if bytes_eqb k x then Some i else memo_find k r end.
Definition memo_home (t : list (key * nat)) (n : nat) (k : key) : nat :=
  match memo_find k t with Some i => i | None => home_f n k end.
Definition memo_table (n : nat) (facts : list rfact) : list (key * nat) :=
  map (fun f => let '(RF k _ _ _ _ _ _ _ _) := f in (unhex k, home_f n (unhex k))) facts.

(* ---- reply comparison *)
Fixpoint reply_eqb (a b : reply) : bool :=
  match a, b with
  | RSimple x, RSimple y | RErr x, RErr y => bytes_eqb x y
  | RInt x, RInt y => Z.eqb x y
  | RBulk None, RBulk None => true
  | RBulk (Some x), RBulk (Some y) => bytes_eqb x y
  | RArr None, RArr None => true
  | RArr (Some x), RArr (Some y) =>
      (fix go (x y : list reply) : bool :=
         match x, y with
         | [], [] => true
         | p :: x', q :: y' => reply_eqb p q && go x' y'
         | _, _ => false
         end) x y
  | RPanic, RPanic => true
  | _, _ => false
  end.

(* KEYS answers in hash-map iteration order: compared as sorted lists *)
Definition canon (r : req arg) (a : reply) : reply :=
  match r, a with
  | Generic (CKeys _), RArr (Some l) =>
      if forallb (fun x => match bulk_key x with Some _ => true | None => false end) l
      then RArr (Some (kbulk <$> sort_bytes (omap bulk_key l))) else a
  | _, _ => a
  end.

Definition is_rk (r : req arg) : bool :=
  match r with Generic (COp tag [] _) => is_randomkey tag | _ => false end.

(* RANDOMKEY: the implementation may answer any key of shard 0 (nil iff that shard is empty) *)
Definition randomkey_ok (sh : list (gmap key val)) (obs : reply) : bool :=
  match sh with
  | s0 :: _ =>
      match obs with
      | RBulk None => Nat.eqb (size s0) 0
      | RBulk (Some k) => match s0 !! k with Some _ => true | None => false end
      | _ => false
      end
  | [] => false
  end.

Fixpoint run_ok (home : nat -> key -> nat) (sh : list (gmap key val)) (rs : list (req arg)) (obs : list reply) : bool :=
  match rs, obs with
  | [], [] => true
  | r :: rs', o :: obs' =>
      if is_rk r then randomkey_ok sh o && run_ok home sh rs' obs'
      else
        let '(sh', a) := execN mini home home sh r in
        reply_eqb (canon r a) (canon r o) && run_ok home sh' rs' obs'
  | _, _ => false
  end.

Definition check3 (c : case3) : bool :=
  let '(KC n facts rs obsN obs1) := c in
  let nn := N.to_nat n in
  forallb (fact_ok n) facts &&
  match rs with
  | [] => true
  | _ => run_ok (memo_home (memo_table nn facts)) (replicate nn ∅) rs obsN
         && run_ok (fun _ _ => O) [∅] rs obs1
  end.
Definition mismatches := mismatches_with check3.

(* ---- the functions this file evaluates are the model's (Lib/SipHashFast.v proves the fast
   SipHash equal to the reference one; the memo table only caches) *)
From RV Require Import Lib.Bytes.
Lemma hash_slice_f_eq k : hash_slice_f k = hash_slice k.
Proof. unfold hash_slice_f, hash_slice. by rewrite sip13f_eq, le64f_eq. Qed.
Lemma hash_str_f_eq k : hash_str_f k = hash_str k.
Proof. unfold hash_str_f, hash_str. by rewrite sip13f_eq. Qed.
Lemma home_f_eq n k : home_f n k = home_bytes n k.
Proof. unfold home_f, home_bytes, route_bytes. by rewrite hash_slice_f_eq. Qed.
Lemma home_f_str n k : home_f n k = home_str n k.
Proof. apply home_f_eq. Qed.
Lemma memo_home_eq n facts k : memo_home (memo_table n facts) n k = home_f n k.
Proof.
  unfold memo_home. induction facts as [|[x o a b c d e hs hb] facts IH]; [done|]. cbn.
  destruct (bytes_eqb k (unhex x)) eqn:E; [|exact IH].
  apply bytes_eqb_eq in E. by subst.
Qed.

(* Correspondence for C16.  The harness prints, per case, the request frame and what each
   Rust parser made of it: the parsed Command structurally (tag + fields in declaration
   order) or the error text, or PANIC.  Both must equal the model's outcome.  f64 fields are
   printed as IEEE bits; the model keeps the literal, so they are compared through the
   table [ftab] = graph of str::parse::<f64> on the arguments of this frame. *)
From Coq Require Import NArith ZArith List String Bool.
From RV Require Export Lib.Hex Model.CmdGrammar Corr.Common.
Import ListNotations.
Local Open Scope bool_scope.

Definition EB (h : string) : relem := EBulk (unhex h).
Definition EI (z : Z) : relem := EInt z.
Definition EO : relem := EOther.
Definition S (h : string) : cval := VS (unhex h).
Definition B (h : string) : cval := VB (unhex h).
Definition I (z : Z) : cval := VI z.
Definition Fb (z : Z) : cval := VFbits z.
Definition T : cval := VFlag true.
Definition Ff : cval := VFlag false.
Definition Sm (v : cval) : cval := VOpt (Some v).
Definition Nn : cval := VOpt None.
Definition L (l : list cval) : cval := VL l.
Definition P (a b : cval) : cval := VP a b.
Definition C (tag : string) (args : list cval) : presult := POk (Cmd tag args).
Definition E (h : string) : presult := PErr (unhex h).
Definition PANIC : presult := PPanic.

Fixpoint ftab_find (t : bytes) (tab : list (string * Z)) : option Z :=
  match tab with
  | [] => None
  | (h, z) :: r => if bytes_eqb t (unhex h) then Some z else ftab_find t r
  end.

Section Match.
  Variable tab : list (string * Z).
  Fixpoint cmatch (m i : cval) : bool :=
    match m, i with
    | VS a, VS b => bytes_eqb a b
    | VB a, VB b => bytes_eqb a b
    | VI a, VI b => Z.eqb a b
    | VF t, VFbits z => match ftab_find t tab with Some z' => Z.eqb z z' | None => false end
    | VFlag a, VFlag b => Bool.eqb a b
    | VOpt None, VOpt None => true
    | VOpt (Some a), VOpt (Some b) => cmatch a b
    | VL a, VL b =>
        (fix go (a b : list cval) : bool :=
           match a, b with
           | [], [] => true
           | x :: a', y :: b' => cmatch x y && go a' b'
           | _, _ => false
           end) a b
    | VP a1 a2, VP b1 b2 => cmatch a1 b1 && cmatch a2 b2
    | _, _ => false
    end.
  Fixpoint lmatch (a b : list cval) : bool :=
    match a, b with
    | [], [] => true
    | x :: a', y :: b' => cmatch x y && lmatch a' b'
    | _, _ => false
    end.
  Definition pmatch (m i : presult) : bool :=
    match m, i with
    | POk (Cmd t a), POk (Cmd u b) => String.eqb t u && lmatch a b
    | PErr a, PErr b => bytes_eqb a b
    | PPanic, PPanic => true
    | _, _ => false
    end.
End Match.

(* replies and Lua values *)
Definition RS (h : string) : resp := RSimple_ (unhex h).
Definition RE (h : string) : resp := RError (unhex h).
Definition RI (z : Z) : resp := RInt z.
Definition RB (o : option string) : resp := RBulk (option_map unhex o).
Definition RA (o : option (list resp)) : resp := RArr o.
Definition LS (h : string) : lval := LStr (unhex h).
Definition LF (h : string) : lval := LNum (unhex h).
Inductive direct := DReply (r : resp) | DParseErr (h : string).

Definition obytes_eqb (a b : option bytes) : bool :=
  match a, b with
  | Some x, Some y => bytes_eqb x y
  | None, None => true
  | _, _ => false
  end.
Fixpoint resp_eqb (a b : resp) : bool :=
  match a, b with
  | RSimple_ x, RSimple_ y => bytes_eqb x y
  | RError x, RError y => bytes_eqb x y
  | RInt x, RInt y => Z.eqb x y
  | RBulk x, RBulk y => obytes_eqb x y
  | RArr None, RArr None => true
  | RArr (Some x), RArr (Some y) =>
      (fix go (x y : list resp) : bool :=
         match x, y with
         | [], [] => true
         | p :: x', q :: y' => resp_eqb p q && go x' y'
         | _, _ => false
         end) x y
  | _, _ => false
  end.
Fixpoint lval_eqb (a b : lval) : bool :=
  match a, b with
  | LNil, LNil => true
  | LBool x, LBool y => Bool.eqb x y
  | LInt x, LInt y => Z.eqb x y
  | LNum x, LNum y => bytes_eqb x y
  | LStr x, LStr y => bytes_eqb x y
  | LTab o1 e1 l1, LTab o2 e2 l2 =>
      match o1, o2 with Some x, Some y => lval_eqb x y | None, None => true | _, _ => false end
      && match e1, e2 with Some x, Some y => lval_eqb x y | None, None => true | _, _ => false end
      && (fix go (x y : list lval) : bool :=
            match x, y with
            | [], [] => true
            | p :: x', q :: y' => lval_eqb p q && go x' y'
            | _, _ => false
            end) l1 l2
  | _, _ => false
  end.
(* a Lua table does not record trailing nils of its array part *)
Fixpoint lnorm (v : lval) : lval :=
  match v with
  | LTab o e l =>
      LTab (option_map lnorm o) (option_map lnorm e)
           ((fix go (l : list lval) : list lval :=
               match l with
               | [] => []
               | x :: t => let t' := go t in
                           match lnorm x, t' with
                           | LNil, [] => []
                           | x', _ => x' :: t'
                           end
               end) l)
  | _ => v
  end.
Definition is_error (r : resp) : bool := match r with RError _ => true | _ => false end.

Inductive case16 :=
| KP (frame : option (list relem)) (r_std r_zc : presult) (ftab : list (string * Z))
| KL (parts : list string) (use_call : bool) (d : direct) (script : resp) (seen : option lval)
| KV (v : lval) (reply : resp).

Definition check16 (k : case16) : bool :=
  match k with
  | KP f r1 r2 tab => let m := parse_frame f in pmatch tab m r1 && pmatch tab m r2
  | KL parts use_call d script seen =>
      let ps := map unhex parts in
      match lua_parse ps with
      | PErr t =>
          (if use_call then is_error script else resp_eqb script (RError (sanitize t)))
          && match seen with Some s => lval_eqb s (LTab None (Some (LStr t)) []) | None => false end
          && match ps with
             | n :: _ => if lua_supported (ustr n)
                         then match d with DParseErr h => bytes_eqb (unhex h) t | _ => false end
                         else true
             | [] => true
             end
      | POk _ =>
          match d with
          | DReply r =>
              let lv := resp_to_lua r in
              (if use_call && is_error r then is_error script else resp_eqb script (lua_to_resp lv))
              && match seen with Some s => lval_eqb s (lnorm lv) | None => false end
          | DParseErr _ => false
          end
      | PPanic => false
      end
  | KV v reply => resp_eqb (lua_to_resp v) reply
  end.

Definition mismatches := mismatches_with check16.

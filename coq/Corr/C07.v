(* Correspondence for C07: the harness prints each ReplicatedValue it built and the
   results of the implementation's merges; the model must agree on [obs]. *)
From stdpp Require Import gmap.
From Coq Require Import NArith String.
From RV Require Export Lib.Hex Model.Crdt Corr.Common.

Definition L (v : option string) (t r : N) (tomb : bool) : lww :=
  Lww (option_map unhex v) (Stamp t r) tomb.
Definition mk_nmap (l : list (N * N)) : gmap N N := list_to_map l.
Definition cl (r : lww) : crdt := CLww r.
Definition cg (l : list (N * N)) : crdt := CGCounter (mk_nmap l).
Definition cp (p n : list (N * N)) : crdt := CPNCounter (PN (mk_nmap p) (mk_nmap n)).
Definition cs (l : list string) : crdt := CGSet (list_to_set (map unhex l)).
Definition co (els : list (string * list (N * N))) (seq : list (N * N)) : crdt :=
  CORSet (ORSet (list_to_map (map (λ p, (unhex p.1, list_to_set p.2)) els)) (mk_nmap seq)).
Definition ch (l : list (string * lww)) : crdt :=
  CHash (list_to_map (map (λ p, (unhex p.1, p.2)) l)).
Definition V (c : crdt) (vc : option (list (N * N))) (e : option N) (t r : N) (rf : option N) : rvalue :=
  RV c (option_map mk_nmap vc) e (Stamp t r) rf.

Record case := K { k_a : rvalue; k_b : rvalue; k_c : rvalue;
                   k_ab : rvalue; k_ba : rvalue; k_bc : rvalue;
                   k_a_bc : rvalue; k_ab_c : rvalue; k_aa : rvalue }.

Definition oeq (x y : rvalue) : bool := bool_decide (obs x = obs y).

Definition check (k : case) : bool :=
  oeq (rv_merge (k_a k) (k_b k)) (k_ab k) &&
  oeq (rv_merge (k_b k) (k_a k)) (k_ba k) &&
  oeq (rv_merge (k_b k) (k_c k)) (k_bc k) &&
  oeq (rv_merge (k_a k) (rv_merge (k_b k) (k_c k))) (k_a_bc k) &&
  oeq (rv_merge (rv_merge (k_a k) (k_b k)) (k_c k)) (k_ab_c k) &&
  oeq (rv_merge (k_a k) (k_a k)) (k_aa k).

Definition mismatches := mismatches_with check.

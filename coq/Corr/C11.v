(* Correspondence for C11: the harness builds a store layout (manifest, checkpoint, segments
   written with the real SegmentWriter / CheckpointWriter, optionally a torn or missing
   object) and a WAL (real WalRotator on an in-memory WalStore) from one generated set of
   updates, and runs the real RecoveryManager::recover, recover_with_wal, and the production
   start-up path (recover, apply_recovered_state, replay of the whole WAL,
   apply_recovered_state, snapshot_state).  Printed per case: the layout, the WAL, and what
   the implementation returned.  The model must reproduce
     - recover: Ok/Err, the checkpoint state, the deltas in exactly the returned order,
     - recover_with_wal: the deltas in exactly the returned order,
     - the node state after applying what recover returned (on obs, per key),
     - the node state after the production path (on obs, per key). *)
From stdpp Require Import gmap.
From Coq Require Import NArith String.
From RV Require Export Lib.Hex Model.Crdt Model.Store Model.Persist Corr.Common Corr.C07 Corr.C12.

(* SG id key_id count size min max ; CK key_id ts count last *)
Definition SG (id kid cnt sz mn mx : N) : seginfo := SegInfo id (NSeg kid) cnt sz mn mx.
Definition CK (kid ts cnt last : N) : ckinfo := CkInfo (NCk kid) ts cnt last.
Definition mk_kv (l : list (string * rvalue)) : gmap (list N) rvalue :=
  list_to_map (map (λ p, (unhex p.1, p.2)) l).
(* objects of the layout *)
Definition OS (kid : N) (ds : list delta) : name * sobj obj := (NSeg kid, Whole (OSeg ds)).
Definition OC (kid : N) (l : list (string * rvalue)) : name * sobj obj := (NCk kid, Whole (OCk (mk_kv l))).
Definition OT (n : name) : name * sobj obj := (n, Torn).

Record case11 := K11 {
  k_version : N; k_rid : N; k_segs : list seginfo; k_ck : option ckinfo; k_next : N;
  k_has_manifest : bool;
  k_objs : list (name * sobj obj);
  k_wal : list (N * delta);
  (* recover(): None = Err; Some (checkpoint_state, deltas) *)
  k_rec : option (option (list (string * rvalue)) * list delta);
  (* recover_with_wal(): deltas *)
  k_recwal : option (list delta);
  (* snapshot_state after apply_recovered_state(recover()) *)
  k_state : option (list (string * rvalue));
  (* snapshot_state after the production path (plus full WAL replay) *)
  k_prod : option (list (string * rvalue))
}.

Definition store_of (k : case11) : gmap name (sobj obj) :=
  let objs : gmap name (sobj obj) := list_to_map (k_objs k) in
  if k_has_manifest k
  then <[NMan := Whole (OMan (Manifest (k_version k) (k_rid k) (k_segs k) (k_ck k) (k_next k)))]> objs
  else objs.

Definition kv_oeq (a b : gmap (list N) rvalue) : bool :=
  bool_decide (obs <$> a = obs <$> b).
Fixpoint deltas_eqb (l m : list delta) : bool :=
  match l, m with
  | [], [] => true
  | a :: l', b :: m' => delta_oeq a b && deltas_eqb l' m'
  | _, _ => false
  end.

Definition check_with (v : variant) (k : case11) : bool :=
  let st := store_of k in
  match recover st (k_rid k), k_rec k with
  | None, None =>
      match k_recwal k, k_state k, k_prod k with None, None, None => true | _, _, _ => false end
  | Some r, Some (ck, ds) =>
      match r_ck r, ck with
      | Some a, Some b => kv_oeq a (mk_kv b)
      | None, None => true
      | _, _ => false
      end &&
      deltas_eqb (r_deltas r) ds &&
      match recover_with_wal v st (k_rid k) (k_wal k), k_recwal k with
      | Some rw, Some dsw => deltas_eqb (r_deltas rw) dsw
      | _, _ => false
      end &&
      match k_state k with Some s => kv_oeq (state_of r) (mk_kv s) | None => false end &&
      match recover_prod st (k_rid k) (k_wal k), k_prod k with
      | Some s, Some s' => kv_oeq s (mk_kv s')
      | _, _ => false
      end
  | _, _ => false
  end.

Definition check11 : case11 -> bool := check_with in_repo.
Definition mismatches := mismatches_with check11.

(* Correspondence for C13: the harness writes a generated layout (manifest, optional
   checkpoint, segments of sizes around the compaction target, overlapping stamp ranges,
   tombstones, several replicas) with the real writers, runs the real
   RecoveryManager::recover, then the real Compactor::compact (fixed time source, healthy
   store), then recover again.  Printed per case: the configuration, the layout, the size
   of the segment the compaction wrote, and what the implementation did:
     - the result of compact(),
     - its store calls in order, each with its outcome (OK; GB = the get returned bytes
       damaged in transit, object at rest intact; EN = the call failed without effect),
     - the manifest afterwards (version, segments, next_segment_id),
     - the names of the objects that exist afterwards,
     - the contents of the new segment,
     - what recover() returned before and after.
   The model must reproduce all of it (contents of the new segment and the deltas recovered
   afterwards as multisets: the order of equal-time deltas of different keys inside the new
   segment is HashMap iteration order). *)
From stdpp Require Import gmap.
From Coq Require Import NArith String.
From RV Require Export Lib.Hex Model.Crdt Model.Store Model.Persist Corr.Common Corr.C07 Corr.C12 Corr.C11.

Record case13 := K13 {
  c_cc : ccfg; c_now : N;
  c_version : N; c_rid : N; c_segs : list seginfo; c_ck : option ckinfo; c_next : N;
  c_objs : list (name * sobj obj);
  c_sz : N;
  c_res : cres;
  c_log : list (call * outcome);                (* the compaction's store calls with their outcomes *)
  c_after : option (N * list seginfo * N);     (* manifest afterwards; None = unchanged *)
  c_names : list name;                          (* objects existing afterwards, sorted *)
  c_newseg : option (list delta);               (* contents of the created segment *)
  c_rec_before : option (list delta);           (* recover() before: deltas in order *)
  c_rec_after : option (list delta)             (* recover() after *)
}.

Definition store13 (k : case13) : gmap name (sobj obj) :=
  <[NMan := Whole (OMan (Manifest (c_version k) (c_rid k) (c_segs k) (c_ck k) (c_next k)))]>
    (list_to_map (c_objs k)).

Definition name_code (n : name) : N * N := name_enc n.
Definition names_eqb (l m : list name) : bool := bool_decide (l = m).
Fixpoint insert_name (x : name) (l : list name) : list name :=
  match l with
  | [] => [x]
  | y :: r =>
      let '(a, b) := name_code x in let '(c, d) := name_code y in
      if (N.ltb a c) || ((N.eqb a c) && (N.leb b d)) then x :: l else y :: insert_name x r
  end.
Definition sort_names (l : list name) : list name := fold_right insert_name [] l.

Definition opt_perm (a b : option (list delta)) : bool :=
  match a, b with
  | Some x, Some y => perm_eqb x y
  | None, None => true
  | _, _ => false
  end.
Definition opt_exact (a b : option (list delta)) : bool :=
  match a, b with
  | Some x, Some y => deltas_eqb x y
  | None, None => true
  | _, _ => false
  end.

Definition check_with (v : variant) (k : case13) : bool :=
  let st := store13 k in
  let '(w, r) := compact v (c_cc k) (c_now k) (c_sz k) (World st (map snd (c_log k)) [] false) in
  let st' := w_store w in
  bool_decide (r = c_res k) &&
  bool_decide (rev (w_log w) = c_log k) &&
  bool_decide (w_io w = []) &&
  negb (w_crashed w) &&
  match c_after k, st' !! NMan with
  | Some (ver, segs, nxt), Some (Whole (OMan m)) =>
      bool_decide (m_version m = ver) && bool_decide (m_segs m = segs) && bool_decide (m_next m = nxt)
  | None, Some (Whole (OMan m)) =>
      bool_decide (m = Manifest (c_version k) (c_rid k) (c_segs k) (c_ck k) (c_next k))
  | _, _ => false
  end &&
  names_eqb (sort_names (map fst (map_to_list st'))) (sort_names (c_names k)) &&
  match r, c_newseg k with
  | COk _ (Some id), Some ds =>
      match st' !! NSeg id with Some (Whole (OSeg out)) => perm_eqb out ds | _ => false end
  | COk _ (Some _), None => false
  | _, Some _ => false
  | _, None => true
  end &&
  opt_exact (option_map r_deltas (recover st (c_rid k))) (c_rec_before k) &&
  opt_perm (option_map r_deltas (recover st' (c_rid k))) (c_rec_after k).

Definition check13 : case13 -> bool := check_with in_repo.
Definition mismatches := mismatches_with check13.

(* Correspondence for C18: the harness prints two replica states (entries in the
   iteration order of the real HashMaps), what StateDigest::from_state / differs_from /
   divergent_buckets / get_keys_in_buckets returned for them, the two states after one
   MultiNodeSimulation::run_anti_entropy_sync (again in iteration order) and their
   digests.  The model must reproduce every number, run with h := sip13i (SipHash-1-3 on
   primitive 63-bit integers, Lib/SipHashInt.v: fast, not proved equal to sip13) and, on
   small states, also with h := sip13f (= sip13 of Lib/SipHash.v, proved).  The theorems of
   Props/C18.v hold for every h. *)
From stdpp Require Import gmap.
From Coq Require Import NArith String.
From RV Require Export Lib.Hex Lib.SipHash Lib.SipHashFast Lib.SipHashInt Model.Crdt Model.Digest Corr.Common Corr.C07.

(* implementation digest: root_hash, key_count, max_timestamp, number of buckets, and
   (index, hash, count, max) of every bucket that is not MerkleNode::empty() *)
Fixpoint expand (n : nat) (i : N) (bs : list (N * N * N * N)) : list node :=
  match n with
  | O => []
  | S n' =>
      match bs with
      | (j, hsh, c, m) :: r =>
          if (j =? i)%N then Node hsh c m :: expand n' (i + 1)%N r
          else node_empty :: expand n' (i + 1)%N bs
      | [] => node_empty :: expand n' (i + 1)%N []
      end
  end.
Definition G (root cnt mx nb : N) (bs : list (N * N * N * N)) : sdigest :=
  SD root cnt mx (expand (N.to_nat nb) 0%N bs).

(* long LWW strings are printed as a pattern: byte i = (seed + 31 i + 7 (i >> 8)) mod 256,
   with the listed (offset, byte) overwrites *)
Fixpoint lv_aux (fuel : nat) (i seed : N) : list N :=
  match fuel with
  | O => []
  | S f => N.land (seed + 31 * i + 7 * N.shiftr i 8)%N 255 :: lv_aux f (i + 1)%N seed
  end.
Fixpoint lv_set (l : list N) (i off b : N) : list N :=
  match l with
  | [] => []
  | x :: r => (if (i =? off)%N then b else x) :: lv_set r (i + 1)%N off b
  end.
Definition lv (len seed : N) (patches : list (N * N)) : list N :=
  fold_left (λ l p, lv_set l 0%N p.1 p.2) patches (lv_aux (N.to_nat len) 0%N seed).
Definition VB (b : list N) (t r : N) (tomb : bool) : rvalue :=
  RV (CLww (Lww (Some b) (Stamp t r) tomb)) None None (Stamp t r) None.

(* a plain LWW register stamped like its wrapper *)
Definition VL (v : option string) (t r : N) (tomb : bool) : rvalue :=
  V (cl (L v t r tomb)) None None t r None.

Notation st18 := (list (string * rvalue)) (only parsing).
Definition ents (l : list (string * rvalue)) : list (list N * rvalue) :=
  map (λ p, (unhex p.1, p.2)) l.

Inductive case18 :=
| KS (depth limit : N)
     (la lb : list (string * rvalue))          (* states, iteration order *)
     (da db : sdigest)                         (* from_state *)
     (dif : bool) (dv : list N)                (* differs_from, divergent_buckets *)
     (sa sb : list string)                     (* keys of get_keys_in_buckets(dv) per side *)
     (fired : bool)                            (* anti_entropy_syncs incremented *)
     (la2 lb2 : list (string * rvalue))        (* states after the round, iteration order *)
     (da2 db2 : sdigest)                       (* their digests *)
     (depth2 : N) (dvx dvy : list N)           (* divergent_buckets of A's digest against B's
                                                  digest at depth2, both ways (surplus arms) *)
| KP (depth : N) (la : list (string * rvalue)). (* from_state panicked *)

Definition obs_map (m : gmap (list N) rvalue) : gmap (list N) rvalue := obs <$> m.
Definition meq (m1 m2 : gmap (list N) rvalue) : bool :=
  bool_decide (obs_map m1 = obs_map m2).
Definition deq (a b : sdigest) : bool := bool_decide (a = b).

(* [sync_round] is, by definition, [sync_exchange] on the two [from_state] digests followed
   by [apply_deltas]; the check evaluates these constituents once and compares each
   intermediate result with the implementation's. *)
Definition hh := sip13i.
Definition check18 (k : case18) : bool :=
  match k with
  | KP depth la =>
      match from_state_checked hh depth (ents la) with DPanic => true | DOk _ => false end
  | KS depth limit la lb da db dif dv sa sb fired la2 lb2 da2 db2 depth2 dvx dvy =>
      let ea := ents la in let eb := ents lb in
      let ma := from_state hh depth ea in
      let mb := from_state hh depth eb in
      let lim := N.to_nat limit in
      let A : gmap (list N) rvalue := list_to_map ea in
      let B : gmap (list N) rvalue := list_to_map eb in
      (depth <? 64)%N &&
      deq ma da && deq mb db &&
      Bool.eqb (differs ma mb) dif &&
      bool_decide (divergent_buckets ma mb = dv) &&
      match sync_exchange hh depth lim ea eb ma mb with
      | Some (xa, xb) =>
          fired &&
          bool_decide (map fst xa = map unhex sa) && bool_decide (map fst xb = map unhex sb) &&
          meq (apply_deltas A xb) (list_to_map (ents la2)) &&
          meq (apply_deltas B xa) (list_to_map (ents lb2))
      | None =>
          negb fired && meq A (list_to_map (ents la2)) && meq B (list_to_map (ents lb2))
      end &&
      deq (from_state hh depth (ents la2)) da2 &&
      deq (from_state hh depth (ents lb2)) db2 &&
      (let mbx := from_state hh depth2 eb in
       bool_decide (divergent_buckets ma mbx = dvx) && bool_decide (divergent_buckets mbx ma = dvy)) &&
      (* on small states also with the N-based SipHash of Lib/SipHash.v (sip13f = sip13, proved) *)
      (if (List.length la + List.length lb <=? 4)%nat
       then deq (from_state sip13f depth ea) da && deq (from_state sip13f depth eb) db
       else true)
  end.

Lemma sync_round_unfold h depth limit la lb :
  sync_round h depth limit la lb =
  match sync_exchange h depth limit la lb (from_state h depth la) (from_state h depth lb) with
  | Some (xa, xb) => (apply_deltas (list_to_map la) xb, apply_deltas (list_to_map lb) xa)
  | None => (list_to_map la, list_to_map lb)
  end.
Proof. reflexivity. Qed.

Definition mismatches := mismatches_with check18.

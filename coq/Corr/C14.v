(* Correspondence for C14: the harness prints, per case, a table of deltas (stamp + bincode
   bytes produced by the real code), the bytes the real encoders produced for them (WAL entry,
   segment, checkpoint) and, for every mutation of each image (every truncation length, bit
   flips, patches, field overwrites, fills, multi-site combinations), what the real decoders
   returned; plus small WAL directories written by a real WalRotator and what a fresh rotator
   recovered from them.  The model (Model/Wal.v, Model/Codec.v with
   crc := Lib/Crc32.crc32) must produce the same bytes and the same outcomes. *)
From Coq Require Import NArith List String Bool.
From RV Require Export Lib.Hex Lib.Bytes Lib.Crc32 Model.Wal Model.Codec Corr.Common.
Import ListNotations.
Local Open Scope N_scope.

(* long hex strings are printed in pieces (a single literal of > 100 000 characters overflows the
   stack of the term parser) *)
Definition cat (l : list string) : string := fold_right append EmptyString l.

Inductive mutation :=
| MNone
| MTrunc (k : N)
| MFlip (byte bit : N)
| MPatch (off : N) (data : string)
| MFill (off len v : N)                  (* len bytes from off set to v (clipped to the image) *)
| MSeq (ms : list mutation).             (* several independent sites, applied in order *)

Fixpoint upd {A} (i : nat) (f : A -> A) (l : list A) : list A :=
  match l, i with
  | [], _ => []
  | x :: r, O => f x :: r
  | x :: r, S i' => x :: upd i' f r
  end.
Fixpoint patch (off : nat) (p d : bytes) : bytes :=
  match off, d with
  | _, [] => []
  | S o, x :: r => x :: patch o p r
  | O, x :: r => match p with [] => d | y :: p' => y :: patch O p' r end
  end.
Fixpoint mutate (d : bytes) (m : mutation) {struct m} : bytes :=
  match m with
  | MNone => d
  | MTrunc k => takeN k d
  | MFlip b i => if b <? lenN d then upd (N.to_nat b) (fun y => N.lxor y (N.shiftl 1 i)) d else d
  | MPatch o p => patch (N.to_nat o) (unhex p) d
  | MFill o n v => patch (N.to_nat o) (repeat v (N.to_nat n)) d
  | MSeq ms => fold_left (fun acc x => mutate acc x) ms d
  end.

(* the deltas of a case: stamp of the value (delta.value.timestamp.time) and bincode bytes *)
Record delta := D { d_ts : N; d_payload : string }.

(* outcome of a reader on the implementation *)
Inductive outcome :=
| OOk (idx : list N)     (* decoded deltas, as indices of the structurally equal original (999999: none) *)
| OErr (k : ekind)
| OPanic.

(* WAL entry: result of WalEntry::decode on the mutated bytes *)
Inductive wal_out := WNone | WSome (idx ts crc consumed : N).
Record wal_case := WE { we_delta : N; we_ts : N; we_bytes : string; we_probes : list (mutation * wal_out) }.

Record seg_case := SG { sg_deltas : list N; sg_bytes : string; sg_count : N; sg_min : N; sg_max : N;
                        sg_probes : list (mutation * outcome) }.

(* checkpoint: outcome of open+validate+load (COk: the loaded state equals the original,
   with the header getters' values), and whether open+load WITHOUT validate panicked *)
Inductive chk_out := COk (keys ts last : N) | CDiff | CErr (k : ekind) | CPanic.
Inductive unchecked_out := UPanic | UReturned | UOpenErr.
Record chk_case := CK { ck_keys : N; ck_ts : N; ck_last : N; ck_data : string; ck_bytes : string;
                        ck_probes : list (mutation * chk_out * unchecked_out) }.

(* WAL directory written by a real WalRotator (append*, sync) and read back by a FRESH rotator:
   (name, image) pairs in list() order and what recover_entries_after(0) returned
   (indices of the structurally equal originals; None = Err) *)
Record rot_case := RT { rt_files : list (string * string); rt_out : option (list N) }.

Record case := K { k_deltas : list delta; k_wal : list wal_case; k_seg : list seg_case;
                   k_chk : list chk_case; k_rot : list rot_case }.

Definition nthN {A} (i : N) (l : list A) : option A := nth_error l (N.to_nat i).

Fixpoint payload_index (ds : list delta) (i : N) (p : bytes) : N :=
  match ds with
  | [] => 999999
  | d :: r => if bytes_eqb (unhex (d_payload d)) p then i else payload_index r (i + 1) p
  end.
(* bincode is not modelled: a payload deserialises iff it is one of the case's payloads *)
Definition deser_ok_of (k : case) (p : bytes) : bool := negb (payload_index (k_deltas k) 0 p =? 999999).

Fixpoint list_eqb (a b : list N) : bool :=
  match a, b with
  | [], [] => true
  | x :: a', y :: b' => (x =? y) && list_eqb a' b'
  | _, _ => false
  end.

Definition check_wal (k : case) (w : wal_case) : bool :=
  match nthN (we_delta w) (k_deltas k) with
  | None => false
  | Some d =>
      let payload := unhex (d_payload d) in
      let img := unhex (we_bytes w) in
      bytes_eqb (encode_entry (mk_entry crc32 (we_ts w) payload)) img &&
      forallb (fun pr =>
        match decode_entry crc32 (mutate img (fst pr)), snd pr with
        | Ok None, WNone => true
        | Ok (Some (e, n)), WSome idx ts ck cn =>
            (payload_index (k_deltas k) 0 (e_data e) =? idx) && (e_ts e =? ts) && (e_crc e =? ck) && (n =? cn)
        | _, _ => false
        end) (we_probes w)
  end.

Definition check_seg (k : case) (s : seg_case) : bool :=
  let recs := flat_map (fun i => match nthN i (k_deltas k) with
                                 | Some d => [(d_ts d, unhex (d_payload d))] | None => [] end) (sg_deltas s) in
  let img := unhex (sg_bytes s) in
  match seg_write crc32 recs with
  | Ok b => bytes_eqb b img
  | _ => false
  end &&
  forallb (fun pr =>
    match seg_read crc32 (deser_ok_of k) (mutate img (fst pr)), snd pr with
    | Ok (h, ps), OOk idx =>
        list_eqb (map (payload_index (k_deltas k) 0) ps) idx &&
        (* an accepted image carries the header the writer produced or is reported as different *)
        match fst pr with MNone => (sh_count h =? sg_count s) && (sh_min h =? sg_min s) && (sh_max h =? sg_max s) | _ => true end
    | Err e, OErr e' => ekind_eqb e e'
    | Panic, OPanic => true
    | _, _ => false
    end) (sg_probes s).

Definition check_chk (k : case) (c : chk_case) : bool :=
  let data := unhex (ck_data c) in
  let img := unhex (ck_bytes c) in
  bytes_eqb (chk_write crc32 (ck_keys c) (ck_ts c) (ck_last c) data) img &&
  forallb (fun pr =>
    let '(m, o, u) := pr in
    let img' := mutate img m in
    let deser := fun p => bytes_eqb p data in
    match chk_read crc32 deser img', o with
    | Ok (h, d), COk keys ts last =>
        bytes_eqb d data && (ch_keys h =? keys) && (ch_ts h =? ts) && (ch_last h =? last)
    | Err e, CErr e' => ekind_eqb e e'
    | Panic, CPanic => true
    | _, _ => false
    end &&
    match chk_open crc32 img', u with
    | Ok h, UPanic => match chk_load (fun _ => true) img' h with Panic => true | _ => false end
    | Ok h, UReturned => match chk_load (fun _ => true) img' h with Panic => false | _ => true end
    | Err _, UOpenErr => true
    | _, _ => false
    end) (ck_probes c).

Definition check_rot (k : case) (r : rot_case) : bool :=
  let st := map (fun f => (unhex (fst f), unhex (snd f))) (rt_files r) in
  match recover_after crc32 (deser_ok_of k) st 0, rt_out r with
  | Ok es, Some idx => list_eqb (map (fun e => payload_index (k_deltas k) 0 (e_data e)) es) idx
  | Err _, None => true
  | _, _ => false
  end.

Definition check (k : case) : bool :=
  forallb (check_wal k) (k_wal k) && forallb (check_seg k) (k_seg k) && forallb (check_chk k) (k_chk k)
  && forallb (check_rot k) (k_rot k).

Definition mismatches := mismatches_with check.

(* for debugging a replayed case: which parts disagree *)
Definition parts (k : case) : list bool * list bool * list bool :=
  (map (check_wal k) (k_wal k), map (check_seg k) (k_seg k), map (check_chk k) (k_chk k)).

(* Correspondence for C02.  One case = one concurrent run of the real ShardedActorState:
   M client tasks on a multi-thread runtime, R rounds separated by barriers.  The harness
   prints, per round and per key, the key's value at the barrier (initial state of the
   window) and the window's operations with invocation/response stamps (ranks of a global
   atomic counter), the primitives and the replies observed, plus the verdict of the
   harness's own (independent, memoised) checker.  Coq judges every window with [lin_check]
   (sound and complete: Props/C02.v lin_check_sound / lin_check_complete, and equal to the
   brute-force enumeration [lin_brute]: lin_check_agrees_with_brute — which is why a [false]
   answer needs no second run; [recheck] below runs the brute-force definition anyway on short
   windows and is used by the replay path).  A case passes iff every window is linearizable
   according to BOTH judges; any index in [mismatches] is therefore either a C02 violation
   (Coq says not linearizable) or a disagreement between the two judges. *)
From Coq Require Export NArith ZArith List String Bool.
From RV Require Export Lib.Hex Model.Actor Corr.Common.
Import ListNotations.

(* a long hex string is written in pieces: coqc's parser overflows its stack on literals beyond
   ~30 000 characters *)
Definition cat (l : list string) : string := String.concat EmptyString l.
(* head, then the two hex digits [f] repeated m times, then tail: how long runs are written *)
Definition big (h f : string) (m : N) (t : string) : string :=
  String.append h (N.iter m (String.append f) t).

Definition G : cmd := CP (PGet).
Definition St (v : string) : cmd := CP (PSet (unhex v)).
Definition Ic : cmd := CP (PIncrBy 1).
Definition Ib (z : Z) : cmd := CP (PIncrBy z).              (* INCRBY z; DECR = Ib (-1); DECRBY n = Ib (-n) *)
Definition Ap (v : string) : cmd := CP (PAppend (unhex v)).
Definition Dl : cmd := CP (PDel).
Definition Nx (v : string) : cmd := CP (PSetNx (unhex v)).
Definition So (v : string) (nx xx get : bool) : cmd := CP (PSetOpt (unhex v) nx xx get).
Definition Gs (v : string) : cmd := CP (PGetSet (unhex v)).
Definition Gd : cmd := CP (PGetDel).
Definition Sr (off : nat) (v : string) : cmd := CP (PSetRange off (unhex v)).
Definition Ex : cmd := CP (PExists).
Definition Lp (v : string) : cmd := CP (PLPush (unhex v)).
Definition Rp (v : string) : cmd := CP (PRPush (unhex v)).
Definition Lo : cmd := CP (PLPop).
Definition Ro : cmd := CP (PRPop).
Definition Lr : cmd := CP (PLRange).
Definition Sa (v : string) : cmd := CP (PSAdd (unhex v)).
Definition Sm (v : string) : cmd := CP (PSRem (unhex v)).
Definition Ms : cmd := CP (PSMembers).
Definition Hs (f v : string) : cmd := CP (PHSet (unhex f) (unhex v)).
Definition Hd (f : string) : cmd := CP (PHDel (unhex f)).
Definition Ha : cmd := CP (PHGetAll).
Definition Fl : cmd := CP (PFlush).

(* commands that mention time; all instants and durations in virtual milliseconds *)
Definition Ad (t : N) : cmd := CAdv t.
Definition Sx (v : string) (ms : N) : cmd := CSetPx (unhex v) ms.          (* SET PX ms / EX s *)
Definition Sk (v : string) : cmd := CSetKeep (unhex v).
Definition Xp (ms : N) (nx xx gt lt : bool) : cmd := CExpire ms nx xx gt lt. (* PEXPIRE / EXPIRE *)
Definition Pe : cmd := CPersist.
Definition Tt : cmd := CTtl.
Definition Pt : cmd := CPttl.
Definition Ge (o : option (option N)) : cmd := CGetEx o.

Definition V0 : prep := RVal None.
Definition Vs (v : string) : prep := RVal (Some (unhex v)).
Definition OK : prep := ROk.
Definition Ni (z : Z) : prep := RInt z.
Definition ENI : prep := RErrNotInt.
Definition EOV : prep := RErrOverflow.
Definition EWT : prep := RWrongType.
Definition Ar (l : list string) : prep := RArr (map unhex l).
Definition EX (t : string) : prep := ROther (unhex t).

(* value of the key at the barrier *)
Inductive kinit := I0 | IS (v : string) | IL (l : list string) | IT (l : list string)
                 | IH (l : list (string * string)).
Definition kinit_state (i : kinit) : kst :=
  match i with
  | I0 => KNone
  | IS v => KStr (unhex v)
  | IL l => klist (map unhex l)
  | IT l => kset (map unhex l)
  | IH l => khash (map (fun p => (unhex (fst p), unhex (snd p))) l)
  end.

(* completed operation: id, invocation stamp, response stamp, primitives, replies *)
Definition Oc (id inv ret : nat) (ops : list cmd) (reps : list prep) : oprec (list cmd) (list prep) :=
  OpRec id inv (Some ret) ops reps.

Record window := W2 {
  w_init : kinit;                                   (* value at the barrier; I0 = absent *)
  w_dl : option N;                                  (* its deadline at the barrier *)
  w_now : N;                                        (* the clock at the barrier *)
  w_ops : list (oprec (list cmd) (list prep));
  w_impl_verdict : bool                             (* the harness's own checker *)
}.
Record case2 := K2 { k_windows : list window }.

Definition w_state (w : window) : tst := TSt (kinit_state (w_init w)) (w_dl w) (w_now w).

Definition stamps_ok (w : window) : bool :=
  forallb (fun o => match o_ret o with Some r => Nat.ltb (o_inv o) r | None => false end) (w_ops w).

Definition judge (w : window) : bool := stamps_ok w && lin_check (w_state w) (w_ops w).

(* second, independent definition (all permutations, then test); exponential, so only for
   windows of at most 7 operations; on longer windows it defers to [judge] *)
Definition recheck (w : window) : bool :=
  if Nat.leb (List.length (w_ops w)) 7 then stamps_ok w && lin_brute (w_state w) (w_ops w) else judge w.

Definition check2 (c : case2) : bool :=
  forallb (fun w => judge w && w_impl_verdict w) (k_windows c).

Definition mismatches := mismatches_with check2.

(* for replays and for the driver's notes: which windows fail, and whether the brute-force
   definition confirms each failing one *)
Definition failing (c : case2) : list (nat * bool * bool) :=
  let fix go (i : nat) (ws : list window) :=
    match ws with
    | [] => []
    | w :: t => if judge w && w_impl_verdict w then go (Datatypes.S i) t
                else (i, judge w, recheck w) :: go (Datatypes.S i) t
    end in
  go 0 (k_windows c).

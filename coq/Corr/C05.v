(* Correspondence for C05: the harness prints a scenario - a sequence of (client, command) steps fed
   one at a time to two REAL connection handlers sharing one real ShardedActorState - and the bytes
   each step was answered with; the model (two connections of Model/Conn.v, whole read loop including
   fast path and batching, over the mini backend Model/MiniExec.v sharing one store) must answer
   every step with the same bytes. *)
From Coq Require Export NArith ZArith.
From Coq Require Import String List Bool.
From RV Require Export Lib.Hex Model.Resp Model.Conn Model.MiniExec Corr.Common.
Import ListNotations.

(* [tbl]: every distinct byte string of the scenario once (hex); steps and replies are indices *)
Inductive case :=
| KTx (tbl : list string) (steps : list (bool * N)) (replies : list N) (dead : bool).

Definition G : cfg := mk_cfg 60 2 1048576.

(* connection [k] continues on the shared store [s], with an empty reply log *)
Definition with_store (k : mconn) (s : list (bytes * mval)) : mconn :=
  mkConn _ _ (cbuf _ _ k) (mkCore _ _ s (txs _ _ (ccore _ _ k)) []) (cstat _ _ k).

Fixpoint go (t : list bytes) (s : list (bytes * mval)) (ka kb : mconn) (steps : list (bool * N)) (replies : list N) : bool :=
  match steps, replies with
  | [], [] => true
  | (who, h) :: steps', r :: replies' =>
    let k := with_store (if who then ka else kb) s in
    let k' := mon_read G k (nth (N.to_nat h) t []) in
    let s' := st _ _ (ccore _ _ k') in
    bytes_eqb (wire (output _ _ k')) (nth (N.to_nat r) t [])
    && match cstat _ _ k' with Open => true | _ => false end
    && (if who then go t s' k' kb steps' replies' else go t s' ka k' steps' replies')
  | _, _ => false
  end.

Definition check (k : case) : bool :=
  match k with
  | KTx tbl steps replies dead =>
    if dead then false   (* the model never dies on whole well-formed commands; a dead implementation is a mismatch *)
    else go (map unhex tbl) [] (conn_init _ _ []) (conn_init _ _ []) steps replies
  end.

Definition mismatches := mismatches_with check.

(* Correspondence for C05: the harness prints a scenario - a sequence of (client, command) steps fed
   one at a time to two REAL connection handlers sharing one real ShardedActorState - and the bytes
   each step was answered with; the model (two connections of Model/Conn.v, whole read loop including
   fast path and batching, over the mini backend Model/MiniExec.v sharing one store) must answer
   every step with the same bytes. *)
From Coq Require Export NArith ZArith.
From Coq Require Import String List Bool.
From RV Require Export Lib.Hex Model.Resp Model.Conn Model.MiniExec Corr.Common.
Import ListNotations.

(* [tbl]: every distinct byte string of the scenario once (hex); replies are indices into it; a step
   is (1, i): client A sends tbl[i]; (0, i): client B sends tbl[i]; (2, ms): nobody sends anything
   for ms milliseconds (keys with deadlines) *)
Inductive case :=
| KTx (tbl : list string) (steps : list (N * N)) (replies : list N) (dead : bool)
(* the same shape for an EXECUTOR-level scenario: every step (0 or 1, i) is the command tbl[i] executed
   on one CommandExecutor (whoever "sends" it), (2, ms) or (3, ms) lets ms milliseconds of virtual time pass (3: the clock then reaches the executor
   through update_time_readonly instead of set_time; the model does not tell the two apart) *)
| KXTx (tbl : list string) (steps : list (N * N)) (replies : list N) (dead : bool).

Definition G : cfg := mk_cfg 60 2 1048576.

(* connection [k] continues on the shared store [s], with an empty reply log *)
Definition with_store (k : mconn) (s : mstate) : mconn :=
  mkConn _ _ (cbuf _ _ k) (mkCore _ _ s (txs _ _ (ccore _ _ k)) []) (cstat _ _ k).

Fixpoint go (t : list bytes) (clock : N) (s : mstate) (ka kb : mconn) (steps : list (N * N)) (replies : list N) : bool :=
  match steps, replies with
  | [], [] => true
  | (w, h) :: steps', r :: replies' =>
    if ((w =? 2) || (w =? 3))%N then go t (clock + h)%N s ka kb steps' replies'
    else
      let who := (w =? 1)%N in
      let k := with_store (if who then ka else kb) (at_time s clock) in
      let k' := mon_read G k (nth (N.to_nat h) t []) in
      let s' := st _ _ (ccore _ _ k') in
      bytes_eqb (wire (output _ _ k')) (nth (N.to_nat r) t [])
      && match cstat _ _ k' with Open => true | _ => false end
      && (if who then go t clock s' k' kb steps' replies' else go t clock s' ka k' steps' replies')
  | _, _ => false
  end.

(* one command frame -> the command layer's reading of it *)
Definition frame_cmd (b : bytes) : option mcmd :=
  match parse true b with
  | Done v n => if (n =? List.length b)%nat then match mdecode v with inl c => Some c | inr _ => None end else None
  | _ => None
  end.

Fixpoint xgo (t : list bytes) (clock : N) (x : mxstate) (steps : list (N * N)) (replies : list N) : bool :=
  match steps, replies with
  | [], [] => true
  | (w, h) :: steps', r :: replies' =>
    if ((w =? 2) || (w =? 3))%N then xgo t (clock + h)%N x steps' replies'
    else
      match frame_cmd (nth (N.to_nat h) t []) with
      | None => false
      | Some c =>
        let x0 := mkX _ _ _ (at_time (x_st _ _ _ x) clock) (x_in _ _ _ x) (x_queue _ _ _ x) (x_watched _ _ _ x) in
        let '(x', rep) := mx_step x0 c in
        bytes_eqb (encode rep) (nth (N.to_nat r) t []) && xgo t clock x' steps' replies'
      end
  | _, _ => false
  end.

Definition check (k : case) : bool :=
  match k with
  | KTx tbl steps replies dead =>
    if dead then false   (* the model never dies on whole well-formed commands; a dead implementation is a mismatch *)
    else go (map unhex tbl) 0%N m0 (conn_init _ _ m0) (conn_init _ _ m0) steps replies
  | KXTx tbl steps replies dead =>
    if dead then false
    else xgo (map unhex tbl) 0%N (x_init _ _ _ m0) steps replies
  end.

Definition mismatches := mismatches_with check.

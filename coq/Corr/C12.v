(* Correspondence for C12: the harness drives the real StreamingPersistence (push / flush)
   and Compactor (compact) over its scripted ObjectStore, which takes the outcome of every
   call from a fault script, records every call and snapshots the whole map after every
   call.  One case = one workload run under one fault script.  Printed per case:
     - the configuration (backpressure threshold, compaction thresholds),
     - the workload (every flush / compaction carries the size in bytes of the segment it
       wrote, as observed; compactions carry the value of their time source),
     - the complete log of store calls with their outcomes, in program order,
     - the result of every operation (push accepted?, flush Ok(n)/Err + pending_count()
       afterwards, compaction Ok(removed ids, created id) / NothingToCompact / Err),
     - for a sample of crash instants j (= after j store calls; always including the end)
       what the real RecoveryManager::recover returned on the snapshot taken at j.
   The model must reproduce the log call for call (same names, same order, consuming
   exactly the recorded outcomes), every result, and the recovered deltas at every sampled
   crash instant (as a multiset, values compared on obs). *)
From stdpp Require Import gmap.
From Coq Require Import NArith String.
From RV Require Export Lib.Hex Model.Crdt Model.Store Model.Persist Corr.Common Corr.C07.

(* the variant /repo currently implements *)
Definition in_repo : variant := Variant true true true true.

Definition D (k : string) (v : rvalue) (src : N) : delta := Delta (unhex k) v src.
Notation OK := OOk.
Notation EN := (OErr ENone).
Notation ET := (OErr ETorn).
Notation EF := (OErr EFull).
Notation GB := (OErr EGarble).

Record case12 := K12 {
  k_thr : N;                               (* backpressure_threshold_bytes *)
  k_cc : ccfg;
  k_ops : list wop;
  k_log : list (call * outcome);
  k_res : list wres;
  k_samples : list (N * option (list delta));
  (* manifest.json at the end of the run: None = no such object; Some (version, replica id,
     segments as (id, count, size, min, max) with key = NSeg id, next_segment_id) *)
  k_final : option (N * N * list (N * N * N * N * N) * N)
}.

Definition delta_oeq (a b : delta) : bool :=
  bytes_eqb (d_key a) (d_key b) && oeq (d_val a) (d_val b) && N.eqb (d_src a) (d_src b).
Fixpoint remove_first (a : delta) (l : list delta) : option (list delta) :=
  match l with
  | [] => None
  | b :: r => if delta_oeq a b then Some r
              else match remove_first a r with Some r' => Some (b :: r') | None => None end
  end.
Fixpoint perm_eqb (l m : list delta) : bool :=
  match l with
  | [] => match m with [] => true | _ => false end
  | a :: r => match remove_first a m with Some m' => perm_eqb r m' | None => false end
  end.

Definition cfg_of (v : variant) (k : case12) : pcfg := PCfg v (k_thr k) (k_cc k).
Definition RID : N := 1.

Definition sample_ok (v : variant) (k : case12) (s : N * option (list delta)) : bool :=
  let io := firstn (N.to_nat (fst s)) (map snd (k_log k)) in
  let r := run_persist (cfg_of v k) RID ∅ (k_ops k) io in
  match recover (w_store (s_w r)) RID, snd s with
  | Some rec, Some ds => perm_eqb (r_deltas rec) ds
  | None, None => true
  | _, _ => false
  end.

Definition man_view (m : manifest) : N * N * list (N * N * N * N * N) * N :=
  (m_version m, m_rid m,
   map (λ s, (si_id s, si_count s, si_size s, si_min s, si_max s)) (m_segs m), m_next m).
Definition final_ok (st : gmap name (sobj obj)) (f : option (N * N * list (N * N * N * N * N) * N)) : bool :=
  match st !! NMan, f with
  | None, None => true
  | Some (Whole (OMan m)), Some x =>
      bool_decide (man_view m = x) &&
      forallb (λ s, bool_decide (si_key s = NSeg (si_id s))) (m_segs m) &&
      bool_decide (m_ck m = None)
  | _, _ => false
  end.

Definition check_with (v : variant) (k : case12) : bool :=
  let r := run_persist (cfg_of v k) RID ∅ (k_ops k) (map snd (k_log k)) in
  final_ok (w_store (s_w r)) (k_final k) &&
  bool_decide (rev (w_log (s_w r)) = k_log k) &&
  bool_decide (w_io (s_w r) = []) &&
  negb (w_crashed (s_w r)) &&
  bool_decide (rev (s_res r) = k_res k) &&
  forallb (sample_ok v k) (k_samples k).

Definition check12 : case12 -> bool := check_with in_repo.
Definition mismatches := mismatches_with check12.

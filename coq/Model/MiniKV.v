(* A small per-shard executor for C03: strings and lists, DEL / EXISTS / KEYS / DBSIZE / FLUSH,
   the batch commands and fast-path handlers, and the two-key / keyless commands of the
   known-finding class.  It instantiates the [executor] interface of Model/Shard.v: it shows the
   hypotheses of the refinement theorem are satisfiable, and it is the executor the
   correspondence check runs the dispatcher model over.  Definitions only. *)
From stdpp Require Import gmap sorting.
From Coq Require Import NArith ZArith String.
From RV Require Import Lib.Hex Model.Shard.
Local Open Scope N_scope.

Inductive val := VStr (b : bytes) | VList (l : list bytes).
Inductive arg := ArgNone | ArgB (b : bytes) | ArgL (l : list bytes) | ArgDir (from_left to_left : bool).

Definition WRONGTYPE : reply := RErr [87; 82; 79; 78; 71; 84; 89; 80; 69].
Definition NOSUCHKEY : reply := RErr [69; 82; 82; 32; 110; 111; 32; 115; 117; 99; 104; 32; 107; 101; 121].
Definition UNSUPPORTED : reply := RErr [117; 110; 115; 117; 112; 112; 111; 114; 116; 101; 100].
Definition T_string : reply := RSimple [115; 116; 114; 105; 110; 103].
Definition T_list : reply := RSimple [108; 105; 115; 116].
Definition T_none : reply := RSimple [110; 111; 110; 101].
Definition len_reply {A} (b : list A) : reply := RInt (Z.of_nat (List.length b)).
Definition RNil : reply := RBulk None.

(* execute_get / get_direct: WRONGTYPE for a non-string; execute_batch_get: RNil *)
Definition mini_fget (o : option val) : reply :=
  match o with Some (VStr b) => RBulk (Some b) | Some (VList _) => WRONGTYPE | None => RNil end.
Definition mini_bget (o : option val) : reply :=
  match o with Some (VStr b) => RBulk (Some b) | _ => RNil end.

(* CommandExecutor::glob_match, byte for byte: '*', '?', classes '[..]' (first ']' closes; a leading
   '^' negates; "a-b" is a range when a third byte exists, an empty range contributes nothing; if
   the expansion is empty the class bytes are taken literally; an unterminated '[' never matches;
   a class never matches at the end of the key), everything else - also '\' - is a literal. *)
Fixpoint split_class (p : bytes) : option (bytes * bytes) :=
  match p with
  | [] => None
  | c :: r => if c =? 93 then Some ([], r)
              else match split_class r with Some (cs, rest) => Some (c :: cs, rest) | None => None end
  end.
Fixpoint class_has (fuel : nat) (cs : bytes) (x : N) : bool :=
  match fuel with
  | O => false
  | S f =>
    match cs with
    | a :: m :: b :: r =>
        if m =? 45 then ((a <=? x) && (x <=? b)) || class_has f r x
        else (a =? x) || class_has f (m :: b :: r) x
    | a :: r => (a =? x) || class_has f r x
    | [] => false
    end
  end.
Fixpoint class_expands_empty (fuel : nat) (cs : bytes) : bool :=
  match fuel with
  | O => true
  | S f =>
    match cs with
    | a :: m :: b :: r => if m =? 45 then (b <? a) && class_expands_empty f r else false
    | _ :: _ => false
    | [] => true
    end
  end.
Definition class_match (cs : bytes) (x : N) : bool :=
  let '(negate, cs) := match cs with c :: r => if c =? 94 then (true, r) else (false, cs) | [] => (false, cs) end in
  let n := List.length cs in
  let m := if class_expands_empty (S n) cs then existsb (fun c => c =? x) cs else class_has (S n) cs x in
  if negate then negb m else m.

Fixpoint glob_fuel (fuel : nat) (p : bytes) (k : bytes) : bool :=
  match fuel with
  | O => false
  | S f =>
    match p with
    | [] => match k with [] => true | _ => false end
    | c :: p' =>
        if c =? 42 then
          (fix star (k : bytes) : bool :=
             glob_fuel f p' k || match k with [] => false | _ :: k' => star k' end) k
        else if c =? 63 then
          match k with [] => false | _ :: k' => glob_fuel f p' k' end
        else if c =? 91 then
          match split_class p' with
          | None => false
          | Some (cs, rest) =>
              match k with
              | [] => false
              | x :: k' => if class_match cs x then glob_fuel f rest k' else false
              end
          end
        else match k with
             | [] => false
             | x :: k' => if c =? x then glob_fuel f p' k' else false
             end
    end
  end.
Definition glob (p k : bytes) : bool := glob_fuel (S (List.length p)) p k.

Definition store_list (l : list bytes) : option val := match l with [] => None | _ => Some (VList l) end.
Fixpoint insert_sorted (x : bytes) (l : list bytes) : list bytes :=
  match l with [] => [x] | y :: r => if bytes_leb x y then x :: l else y :: insert_sorted x r end.
Definition sort_bytes (l : list bytes) : list bytes := foldr insert_sorted [] l.

(* A keyed command in "read your keys, compute, write your keys" form: [vals] are the values
   under [ks] (in order), the result lists per key either no write (None) or the new content
   (Some None = delete); writes are applied in order. *)
Definition w_keep : option (option val) := None.
Definition w_set (v : val) : option (option val) := Some (Some v).
Definition w_del : option (option val) := Some None.

Local Open Scope string_scope.
Inductive opname := OGet | OSet | OSetNx | OAppend | OGetSet | OStrLen | OTypeOf | OLPush | ORPush | OLPop | ORPop | OLLen | OLRange | OEcho | ORPopLPush | OLMove | ORename | ORenameNx | OSort | OMSetNx | OUnknown.
Definition op_of_tag (t : string) : opname :=
  if String.eqb t "Get" then OGet else
  if String.eqb t "Set" then OSet else
  if String.eqb t "SetNx" then OSetNx else
  if String.eqb t "Append" then OAppend else
  if String.eqb t "GetSet" then OGetSet else
  if String.eqb t "StrLen" then OStrLen else
  if String.eqb t "TypeOf" then OTypeOf else
  if String.eqb t "LPush" then OLPush else
  if String.eqb t "RPush" then ORPush else
  if String.eqb t "LPop" then OLPop else
  if String.eqb t "RPop" then ORPop else
  if String.eqb t "LLen" then OLLen else
  if String.eqb t "LRange" then OLRange else
  if String.eqb t "Echo" then OEcho else
  if String.eqb t "RPopLPush" then ORPopLPush else
  if String.eqb t "LMove" then OLMove else
  if String.eqb t "Rename" then ORename else
  if String.eqb t "RenameNx" then ORenameNx else
  if String.eqb t "Sort" then OSort else
  if String.eqb t "MSetNx" then OMSetNx else
  OUnknown.
Local Close Scope string_scope.

Definition mini_op (tag : string) (ks : list key) (a : arg) (vals : list (option val))
  : list (option (option val)) * reply :=
  match op_of_tag tag, vals, a with
  | OGet, [v], _ => ([w_keep], mini_fget v)
  | OSet, [_], ArgB b => ([w_set (VStr b)], ROK)
  | OSetNx, [v], ArgB b =>
      match v with Some _ => ([w_keep], RInt 0%Z) | None => ([w_set (VStr b)], RInt 1%Z) end
  | OAppend, [v], ArgB b =>
      match v with
      | Some (VStr s) => ([w_set (VStr (s ++ b))], len_reply (s ++ b))
      | Some (VList _) => ([w_keep], WRONGTYPE)
      | None => ([w_set (VStr b)], len_reply b)
      end
  | OGetSet, [v], ArgB b =>
      match v with
      | Some (VStr s) => ([w_set (VStr b)], RBulk (Some s))
      | Some (VList _) => ([w_keep], WRONGTYPE)
      | None => ([w_set (VStr b)], RNil)
      end
  | OStrLen, [v], _ =>
      ([w_keep], match v with Some (VStr s) => len_reply s | Some (VList _) => WRONGTYPE | None => RInt 0%Z end)
  | OTypeOf, [v], _ =>
      ([w_keep], match v with Some (VStr _) => T_string | Some (VList _) => T_list | None => T_none end)
  | OLPush, [v], ArgL xs =>
      match v with
      | Some (VStr _) => ([w_keep], WRONGTYPE)
      | Some (VList l) => ([w_set (VList (rev xs ++ l))], len_reply (rev xs ++ l))
      | None => ([Some (store_list (rev xs))], len_reply xs)
      end
  | ORPush, [v], ArgL xs =>
      match v with
      | Some (VStr _) => ([w_keep], WRONGTYPE)
      | Some (VList l) => ([w_set (VList (l ++ xs))], len_reply (l ++ xs))
      | None => ([Some (store_list xs)], len_reply xs)
      end
  | OLPop, [v], _ =>
      match v with
      | Some (VStr _) => ([w_keep], WRONGTYPE)
      | Some (VList (x :: l)) => ([Some (store_list l)], RBulk (Some x))
      | _ => ([w_keep], RNil)
      end
  | ORPop, [v], _ =>
      match v with
      | Some (VStr _) => ([w_keep], WRONGTYPE)
      | Some (VList l) =>
          match rev l with x :: r => ([Some (store_list (rev r))], RBulk (Some x)) | [] => ([w_keep], RNil) end
      | None => ([w_keep], RNil)
      end
  | OLLen, [v], _ =>
      ([w_keep], match v with Some (VStr _) => WRONGTYPE | Some (VList l) => len_reply l | None => RInt 0%Z end)
  | OLRange, [v], _ =>            (* LRANGE key 0 -1 *)
      ([w_keep], match v with Some (VStr _) => WRONGTYPE | Some (VList l) => RArr (Some (kbulk <$> l)) | None => RArr (Some []) end)
  | OEcho, [], ArgB b => ([], RBulk (Some b))
  (* --- two-key commands (executed as one unit on whatever store they are sent to) *)
  | (ORPopLPush | OLMove), [vs; vd], _ =>
      let '(from_left, to_left) := match a with ArgDir f t => (f, t) | _ => (false, true) end in
      match vs with
      | Some (VStr _) => ([w_keep; w_keep], WRONGTYPE)
      | None => ([w_keep; w_keep], RNil)
      | Some (VList l) =>
          let popped := if from_left then match l with x :: r => Some (x, r) | [] => None end
                        else match rev l with x :: r => Some (x, rev r) | [] => None end in
          match popped with
          | None => ([w_keep; w_keep], RNil)
          | Some (x, rest) =>
              let same := match ks with [k1; k2] => bool_decide (k1 = k2) | _ => false end in
              let vd' := if same then store_list rest else vd in
              match vd' with
              | Some (VStr _) => ([Some (store_list rest); w_keep], WRONGTYPE)   (* source already popped *)
              | Some (VList d) => ([Some (store_list rest); w_set (VList (if to_left then x :: d else d ++ [x]))], RBulk (Some x))
              | None => ([Some (store_list rest); w_set (VList [x])], RBulk (Some x))
              end
          end
      end
  | ORename, [vs; _], _ =>
      match vs with None => ([w_keep; w_keep], NOSUCHKEY) | Some v => ([w_del; w_set v], ROK) end
  | ORenameNx, [vs; vd], _ =>
      match vs, vd with
      | None, _ => ([w_keep; w_keep], NOSUCHKEY)
      | Some _, Some _ => ([w_keep; w_keep], RInt 0%Z)
      | Some v, None => ([w_del; w_set v], RInt 1%Z)
      end
  | OSort, [v], _ =>
      ([w_keep], match v with Some (VStr _) => WRONGTYPE | Some (VList l) => RArr (Some (kbulk <$> sort_bytes l)) | None => RArr (Some []) end)
  | OSort, [v; _], _ =>            (* SORT key STORE dest *)
      match v with
      | Some (VStr _) => ([w_keep; w_keep], WRONGTYPE)
      | Some (VList l) => ([w_keep; Some (store_list (sort_bytes l))], len_reply l)
      | None => ([w_keep; w_del], RInt 0%Z)
      end
  | OMSetNx, _, ArgL xs =>
      if forallb (fun v => match v with None => true | Some _ => false end) vals
      then ((fun x => w_set (VStr x)) <$> xs, RInt 1%Z)
      else ((fun _ => w_keep) <$> vals, RInt 0%Z)
  | _, _, _ => ((fun _ => w_keep) <$> vals, UNSUPPORTED)
  end.


Definition apply_writes (s : gmap key val) (kws : list (key * option (option val))) : gmap key val :=
  foldl (fun s kw => match kw.2 with
                     | None => s
                     | Some None => delete kw.1 s
                     | Some (Some v) => <[kw.1 := v]> s
                     end) s kws.

Definition is_randomkey (tag : string) : bool := String.eqb tag "RandomKey"%string.

Definition mini_exec (s : gmap key val) (c : cmd arg) : gmap key val * reply :=
  match c with
  | CPing None => (s, RPONG)
  | CPing (Some m) => (s, RBulk (Some m))
  | CFlush _ => (∅, ROK)
  | CKeys p => (s, RArr (Some (kbulk <$> filter (fun k => glob p k = true) (map_keys s))))
  | CDbSize => (s, RInt (Z.of_nat (size s)))
  | CDel ks => ((del_run s ks).1, RInt (del_run s ks).2)
  | CExists ks => (s, RInt (count_present s ks))
  | CBatchGet ks | CMGet ks => (s, RArr (Some ((fun k => mini_bget (s !! k)) <$> ks)))
  | CBatchSet kvs | CMSet kvs => (foldl (fun s kv => <[kv.1 := VStr kv.2]> s) s kvs, ROK)
  | CScan _ _ _ => (s, UNSUPPORTED)        (* the dispatcher never forwards SCAN *)
  | COp tag ks a =>
      if is_randomkey tag then
        (* `data.keys().find(..)`: some key in hash-map iteration order - here the first in the
           model's order; the correspondence accepts any key of the store *)
        (s, match map_keys s with k :: _ => RBulk (Some k) | [] => RNil end)
      else
        let '(ws, r) := mini_op tag ks a ((fun k => s !! k) <$> ks) in
        (apply_writes s (zip ks ws), r)
  end.

Definition mini : executor val arg := {|
  exec := mini_exec;
  get_direct := fun s k => mini_fget (s !! k);
  set_direct := fun s k v => (<[k := VStr v]> s, ROK);
  respects := fun c => match c with COp tag _ _ => is_randomkey tag = false | CBatchGet _ | CBatchSet _ => True | _ => False end;
  kmatch := glob;
  bget := mini_bget;
  bset := fun _ v => VStr v;
  fget := mini_fget;
  fset := VStr
|}.

(* Model of src/replication/state/shard_state.rs (ShardReplicaState), of the local
   operations of replicated_value.rs (set / delete / hash_set / hash_delete) and of the
   ApplyRecoveredState arm of production/replicated_shard_actor.rs.  Definitions only.
   The u64 clock is explicit: an increment at 2^64-1 sets the [sh_ovf] flag (the Rust
   code panics there in debug builds and wraps in release builds); theorems exclude
   runs in which the flag is set. *)
From stdpp Require Import gmap.
From Coq Require Import NArith.
From RV Require Import Lib.Hex Model.Crdt.
Local Open Scope N_scope.

Definition U64MAX : N := 18446744073709551615.

Record shard := Shard {
  sh_rid : N;                       (* replica id *)
  sh_time : N;                      (* lamport_clock.time *)
  sh_vc : gmap N N;                 (* vector_clock *)
  sh_causal : bool;                 (* consistency_level == Causal *)
  sh_keys : gmap (list N) rvalue;   (* replicated_keys *)
  sh_ovf : bool                     (* a clock increment overflowed u64 *)
}.

Definition shard_init (rid : N) (causal : bool) : shard := Shard rid 0 ∅ causal ∅ false.

Definition set_time (s : shard) (t : N) (o : bool) : shard :=
  Shard (sh_rid s) t (sh_vc s) (sh_causal s) (sh_keys s) (sh_ovf s || o).
Definition set_keys (s : shard) (k : gmap (list N) rvalue) : shard :=
  Shard (sh_rid s) (sh_time s) (sh_vc s) (sh_causal s) k (sh_ovf s).
Definition set_vc (s : shard) (vc : gmap N N) : shard :=
  Shard (sh_rid s) (sh_time s) vc (sh_causal s) (sh_keys s) (sh_ovf s).

(* LamportClock::tick: time += 1 *)
Definition tick (s : shard) : shard :=
  if sh_time s =? U64MAX then set_time s 0 true else set_time s (sh_time s + 1) false.
(* LamportClock::update: time = max(time, other.time) + 1 *)
Definition clock_update (s : shard) (o : stamp) : shard :=
  let m := N.max (sh_time s) (st_time o) in
  if m =? U64MAX then set_time s 0 true else set_time s (m + 1) false.
Definition now (s : shard) : stamp := Stamp (sh_time s) (sh_rid s).

Definition vc_incr (vc : gmap N N) (r : N) : gmap N N :=
  <[ r := default 0 (vc !! r) + 1 ]> vc.

(* ReplicatedValue::new *)
Definition rv_new (rid : N) : rvalue :=
  RV (CLww (Lww None (Stamp 0 rid) false)) None None (Stamp 0 rid) None.

(* ReplicatedValue::set (clock ticks first; crdt becomes/stays LWW) *)
Definition rv_set (s : shard) (v : rvalue) (val : list N) : shard * rvalue :=
  let s1 := tick s in
  let s2 := if sh_causal s1 then set_vc s1 (vc_incr (sh_vc s1) (sh_rid s1)) else s1 in
  (s2, RV (CLww (Lww (Some val) (now s1) false))
          (if sh_causal s1 then Some (sh_vc s2) else rv_vc v)
          (rv_exp v) (now s1) (rv_rf v)).

(* ReplicatedValue::delete: only LWW values are touched (and only then the clock ticks) *)
Definition rv_delete (s : shard) (v : rvalue) : shard * rvalue :=
  match rv_crdt v with
  | CLww _ =>
      let s1 := tick s in
      (s1, RV (CLww (Lww None (now s1) true)) (rv_vc v) (rv_exp v) (now s1) (rv_rf v))
  | _ => (s, v)
  end.

Definition as_hash (c : crdt) : gmap (list N) lww :=
  match c with CHash h => h | _ => ∅ end.

(* ReplicatedValue::hash_set: a non-hash crdt is replaced by an empty hash *)
Definition rv_hash_set (s : shard) (v : rvalue) (f val : list N) : shard * rvalue :=
  let s1 := tick s in
  (s1, RV (CHash (<[ f := Lww (Some val) (now s1) false ]> (as_hash (rv_crdt v))))
          (rv_vc v) (rv_exp v) (now s1) (rv_rf v)).

(* ReplicatedValue::hash_delete: tombstones an existing field (tick), outer stamp := clock *)
Definition rv_hash_delete (s : shard) (v : rvalue) (f : list N) : shard * rvalue :=
  match rv_crdt v with
  | CHash h =>
      match h !! f with
      | Some _ =>
          let s1 := tick s in
          (s1, RV (CHash (<[ f := Lww None (now s1) true ]> h)) (rv_vc v) (rv_exp v) (now s1) (rv_rf v))
      | None => (s, RV (CHash h) (rv_vc v) (rv_exp v) (now s) (rv_rf v))
      end
  | c => (s, RV c (rv_vc v) (rv_exp v) (now s) (rv_rf v))
  end.

Fixpoint hash_set_all (s : shard) (v : rvalue) (fs : list (list N * list N)) : shard * rvalue :=
  match fs with
  | [] => (s, v)
  | (f, x) :: r => let '(s1, v1) := rv_hash_set s v f x in hash_set_all s1 v1 r
  end.
Fixpoint hash_delete_all (s : shard) (v : rvalue) (fs : list (list N)) : shard * rvalue :=
  match fs with
  | [] => (s, v)
  | f :: r => let '(s1, v1) := rv_hash_delete s v f in hash_delete_all s1 v1 r
  end.

Inductive event :=
| EWrite (k val : list N) (exp : option N)            (* record_write *)
| EDelete (k : list N)                                 (* record_delete *)
| EHSet (k : list N) (fs : list (list N * list N))     (* record_hash_write *)
| EHDel (k : list N) (fs : list (list N))              (* record_hash_delete *)
| ERemote (k : list N) (v : rvalue)                    (* apply_remote_delta *)
| ERecover (k : list N) (v : rvalue).                  (* actor: ApplyRecoveredState *)

Definition put (s : shard) (k : list N) (v : rvalue) : shard := set_keys s (<[ k := v ]> (sh_keys s)).
Definition with_exp (v : rvalue) (e : option N) : rvalue :=
  RV (rv_crdt v) (rv_vc v) e (rv_ts v) (rv_rf v).

(* one event; the second component is the delta the operation emits (if any) *)
Definition step (s : shard) (e : event) : shard * option rvalue :=
  match e with
  | EWrite k val exp =>
      let v0 := default (rv_new (sh_rid s)) (sh_keys s !! k) in
      let '(s1, v1) := rv_set s v0 val in
      let v2 := with_exp v1 exp in
      (put s1 k v2, Some v2)
  | EDelete k =>
      match sh_keys s !! k with
      | Some v0 => let '(s1, v1) := rv_delete s v0 in (put s1 k v1, Some v1)
      | None => (s, None)
      end
  | EHSet k fs =>
      let v0 := match sh_keys s !! k with
                | Some v => v
                | None => RV (CHash ∅) None None (Stamp 0 (sh_rid s)) None
                end in
      let '(s1, v1) := hash_set_all s v0 fs in
      (put s1 k v1, Some v1)
  | EHDel k fs =>
      match sh_keys s !! k with
      | Some v0 =>
          match rv_crdt v0 with
          | CHash _ => let '(s1, v1) := hash_delete_all s v0 fs in (put s1 k v1, Some v1)
          | _ => (s, None)
          end
      | None => (s, None)
      end
  | ERemote k v =>
      let s1 := clock_update s (rv_ts v) in
      let m := match sh_keys s1 !! k with Some l => rv_merge l v | None => v end in
      (put s1 k m, None)
  | ERecover k v =>
      (* ApplyRecoveredState: install the entry (no merge) and advance the clock past its
         stamp (replicated_shard_actor.rs, after the repair recorded as fixed:C08-recover-clock) *)
      let s1 := clock_update s (rv_ts v) in
      (put s1 k v, None)
  end.

(* run a list of events; collect the emitted deltas in order *)
Fixpoint run (s : shard) (evs : list event) : shard * list rvalue :=
  match evs with
  | [] => (s, [])
  | e :: r =>
      let '(s1, d) := step s e in
      let '(s2, ds) := run s1 r in
      (s2, match d with Some x => x :: ds | None => ds end)
  end.

(* ---- stamps occurring in a value ---- *)
(* every stamp carried by [v] (outer stamp, LWW register, every hash field) has logical
   time <= b *)
Definition crdt_times_le (c : crdt) (b : N) : Prop :=
  match c with
  | CLww r => st_time (lw_ts r) ≤ b
  | CHash h => map_Forall (λ _ r, st_time (lw_ts r) ≤ b) h
  | _ => True
  end.
Definition times_le (v : rvalue) (b : N) : Prop :=
  st_time (rv_ts v) ≤ b ∧ crdt_times_le (rv_crdt v) b.

(* inner register stamps never exceed the outer stamp (in logical time) *)
Definition wf_value (v : rvalue) : Prop := times_le v (st_time (rv_ts v)).

Definition ev_input (e : event) : option rvalue :=
  match e with ERemote _ v | ERecover _ v => Some v | _ => None end.
Definition wf_event (e : event) : Prop :=
  match ev_input e with Some v => wf_value v | None => True end.
Definition inputs (evs : list event) : list rvalue := omap ev_input evs.
(* an event that, when it emits a delta, stamps it with a freshly ticked clock *)
Definition is_write (e : event) : bool :=
  match e with EWrite _ _ _ => true | EHSet _ (_ :: _) => true | _ => false end.

(* executable version of [times_le] for the correspondence / examples *)
Definition crdt_times (c : crdt) : list N :=
  match c with
  | CLww r => [st_time (lw_ts r)]
  | CHash h => map (λ kv, st_time (lw_ts kv.2)) (map_to_list h)
  | _ => []
  end.
Definition rv_times (v : rvalue) : list N := st_time (rv_ts v) :: crdt_times (rv_crdt v).

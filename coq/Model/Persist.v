(* Model of the streaming-persistence layer, transcribed from
     src/streaming/persistence.rs   (StreamingPersistence::push / flush)
     src/streaming/manifest.rs      (Manifest, ManifestManager::load_or_create / save)
     src/streaming/compaction.rs    (Compactor::compact)
     src/streaming/recovery.rs      (RecoveryManager::recover / recover_with_wal)
     src/production/replicated_state.rs (apply_recovered_state), src/bin/server_persistent.rs
   at the level "an object is a list of deltas plus metadata" (Model/Store.v); the byte
   codecs of segments and checkpoints are C14's subject.  Definitions only.

   The [variant] flags select, per repaired defect, the behaviour as found or as repaired
   (the correspondence checks /repo against [repaired]; the as-found variants are kept for
   the regression theorems):
     v_restore     flush puts the taken deltas back into the buffer on every error return
     v_strict_get  compaction treats only NotFound as "segment missing"; any other get
                   error aborts the compaction
     v_merge       compaction merges the deltas of one key (ReplicatedValue::merge) instead
                   of keeping the one with the greatest logical time
     v_wal_all     recover_with_wal replays the whole WAL instead of filtering by the
                   segments' high-water mark
   Sizes in bytes are not computable at this level: the size of a written segment is an
   argument ([sz]) that the correspondence fills with the observed value and the theorems
   quantify over.  HashMap iteration order inside compaction only decides the order of
   equal-time deltas of different keys inside the new segment; the model fixes one order
   and no theorem depends on it (they speak about membership and per-key folds). *)
From stdpp Require Import gmap.
From Coq Require Import NArith.
From RV Require Import Lib.Hex Model.Crdt Model.Store.
Local Open Scope N_scope.

(* ReplicationDelta { key, value, source_replica } *)
Record delta := Delta { d_key : bytes; d_val : rvalue; d_src : N }.
Global Instance delta_eq_dec : EqDecision delta.
Proof. solve_decision. Defined.
Definition d_time (d : delta) : N := st_time (rv_ts (d_val d)).
(* ReplicatedValue::is_tombstone *)
Definition is_tomb (v : rvalue) : bool :=
  match rv_crdt v with CLww r => lw_tomb r | _ => false end.

Record seginfo := SegInfo {
  si_id : N; si_key : name; si_count : N; si_size : N; si_min : N; si_max : N }.
Global Instance seginfo_eq_dec : EqDecision seginfo.
Proof. solve_decision. Defined.
Record ckinfo := CkInfo { ci_key : name; ci_ts : N; ci_count : N; ci_last : N }.
Global Instance ckinfo_eq_dec : EqDecision ckinfo.
Proof. solve_decision. Defined.
Record manifest := Manifest {
  m_version : N; m_rid : N; m_segs : list seginfo; m_ck : option ckinfo; m_next : N }.
Global Instance manifest_eq_dec : EqDecision manifest.
Proof. solve_decision. Defined.

Notation kv := (gmap (list N) rvalue) (only parsing).

Inductive obj :=
| OSeg (ds : list delta)            (* a complete, valid segment image *)
| OMan (m : manifest)               (* manifest.json *)
| OCk (st : gmap (list N) rvalue).  (* a complete, valid checkpoint image *)

Notation store := (gmap name (sobj obj)) (only parsing).
Notation pworld := (world obj) (only parsing).

Record variant := Variant {
  v_restore : bool; v_strict_get : bool; v_merge : bool; v_wal_all : bool }.
Definition as_found : variant := Variant false false false false.
Definition repaired : variant := Variant true true true true.

(* ---------- manifest.rs ---------- *)
Definition new_manifest (rid : N) : manifest := Manifest 0 rid [] None 0.

(* segments.insert(partition_point(|s| s.id < info.id), info) on a list sorted by id *)
Fixpoint insert_seg (s : seginfo) (l : list seginfo) : list seginfo :=
  match l with
  | [] => [s]
  | x :: r => if si_id x <? si_id s then x :: insert_seg s r else s :: l
  end.
Definition add_segment (m : manifest) (s : seginfo) : manifest :=
  Manifest (m_version m + 1) (m_rid m) (insert_seg s (m_segs m)) (m_ck m)
           (if m_next m <=? si_id s then si_id s + 1 else m_next m).
Definition alloc_id (m : manifest) : N * manifest :=
  (m_next m, Manifest (m_version m) (m_rid m) (m_segs m) (m_ck m) (m_next m + 1)).

(* Manifest::verify_invariants (debug builds panic when it fails) *)
Fixpoint ids_sorted (l : list seginfo) : bool :=
  match l with
  | a :: (b :: _) as r => (si_id a <? si_id b) && ids_sorted r
  | _ => true
  end.
Definition man_ok (m : manifest) : bool :=
  ids_sorted (m_segs m)
  && match last (m_segs m) with Some s => si_id s <? m_next m | None => true end
  && match m_ck m with
     | Some c => forallb (λ s, ci_last c <? si_id s) (m_segs m)
     | None => true
     end
  && forallb (λ s, si_min s <=? si_max s) (m_segs m).

(* ManifestManager::load_or_create: NotFound => Manifest::new; a stored object that is not a
   manifest image (torn prefix) => Json error *)
Definition load_or_create (w : pworld) (rid : N) : pworld * res manifest :=
  let '(w1, r) := st_get w NMan in
  match r with
  | ROk None => (w1, ROk (new_manifest rid))
  | ROk (Some (Whole (OMan m))) => (w1, ROk m)
  | ROk (Some _) => (w1, RErr)
  | RErr => (w1, RErr)
  | RCrash => (w1, RCrash)
  end.
(* ManifestManager::save: put(temp) then rename(temp, manifest) *)
Definition save (w : pworld) (m : manifest) : pworld * res unit :=
  let '(w1, r) := st_put w NTmp (OMan m) in
  match r with
  | ROk _ => st_rename w1 NTmp NMan
  | RErr => (w1, RErr)
  | RCrash => (w1, RCrash)
  end.

(* ---------- persistence.rs ---------- *)
Record pstate := PState {
  ps_rid : N;
  ps_buf : list delta;       (* buffer *)
  ps_size : N;               (* buffer_size *)
  ps_conf : list delta;      (* ghost: deltas of flushes that returned Ok, oldest first *)
  ps_acc : list delta        (* ghost: deltas push accepted, oldest first *)
}.
Definition pstate_init (rid : N) : pstate := PState rid [] 0 [] [].

(* push: Err(BackpressureExceeded) when buffer_size >= threshold; estimate = key.len()+72 *)
Definition push (thr : N) (p : pstate) (d : delta) : pstate * bool :=
  if thr <=? ps_size p then (p, false)
  else (PState (ps_rid p) (ps_buf p ++ [d]) (ps_size p + N.of_nat (length (d_key d)) + 72)
               (ps_conf p) (ps_acc p ++ [d]), true).

Definition min_time (ds : list delta) : N :=
  match map d_time ds with [] => 0 | x :: r => fold_left N.min r x end.
Definition max_time (ds : list delta) : N :=
  match map d_time ds with [] => 0 | x :: r => fold_left N.max r x end.

Inductive fres := FOk (n : N) | FErr | FCrash | FPanic.
Global Instance fres_eq_dec : EqDecision fres.
Proof. solve_decision. Defined.

Definition flush (v : variant) (p : pstate) (sz : N) (w : pworld) : pstate * pworld * fres :=
  match ps_buf p with
  | [] => (p, w, FOk 0)
  | _ :: _ =>
    let ds := ps_buf p in
    (* let deltas = std::mem::take(&mut self.buffer); self.buffer_size = 0; *)
    let taken := PState (ps_rid p) [] 0 (ps_conf p) (ps_acc p) in
    let back := if v_restore v then p else taken in
    let '(w1, r1) := load_or_create w (ps_rid p) in
    match r1 with
    | RCrash => (taken, w1, FCrash)
    | RErr => (back, w1, FErr)
    | ROk m =>
      let '(id, m1) := alloc_id m in
      if negb (man_ok m1) then (taken, w1, FPanic) else
      let '(w2, r2) := st_put w1 (NSeg id) (OSeg ds) in
      match r2 with
      | RCrash => (taken, w2, FCrash)
      | RErr => (back, w2, FErr)
      | ROk _ =>
        let m2 := add_segment m1 (SegInfo id (NSeg id) (N.of_nat (length ds)) sz
                                          (min_time ds) (max_time ds)) in
        if negb (man_ok m2) then (taken, w2, FPanic) else
        let '(w3, r3) := save w2 m2 in
        match r3 with
        | RCrash => (taken, w3, FCrash)
        | RErr => (back, w3, FErr)
        | ROk _ => (PState (ps_rid p) [] 0 (ps_conf p ++ ds) (ps_acc p), w3,
                    FOk (N.of_nat (length ds)))
        end
      end
    end
  end.

(* ---------- compaction.rs ---------- *)
Record ccfg := CCfg {
  cc_target : N;     (* target_segment_size *)
  cc_min : N;        (* min_segments_to_compact *)
  cc_maxper : N;     (* max_segments_per_compaction *)
  cc_ttl : N         (* tombstone_ttl in ms *)
}.

(* stable sort by a numeric key (Vec::sort_by_key) *)
Fixpoint insert_by {A} (f : A → N) (x : A) (l : list A) : list A :=
  match l with
  | [] => [x]
  | y :: r => if f x <? f y then x :: l else y :: insert_by f x r
  end.
Definition sort_by {A} (f : A → N) (l : list A) : list A :=
  fold_left (λ acc x, insert_by f x acc) l [].

(* select_segments_to_compact *)
Definition select (c : ccfg) (m : manifest) : list seginfo :=
  take (N.to_nat (cc_maxper c))
       (sort_by si_id (filter (λ s, si_size s <? cc_target c) (m_segs m))).

(* one delta read from an input segment *)
Definition absorb (v : variant) (m : gmap (list N) delta) (d : delta) : gmap (list N) delta :=
  match m !! d_key d with
  | None => <[d_key d := d]> m
  | Some e =>
      if v_merge v then <[d_key d := Delta (d_key e) (rv_merge (d_val e) (d_val d)) (d_src e)]> m
      else if d_time e <? d_time d then <[d_key d := d]> m else m
  end.

Record cacc := CAcc {
  ca_map : gmap (list N) delta;   (* key_to_delta *)
  ca_before : N;                  (* deltas_before *)
  ca_actual : list seginfo;       (* actually_compacted *)
  ca_missing : list name          (* missing_segments *)
}.

Fixpoint read_segs (v : variant) (w : pworld) (segs : list seginfo) (a : cacc) : pworld * res cacc :=
  match segs with
  | [] => (w, ROk a)
  | s :: r =>
    let '(w1, g) := st_get w (si_key s) in
    let missing := CAcc (ca_map a) (ca_before a) (ca_actual a ++ [s]) (ca_missing a ++ [si_key s]) in
    match g with
    | RCrash => (w1, RCrash)
    | RErr => if v_strict_get v then (w1, RErr) else read_segs v w1 r missing
    | ROk None => read_segs v w1 r missing
    | ROk (Some (Whole (OSeg ds))) =>
        read_segs v w1 r (CAcc (fold_left (absorb v) ds (ca_map a))
                               (ca_before a + N.of_nat (length ds)) (ca_actual a ++ [s]) (ca_missing a))
    | ROk (Some _) => read_segs v w1 r a     (* open / validate fails: skipped, stays listed *)
    end
  end.

Definition without (ids : list N) (l : list seginfo) : list seginfo :=
  filter (λ s, negb (existsb (N.eqb (si_id s)) ids)) l.

(* `let _ = self.store.delete(..)`: errors ignored; true = the process died *)
Fixpoint delete_all (w : pworld) (ns : list name) : pworld * bool :=
  match ns with
  | [] => (w, false)
  | n :: r =>
    let '(w1, g) := st_delete w n in
    match g with RCrash => (w1, true) | _ => delete_all w1 r end
  end.

Definition keep_delta (cutoff : N) (d : delta) : bool :=
  negb (is_tomb (d_val d) && (d_time d <? cutoff)).
(* contents of the new segment: survivors sorted by logical time *)
Definition compact_out (cutoff : N) (m : gmap (list N) delta) : list delta :=
  sort_by d_time (filter (keep_delta cutoff) (map snd (map_to_list m))).

Inductive cres :=
| COk (removed : list N) (created : option N)
| CNothing | CErr | CCrash | CPanic.
Global Instance cres_eq_dec : EqDecision cres.
Proof. solve_decision. Defined.

(* compact() after its manifest load: everything is derived from the snapshot [m] *)
Definition compact_rest (v : variant) (c : ccfg) (now sz : N) (m : manifest) (w1 : pworld) : pworld * cres :=
    let sel := select c m in
    if N.of_nat (length sel) <? cc_min c then (w1, CNothing) else
    let cutoff := now - cc_ttl c in               (* saturating_sub *)
    let '(w2, r2) := read_segs v w1 sel (CAcc ∅ 0 [] []) in
    match r2 with
    | RCrash => (w2, CCrash)
    | RErr => (w2, CErr)
    | ROk a =>
      let ids := map si_id (ca_actual a) in
      let pruned := Manifest (m_version m + 1) (m_rid m) (without ids (m_segs m)) (m_ck m) (m_next m) in
      if negb (bool_decide (ca_missing a = [])) && bool_decide (ca_map a = ∅) && (ca_before a =? 0) then
        (* only missing segments: clean the manifest up *)
        let '(w3, r3) := save w2 pruned in
        (w3, match r3 with ROk _ => COk ids None | RErr => CErr | RCrash => CCrash end)
      else if N.of_nat (length (ca_actual a)) <? cc_min c then (w2, CNothing)
      else
        let out := compact_out cutoff (ca_map a) in
        match out with
        | [] =>
          let '(w3, r3) := save w2 pruned in
          match r3 with
          | RCrash => (w3, CCrash)
          | RErr => (w3, CErr)
          | ROk _ =>
            let '(w4, dead) := delete_all w3 (map si_key (ca_actual a)) in
            (w4, if dead then CCrash else COk ids None)
          end
        | _ :: _ =>
          let id := m_next m in
          let '(w3, r3) := st_put w2 (NSeg id) (OSeg out) in
          match r3 with
          | RCrash => (w3, CCrash)
          | RErr => (w3, CErr)
          | ROk _ =>
            let seg := SegInfo id (NSeg id) (N.of_nat (length out)) sz (min_time out) (max_time out) in
            let m1 := add_segment (Manifest (m_version m) (m_rid m) (without ids (m_segs m)) (m_ck m) (m_next m)) seg in
            if negb (man_ok m1) then (w3, CPanic) else
            let m2 := Manifest (m_version m1) (m_rid m1) (m_segs m1) (m_ck m1) (id + 1) in
            let '(w4, r4) := save w3 m2 in
            match r4 with
            | RCrash => (w4, CCrash)
            | RErr => (w4, CErr)
            | ROk _ =>
              let '(w5, dead) := delete_all w4 (map si_key (ca_actual a)) in
              (w5, if dead then CCrash else COk ids (Some id))
            end
          end
        end
    end.

Definition compact (v : variant) (c : ccfg) (now sz : N) (w : pworld) : pworld * cres :=
  let '(w1, r1) := load_or_create w 0 in
  match r1 with
  | RCrash => (w1, CCrash)
  | RErr => (w1, CErr)
  | ROk m => compact_rest v c now sz m w1
  end.

(* ---------- recovery.rs ---------- *)
Record recovered := Recovered {
  r_man : manifest;
  r_ck : option (gmap (list N) rvalue);   (* checkpoint_state *)
  r_deltas : list delta                    (* deltas, in replay order *)
}.

Definition load_seg (st : store) (s : seginfo) : option (list delta) :=
  match st !! si_key s with Some (Whole (OSeg ds)) => Some ds | _ => None end.
Fixpoint load_segs (st : store) (segs : list seginfo) : option (list delta) :=
  match segs with
  | [] => Some []
  | s :: r =>
    match load_seg st s, load_segs st r with
    | Some ds, Some rest => Some (ds ++ rest)
    | _, _ => None
    end
  end.
Definition cur_manifest (st : store) (rid : N) : option manifest :=
  match st !! NMan with
  | None => Some (new_manifest rid)
  | Some (Whole (OMan m)) => Some m
  | Some _ => None
  end.
(* segments recovery reads, in replay order *)
Definition visible (m : manifest) : list seginfo :=
  sort_by si_min
    match m_ck m with
    | Some ci => filter (λ s, ci_last ci <? si_id s) (m_segs m)
    | None => m_segs m
    end.
(* RecoveryManager::recover on a healthy store; None = Err *)
Definition recover (st : store) (rid : N) : option recovered :=
  match cur_manifest st rid with
  | None => None
  | Some m =>
    match m_ck m with
    | Some ci =>
      match st !! ci_key ci with
      | Some (Whole (OCk kvs)) =>
        match load_segs st (visible m) with
        | Some ds => Some (Recovered m (Some kvs) ds)
        | None => None
        end
      | _ => None
      end
    | None =>
      match load_segs st (visible m) with
      | Some ds => Some (Recovered m None ds)
      | None => None
      end
    end
  end.

(* WAL as recover_all_entries returns it: (entry timestamp, delta) in file order *)
Notation wal := (list (N * delta)) (only parsing).
Definition high_water (m : manifest) : N := fold_left N.max (map si_max (m_segs m)) 0.
Definition wal_after (t : N) (wl : wal) : list delta :=
  map snd (filter (λ e, t <=? fst e) wl).
Definition recover_with_wal (v : variant) (st : store) (rid : N) (wl : wal) : option recovered :=
  match recover st rid with
  | None => None
  | Some r =>
    let hw := if v_wal_all v then 0 else high_water (r_man r) in
    Some (Recovered (r_man r) (r_ck r) (r_deltas r ++ wal_after hw wl))
  end.

(* ---------- applying what was recovered (replicated_state.rs / shard actor) ---------- *)
(* apply_remote_delta on the key's shard: merge into the stored value, or insert *)
Definition apply_delta (s : kv) (d : delta) : kv :=
  <[d_key d := match s !! d_key d with
               | Some l => rv_merge l (d_val d)
               | None => d_val d
               end]> s.
(* apply_recovered_state: checkpoint entries are installed (no merge), then deltas merged *)
Definition apply_recovered (ck : option kv) (ds : list delta) (s : kv) : kv :=
  fold_left apply_delta ds (match ck with Some c => c ∪ s | None => s end).
Definition state_of (r : recovered) : kv := apply_recovered (r_ck r) (r_deltas r) ∅.
(* the production start-up path: integration.recover, then replay of the whole WAL *)
Definition recover_prod (st : store) (rid : N) (wl : wal) : option kv :=
  match recover st rid with
  | None => None
  | Some r => Some (apply_recovered None (map snd wl) (state_of r))
  end.
Definition obs_kv (s : kv) : kv := obs <$> s.

(* ---------- workloads (C12) ---------- *)
Inductive wop :=
| WPush (d : delta)
| WFlush (sz : N)               (* sz: size in bytes of the segment this flush writes *)
| WCompact (now sz : N).        (* now: time source in ms; sz: size of the new segment *)
Inductive wres := RPush (ok : bool) | RFlush (r : fres) (pending : N) | RCompact (r : cres).
Global Instance wres_eq_dec : EqDecision wres.
Proof. solve_decision. Defined.

Record sys := Sys {
  s_p : pstate;
  s_w : pworld;
  s_res : list wres         (* newest first *)
}.
Record pcfg := PCfg { pc_var : variant; pc_thr : N; pc_cc : ccfg }.

Definition wstep (c : pcfg) (s : sys) (op : wop) : sys :=
  match op with
  | WPush d =>
      let '(p, ok) := push (pc_thr c) (s_p s) d in
      Sys p (s_w s) (RPush ok :: s_res s)
  | WFlush sz =>
      let '(p, w, r) := flush (pc_var c) (s_p s) sz (s_w s) in
      (* a panic (debug assertion of Manifest::verify_invariants) kills the process *)
      Sys p (match r with FPanic => crash w | _ => w end)
          (RFlush r (N.of_nat (length (ps_buf p))) :: s_res s)
  | WCompact now sz =>
      let '(w, r) := compact (pc_var c) (pc_cc c) now sz (s_w s) in
      Sys (s_p s) (match r with CPanic => crash w | _ => w end) (RCompact r :: s_res s)
  end.
Definition sys_init (rid : N) (st0 : store) (io : list outcome) : sys :=
  Sys (pstate_init rid) (World st0 io [] false) [].
Definition run_persist (c : pcfg) (rid : N) (st0 : store) (ops : list wop) (io : list outcome) : sys :=
  fold_left (wstep c) ops (sys_init rid st0 io).

(* ---------- predicates used by the statements of C12 ---------- *)
(* every object the manifest references exists and is a complete image of the right kind;
   segment names follow the naming scheme and ids lie below next_segment_id *)
Definition seg_ok (st : store) (m : manifest) (s : seginfo) : Prop :=
  si_key s = NSeg (si_id s) ∧ si_id s < m_next m ∧
  ∃ ds, st !! si_key s = Some (Whole (OSeg ds)).
Definition ck_ok (st : store) (m : manifest) : Prop :=
  match m_ck m with
  | None => True
  | Some ci => ci_last ci < m_next m ∧ (∃ i, ci_key ci = NCk i) ∧
               ∃ kvs, st !! ci_key ci = Some (Whole (OCk kvs))
  end.
Definition man_good (st : store) (m : manifest) : Prop :=
  Forall (seg_ok st m) (m_segs m) ∧ ck_ok st m.
(* a store image a (crashed or fresh) process may start from *)
Definition store_ok (st : store) : Prop :=
  ∀ rid, ∃ m, cur_manifest st rid = Some m ∧ man_good st m.

(* [Contains v u]: [u] went into [v] by zero or more ReplicatedValue::merge steps *)
Inductive Contains : rvalue → rvalue → Prop :=
| contains_refl v : Contains v v
| contains_l a b u : Contains a u → Contains (rv_merge a b) u
| contains_r a b u : Contains b u → Contains (rv_merge a b) u.
(* a stored delta represents a confirmed one: same key, and the confirmed value was
   merged into the stored value (or is it) *)
Definition represents (d' d : delta) : Prop :=
  d_key d' = d_key d ∧ Contains (d_val d') (d_val d).
(* what the as-found compaction (keep the latest by logical time) guarantees instead *)
Definition supersedes (d' d : delta) : Prop :=
  d_key d' = d_key d ∧ d_time d <= d_time d'.

(* tombstone GC inactive: every compaction of the workload runs with now <= ttl *)
Definition gc_off (c : ccfg) (ops : list wop) : Prop :=
  Forall (λ op, match op with WCompact now _ => now <= cc_ttl c | _ => True end) ops.
Definition no_compaction (ops : list wop) : Prop :=
  Forall (λ op, match op with WCompact _ _ => False | _ => True end) ops.

(* crash / restart histories: every incarnation starts from what the previous one left *)
Fixpoint run_incarnations (c : pcfg) (rid : N) (st0 : store)
    (hist : list (list wop * list outcome)) : store * list delta :=
  match hist with
  | [] => (st0, [])
  | (ops, io) :: r =>
      let s := run_persist c rid st0 ops io in
      let '(st, conf) := run_incarnations c rid (w_store (s_w s)) r in
      (st, ps_conf (s_p s) ++ conf)
  end.

(* ---------- predicates used by the statements of C11 / C13 ---------- *)
(* an update = (key, value); replay merges updates into a node state in list order *)
Notation upd := (list N * rvalue)%type (only parsing).
Definition merge_into (s : kv) (k : list N) (v : rvalue) : kv :=
  <[k := match s !! k with Some l => rv_merge l v | None => v end]> s.
Definition replay (us : list (list N * rvalue)) (s : kv) : kv :=
  fold_left (λ s p, merge_into s p.1 p.2) us s.
Definition upd_of (d : delta) : list N * rvalue := (d_key d, d_val d).

(* C07's side conditions, per key: the updates of one key (and the checkpoint entry of
   that key) are of one CRDT kind and pairwise Compatible (no stamp used twice) *)
Definition coherent (us : list (list N * rvalue)) : Prop :=
  ∀ a b, In a us → In b us → a.1 = b.1 →
    kind (rv_crdt a.2) = kind (rv_crdt b.2) ∧ Compatible a.2 b.2.

Definition seg_deltas (st : store) (s : seginfo) : list delta :=
  match st !! si_key s with Some (Whole (OSeg ds)) => ds | _ => [] end.
(* everything the listed segments hold *)
Definition listed_updates (st : store) (m : manifest) : list (list N * rvalue) :=
  map upd_of (flat_map (seg_deltas st) (m_segs m)).
(* Manifest::verify_invariants, third clause: no listed segment at or below the checkpoint *)
Definition ck_covers (m : manifest) : Prop :=
  match m_ck m with
  | Some ci => ∀ s, In s (m_segs m) → ci_last ci < si_id s
  | None => True
  end.
Definition ck_state (r : recovered) : kv := default ∅ (r_ck r).

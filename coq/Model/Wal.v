(* Model of src/streaming/wal.rs (entry codec, WalWriter image, WalReader, and the recovery /
   truncation functions of WalRotator) over the store abstraction of wal_store.rs.
   Definitions only; lemmas are in Proofs/WalProofs.v.

   Conventions
   - bytes are [list N]; lengths and offsets are [N] (see Lib/Bytes.v);
   - the checksum is a section variable [crc]: every theorem holds for every checksum
     function; Corr/C10.v instantiates it with Lib/Crc32.crc32;
   - format constants come from Gen/Consts.v (regenerated from wal.rs on every run);
     field offsets inside the 16-byte headers are the literals of the Rust code;
   - an unchecked Rust index/slice is [or_panic (sliceN ..)]: out of range = [Panic];
   - [usize] is 64 bits (16 + a u32 length cannot overflow, so [checked_add] never fails);
   - loops use fuel = input length; running out of fuel is the distinguished error
     [WOutOfFuel], shown unreachable in WalProofs.read_loop_fuel_ok. *)
From Coq Require Import String Ascii Arith NArith List Bool.
From RV Require Import Lib.Hex Lib.Bytes Gen.Consts.
Import ListNotations.
Local Open Scope N_scope.

(* WalEntry { data, timestamp, checksum } - all three fields are public in Rust *)
Record entry := Entry { e_ts : N; e_data : bytes; e_crc : N }.

Inductive werr := WCorrupt | WOutOfFuel.
Notation wres := (res werr) (only parsing).

(* a store is what [WalStore::list] + [open_read]/[read_all] show: (name, image) pairs in
   list() order; names are the UTF-8 bytes of the Rust [String] *)
Notation store := (list (bytes * bytes)) (only parsing).

Definition ascii_bytes (s : string) : bytes :=
  (fix go (s : string) : bytes :=
     match s with EmptyString => [] | String c r => N_of_ascii c :: go r end) s.

(* ---------- file names: wal_file_name / parse_wal_sequence ---------- *)
Definition WAL_PREFIX : bytes := ascii_bytes "wal-".
Definition WAL_SUFFIX : bytes := ascii_bytes ".wal".

Fixpoint strip_prefix (p s : bytes) : option bytes :=
  match p, s with
  | [], _ => Some s
  | x :: p', y :: s' => if x =? y then strip_prefix p' s' else None
  | _ :: _, [] => None
  end.
Definition strip_suffix (p s : bytes) : option bytes :=
  option_map (@rev N) (strip_prefix (rev p) (rev s)).

Definition hexdigit (c : N) : option N :=
  if (48 <=? c) && (c <=? 57) then Some (c - 48)
  else if (97 <=? c) && (c <=? 102) then Some (c - 87)
  else if (65 <=? c) && (c <=? 70) then Some (c - 55)
  else None.
Fixpoint hex_acc (acc : N) (s : bytes) : option N :=
  match s with
  | [] => Some acc
  | c :: r => match hexdigit c with None => None | Some d => hex_acc (16 * acc + d) r end
  end.
(* u64::from_str_radix(s, 16): optional leading '+', at least one digit, no overflow *)
Definition parse_hex_u64 (s : bytes) : option N :=
  let s' := match s with 43 :: r => r | _ => s end in
  match s' with
  | [] => None
  | _ => match hex_acc 0 s' with
         | Some v => if v <? 18446744073709551616 then Some v else None
         | None => None
         end
  end.
Definition parse_wal_sequence (name : bytes) : option N :=
  match strip_prefix WAL_PREFIX name with
  | None => None
  | Some r => match strip_suffix WAL_SUFFIX r with
              | None => None
              | Some h => parse_hex_u64 h
              end
  end.

(* format!("wal-{:08x}.wal", sequence) *)
Fixpoint hex_digits (fuel : nat) (n : N) (acc : bytes) : bytes :=
  match fuel with
  | O => acc
  | S f => let d := n mod 16 in
           let c := if d <? 10 then 48 + d else 87 + d in
           if n / 16 =? 0 then c :: acc else hex_digits f (n / 16) (c :: acc)
  end.
Definition fmt_hex8 (n : N) : bytes :=
  let ds := hex_digits 16 n [] in repeat 48 (8 - length ds) ++ ds.
Definition wal_file_name (seq : N) : bytes := WAL_PREFIX ++ fmt_hex8 seq ++ WAL_SUFFIX.

(* ---------- stable sort by sequence (Vec::sort_by_key is stable) ---------- *)
Fixpoint insert_by_seq {A} (x : N * A) (l : list (N * A)) : list (N * A) :=
  match l with
  | [] => [x]
  | y :: r => if fst x <=? fst y then x :: l else y :: insert_by_seq x r
  end.
Definition sort_by_seq {A} (l : list (N * A)) : list (N * A) :=
  fold_right insert_by_seq [] l.

(* names that parse, tagged with their sequence, in list() order *)
Fixpoint wal_files (st : store) : list (N * (bytes * bytes)) :=
  match st with
  | [] => []
  | (name, img) :: r =>
      match parse_wal_sequence name with
      | Some s => (s, (name, img)) :: wal_files r
      | None => wal_files r
      end
  end.

Fixpoint st_lookup (name : bytes) (st : store) : option bytes :=
  match st with
  | [] => None
  | (n, img) :: r => if bytes_eqb n name then Some img else st_lookup name r
  end.
Definition st_delete (name : bytes) (st : store) : store :=
  filter (fun f => negb (bytes_eqb (fst f) name)) st.

Definition max_ts (es : list entry) : N := fold_left N.max (map e_ts es) 0.

Section Wal.
  Variable crc : bytes -> N.

  (* WalEntry::from_delta, after bincode::serialize produced [data] *)
  Definition mk_entry (ts : N) (data : bytes) : entry := Entry ts data (crc data).
  (* WalEntry::validate *)
  Definition entry_valid (e : entry) : bool := crc (e_data e) =? e_crc e.

  (* WalEntry::encode ([data.len() as u32]: le_enc 4 keeps the low 32 bits) *)
  Definition entry_header (len ts ck : N) : bytes := le_enc 4 len ++ le_enc 8 ts ++ le_enc 4 ck.
  Definition encode_entry (e : entry) : bytes :=
    entry_header (lenN (e_data e)) (e_ts e) (e_crc e) ++ e_data e.

  (* WalEntry::decode: Ok None = "return None" *)
  Definition decode_entry (d : bytes) : wres (option (entry * N)) :=
    if lenN d <? WAL_ENTRY_OVERHEAD then Ok None else
    do f_len <- or_panic (sliceN 0 4 d);
    do f_ts <- or_panic (sliceN 4 12 d);
    do f_ck <- or_panic (sliceN 12 16 d);
    let total := WAL_ENTRY_OVERHEAD + le_dec f_len in
    if lenN d <? total then Ok None else
    do ed <- or_panic (sliceN WAL_ENTRY_OVERHEAD total d);
    if crc ed =? le_dec f_ck
    then Ok (Some (Entry (le_dec f_ts) ed (le_dec f_ck), total))
    else Ok None.

  (* WalWriter::new: a zeroed array of WAL_HEADER_SIZE bytes with magic at 0..4, version at 4,
     flags 0 at 5, sequence at 8..16 *)
  Definition file_header (seq : N) : bytes :=
    WAL_MAGIC ++ [WAL_VERSION; 0; 0; 0] ++ le_enc 8 seq ++ repeat 0 (N.to_nat (WAL_HEADER_SIZE - 16)).
  (* the bytes of a file after WalWriter::new + append_entry* without I/O faults *)
  Definition file_image (seq : N) (es : list entry) : bytes :=
    file_header seq ++ concat (map encode_entry es).

  (* WalReader::open: Err = WalError::Corruption *)
  Definition wal_open (img : bytes) : wres N :=
    if lenN img <? WAL_HEADER_SIZE then Err WCorrupt else
    do m <- or_panic (sliceN 0 4 img);
    if negb (bytes_eqb m WAL_MAGIC) then Err WCorrupt else
    do v <- or_panic (indexN 4 img);
    if negb (v =? WAL_VERSION) then Err WCorrupt else
    do s <- or_panic (sliceN 8 16 img);
    Ok (le_dec s).

  (* WalReader::entries: while offset < len { decode(&data[offset..]) ... } *)
  Fixpoint read_loop (fuel : nat) (d : bytes) : wres (list entry) :=
    match fuel with
    | O => match d with [] => Ok [] | _ => Err WOutOfFuel end
    | S f =>
        match d with
        | [] => Ok []
        | _ => match decode_entry d with
               | Panic => Panic
               | Err e => Err e
               | Ok None => Ok []
               | Ok (Some (e, n)) => do r <- read_loop f (dropN n d); Ok (e :: r)
               end
        end
    end.
  Definition wal_entries (img : bytes) : wres (list entry) :=
    read_loop (length img) (dropN WAL_HEADER_SIZE img).

  (* open + entries: (header sequence, entries) *)
  Definition wal_read (img : bytes) : wres (N * list entry) :=
    do s <- wal_open img; do es <- wal_entries img; Ok (s, es).

  (* WalRotator::recover_all_entries: files whose name parses, stably sorted by the sequence
     in the NAME (the header's sequence field is read but not used), unreadable files skipped *)
  Fixpoint collect_files (fs : list (N * (bytes * bytes))) : wres (list entry) :=
    match fs with
    | [] => Ok []
    | (_, (_, img)) :: r =>
        match wal_read img with
        | Panic => Panic
        | Err _ => collect_files r
        | Ok (_, es) => do rest <- collect_files r; Ok (es ++ rest)
        end
    end.
  Definition recover_all (st : store) : wres (list entry) :=
    collect_files (sort_by_seq (wal_files st)).

  (* what one file contributes to recovery *)
  Definition file_entries (img : bytes) : list entry :=
    match wal_read img with Ok (_, es) => es | _ => [] end.

  (* WalRotator::recover_entries_after: entries with ts >= T, each deserialised; the first
     entry that does not deserialise aborts the whole call ([deser_ok] abstracts bincode) *)
  Variable deser_ok : bytes -> bool.
  Definition recover_after (st : store) (T : N) : wres (list entry) :=
    do es <- recover_all st;
    let sel := filter (fun e => T <=? e_ts e) es in
    if forallb (fun e => deser_ok (e_data e)) sel then Ok sel else Err WCorrupt.

  (* WalRotator::truncate_before.  [active] = sequence of the current writer, if any;
     [dfail name] = the store's delete(name) fails (then the call returns that error at once,
     earlier deletions stay).  Result: remaining store and deleted count / error. *)
  Fixpoint trunc_loop (active : option bytes) (T : N) (dfail : bytes -> bool)
           (names : list bytes) (st : store) (cnt : N) : store * wres N :=
    match names with
    | [] => (st, Ok cnt)
    | name :: rest =>
        let skip := trunc_loop active T dfail rest st cnt in
        let is_active := match active with Some a => bytes_eqb a name | None => false end in
        if is_active then skip else
        match st_lookup name st with
        | None => skip                                  (* open_read failed *)
        | Some img =>
            match wal_read img with
            | Panic => (st, Panic)
            | Err _ => skip                             (* unreadable header *)
            | Ok (_, es) =>
                if match es with [] => true | _ => max_ts es <=? T end
                then if dfail name then (st, Err WCorrupt)
                     else trunc_loop active T dfail rest (st_delete name st) (cnt + 1)
                else skip
            end
        end
    end.
  Definition truncate_before (st : store) (active : option N) (T : N) (dfail : bytes -> bool)
    : store * wres N :=
    trunc_loop (option_map wal_file_name active) T dfail (map fst st) st 0.
End Wal.

(* Reference semantics of the Redis data commands ("what CommandExecutor::execute must do").
   Definitions only.  This is the oracle of C01/C17 (there is no Redis binary in the sandbox):
   it is written from Redis's documented behaviour and from the Redis 7.0 sources
   (t_string.c, t_list.c, t_set.c, t_hash.c, t_zset.c, expire.c, db.c, util.c/string2ll),
   NOT from the Rust code.  Where the Rust code deviates, the correspondence check reports it.

   State      key |-> (value, optional absolute deadline in ms).  The model keeps no stale
              entry: [advance] (= CommandExecutor::set_time) drops every entry whose deadline
              is <= now, and a command that would store a deadline <= now deletes the key.
   Clock      explicit argument [now : N] (ms since the executor's epoch; absolute EXAT/PXAT
              timestamps are on the same axis, i.e. simulation_start_epoch_ms = 0).
   Integers   exact Z with the i64 range checks written out.
   Scores     sorted-set scores are integers (Z); float scores are outside the model.

   Supported set (everything else - INCRBYFLOAT, SETBIT/GETBIT, SPOP, SORT, SCAN family,
   RANDOMKEY, scripts, transactions, OBJECT/DEBUG/CLIENT/CONFIG/ACL stubs - is OUTSIDE):
     strings   GET SET(EX PX EXAT PXAT KEEPTTL NX XX GET) SETNX APPEND GETSET STRLEN MGET MSET
               MSETNX GETRANGE SETRANGE GETEX GETDEL INCR DECR INCRBY DECRBY
     keys      DEL EXISTS TYPE KEYS(pattern "*" only) RENAME RENAMENX DBSIZE FLUSHDB FLUSHALL
               EXPIRE PEXPIRE (NX XX GT LT) EXPIREAT PEXPIREAT TTL PTTL EXPIRETIME PEXPIRETIME
               PERSIST
     lists     LPUSH RPUSH LPOP RPOP (single element) LLEN LINDEX LRANGE LSET LTRIM RPOPLPUSH
               LMOVE
     sets      SADD SREM SMEMBERS SISMEMBER SCARD
     hashes    HSET HGET HDEL HGETALL HKEYS HVALS HLEN HEXISTS HINCRBY
     zsets     ZADD(NX XX GT LT CH) ZREM ZSCORE ZRANK ZCARD ZCOUNT ZRANGE ZREVRANGE
               ZRANGEBYSCORE(WITHSCORES, LIMIT with offset >= 0)
   A command value the Redis grammar rejects (incompatible options, empty argument list) is
   answered with an error and changes nothing ([cmd_wf]). *)
From stdpp Require Import gmap.
From Coq Require Import ZArith NArith String.
From RV Require Import Lib.Hex.
Local Open Scope Z_scope.

(* ------------------------------------------------------------------ values and replies *)

Inductive value :=
| VStr (b : list N)
| VList (l : list (list N))
| VSet (s : gset (list N))
| VHash (h : gmap (list N) (list N))
| VZSet (z : gmap (list N) Z).

Notation key := (list N) (only parsing).
Notation entry := (value * option N)%type (only parsing).
Notation state := (gmap (list N) (value * option N)) (only parsing).

Inductive ekind :=
| EWrongType        (* WRONGTYPE Operation against a key holding the wrong kind of value *)
| ENotInteger       (* ERR value is not an integer or out of range / hash value is not an integer *)
| EOverflow         (* ERR increment or decrement would overflow / decrement would overflow *)
| ESyntax           (* ERR syntax error / incompatible options *)
| EArity            (* ERR wrong number of arguments *)
| EInvalidExpire    (* ERR invalid expire time in '...' command *)
| ENoSuchKey        (* ERR no such key *)
| EIndexOutOfRange  (* ERR index out of range *)
| ETooBig           (* ERR string exceeds maximum allowed size *)
| EOther.           (* any other error text (never produced by the model) *)

Inductive reply :=
| RInt (z : Z)
| RBulk (o : option (list N))
| RSimple (b : list N)
| RErr (k : ekind)
| RArr (l : list reply)
| RNilArr.

Definition is_error (r : reply) : bool := match r with RErr _ => true | _ => false end.

Definition ROk : reply := RSimple [79%N; 75%N].          (* +OK *)
Definition RNil : reply := RBulk None.
Definition RB (b : list N) : reply := RBulk (Some b).

Definition ekind_eqb (a b : ekind) : bool :=
  match a, b with
  | EWrongType, EWrongType | ENotInteger, ENotInteger | EOverflow, EOverflow
  | ESyntax, ESyntax | EArity, EArity | EInvalidExpire, EInvalidExpire
  | ENoSuchKey, ENoSuchKey | EIndexOutOfRange, EIndexOutOfRange | ETooBig, ETooBig
  | EOther, EOther => true
  | _, _ => false
  end.

Fixpoint reply_eqb (a b : reply) : bool :=
  match a, b with
  | RInt x, RInt y => x =? y
  | RBulk None, RBulk None => true
  | RBulk (Some x), RBulk (Some y) => bytes_eqb x y
  | RSimple x, RSimple y => bytes_eqb x y
  | RErr x, RErr y => ekind_eqb x y
  | RNilArr, RNilArr => true
  | RArr x, RArr y =>
      (fix go (x y : list reply) : bool :=
         match x, y with
         | [], [] => true
         | p :: x', q :: y' => reply_eqb p q && go x' y'
         | _, _ => false
         end) x y
  | _, _ => false
  end.

(* The model is parameterised by a dialect.  [Redis] is the reference semantics.  [AsBuilt] is
   the reference with the deviations of the current implementation that could not be repaired
   because tests of the repository pin them (known findings C01-getset-keeps-ttl and
   C01-getrange-negative-order); it is what the correspondence check runs.  The two dialects
   differ only on the class [known_dev] below; every theorem is proved for both.  (AsBuilt also
   accepts, like the executor, the SET / EXPIRE flag sets that only the parsers refuse.) *)
Inductive dialect := Redis | AsBuilt.

(* ------------------------------------------------------------------ integers <-> decimal text *)

Definition I64MAX : Z := 9223372036854775807.
Definition I64MIN : Z := -9223372036854775808.
Definition in_i64 (z : Z) : bool := (I64MIN <=? z) && (z <=? I64MAX).

Definition is_digit (c : N) : bool := (48 <=? c)%N && (c <=? 57)%N.
Definition is_digit19 (c : N) : bool := (49 <=? c)%N && (c <=? 57)%N.

Fixpoint digits_val (acc : Z) (l : list N) : option Z :=
  match l with
  | [] => Some acc
  | c :: r => if is_digit c then digits_val (10 * acc + Z.of_N (c - 48)) r else None
  end.

(* util.c string2ll: no leading '+', no leading zeros, no "-0", at most 20 characters, i64 range *)
Definition parse_i64 (b : list N) : option Z :=
  if (21 <=? List.length b)%nat then None else
  match b with
  | [] => None
  | c :: r =>
      if (c =? 48)%N then (match r with [] => Some 0 | _ => None end)
      else if (c =? 45)%N then
        match r with
        | d :: _ => if is_digit19 d
                    then match digits_val 0 r with
                         | Some z => if z <=? - I64MIN then Some (- z) else None
                         | None => None
                         end
                    else None
        | [] => None
        end
      else if is_digit19 c
        then match digits_val 0 b with
             | Some z => if z <=? I64MAX then Some z else None
             | None => None
             end
        else None
  end.

Fixpoint fmt_N_aux (fuel : nat) (n : N) (acc : list N) : list N :=
  match fuel with
  | O => acc
  | S f => let acc' := (48 + n mod 10)%N :: acc in
           if (n <? 10)%N then acc' else fmt_N_aux f (n / 10)%N acc'
  end.
Definition fmt_N (n : N) : list N := fmt_N_aux (S (N.size_nat n)) n [].
Definition fmt_Z (z : Z) : list N :=
  if z <? 0 then 45%N :: fmt_N (Z.to_N (- z)) else fmt_N (Z.to_N z).

(* ------------------------------------------------------------------ small helpers *)

Definition zlen {A} (l : list A) : Z := Z.of_nat (List.length l).

(* lexicographic order on byte strings (memcmp, shorter prefix first) *)
Fixpoint bytes_ltb (a b : list N) : bool :=
  match a, b with
  | [], [] => false
  | [], _ :: _ => true
  | _ :: _, [] => false
  | x :: a', y :: b' => if (x <? y)%N then true else if (y <? x)%N then false else bytes_ltb a' b'
  end.

Definition value_nonempty (v : value) : bool :=
  match v with
  | VStr _ => true
  | VList l => match l with [] => false | _ => true end
  | VSet s => match elements s with [] => false | _ => true end
  | VHash h => match map_to_list h with [] => false | _ => true end
  | VZSet z => match map_to_list z with [] => false | _ => true end
  end.

(* "a collection that becomes empty stops existing" *)
Definition mk (v : value) (d : option N) : option (value * option N) :=
  if value_nonempty v then Some (v, d) else None.

Definition upd (s : state) (k : key) (oe : option (value * option N)) : state :=
  match oe with Some e => <[k := e]> s | None => delete k s end.

(* a single-key command is a function on the entry stored at its key *)
Definition on_key (s : state) (k : key)
    (f : option (value * option N) -> option (value * option N) * reply) : state * reply :=
  let '(oe, r) := f (s !! k) in (upd s k oe, r).

Definition is_some {A} (o : option A) : bool := match o with Some _ => true | None => false end.

(* ------------------------------------------------------------------ expiry *)

Definition alive (now : N) (e : value * option N) : bool :=
  match e.2 with Some d => (now <? d)%N | None => true end.

(* CommandExecutor::set_time: the clock moves to [now] and everything whose deadline is
   <= now disappears *)
Definition advance (s : state) (now : N) : state :=
  omap (λ e, if alive now e then Some e else None) s.

Inductive xopt :=
| XNone | XKeepTtl | XPersist
| XEx (sec : Z) | XPx (ms : Z) | XExAt (ts : Z) | XPxAt (tms : Z).

(* t_string.c getExpireMillisecondsOrReply: the absolute deadline (ms) an option denotes,
   [inl tt] = "invalid expire time" *)
Definition xopt_when (now : N) (x : xopt) : option (unit + Z) :=
  match x with
  | XNone | XKeepTtl | XPersist => None
  | XEx s => Some (if (s <=? 0) || (s >? I64MAX / 1000) then inl tt
                   else if s * 1000 + Z.of_N now >? I64MAX then inl tt
                   else inr (s * 1000 + Z.of_N now))
  | XPx m => Some (if m <=? 0 then inl tt
                   else if m + Z.of_N now >? I64MAX then inl tt
                   else inr (m + Z.of_N now))
  | XExAt t => Some (if (t <=? 0) || (t >? I64MAX / 1000) then inl tt else inr (t * 1000))
  | XPxAt t => Some (if t <=? 0 then inl tt else inr t)
  end.

(* store [v] with absolute deadline [w]; a deadline that is not in the future deletes *)
Definition with_deadline (now : N) (v : value) (w : Z) : option (value * option N) :=
  if w <=? Z.of_N now then None else Some (v, Some (Z.to_N w)).

(* ------------------------------------------------------------------ strings *)

Definition c_get (oe : option (value * option N)) : option (value * option N) * reply :=
  match oe with
  | None => (oe, RNil)
  | Some (VStr b, _) => (oe, RB b)
  | Some _ => (oe, RErr EWrongType)
  end.

Definition old_str (oe : option (value * option N)) : reply :=
  match oe with Some (VStr b, _) => RB b | _ => RNil end.
Definition holds_nonstr (oe : option (value * option N)) : bool :=
  match oe with Some (VStr _, _) => false | Some _ => true | None => false end.
Definition entry_deadline (oe : option (value * option N)) : option N :=
  match oe with Some (_, d) => d | None => None end.

(* SET key value [NX|XX] [GET] [EX|PX|EXAT|PXAT|KEEPTTL] (t_string.c setGenericCommand) *)
Definition c_set (now : N) (v : list N) (x : xopt) (nx xx get : bool)
    (oe : option (value * option N)) : option (value * option N) * reply :=
  match xopt_when now x with
  | Some (inl _) => (oe, RErr EInvalidExpire)
  | w =>
      if get && holds_nonstr oe then (oe, RErr EWrongType)
      else if (nx && is_some oe) || (xx && negb (is_some oe))
      then (oe, if get then old_str oe else RNil)
      else
        let r := if get then old_str oe else ROk in
        match w with
        | Some (inr t) => (with_deadline now (VStr v) t, r)
        | _ => (Some (VStr v, match x with XKeepTtl => entry_deadline oe | _ => None end), r)
        end
  end.

Definition c_setnx (v : list N) (oe : option (value * option N)) :=
  match oe with
  | Some _ => (oe, RInt 0)
  | None => (Some (VStr v, None), RInt 1)
  end.

Definition c_append (v : list N) (oe : option (value * option N)) :=
  match oe with
  | None => (Some (VStr v, None), RInt (zlen v))
  | Some (VStr b, d) => (Some (VStr (b ++ v), d), RInt (zlen (b ++ v)))
  | Some _ => (oe, RErr EWrongType)
  end.

(* GETSET = SET key value GET: the TTL is discarded (as built: it is kept) *)
Definition c_getset (dl : dialect) (v : list N) (oe : option (value * option N)) :=
  match oe with
  | None => (Some (VStr v, None), RNil)
  | Some (VStr b, d) => (Some (VStr v, match dl with Redis => None | AsBuilt => d end), RB b)
  | Some _ => (oe, RErr EWrongType)
  end.

Definition c_strlen (oe : option (value * option N)) :=
  match oe with
  | None => (oe, RInt 0)
  | Some (VStr b, _) => (oe, RInt (zlen b))
  | Some _ => (oe, RErr EWrongType)
  end.

(* t_string.c getrangeCommand (as built: two negative indices in the wrong order are not
   refused, so after clamping they can select the first byte) *)
Definition getrange (dl : dialect) (b : list N) (start stop : Z) : list N :=
  let len := zlen b in
  if match dl with Redis => (start <? 0) && (stop <? 0) && (start >? stop) | AsBuilt => false end
  then [] else
  let s := if start <? 0 then len + start else start in
  let e := if stop <? 0 then len + stop else stop in
  let s := Z.max s 0 in
  let e := Z.max e 0 in
  let e := if e >=? len then len - 1 else e in
  if (s >? e) || (len =? 0) then []
  else take (Z.to_nat (e - s + 1)) (drop (Z.to_nat s) b).

Definition c_getrange (dl : dialect) (start stop : Z) (oe : option (value * option N)) :=
  match oe with
  | None => (oe, RB [])
  | Some (VStr b, _) => (oe, RB (getrange dl b start stop))
  | Some _ => (oe, RErr EWrongType)
  end.

Definition MAX_STRING : Z := 536870912.   (* 512 MiB *)

Definition setrange_bytes (b : list N) (off : nat) (v : list N) : list N :=
  let padded := b ++ repeat 0%N (off + List.length v - List.length b) in
  take off padded ++ v ++ drop (off + List.length v) padded.

(* t_string.c setrangeCommand (the offset is unsigned in the Command type) *)
Definition c_setrange (off : N) (v : list N) (oe : option (value * option N)) :=
  match oe with
  | None =>
      match v with
      | [] => (oe, RInt 0)
      | _ => if Z.of_N off + zlen v >? MAX_STRING then (oe, RErr ETooBig)
             else (Some (VStr (setrange_bytes [] (N.to_nat off) v), None), RInt (Z.of_N off + zlen v))
      end
  | Some (VStr b, d) =>
      match v with
      | [] => (oe, RInt (zlen b))
      | _ => if Z.of_N off + zlen v >? MAX_STRING then (oe, RErr ETooBig)
             else let nb := setrange_bytes b (N.to_nat off) v in (Some (VStr nb, d), RInt (zlen nb))
      end
  | Some _ => (oe, RErr EWrongType)
  end.

(* GETEX key [EX|PX|EXAT|PXAT|PERSIST] (t_string.c getexCommand) *)
Definition c_getex (now : N) (x : xopt) (oe : option (value * option N)) :=
  match oe with
  | None => (oe, RNil)
  | Some (VStr b, d) =>
      match xopt_when now x with
      | Some (inl _) => (oe, RErr EInvalidExpire)
      | Some (inr t) => (with_deadline now (VStr b) t, RB b)
      | None => (Some (VStr b, match x with XPersist => None | _ => d end), RB b)
      end
  | Some _ => (oe, RErr EWrongType)
  end.

Definition c_getdel (oe : option (value * option N)) :=
  match oe with
  | None => (oe, RNil)
  | Some (VStr b, _) => (None, RB b)
  | Some _ => (oe, RErr EWrongType)
  end.

(* INCR / DECR / INCRBY / DECRBY (t_string.c incrDecr) *)
Definition c_incrby (incr : Z) (oe : option (value * option N)) :=
  match oe with
  | None => (Some (VStr (fmt_Z incr), None), RInt incr)
  | Some (VStr b, d) =>
      match parse_i64 b with
      | None => (oe, RErr ENotInteger)
      | Some cur =>
          if in_i64 (cur + incr) then (Some (VStr (fmt_Z (cur + incr)), d), RInt (cur + incr))
          else (oe, RErr EOverflow)
      end
  | Some _ => (oe, RErr EWrongType)
  end.

(* DECRBY: negating LLONG_MIN is refused before the key is looked at *)
Definition c_decrby (decr : Z) (oe : option (value * option N)) :=
  if decr =? I64MIN then (oe, RErr EOverflow) else c_incrby (- decr) oe.

(* ------------------------------------------------------------------ keys and expiry *)

Definition type_name (v : value) : list N :=
  match v with
  | VStr _ => [115; 116; 114; 105; 110; 103]%N      (* string *)
  | VList _ => [108; 105; 115; 116]%N                (* list *)
  | VSet _ => [115; 101; 116]%N                      (* set *)
  | VHash _ => [104; 97; 115; 104]%N                 (* hash *)
  | VZSet _ => [122; 115; 101; 116]%N                (* zset *)
  end.
Definition type_none : list N := [110; 111; 110; 101]%N.

Definition c_type (oe : option (value * option N)) :=
  match oe with
  | None => (oe, RSimple type_none)
  | Some (v, _) => (oe, RSimple (type_name v))
  end.

(* expire.c expireGenericCommand after unit conversion: [w] = absolute deadline in ms *)
Definition c_expire_at (now : N) (w : Z) (nx xx gt lt : bool) (oe : option (value * option N)) :=
  match oe with
  | None => (oe, RInt 0)
  | Some (v, d) =>
      if nx && is_some d then (oe, RInt 0)
      else if xx && negb (is_some d) then (oe, RInt 0)
      else if gt && match d with Some c => w <=? Z.of_N c | None => true end then (oe, RInt 0)
      else if lt && match d with Some c => w >=? Z.of_N c | None => false end then (oe, RInt 0)
      else (with_deadline now v w, RInt 1)
  end.

(* EXPIRE: seconds relative to now; overflow of the conversion or of the addition is an error,
   detected before the key is looked up *)
Definition c_expire (now : N) (sec : Z) (nx xx gt lt : bool) (oe : option (value * option N)) :=
  if (sec >? I64MAX / 1000) || (sec <? Z.quot I64MIN 1000) then (oe, RErr EInvalidExpire)
  else if sec * 1000 >? I64MAX - Z.of_N now then (oe, RErr EInvalidExpire)
  else c_expire_at now (sec * 1000 + Z.of_N now) nx xx gt lt oe.

Definition c_pexpire (now : N) (ms : Z) (nx xx gt lt : bool) (oe : option (value * option N)) :=
  if ms >? I64MAX - Z.of_N now then (oe, RErr EInvalidExpire)
  else c_expire_at now (ms + Z.of_N now) nx xx gt lt oe.

Definition c_expireat (now : N) (ts : Z) (oe : option (value * option N)) :=
  if (ts >? I64MAX / 1000) || (ts <? Z.quot I64MIN 1000) then (oe, RErr EInvalidExpire)
  else c_expire_at now (ts * 1000) false false false false oe.

Definition c_pexpireat (now : N) (tms : Z) (oe : option (value * option N)) :=
  c_expire_at now tms false false false false oe.

(* expire.c ttlGenericCommand: TTL and EXPIRETIME round to the nearest second *)
Definition c_ttl (now : N) (in_ms abs : bool) (oe : option (value * option N)) :=
  match oe with
  | None => (oe, RInt (-2))
  | Some (_, None) => (oe, RInt (-1))
  | Some (_, Some d) =>
      let t := if abs then Z.of_N d else Z.max 0 (Z.of_N d - Z.of_N now) in
      (oe, RInt (if in_ms then t else (t + 500) / 1000))
  end.

Definition c_persist (oe : option (value * option N)) :=
  match oe with
  | Some (v, Some _) => (Some (v, None), RInt 1)
  | _ => (oe, RInt 0)
  end.

(* ------------------------------------------------------------------ lists *)

(* the common index normalisation of LRANGE / LTRIM / ZRANGE: [Some (s, e)] with
   0 <= s <= e < len, or [None] for an empty range *)
Definition norm_range (len start stop : Z) : option (Z * Z) :=
  let s := if start <? 0 then Z.max (len + start) 0 else start in
  let e := if stop <? 0 then len + stop else stop in
  let e := Z.min e (len - 1) in
  if (s >? e) || (s >=? len) then None else Some (s, e).

Definition lrange {A} (l : list A) (start stop : Z) : list A :=
  match norm_range (zlen l) start stop with
  | None => []
  | Some (s, e) => take (Z.to_nat (e - s + 1)) (drop (Z.to_nat s) l)
  end.

(* LINDEX / LSET index: [Some i] with 0 <= i < len *)
Definition norm_index (len i : Z) : option nat :=
  let j := if i <? 0 then len + i else i in
  if (j <? 0) || (j >=? len) then None else Some (Z.to_nat j).

Definition c_push (left : bool) (vs : list (list N)) (oe : option (value * option N)) :=
  match oe with
  | None => let l := if left then rev vs else vs in (mk (VList l) None, RInt (zlen l))
  | Some (VList l0, d) =>
      let l := if left then rev vs ++ l0 else l0 ++ vs in (mk (VList l) d, RInt (zlen l))
  | Some _ => (oe, RErr EWrongType)
  end.

Definition pop_end {A} (left : bool) (l : list A) : option (A * list A) :=
  if left then match l with x :: r => Some (x, r) | [] => None end
  else match rev l with x :: r => Some (x, rev r) | [] => None end.
Definition push_end {A} (left : bool) (x : A) (l : list A) : list A :=
  if left then x :: l else l ++ [x].

Definition c_pop (left : bool) (oe : option (value * option N)) :=
  match oe with
  | None => (oe, RNil)
  | Some (VList l, d) =>
      match pop_end left l with
      | Some (x, r) => (mk (VList r) d, RB x)
      | None => (None, RNil)
      end
  | Some _ => (oe, RErr EWrongType)
  end.

Definition c_llen (oe : option (value * option N)) :=
  match oe with
  | None => (oe, RInt 0)
  | Some (VList l, _) => (oe, RInt (zlen l))
  | Some _ => (oe, RErr EWrongType)
  end.

Definition lindex (l : list (list N)) (i : Z) : option (list N) :=
  match norm_index (zlen l) i with Some j => l !! j | None => None end.

Definition c_lindex (i : Z) (oe : option (value * option N)) :=
  match oe with
  | None => (oe, RNil)
  | Some (VList l, _) => (oe, RBulk (lindex l i))
  | Some _ => (oe, RErr EWrongType)
  end.

Definition c_lrange (a b : Z) (oe : option (value * option N)) :=
  match oe with
  | None => (oe, RArr [])
  | Some (VList l, _) => (oe, RArr (map RB (lrange l a b)))
  | Some _ => (oe, RErr EWrongType)
  end.

Definition c_lset (i : Z) (v : list N) (oe : option (value * option N)) :=
  match oe with
  | None => (oe, RErr ENoSuchKey)
  | Some (VList l, d) =>
      match norm_index (zlen l) i with
      | Some j => (Some (VList (<[j := v]> l), d), ROk)
      | None => (oe, RErr EIndexOutOfRange)
      end
  | Some _ => (oe, RErr EWrongType)
  end.

Definition c_ltrim (a b : Z) (oe : option (value * option N)) :=
  match oe with
  | None => (oe, ROk)
  | Some (VList l, d) => (mk (VList (lrange l a b)) d, ROk)
  | Some _ => (oe, RErr EWrongType)
  end.

(* LMOVE src dst LEFT|RIGHT LEFT|RIGHT; RPOPLPUSH = LMOVE src dst RIGHT LEFT.
   Source missing -> nil; source or destination of the wrong type -> error, nothing moves;
   src = dst rotates the list and keeps its TTL. *)
Definition c_lmove (s : state) (src dst : key) (from_left to_left : bool) : state * reply :=
  match s !! src with
  | None => (s, RNil)
  | Some (VList l, d) =>
      match pop_end from_left l with
      | None => (s, RNil)
      | Some (x, r) =>
          if bool_decide (src = dst)
          then (<[src := (VList (push_end to_left x r), d)]> s, RB x)
          else match s !! dst with
               | None => (<[dst := (VList [x], None)]> (upd s src (mk (VList r) d)), RB x)
               | Some (VList m, dd) =>
                   (<[dst := (VList (push_end to_left x m), dd)]> (upd s src (mk (VList r) d)), RB x)
               | Some _ => (s, RErr EWrongType)
               end
      end
  | Some _ => (s, RErr EWrongType)
  end.

(* ------------------------------------------------------------------ sets *)

Definition sadd_all (s0 : gset (list N)) (ms : list (list N)) : gset (list N) * Z :=
  fold_left (λ '(s, n) m, if bool_decide (m ∈ s) then (s, n) else ({[m]} ∪ s, n + 1)) ms (s0, 0).
Definition srem_all (s0 : gset (list N)) (ms : list (list N)) : gset (list N) * Z :=
  fold_left (λ '(s, n) m, if bool_decide (m ∈ s) then (s ∖ {[m]}, n + 1) else (s, n)) ms (s0, 0).

Definition c_sadd (ms : list (list N)) (oe : option (value * option N)) :=
  match oe with
  | None => let '(s, n) := sadd_all ∅ ms in (mk (VSet s) None, RInt n)
  | Some (VSet s0, d) => let '(s, n) := sadd_all s0 ms in (mk (VSet s) d, RInt n)
  | Some _ => (oe, RErr EWrongType)
  end.

Definition c_srem (ms : list (list N)) (oe : option (value * option N)) :=
  match oe with
  | None => (oe, RInt 0)
  | Some (VSet s0, d) => let '(s, n) := srem_all s0 ms in (mk (VSet s) d, RInt n)
  | Some _ => (oe, RErr EWrongType)
  end.

(* unordered reply: the order of [elements] is arbitrary; compared up to permutation *)
Definition c_smembers (oe : option (value * option N)) :=
  match oe with
  | None => (oe, RArr [])
  | Some (VSet s, _) => (oe, RArr (map RB (elements s)))
  | Some _ => (oe, RErr EWrongType)
  end.

Definition c_sismember (m : list N) (oe : option (value * option N)) :=
  match oe with
  | None => (oe, RInt 0)
  | Some (VSet s, _) => (oe, RInt (if bool_decide (m ∈ s) then 1 else 0))
  | Some _ => (oe, RErr EWrongType)
  end.

Definition c_scard (oe : option (value * option N)) :=
  match oe with
  | None => (oe, RInt 0)
  | Some (VSet s, _) => (oe, RInt (zlen (elements s)))
  | Some _ => (oe, RErr EWrongType)
  end.

(* ------------------------------------------------------------------ hashes *)

Definition hset_all (h0 : gmap (list N) (list N)) (fvs : list (list N * list N)) :
    gmap (list N) (list N) * Z :=
  fold_left (λ '(h, n) '(f, v), (<[f := v]> h, if is_some (h !! f) then n else n + 1)) fvs (h0, 0).
Definition hdel_all (h0 : gmap (list N) (list N)) (fs : list (list N)) :
    gmap (list N) (list N) * Z :=
  fold_left (λ '(h, n) f, if is_some (h !! f) then (delete f h, n + 1) else (h, n)) fs (h0, 0).

Definition c_hset (fvs : list (list N * list N)) (oe : option (value * option N)) :=
  match oe with
  | None => let '(h, n) := hset_all ∅ fvs in (mk (VHash h) None, RInt n)
  | Some (VHash h0, d) => let '(h, n) := hset_all h0 fvs in (mk (VHash h) d, RInt n)
  | Some _ => (oe, RErr EWrongType)
  end.

Definition c_hget (f : list N) (oe : option (value * option N)) :=
  match oe with
  | None => (oe, RNil)
  | Some (VHash h, _) => (oe, RBulk (h !! f))
  | Some _ => (oe, RErr EWrongType)
  end.

Definition c_hdel (fs : list (list N)) (oe : option (value * option N)) :=
  match oe with
  | None => (oe, RInt 0)
  | Some (VHash h0, d) => let '(h, n) := hdel_all h0 fs in (mk (VHash h) d, RInt n)
  | Some _ => (oe, RErr EWrongType)
  end.

(* unordered replies (field order arbitrary; HGETALL keeps each field next to its value) *)
Definition c_hgetall (oe : option (value * option N)) :=
  match oe with
  | None => (oe, RArr [])
  | Some (VHash h, _) => (oe, RArr (flat_map (λ p, [RB p.1; RB p.2]) (map_to_list h)))
  | Some _ => (oe, RErr EWrongType)
  end.
Definition c_hkeys (oe : option (value * option N)) :=
  match oe with
  | None => (oe, RArr [])
  | Some (VHash h, _) => (oe, RArr (map (λ p, RB p.1) (map_to_list h)))
  | Some _ => (oe, RErr EWrongType)
  end.
Definition c_hvals (oe : option (value * option N)) :=
  match oe with
  | None => (oe, RArr [])
  | Some (VHash h, _) => (oe, RArr (map (λ p, RB p.2) (map_to_list h)))
  | Some _ => (oe, RErr EWrongType)
  end.
Definition c_hlen (oe : option (value * option N)) :=
  match oe with
  | None => (oe, RInt 0)
  | Some (VHash h, _) => (oe, RInt (zlen (map_to_list h)))
  | Some _ => (oe, RErr EWrongType)
  end.
Definition c_hexists (f : list N) (oe : option (value * option N)) :=
  match oe with
  | None => (oe, RInt 0)
  | Some (VHash h, _) => (oe, RInt (if is_some (h !! f) then 1 else 0))
  | Some _ => (oe, RErr EWrongType)
  end.

Definition hincr (h : gmap (list N) (list N)) (f : list N) (incr : Z) : ekind + (gmap (list N) (list N) * Z) :=
  match (match h !! f with Some b => parse_i64 b | None => Some 0 end) with
  | None => inl ENotInteger
  | Some cur => if in_i64 (cur + incr) then inr (<[f := fmt_Z (cur + incr)]> h, cur + incr)
                else inl EOverflow
  end.

Definition c_hincrby (f : list N) (incr : Z) (oe : option (value * option N)) :=
  match oe with
  | None => (Some (VHash {[f := fmt_Z incr]}, None), RInt incr)
  | Some (VHash h, d) =>
      match hincr h f incr with
      | inl e => (oe, RErr e)
      | inr (h', n) => (Some (VHash h', d), RInt n)
      end
  | Some _ => (oe, RErr EWrongType)
  end.

(* ------------------------------------------------------------------ sorted sets *)

(* order of a sorted set: by score, then by member bytes *)
Definition zle (a b : list N * Z) : bool :=
  (a.2 <? b.2) || ((a.2 =? b.2) && negb (bytes_ltb b.1 a.1)).
Fixpoint zinsert (x : list N * Z) (l : list (list N * Z)) : list (list N * Z) :=
  match l with
  | [] => [x]
  | y :: r => if zle x y then x :: l else y :: zinsert x r
  end.
Definition zsorted (z : gmap (list N) Z) : list (list N * Z) :=
  foldr zinsert [] (map_to_list z).

Definition zadd_one (nx xx gt lt : bool) (acc : gmap (list N) Z * Z * Z) (p : Z * list N) :
    gmap (list N) Z * Z * Z :=
  let '(z, added, changed) := acc in
  let '(sc, m) := p in
  match z !! m with
  | None => if xx then acc else (<[m := sc]> z, added + 1, changed)
  | Some cur =>
      if nx then acc
      else if gt && (sc <=? cur) then acc
      else if lt && (sc >=? cur) then acc
      else if sc =? cur then acc
      else (<[m := sc]> z, added, changed + 1)
  end.

Definition c_zadd (ps : list (Z * list N)) (nx xx gt lt ch : bool) (oe : option (value * option N)) :=
  match oe with
  | Some (VZSet z0, d) =>
      let '(z, a, c) := fold_left (zadd_one nx xx gt lt) ps (z0, 0, 0) in
      (mk (VZSet z) d, RInt (if ch then a + c else a))
  | None =>
      let '(z, a, c) := fold_left (zadd_one nx xx gt lt) ps (∅, 0, 0) in
      (mk (VZSet z) None, RInt (if ch then a + c else a))
  | Some _ => (oe, RErr EWrongType)
  end.

Definition zrem_all (z0 : gmap (list N) Z) (ms : list (list N)) : gmap (list N) Z * Z :=
  fold_left (λ '(z, n) m, if is_some (z !! m) then (delete m z, n + 1) else (z, n)) ms (z0, 0).

Definition c_zrem (ms : list (list N)) (oe : option (value * option N)) :=
  match oe with
  | None => (oe, RInt 0)
  | Some (VZSet z0, d) => let '(z, n) := zrem_all z0 ms in (mk (VZSet z) d, RInt n)
  | Some _ => (oe, RErr EWrongType)
  end.

Definition c_zscore (m : list N) (oe : option (value * option N)) :=
  match oe with
  | None => (oe, RNil)
  | Some (VZSet z, _) => (oe, RBulk (fmt_Z <$> z !! m))
  | Some _ => (oe, RErr EWrongType)
  end.

Fixpoint index_of (m : list N) (l : list (list N * Z)) (i : Z) : option Z :=
  match l with
  | [] => None
  | p :: r => if bytes_eqb p.1 m then Some i else index_of m r (i + 1)
  end.

Definition c_zrank (m : list N) (oe : option (value * option N)) :=
  match oe with
  | None => (oe, RNil)
  | Some (VZSet z, _) =>
      (oe, match index_of m (zsorted z) 0 with Some i => RInt i | None => RNil end)
  | Some _ => (oe, RErr EWrongType)
  end.

Definition c_zcard (oe : option (value * option N)) :=
  match oe with
  | None => (oe, RInt 0)
  | Some (VZSet z, _) => (oe, RInt (zlen (map_to_list z)))
  | Some _ => (oe, RErr EWrongType)
  end.

Inductive zbound := BNegInf | BPosInf | BIncl (z : Z) | BExcl (z : Z).
Definition above_min (lo : zbound) (sc : Z) : bool :=
  match lo with BNegInf => true | BPosInf => false | BIncl m => m <=? sc | BExcl m => m <? sc end.
Definition below_max (hi : zbound) (sc : Z) : bool :=
  match hi with BNegInf => false | BPosInf => true | BIncl m => sc <=? m | BExcl m => sc <? m end.
Definition in_score_range (lo hi : zbound) (p : list N * Z) : bool :=
  above_min lo p.2 && below_max hi p.2.

Definition zflat (ws : bool) (l : list (list N * Z)) : list reply :=
  flat_map (λ p, if ws then [RB p.1; RB (fmt_Z p.2)] else [RB p.1]) l.

Definition c_zcount (lo hi : zbound) (oe : option (value * option N)) :=
  match oe with
  | None => (oe, RInt 0)
  | Some (VZSet z, _) => (oe, RInt (zlen (filter (λ p, in_score_range lo hi p = true) (map_to_list z))))
  | Some _ => (oe, RErr EWrongType)
  end.

Definition c_zrange (rev_ : bool) (a b : Z) (ws : bool) (oe : option (value * option N)) :=
  match oe with
  | None => (oe, RArr [])
  | Some (VZSet z, _) =>
      let l := if rev_ then rev (zsorted z) else zsorted z in
      (oe, RArr (zflat ws (lrange l a b)))
  | Some _ => (oe, RErr EWrongType)
  end.

(* LIMIT offset count: a negative offset yields nothing (t_zset.c walks [while (ln && offset--)]);
   the count is unsigned in the Command type *)
Definition zlimit {A} (limit : option (Z * N)) (l : list A) : list A :=
  match limit with
  | None => l
  | Some (off, cnt) =>
      if off <? 0 then []
      else if off >=? zlen l then []
      else let r := drop (Z.to_nat off) l in
           if (Z.of_N cnt >=? zlen r) then r else take (N.to_nat cnt) r
  end.

Definition c_zrangebyscore (lo hi : zbound) (ws : bool) (limit : option (Z * N))
    (oe : option (value * option N)) :=
  match oe with
  | None => (oe, RArr [])
  | Some (VZSet z, _) =>
      (oe, RArr (zflat ws (zlimit limit (filter (λ p, in_score_range lo hi p = true) (zsorted z)))))
  | Some _ => (oe, RErr EWrongType)
  end.

(* ------------------------------------------------------------------ commands *)

Inductive cmd :=
(* strings *)
| Get (k : list N)
| SetC (k v : list N) (x : xopt) (nx xx get : bool)
| SetNx (k v : list N)
| Append (k v : list N)
| GetSet (k v : list N)
| StrLen (k : list N)
| MGet (ks : list (list N))
| MSet (kvs : list (list N * list N))
| MSetNx (kvs : list (list N * list N))
| GetRange (k : list N) (a b : Z)
| SetRange (k : list N) (off : N) (v : list N)
| GetEx (k : list N) (x : xopt)
| GetDel (k : list N)
| Incr (k : list N)
| Decr (k : list N)
| IncrBy (k : list N) (z : Z)
| DecrBy (k : list N) (z : Z)
(* keys and expiry *)
| Del (ks : list (list N))
| ExistsC (ks : list (list N))
| TypeOf (k : list N)
| Keys                                        (* KEYS * *)
| Rename (a b : list N)
| RenameNx (a b : list N)
| DbSize
| FlushDb
| FlushAll
| Expire (k : list N) (sec : Z) (nx xx gt lt : bool)
| PExpire (k : list N) (ms : Z) (nx xx gt lt : bool)
| ExpireAt (k : list N) (ts : Z)
| PExpireAt (k : list N) (tms : Z)
| Ttl (k : list N)
| Pttl (k : list N)
| ExpireTime (k : list N)
| PExpireTime (k : list N)
| Persist (k : list N)
(* lists *)
| LPush (k : list N) (vs : list (list N))
| RPush (k : list N) (vs : list (list N))
| LPop (k : list N)
| RPop (k : list N)
| LLen (k : list N)
| LIndex (k : list N) (i : Z)
| LRange (k : list N) (a b : Z)
| LSet (k : list N) (i : Z) (v : list N)
| LTrim (k : list N) (a b : Z)
| RPopLPush (a b : list N)
| LMove (a b : list N) (from_left to_left : bool)
(* sets *)
| SAdd (k : list N) (ms : list (list N))
| SRem (k : list N) (ms : list (list N))
| SMembers (k : list N)
| SIsMember (k m : list N)
| SCard (k : list N)
(* hashes *)
| HSet (k : list N) (fvs : list (list N * list N))
| HGet (k f : list N)
| HDel (k : list N) (fs : list (list N))
| HGetAll (k : list N)
| HKeys (k : list N)
| HVals (k : list N)
| HLen (k : list N)
| HExists (k f : list N)
| HIncrBy (k f : list N) (z : Z)
(* sorted sets *)
| ZAdd (k : list N) (ps : list (Z * list N)) (nx xx gt lt ch : bool)
| ZRem (k : list N) (ms : list (list N))
| ZScore (k m : list N)
| ZRank (k m : list N)
| ZCard (k : list N)
| ZCount (k : list N) (lo hi : zbound)
| ZRange (k : list N) (a b : Z) (ws : bool)
| ZRevRange (k : list N) (a b : Z) (ws : bool)
| ZRangeByScore (k : list N) (lo hi : zbound) (ws : bool) (limit : option (Z * N)).

(* name of the variant of the Rust enum Command that carries this command *)
Definition tag (c : cmd) : string :=
  match c with
  | Get _ => "Get" | SetC _ _ _ _ _ _ => "Set" | SetNx _ _ => "SetNx" | Append _ _ => "Append"
  | GetSet _ _ => "GetSet" | StrLen _ => "StrLen" | MGet _ => "MGet" | MSet _ => "MSet"
  | MSetNx _ => "MSetNx" | GetRange _ _ _ => "GetRange" | SetRange _ _ _ => "SetRange"
  | GetEx _ _ => "GetEx" | GetDel _ => "GetDel" | Incr _ => "Incr" | Decr _ => "Decr"
  | IncrBy _ _ => "IncrBy" | DecrBy _ _ => "DecrBy"
  | Del _ => "Del" | ExistsC _ => "Exists" | TypeOf _ => "TypeOf" | Keys => "Keys"
  | Rename _ _ => "Rename" | RenameNx _ _ => "RenameNx" | DbSize => "DbSize"
  | FlushDb => "FlushDb" | FlushAll => "FlushAll"
  | Expire _ _ _ _ _ _ => "Expire" | PExpire _ _ _ _ _ _ => "PExpire" | ExpireAt _ _ => "ExpireAt"
  | PExpireAt _ _ => "PExpireAt" | Ttl _ => "Ttl" | Pttl _ => "Pttl"
  | ExpireTime _ => "ExpireTime" | PExpireTime _ => "PExpireTime" | Persist _ => "Persist"
  | LPush _ _ => "LPush" | RPush _ _ => "RPush" | LPop _ => "LPop" | RPop _ => "RPop"
  | LLen _ => "LLen" | LIndex _ _ => "LIndex" | LRange _ _ _ => "LRange" | LSet _ _ _ => "LSet"
  | LTrim _ _ _ => "LTrim" | RPopLPush _ _ => "RPopLPush" | LMove _ _ _ _ => "LMove"
  | SAdd _ _ => "SAdd" | SRem _ _ => "SRem" | SMembers _ => "SMembers"
  | SIsMember _ _ => "SIsMember" | SCard _ => "SCard"
  | HSet _ _ => "HSet" | HGet _ _ => "HGet" | HDel _ _ => "HDel" | HGetAll _ => "HGetAll"
  | HKeys _ => "HKeys" | HVals _ => "HVals" | HLen _ => "HLen" | HExists _ _ => "HExists"
  | HIncrBy _ _ _ => "HIncrBy"
  | ZAdd _ _ _ _ _ _ _ => "ZAdd" | ZRem _ _ => "ZRem" | ZScore _ _ => "ZScore"
  | ZRank _ _ => "ZRank" | ZCard _ => "ZCard" | ZCount _ _ _ => "ZCount"
  | ZRange _ _ _ _ => "ZRange" | ZRevRange _ _ _ _ => "ZRevRange"
  | ZRangeByScore _ _ _ _ _ => "ZRangeByScore"
  end%string.

Definition nonnil {A} (l : list A) : bool := match l with [] => false | _ => true end.

(* what the Redis grammar accepts: [None], or the error the command is refused with *)
Definition cmd_reject (dl : dialect) (c : cmd) : option ekind :=
  match c with
  | SetC _ _ x nx xx _ =>
      (* as built, the executor leaves NX+XX to the parsers (which refuse it) and, handed such a
         command value directly, evaluates NX then XX: nothing is ever written *)
      if nx && xx && match dl with Redis => true | AsBuilt => false end then Some ESyntax
      else match x with XPersist => Some ESyntax | _ => None end
  | GetEx _ x => match x with XKeepTtl => Some ESyntax | _ => None end
  | Expire _ _ nx xx gt lt | PExpire _ _ nx xx gt lt =>
      (* likewise left to the parsers; as built the flags are evaluated in the order NX XX GT LT *)
      if ((nx && (xx || gt || lt)) || (gt && lt)) && match dl with Redis => true | AsBuilt => false end
      then Some ESyntax else None
  | ZAdd _ ps nx xx gt lt _ =>
      if negb (nonnil ps) then Some EArity
      else if (nx && xx) || (gt && lt) || (nx && (gt || lt)) then Some ESyntax else None
  | MGet l | Del l | ExistsC l => if nonnil l then None else Some EArity
  | MSet l | MSetNx l => if nonnil l then None else Some EArity
  | LPush _ l | RPush _ l | SAdd _ l | SRem _ l | HDel _ l | ZRem _ l =>
      if nonnil l then None else Some EArity
  | HSet _ l => if nonnil l then None else Some EArity
  | _ => None
  end.

(* the single-key commands: their key and their function on the entry at that key *)
Definition key_fun (dl : dialect) (now : N) (c : cmd) :
    option (list N * (option (value * option N) -> option (value * option N) * reply)) :=
  match c with
  | Get k => Some (k, c_get)
  | SetC k v x nx xx get => Some (k, c_set now v x nx xx get)
  | SetNx k v => Some (k, c_setnx v)
  | Append k v => Some (k, c_append v)
  | GetSet k v => Some (k, c_getset dl v)
  | StrLen k => Some (k, c_strlen)
  | GetRange k a b => Some (k, c_getrange dl a b)
  | SetRange k off v => Some (k, c_setrange off v)
  | GetEx k x => Some (k, c_getex now x)
  | GetDel k => Some (k, c_getdel)
  | Incr k => Some (k, c_incrby 1)
  | Decr k => Some (k, c_incrby (-1))
  | IncrBy k z => Some (k, c_incrby z)
  | DecrBy k z => Some (k, c_decrby z)
  | TypeOf k => Some (k, c_type)
  | Expire k sec nx xx gt lt => Some (k, c_expire now sec nx xx gt lt)
  | PExpire k ms nx xx gt lt => Some (k, c_pexpire now ms nx xx gt lt)
  | ExpireAt k ts => Some (k, c_expireat now ts)
  | PExpireAt k tms => Some (k, c_pexpireat now tms)
  | Ttl k => Some (k, c_ttl now false false)
  | Pttl k => Some (k, c_ttl now true false)
  | ExpireTime k => Some (k, c_ttl now false true)
  | PExpireTime k => Some (k, c_ttl now true true)
  | Persist k => Some (k, c_persist)
  | LPush k vs => Some (k, c_push true vs)
  | RPush k vs => Some (k, c_push false vs)
  | LPop k => Some (k, c_pop true)
  | RPop k => Some (k, c_pop false)
  | LLen k => Some (k, c_llen)
  | LIndex k i => Some (k, c_lindex i)
  | LRange k a b => Some (k, c_lrange a b)
  | LSet k i v => Some (k, c_lset i v)
  | LTrim k a b => Some (k, c_ltrim a b)
  | SAdd k ms => Some (k, c_sadd ms)
  | SRem k ms => Some (k, c_srem ms)
  | SMembers k => Some (k, c_smembers)
  | SIsMember k m => Some (k, c_sismember m)
  | SCard k => Some (k, c_scard)
  | HSet k fvs => Some (k, c_hset fvs)
  | HGet k f => Some (k, c_hget f)
  | HDel k fs => Some (k, c_hdel fs)
  | HGetAll k => Some (k, c_hgetall)
  | HKeys k => Some (k, c_hkeys)
  | HVals k => Some (k, c_hvals)
  | HLen k => Some (k, c_hlen)
  | HExists k f => Some (k, c_hexists f)
  | HIncrBy k f z => Some (k, c_hincrby f z)
  | ZAdd k ps nx xx gt lt ch => Some (k, c_zadd ps nx xx gt lt ch)
  | ZRem k ms => Some (k, c_zrem ms)
  | ZScore k m => Some (k, c_zscore m)
  | ZRank k m => Some (k, c_zrank m)
  | ZCard k => Some (k, c_zcard)
  | ZCount k lo hi => Some (k, c_zcount lo hi)
  | ZRange k a b ws => Some (k, c_zrange false a b ws)
  | ZRevRange k a b ws => Some (k, c_zrange true a b ws)
  | ZRangeByScore k lo hi ws limit => Some (k, c_zrangebyscore lo hi ws limit)
  | _ => None
  end.

(* ------------------------------------------------------------------ multi-key commands *)

Definition mget_one (s : state) (k : list N) : reply :=
  match s !! k with Some (VStr b, _) => RB b | _ => RNil end.

(* MSET: every key becomes a string without TTL; a later duplicate wins *)
Definition mset_all (s : state) (kvs : list (list N * list N)) : state :=
  fold_left (λ s p, <[p.1 := (VStr p.2, None)]> s) kvs s.

Definition del_all (s : state) (ks : list (list N)) : state * Z :=
  fold_left (λ '(s, n) k, if is_some (s !! k) then (delete k s, n + 1) else (s, n)) ks (s, 0).

Definition count_existing (s : state) (ks : list (list N)) : Z :=
  zlen (filter (λ k, is_some (s !! k) = true) ks).

Definition c_rename (s : state) (src dst : list N) (nx : bool) : state * reply :=
  match s !! src with
  | None => (s, RErr ENoSuchKey)
  | Some e =>
      if bool_decide (src = dst) then (s, if nx then RInt 0 else ROk)
      else if nx && is_some (s !! dst) then (s, RInt 0)
      else (<[dst := e]> (delete src s), if nx then RInt 1 else ROk)
  end.

(* the keys a command reads or writes; [None] = the whole keyspace (KEYS, DBSIZE, FLUSHDB, FLUSHALL) *)
Definition cmd_keys (c : cmd) : option (list (list N)) :=
  match c with
  | MGet ks | Del ks | ExistsC ks => Some ks
  | MSet kvs | MSetNx kvs => Some (map fst kvs)
  | Rename a b | RenameNx a b | RPopLPush a b | LMove a b _ _ => Some [a; b]
  | Keys | DbSize | FlushDb | FlushAll => None
  | _ => match key_fun Redis 0%N c with Some (k, _) => Some [k] | None => Some [] end
  end.

Definition exec_wf (dl : dialect) (s : state) (now : N) (c : cmd) : state * reply :=
  match key_fun dl now c with
  | Some (k, f) => on_key s k f
  | None =>
      match c with
      | MGet ks => (s, RArr (map (mget_one s) ks))
      | MSet kvs => (mset_all s kvs, ROk)
      | MSetNx kvs =>
          if existsb (λ p, is_some (s !! p.1)) kvs then (s, RInt 0)
          else (mset_all s kvs, RInt 1)
      | Del ks => let '(s', n) := del_all s ks in (s', RInt n)
      | ExistsC ks => (s, RInt (count_existing s ks))
      | Keys => (s, RArr (map (λ p, RB p.1) (map_to_list s)))
      | DbSize => (s, RInt (zlen (map_to_list s)))
      | FlushDb | FlushAll => (∅, ROk)
      | Rename a b => c_rename s a b false
      | RenameNx a b => c_rename s a b true
      | RPopLPush a b => c_lmove s a b false true
      | LMove a b fl tl => c_lmove s a b fl tl
      | _ => (s, RErr EOther)
      end
  end.

(* one command at clock reading [now] *)
Definition exec (dl : dialect) (s : state) (now : N) (c : cmd) : state * reply :=
  match cmd_reject dl c with
  | Some e => (s, RErr e)
  | None => exec_wf dl s now c
  end.

(* the class of (state, command) pairs on which the implementation as built is known to deviate
   from Redis: GETSET of a string that has a TTL; GETRANGE of a non-empty string with two
   negative indices in the wrong order *)
Definition known_dev (s : state) (c : cmd) : bool :=
  match c with
  | GetSet k _ => match s !! k with Some (VStr _, Some _) => true | _ => false end
  | GetRange k a b =>
      match s !! k with
      | Some (VStr (_ :: _), _) => (a <? 0) && (b <? 0) && (a >? b)
      | _ => false
      end
  (* flag sets only the parsers refuse (not reachable from a client): SET NX XX,
     EXPIRE/PEXPIRE with NX and XX/GT/LT or with GT and LT *)
  | SetC _ _ _ nx xx _ => nx && xx
  | Expire _ _ nx xx gt lt | PExpire _ _ nx xx gt lt => (nx && (xx || gt || lt)) || (gt && lt)
  | _ => false
  end.

(* ------------------------------------------------------------------ runs *)

Inductive op :=
| OTick (t : N)          (* the clock is set to t (CommandExecutor::set_time) *)
| OCmd (c : cmd).

Definition step (dl : dialect) (st : state * N) (o : op) : state * N :=
  match o with
  | OTick t => (advance st.1 t, t)
  | OCmd c => ((exec dl st.1 st.2 c).1, st.2)
  end.

Definition run_from (dl : dialect) (st : state * N) (ops : list op) : state * N := fold_left (step dl) ops st.
Definition run (dl : dialect) (ops : list op) : state * N := run_from dl (∅, 0%N) ops.

(* every reachable state satisfies this *)
Definition entry_ok (now : N) (e : value * option N) : Prop :=
  value_nonempty e.1 = true ∧ match e.2 with Some d => (now < d)%N | None => True end.
Definition Inv (st : state * N) : Prop :=
  ∀ k e, st.1 !! k = Some e → entry_ok st.2 e.

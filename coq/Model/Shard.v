(* C03 - model of production/sharded_actor.rs: the two routing functions and the dispatcher
   [ShardedActorState::execute] with the fast / pooled / batch entry points, generic in the
   per-shard executor.  Definitions only; proofs are in Proofs/ShardProofs.v. *)
From stdpp Require Import gmap sorting.
From Coq Require Import NArith ZArith String.
From RV Require Import Lib.Hex Lib.SipHash Gen.KeyTable.
Local Open Scope N_scope.

Notation key := (list N) (only parsing).

(* ---------------------------------------------------------------- routing
   hash_key_bytes(&[u8]): DefaultHasher, key.hash()  - <[u8]>::hash feeds le64(len) ++ bytes -
   then (finish() as usize) % num_shards.
   hash_key(&str) = hash_key_bytes(key.as_bytes())   (since /repo 36d66e2; before that it fed
   str::hash = bytes ++ [0xFF], see routes_disagreed_before_fix in Proofs/ShardProofs.v). *)
Definition route_bytes (k : key) (n : N) : N := hash_slice k mod n.
Definition route_str (k : key) (n : N) : N := route_bytes k n.
Definition route_str_before_fix (k : key) (n : N) : N := hash_str k mod n.

Definition home_bytes (n : nat) (k : key) : nat := N.to_nat (route_bytes k (N.of_nat n)).
Definition home_str (n : nat) (k : key) : nat := N.to_nat (route_str k (N.of_nat n)).

(* ---------------------------------------------------------------- replies and commands *)
Inductive reply :=
| RSimple (s : bytes) | RErr (s : bytes) | RInt (z : Z) | RBulk (o : option bytes)
| RArr (o : option (list reply))
| RPanic.                               (* index out of bounds in self.shards[..] *)

Definition ROK : reply := RSimple [79; 75].
Definition RPONG : reply := RSimple [80; 79; 78; 71].
Definition arr_items (r : reply) : list reply := match r with RArr (Some l) => l | _ => [] end.
Definition int_of (r : reply) : Z := match r with RInt z => z | _ => 0%Z end.
Definition bulk_key (r : reply) : option key := match r with RBulk (Some k) => Some k | _ => None end.
Definition kbulk (k : key) : reply := RBulk (Some k).
Definition sum_ints (l : list reply) : Z := foldr (fun r z => (int_of r + z)%Z) 0%Z l.

(* [Command], as far as the dispatcher looks into it.  The variants with an arm of their own in
   ShardedActorState::execute are constructors; every other variant is [COp variant-name
   get_keys() other-arguments].  BatchGet / BatchSet are the internal per-shard commands.
   Info (prints num_shards by design) and Time (wall clock) are not modelled. *)
Inductive cmd (P : Type) : Type :=
| CPing (m : option bytes)
| CFlush (all : bool)
| CKeys (pat : bytes)
| CMGet (ks : list key)
| CMSet (kvs : list (key * bytes))
| CDbSize
| CScan (cursor : N) (pat : option bytes) (count : option N)
| CDel (ks : list key)
| CExists (ks : list key)
| CBatchGet (ks : list key)
| CBatchSet (kvs : list (key * bytes))
| COp (tag : string) (ks : list key) (p : P).
Arguments CPing {P}. Arguments CFlush {P}. Arguments CKeys {P}. Arguments CMGet {P}.
Arguments CMSet {P}. Arguments CDbSize {P}. Arguments CScan {P}. Arguments CDel {P}.
Arguments CExists {P}. Arguments CBatchGet {P}. Arguments CBatchSet {P}. Arguments COp {P}.

(* the entry points of ShardedActorState; [pooled] distinguishes fast_get from pooled_fast_get
   (same routing, same shard-side handler) *)
Inductive req (P : Type) : Type :=
| Generic (c : cmd P)
| FastGet (pooled : bool) (k : key)
| FastSet (pooled : bool) (k : key) (v : bytes)
| PipeGet (ks : list key)
| PipeSet (kvs : list (key * bytes)).
Arguments Generic {P}. Arguments FastGet {P}. Arguments FastSet {P}. Arguments PipeGet {P}.
Arguments PipeSet {P}.

Local Open Scope string_scope.
Definition tag_of {P} (c : cmd P) : string :=
  match c with
  | CPing _ => "Ping" | CFlush false => "FlushDb" | CFlush true => "FlushAll" | CKeys _ => "Keys"
  | CMGet _ => "MGet" | CMSet _ => "MSet" | CDbSize => "DbSize" | CScan _ _ _ => "Scan"
  | CDel _ => "Del" | CExists _ => "Exists" | CBatchGet _ => "BatchGet" | CBatchSet _ => "BatchSet"
  | COp tag _ _ => tag
  end.

Local Close Scope string_scope.

(* Command::get_keys *)
Definition cmd_keys {P} (c : cmd P) : list key :=
  match c with
  | CKeys p => [p]
  | CMGet ks | CDel ks | CExists ks | CBatchGet ks => ks
  | CMSet kvs | CBatchSet kvs => kvs.*1
  | COp _ ks _ => ks
  | _ => []
  end.

(* Command::get_primary_key, read off the table generated from command.rs: every variant that has
   a primary key returns the first key get_keys lists (checked by key_table_sound) *)
Fixpoint assoc {A} (t : string) (l : list (string * A)) : option A :=
  match l with [] => None | (x, a) :: r => if String.eqb t x then Some a else assoc t r end.
Definition table_row (tag : string) : option (kprimary * list kfield) := assoc tag key_table.
Definition primary_key {P} (c : cmd P) : option key :=
  match table_row (tag_of c) with
  | Some (PNone, _) | None => None
  | Some (_, _) => hd_error (cmd_keys c)
  end.

Local Open Scope string_scope.
(* ---------------------------------------------------------------- the key table and the model
   The classification SingleHome relies on, written out by hand: variants that may name two or
   more keys and have no fan-out arm ... *)
Definition multi_key_tags : list string :=
  ["MSetNx"; "BatchSet"; "BatchGet"; "Sort"; "RPopLPush"; "LMove"; "Watch"; "Eval"; "EvalSha";
   "Rename"; "RenameNx"].
(* ... and the arms the dispatcher model has (local answers and fan-outs) *)
Definition model_arms : list string :=
  ["Ping"; "Info"; "FlushDb"; "FlushAll"; "Keys"; "MGet"; "MSet"; "Time"; "DbSize"; "Scan"; "Del"; "Exists"].
Definition in_tags (t : string) (l : list string) : bool := existsb (String.eqb t) l.
Definition tag_single_home (t : string) : bool := negb (in_tags t multi_key_tags).

Definition at_most_one_key (spec : list kfield) : bool :=
  match spec with [] => true | [KOne _] => true | _ => false end.
Definition field_of (f : kfield) : string :=
  match f with KOne x | KOpt x | KAll x | KPairs x => x end.
(* get_primary_key returns the first key get_keys lists *)
Definition head_consistent (p : kprimary) (spec : list kfield) : bool :=
  match p, spec with
  | PNone, _ => true
  | PField f, KOne g :: _ => String.eqb f g
  | PFirst f, [KAll g] => String.eqb f g
  | PFirstPair f, [KPairs g] => String.eqb f g
  | _, _ => false
  end.
(* number of keys a command of this shape can list *)
Definition conforms (spec : list kfield) (nkeys : nat) : bool :=
  match spec with
  | [] => Nat.eqb nkeys 0
  | [KOne _] => Nat.eqb nkeys 1
  | [KOne _; KOne _] => Nat.eqb nkeys 2
  | [KOne _; KOpt _] => Nat.eqb nkeys 1 || Nat.eqb nkeys 2
  | _ => true
  end.
Definition row_ok (row : string * (kprimary * list kfield)) : bool :=
  let '(t, (p, spec)) := row in
  Bool.eqb (tag_single_home t) (at_most_one_key spec || in_tags t dispatch_arms)
  && (in_tags t dispatch_arms || head_consistent p spec)
  && (in_tags t dispatch_arms || negb (match p with PNone => true | _ => false end) || match spec with [] => true | _ => false end).

(* a default-routed command is well formed when its variant is a row of the table without an arm
   of its own and it lists as many keys as that row allows *)
Definition WfCmd {P} (c : cmd P) : Prop :=
  match c with
  | COp tag ks _ => in_tags tag dispatch_arms = false /\
                    exists p spec, table_row tag = Some (p, spec) /\ conforms spec (List.length ks) = true
  | _ => True
  end.
Local Close Scope string_scope.

(* ---------------------------------------------------------------- the per-shard executor
   A shard's state is its keyspace: whatever the executor stores under a key (value, expiry).
   [exec] is CommandExecutor::execute, [get_direct] / [set_direct] the fast-path handlers. *)
Record executor (V P : Type) := {
  exec : gmap key V -> cmd P -> gmap key V * reply;
  get_direct : gmap key V -> key -> reply;
  set_direct : gmap key V -> key -> bytes -> gmap key V * reply;
  respects : cmd P -> Prop;          (* commands that read and write only the keys get_keys lists *)
  kmatch : bytes -> key -> bool;     (* glob matching of KEYS *)
  bget : option V -> reply;          (* BatchGet's answer for one key *)
  bset : option V -> bytes -> V;     (* what BatchSet stores (it keeps the old expiry) *)
  fget : option V -> reply;          (* get_direct's answer *)
  fset : bytes -> V                  (* what set_direct stores (it clears the expiry) *)
}.
Arguments exec {V P}. Arguments get_direct {V P}. Arguments set_direct {V P}.
Arguments respects {V P}. Arguments kmatch {V P}. Arguments bget {V P}. Arguments bset {V P}.
Arguments fget {V P}. Arguments fset {V P}.

(* execute_del: for key in keys { if data.remove(key).is_some() { count += 1 } } *)
Fixpoint del_run {V} (s : gmap key V) (ks : list key) : gmap key V * Z :=
  match ks with
  | [] => (s, 0%Z)
  | k :: r => let '(s', z) := del_run (delete k s) r in
              (s', ((if bool_decide (is_Some (s !! k)) then 1 else 0) + z)%Z)
  end.
Definition count_present {V} (s : gmap key V) (ks : list key) : Z :=
  Z.of_nat (List.length (filter (fun k => is_Some (s !! k)) ks)).
Definition batch_set {V P} (X : executor V P) (s : gmap key V) (kvs : list (key * bytes)) : gmap key V :=
  foldl (fun s kv => <[kv.1 := bset X (s !! kv.1) kv.2]> s) s kvs.
Definition map_keys {V} (s : gmap key V) : list key := (map_to_list s).*1.

(* what the proofs need to know about an executor *)
Record exec_ok {V P} (X : executor V P) : Prop := {
  key_local : forall c, respects X c -> forall s1 s2,
    (forall k, k ∈ cmd_keys c -> s1 !! k = s2 !! k) ->
    (exec X s1 c).2 = (exec X s2 c).2 /\
    (forall k, k ∈ cmd_keys c -> (exec X s1 c).1 !! k = (exec X s2 c).1 !! k);
  key_frame : forall c, respects X c -> forall s k, k ∉ cmd_keys c -> (exec X s c).1 !! k = s !! k;
  flush_spec : forall s, (exec X s (CFlush false)).1 = ∅;
  dbsize_spec : forall s, exec X s CDbSize = (s, RInt (Z.of_nat (size s)));
  keys_spec : forall s p, exists l, exec X s (CKeys p) = (s, RArr (Some (kbulk <$> l))) /\
                                    l ≡ₚ filter (fun k => kmatch X p k = true) (map_keys s);
  exists_spec : forall s ks, exec X s (CExists ks) = (s, RInt (count_present s ks));
  del_spec : forall s ks, exec X s (CDel ks) = ((del_run s ks).1, RInt (del_run s ks).2);
  batchget_spec : forall s ks, exec X s (CBatchGet ks) = (s, RArr (Some ((fun k => bget X (s !! k)) <$> ks)));
  batchset_spec : forall s kvs, (exec X s (CBatchSet kvs)).1 = batch_set X s kvs;
  get_direct_spec : forall s k, get_direct X s k = fget X (s !! k);
  set_direct_spec : forall s k v, set_direct X s k v = (<[k := fset X v]> s, ROK)
}.

(* ---------------------------------------------------------------- SCAN paging (dispatcher level) *)
Fixpoint bytes_leb (a b : bytes) : bool :=
  match a, b with
  | [], _ => true
  | _ :: _, [] => false
  | x :: a', y :: b' => if x <? y then true else if x =? y then bytes_leb a' b' else false
  end.
Definition bytes_le (a b : bytes) : Prop := bytes_leb a b = true.
Global Instance bytes_le_dec a b : Decision (bytes_le a b).
Proof. unfold bytes_le. apply _. Defined.

Fixpoint dec_digits (fuel : nat) (x : N) (acc : bytes) : bytes :=
  match fuel with
  | O => acc
  | S f => let acc' := (48 + x mod 10) :: acc in
           if x / 10 =? 0 then acc' else dec_digits f (x / 10) acc'
  end.
Definition dec_bytes (x : N) : bytes := dec_digits 20 x [].     (* u64::to_string *)

(* all_keys.sort(); start = min(cursor, len); end = min(start + count, len);
   next = if end < len { end } else { 0 } *)
Definition scan_page (ks : list key) (cursor : N) (count : option N) : reply :=
  let sorted := merge_sort bytes_le ks in
  let len := N.of_nat (List.length sorted) in
  let start := N.min cursor len in
  let stop := N.min (start + default 10 count) len in
  let next := if stop <? len then stop else 0 in
  RArr (Some [RBulk (Some (dec_bytes next));
              RArr (Some (kbulk <$> take (N.to_nat (stop - start)) (drop (N.to_nat start) sorted)))]).

(* ---------------------------------------------------------------- the dispatcher *)
Section Dispatcher.
  Context {V P : Type}.
  Variable X : executor V P.
  (* hash_key(_, n) and hash_key_bytes(_, n) *)
  Variable home_s home_b : nat -> key -> nat.
  Notation st := (gmap key V).

  (* self.shards[i].execute(..): the shard's state changes, the reply comes back *)
  Definition at_shard (sh : list st) (i : nat) (f : st -> st * reply) : list st * reply :=
    match sh !! i with
    | Some s => let '(s', r) := f s in (<[i := s']> sh, r)
    | None => (sh, RPanic)
    end.

  (* the grouping loops: (original index, item) pairs of the items routed to shard i, in order *)
  Definition batch_of {A} (rt : A -> nat) (i : nat) (items : list A) : list (nat * A) :=
    filter (fun p => rt p.2 = i) (imap pair items).

  (* one message per shard with a non-empty batch; the shards work independently of each other, so
     the order in which the HashMap of batches is walked does not exist in the model *)
  Definition run_batches {A} (rt : A -> nat) (run : st -> list A -> st * list reply) (items : list A)
      (sh : list st) : list st * list (list nat * list reply) :=
    let res := imap (fun i s =>
                 let b := batch_of rt i items in
                 match b with
                 | [] => (s, None)
                 | _ => let '(s', rs) := run s (b.*2) in (s', Some (b.*1, rs))
                 end) sh in
    (res.*1, omap snd res).

  (* results[idx] = value for (idx, value) in indices.zip(shard_results) *)
  Definition write_back (init : reply) (len : nat) (outs : list (list nat * list reply)) : list reply :=
    foldl (fun res o => foldl (fun res iv => <[iv.1 := iv.2]> res) res (zip o.1 o.2))
          (replicate len init) outs.

  Definition run_direct_set (s : st) (b : list (key * bytes)) : st * list reply :=
    foldl (fun acc kv => let '(s', r) := set_direct X acc.1 kv.1 kv.2 in (s', acc.2 ++ [r])) (s, []) b.

  Definition exec_default (sh : list st) (c : cmd P) : list st * reply :=
    match primary_key c with
    | Some k => at_shard sh (home_s (List.length sh) k) (fun s => exec X s c)
    | None => at_shard sh 0 (fun s => exec X s c)
    end.

  (* ShardedActorState::execute, arm by arm *)
  Definition exec_generic (sh : list st) (c : cmd P) : list st * reply :=
    let n := List.length sh in
    match c with
    | CPing None => (sh, RPONG)
    | CPing (Some m) => (sh, RBulk (Some m))
    | CFlush _ => ((fun s => (exec X s (CFlush false)).1) <$> sh, ROK)
    | CKeys p =>
        let rs := (fun s => exec X s (CKeys p)) <$> sh in
        (rs.*1, RArr (Some (List.concat ((fun r => arr_items r.2) <$> rs))))
    | CMGet ks =>
        let '(sh', outs) := run_batches (home_s n)
            (fun s b => let '(s', r) := exec X s (CBatchGet b) in (s', arr_items r)) ks sh in
        (sh', RArr (Some (write_back (RBulk None) (List.length ks) outs)))
    | CMSet kvs =>
        let '(sh', _) := run_batches (fun kv => home_s n kv.1)
            (fun s b => ((exec X s (CBatchSet b)).1, [])) kvs sh in
        (sh', ROK)
    | CDbSize =>
        let rs := (fun s => exec X s CDbSize) <$> sh in
        (rs.*1, RInt (sum_ints rs.*2))
    | CScan cursor pat count =>
        let rs := (fun s => exec X s (CKeys (default [42] pat))) <$> sh in
        (rs.*1, scan_page (omap bulk_key (List.concat ((fun r => arr_items r.2) <$> rs))) cursor count)
    | CDel ks =>
        if (1 <? List.length ks)%nat then
          let '(sh', outs) := run_batches (home_s n)
              (fun s b => let '(s', r) := exec X s (CDel b) in (s', [r])) ks sh in
          (sh', RInt (sum_ints (List.concat outs.*2)))
        else exec_default sh c
    | CExists ks =>
        let '(sh', z) := foldl (fun acc k =>
            let '(sh', r) := at_shard acc.1 (home_s n k) (fun s => exec X s (CExists [k])) in
            (sh', (acc.2 + int_of r)%Z)) (sh, 0%Z) ks in
        (sh', RInt z)
    | _ => exec_default sh c
    end.

  Definition execN (sh : list st) (r : req P) : list st * reply :=
    let n := List.length sh in
    match r with
    | Generic c => exec_generic sh c
    | FastGet _ k =>
        (sh, match sh !! home_b n k with Some s => get_direct X s k | None => RPanic end)
    | FastSet _ k v => at_shard sh (home_b n k) (fun s => set_direct X s k v)
    | PipeGet ks =>
        let '(sh', outs) := run_batches (home_b n) (fun s b => (s, get_direct X s <$> b)) ks sh in
        (sh', RArr (Some (write_back (RBulk None) (List.length ks) outs)))
    | PipeSet kvs =>
        let '(sh', outs) := run_batches (fun kv => home_b n kv.1) run_direct_set kvs sh in
        (sh', RArr (Some (write_back ROK (List.length kvs) outs)))
    end.

  Fixpoint runN (sh : list st) (rs : list (req P)) : list st * list reply :=
    match rs with
    | [] => (sh, [])
    | r :: rs' => let '(sh1, a) := execN sh r in let '(sh2, l) := runN sh1 rs' in (sh2, a :: l)
    end.

  (* ---------------------------------------------------------------- the one-store reference:
     what a server that keeps everything in one keyspace answers *)
  Definition ref_generic (s : st) (c : cmd P) : st * reply :=
    match c with
    | CPing None => (s, RPONG)
    | CPing (Some m) => (s, RBulk (Some m))
    | CFlush _ => (∅, ROK)
    | CKeys p => exec X s (CKeys p)
    | CMGet ks => (s, RArr (Some ((fun k => bget X (s !! k)) <$> ks)))
    | CMSet kvs => (batch_set X s kvs, ROK)
    | CDbSize => (s, RInt (Z.of_nat (size s)))
    | CScan cursor pat count =>
        let '(s', r) := exec X s (CKeys (default [42] pat)) in
        (s', scan_page (omap bulk_key (arr_items r)) cursor count)
    | CDel ks => ((del_run s ks).1, RInt (del_run s ks).2)
    | CExists ks => (s, RInt (count_present s ks))
    | _ => exec X s c
    end.
  Definition ref1 (s : st) (r : req P) : st * reply :=
    match r with
    | Generic c => ref_generic s c
    | FastGet _ k => (s, fget X (s !! k))
    | FastSet _ k v => (<[k := fset X v]> s, ROK)
    | PipeGet ks => (s, RArr (Some ((fun k => fget X (s !! k)) <$> ks)))
    | PipeSet kvs => (foldl (fun s kv => <[kv.1 := fset X kv.2]> s) s kvs, RArr (Some ((fun _ => ROK) <$> kvs)))
    end.

  (* ---------------------------------------------------------------- abstraction and invariant *)
  Definition abs (sh : list st) : st := ⋃ sh.
  Definition Homed (sh : list st) : Prop :=
    forall i s k, sh !! i = Some s -> is_Some (s !! k) -> home_s (List.length sh) k = i.

  (* ---------------------------------------------------------------- classification *)
  (* keys whose co-location the default arm silently assumes *)
  Definition routed_keys (c : cmd P) : list key :=
    match c with
    | COp _ ks _ | CBatchGet ks => ks
    | CBatchSet kvs => kvs.*1
    | _ => []
    end.
  Definition default_routed (c : cmd P) : Prop :=
    match c with COp _ _ _ | CBatchGet _ | CBatchSet _ => True | _ => False end.
  (* the known-finding class: the command names two or more keys routed to different shards, or
     is keyless / default-routed and does not confine itself to its listed keys (RANDOMKEY) *)
  Definition CrossShard (n : nat) (c : cmd P) : Prop :=
    exists k1 k2, k1 ∈ routed_keys c /\ k2 ∈ routed_keys c /\ home_s n k1 <> home_s n k2.
  Definition KnownClass (n : nat) (r : req P) : Prop :=
    match r with
    | Generic c => CrossShard n c \/ (default_routed c /\ ~ respects X c)
    | _ => False
    end.
  Definition SingleHome (n : nat) (r : req P) : Prop :=
    match r with
    | Generic c => WfCmd c /\ ~ CrossShard n c /\ (default_routed c -> respects X c)
    | _ => True
    end.

  (* replies are compared exactly, except KEYS: its order is the HashMap iteration order *)
  Definition reply_equiv (r : req P) (a b : reply) : Prop :=
    match r with
    | Generic (CKeys _) => exists la lb, a = RArr (Some la) /\ b = RArr (Some lb) /\ la ≡ₚ lb
    | _ => a = b
    end.

  Fixpoint replies_equiv (rs : list (req P)) (a b : list reply) : Prop :=
    match rs, a, b with
    | [], [], [] => True
    | r :: rs', x :: a', y :: b' => reply_equiv r x y /\ replies_equiv rs' a' b'
    | _, _, _ => False
    end.
End Dispatcher.


(* C16: the command grammar as the code accepts it (one reference for the three Rust copies:
   redis/parser.rs Command::from_resp, redis/commands.rs Command::from_resp_zero_copy, and the
   redis.call translator of redis/executor/script_ops.rs).  Definitions only.

   A request is a RESP array; its elements are bulk strings, integers or anything else.
   A parsed command is a tag (the name of the Rust enum variant) and the list of its fields
   in declaration order.  Text is bytes (list N); a Rust String is its UTF-8 bytes. *)
From Coq Require Import NArith ZArith List String Ascii Bool.
From RV Require Import Lib.Hex.
Import ListNotations.
Local Open Scope string_scope.
Local Open Scope list_scope.
Local Open Scope bool_scope.
Local Open Scope N_scope.

(* ------------------------------------------------------------------ text *)
Definition tx (s : string) : bytes := map N_of_ascii (list_ascii_of_string s).

(* String::from_utf8_lossy: every maximal invalid prefix of a sequence becomes U+FFFD *)
Definition FFFD : bytes := [239; 191; 189].
Definition cont (c : N) : bool := (128 <=? c) && (c <=? 191).
Definition second_ok (x c : N) : bool :=
  if x =? 224 then (160 <=? c) && (c <=? 191)
  else if x =? 237 then (128 <=? c) && (c <=? 159)
  else if x =? 240 then (144 <=? c) && (c <=? 191)
  else if x =? 244 then (128 <=? c) && (c <=? 143)
  else cont c.
Definition width (x : N) : nat :=
  if x <? 128 then 1 else if x <? 194 then 0 else if x <? 224 then 2
  else if x <? 240 then 3 else if x <? 245 then 4 else 0.

Fixpoint lossy (b : bytes) : bytes :=
  match b with
  | [] => []
  | x :: r =>
    match width x with
    | 1%nat => x :: lossy r
    | 2%nat =>
        match r with
        | c1 :: r1 => if cont c1 then x :: c1 :: lossy r1 else FFFD ++ lossy r
        | [] => FFFD
        end
    | 3%nat =>
        match r with
        | c1 :: r1 =>
            if second_ok x c1 then
              match r1 with
              | c2 :: r2 => if cont c2 then x :: c1 :: c2 :: lossy r2 else FFFD ++ lossy r1
              | [] => FFFD
              end
            else FFFD ++ lossy r
        | [] => FFFD
        end
    | 4%nat =>
        match r with
        | c1 :: r1 =>
            if second_ok x c1 then
              match r1 with
              | c2 :: r2 =>
                  if cont c2 then
                    match r2 with
                    | c3 :: r3 => if cont c3 then x :: c1 :: c2 :: c3 :: lossy r3 else FFFD ++ lossy r2
                    | [] => FFFD
                    end
                  else FFFD ++ lossy r1
              | [] => FFFD
              end
            else FFFD ++ lossy r
        | [] => FFFD
        end
    | _ => FFFD ++ lossy r
    end
  end.

(* str::to_uppercase on the UTF-8 bytes, for strings whose cased characters are ASCII letters
   or one of the ten characters whose upper case is pure ASCII (sharp s, dotless i, long s,
   the ligatures U+FB00..U+FB06).  Other cased non-ASCII characters are outside the model. *)
Definition up1 (c : N) : N := if (97 <=? c) && (c <=? 122) then c - 32 else c.
Definition low1 (c : N) : N := if (65 <=? c) && (c <=? 90) then c + 32 else c.
Definition lig (c : N) : option bytes :=
  if c =? 128 then Some [70; 70] else if c =? 129 then Some [70; 73]
  else if c =? 130 then Some [70; 76] else if c =? 131 then Some [70; 70; 73]
  else if c =? 132 then Some [70; 70; 76] else if c =? 133 then Some [83; 84]
  else if c =? 134 then Some [83; 84] else None.

Fixpoint upper (b : bytes) : bytes :=
  match b with
  | [] => []
  | x :: r =>
    match r with
    | y :: r1 =>
        if (x =? 195) && (y =? 159) then 83 :: 83 :: upper r1
        else if (x =? 196) && (y =? 177) then 73 :: upper r1
        else if (x =? 197) && (y =? 191) then 83 :: upper r1
        else if (x =? 239) && (y =? 172) then
          match r1 with
          | c :: r2 => match lig c with Some w => w ++ upper r2 | None => up1 x :: upper r end
          | [] => up1 x :: upper r
          end
        else up1 x :: upper r
    | [] => [up1 x]
    end
  end.
Definition lower (b : bytes) : bytes := map low1 b.
Definition ustr (b : bytes) : bytes := upper (lossy b).

(* ------------------------------------------------------------------ numbers *)
Definition digit (c : N) : option Z :=
  if (48 <=? c) && (c <=? 57) then Some (Z.of_N (c - 48)) else None.
Inductive ierr := IEmpty | IInvalid | IPosOv | INegOv.
Inductive ires := IOk (z : Z) | IErr (e : ierr).

(* core::num from_str: left to right; at each character first "is it a digit", then overflow *)
Fixpoint acc_pos (hi r : Z) (ds : bytes) : ires :=
  match ds with
  | [] => IOk r
  | c :: t =>
      match digit c with
      | None => IErr IInvalid
      | Some d => let r' := (10 * r + d)%Z in if (r' >? hi)%Z then IErr IPosOv else acc_pos hi r' t
      end
  end.
Fixpoint acc_neg (lo r : Z) (ds : bytes) : ires :=
  match ds with
  | [] => IOk r
  | c :: t =>
      match digit c with
      | None => IErr IInvalid
      | Some d => let r' := (10 * r - d)%Z in if (r' <? lo)%Z then IErr INegOv else acc_neg lo r' t
      end
  end.
Definition parse_int (signed : bool) (lo hi : Z) (s : bytes) : ires :=
  match s with
  | [] => IErr IEmpty
  | c :: t =>
      match t with
      | [] => if (c =? 43) || (c =? 45) then IErr IInvalid else acc_pos hi 0 s
      | _ =>
          if c =? 43 then acc_pos hi 0 t
          else if (c =? 45) && signed then acc_neg lo 0 t
          else acc_pos hi 0 s
      end
  end.
Definition I64_MIN : Z := (- 2 ^ 63)%Z.
Definition I64_MAX : Z := (2 ^ 63 - 1)%Z.
Definition U64_MAX : Z := (2 ^ 64 - 1)%Z.
Definition U32_MAX : Z := (2 ^ 32 - 1)%Z.
Definition parse_i64 (s : bytes) : ires := parse_int true I64_MIN I64_MAX s.
Definition parse_u64 (s : bytes) : ires := parse_int false 0 U64_MAX s.
Definition parse_u32 (s : bytes) : ires := parse_int false 0 U32_MAX s.
(* ParseIntError's Display *)
Definition ierr_text (e : ierr) : bytes :=
  match e with
  | IEmpty => tx "cannot parse integer from empty string"
  | IInvalid => tx "invalid digit found in string"
  | IPosOv => tx "number too large to fit in target type"
  | INegOv => tx "number too small to fit in target type"
  end.

(* printing: decimal digits of a natural, most significant first *)
Fixpoint ndigits (fuel : nat) (n : N) (acc : bytes) : bytes :=
  match fuel with
  | O => acc
  | S f => let acc' := (48 + n mod 10) :: acc in
           if n / 10 =? 0 then acc' else ndigits f (n / 10) acc'
  end.
Definition ntoa (n : N) : bytes := ndigits (S (N.to_nat (N.size n))) n [].
Definition itoa (z : Z) : bytes :=
  match z with
  | Z0 => [48]
  | Zpos p => ntoa (Npos p)
  | Zneg p => 45 :: ntoa (Npos p)
  end.

(* f64 literals: the grammar of core::num::dec2flt and, for a literal of the grammar, whether
   the correctly rounded value is finite, infinite or NaN.  The value itself stays text. *)
Inductive fclass := FFin | FInf | FNan.
Fixpoint take_digits (s : bytes) : bytes * bytes :=
  match s with
  | c :: t => match digit c with
              | Some _ => let '(d, r) := take_digits t in (c :: d, r)
              | None => ([], s)
              end
  | [] => ([], [])
  end.
Fixpoint dval (r : Z) (ds : bytes) : Z :=
  match ds with
  | c :: t => match digit c with Some d => dval (10 * r + d)%Z t | None => r end
  | [] => r
  end.
Fixpoint strip0 (ds : bytes) : bytes :=
  match ds with c :: t => if c =? 48 then strip0 t else ds | [] => [] end.
Definition F64_INF_THRESHOLD : Z := (2 ^ 1024 - 2 ^ 970)%Z.
Definition dec_class (m_digits : bytes) (e10 : Z) : fclass :=
  let sig := strip0 m_digits in
  match sig with
  | [] => FFin
  | _ =>
      let m := dval 0 sig in
      let nd := Z.of_nat (List.length sig) in
      if (nd + e10 >? 310)%Z then FInf
      else if (nd + e10 <? 300)%Z then FFin
      else if (0 <=? e10)%Z then
        (if (F64_INF_THRESHOLD <=? m * 10 ^ e10)%Z then FInf else FFin)
      else (if (F64_INF_THRESHOLD * 10 ^ (- e10) <=? m)%Z then FInf else FFin)
  end.
Definition float_class (s : bytes) : option fclass :=
  match s with
  | [] => None
  | c :: t =>
      let body := if (c =? 43) || (c =? 45) then t else s in
      match body with
      | [] => None
      | _ =>
          let '(ip, r1) := take_digits body in
          let '(fp, r2) := match r1 with
                           | c0 :: r => if c0 =? 46 then take_digits r else ([], r1)
                           | [] => ([], r1)
                           end in
          let num :=
            match ip ++ fp with
            | [] => None
            | md =>
                let k := Z.of_nat (List.length fp) in
                match r2 with
                | [] => Some (dec_class md (- k))
                | e :: r3 =>
                    if (e =? 101) || (e =? 69) then
                      let '(neg, r4) := match r3 with
                                        | c1 :: r => if c1 =? 45 then (true, r)
                                                     else if c1 =? 43 then (false, r) else (false, r3)
                                        | [] => (false, r3)
                                        end in
                      let '(ed, r5) := take_digits r4 in
                      match ed, r5 with
                      | _ :: _, [] =>
                          let ev := dval 0 ed in
                          Some (dec_class md ((if neg then - ev else ev) - k))
                      | _, _ => None
                      end
                    else None
                end
            end in
          match num with
          | Some c => Some c
          | None =>
              let l := map low1 body in
              if bytes_eqb l (tx "nan") then Some FNan
              else if bytes_eqb l (tx "inf") || bytes_eqb l (tx "infinity") then Some FInf
              else None
          end
      end
  end.

(* ------------------------------------------------------------------ frames, values, commands *)
Inductive relem := EBulk (b : bytes) | EInt (z : Z) | EOther.

Inductive cval :=
| VS (s : bytes)          (* String *)
| VB (b : bytes)          (* SDS *)
| VI (z : Z)              (* any integer field *)
| VF (t : bytes)          (* f64, kept as the literal it was parsed from *)
| VFbits (z : Z)          (* f64 as printed by the harness (IEEE bits); never built by the model *)
| VFlag (f : bool)
| VOpt (o : option cval)
| VL (l : list cval)
| VP (a b : cval).
Inductive cmd := Cmd (tag : string) (args : list cval).
Inductive presult := POk (c : cmd) | PErr (t : bytes) | PPanic.

Inductive res (A : Type) := Ok (a : A) | Er (t : bytes) | Pn.
Arguments Ok {A} a. Arguments Er {A} t. Arguments Pn {A}.
Notation "'do' x <- e ; f" := (match e with Ok x => f | Er t => Er t | Pn => Pn end)
  (at level 200, x name, e at level 100, f at level 200, only parsing).
Definition to_presult (tag : string) (r : res (list cval)) : presult :=
  match r with Ok a => POk (Cmd tag a) | Er t => PErr t | Pn => PPanic end.

(* ------------------------------------------------------------------ argument kinds *)
Inductive kind :=
| KStr      (* extract_string *)
| KUpStr    (* extract_string, upper-cased *)
| KSds      (* extract_sds *)
| KInt      (* extract_integer / extract_i64 *)
| KUsz      (* extract_integer as usize *)
| KU64      (* extract_u64, ParseIntError text *)
| KU64bit   (* extract_u64 with the bit-offset text *)
| KBit      (* SETBIT value *)
| KOffset   (* SETRANGE offset *)
| KFloat    (* extract_float *)
| KFinite   (* INCRBYFLOAT increment *)
| KDb       (* SELECT index *)
| KUszStr   (* extract_string then parse::<usize> *)
| KU32Str.  (* extract_string then parse::<u32> (ACL GENPASS) *)

Definition E_BULK := tx "Expected bulk string".
Definition E_INT := tx "ERR value is not an integer or out of range".
Definition E_FLOAT := tx "ERR value is not a valid float".
Definition E_UNSIGNED := tx "Expected unsigned integer".
Definition E_BITOFF := tx "ERR bit offset is not an integer or out of range".
Definition E_BIT := tx "ERR bit is not an integer or out of range".
Definition E_SYNTAX := tx "ERR syntax error".
Definition TWO64 : Z := (2 ^ 64)%Z.

Definition ext_int (e : relem) : res Z :=
  match e with
  | EBulk b => match parse_i64 (lossy b) with IOk z => Ok z | IErr _ => Er E_INT end
  | EInt z => Ok z
  | EOther => Er E_INT
  end.
Definition ext_u64 (e : relem) : res Z :=
  match e with
  | EBulk b => match parse_u64 (lossy b) with IOk z => Ok z | IErr x => Er (ierr_text x) end
  | EInt z => Ok (z mod TWO64)%Z
  | EOther => Er E_UNSIGNED
  end.
Definition remap {A} (t : bytes) (r : res A) : res A :=
  match r with Ok a => Ok a | Er _ => Er t | Pn => Pn end.

Definition extract (k : kind) (e : relem) : res cval :=
  match k with
  | KStr => match e with EBulk b => Ok (VS (lossy b)) | _ => Er E_BULK end
  | KUpStr => match e with EBulk b => Ok (VS (ustr b)) | _ => Er E_BULK end
  | KSds => match e with EBulk b => Ok (VB b) | _ => Er E_BULK end
  | KInt => do z <- ext_int e; Ok (VI z)
  | KUsz => do z <- ext_int e; Ok (VI (z mod TWO64)%Z)
  | KU64 => do z <- ext_u64 e; Ok (VI z)
  | KU64bit => do z <- remap E_BITOFF (ext_u64 e); Ok (VI z)
  | KBit => do z <- remap E_BIT (ext_int e);
            if (z <? 0)%Z || (1 <? z)%Z then Er E_BIT else Ok (VI z)
  | KOffset => do z <- ext_int e;
               if (z <? 0)%Z then Er (tx "ERR offset is out of range") else Ok (VI z)
  | KFloat => match e with
              | EBulk b => match float_class (lossy b) with Some _ => Ok (VF b) | None => Er E_FLOAT end
              | _ => Er E_FLOAT
              end
  | KFinite => match e with
               | EBulk b => match float_class (lossy b) with
                            | Some FFin => Ok (VF b)
                            | Some _ => Er (tx "ERR increment would produce NaN or Infinity")
                            | None => Er E_FLOAT
                            end
               | _ => Er E_FLOAT
               end
  | KDb => do z <- ext_u64 e;
           if (15 <? z)%Z then Er (tx "ERR DB index is out of range") else Ok (VI z)
  | KUszStr => match e with
               | EBulk b => match parse_u64 (lossy b) with IOk z => Ok (VI z) | IErr _ => Er E_INT end
               | _ => Er E_BULK
               end
  | KU32Str => match e with
               | EBulk b => match parse_u32 (lossy b) with IOk z => Ok (VI z) | IErr _ => Er (tx "Invalid bits value") end
               | _ => Er E_BULK
               end
  end.

Fixpoint extract_list (k : kind) (es : list relem) : res (list cval) :=
  match es with
  | [] => Ok []
  | e :: t => do v <- extract k e; do vs <- extract_list k t; Ok (v :: vs)
  end.
Fixpoint extract_pairs (k1 k2 : kind) (es : list relem) : res (list cval) :=
  match es with
  | a :: b :: t => do x <- extract k1 a; do y <- extract k2 b;
                   do vs <- extract_pairs k1 k2 t; Ok (VP x y :: vs)
  | _ => Ok []
  end.

(* ------------------------------------------------------------------ rules *)
Inductive tailspec :=
| TNone                      (* exactly the positional arguments *)
| TAny                       (* no arity check at all: extra arguments are ignored *)
| TList0 (k : kind)          (* zero or more *)
| TList (k : kind)           (* one or more *)
| TPairs (k1 k2 : kind).     (* one or more pairs *)

Inductive rule :=
| RSimple (tag : string) (pre : list kind) (tl : tailspec) (aerr : bytes)
| RCustom (lo : nat) (hi : option nat) (aerr : bytes) (f : list relem -> presult).

Definition arity_ok (r : rule) (n : nat) : bool :=
  match r with
  | RSimple _ pre tl _ =>
      let p := List.length pre in
      match tl with
      | TNone => Nat.eqb n p
      | TAny => true
      | TList0 _ => Nat.leb p n
      | TList _ => Nat.leb (S p) n
      | TPairs _ _ => Nat.leb (S (S p)) n && Nat.even (n - p)
      end
  | RCustom lo hi _ _ =>
      Nat.leb lo n && match hi with Some h => Nat.leb n h | None => true end
  end.
Definition arity_text (r : rule) : bytes :=
  match r with RSimple _ _ _ e => e | RCustom _ _ e _ => e end.

Fixpoint extract_pre (pre : list kind) (es : list relem) : res (list cval * list relem) :=
  match pre with
  | [] => Ok ([], es)
  | k :: pre' =>
      match es with
      | e :: es' => do v <- extract k e; do r <- extract_pre pre' es'; Ok (v :: fst r, snd r)
      | [] => Ok ([], [])
      end
  end.
Definition run_rule (r : rule) (args : list relem) : presult :=
  if negb (arity_ok r (List.length args)) then PErr (arity_text r)
  else
    match r with
    | RSimple tag pre tl _ =>
        to_presult tag
          (do pr <- extract_pre pre args;
           match tl with
           | TNone | TAny => Ok (fst pr)
           | TList0 k | TList k => do vs <- extract_list k (snd pr); Ok (fst pr ++ [VL vs])
           | TPairs k1 k2 => do vs <- extract_pairs k1 k2 (snd pr); Ok (fst pr ++ [VL vs])
           end)
    | RCustom _ _ _ f => f args
    end.

Fixpoint lookup {A} (n : bytes) (t : list (bytes * A)) : option A :=
  match t with
  | [] => None
  | (m, a) :: t' => if bytes_eqb n m then Some a else lookup n t'
  end.

(* ------------------------------------------------------------------ option keywords *)
Inductive oact :=
| AFlag (slot : nat)
| AVal (slot : nat) (k : kind) (miss : option bytes)  (* None: the code indexes past the end *)
| ALimit (slot : nat) (miss : bytes)                  (* two values: offset, count *)
| AStore (slot : nat)                                 (* SORT: value if there is one *)
| AFail (pre : bytes) (post : bytes).                 (* error  pre ++ KEYWORD ++ post *)
Inductive ounk := UErr (pre : bytes) | UFixed (t : bytes) | USkip.

Definition setn (n : nat) (v : cval) (l : list cval) : list cval :=
  firstn n l ++ v :: skipn (S n) l.
Definition kw_of (e : relem) : res bytes :=
  match e with EBulk b => Ok (ustr b) | _ => Er E_BULK end.

(* one pass over the arguments after the positional ones: keywords in any order, any number
   of times (a flag is idempotent, a valued option keeps its last value) *)
Fixpoint oloop (tbl : list (bytes * oact)) (unk : ounk) (st : list cval) (args : list relem)
  : res (list cval) :=
  match args with
  | [] => Ok st
  | a :: rest =>
      do kw <- kw_of a;
      match lookup kw tbl with
      | Some (AFlag n) => oloop tbl unk (setn n (VFlag true) st) rest
      | Some (AVal n k miss) =>
          match rest with
          | [] => match miss with Some t => Er t | None => Pn end
          | v :: rest' => do x <- extract k v; oloop tbl unk (setn n (VOpt (Some x)) st) rest'
          end
      | Some (ALimit n miss) =>
          match rest with
          | o :: rest1 =>
              match rest1 with
              | c :: rest' =>
                  do off <- extract KInt o; do cnt <- extract KUsz c;
                  oloop tbl unk (setn n (VOpt (Some (VP off cnt))) st) rest'
              | [] => Er miss
              end
          | [] => Er miss
          end
      | Some (AStore n) =>
          match rest with
          | [] => Ok st
          | v :: rest' => do x <- extract KStr v; oloop tbl unk (setn n (VOpt (Some x)) st) rest'
          end
      | Some (AFail pre post) => Er (pre ++ kw ++ post)
      | None =>
          match unk with
          | UErr pre => Er (pre ++ kw)
          | UFixed t => Er t
          | USkip => oloop tbl unk st rest
          end
      end
  end.

Definition flag_at (n : nat) (st : list cval) : bool :=
  match nth n st (VFlag false) with VFlag b => b | _ => false end.
Definition some_at (n : nat) (st : list cval) : bool :=
  match nth n st (VOpt None) with VOpt (Some _) => true | _ => false end.
Definition none4 : list cval := [VOpt None; VOpt None; VOpt None; VOpt None].
Definition F := VFlag false.

Definition expiry_kw (missing : string -> option bytes) (base : nat) : list (bytes * oact) :=
  [ (tx "EX", AVal base KInt (missing "EX"));
    (tx "PX", AVal (base + 1) KInt (missing "PX"));
    (tx "EXAT", AVal (base + 2) KInt (missing "EXAT"));
    (tx "PXAT", AVal (base + 3) KInt (missing "PXAT")) ].

(* SET key value [NX|XX] [GET] [EX s|PX ms|EXAT t|PXAT t|KEEPTTL] *)
Definition set_kw : list (bytes * oact) :=
  [ (tx "NX", AFlag 6); (tx "XX", AFlag 7); (tx "GET", AFlag 8) ]
  ++ expiry_kw (fun o => Some (tx "SET " ++ tx o ++ tx " requires a value")) 2
  ++ [ (tx "KEEPTTL", AFlag 9);
       (tx "IFEQ", AFail (tx "SET ") (tx " option not yet supported"));
       (tx "IFGT", AFail (tx "SET ") (tx " option not yet supported")) ].
Definition p_set (args : list relem) : presult :=
  match args with
  | k :: v :: opts =>
      match
        (do key <- extract KStr k; do val <- extract KSds v;
         do st <- oloop set_kw (UFixed E_SYNTAX) ([key; val] ++ none4 ++ [F; F; F; F]) opts;
         if flag_at 6 st && flag_at 7 st
         then Er (tx "ERR XX and NX options at the same time are not compatible")
         else if flag_at 9 st && (some_at 2 st || some_at 3 st || some_at 4 st || some_at 5 st)
         then Er E_SYNTAX else Ok st)
      with Ok st => POk (Cmd "Set" st) | Er t => PErr t | Pn => PPanic end
  | _ => PPanic (* excluded by the arity window *)
  end.
Definition set_with (tag_slot : nat) (args : list relem) : presult :=
  match args with
  | [k; n; v] =>
      to_presult "Set"
        (do key <- extract KStr k; do z <- extract KInt n; do val <- extract KSds v;
         Ok (setn tag_slot (VOpt (Some z)) ([key; val] ++ none4 ++ [F; F; F; F])))
  | _ => PPanic
  end.

(* GETEX key [EX|PX|EXAT|PXAT n | PERSIST] *)
Definition getex_kw : list (bytes * oact) :=
  expiry_kw (fun o => Some (tx "GETEX " ++ tx o ++ tx " requires a value")) 1
  ++ [ (tx "PERSIST", AFlag 5) ].
Definition count_true (l : list bool) : nat := List.length (filter (fun b => b) l).
Definition p_getex (args : list relem) : presult :=
  match args with
  | k :: opts =>
      to_presult "GetEx"
        (do key <- extract KStr k;
         do st <- oloop getex_kw (UFixed E_SYNTAX) ([key] ++ none4 ++ [F]) opts;
         if Nat.ltb 1 (count_true [some_at 1 st; some_at 2 st; some_at 3 st; some_at 4 st; flag_at 5 st])
         then Er E_SYNTAX else Ok st)
  | _ => PPanic
  end.

(* EXPIRE / PEXPIRE key n [NX|XX|GT|LT] *)
Definition expire_kw : list (bytes * oact) :=
  [ (tx "NX", AFlag 2); (tx "XX", AFlag 3); (tx "GT", AFlag 4); (tx "LT", AFlag 5) ].
Definition p_expire (tag : string) (args : list relem) : presult :=
  match args with
  | k :: n :: opts =>
      to_presult tag
        (do key <- extract KStr k; do z <- extract KInt n;
         do st <- oloop expire_kw (UErr (tx "ERR Unsupported option ")) [key; z; F; F; F; F] opts;
         if flag_at 2 st && (flag_at 3 st || flag_at 4 st || flag_at 5 st)
         then Er (tx "ERR NX and XX, GT or LT options at the same time are not compatible")
         else if flag_at 4 st && flag_at 5 st
         then Er (tx "ERR GT and LT options at the same time are not compatible")
         else Ok st)
  | _ => PPanic
  end.

(* ZRANGEBYSCORE key min max [WITHSCORES] [LIMIT offset count] *)
Definition zrbs_kw : list (bytes * oact) :=
  [ (tx "WITHSCORES", AFlag 3); (tx "LIMIT", ALimit 4 (tx "LIMIT requires offset and count")) ].
Definition p_zrangebyscore (args : list relem) : presult :=
  match args with
  | k :: mn :: mx :: opts =>
      to_presult "ZRangeByScore"
        (do key <- extract KStr k; do a <- extract KStr mn; do b <- extract KStr mx;
         oloop zrbs_kw (UErr (tx "Unknown ZRANGEBYSCORE option: ")) [key; a; b; F; VOpt None] opts)
  | _ => PPanic
  end.

(* SCAN cursor / HSCAN key cursor / ZSCAN key cursor  [MATCH p] [COUNT n].
   [scan_missing] is what a keyword without value yields (before repo commit ac9d92c the
   code indexed past the frame: None = panic). *)
Definition scan_missing : option bytes := Some E_SYNTAX.
Definition scan_kw (base : nat) : list (bytes * oact) :=
  [ (tx "MATCH", AVal base KStr scan_missing); (tx "COUNT", AVal (base + 1) KUsz scan_missing) ].
Definition p_scan (args : list relem) : presult :=
  match args with
  | c :: opts =>
      to_presult "Scan"
        (do cur <- extract KU64 c;
         oloop (scan_kw 1) (UErr (tx "Unknown SCAN option: ")) [cur; VOpt None; VOpt None] opts)
  | _ => PPanic
  end.
Definition p_kscan (tag : string) (name : string) (args : list relem) : presult :=
  match args with
  | k :: c :: opts =>
      to_presult tag
        (do key <- extract KStr k; do cur <- extract KU64 c;
         oloop (scan_kw 2) (UErr (tx "Unknown " ++ tx name ++ tx " option: "))
               [key; cur; VOpt None; VOpt None] opts)
  | _ => PPanic
  end.

(* SORT key [... STORE dest ...]: everything but STORE is skipped *)
Definition p_sort (args : list relem) : presult :=
  match args with
  | k :: opts =>
      to_presult "Sort"
        (do key <- extract KStr k; oloop [(tx "STORE", AStore 1)] USkip [key; VOpt None] opts)
  | _ => PPanic
  end.

(* ZADD key [NX|XX|GT|LT|CH]* score member [score member]* *)
Definition zadd_flag (kw : bytes) : option nat :=
  if bytes_eqb kw (tx "NX") then Some 2%nat else if bytes_eqb kw (tx "XX") then Some 3%nat
  else if bytes_eqb kw (tx "GT") then Some 4%nat else if bytes_eqb kw (tx "LT") then Some 5%nat
  else if bytes_eqb kw (tx "CH") then Some 6%nat else None.
Fixpoint zadd_flags (st : list cval) (args : list relem) : res (list cval * list relem) :=
  match args with
  | [] => Ok (st, [])
  | a :: rest =>
      do kw <- kw_of a;
      match zadd_flag kw with
      | Some n => zadd_flags (setn n (VFlag true) st) rest
      | None => Ok (st, args)
      end
  end.
Definition p_zadd (args : list relem) : presult :=
  match args with
  | k :: rest =>
      to_presult "ZAdd"
        (do key <- extract KStr k;
         do fr <- zadd_flags [key; VL []; F; F; F; F; F] rest;
         let n := List.length (snd fr) in
         if negb (Nat.even n) || Nat.eqb n 0 then Er (tx "ZADD requires score-member pairs")
         else do ps <- extract_pairs KFloat KSds (snd fr); Ok (setn 1 (VL ps) (fst fr)))
  | _ => PPanic
  end.

(* ZRANGE / ZREVRANGE key start stop [WITHSCORES]: a fourth argument that is not WITHSCORES
   is accepted and ignored *)
Definition p_zrange (tag : string) (args : list relem) : presult :=
  match args with
  | k :: a :: b :: opt =>
      to_presult tag
        (do key <- extract KStr k; do x <- extract KInt a; do y <- extract KInt b;
         match opt with
         | [] => Ok [key; x; y; F]
         | w :: _ => do kw <- kw_of w; Ok [key; x; y; VFlag (bytes_eqb kw (tx "WITHSCORES"))]
         end)
  | _ => PPanic
  end.

Definition p_spop (args : list relem) : presult :=
  match args with
  | k :: opt =>
      to_presult "SPop"
        (do key <- extract KStr k;
         match opt with
         | [] => Ok [key; VOpt None]
         | c :: _ => do n <- extract KUszStr c; Ok [key; VOpt (Some n)]
         end)
  | _ => PPanic
  end.

Definition p_lmove (args : list relem) : presult :=
  match args with
  | [s; d; f; t] =>
      to_presult "LMove"
        (do src <- extract KStr s; do dst <- extract KStr d;
         do wf <- kw_of f; do wt <- kw_of t;
         if negb (bytes_eqb wf (tx "LEFT") || bytes_eqb wf (tx "RIGHT"))
         then Er (tx "LMOVE wherefrom must be LEFT or RIGHT")
         else if negb (bytes_eqb wt (tx "LEFT") || bytes_eqb wt (tx "RIGHT"))
         then Er (tx "LMOVE whereto must be LEFT or RIGHT")
         else Ok [src; dst; VS wf; VS wt])
  | _ => PPanic
  end.

Definition p_ping (args : list relem) : presult :=
  match args with
  | [] => POk (Cmd "Ping" [VOpt None])
  | m :: _ => to_presult "Ping" (do v <- extract KSds m; Ok [VOpt (Some v)])
  end.
Definition p_auth (args : list relem) : presult :=
  match args with
  | [p] => to_presult "Auth" (do pw <- extract KStr p; Ok [VOpt None; pw])
  | [u; p] => to_presult "Auth" (do un <- extract KStr u; do pw <- extract KStr p; Ok [VOpt (Some un); pw])
  | _ => PPanic
  end.

(* EVAL script numkeys key* arg*.  [eval_negative] is the outcome for numkeys z < 0 (before
   repo commit b9ac17d: z in -3..-1 panicked - 3 + (z as usize) overflows in a debug build and
   slices [3..2] in a release build - and z <= -4 answered "wrong number of keys"). *)
Definition eval_negative (name : string) (z : Z) (n_elems : nat) : res unit :=
  Er (tx "ERR Number of keys can't be negative").
Definition p_eval (tag name : string) (args : list relem) : presult :=
  match args with
  | s :: nk :: rest =>
      to_presult tag
        (do script <- extract KStr s; do z <- ext_int nk;
         do u <- (if (z <? 0)%Z then eval_negative name z (3 + List.length rest) else Ok tt);
         if (Z.of_nat (List.length rest) <? z)%Z then Er (tx name ++ tx " wrong number of keys")
         else
           let n := Z.to_nat z in
           do ks <- extract_list KStr (firstn n rest);
           do vs <- extract_list KSds (skipn n rest);
           Ok [script; VL ks; VL vs])
  | _ => PPanic
  end.

(* ------------------------------------------------------------------ containers *)
Definition sub_run (tbl : list (bytes * rule)) (unknown : bytes -> list relem -> presult)
           (args : list relem) : presult :=
  match args with
  | s :: rest =>
      match kw_of s with
      | Ok sub => match lookup sub tbl with
                  | Some r => run_rule r rest
                  | None => unknown sub rest
                  end
      | Er t => PErr t
      | Pn => PPanic
      end
  | [] => PPanic
  end.
Definition konst (tag : string) : rule := RSimple tag [] TAny [].
Definition unknown_cmd (t : bytes) : presult := POk (Cmd "Unknown" [VS t]).

Definition config_tbl : list (bytes * rule) :=
  [ (tx "GET", RSimple "ConfigGet" [KStr] TNone (tx "ERR wrong number of arguments for 'config|get' command"));
    (tx "SET", RSimple "ConfigSet" [KStr; KStr] TNone (tx "ERR wrong number of arguments for 'config|set' command"));
    (tx "RESETSTAT", konst "ConfigResetStat") ].
Definition config_unknown (sub : bytes) (_ : list relem) : presult :=
  PErr (tx "ERR unknown subcommand or wrong number of arguments for 'config|" ++ lower sub ++ tx "' command").

Definition p_acl_cat (args : list relem) : presult :=
  match args with
  | [] => POk (Cmd "AclCat" [VOpt None])
  | c :: _ => to_presult "AclCat" (do v <- extract KStr c; Ok [VOpt (Some v)])
  end.
Definition p_acl_genpass (args : list relem) : presult :=
  match args with
  | [] => POk (Cmd "AclGenPass" [VOpt None])
  | c :: _ => to_presult "AclGenPass" (do v <- extract KU32Str c; Ok [VOpt (Some v)])
  end.
Definition p_acl_log (args : list relem) : presult :=
  match args with
  | [] => POk (Cmd "AclLog" [VOpt None])
  | [a] =>
      match kw_of a with
      | Ok w => if bytes_eqb w (tx "RESET") then POk (Cmd "AclLogReset" [])
                else match parse_u64 w with
                     | IOk z => POk (Cmd "AclLog" [VOpt (Some (VI z))])
                     | IErr _ => PErr E_INT
                     end
      | Er t => PErr t
      | Pn => PPanic
      end
  | _ => PPanic
  end.
(* ACL HELP / LOAD / SAVE are accepted as stubs (parser.rs since repo commit b925271) *)
Definition stub (name : string) : rule :=
  RCustom 0 None [] (fun _ => POk (Cmd "Unknown" [VS (tx name)])).
Definition acl_stubs : list (bytes * rule) :=
  [ (tx "HELP", stub "ACL HELP"); (tx "LOAD", stub "ACL LOAD"); (tx "SAVE", stub "ACL SAVE") ].
Definition acl_tbl : list (bytes * rule) :=
  [ (tx "WHOAMI", konst "AclWhoami"); (tx "LIST", konst "AclList"); (tx "USERS", konst "AclUsers");
    (tx "GETUSER", RSimple "AclGetUser" [KStr] TNone (tx "ACL GETUSER requires 1 argument"));
    (tx "SETUSER", RSimple "AclSetUser" [KStr] (TList0 KStr) (tx "ACL SETUSER requires at least 1 argument"));
    (tx "DELUSER", RSimple "AclDelUser" [] (TList KStr) (tx "ACL DELUSER requires at least 1 argument"));
    (tx "CAT", RCustom 0 None [] p_acl_cat);
    (tx "GENPASS", RCustom 0 None [] p_acl_genpass);
    (tx "DRYRUN", RSimple "AclDryrun" [KStr; KUpStr] (TList0 KStr) (tx "ERR wrong number of arguments for 'acl|dryrun' command"));
    (tx "LOG", RCustom 0 (Some 1%nat) (tx "ERR wrong number of arguments for 'acl|log' command") p_acl_log) ]
  ++ acl_stubs.
Definition acl_unknown (sub : bytes) (_ : list relem) : presult :=
  PErr (tx "Unknown ACL subcommand '" ++ sub ++ tx "'").

Definition script_tbl : list (bytes * rule) :=
  [ (tx "LOAD", RSimple "ScriptLoad" [KStr] TNone (tx "SCRIPT LOAD requires 1 argument"));
    (tx "EXISTS", RSimple "ScriptExists" [] (TList KStr) (tx "SCRIPT EXISTS requires at least 1 argument"));
    (tx "FLUSH", konst "ScriptFlush") ].
Definition script_unknown (sub : bytes) (_ : list relem) : presult :=
  PErr (tx "Unknown SCRIPT subcommand '" ++ sub ++ tx "'").

Definition named_unknown (name : string) (sub : bytes) (_ : list relem) : presult :=
  unknown_cmd (tx name ++ tx " " ++ sub).
Definition function_tbl : list (bytes * rule) := [ (tx "FLUSH", konst "FunctionFlush") ].
Definition client_tbl : list (bytes * rule) :=
  [ (tx "SETNAME", RSimple "ClientSetName" [KStr] TNone (tx "ERR wrong number of arguments for 'client|setname' command"));
    (tx "GETNAME", konst "ClientGetName"); (tx "ID", konst "ClientId"); (tx "INFO", konst "ClientInfo") ].
Definition obj1 (tag sub : string) : rule :=
  RSimple tag [KStr] TNone (tx "ERR wrong number of arguments for 'object|" ++ tx sub ++ tx "' command").
Definition object_tbl : list (bytes * rule) :=
  [ (tx "HELP", konst "ObjectHelp"); (tx "ENCODING", obj1 "ObjectEncoding" "encoding");
    (tx "REFCOUNT", obj1 "ObjectRefCount" "refcount"); (tx "IDLETIME", obj1 "ObjectIdleTime" "idletime");
    (tx "FREQ", obj1 "ObjectFreq" "freq") ].
Definition debug_tbl : list (bytes * rule) :=
  [ (tx "SLEEP", RSimple "DebugSleep" [KFloat] TNone (tx "ERR wrong number of arguments for 'debug|sleep' command"));
    (tx "OBJECT", RSimple "DebugObject" [KStr] TNone (tx "ERR wrong number of arguments for 'debug|object' command")) ].
Definition debug_unknown (sub : bytes) (rest : list relem) : presult :=
  match rest with
  | [] => POk (Cmd "DebugSet" [VS sub; VS []])
  | v :: _ => to_presult "DebugSet" (do x <- extract KStr v; Ok [VS sub; x])
  end.
Definition p_command (args : list relem) : presult :=
  match args with
  | [] => POk (Cmd "CommandCommand" [])
  | s :: _ => match kw_of s with
              | Ok sub => if bytes_eqb sub (tx "COUNT") then POk (Cmd "CommandCount" [])
                          else POk (Cmd "CommandCommand" [])
              | Er t => PErr t
              | Pn => PPanic
              end
  end.
Definition container (name : string) (missing : bytes) (tbl : list (bytes * rule))
           (unknown : bytes -> list relem -> presult) : rule :=
  RCustom 1 None missing (sub_run tbl unknown).

(* ------------------------------------------------------------------ the table *)
Definition wrong_args (name : string) : bytes :=
  tx "ERR wrong number of arguments for '" ++ tx name ++ tx "' command".
Definition req (name : string) (n : string) : bytes := tx name ++ tx " requires " ++ tx n.
Definition key1 (tag name : string) : rule := RSimple tag [KStr] TNone (req name "1 argument").

Definition grammar : list (bytes * rule) :=
  [ (tx "PING", RCustom 0 None [] p_ping);
    (tx "INFO", konst "Info"); (tx "TIME", konst "Time"); (tx "DBSIZE", konst "DbSize");
    (tx "CONFIG", container "CONFIG" (wrong_args "config") config_tbl config_unknown);
    (tx "SELECT", RSimple "Select" [KDb] TNone (wrong_args "select"));
    (tx "ECHO", RSimple "Echo" [KSds] TNone (wrong_args "echo"));
    (tx "AUTH", RCustom 1 (Some 2%nat) (tx "AUTH requires 1 or 2 arguments") p_auth);
    (tx "ACL", container "ACL" (tx "ACL requires a subcommand") acl_tbl acl_unknown);
    (tx "FLUSHDB", konst "FlushDb"); (tx "FLUSHALL", konst "FlushAll");
    (tx "MULTI", konst "Multi"); (tx "EXEC", konst "Exec"); (tx "DISCARD", konst "Discard");
    (tx "WATCH", RSimple "Watch" [] (TList KStr) (req "WATCH" "at least 1 argument"));
    (tx "UNWATCH", konst "Unwatch");
    (tx "EVAL", RCustom 2 None (req "EVAL" "at least 2 arguments") (p_eval "Eval" "EVAL"));
    (tx "EVALSHA", RCustom 2 None (req "EVALSHA" "at least 2 arguments") (p_eval "EvalSha" "EVALSHA"));
    (tx "SCRIPT", container "SCRIPT" (tx "SCRIPT requires a subcommand") script_tbl script_unknown);
    (tx "GET", RSimple "Get" [KStr] TNone (wrong_args "get"));
    (tx "SET", RCustom 2 None (req "SET" "at least 2 arguments") p_set);
    (tx "SETEX", RCustom 3 (Some 3%nat) (req "SETEX" "3 arguments") (set_with 2));
    (tx "SETNX", RSimple "SetNx" [KStr; KSds] TNone (req "SETNX" "2 arguments"));
    (tx "DEL", RSimple "Del" [] (TList KStr) (req "DEL" "at least 1 argument"));
    (tx "EXISTS", RSimple "Exists" [] (TList KStr) (req "EXISTS" "at least 1 argument"));
    (tx "TYPE", key1 "TypeOf" "TYPE"); (tx "KEYS", key1 "Keys" "KEYS");
    (tx "EXPIRE", RCustom 2 None (req "EXPIRE" "at least 2 arguments") (p_expire "Expire"));
    (tx "PEXPIRE", RCustom 2 None (req "PEXPIRE" "at least 2 arguments") (p_expire "PExpire"));
    (tx "EXPIREAT", RSimple "ExpireAt" [KStr; KInt] TNone (req "EXPIREAT" "2 arguments"));
    (tx "PEXPIREAT", RSimple "PExpireAt" [KStr; KInt] TNone (req "PEXPIREAT" "2 arguments"));
    (tx "TTL", key1 "Ttl" "TTL"); (tx "PTTL", key1 "Pttl" "PTTL"); (tx "PERSIST", key1 "Persist" "PERSIST");
    (tx "INCR", RSimple "Incr" [KStr] TNone (wrong_args "incr"));
    (tx "DECR", RSimple "Decr" [KStr] TNone (wrong_args "decr"));
    (tx "INCRBY", RSimple "IncrBy" [KStr; KInt] TNone (wrong_args "incrby"));
    (tx "DECRBY", RSimple "DecrBy" [KStr; KInt] TNone (wrong_args "decrby"));
    (tx "APPEND", RSimple "Append" [KStr; KSds] TNone (req "APPEND" "2 arguments"));
    (tx "GETSET", RSimple "GetSet" [KStr; KSds] TNone (req "GETSET" "2 arguments"));
    (tx "STRLEN", key1 "StrLen" "STRLEN");
    (tx "MGET", RSimple "MGet" [] (TList KStr) (req "MGET" "at least 1 argument"));
    (tx "MSET", RSimple "MSet" [] (TPairs KStr KSds) (wrong_args "mset"));
    (tx "MSETNX", RSimple "MSetNx" [] (TPairs KStr KSds) (wrong_args "msetnx"));
    (tx "LPUSH", RSimple "LPush" [KStr] (TList KSds) (req "LPUSH" "at least 2 arguments"));
    (tx "RPUSH", RSimple "RPush" [KStr] (TList KSds) (req "RPUSH" "at least 2 arguments"));
    (tx "LPOP", key1 "LPop" "LPOP"); (tx "RPOP", key1 "RPop" "RPOP");
    (tx "LRANGE", RSimple "LRange" [KStr; KInt; KInt] TNone (req "LRANGE" "3 arguments"));
    (tx "LLEN", key1 "LLen" "LLEN");
    (tx "LINDEX", RSimple "LIndex" [KStr; KInt] TNone (req "LINDEX" "2 arguments"));
    (tx "LSET", RSimple "LSet" [KStr; KInt; KSds] TNone (req "LSET" "3 arguments"));
    (tx "LTRIM", RSimple "LTrim" [KStr; KInt; KInt] TNone (req "LTRIM" "3 arguments"));
    (tx "RPOPLPUSH", RSimple "RPopLPush" [KStr; KStr] TNone (req "RPOPLPUSH" "2 arguments"));
    (tx "LMOVE", RCustom 4 (Some 4%nat) (req "LMOVE" "4 arguments") p_lmove);
    (tx "SADD", RSimple "SAdd" [KStr] (TList KSds) (req "SADD" "at least 2 arguments"));
    (tx "SMEMBERS", key1 "SMembers" "SMEMBERS");
    (tx "SISMEMBER", RSimple "SIsMember" [KStr; KSds] TNone (req "SISMEMBER" "2 arguments"));
    (tx "SREM", RSimple "SRem" [KStr] (TList KSds) (req "SREM" "at least 2 arguments"));
    (tx "SCARD", key1 "SCard" "SCARD");
    (tx "SPOP", RCustom 1 (Some 2%nat) (req "SPOP" "1 or 2 arguments") p_spop);
    (tx "HSET", RSimple "HSet" [KStr] (TPairs KSds KSds) (tx "HSET requires key and field-value pairs"));
    (tx "HGET", RSimple "HGet" [KStr; KSds] TNone (req "HGET" "2 arguments"));
    (tx "HGETALL", key1 "HGetAll" "HGETALL");
    (tx "HINCRBY", RSimple "HIncrBy" [KStr; KSds; KInt] TNone (req "HINCRBY" "3 arguments"));
    (tx "HDEL", RSimple "HDel" [KStr] (TList KSds) (req "HDEL" "at least 2 arguments"));
    (tx "HKEYS", key1 "HKeys" "HKEYS"); (tx "HVALS", key1 "HVals" "HVALS"); (tx "HLEN", key1 "HLen" "HLEN");
    (tx "HEXISTS", RSimple "HExists" [KStr; KSds] TNone (req "HEXISTS" "2 arguments"));
    (tx "ZADD", RCustom 3 None (tx "ZADD requires key and score-member pairs") p_zadd);
    (tx "ZRANGE", RCustom 3 (Some 4%nat) (req "ZRANGE" "3 or 4 arguments") (p_zrange "ZRange"));
    (tx "ZREVRANGE", RCustom 3 (Some 4%nat) (req "ZREVRANGE" "3 or 4 arguments") (p_zrange "ZRevRange"));
    (tx "ZSCORE", RSimple "ZScore" [KStr; KSds] TNone (req "ZSCORE" "2 arguments"));
    (tx "ZREM", RSimple "ZRem" [KStr] (TList KSds) (req "ZREM" "at least 2 arguments"));
    (tx "ZRANK", RSimple "ZRank" [KStr; KSds] TNone (req "ZRANK" "2 arguments"));
    (tx "ZCARD", key1 "ZCard" "ZCARD");
    (tx "ZCOUNT", RSimple "ZCount" [KStr; KStr; KStr] TNone (req "ZCOUNT" "3 arguments"));
    (tx "ZRANGEBYSCORE", RCustom 3 None (req "ZRANGEBYSCORE" "at least 3 arguments") p_zrangebyscore);
    (tx "SCAN", RCustom 1 None (req "SCAN" "at least 1 argument") p_scan);
    (tx "HSCAN", RCustom 2 None (req "HSCAN" "at least 2 arguments") (p_kscan "HScan" "HSCAN"));
    (tx "ZSCAN", RCustom 2 None (req "ZSCAN" "at least 2 arguments") (p_kscan "ZScan" "ZSCAN"));
    (tx "FUNCTION", container "FUNCTION" (wrong_args "function") function_tbl (named_unknown "FUNCTION"));
    (tx "COMMAND", RCustom 0 None [] p_command);
    (tx "CLIENT", container "CLIENT" (wrong_args "client") client_tbl (named_unknown "CLIENT"));
    (tx "OBJECT", container "OBJECT" (wrong_args "object") object_tbl (named_unknown "OBJECT"));
    (tx "DEBUG", container "DEBUG" (wrong_args "debug") debug_tbl debug_unknown);
    (tx "GETRANGE", RSimple "GetRange" [KStr; KInt; KInt] TNone (req "GETRANGE" "3 arguments"));
    (tx "SUBSTR", RSimple "GetRange" [KStr; KInt; KInt] TNone (req "GETRANGE" "3 arguments"));
    (tx "SETRANGE", RSimple "SetRange" [KStr; KOffset; KSds] TNone (req "SETRANGE" "3 arguments"));
    (tx "SETBIT", RSimple "SetBit" [KStr; KU64bit; KBit] TNone (wrong_args "setbit"));
    (tx "GETBIT", RSimple "GetBit" [KStr; KU64bit] TNone (wrong_args "getbit"));
    (tx "GETEX", RCustom 1 None (wrong_args "getex") p_getex);
    (tx "GETDEL", key1 "GetDel" "GETDEL");
    (tx "INCRBYFLOAT", RSimple "IncrByFloat" [KStr; KFinite] TNone (wrong_args "incrbyfloat"));
    (tx "PSETEX", RCustom 3 (Some 3%nat) (req "PSETEX" "3 arguments") (set_with 3));
    (tx "EXPIRETIME", key1 "ExpireTime" "EXPIRETIME"); (tx "PEXPIRETIME", key1 "PExpireTime" "PEXPIRETIME");
    (tx "UNLINK", RSimple "Del" [] (TList KStr) (req "UNLINK" "at least 1 argument"));
    (tx "WAIT", RSimple "Wait" [KInt; KInt] TNone (req "WAIT" "2 arguments"));
    (tx "SORT", RCustom 1 None (wrong_args "sort") p_sort);
    (tx "RANDOMKEY", konst "RandomKey");
    (tx "RENAME", RSimple "Rename" [KStr; KStr] TNone (wrong_args "rename"));
    (tx "RENAMENX", RSimple "RenameNx" [KStr; KStr] TNone (wrong_args "renamenx")) ].

Definition E_FORMAT := tx "Invalid command format".

(* the interpreter: total, one outcome per frame.  [None] = the frame is not an array. *)
Definition parse_frame (f : option (list relem)) : presult :=
  match f with
  | Some (EBulk n :: args) =>
      let name := ustr n in
      match lookup name grammar with
      | Some r => run_rule r args
      | None => unknown_cmd name
      end
  | _ => PErr E_FORMAT
  end.
Definition parse_cmd (parts : list bytes) : presult := parse_frame (Some (map EBulk parts)).

(* ------------------------------------------------------------------ printing a command *)
(* [unparse_k k c]: a frame that parses back to [c]; every command name, subcommand and
   option keyword it emits goes through [k] (the letter-case variation of keywords). *)
Definition unext (v : cval) : bytes :=
  match v with
  | VS s => s
  | VB b => b
  | VI z => itoa z
  | VF t => t
  | _ => []
  end.
(* isize-as-usize fields: values >= 2^63 only arise from negative literals *)
Definition unext_usz (v : cval) : bytes :=
  match v with
  | VI z => if (z <? 2 ^ 63)%Z then itoa z else itoa (z - TWO64)%Z
  | _ => []
  end.
Definition unext_k (k : kind) (v : cval) : bytes :=
  match k with KUsz => unext_usz v | _ => unext v end.
Fixpoint unext_pre (pre : list kind) (vs : list cval) : list bytes :=
  match pre, vs with
  | k :: pre', v :: vs' => unext_k k v :: unext_pre pre' vs'
  | _, _ => []
  end.
Definition unext_tail (tl : tailspec) (vs : list cval) : list bytes :=
  match tl, vs with
  | (TList0 k | TList k), [VL l] => map (unext_k k) l
  | TPairs k1 k2, [VL l] =>
      flat_map (fun p => match p with VP a b => [unext_k k1 a; unext_k k2 b] | _ => [] end) l
  | _, _ => []
  end.

(* every RSimple row with the name tokens that lead to it, containers flattened *)
Definition simple_of (path : list bytes) (t : list (bytes * rule)) : list (list bytes * rule) :=
  flat_map (fun nr => match snd nr with
                      | RSimple _ _ _ _ => [(path ++ [fst nr], snd nr)]
                      | RCustom _ _ _ _ => []
                      end) t.
Definition subtables : list (bytes * list (bytes * rule)) :=
  [ (tx "CONFIG", config_tbl); (tx "ACL", acl_tbl); (tx "SCRIPT", script_tbl);
    (tx "FUNCTION", function_tbl); (tx "CLIENT", client_tbl); (tx "OBJECT", object_tbl);
    (tx "DEBUG", debug_tbl) ].
Definition simple_index : list (list bytes * rule) :=
  simple_of [] grammar ++ flat_map (fun ct => simple_of [fst ct] (snd ct)) subtables.
Fixpoint find_tag (tag : string) (ix : list (list bytes * rule))
  : option (list bytes * list kind * tailspec) :=
  match ix with
  | [] => None
  | (path, r) :: rest =>
      match r with
      | RSimple t pre tl _ => if String.eqb tag t then Some (path, pre, tl) else find_tag tag rest
      | RCustom _ _ _ _ => find_tag tag rest
      end
  end.

Definition opt_val (kw : string) (k : kind) (v : cval) : list (bool * bytes) :=
  match v with VOpt (Some x) => [(true, tx kw); (false, unext_k k x)] | _ => [] end.
Definition opt_flag (kw : string) (v : cval) : list (bool * bytes) :=
  match v with VFlag true => [(true, tx kw)] | _ => [] end.
Definition kwd (s : string) : bool * bytes := (true, tx s).
Definition arg (b : bytes) : bool * bytes := (false, b).
Definition ua (k : kind) (v : cval) : bool * bytes := (false, unext_k k v).
Notation tokens := (list (bool * bytes)) (only parsing).

(* tokens are tagged "is a keyword"; one printer per command that is not an RSimple row *)
Definition u_ping (a : list cval) : option tokens :=
  match a with
  | [VOpt None] => Some [kwd "PING"]
  | [VOpt (Some m)] => Some [kwd "PING"; ua KSds m]
  | _ => None
  end.
Definition u_auth (a : list cval) : option tokens :=
  match a with
  | [VOpt None; p] => Some [kwd "AUTH"; ua KStr p]
  | [VOpt (Some u); p] => Some [kwd "AUTH"; ua KStr u; ua KStr p]
  | _ => None
  end.
Definition u_set (a : list cval) : option tokens :=
  match a with
  | [k; v; ex; px; exat; pxat; nx; xx; g; kt] =>
      Some ([kwd "SET"; ua KStr k; ua KSds v]
            ++ opt_flag "NX" nx ++ opt_flag "XX" xx ++ opt_flag "GET" g
            ++ opt_val "EX" KInt ex ++ opt_val "PX" KInt px
            ++ opt_val "EXAT" KInt exat ++ opt_val "PXAT" KInt pxat
            ++ opt_flag "KEEPTTL" kt)
  | _ => None
  end.
Definition u_getex (a : list cval) : option tokens :=
  match a with
  | [k; ex; px; exat; pxat; ps] =>
      Some ([kwd "GETEX"; ua KStr k]
            ++ opt_val "EX" KInt ex ++ opt_val "PX" KInt px
            ++ opt_val "EXAT" KInt exat ++ opt_val "PXAT" KInt pxat
            ++ opt_flag "PERSIST" ps)
  | _ => None
  end.
Definition u_expire (name : string) (a : list cval) : option tokens :=
  match a with
  | [k; n; nx; xx; gt; lt] =>
      Some ([kwd name; ua KStr k; ua KInt n]
            ++ opt_flag "NX" nx ++ opt_flag "XX" xx ++ opt_flag "GT" gt ++ opt_flag "LT" lt)
  | _ => None
  end.
Definition u_zrangebyscore (a : list cval) : option tokens :=
  match a with
  | [k; mn; mx; ws; VOpt None] =>
      Some ([kwd "ZRANGEBYSCORE"; ua KStr k; ua KStr mn; ua KStr mx] ++ opt_flag "WITHSCORES" ws)
  | [k; mn; mx; ws; VOpt (Some (VP off cnt))] =>
      Some ([kwd "ZRANGEBYSCORE"; ua KStr k; ua KStr mn; ua KStr mx] ++ opt_flag "WITHSCORES" ws
            ++ [kwd "LIMIT"; ua KInt off; ua KUsz cnt])
  | _ => None
  end.
Definition u_scan (a : list cval) : option tokens :=
  match a with
  | [c; pat; cnt] => Some ([kwd "SCAN"; ua KU64 c] ++ opt_val "MATCH" KStr pat ++ opt_val "COUNT" KUsz cnt)
  | _ => None
  end.
Definition u_kscan (name : string) (a : list cval) : option tokens :=
  match a with
  | [k; c; pat; cnt] =>
      Some ([kwd name; ua KStr k; ua KU64 c] ++ opt_val "MATCH" KStr pat ++ opt_val "COUNT" KUsz cnt)
  | _ => None
  end.
Definition u_sort (a : list cval) : option tokens :=
  match a with
  | [k; st] => Some ([kwd "SORT"; ua KStr k] ++ opt_val "STORE" KStr st)
  | _ => None
  end.
Definition pair_toks (k1 k2 : kind) (p : cval) : tokens :=
  match p with VP x y => [ua k1 x; ua k2 y] | _ => [] end.
Definition u_zadd (a : list cval) : option tokens :=
  match a with
  | [k; VL ps; nx; xx; gt; lt; ch] =>
      Some ([kwd "ZADD"; ua KStr k]
            ++ opt_flag "NX" nx ++ opt_flag "XX" xx ++ opt_flag "GT" gt
            ++ opt_flag "LT" lt ++ opt_flag "CH" ch
            ++ flat_map (pair_toks KFloat KSds) ps)
  | _ => None
  end.
Definition u_zrange (name : string) (a : list cval) : option tokens :=
  match a with
  | [k; x; y; ws] => Some ([kwd name; ua KStr k; ua KInt x; ua KInt y] ++ opt_flag "WITHSCORES" ws)
  | _ => None
  end.
Definition u_spop (a : list cval) : option tokens :=
  match a with
  | [k; VOpt None] => Some [kwd "SPOP"; ua KStr k]
  | [k; VOpt (Some n)] => Some [kwd "SPOP"; ua KStr k; ua KUszStr n]
  | _ => None
  end.
Definition u_lmove (a : list cval) : option tokens :=
  match a with
  | [s; d; VS f; VS t] => Some [kwd "LMOVE"; ua KStr s; ua KStr d; (true, f); (true, t)]
  | _ => None
  end.
Definition u_eval (name : string) (a : list cval) : option tokens :=
  match a with
  | [s; VL ks; VL vs] =>
      Some ([kwd name; ua KStr s; arg (itoa (Z.of_nat (List.length ks)))]
            ++ map (ua KStr) ks ++ map (ua KSds) vs)
  | _ => None
  end.
Definition u_aclcat (a : list cval) : option tokens :=
  match a with
  | [VOpt None] => Some [kwd "ACL"; kwd "CAT"]
  | [VOpt (Some c)] => Some [kwd "ACL"; kwd "CAT"; ua KStr c]
  | _ => None
  end.
Definition u_aclgenpass (a : list cval) : option tokens :=
  match a with
  | [VOpt None] => Some [kwd "ACL"; kwd "GENPASS"]
  | [VOpt (Some n)] => Some [kwd "ACL"; kwd "GENPASS"; ua KU32Str n]
  | _ => None
  end.
Definition u_acllog (a : list cval) : option tokens :=
  match a with
  | [VOpt None] => Some [kwd "ACL"; kwd "LOG"]
  | [VOpt (Some n)] => Some [kwd "ACL"; kwd "LOG"; ua KUszStr n]
  | _ => None
  end.
Definition u_const (ws : list string) (a : list cval) : option tokens :=
  match a with [] => Some (map kwd ws) | _ => None end.
Definition u_debugset (a : list cval) : option tokens :=
  match a with
  | [VS sub; v] => Some [kwd "DEBUG"; (true, sub); ua KStr v]
  | _ => None
  end.
Definition u_unknown (a : list cval) : option tokens :=
  match a with [VS n] => Some [(true, n)] | _ => None end.

(* ------------------------------------------------------------------ the Lua bridge *)
(* redis.call / redis.pcall accept the names below and hand the argument vector to the same
   grammar; any other name is refused. *)
Definition lua_commands : list bytes :=
  map tx [ "GET"; "SET"; "DEL"; "INCR"; "DECR"; "INCRBY"; "HGET"; "HSET"; "HDEL"; "LPUSH"; "RPUSH";
           "LPOP"; "RPOP"; "LLEN"; "SADD"; "SREM"; "SMEMBERS"; "EXISTS"; "EXPIRE"; "TTL"; "TYPE";
           "HINCRBY"; "LRANGE"; "RPOPLPUSH"; "LMOVE"; "HGETALL"; "SISMEMBER"; "ZADD"; "ZREM";
           "ZRANGE"; "ZSCORE"; "ZCARD"; "ZCOUNT"; "ZRANGEBYSCORE" ].
Definition lua_supported (name : bytes) : bool := existsb (bytes_eqb name) lua_commands.
Definition lua_parse (parts : list bytes) : presult :=
  match parts with
  | [] => PErr (tx "Empty command")
  | n :: _ =>
      if lua_supported (ustr n) then parse_cmd parts
      else PErr (tx "ERR Unknown Redis command '" ++ ustr n ++ tx "' called from Lua")
  end.

Inductive resp :=
| RSimple_ (s : bytes) | RError (e : bytes) | RInt (z : Z)
| RBulk (o : option bytes) | RArr (o : option (list resp)).
(* a Lua value as far as the bridge looks at it: a table is its fields "ok" and "err" and its
   array part t[1..n] (holes are LNil) *)
Inductive lval :=
| LNil | LBool (b : bool) | LInt (z : Z)
| LNum (t : bytes)        (* a float, as the text Rust's Display gives it *)
| LStr (s : bytes)
| LTab (ok err : option lval) (arr : list lval).

(* what redis.call hands to the grammar for one Lua argument *)
Definition lua_arg (v : lval) : option bytes :=
  match v with
  | LStr s => Some s
  | LInt z => Some (itoa z)
  | LNum t => Some t
  | _ => None
  end.

(* RespValue::err / RespValue::simple keep a reply on one line *)
Definition sanitize (s : bytes) : bytes := map (fun c => if (c =? 13) || (c =? 10) then 32 else c) s.

(* [nil_as]: the Lua value a nil bulk / nil array becomes.  The code uses LNil; Redis
   documents LBool false. *)
Fixpoint resp_to_lua_with (nil_as : lval) (r : resp) : lval :=
  match r with
  | RSimple_ s => LTab (Some (LStr s)) None []
  | RError e => LTab None (Some (LStr e)) []
  | RInt z => LInt z
  | RBulk (Some b) => LStr b
  | RBulk None => nil_as
  | RArr (Some l) => LTab None None (map (resp_to_lua_with nil_as) l)
  | RArr None => nil_as
  end.
Definition resp_to_lua : resp -> lval := resp_to_lua_with LNil.
Definition resp_to_lua_redis : resp -> lval := resp_to_lua_with (LBool false).

(* table field read as a Rust String: strings (valid UTF-8) and integers convert *)
Definition get_str (o : option lval) : option bytes :=
  match o with
  | Some (LStr s) => if bytes_eqb (lossy s) s then Some s else None
  | Some (LInt z) => Some (itoa z)
  | _ => None
  end.
Fixpoint lua_to_resp (v : lval) : resp :=
  match v with
  | LNil => RBulk None
  | LBool true => RInt 1
  | LBool false => RBulk None
  | LInt z => RInt z
  | LNum t => RBulk (Some t)
  | LStr s => RBulk (Some s)
  | LTab ok err arr =>
      match get_str err with
      | Some e => RError (sanitize e)
      | None =>
          match get_str ok with
          | Some s => RSimple_ (sanitize s)
          | None =>
              RArr (Some ((fix go (l : list lval) : list resp :=
                             match l with
                             | [] => []
                             | LNil :: _ => []
                             | x :: t => lua_to_resp x :: go t
                             end) arr))
          end
      end
  end.

(* ------------------------------------------------------------------ canonical commands *)
(* [canonical c]: c is a command value the grammar can produce (fields of the right kinds
   and ranges, strings valid UTF-8, option combinations the parsers accept). *)
Definition in_range (lo hi z : Z) : bool := (lo <=? z)%Z && (z <=? hi)%Z.
Definition wf_val (k : kind) (v : cval) : bool :=
  match k, v with
  | KStr, VS s => bytes_eqb (lossy s) s
  | KUpStr, VS s => bytes_eqb (ustr s) s
  | KSds, VB _ => true
  | KInt, VI z => in_range I64_MIN I64_MAX z
  | (KUsz | KU64 | KU64bit | KUszStr), VI z => in_range 0 U64_MAX z
  | KBit, VI z => in_range 0 1 z
  | KOffset, VI z => in_range 0 I64_MAX z
  | KFloat, VF t => bytes_eqb (lossy t) t && match float_class t with Some _ => true | None => false end
  | KFinite, VF t => bytes_eqb (lossy t) t && match float_class t with Some FFin => true | _ => false end
  | KDb, VI z => in_range 0 15 z
  | KU32Str, VI z => in_range 0 U32_MAX z
  | _, _ => false
  end.
Fixpoint wf_pre (pre : list kind) (vs : list cval) : bool :=
  match pre, vs with
  | [], [] => true
  | k :: pre', v :: vs' => wf_val k v && wf_pre pre' vs'
  | _, _ => false
  end.
Definition wf_pair (k1 k2 : kind) (v : cval) : bool :=
  match v with VP a b => wf_val k1 a && wf_val k2 b | _ => false end.
Definition nonempty {A} (l : list A) : bool := match l with [] => false | _ => true end.
Definition wf_tail (tl : tailspec) (vs : list cval) : bool :=
  match tl, vs with
  | (TNone | TAny), [] => true
  | TList0 k, [VL l] => forallb (wf_val k) l
  | TList k, [VL l] => nonempty l && forallb (wf_val k) l
  | TPairs k1 k2, [VL l] => nonempty l && forallb (wf_pair k1 k2) l
  | _, _ => false
  end.
Definition wf_opt (k : kind) (v : cval) : bool :=
  match v with VOpt None => true | VOpt (Some x) => wf_val k x | _ => false end.
Definition is_flag (v : cval) : bool := match v with VFlag _ => true | _ => false end.
Definition flag_of (v : cval) : bool := match v with VFlag b => b | _ => false end.
Definition is_some (v : cval) : bool := match v with VOpt (Some _) => true | _ => false end.
Definition is_dir (s : bytes) : bool := bytes_eqb s (tx "LEFT") || bytes_eqb s (tx "RIGHT").
Definition none_lookup {A} (n : bytes) (t : list (bytes * A)) : bool :=
  match lookup n t with None => true | Some _ => false end.

Definition c_ping (a : list cval) : bool :=
  match a with [VOpt None] => true | [VOpt (Some m)] => wf_val KSds m | _ => false end.
Definition c_auth (a : list cval) : bool :=
  match a with
  | [VOpt None; p] => wf_val KStr p
  | [VOpt (Some u); p] => wf_val KStr u && wf_val KStr p
  | _ => false
  end.
Definition c_set (a : list cval) : bool :=
  match a with
  | [k; v; ex; px; exat; pxat; nx; xx; g; kt] =>
      wf_val KStr k && wf_val KSds v && wf_opt KInt ex && wf_opt KInt px && wf_opt KInt exat
      && wf_opt KInt pxat && is_flag nx && is_flag xx && is_flag g && is_flag kt
      && negb (flag_of nx && flag_of xx)
      && negb (flag_of kt && (is_some ex || is_some px || is_some exat || is_some pxat))
  | _ => false
  end.
Definition c_getex (a : list cval) : bool :=
  match a with
  | [k; ex; px; exat; pxat; ps] =>
      wf_val KStr k && wf_opt KInt ex && wf_opt KInt px && wf_opt KInt exat && wf_opt KInt pxat
      && is_flag ps
      && Nat.leb (count_true [is_some ex; is_some px; is_some exat; is_some pxat; flag_of ps]) 1
  | _ => false
  end.
Definition c_expire (a : list cval) : bool :=
  match a with
  | [k; n; nx; xx; gt; lt] =>
      wf_val KStr k && wf_val KInt n && is_flag nx && is_flag xx && is_flag gt && is_flag lt
      && negb (flag_of nx && (flag_of xx || flag_of gt || flag_of lt))
      && negb (flag_of gt && flag_of lt)
  | _ => false
  end.
Definition c_zrangebyscore (a : list cval) : bool :=
  match a with
  | [k; mn; mx; ws; VOpt None] => wf_val KStr k && wf_val KStr mn && wf_val KStr mx && is_flag ws
  | [k; mn; mx; ws; VOpt (Some (VP off cnt))] =>
      wf_val KStr k && wf_val KStr mn && wf_val KStr mx && is_flag ws
      && wf_val KInt off && wf_val KUsz cnt
  | _ => false
  end.
Definition c_scan (a : list cval) : bool :=
  match a with
  | [c; pat; cnt] => wf_val KU64 c && wf_opt KStr pat && wf_opt KUsz cnt
  | _ => false
  end.
Definition c_kscan (a : list cval) : bool :=
  match a with
  | [k; c; pat; cnt] => wf_val KStr k && wf_val KU64 c && wf_opt KStr pat && wf_opt KUsz cnt
  | _ => false
  end.
Definition c_sort (a : list cval) : bool :=
  match a with [k; st] => wf_val KStr k && wf_opt KStr st | _ => false end.
Definition c_zadd (a : list cval) : bool :=
  match a with
  | [k; VL ps; nx; xx; gt; lt; ch] =>
      wf_val KStr k && nonempty ps && forallb (wf_pair KFloat KSds) ps
      && is_flag nx && is_flag xx && is_flag gt && is_flag lt && is_flag ch
      && match ps with
         | VP (VF t) _ :: _ => match zadd_flag (ustr t) with None => true | Some _ => false end
         | _ => false
         end
  | _ => false
  end.
Definition c_zrange (a : list cval) : bool :=
  match a with
  | [k; x; y; ws] => wf_val KStr k && wf_val KInt x && wf_val KInt y && is_flag ws
  | _ => false
  end.
Definition c_spop (a : list cval) : bool :=
  match a with
  | [k; VOpt None] => wf_val KStr k
  | [k; VOpt (Some n)] => wf_val KStr k && wf_val KUszStr n
  | _ => false
  end.
Definition c_lmove (a : list cval) : bool :=
  match a with
  | [s; d; VS f; VS t] => wf_val KStr s && wf_val KStr d && is_dir f && is_dir t
  | _ => false
  end.
Definition c_eval (a : list cval) : bool :=
  match a with
  | [s; VL ks; VL vs] =>
      wf_val KStr s && forallb (wf_val KStr) ks && forallb (wf_val KSds) vs
      && (Z.of_nat (List.length ks) <=? I64_MAX)%Z
  | _ => false
  end.
Definition c_optional (k : kind) (a : list cval) : bool :=
  match a with [VOpt None] => true | [VOpt (Some c)] => wf_val k c | _ => false end.
Definition c_const (a : list cval) : bool := match a with [] => true | _ => false end.
Definition c_debugset (a : list cval) : bool :=
  match a with
  | [VS sub; v] => bytes_eqb (ustr sub) sub && none_lookup sub debug_tbl && wf_val KStr v
  | _ => false
  end.
Definition c_unknown (a : list cval) : bool :=
  match a with [VS n] => bytes_eqb (ustr n) n && none_lookup n grammar | _ => false end.

Record custom := { c_canon : list cval -> bool; c_unparse : list cval -> option (list (bool * bytes)) }.
Definition customs : list (string * custom) :=
  [ ("Ping", {| c_canon := c_ping; c_unparse := u_ping |});
    ("Auth", {| c_canon := c_auth; c_unparse := u_auth |});
    ("Set", {| c_canon := c_set; c_unparse := u_set |});
    ("GetEx", {| c_canon := c_getex; c_unparse := u_getex |});
    ("Expire", {| c_canon := c_expire; c_unparse := u_expire "EXPIRE" |});
    ("PExpire", {| c_canon := c_expire; c_unparse := u_expire "PEXPIRE" |});
    ("ZRangeByScore", {| c_canon := c_zrangebyscore; c_unparse := u_zrangebyscore |});
    ("Scan", {| c_canon := c_scan; c_unparse := u_scan |});
    ("HScan", {| c_canon := c_kscan; c_unparse := u_kscan "HSCAN" |});
    ("ZScan", {| c_canon := c_kscan; c_unparse := u_kscan "ZSCAN" |});
    ("Sort", {| c_canon := c_sort; c_unparse := u_sort |});
    ("ZAdd", {| c_canon := c_zadd; c_unparse := u_zadd |});
    ("ZRange", {| c_canon := c_zrange; c_unparse := u_zrange "ZRANGE" |});
    ("ZRevRange", {| c_canon := c_zrange; c_unparse := u_zrange "ZREVRANGE" |});
    ("SPop", {| c_canon := c_spop; c_unparse := u_spop |});
    ("LMove", {| c_canon := c_lmove; c_unparse := u_lmove |});
    ("Eval", {| c_canon := c_eval; c_unparse := u_eval "EVAL" |});
    ("EvalSha", {| c_canon := c_eval; c_unparse := u_eval "EVALSHA" |});
    ("AclCat", {| c_canon := c_optional KStr; c_unparse := u_aclcat |});
    ("AclGenPass", {| c_canon := c_optional KU32Str; c_unparse := u_aclgenpass |});
    ("AclLog", {| c_canon := c_optional KUszStr; c_unparse := u_acllog |});
    ("AclLogReset", {| c_canon := c_const; c_unparse := u_const ["ACL"; "LOG"; "RESET"] |});
    ("CommandCommand", {| c_canon := c_const; c_unparse := u_const ["COMMAND"] |});
    ("CommandCount", {| c_canon := c_const; c_unparse := u_const ["COMMAND"; "COUNT"] |});
    ("DebugSet", {| c_canon := c_debugset; c_unparse := u_debugset |});
    ("Unknown", {| c_canon := c_unknown; c_unparse := u_unknown |}) ].
Fixpoint find_custom (tag : string) (l : list (string * custom)) : option custom :=
  match l with
  | [] => None
  | (t, c) :: r => if String.eqb tag t then Some c else find_custom tag r
  end.
Definition canonical_custom (tag : string) (a : list cval) : bool :=
  match find_custom tag customs with Some c => c_canon c a | None => false end.
Definition unparse_custom (tag : string) (a : list cval) : option (list (bool * bytes)) :=
  match find_custom tag customs with Some c => c_unparse c a | None => None end.
Definition canonical (c : cmd) : bool :=
  let '(Cmd tag a) := c in
  match find_tag tag simple_index with
  | Some (path, pre, tl) =>
      wf_pre pre (firstn (List.length pre) a) && wf_tail tl (skipn (List.length pre) a)
  | None => canonical_custom tag a
  end.

(* [unparse_k k c]: the frame printed for c, keywords passed through k *)
Definition unparse_tokens (c : cmd) : option (list (bool * bytes)) :=
  let '(Cmd tag a) := c in
  match find_tag tag simple_index with
  | Some (path, pre, tl) =>
      Some (map (fun w => (true, w)) path
            ++ map arg (unext_pre pre (firstn (List.length pre) a)
                        ++ unext_tail tl (skipn (List.length pre) a)))
  | None => unparse_custom tag a
  end.
Definition unparse_k (k : bytes -> bytes) (c : cmd) : option (list bytes) :=
  match unparse_tokens c with
  | Some ts => Some (map (fun t : bool * bytes => if fst t then k (snd t) else snd t) ts)
  | None => None
  end.
Definition unparse (c : cmd) : option (list bytes) := unparse_k (fun w => w) c.

(* ------------------------------------------------------------------ predicates used in the statements of Props/C16.v *)
Definition names {A} (t : list (bytes * A)) : list bytes := map fst t.

Fixpoint nodupb (l : list bytes) : bool :=
  match l with
  | [] => true
  | x :: r => negb (existsb (bytes_eqb x) r) && nodupb r
  end.

Definition parses (f : option (list relem)) (r : presult) : Prop :=
  match f with
  | Some (EBulk n :: args) =>
      (exists rl, In (ustr n, rl) grammar /\ r = run_rule rl args)
      \/ (~ In (ustr n) (names grammar) /\ r = unknown_cmd (ustr n))
  | _ => r = PErr E_FORMAT
  end.

Definition ascii (b : bytes) : Prop := Forall (fun x => (x < 128)%N) b.

Definition case_variant (a b : bytes) : Prop := Forall2 (fun x y => up1 x = up1 y) a b.

Definition text_ok (s : bytes) : bool := bytes_eqb (lossy s) s && bytes_eqb (sanitize s) s.

(* [a]: is a nil bulk allowed (inside arrays) *)
Fixpoint inner_ok_with (a : bool) (r : resp) : bool :=
  match r with
  | RSimple_ s | RError s => text_ok s
  | RInt _ => true
  | RBulk (Some _) => true
  | RBulk None => a
  | RArr None => false
  | RArr (Some l) =>
      (fix all (l : list resp) : bool :=
         match l with [] => true | x :: t => inner_ok_with a x && all t end) l
  end.
Definition conv_ok (r : resp) : bool :=
  match r with RBulk None => true | _ => inner_ok_with false r end.
Definition conv_ok_redis (r : resp) : bool := inner_ok_with true r.

Definition lower_kw (w : bytes) : bytes := if forallb (fun x => (x <? 128)%N) w then map low1 w else w.

(* both entry paths run the same executor on the same parsed command *)
Section Script.
  Variable state : Type.
  Variable exec : state -> cmd -> state * resp.
  Definition conv (r : resp) : resp := lua_to_resp (resp_to_lua r).
  Definition err_reply (t : bytes) : resp := RError (sanitize t).
  Definition direct_call (s : state) (parts : list bytes) : state * resp :=
    match parse_cmd parts with
    | POk c => exec s c
    | PErr t => (s, err_reply t)
    | PPanic => (s, err_reply [])
    end.
  (* EVAL "return redis.pcall(...)": translate, execute, convert to Lua, convert the script's
     return value back *)
  Definition script_call (s : state) (parts : list bytes) : state * resp :=
    match lua_parse parts with
    | POk c => let '(s', r) := exec s c in (s', conv r)
    | PErr t => (s, conv (RError t))
    | PPanic => (s, err_reply [])
    end.
End Script.

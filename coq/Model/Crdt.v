(* Model of src/replication/lattice.rs, src/replication/state/crdt_value.rs and
   src/replication/state/replicated_value.rs: the replicated value types and
   their merge functions, transcribed arm by arm.  Definitions only. *)
From stdpp Require Import gmap.
From Coq Require Import NArith.
From RV Require Import Lib.Hex.
Local Open Scope N_scope.

Notation rid := N (only parsing).

(* LamportClock { time, replica_id }, ordered by (time, replica_id). *)
Record stamp := Stamp { st_time : N; st_rid : rid }.
Global Instance stamp_eq_dec : EqDecision stamp.
Proof. solve_decision. Defined.

Definition stamp_ltb (a b : stamp) : bool :=
  (st_time a <? st_time b) || ((st_time a =? st_time b) && (st_rid a <? st_rid b)).

(* LamportClock::merge — the greater of the two clocks under the total order
   (lattice.rs; after the repair recorded as fixed:C07-outer-stamp). *)
Definition stamp_merge (a b : stamp) : stamp := if stamp_ltb a b then b else a.

(* LwwRegister<SDS> *)
Record lww := Lww { lw_val : option bytes; lw_ts : stamp; lw_tomb : bool }.
Global Instance lww_eq_dec : EqDecision lww.
Proof. solve_decision. Defined.

(* LwwRegister::merge: `if other.timestamp > self.timestamp { other } else { self }` *)
Definition lww_merge (a b : lww) : lww := if stamp_ltb (lw_ts a) (lw_ts b) then b else a.
Definition lww_get (r : lww) : option bytes := if lw_tomb r then None else lw_val r.

(* VectorClock / GCounter: HashMap<ReplicaId,u64>, merge = pointwise max *)
Notation nmap := (gmap N N) (only parsing).
Definition nmap_merge (a b : nmap) : nmap := union_with (λ x y, Some (N.max x y)) a b.

Record pncounter := PN { pn_pos : nmap; pn_neg : nmap }.
Global Instance pncounter_eq_dec : EqDecision pncounter.
Proof. solve_decision. Defined.
Definition pn_merge (a b : pncounter) : pncounter :=
  PN (nmap_merge (pn_pos a) (pn_pos b)) (nmap_merge (pn_neg a) (pn_neg b)).

(* ORSet<String>: elements : HashMap<T, HashSet<UniqueTag>>, next_sequence *)
Notation tag := (N * N)%type (only parsing).
Notation tagmap := (gmap (list N) (gset (N * N))) (only parsing).
Record orset := ORSet { or_elems : tagmap; or_seq : nmap }.
Global Instance orset_eq_dec : EqDecision orset.
Proof. solve_decision. Defined.
Definition nonempty_tags (kv : bytes * gset tag) : Prop := kv.2 ≠ ∅.
Global Instance nonempty_tags_dec kv : Decision (nonempty_tags kv).
Proof. unfold nonempty_tags. apply _. Defined.
Definition tags_union (a b : tagmap) : tagmap := union_with (λ x y, Some (x ∪ y)) a b.
(* ORSet::merge inserts an element only when the union of its tag sets is non-empty *)
Definition orset_merge (a b : orset) : orset :=
  ORSet (filter nonempty_tags (tags_union (or_elems a) (or_elems b)))
        (nmap_merge (or_seq a) (or_seq b)).

Notation hmap := (gmap (list N) lww) (only parsing).
Definition hash_merge (a b : hmap) : hmap := union_with (λ x y, Some (lww_merge x y)) a b.

Inductive crdt :=
| CLww (r : lww)
| CGCounter (c : nmap)
| CPNCounter (c : pncounter)
| CGSet (s : gset bytes)
| CORSet (s : orset)
| CHash (h : hmap).
Global Instance crdt_eq_dec : EqDecision crdt.
Proof. solve_decision. Defined.

Definition kind (c : crdt) : N :=
  match c with
  | CLww _ => 0 | CGCounter _ => 1 | CPNCounter _ => 2
  | CGSet _ => 3 | CORSet _ => 4 | CHash _ => 5
  end.

(* CrdtValue::try_merge *)
Definition try_merge (a b : crdt) : option crdt :=
  match a, b with
  | CLww x, CLww y => Some (CLww (lww_merge x y))
  | CGCounter x, CGCounter y => Some (CGCounter (nmap_merge x y))
  | CPNCounter x, CPNCounter y => Some (CPNCounter (pn_merge x y))
  | CGSet x, CGSet y => Some (CGSet (x ∪ y))
  | CORSet x, CORSet y => Some (CORSet (orset_merge x y))
  | CHash x, CHash y => Some (CHash (hash_merge x y))
  | _, _ => None
  end.

(* CrdtValue::merge_with_timestamps: kind mismatch ⇒ later outer stamp wins, ties keep self *)
Definition merge_with_ts (a b : crdt) (ta tb : stamp) : crdt :=
  match try_merge a b with
  | Some m => m
  | None => if stamp_ltb ta tb then b else a
  end.

Record rvalue := RV {
  rv_crdt : crdt;
  rv_vc : option nmap;
  rv_exp : option N;
  rv_ts : stamp;
  rv_rf : option N
}.
Global Instance rvalue_eq_dec : EqDecision rvalue.
Proof. solve_decision. Defined.

Definition opt_merge {A} (f : A → A → A) (a b : option A) : option A :=
  match a, b with
  | Some x, Some y => Some (f x y)
  | Some x, None => Some x
  | None, Some y => Some y
  | None, None => None
  end.

(* ReplicatedValue::merge *)
Definition rv_merge (a b : rvalue) : rvalue :=
  RV (merge_with_ts (rv_crdt a) (rv_crdt b) (rv_ts a) (rv_ts b))
     (opt_merge nmap_merge (rv_vc a) (rv_vc b))
     (opt_merge N.max (rv_exp a) (rv_exp b))
     (stamp_merge (rv_ts a) (rv_ts b))
     (opt_merge N.max (rv_rf a) (rv_rf b)).

(* ---- the observable projection ---- *)
(* Rust's PartialEq on VectorClock/GCounter treats a missing replica as 0, and an
   ORSet element with an empty tag set is absent; [obs] normalises exactly that. *)
Definition nonzero (kv : rid * N) : Prop := kv.2 ≠ 0.
Global Instance nonzero_dec kv : Decision (nonzero kv).
Proof. unfold nonzero. apply _. Defined.
Definition nz (m : nmap) : nmap := filter nonzero m.
Definition or_norm (s : orset) : orset :=
  ORSet (filter nonempty_tags (or_elems s)) (nz (or_seq s)).

Definition obs_crdt (c : crdt) : crdt :=
  match c with
  | CLww r => CLww r
  | CGCounter m => CGCounter (nz m)
  | CPNCounter p => CPNCounter (PN (nz (pn_pos p)) (nz (pn_neg p)))
  | CGSet s => CGSet s
  | CORSet s => CORSet (or_norm s)
  | CHash h => CHash h
  end.

Definition obs (v : rvalue) : rvalue :=
  RV (obs_crdt (rv_crdt v)) (option_map nz (rv_vc v)) (rv_exp v) (rv_ts v) (rv_rf v).

(* Client-visible reads derived from [obs] *)
Definition rv_get (v : rvalue) : option bytes :=
  match rv_crdt v with CLww r => lww_get r | _ => None end.
Definition nmap_total (m : nmap) : N := map_fold (λ _ x acc, x + acc) 0 m.

(* ---- side conditions used by the theorems ---- *)
Definition lww_compat (a b : lww) : Prop := lw_ts a = lw_ts b → a = b.

(* Two values are compatible when no stamp was used for two different writes:
   registers (top-level or per field) with equal stamps are equal, and values of
   different kinds carry different outer stamps.  Invariant of values produced by
   replicas whose clocks tick on every write (C08). *)
Definition Compatible (a b : rvalue) : Prop :=
  match rv_crdt a, rv_crdt b with
  | CLww x, CLww y => lww_compat x y
  | CHash x, CHash y =>
      ∀ f r1 r2, x !! f = Some r1 → y !! f = Some r2 → lww_compat r1 r2
  | ca, cb => kind ca = kind cb ∨ rv_ts a ≠ rv_ts b
  end.

Definition SameKind3 (a b c : rvalue) : Prop :=
  kind (rv_crdt a) = kind (rv_crdt b) ∧ kind (rv_crdt b) = kind (rv_crdt c).
(* The known-finding class of C07: triples that are not all of one CRDT kind. *)
Definition MixedKinds (a b c : rvalue) : Prop := ¬ SameKind3 a b c.

(* Model of a replicated cluster of shard actors (production/replicated_shard_actor.rs on
   top of replication/state/shard_state.rs): each node owns a small command executor and a
   ShardReplicaState; a client command is executed, then recorded by the glue
   (record_mutation_post_execute); a delivered delta is merged and materialised into the
   executor (apply_remote_delta_impl).  The network is "any previously emitted delta may be
   delivered to any node, any number of times, in any order" - delay, reordering,
   duplication, loss-then-redelivery and partitions are all instances.  Definitions only. *)
From stdpp Require Import gmap.
From Coq Require Import NArith ZArith.
From RV Require Import Lib.Hex Model.Crdt Model.ShardState.
From RV Require Model.Resp Model.MiniExec.
Local Open Scope N_scope.

(* ---------- the executor, restricted to the replicated command set on strings and hashes ---------- *)
Inductive xval := XStr (s : list N) | XHash (h : gmap (list N) (list N)).
Global Instance xval_eq_dec : EqDecision xval.
Proof. solve_decision. Defined.
Notation xstate := (gmap (list N) xval) (only parsing).

Inductive ccmd :=
| CSet (k v : list N) (nx xx : bool)
| CDel (k : list N)
| CAppend (k v : list N)
| CHSet (k : list N) (fs : list (list N * list N))
| CHDel (k : list N) (fs : list (list N)).

Inductive xreply :=
| XOk | XNil | XInt (n : N) | XErr.
Global Instance xreply_eq_dec : EqDecision xreply.
Proof. solve_decision. Defined.

Definition hset_all (h : gmap (list N) (list N)) (fs : list (list N * list N)) : gmap (list N) (list N) :=
  fold_left (λ acc p, <[ p.1 := p.2 ]> acc) fs h.
Definition hdel_all (h : gmap (list N) (list N)) (fs : list (list N)) : gmap (list N) (list N) :=
  fold_left (λ acc f, delete f acc) fs h.
Definition count_new (h : gmap (list N) (list N)) (fs : list (list N * list N)) : N :=
  N.of_nat (size (hset_all h fs)) - N.of_nat (size h).

Definition xexec (s : xstate) (c : ccmd) : xstate * xreply :=
  match c with
  | CSet k v nx xx =>
      let ex := bool_decide (is_Some (s !! k)) in
      if nx && ex then (s, XNil)
      else if xx && negb ex then (s, XNil)
      else (<[ k := XStr v ]> s, XOk)
  | CDel k =>
      match s !! k with Some _ => (delete k s, XInt 1) | None => (s, XInt 0) end
  | CAppend k v =>
      match s !! k with
      | Some (XStr x) => (<[ k := XStr (x ++ v) ]> s, XInt (N.of_nat (length (x ++ v))))
      | Some (XHash _) => (s, XErr)
      | None => (<[ k := XStr v ]> s, XInt (N.of_nat (length v)))
      end
  | CHSet k fs =>
      match s !! k with
      | Some (XStr _) => (s, XErr)
      | Some (XHash h) => (<[ k := XHash (hset_all h fs) ]> s, XInt (count_new h fs))
      | None => (<[ k := XHash (hset_all ∅ fs) ]> s, XInt (count_new ∅ fs))
      end
  | CHDel k fs =>
      match s !! k with
      | Some (XStr _) => (s, XErr)
      | Some (XHash h) =>
          let h' := hdel_all h fs in
          let n := N.of_nat (size h) - N.of_nat (size h') in
          if bool_decide (h' = ∅) then (delete k s, XInt n) else (<[ k := XHash h' ]> s, XInt n)
      | None => (s, XInt 0)
      end
  end.

(* ---------- the glue: record_mutation_post_execute ---------- *)
(* Which replication event a command gives rise to, given its reply and the executor's
   post-state (replicated_shard_actor.rs after the repair recorded as fixed:C06-glue-noop:
   a command that answered an error, or a SET NX/XX that did not write, records nothing). *)
Definition record_post (post : xstate) (c : ccmd) (r : xreply) : option event :=
  match r with
  | XErr => None
  | _ =>
    match c with
    | CSet k v nx xx => if bool_decide (r = XOk) then Some (EWrite k v None) else None
    | CDel k => Some (EDelete k)
    | CAppend k _ =>
        match post !! k with Some (XStr x) => Some (EWrite k x None) | _ => None end
    | CHSet k fs => Some (EHSet k fs)
    | CHDel k fs => Some (EHDel k fs)
    end
  end.

(* ---------- materialising a merged value into the executor (apply_remote_delta_impl) ---------- *)
Definition live_fields (h : gmap (list N) lww) : gmap (list N) (list N) := omap lww_get h.
Definition tomb_fields (h : gmap (list N) lww) : list (list N) :=
  map fst (filter (λ kv, lw_tomb kv.2 = true) (map_to_list h)).

(* the second component tells whether the executor refused the HSET (WRONGTYPE): in a debug
   build this trips a debug_assert and kills the actor task, in release it is ignored *)
Definition materialise (x : xstate) (k : list N) (m : rvalue) : xstate * bool :=
  match rv_crdt m with
  | CHash h =>
      let lv := live_fields h in
      match x !! k with
      | Some (XStr _) => (x, negb (bool_decide (lv = ∅)))
      | cur =>
          let h0 := match cur with Some (XHash g) => g | _ => ∅ end in
          let h1 := if bool_decide (lv = ∅) then h0 else lv ∪ h0 in
          let h2 := hdel_all h1 (tomb_fields h) in
          if bool_decide (lv = ∅) && bool_decide (cur = None) then (x, false)
          else if bool_decide (h2 = ∅) then (delete k x, false) else (<[ k := XHash h2 ]> x, false)
      end
  | CLww r =>
      match lww_get r with
      | Some v => (<[ k := XStr v ]> x, false)
      | None => if lw_tomb r then (delete k x, false) else (x, false)
      end
  | _ => (x, false)
  end.

(* ---------- a node and the cluster ---------- *)
Record node := Node {
  n_x : gmap (list N) xval;             (* executor keyspace *)
  n_sh : shard;                          (* replication state *)
  n_hist : gmap (list N) (list rvalue);  (* ghost: per key, the deltas incorporated, in order *)
  n_glue_fail : bool                     (* an HSET of a remote hash hit a local string *)
}.
Definition node_init (rid : N) : node := Node ∅ (shard_init rid false) ∅ false.

Definition hist_push (h : gmap (list N) (list rvalue)) (k : list N) (d : rvalue) :=
  <[ k := default [] (h !! k) ++ [d] ]> h.

Definition ev_key (e : event) : list N :=
  match e with
  | EWrite k _ _ | EDelete k | EHSet k _ | EHDel k _ | ERemote k _ | ERecover k _ => k
  end.

(* a client command at a node: execute, record, emit *)
Definition node_exec (n : node) (c : ccmd) : node * xreply * option (list N * rvalue) :=
  let '(x1, r) := xexec (n_x n) c in
  match record_post x1 c r with
  | None => (Node x1 (n_sh n) (n_hist n) (n_glue_fail n), r, None)
  | Some e =>
      let '(s1, od) := step (n_sh n) e in
      match od with
      | Some d => (Node x1 s1 (hist_push (n_hist n) (ev_key e) d) (n_glue_fail n), r, Some (ev_key e, d))
      | None => (Node x1 s1 (n_hist n) (n_glue_fail n), r, None)
      end
  end.

(* a delivered delta: merge into the replication state, materialise into the executor *)
Definition node_deliver (n : node) (k : list N) (d : rvalue) : node :=
  let '(s1, _) := step (n_sh n) (ERemote k d) in
  match sh_keys s1 !! k with
  | Some m =>
      let '(x1, bad) := materialise (n_x n) k m in
      Node x1 s1 (hist_push (n_hist n) k d) (n_glue_fail n || bad)
  | None => Node (n_x n) s1 (hist_push (n_hist n) k d) (n_glue_fail n)
  end.

Inductive cev :=
| CClient (i : nat) (c : ccmd)                 (* client command at node i *)
| CDeliver (i : nat) (k : list N) (d : rvalue). (* delta d for key k arrives at node i *)

Notation cluster := (list node) (only parsing).
Definition cluster_init (n : nat) : list node := map (λ i, node_init (N.of_nat (S i))) (seq 0 n).

(* emitted log: (origin, key, delta) *)
Definition cstep (c : list node) (log : list (nat * list N * rvalue)) (e : cev)
  : list node * list (nat * list N * rvalue) :=
  match e with
  | CClient i cmd =>
      match c !! i with
      | Some n =>
          let '(n1, _, od) := node_exec n cmd in
          (<[ i := n1 ]> c, match od with Some (k, d) => log ++ [(i, k, d)] | None => log end)
      | None => (c, log)
      end
  | CDeliver i k d =>
      match c !! i with
      | Some n => (<[ i := node_deliver n k d ]> c, log)
      | None => (c, log)
      end
  end.

Fixpoint crun (c : list node) (log : list (nat * list N * rvalue)) (evs : list cev) :=
  match evs with
  | [] => (c, log)
  | e :: r => let '(c1, l1) := cstep c log e in crun c1 l1 r
  end.

(* ---------- what a client reads ---------- *)
Inductive xread := RdNone | RdStr (s : list N) | RdHash (h : gmap (list N) (list N)).
Global Instance xread_eq_dec : EqDecision xread.
Proof. solve_decision. Defined.
Definition serve (n : node) (k : list N) : xread :=
  match n_x n !! k with Some (XStr s) => RdStr s | Some (XHash h) => RdHash h | None => RdNone end.
(* what the replication state says a client should read *)
Definition state_says (n : node) (k : list N) : xread :=
  match sh_keys (n_sh n) !! k with
  | Some m =>
      match rv_crdt m with
      | CLww r => match lww_get r with Some v => RdStr v | None => RdNone end
      | CHash h => if bool_decide (live_fields h = ∅) then RdNone else RdHash (live_fields h)
      | _ => RdNone
      end
  | None => RdNone
  end.

(* ---------- the class on which convergence is proved ---------- *)
(* [U] assigns to every stamp the one register ever created with it (stamps are unique:
   C08); a value respects U when all its registers are the registered ones. *)
Definition crdt_respects (U : stamp → option lww) (c : crdt) : Prop :=
  match c with
  | CLww r => U (lw_ts r) = Some r
  | CHash h => map_Forall (λ _ r, U (lw_ts r) = Some r) h
  | _ => False
  end.
(* plain: no vector clock, no expiry, no per-key replication factor *)
Definition plain (v : rvalue) : Prop := rv_vc v = None ∧ rv_exp v = None ∧ rv_rf v = None.
Definition in_class (U : stamp → option lww) (K : N) (v : rvalue) : Prop :=
  kind (rv_crdt v) = K ∧ crdt_respects U (rv_crdt v) ∧ plain v.

Definition fold_merge (l : list rvalue) : option rvalue :=
  match l with [] => None | x :: xs => Some (fold_left rv_merge xs x) end.
Definition same_set (l1 l2 : list rvalue) : Prop := ∀ x, In x l1 ↔ In x l2.

(* ---------- crash and restart of a node ---------- *)
(* A node that crashes loses its executor, its replication state and its clock; on restart it
   is rebuilt from what it had persisted, i.e. the deltas it emitted itself (the WAL replay of
   server_persistent.rs: ReplicatedShardedState::apply_recovered_state(None, deltas) feeds them
   through apply_remote_deltas, exactly like deliveries).  What it had received from others
   comes back through ordinary deliveries (gossip, anti-entropy). *)
(* ---------- the counter-like commands: INCR / DECR / INCRBY / DECRBY, GETSET, HINCRBY ---------- *)
(* The executor computes a new string (or hash field) from the current one and the glue records
   a write of the POST-state (record_mutation_post_execute: record_write(key, post value, None),
   resp. record_hash_write(key, [(field, post value)])).  Given the executor's current state
   such a command therefore does exactly what a plain SET of the post value (resp. an HSET of
   that one field) does, or - when it answers an error (not an integer, overflow, WRONGTYPE) -
   nothing.  [desugar] computes that command; the reply is not modelled. *)
Inductive ccmd2 :=
| CIncrBy (k : list N) (d : Z)             (* INCR = 1, DECR = -1, INCRBY d, DECRBY (-d) *)
| CGetSet (k v : list N)
| CHIncrBy (k f : list N) (d : Z).

Definition in_i64 (z : Z) : bool := ((- 9223372036854775808 <=? z) && (z <=? 9223372036854775807))%Z.

Definition desugar (x : gmap (list N) xval) (c : ccmd2) : option ccmd :=
  match c with
  | CIncrBy k d =>
      match x !! k with
      | None => Some (CSet k (Resp.show_Z d) false false)
      | Some (XStr s) =>
          match MiniExec.parse_redis_integer s with
          | Some z => if in_i64 (z + d) then Some (CSet k (Resp.show_Z (z + d)) false false) else None
          | None => None
          end
      | Some (XHash _) => None
      end
  | CGetSet k v =>
      match x !! k with
      | Some (XHash _) => None
      | _ => Some (CSet k v false false)
      end
  | CHIncrBy k f d =>
      match x !! k with
      | Some (XStr _) => None
      | cur =>
          let h := match cur with Some (XHash g) => g | _ => ∅ end in
          let z0 := match h !! f with Some s => MiniExec.parse_redis_integer s | None => Some 0%Z end in
          match z0 with
          | Some z => if in_i64 (z + d) then Some (CHSet k [(f, Resp.show_Z (z + d))]) else None
          | None => None
          end
      end
  end.

Inductive rcev :=
| RStep (e : cev)
| RRestart (i : nat)
| RClient2 (i : nat) (c : ccmd2).

Definition own_deliveries (i : nat) (log : list (nat * list N * rvalue)) : list cev :=
  omap (λ x, if bool_decide (x.1.1 = i) then Some (CDeliver i x.1.2 x.2) else None) log.

Definition rstep (c : list node) (log : list (nat * list N * rvalue)) (e : rcev)
  : list node * list (nat * list N * rvalue) :=
  match e with
  | RStep e => cstep c log e
  | RRestart i =>
      match c !! i with
      | Some _ => crun (<[ i := node_init (N.of_nat (S i)) ]> c) log (own_deliveries i log)
      | None => (c, log)
      end
  | RClient2 i c2 =>
      match c !! i with
      | Some n =>
          match desugar (n_x n) c2 with
          | Some cmd => cstep c log (CClient i cmd)
          | None => (c, log)
          end
      | None => (c, log)
      end
  end.

Fixpoint rrun (c : list node) (log : list (nat * list N * rvalue)) (evs : list rcev) :=
  match evs with
  | [] => (c, log)
  | e :: r => let '(c1, l1) := rstep c log e in rrun c1 l1 r
  end.
